// drv.cpp — correspondence driver: runs the real libCSD code on a case file and
// prints one canonical line per operation (see harness/proto.md).
//
//   drv <casefile> [--timeout <sec>] [--logdir <dir>]
//
// Every case runs in a forked child so that a sanitizer abort, a crash or a
// hang in one case is a *result* ("FAULT ...") and does not hide the others.
// Results go to the descriptor that was stdout at start-up; the library's own
// chatter on std::cout/std::cerr is redirected to the per-case log.

#include <algorithm>
#include <cassert>
#include <cerrno>
#include <csignal>
#include <cstdarg>
#include <cstdint>
#include <cstdio>
#include <cstdlib>
#include <cstring>
#include <fstream>
#include <functional>
#include <iostream>
#include <map>
#include <memory>
#include <mutex>
#include <condition_variable>
#include <thread>
#include <deque>
#include <set>
#include <sstream>
#include <string>
#include <string_view>
#include <vector>
#include <fcntl.h>
#include <sys/types.h>
#include <sys/wait.h>
#include <sys/time.h>
#include <sys/resource.h>
#include <unistd.h>
#include <cmath>
#include <atomic>
#include <chrono>

// The harness reads internal structure (grammar rules, hash slots, packed
// words) without changing behaviour; layout is unaffected by access specifiers.
#define private public
#define protected public
#include "StringDictionary.h"
#include "StringDictionaryHASHRPDACBlocks.h"
#include "iterators/IteratorDictStringPlain.h"
#include "utils/LogSequence.h"
#include "utils/VByte.h"
#include "utils/DAC_VLS.h"
#include "utils/DAC_BVLS.h"
#include "RePair/RePair.h"
#include "Hash/HashUtils.h"
#include "HuTucker/HuTucker.h"
#include "Huffman/Huffman.h"
#include "parallel/Worker.hpp"
#include <BitSequence.h>
#include <BitSequenceRG.h>
#include <BitSequenceRRR.h>
#include <BitSequenceBuilder.h>
#include <Sequence.h>
#include <BitSequenceSDArray.h>
#include <BitSequenceDArray.h>
#include <BitSequenceBuilderRG.h>
#include <BitSequenceBuilderRRR.h>
#include <WaveletTree.h>
#include <WaveletTreeNoptrs.h>
#include <wt_coder_huff.h>
#include <MapperNone.h>
#undef private
#undef protected

using std::string;
using std::vector;

static FILE *OUT = nullptr; // result stream
static string g_case;
static int g_op = 0;

static void emit(const char *fmt, ...) {
  va_list ap;
  va_start(ap, fmt);
  fprintf(OUT, "%s %d ", g_case.c_str(), g_op);
  vfprintf(OUT, fmt, ap);
  fputc('\n', OUT);
  fflush(OUT);
  va_end(ap);
}

static string hex(const uchar *p, size_t n) {
  static const char *d = "0123456789abcdef";
  string r;
  r.reserve(2 * n);
  for (size_t i = 0; i < n; i++) {
    r.push_back(d[p[i] >> 4]);
    r.push_back(d[p[i] & 15]);
  }
  return r;
}
static string hex(const string &s) { return hex((const uchar *)s.data(), s.size()); }
static string unhex(const string &h) {
  string r;
  if (h == "-") return r;
  for (size_t i = 0; i + 1 < h.size(); i += 2) {
    auto v = [](char c) { return c <= '9' ? c - '0' : (c | 32) - 'a' + 10; };
    r.push_back((char)(v(h[i]) * 16 + v(h[i + 1])));
  }
  return r;
}
static uint64_t fnv(const string &s, uint64_t h = 1469598103934665603ULL) {
  for (unsigned char c : s) { h ^= c; h *= 1099511628211ULL; }
  return h;
}
static vector<string> split(const string &l) {
  vector<string> t; std::istringstream is(l); string x;
  while (is >> x) t.push_back(x);
  return t;
}

struct Case {
  string id, stream, kind;
  std::map<string, string> par;
  vector<string> strs;         // dictionary strings (raw bytes)
  vector<vector<string>> ops;  // tokenised ops
  long geti(const string &k, long d) const {
    auto it = par.find(k); return it == par.end() ? d : atol(it->second.c_str());
  }
};

// ---------------------------------------------------------------------------
// Schedule perturbation through the LIBCSD_VERIF_POINT hooks (C09-C11).
struct Perturb {
  int strategy = 0;      // 0 none, 1 random short delays, 2 pause when the wait predicate is false, 3 both, 4 slow producer, 5 slow workers
  uint64_t seed = 1;
};
static Perturb g_perturb;
static std::atomic<uint64_t> g_pcount{0};
static thread_local int tl_phase = 0; // 1 = between "w.locked" and "w.awake" (inside cv.wait / its predicate)

static inline uint64_t mix(uint64_t z) {
  z += 0x9E3779B97F4A7C15ULL; z = (z ^ (z >> 30)) * 0xBF58476D1CE4E5B9ULL; z = (z ^ (z >> 27)) * 0x94D049BB133111EBULL; return z ^ (z >> 31);
}

extern "C" void libcsd_verif_point(const char *where, long value) {
  if (!strcmp(where, "w.locked")) tl_phase = 1;
  else if (!strcmp(where, "w.awake")) tl_phase = 0;
  int st = g_perturb.strategy;
  if (st == 0) return;
  uint64_t n = g_pcount.fetch_add(1);
  uint64_t r = mix(g_perturb.seed * 1315423911ULL + n * 2654435761ULL + (uint64_t)where[0] * 131 + (uint64_t)where[2]);
  (void)value;
  if (st == 1 || st == 3) {
    if (r % 4 == 0) std::this_thread::sleep_for(std::chrono::microseconds(r % 300));
    else if (r % 4 == 1) std::this_thread::yield();
  }
  if (st == 4 && where[0] == 'p') std::this_thread::sleep_for(std::chrono::microseconds(200 + r % 400));
  if (st == 5 && where[0] == 'w') std::this_thread::sleep_for(std::chrono::microseconds(100 + r % 300));
}

// ---------------------------------------------------------------------------
// Pattern buffers: exact-size heap allocations so ASan sees any over-read, and
// a copy to detect modification of the caller's buffer (C14).
struct Pat {
  uchar *p; size_t n; string orig;
  explicit Pat(const string &s) : n(s.size()), orig(s) {
    p = new uchar[n + 1]; memcpy(p, s.data(), n); p[n] = 0;
  }
  bool intact() const { return memcmp(p, orig.data(), n) == 0 && p[n] == 0; }
  ~Pat() { delete[] p; }
};

// ---------------------------------------------------------------------------
// Dictionary construction, the way Build.cpp / the tests do it.
static uchar *plain(const vector<string> &S, size_t &len, size_t extra) {
  len = 0;
  for (auto &s : S) len += s.size() + 1;
  uchar *b = new uchar[len + extra];
  size_t c = 0;
  for (auto &s : S) { memcpy(b + c, s.data(), s.size()); c += s.size(); b[c++] = 0; }
  for (size_t i = 0; i < extra; i++) b[len + i] = 0;
  return b;
}

static bool isHashKind(const string &k) {
  return k == "HASHHF" || k == "HASHRPF" || k == "HASHUFFDAC" || k == "HASHRPDAC" || k == "BLOCKS";
}

static StringDictionary *construct(const Case &c) {
  size_t len;
  const string &k = c.kind;
  uint b = (uint)c.geti("b", 4);
  int ov = (int)c.geti("ov", 25);
  if (k == "PFC" || k == "RPFC" || k == "HTFC" || k == "HHTFC" || k == "RPHTFC") {
    uchar *buf = plain(c.strs, len, 0);
    IteratorDictString *it = new IteratorDictStringPlain(buf, len);
    if (k == "PFC") return new StringDictionaryPFC(it, b);
    if (k == "RPFC") return new StringDictionaryRPFC(it, b);
    if (k == "HTFC") return new StringDictionaryHTFC(it, b);
    if (k == "HHTFC") return new StringDictionaryHHTFC(it, b);
    return new StringDictionaryRPHTFC(it, b);
  }
  if (k == "RPDAC") {
    uchar *buf = plain(c.strs, len, 0);
    return new StringDictionaryRPDAC(new IteratorDictStringPlain(buf, len));
  }
  if (k == "HASHHF" || k == "HASHRPF" || k == "HASHUFFDAC" || k == "HASHRPDAC") {
    uchar *buf = plain(c.strs, len, 1);
    IteratorDictString *it = new IteratorDictStringPlain(buf, len);
    if (k == "HASHHF") return new StringDictionaryHASHHF(it, len, ov);
    if (k == "HASHRPF") return new StringDictionaryHASHRPF(it, len, ov);
    if (k == "HASHUFFDAC") return new StringDictionaryHASHUFFDAC(it, len, ov);
    return new StringDictionaryHASHRPDAC(it, len, ov);
  }
  if (k == "BLOCKS") {
    uchar *buf = plain(c.strs, len, 1);
    auto *it = new IteratorDictStringPlain(buf, len);
    unsigned long cut = (unsigned long)c.geti("cut", 64);
    int thr = (int)c.geti("thr", 1);
    return new StringDictionaryHASHRPDACBlocks(it, len, ov, cut, thr);
  }
  if (k == "FMINDEX") {
    uchar *buf = plain(c.strs, len, 0);
    IteratorDictString *it = new IteratorDictStringPlain(buf, len);
    auto *d = new StringDictionaryFMINDEX(it, c.geti("rrr", 0) != 0, (uint)c.geti("bs", 20),
                                          (uint)c.geti("bwt", 4));
    delete it;
    return d;
  }
  if (k == "XBW") {
    uchar *buf = plain(c.strs, len, 0);
    IteratorDictString *it = new IteratorDictStringPlain(buf, len - 1);
    auto *d = new StringDictionaryXBW(it);
    delete it;
    return d;
  }
  return nullptr;
}

static StringDictionary *loadOwn(const string &k, std::istream &in, uint opt) {
  if (k == "PFC") return StringDictionaryPFC::load(in);
  if (k == "RPFC") return StringDictionaryRPFC::load(in);
  if (k == "HTFC") return StringDictionaryHTFC::load(in);
  if (k == "HHTFC") return StringDictionaryHHTFC::load(in);
  if (k == "RPHTFC") return StringDictionaryRPHTFC::load(in);
  if (k == "RPDAC") return StringDictionaryRPDAC::load(in);
  if (k == "HASHHF") return StringDictionaryHASHHF::load(in, opt);
  if (k == "HASHRPF") return StringDictionaryHASHRPF::load(in, opt);
  if (k == "HASHUFFDAC") return StringDictionaryHASHUFFDAC::load(in);
  if (k == "HASHRPDAC") return StringDictionaryHASHRPDAC::load(in);
  if (k == "BLOCKS") return StringDictionaryHASHRPDACBlocks::load(in);
  if (k == "FMINDEX") return StringDictionaryFMINDEX::load(in);
  if (k == "XBW") return StringDictionaryXBW::load(in);
  return nullptr;
}

static string saveImage(StringDictionary *d) {
  std::stringstream ss(std::ios::in | std::ios::out | std::ios::binary);
  d->save(ss);
  return ss.str();
}

// ---------------------------------------------------------------------------
static string joinIds(const vector<size_t> &v) {
  string r;
  for (size_t i = 0; i < v.size(); i++) { if (i) r += ","; r += std::to_string(v[i]); }
  return r.empty() ? "-" : r;
}
static string joinStrs(const vector<string> &v) {
  if (v.empty()) return "-";
  if (v.size() > 48) {
    uint64_t h = 1469598103934665603ULL;
    for (auto &s : v) { h = fnv(s, h); h = fnv(string(1, '\0'), h); }
    char b[64]; snprintf(b, sizeof b, "#%zu:%016llx", v.size(), (unsigned long long)h);
    return b;
  }
  string r;
  for (size_t i = 0; i < v.size(); i++) { if (i) r += ","; r += v[i].empty() ? "e" : hex(v[i]); }
  return r;
}

static const size_t ITER_CAP = 200000; // an iterator yielding more than this is reported

static vector<size_t> drainIds(IteratorDictID *it, bool &overflow) {
  vector<size_t> v; overflow = false;
  if (!it) return v;
  while (it->hasNext()) {
    v.push_back(it->next());
    if (v.size() > ITER_CAP) { overflow = true; break; }
  }
  delete it;
  return v;
}
// Drains a string iterator; checks NUL termination and reported length.
static vector<string> drainStrs(IteratorDictString *it, string &flaw) {
  vector<string> v;
  if (!it) return v;
  while (it->hasNext()) {
    uint l = 0;
    uchar *s = it->next(&l);
    if (!s) { flaw = "null-string"; break; }
    if (strlen((char *)s) != l) flaw = "badlen";
    v.emplace_back((char *)s, strlen((char *)s));
    delete[] s;
    if (v.size() > ITER_CAP) { flaw = "overflow"; break; }
  }
  delete it;
  return v;
}

struct OpenIter { IteratorDictID *ids = nullptr; IteratorDictString *strs = nullptr; };

static void runDict(const Case &c) {
  StringDictionary *d = construct(c);
  if (!d) { emit("ERR unknown-kind"); return; }
  const string &k = c.kind;
  bool unordered = (k == "XBW");
  std::map<string, OpenIter> open;
  std::map<string, StringDictionary *> others; // C14: fresh copies
  for (auto &op : c.ops) {
    g_op++;
    const string &o = op[0];
    if (o == "loc") {
      Pat p(unhex(op[1]));
      unsigned long id = d->locate(p.p, (uint)p.n);
      emit("L %lu%s", id, p.intact() ? "" : " PATMOD");
    } else if (o == "rt") { // locate then extract: canonical for kinds whose IDs the spec does not fix
      Pat p(unhex(op[1]));
      unsigned long id = d->locate(p.p, (uint)p.n);
      if (id == 0) emit("RT 0%s", p.intact() ? "" : " PATMOD");
      else {
        uint l = 0; uchar *s = d->extract(id, &l);
        bool inr = id >= 1 && id <= d->numElements();
        if (!s) emit("RT null-for-id inrange=%d", (int)inr);
        else {
          emit("RT %s inrange=%d%s%s", hex(s, strlen((char *)s)).c_str(), (int)inr,
               strlen((char *)s) == l ? "" : " BADLEN", p.intact() ? "" : " PATMOD");
          delete[] s;
        }
      }
    } else if (o == "ext") {
      size_t id = strtoull(op[1].c_str(), nullptr, 10);
      uint l = 12345; uchar *s = d->extract(id, &l);
      if (!s) emit("E NULL %u", l);
      else { emit("E %s%s", l || strlen((char*)s) ? hex(s, strlen((char *)s)).c_str() : "e", strlen((char *)s) == l ? "" : " BADLEN"); delete[] s; }
    } else if (o == "exts") { // all of extract(1..n), sorted (bijection onto S)
      vector<string> v; string flaw;
      size_t n = d->numElements();
      for (size_t i = 1; i <= n && i <= ITER_CAP; i++) {
        uint l = 0; uchar *s = d->extract(i, &l);
        if (!s) { flaw = "null"; continue; }
        if (strlen((char *)s) != l) flaw = "badlen";
        v.emplace_back((char *)s); delete[] s;
      }
      std::sort(v.begin(), v.end(), [](const string &a, const string &b) {
        return std::lexicographical_compare((const uchar *)a.data(), (const uchar *)a.data() + a.size(),
                                            (const uchar *)b.data(), (const uchar *)b.data() + b.size()); });
      emit("XS %s%s", joinStrs(v).c_str(), flaw.empty() ? "" : (" " + flaw).c_str());
    } else if (o == "pre" || o == "sub") {
      Pat p(unhex(op[1]));
      IteratorDictID *it = o == "pre" ? d->locatePrefix(p.p, (uint)p.n) : d->locateSubstr(p.p, (uint)p.n);
      bool ovf; vector<size_t> v = drainIds(it, ovf);
      if (unordered) std::sort(v.begin(), v.end());
      emit("%s %s%s%s", o == "pre" ? "P" : "B", joinIds(v).c_str(), ovf ? " OVERFLOW" : "", p.intact() ? "" : " PATMOD");
    } else if (o == "xpre" || o == "xsub") {
      Pat p(unhex(op[1]));
      IteratorDictString *it = o == "xpre" ? d->extractPrefix(p.p, (uint)p.n) : d->extractSubstr(p.p, (uint)p.n);
      string flaw; vector<string> v = drainStrs(it, flaw);
      if (unordered) std::sort(v.begin(), v.end());
      emit("%s %s%s%s", o == "xpre" ? "XP" : "XB", joinStrs(v).c_str(), flaw.empty() ? "" : (" " + flaw).c_str(), p.intact() ? "" : " PATMOD");
    } else if (o == "lrk") {
      uint r = (uint)strtoul(op[1].c_str(), nullptr, 10);
      emit("LR %u", d->locateRank(r));
    } else if (o == "xrk") {
      uint r = (uint)strtoul(op[1].c_str(), nullptr, 10);
      uint l = 0; uchar *s = d->extractRank(r, &l);
      if (!s) emit("XR NULL"); else { emit("XR %s%s", hex(s, strlen((char *)s)).c_str(), strlen((char *)s) == l ? "" : " BADLEN"); delete[] s; }
    } else if (o == "tab" || o == "tabs") {
      string flaw; vector<string> v = drainStrs(d->extractTable(), flaw);
      if (o == "tabs") std::sort(v.begin(), v.end(), [](const string &a, const string &b) {
        return std::lexicographical_compare((const uchar *)a.data(), (const uchar *)a.data() + a.size(),
                                            (const uchar *)b.data(), (const uchar *)b.data() + b.size()); });
      emit("T %s%s", joinStrs(v).c_str(), flaw.empty() ? "" : (" " + flaw).c_str());
    } else if (o == "tabh" || o == "xph") { // summaries for large dictionaries: count + hash of the strings (each followed by a 0)
      string flaw; vector<string> v;
      Pat p(unhex(op.size() > 1 ? op[1] : "-"));
      if (o == "tabh") v = drainStrs(d->extractTable(), flaw); else v = drainStrs(d->extractPrefix(p.p, (uint)p.n), flaw);
      if (unordered || isHashKind(k)) std::sort(v.begin(), v.end(), [](const string &a, const string &b) {
        return std::lexicographical_compare((const uchar *)a.data(), (const uchar *)a.data() + a.size(),
                                            (const uchar *)b.data(), (const uchar *)b.data() + b.size()); });
      uint64_t h = 1469598103934665603ULL;
      for (auto &x : v) { h = fnv(x, h); h = fnv(string(1, '\0'), h); }
      emit("%s %zu %016llx%s", o == "tabh" ? "TH" : "XH", v.size(), (unsigned long long)h, flaw.empty() ? "" : (" " + flaw).c_str());
    } else if (o == "tabx") { // k-th table entry == extract(k)
      string flaw; vector<string> v = drainStrs(d->extractTable(), flaw);
      size_t bad = 0;
      for (size_t i = 0; i < v.size(); i++) {
        uint l; uchar *s = d->extract(i + 1, &l);
        if (!s || v[i] != string((char *)s)) bad++;
        delete[] s;
      }
      emit("TX %zu bad=%zu%s", v.size(), bad, flaw.empty() ? "" : (" " + flaw).c_str());
    } else if (o == "meta") {
      // maxLength must bound every member and exceed the longest by at most one (C15)
      size_t longest = 0;
      for (auto &x : c.strs) longest = std::max(longest, x.size());
      uint ml = d->maxLength();
      if (ml >= longest && ml <= longest + 1) emit("M %zu ok", d->numElements());
      else emit("M %zu BAD(maxLength=%u,longest=%zu)", d->numElements(), ml, longest);
    } else if (o == "save") {
      string img = saveImage(d);
      emit("S %zu %016llx", img.size(), (unsigned long long)fnv(img));
    } else if (o == "image") { // full image bytes (D1 kinds, small dictionaries)
      string img = saveImage(d);
      emit("I %s", hex(img).c_str());
    } else if (o == "save2") {
      string a = saveImage(d), b = saveImage(d);
      emit("S2 %s", a == b ? "same" : "diff");
    } else if (o == "reload") { // op[1] = own|generic ; op[2] = load option
      string how = op.size() > 1 ? op[1] : "own";
      uint opt = op.size() > 2 ? (uint)atoi(op[2].c_str()) : 1;
      string img = saveImage(d);
      string trailer = "\x7f\x7e\x7d\x7c\x7b\x7a\x79\x78";
      std::stringstream ss(img + trailer, std::ios::in | std::ios::out | std::ios::binary);
      StringDictionary *nd = how == "own" ? loadOwn(k, ss, opt) : StringDictionary::load(ss, opt);
      if (!nd) { emit("R NULL"); }
      else {
        long pos = (long)ss.tellg();
        emit("R ok consumed=%s", pos == (long)img.size() ? "all" : (std::to_string(pos) + "/" + std::to_string(img.size())).c_str());
        delete d; d = nd;
      }
    } else if (o == "resave") { // save -> load -> save: same bytes?
      uint opt = op.size() > 1 ? (uint)atoi(op[1].c_str()) : 1;
      string a = saveImage(d);
      std::stringstream ss(a, std::ios::in | std::ios::out | std::ios::binary);
      StringDictionary *nd = loadOwn(k, ss, opt);
      if (!nd) emit("RS NULL");
      else { string b2 = saveImage(nd); emit("RS %s", a == b2 ? "same" : "diff"); delete nd; }
    } else if (o == "foreign") { // own loader of kind op[1] on this image
      string img = saveImage(d);
      std::stringstream ss(img, std::ios::in | std::ios::out | std::ios::binary);
      StringDictionary *nd = loadOwn(op[1], ss, op.size() > 2 ? (uint)atoi(op[2].c_str()) : 1);
      emit("F %s", nd ? "LOADED" : "NULL");
      delete nd;
    } else if (o == "badtag") { // this image with its 32-bit type tag overwritten, through the generic loader
      string img = saveImage(d);
      uint32_t tag = (uint32_t)strtoul(op[1].c_str(), nullptr, 10);
      if (img.size() >= 4) memcpy(&img[0], &tag, 4);
      std::stringstream ss(img, std::ios::in | std::ios::out | std::ios::binary);
      StringDictionary *nd = StringDictionary::load(ss, op.size() > 2 ? (uint)atoi(op[2].c_str()) : 1);
      emit("BT %s", nd ? "LOADED" : "NULL");
      delete nd;
    } else if (o == "blocksdet") { // blocksdet <strategy> <seed> <thr> <thr> ... : images equal the single-thread image
      Case c1 = c; c1.par["thr"] = "1";
      g_perturb.strategy = 0;
      StringDictionary *d1 = construct(c1);
      string ref = saveImage(d1); delete d1;
      string verdict = "same";
      for (size_t i = 3; i < op.size(); i++) {
        Case ci = c; ci.par["thr"] = op[i];
        g_perturb.strategy = atoi(op[1].c_str());
        g_perturb.seed = strtoull(op[2].c_str(), nullptr, 10) + i;
        StringDictionary *di = construct(ci);
        g_perturb.strategy = 0;
        // every block is complete when the constructor returns
        auto *bd = (StringDictionaryHASHRPDACBlocks *)di;
        for (auto *p : bd->parts) if (!p) verdict = "incomplete@thr" + op[i];
        string img = verdict == "same" ? saveImage(di) : string();
        delete di;
        if (verdict == "same" && img != ref) verdict = "diff@thr" + op[i];
      }
      emit("BD %s", verdict.c_str());
    } else if (o == "iopen") { // iopen <name> pre|xpre|sub|xsub|tab <hex>
      Pat p(unhex(op.size() > 3 ? op[3] : "-"));
      OpenIter oi;
      if (op[2] == "pre") oi.ids = d->locatePrefix(p.p, (uint)p.n);
      else if (op[2] == "sub") oi.ids = d->locateSubstr(p.p, (uint)p.n);
      else if (op[2] == "xpre") oi.strs = d->extractPrefix(p.p, (uint)p.n);
      else if (op[2] == "xsub") oi.strs = d->extractSubstr(p.p, (uint)p.n);
      else if (op[2] == "tab") oi.strs = d->extractTable();
      open[op[1]] = oi;
      emit("IO %s", (oi.ids || oi.strs) ? "open" : "null");
    } else if (o == "inext") { // inext <name> <k>
      OpenIter &oi = open[op[1]];
      int kk = atoi(op[2].c_str());
      vector<size_t> ids; vector<string> ss; string flaw;
      for (int i = 0; i < kk; i++) {
        if (oi.ids) { if (!oi.ids->hasNext()) break; ids.push_back(oi.ids->next()); }
        else if (oi.strs) {
          if (!oi.strs->hasNext()) break;
          uint l; uchar *s = oi.strs->next(&l);
          if (strlen((char *)s) != l) flaw = " badlen";
          ss.emplace_back((char *)s); delete[] s;
        }
      }
      if (oi.ids) emit("IN %s", joinIds(ids).c_str());
      else emit("IN %s%s", joinStrs(ss).c_str(), flaw.c_str());
    } else if (o == "iclose") {
      OpenIter &oi = open[op[1]];
      delete oi.ids; delete oi.strs; open.erase(op[1]);
      emit("IC");
    } else {
      emit("ERR unknown-op %s", o.c_str());
    }
  }
  for (auto &kv : open) { delete kv.second.ids; delete kv.second.strs; }
  delete d;
  g_op++;
  emit("END");
}

// ---------------------------------------------------------------------------
// Component streams
static void runVByte(const Case &c) {
  for (auto &op : c.ops) {
    g_op++;
    if (op[0] == "enc") {
      uint v = (uint)strtoul(op[1].c_str(), nullptr, 10);
      uchar *buf = new uchar[5];
      uint n = VByte::encode(v, buf);
      uchar *b2 = new uchar[5];
      uint n2 = encodeVB2(v, b2);
      bool same = n == n2 && memcmp(buf, b2, n) == 0;
      // decode from an exact-size buffer
      uchar *ex = new uchar[n]; memcpy(ex, buf, n);
      uint back = 0; uint m = VByte::decode(&back, ex);
      uint back2 = 0; uint m2 = decodeVB2(&back2, ex);
      emit("VE %s dec=%u used=%u vb2=%s", hex(buf, n).c_str(), back, m, (same && back2 == back && m2 == m) ? "same" : "DIFF");
      delete[] buf; delete[] b2; delete[] ex;
    } else if (op[0] == "dec") {
      string b = unhex(op[1]);
      uchar *ex = new uchar[b.size()]; memcpy(ex, b.data(), b.size());
      uint v = 0; uint m = VByte::decode(&v, ex);
      emit("VD %u %u", v, m);
      delete[] ex;
    } else emit("ERR unknown-op");
  }
}

static void runLogSeq(const Case &c) {
  uint w = (uint)c.geti("w", 8);
  size_t n = (size_t)c.geti("n", 8);
  LogSequence *ls = new LogSequence(w, n);
  for (auto &op : c.ops) {
    g_op++;
    if (op[0] == "set") {
      size_t i = strtoull(op[1].c_str(), nullptr, 10); size_t v = strtoull(op[2].c_str(), nullptr, 10);
      ls->setField(i, v); emit("LS ok");
    } else if (op[0] == "get") {
      size_t i = strtoull(op[1].c_str(), nullptr, 10);
      emit("LG %zu", ls->getField(i));
    } else if (op[0] == "all") {
      string r;
      for (size_t i = 0; i < n; i++) { if (i) r += ","; r += std::to_string(ls->getField(i)); }
      emit("LA %s", r.c_str());
    } else if (op[0] == "image") {
      std::stringstream ss(std::ios::in | std::ios::out | std::ios::binary);
      ls->save(ss);
      emit("LI %s", hex(ss.str()).c_str());
    } else if (op[0] == "reload") {
      std::stringstream ss(std::ios::in | std::ios::out | std::ios::binary);
      ls->save(ss);
      string img = ss.str();
      std::stringstream s2(img + "TRAILER!", std::ios::in | std::ios::out | std::ios::binary);
      LogSequence *nl = new LogSequence(s2);
      emit("LR consumed=%s", (long)s2.tellg() == (long)img.size() ? "all" : "not-all");
      delete ls; ls = nl;
    } else if (op[0] == "vec") { // rebuild from the vector constructor
      std::vector<size_t> v;
      for (size_t i = 1; i < op.size(); i++) v.push_back(strtoull(op[i].c_str(), nullptr, 10));
      delete ls; ls = new LogSequence(&v, w); n = v.size();
      emit("LV ok");
    } else emit("ERR unknown-op");
  }
  delete ls;
}

#if !defined(__SANITIZE_THREAD__)
// The window in which a wake-up can be lost lies between the wait predicate
// returning false and the thread being registered as a waiter inside
// pthread_cond_wait. Widen exactly that window: the caller still owns the mutex.
#include <dlfcn.h>
extern "C" int pthread_cond_wait(pthread_cond_t *cnd, pthread_mutex_t *mtx) {
  typedef int (*fn_t)(pthread_cond_t *, pthread_mutex_t *);
  static fn_t real = (fn_t)dlsym(RTLD_NEXT, "pthread_cond_wait");
  if (tl_phase == 1 && (g_perturb.strategy == 2 || g_perturb.strategy == 3)) {
    uint64_t r = mix(g_perturb.seed + g_pcount.fetch_add(1));
    std::this_thread::sleep_for(std::chrono::microseconds(800 + r % 1500));
  }
  return real(cnd, mtx);
}
#endif

static void runPool(const Case &c) {
  for (auto &op : c.ops) {
    g_op++;
    if (op[0] == "pool") { // pool <N> <T> <stopmode> <strategy> <seed>
      int N = atoi(op[1].c_str()), T = atoi(op[2].c_str());
      string mode = op[3];
      g_perturb.strategy = atoi(op[4].c_str());
      g_perturb.seed = strtoull(op[5].c_str(), nullptr, 10);
      std::vector<std::atomic<int>> counts(T > 0 ? T : 1);
      for (auto &x : counts) x = 0;
      std::atomic<int> running{0}, maxrunning_same{0};
      std::vector<std::atomic<int>> active(T > 0 ? T : 1);
      for (auto &x : active) x = 0;
      std::mutex m; std::condition_variable cv; int done = 0;
      {
        WorkerPool wpool(N);
        for (int i = 0; i < T; i++) {
          wpool.add_task([&, i]() {
            if (active[i].fetch_add(1) != 0) maxrunning_same = 1; // a task concurrent with itself
            counts[i]++;
            volatile unsigned long rr = 0;
            for (unsigned long j = 0; j < 200; j++) rr += (rr + j * i) ^ rr;
            active[i].fetch_sub(1);
            bool last = false;
            { std::lock_guard<std::mutex> lg(m); done++; last = (done == T); }
            cv.notify_all();
            if (mode == "stoplast" && last) wpool.stop_all_workers();
          });
        }
        if (mode == "waitdone") {
          std::unique_lock<std::mutex> ul(m);
          cv.wait(ul, [&]() { return done == T; });
          ul.unlock();
          wpool.stop_all_workers();
        } else if (mode == "stopnow" || (mode == "stoplast" && T == 0)) {
          wpool.stop_all_workers();
        }
        wpool.wait_workers();
      }
      int ran = 0, mx = 0;
      for (int i = 0; i < T; i++) { ran += counts[i]; mx = std::max(mx, (int)counts[i]); }
      emit("PL tasks=%d ran=%d maxcount=%d selfconcurrent=%d joined=1", T, ran, mx, (int)maxrunning_same);
      g_perturb.strategy = 0;
    } else emit("ERR unknown-op");
  }
}

// ---------------------------------------------------------------------------
// C18: code tables exported for re-validation by the Lean driver (two-phase).
static vector<string> splitc(const string &s, char sep = ',') {
  vector<string> r; string cur;
  for (char ch : s) { if (ch == sep) { r.push_back(cur); cur.clear(); } else cur.push_back(ch); }
  r.push_back(cur);
  return r;
}

static void runCodes(const Case &c) {
  for (auto &op : c.ops) {
    g_op++;
    if (op[0] == "hu" || op[0] == "hf") {
      auto f = splitc(op[1]);
      uint *occ = new uint[256];
      for (int i = 0; i < 256; i++) occ[i] = i < (int)f.size() ? (uint)strtoul(f[i].c_str(), nullptr, 10) : 1;
      Codeword *cw = nullptr;
      HuTucker *ht = nullptr; Huffman *hf = nullptr;
      if (op[0] == "hu") { ht = new HuTucker(occ); cw = ht->obtainCodewords(); }
      else { hf = new Huffman(occ); cw = hf->obtainCodewords(); }
      string r;
      for (int i = 0; i < 256; i++) {
        char b[40]; snprintf(b, sizeof b, "%s%u:%x", i ? "," : "", cw[i].bits, cw[i].codeword);
        r += b;
      }
      // the real encoder on words that put the longest codewords at every bit offset of a byte
      string enc;
      {
        vector<int> order(256);
        for (int i = 0; i < 256; i++) order[i] = i;
        std::stable_sort(order.begin(), order.end(), [&](int a, int b) { return cw[a].bits > cw[b].bits; });
        int shortest = order[255];
        StatCoder coder(cw);
        for (int k = 0; k < 12; k++) {
          string w;
          for (int t = 0; t < k; t++) w.push_back((char)shortest);
          for (int t = 0; t < 6; t++) { w.push_back((char)order[t]); if (t % 2) w.push_back((char)order[(t + k) % 256]); }
          uint encLen = 0, off = 0;
          uchar *e = coder.encodeString((uchar *)w.data(), (uint)w.size(), &encLen, &off);
          enc += (k ? ";" : "") + hex(w) + ":" + hex(e, encLen);
          delete[] e;
        }
      }
      emit("CT %s %s %s", op[0].c_str(), r.c_str(), enc.c_str());
      delete[] cw; delete ht; delete hf; delete[] occ;
    } else emit("ERR unknown-op");
  }
}

// C19: bit sequences and wavelet-tree sequences against the plain definitions.
static void runBits(const Case &c) {
  for (auto &op : c.ops) {
    g_op++;
    if (op[0] == "bv") { // bv <impl> <param> <nbits> <hex of bytes, bit k = byte k/8 bit k%8>
      string impl = op[1]; uint par = (uint)atoi(op[2].c_str()); size_t n = strtoull(op[3].c_str(), nullptr, 10);
      string bytes = unhex(op[4]);
      size_t words = n / 32 + 2;
      uint *arr = new uint[words];
      for (size_t i = 0; i < words; i++) arr[i] = 0;
      for (size_t k = 0; k < n; k++) if ((bytes[k / 8] >> (k % 8)) & 1) arr[k / 32] |= (1u << (k % 32));
      cds_static::BitSequence *bs = nullptr;
      if (impl == "rg") bs = new cds_static::BitSequenceRG(arr, n, par);
      else if (impl == "rrr") bs = new cds_static::BitSequenceRRR(arr, n, par);
      else if (impl == "sd") bs = new cds_static::BitSequenceSDArray(arr, n);
      else if (impl == "da") bs = new cds_static::BitSequenceDArray(arr, n);
      bool reload = op.size() > 5 && op[5] == "reload";
      string rgimg = "-";
      if (bs && impl == "rg") {   // the image of the built object (exact model of save / BuildRank)
        std::stringstream ss(std::ios::in | std::ios::out | std::ios::binary);
        bs->save(ss);
        rgimg = hex(ss.str());
      }
      if (bs && reload) {
        std::stringstream ss(std::ios::in | std::ios::out | std::ios::binary);
        bs->save(ss);
        cds_static::BitSequence *b2 = cds_static::BitSequence::load(ss);
        delete bs; bs = b2;
      }
      if (!bs) { emit("BV null"); delete[] arr; continue; }
      string acc, r1, r0, s1, s0;
      size_t ones = 0;
      for (size_t k = 0; k < n; k++) {
        acc += bs->access(k) ? '1' : '0';
        r1 += (k ? "," : "") + std::to_string(bs->rank1(k));
        r0 += (k ? "," : "") + std::to_string(bs->rank0(k));
        if ((bytes[k / 8] >> (k % 8)) & 1) ones++;
      }
      for (size_t j = 1; j <= ones; j++) s1 += (j > 1 ? "," : "") + std::to_string(bs->select1(j));
      for (size_t j = 1; j <= n - ones; j++) s0 += (j > 1 ? "," : "") + std::to_string(bs->select0(j));
      emit("BV n=%zu acc=%s r1=%s r0=%s s1=%s s0=%s cnt=%zu img=%s", n, acc.empty() ? "-" : acc.c_str(), r1.empty() ? "-" : r1.c_str(),
           r0.empty() ? "-" : r0.c_str(), s1.empty() ? "-" : s1.c_str(), s0.empty() ? "-" : s0.c_str(), bs->countOnes(), rgimg.c_str());
      delete bs; delete[] arr;
    } else if (op[0] == "bvh") { // bvh <impl> <param> <nbits> <hex>: long vectors, self-checked against the plain definitions, summary only
      string impl = op[1]; uint par = (uint)atoi(op[2].c_str()); size_t n = strtoull(op[3].c_str(), nullptr, 10);
      string bytes = unhex(op[4]);
      size_t words = n / 32 + 2;
      uint *arr = new uint[words];
      for (size_t i = 0; i < words; i++) arr[i] = 0;
      vector<size_t> pos1, pos0;
      for (size_t k = 0; k < n; k++) {
        bool b = (bytes[k / 8] >> (k % 8)) & 1;
        if (b) { arr[k / 32] |= (1u << (k % 32)); pos1.push_back(k); } else pos0.push_back(k);
      }
      size_t badTotal[2] = {0, 0}; string first;
      for (int phase = 0; phase < 2; phase++) {
        cds_static::BitSequence *bs = nullptr;
        if (impl == "rg") bs = new cds_static::BitSequenceRG(arr, n, par);
        else if (impl == "rrr") bs = new cds_static::BitSequenceRRR(arr, n, par);
        else if (impl == "sd") bs = new cds_static::BitSequenceSDArray(arr, n);
        else if (impl == "da") bs = new cds_static::BitSequenceDArray(arr, n);
        if (bs && phase == 1) {
          std::stringstream ss(std::ios::in | std::ios::out | std::ios::binary);
          bs->save(ss);
          cds_static::BitSequence *b2 = cds_static::BitSequence::load(ss);
          delete bs; bs = b2;
        }
        if (!bs) { badTotal[phase] = 1; if (first.empty()) first = "null-object"; continue; }
        size_t bad = 0;
        auto note = [&](const char *what, size_t arg, size_t got, size_t want) {
          bad++;
          if (first.empty()) { char b[160]; snprintf(b, sizeof b, "%s(%zu)=%zu,expected=%zu,%s", what, arg, got, want, phase ? "reloaded" : "built"); first = b; }
        };
        // every rank when there are at most 60000 of them, otherwise the first and last 3000 and every 13th
        auto take = [](size_t j, size_t cnt) { return cnt <= 60000 || j <= 3000 || j + 3000 > cnt || j % 13 == 0; };
        for (size_t j = 1; j <= pos1.size(); j++) if (take(j, pos1.size())) { size_t g = bs->select1(j); if (g != pos1[j - 1]) note("select1", j, g, pos1[j - 1]); }
        for (size_t j = 1; j <= pos0.size(); j++) if (take(j, pos0.size())) { size_t g = bs->select0(j); if (g != pos0[j - 1]) note("select0", j, g, pos0[j - 1]); }
        size_t r = 0, nx = 0;
        for (size_t k = 0; k < n; k++) {
          bool b = (bytes[k / 8] >> (k % 8)) & 1;
          if (b) r++;
          if (k == nx || k + 1 == n || k % 32 == 31 || k % 32 == 0) {
            if (k == nx) nx += 97;
            size_t g = bs->rank1(k); if (g != r) note("rank1", k, g, r);
            size_t g0 = bs->rank0(k); if (g0 != k + 1 - r) note("rank0", k, g0, k + 1 - r);
            bool a = bs->access(k); if (a != b) note("access", k, a, b);
          }
        }
        if (bs->countOnes() != pos1.size()) note("countOnes", 0, bs->countOnes(), pos1.size());
        badTotal[phase] = bad;
        delete bs;
      }
      emit("BVH n=%zu ones=%zu bad=%zu bad_reloaded=%zu%s%s", n, pos1.size(), badTotal[0], badTotal[1], first.empty() ? "" : " first=", first.c_str());
      delete[] arr;
    } else if (op[0] == "wt") { // wt <impl> <comma separated symbols> [reload]
      string impl = op[1];
      auto f = splitc(op[2]);
      size_t n = f.size();
      uint *seq = new uint[n];
      uint mx = 0;
      for (size_t i = 0; i < n; i++) { seq[i] = (uint)strtoul(f[i].c_str(), nullptr, 10); mx = std::max(mx, seq[i]); }
      cds_static::Sequence *sq = nullptr;
      cds_static::Mapper *am = new cds_static::MapperNone();
      cds_static::BitSequenceBuilder *bsb = new cds_static::BitSequenceBuilderRG(20);
      if (impl == "wt") {
        cds_static::wt_coder *wc = new cds_static::wt_coder_huff(seq, n, am);
        sq = new cds_static::WaveletTree(seq, n, wc, bsb, am);
      } else {
        sq = new cds_static::WaveletTreeNoptrs(seq, n, bsb, am);
      }
      bool reload = op.size() > 3 && op[3] == "reload";
      if (reload) {
        std::stringstream ss(std::ios::in | std::ios::out | std::ios::binary);
        sq->save(ss);
        cds_static::Sequence *s2 = cds_static::Sequence::load(ss);
        delete sq; sq = s2;
      }
      if (!sq) { emit("WT null"); continue; }
      string acc, rk, sl;
      for (size_t i = 0; i < n; i++) acc += (i ? "," : "") + std::to_string(sq->access(i));
      // rank(c, i) for every symbol c <= max and a grid of i; select(c, j) for every occurrence
      for (uint cc = 0; cc <= mx; cc++) {
        size_t occ = 0;
        for (size_t i = 0; i < n; i++) {
          if (seq[i] == cc) occ++;
          if (i % 3 == 0 || i + 1 == n) rk += std::to_string(sq->rank(cc, i)) + ",";
        }
        for (size_t j = 1; j <= occ; j++) sl += std::to_string(sq->select(cc, j)) + ",";
      }
      emit("WT n=%zu acc=%s rk=%s sl=%s", n, acc.c_str(), rk.empty() ? "-" : rk.c_str(), sl.empty() ? "-" : sl.c_str());
      delete sq; delete[] seq;
    } else emit("ERR unknown-op");
  }
}

// C20: the grammar and compacted sequence the real compressor produces (two-phase).
// C17: DAC_VLS built from a list of sequences: internal layout and every access path.
static void runDac(const Case &c) {
  for (auto &op : c.ops) {
    g_op++;
    if (op[0] == "dimg") { // dimg <log_r> <a,b,c;d;e,f>: the saved image and the fields it is made of
      uint logr = (uint)atoi(op[1].c_str());
      auto seqs = splitc(op[2], ';');
      vector<vector<uint>> L;
      for (auto &sq : seqs) { vector<uint> v; for (auto &x : splitc(sq)) v.push_back((uint)strtoul(x.c_str(), nullptr, 10)); L.push_back(v); }
      size_t maxseq = 0, total = 0;
      for (auto &v : L) { total += v.size() + 1; maxseq = std::max(maxseq, v.size()); }
      int *list = new int[total + 1];
      size_t ic = 0;
      for (size_t i = 0; i < L.size(); i++) { for (uint x : L[i]) list[ic++] = (int)x; list[ic++] = -(int)(i + 1); }
      DAC_VLS *d = new DAC_VLS(list, (uint)ic, logr, (uint)maxseq);
      delete[] list;
      std::stringstream ss(std::ios::in | std::ios::out | std::ios::binary);
      d->save(ss);
      auto joinw = [](const uint *a, size_t n) { string r; for (size_t i = 0; i < n; i++) r += (i ? "," : "") + std::to_string(a[i]); return r.empty() ? string("-") : r; };
      cds_static::BitSequenceRG *bs = (cds_static::BitSequenceRG *)d->bS;
      emit("DI img=%s tam=%u ll=%u nl=%u bb=%u li=%s lv=%s rl=%s bn=%zu bf=%zu bd=%s br=%s", hex(ss.str()).c_str(), d->tamCode, d->listLength,
           d->nLevels, (uint)d->base_bits, joinw(d->levelsIndex, d->nLevels + 1).c_str(), joinw(d->levels, d->tamCode / 32 + 1).c_str(),
           joinw(d->rankLevels, d->nLevels).c_str(), (size_t)bs->n, (size_t)bs->factor, joinw(bs->data, bs->integers).c_str(),
           joinw(bs->Rs, bs->n / bs->s + 1).c_str());
      delete d;
    } else if (op[0] == "dac") { // dac <log_r> <a,b,c;d;e,f> [reload]
      uint logr = (uint)atoi(op[1].c_str());
      auto seqs = splitc(op[2], ';');
      vector<vector<uint>> L;
      for (auto &sq : seqs) { vector<uint> v; for (auto &x : splitc(sq)) v.push_back((uint)strtoul(x.c_str(), nullptr, 10)); L.push_back(v); }
      size_t total = 0, maxseq = 0;
      for (auto &v : L) { total += v.size() + 1; maxseq = std::max(maxseq, v.size()); }
      int *list = new int[total + 1];
      size_t ic = 0;
      for (size_t i = 0; i < L.size(); i++) { for (uint x : L[i]) list[ic++] = (int)x; list[ic++] = -(int)(i + 1); }
      DAC_VLS *d = new DAC_VLS(list, (uint)ic, logr, (uint)maxseq);
      delete[] list;
      bool reload = op.size() > 3 && op[3] == "reload";
      if (reload) {
        std::stringstream ss(std::ios::in | std::ios::out | std::ios::binary);
        d->save(ss);
        string img = ss.str();
        std::stringstream s2(img + "TRAILER!", std::ios::in | std::ios::out | std::ios::binary);
        DAC_VLS *d2 = DAC_VLS::load(s2);
        bool all = (long)s2.tellg() == (long)img.size();
        delete d; d = d2;
        if (!all) { emit("DAC consumed=not-all"); delete d; continue; }
      }
      string idx, bits, acc, nxt;
      for (uint j = 0; j <= d->nLevels; j++) idx += (j ? "," : "") + std::to_string(d->levelsIndex[j]);
      size_t blen = d->nLevels ? d->levelsIndex[d->nLevels - 1] + 1 : 0;
      for (size_t k = 0; k < blen; k++) bits += d->bS->access(k) ? '1' : '0';
      // the first symbols of the sequences are the entries of level 0, in order
      for (uint pos = 1; pos <= d->getListLength(); pos++) {
        uint *sq = nullptr;
        uint len = d->access(pos, &sq);
        if (pos > 1) acc += ";";
        for (uint t = 0; t < len; t++) acc += (t ? "," : "") + std::to_string(sq[t]);
        delete[] sq;
        if (pos > 1) nxt += ";";
        uint p = pos, l = 0;
        while (p != (uint)-1) { uint v = d->access_next(l, &p); nxt += (l ? "," : "") + std::to_string(v); l++; }
      }
      emit("DAC n=%u len=%u idx=%s bits=%s acc=%s nxt=%s", d->nLevels, d->getListLength(), idx.c_str(), bits.empty() ? "-" : bits.c_str(),
           acc.empty() ? "-" : acc.c_str(), nxt.empty() ? "-" : nxt.c_str());
      delete d;
    } else emit("ERR unknown-op");
  }
}

static void runRePair(const Case &c) {
  for (auto &op : c.ops) {
    g_op++;
    if (op[0] == "rpbig") { // rpbig <seed> <strings> <alphabet>: a pair table that grows (> 98 304 live pairs); checked here
      uint64_t x = strtoull(op[1].c_str(), nullptr, 10) * 2862933555777941757ULL + 3037000493ULL;
      size_t ns = strtoull(op[2].c_str(), nullptr, 10); uint alpha = (uint)atoi(op[3].c_str());
      auto nxt = [&]() { x = x * 6364136223846793005ULL + 1442695040888963407ULL; return (uint)(x >> 33); };
      vector<int> in;
      for (size_t i = 0; i < ns; i++) { uint l = 6 + nxt() % 7; for (uint t = 0; t < l; t++) in.push_back(1 + (int)(nxt() % alpha)); in.push_back(0); }
      size_t n = in.size();
      int *seq = new int[n];
      for (size_t i = 0; i < n; i++) seq[i] = in[i];
      RePair *rp = new RePair(seq, (uint)n, (uchar)alpha);
      // expansion of the compacted sequence, symbol by symbol, against the input
      size_t io = 0, pos = 0; bool ok = true; uchar *buf = new uchar[n + 16];
      while (io < n && ok) {
        if (seq[io] >= 0) {
          uint sym = (uint)seq[io];
          if (sym >= rp->terminals) {
            uint l = rp->expandRule(sym - (uint)rp->terminals, buf);
            for (uint t = 0; t < l && ok; t++, pos++) ok = pos < n && in[pos] == (int)buf[t] && buf[t] != 0;
          } else { ok = pos < n && in[pos] == (int)sym; pos++; }
          io++;
        } else io = (size_t)(-(seq[io] + 1));
      }
      ok = ok && pos == n;
      emit("RPBIG ok=%d", ok ? 1 : 0);
      delete[] buf; delete rp; delete[] seq;
    } else if (op[0] == "rp") { // rp <maxchar> <comma separated ints, 0 = terminator> [reload]
      uchar maxchar = (uchar)atoi(op[1].c_str());
      auto f = splitc(op[2]);
      size_t n = f.size();
      int *seq = new int[n];
      for (size_t i = 0; i < n; i++) seq[i] = atoi(f[i].c_str());
      RePair *rp = new RePair(seq, (uint)n, maxchar);
      // compaction exactly as the dictionary constructors do it
      string cs;
      size_t io = 0, cnt = 0;
      while (io < n) {
        if (seq[io] >= 0) { cs += (cnt ? "," : "") + std::to_string(seq[io]); cnt++; io++; }
        else io = (size_t)(-(seq[io] + 1));
      }
      bool reload = op.size() > 3 && op[3] == "reload";
      if (reload) {
        std::stringstream ss(std::ios::in | std::ios::out | std::ios::binary);
        rp->save(ss);
        RePair *r2 = RePair::loadNoSeq(ss);
        delete rp; rp = r2;
      }
      string rules;
      for (uint64_t k = 0; k < rp->rules; k++)
        rules += (k ? "," : "") + std::to_string(rp->G->getField(2 * k)) + ":" + std::to_string(rp->G->getField(2 * k + 1));
      emit("RP t=%llu bits=%u rules=%s seq=%s", (unsigned long long)rp->terminals, rp->getBits(),
           rules.empty() ? "-" : rules.c_str(), cs.empty() ? "-" : cs.c_str());
      delete rp; delete[] seq;
    } else emit("ERR unknown-op");
  }
}

// RPDAC as the query layer sees it: the grammar, the symbol sequence of every string (through the DAC),
// and the answers of locate on members and on the queries given; re-validated by the Lean driver.
#include "StringDictionaryRPDAC.h"
static void runRpdac(const Case &c) {
  size_t len = 0;
  uchar *buf = plain(c.strs, len, 0);
  StringDictionaryRPDAC *d = new StringDictionaryRPDAC(new IteratorDictStringPlain(buf, len));
  for (auto &op : c.ops) {
    g_op++;
    if (op[0] == "reload") {
      std::stringstream ss(std::ios::in | std::ios::out | std::ios::binary);
      d->save(ss);
      StringDictionary *d2 = StringDictionaryRPDAC::load(ss);
      delete d; d = (StringDictionaryRPDAC *)d2;
      emit("RQ reloaded");
    } else if (op[0] == "ri") { // the saved image with the counters it must carry
      RePair *rp = d->rp;
      string rules;
      for (uint64_t k = 0; k < rp->rules; k++)
        rules += (k ? "," : "") + std::to_string(rp->G->getField(2 * k)) + ":" + std::to_string(rp->G->getField(2 * k + 1));
      emit("RI img=%s el=%zu ml=%u t=%llu mc=%u rules=%s", hex(saveImage(d)).c_str(), (size_t)d->numElements(), (uint)d->maxLength(),
           (unsigned long long)rp->terminals, (uint)rp->maxchar, rules.empty() ? "-" : rules.c_str());
    } else if (op[0] == "rd") { // rd <query hex,query hex,...|->
      RePair *rp = d->rp;
      string rules, seqs, loc, qa;
      for (uint64_t k = 0; k < rp->rules; k++)
        rules += (k ? "," : "") + std::to_string(rp->G->getField(2 * k)) + ":" + std::to_string(rp->G->getField(2 * k + 1));
      for (size_t id = 1; id <= d->numElements(); id++) {
        uint *sq = nullptr;
        uint l = rp->Cdac->access((uint)id, &sq);
        if (id > 1) seqs += ";";
        for (uint t = 0; t < l; t++) seqs += (t ? "," : "") + std::to_string(sq[t]);
        delete[] sq;
      }
      for (size_t i = 0; i < c.strs.size(); i++) {
        string q = c.strs[i]; q.push_back('\0');
        loc += (i ? "," : "") + std::to_string(d->locate((uchar *)q.data(), (uint)c.strs[i].size()));
      }
      if (op.size() > 1 && op[1] != "-")
        for (auto &h : splitc(op[1])) {
          string q = unhex(h); size_t n = q.size(); q.push_back('\0');
          qa += (qa.empty() ? "" : ",") + std::to_string(d->locate((uchar *)q.data(), (uint)n));
        }
      string pre;
      if (op.size() > 2 && op[2] != "-")
        for (auto &h : splitc(op[2])) {
          string q = unhex(h); size_t n = q.size(); q.push_back('\0');
          IteratorDictIDContiguous *it = (IteratorDictIDContiguous *)d->locatePrefix((uchar *)q.data(), (uint)n);
          pre += (pre.empty() ? "" : ",") + std::to_string(it->getLeftLimit()) + ":" + std::to_string(it->getRightLimit());
          delete it;
        }
      emit("RD t=%llu rules=%s seqs=%s loc=%s abs=%s pre=%s", (unsigned long long)rp->terminals, rules.empty() ? "-" : rules.c_str(),
           seqs.empty() ? "-" : seqs.c_str(), loc.empty() ? "-" : loc.c_str(), qa.empty() ? "-" : qa.c_str(), pre.empty() ? "-" : pre.c_str());
    } else emit("ERR unknown-op");
  }
  delete d;
}

// HASHRPDAC as its query layer sees it: table size, occupancy bitmap, grammar, the symbol sequence at
// every DAC position, and its own answers; re-validated by the Lean driver (`hdchk`).
#include "StringDictionaryHASHRPDAC.h"
static void runHrpdac(const Case &c) {
  size_t len = 0;
  uchar *buf = plain(c.strs, len, 1);
  StringDictionaryHASHRPDAC *d = new StringDictionaryHASHRPDAC(new IteratorDictStringPlain(buf, len), (uint)len, (int)c.geti("ov", 25));
  for (auto &op : c.ops) {
    g_op++;
    if (op[0] == "reload") {
      std::stringstream ss(std::ios::in | std::ios::out | std::ios::binary);
      d->save(ss);
      StringDictionary *d2 = StringDictionaryHASHRPDAC::load(ss);
      delete d; d = (StringDictionaryHASHRPDAC *)d2;
      emit("RQ reloaded");
    } else if (op[0] == "hi") { // the saved image with the table header it must carry
      string occ;
      for (size_t i = 0; i < d->hash->tsize; i++) occ += d->hash->b_ht->access(i) ? '1' : '0';
      emit("HI img=%s el=%zu ml=%u ts=%zu n=%zu occ=%s", hex(saveImage(d)).c_str(), (size_t)d->numElements(), (uint)d->maxLength(),
           (size_t)d->hash->tsize, (size_t)d->hash->n, occ.empty() ? "-" : occ.c_str());
    } else if (op[0] == "hd") { // hd <query hex,...|->
      RePair *rp = d->rp;
      string rules, seqs, loc, qa, occ;
      for (uint64_t k = 0; k < rp->rules; k++)
        rules += (k ? "," : "") + std::to_string(rp->G->getField(2 * k)) + ":" + std::to_string(rp->G->getField(2 * k + 1));
      for (size_t id = 1; id <= d->numElements(); id++) {
        uint *sq = nullptr;
        uint l = rp->Cdac->access((uint)id, &sq);
        if (id > 1) seqs += ";";
        for (uint t = 0; t < l; t++) seqs += (t ? "," : "") + std::to_string(sq[t]);
        delete[] sq;
      }
      for (size_t i = 0; i < d->hash->tsize; i++) occ += d->hash->b_ht->access(i) ? '1' : '0';
      for (size_t i = 0; i < c.strs.size(); i++) {
        string q = c.strs[i]; q.push_back('\0');
        loc += (i ? "," : "") + std::to_string(d->locate((uchar *)q.data(), (uint)c.strs[i].size()));
      }
      if (op.size() > 1 && op[1] != "-")
        for (auto &h : splitc(op[1])) {
          string q = unhex(h); size_t n = q.size(); q.push_back('\0');
          qa += (qa.empty() ? "" : ",") + std::to_string(d->locate((uchar *)q.data(), (uint)n));
        }
      emit("HD ts=%zu occ=%s t=%llu rules=%s seqs=%s loc=%s abs=%s", (size_t)d->hash->tsize, occ.empty() ? "-" : occ.c_str(),
           (unsigned long long)rp->terminals, rules.empty() ? "-" : rules.c_str(), seqs.empty() ? "-" : seqs.c_str(),
           loc.empty() ? "-" : loc.c_str(), qa.empty() ? "-" : qa.c_str());
    } else emit("ERR unknown-op");
  }
  delete d;
}

// HASHRPF as its query layer sees it: table, grammar, terminator, the whole symbol sequence and the offset
// stored in every occupied cell; re-validated by the Lean driver (`hfchk`).
#include "StringDictionaryHASHRPF.h"
static void runHrpf(const Case &c) {
  size_t len = 0;
  uchar *buf = plain(c.strs, len, 1);
  StringDictionaryHASHRPF *d = new StringDictionaryHASHRPF(new IteratorDictStringPlain(buf, len), (uint)len, (int)c.geti("ov", 25));
  for (auto &op : c.ops) {
    g_op++;
    if (op[0] == "reload") {
      std::stringstream ss(std::ios::in | std::ios::out | std::ios::binary);
      d->save(ss);
      StringDictionary *d2 = StringDictionaryHASHRPF::load(ss, 1);
      delete d; d = (StringDictionaryHASHRPF *)d2;
      emit("RQ reloaded");
    } else if (op[0] == "hf") { // hf <query hex,...|->
      RePair *rp = d->rp;
      string rules, cls, loc, qa, occ, offs;
      for (uint64_t k = 0; k < rp->rules; k++)
        rules += (k ? "," : "") + std::to_string(rp->G->getField(2 * k)) + ":" + std::to_string(rp->G->getField(2 * k + 1));
      for (size_t i = 0; i < rp->Cls->getNumberOfElements(); i++) cls += (i ? "," : "") + std::to_string(rp->Cls->getField(i));
      for (size_t i = 0; i < d->hash->tsize; i++) {
        bool o = d->hash->b_ht->access(i);
        occ += o ? '1' : '0';
        if (o) offs += (offs.empty() ? "" : ",") + std::to_string(d->hash->getValuePos(i));
      }
      for (size_t i = 0; i < c.strs.size(); i++) {
        string q = c.strs[i]; q.push_back('\0');
        loc += (i ? "," : "") + std::to_string(d->locate((uchar *)q.data(), (uint)c.strs[i].size()));
      }
      if (op.size() > 1 && op[1] != "-")
        for (auto &h : splitc(op[1])) {
          string q = unhex(h); size_t n = q.size(); q.push_back('\0');
          qa += (qa.empty() ? "" : ",") + std::to_string(d->locate((uchar *)q.data(), (uint)n));
        }
      emit("HF ts=%zu occ=%s t=%llu mc=%u rules=%s cls=%s offs=%s loc=%s abs=%s", (size_t)d->hash->tsize, occ.empty() ? "-" : occ.c_str(),
           (unsigned long long)rp->terminals, (unsigned)rp->maxchar, rules.empty() ? "-" : rules.c_str(), cls.empty() ? "-" : cls.c_str(),
           offs.empty() ? "-" : offs.c_str(), loc.empty() ? "-" : loc.c_str(), qa.empty() ? "-" : qa.c_str());
    } else emit("ERR unknown-op");
  }
  delete d;
}

// HASHHF / HASHUFFDAC as their hash layer sees them: the keys are the Huffman-coded strings (codewords
// exported), the table size, the occupancy bitmap and the code's own answers; the Lean driver re-encodes
// every string with the model of StatCoder::encodeString and predicts every ID (`hhchk`).
#include "StringDictionaryHASHHF.h"
#include "StringDictionaryHASHUFFDAC.h"
static void runHhf(const Case &c) {
  StringDictionary *d = construct(c);
  if (!d) { emit("ERR cannot-construct"); return; }
  for (auto &op : c.ops) {
    g_op++;
    if (op[0] == "reload") {
      string img = saveImage(d);
      std::stringstream ss(img, std::ios::in | std::ios::binary);
      StringDictionary *d2 = loadOwn(c.kind, ss, 1);
      delete d; d = d2;
      emit("RQ reloaded");
      if (!d) return;
    } else if (op[0] == "hh") { // hh <query hex,...|->
      Codeword *cw = nullptr; size_t ts = 0; cds_static::BitSequence *bm = nullptr;
      if (c.kind == "HASHHF") { auto *x = (StringDictionaryHASHHF *)d; cw = x->codewords; ts = x->hash->tsize; bm = x->hash->b_ht; }
      else { auto *x = (StringDictionaryHASHUFFDAC *)d; cw = x->codewords; ts = x->hash->tsize; bm = x->hash->b_ht; }
      string scw, occ, loc, qa;
      for (uint i = 0; i < 256; i++) { char b[40]; snprintf(b, sizeof b, "%s%u:%x", i ? "," : "", cw[i].bits, cw[i].codeword); scw += b; }
      for (size_t i = 0; i < ts; i++) occ += bm->access(i) ? '1' : '0';
      for (size_t i = 0; i < c.strs.size(); i++) {
        string q = c.strs[i]; q.push_back('\0');
        loc += (i ? "," : "") + std::to_string(d->locate((uchar *)q.data(), (uint)c.strs[i].size()));
      }
      if (op.size() > 1 && op[1] != "-")
        for (auto &h : splitc(op[1])) {
          string q = unhex(h); size_t n = q.size(); q.push_back('\0');
          qa += (qa.empty() ? "" : ",") + std::to_string(d->locate((uchar *)q.data(), (uint)n));
        }
      emit("HH ts=%zu occ=%s cw=%s loc=%s abs=%s", ts, occ.empty() ? "-" : occ.c_str(), scw.c_str(), loc.empty() ? "-" : loc.c_str(), qa.empty() ? "-" : qa.c_str());
    } else emit("ERR unknown-op");
  }
  delete d;
}


// The chunked decoding table(s) of a real dictionary as `processChunk` sees them: codewords, the
// position table (run-length coded, with the `endings` bit), the distinct stream entries, the
// decoding subtrees, and a trace of `processChunk` over texts encoded with the same codewords;
// re-validated and re-run by the Lean driver (`ctchk`).
static void dumpChunkTable(DecodingTable *T, Codeword *cw, StatCoder *coder, const vector<string> &texts, uint e0) {
  uint k = T->k;
  size_t entries = (size_t)1 << k;
  string scw, spos, sent, strees, sruns, sencs;
  for (uint i = 0; i < 256; i++) {
    char b[40]; snprintf(b, sizeof b, "%s%u:%x", i ? "," : "", cw[i].bits, cw[i].codeword); scw += b;
  }
  std::set<uint> seen;
  size_t i = 0;
  while (i < entries) {
    uint p = T->table[i]; bool e = T->endings->getBit(i);
    size_t j = i;
    while (j < entries && T->table[j] == p && T->endings->getBit(j) == e) j++;
    char b[48]; snprintf(b, sizeof b, "%s%u:%d*%zu", i ? "," : "", p, e ? 1 : 0, j - i); spos += b;
    if (!seen.count(p)) {
      seen.insert(p);
      if (p < T->bytesStream) {
        uchar ctl = T->stream[p];
        uint len = (ctl & 240) >> 4, bits = (ctl & 15) + 1;
        if (!sent.empty()) sent += ";";
        if (len != 0) {
          size_t n = std::min<size_t>(len, T->bytesStream - p - 1);
          sent += std::to_string(p) + ":" + std::to_string(len) + ":" + std::to_string(bits) + ":" + hex(T->stream + p + 1, n);
        } else {
          uint id = 0; VByte::decode(&id, T->stream + p + 1);
          sent += std::to_string(p) + ":T:" + std::to_string(id) + ":" + std::to_string(bits);
        }
      }
    }
    i = j;
  }
  for (uint t = 0; t < T->nodes; t++) {
    DecodingTree *dt = T->subtrees[t];
    if (t) strees += ";";
    for (uint nn = 0; nn < dt->nodes; nn++) {
      char b[64]; snprintf(b, sizeof b, "%s%d/%d/%d", nn ? "," : "", dt->tree[nn].symbol, dt->tree[nn].children[0], dt->tree[nn].children[1]);
      strees += b;
    }
  }
  for (size_t ti = 0; ti < texts.size(); ti++) {
    const string &tx = texts[ti];
    // encode with the codewords, most significant bit first
    vector<uchar> buf; uint acc = 0, nb = 0; bool ok = true;
    for (unsigned char ch : tx) {
      uint bits = cw[ch].bits, code = cw[ch].codeword;
      if (bits == 0) { ok = false; break; }
      for (int b = (int)bits - 1; b >= 0; b--) {
        acc = (acc << 1) | ((code >> b) & 1); nb++;
        if (nb == 8) { buf.push_back((uchar)acc); acc = 0; nb = 0; }
      }
    }
    if (nb) buf.push_back((uchar)(acc << (8 - nb)));
    if (ti) { sruns += "|"; sencs += "|"; }
    if (!ok) { sruns += "noenc"; sencs += "noenc"; continue; }
    {
      // the real encoder on the same text: its bytes are what the table is run on
      string copy = tx; uint encLen = 0, off = 0;
      uchar *e = coder->encodeString((uchar *)copy.data(), (uint)copy.size(), &encLen, &off);
      sencs += (encLen ? hex(e, encLen) : string("-")) + ":" + std::to_string(off);
      buf.assign(e, e + encLen);
      delete[] e;
    }
    vector<uchar> guard(buf.size() + 8, 0);       // the bucket bytes with a small tail
    memcpy(guard.data(), buf.data(), buf.size());
    vector<uchar> str(tx.size() + 96, 0);
    ChunkScan c; c.c_chunk = 0; c.c_valid = 0; c.b_ptr = guard.data(); c.b_remain = (uint)buf.size();
    c.str = str.data(); c.strLen = 0; c.advanced = 0; c.extracted = e0;
    size_t decoded = 0; int steps = 0; string run;
    while (decoded < tx.size() && steps < 100000) {
      uint before = c.strLen, exb = c.extracted;
      bool f = T->processChunk(&c);
      uint len = c.extracted - exb;
      char b[96];
      snprintf(b, sizeof b, "%s%s/%d/%u/%u/%u/%u/%u", steps ? "," : "", hex(str.data() + before, len).c_str(), f ? 1 : 0, c.strLen, c.advanced, c.extracted,
               (unsigned)c.c_valid, c.b_remain);
      run += b;
      decoded += len; steps++;
      // the test driver's protocol (the Lean side applies the same): keep what was written, and after a
      // string end count the symbols extracted in advance as the start of the next string
      c.strLen = before + len;
      if (f) { c.extracted = c.advanced; c.advanced = 0; }
    }
    sruns += run.empty() ? "-" : run;
  }
  emit("CT k=%u cw=%s pos=%s ent=%s trees=%s runs=%s encs=%s", k, scw.c_str(), spos.c_str(), sent.empty() ? "-" : sent.c_str(),
       strees.empty() ? "-" : strees.c_str(), sruns.empty() ? "-" : sruns.c_str(), sencs.empty() ? "-" : sencs.c_str());
}

static void runChunks(const Case &c) {
  StringDictionary *d = construct(c);
  if (!d) { emit("ERR cannot-construct"); return; }
  for (auto &op : c.ops) {
    g_op++;
    if (op[0] == "reload") {
      string img = saveImage(d);
      std::stringstream ss(img, std::ios::in | std::ios::binary);
      StringDictionary *d2 = loadOwn(c.kind, ss, 1);
      delete d; d = d2;
      emit("RQ reloaded");
      if (!d) return;
    } else if (op[0] == "ct") {   // ct <which 0|1> <e0> <text hex,text hex,...>
      int which = atoi(op[1].c_str()); uint e0 = (uint)atoi(op[2].c_str());
      vector<string> texts;
      if (op.size() > 3 && op[3] != "-") for (auto &h : splitc(op[3])) texts.push_back(unhex(h));
      DecodingTable *T = nullptr; Codeword *cw = nullptr; StatCoder *coder = nullptr;
      const string &k = c.kind;
      if (k == "HTFC") { auto *x = (StringDictionaryHTFC *)d; T = x->table; cw = x->codewords; coder = x->coder; }
      else if (k == "HHTFC") { auto *x = (StringDictionaryHHTFC *)d; T = which ? x->tableHU : x->tableHT; cw = which ? x->codewordsHU : x->codewordsHT; coder = which ? x->coderHU : x->coderHT; }
      else if (k == "RPHTFC") { auto *x = (StringDictionaryRPHTFC *)d; T = x->tableHT; cw = x->codewordsHT; coder = x->coderHT; }
      else if (k == "HASHHF") { auto *x = (StringDictionaryHASHHF *)d; T = x->table; cw = x->codewords; coder = x->coder; }
      else if (k == "HASHUFFDAC") { auto *x = (StringDictionaryHASHUFFDAC *)d; T = x->table; cw = x->codewords; coder = x->coder; }
      if (!T || !cw || !coder) { emit("ERR no-table"); continue; }
      dumpChunkTable(T, cw, coder, texts, e0);
    } else emit("ERR unknown-op");
  }
  delete d;
}

// Size sweep: for every n in lo..hi (step) a dictionary of the case's kind is built from the first n
// strings, saved, reloaded and probed (locate, extract of the answer, and for the order-preserving kinds
// extract by rank) on the built and on the reloaded object; the result is a summary. Field widths,
// sampling steps and bit-array lengths cross their powers of two and word sizes somewhere in the range.
static void runSweep(const Case &c) {
  for (auto &op : c.ops) {
    g_op++;
    if (op[0] != "sweep") { emit("ERR unknown-op"); continue; }
    size_t lo = strtoull(op[1].c_str(), nullptr, 10), hi = strtoull(op[2].c_str(), nullptr, 10), step = strtoull(op[3].c_str(), nullptr, 10);
    bool ordered = !(isHashKind(c.kind) || c.kind == "XBW");
    size_t runs = 0, bad = 0, first = 0; string what;
    for (size_t n = lo; n <= hi && n <= c.strs.size(); n += step) {
      Case sub = c;
      sub.strs.assign(c.strs.begin(), c.strs.begin() + n);
      StringDictionary *d = construct(sub);
      if (!d) { emit("ERR cannot-construct"); return; }
      string img = saveImage(d);
      std::stringstream ss(img, std::ios::in | std::ios::binary);
      StringDictionary *d2 = loadOwn(c.kind, ss, 1);
      bool ok = d2 != nullptr && d->numElements() == n && d2->numElements() == n;
      string why = ok ? "" : "count";
      size_t probes[6] = {0, n / 3, n / 2, (2 * n) / 3, n - 2 < n ? n - 2 : 0, n - 1};
      for (int which = 0; ok && which < 2; which++) {
        StringDictionary *x = which ? d2 : d;
        for (size_t pi = 0; ok && pi < 6; pi++) {
          size_t i = probes[pi];
          Pat p(sub.strs[i]);
          unsigned long id = x->locate(p.p, (uint)p.n);
          if (id == 0 || id > n || (ordered && id != i + 1)) { ok = false; why = which ? "locate-reloaded" : "locate-built"; break; }
          uint l = 0; uchar *e = x->extract(id, &l);
          if (!e || string((char *)e) != sub.strs[i] || l != sub.strs[i].size()) { ok = false; why = which ? "extract-reloaded" : "extract-built"; }
          delete[] e;
        }
      }
      if (ok && d2) { string img2 = saveImage(d2); if (img2 != img) { ok = false; why = "resave"; } }
      runs++;
      if (!ok) { bad++; if (!first) { first = n; what = why; } }
      delete d; delete d2;
    }
    emit("SW runs=%zu bad=%zu first=%zu%s%s", runs, bad, first, what.empty() ? "" : " ", what.c_str());
  }
}

// FMINDEX as its query layer sees it: the BWT sequence (through the wavelet tree), occ, alphabet, the
// sampling structures, and its own answers; re-validated by the Lean driver (`fmchk`), which rebuilds
// the index with the model (sorted rows of the text) and runs the models of locate_id / locateP /
// locate / extract_id on the exported structure.
#include "StringDictionaryFMINDEX.h"
static void runFm(const Case &c) {
  size_t len = 0;
  uchar *buf = plain(c.strs, len, 0);
  IteratorDictString *it0 = new IteratorDictStringPlain(buf, len);
  StringDictionaryFMINDEX *d = new StringDictionaryFMINDEX(it0, c.geti("rrr", 0) != 0, (uint)c.geti("bs", 20), (uint)c.geti("bwt", 4));
  delete it0;
  for (auto &op : c.ops) {
    g_op++;
    if (op[0] == "reload") {
      std::stringstream ss(std::ios::in | std::ios::out | std::ios::binary);
      d->save(ss);
      StringDictionary *d2 = StringDictionaryFMINDEX::load(ss);
      delete d; d = (StringDictionaryFMINDEX *)d2;
      emit("RQ reloaded");
    } else if (op[0] == "fm") { // fm <absent queries|-> <prefixes|-> <substrings|->
      SSA *fm = d->fm_index;
      string bwt, occ, alpha, sampled, samp, loc, qa, pre, sub, ext;
      for (size_t i = 0; i <= fm->n; i++) bwt += (i ? "," : "") + std::to_string(fm->bwt->access(i));
      for (uint i = 0; i < fm->maxV + 1; i++) occ += (i ? "," : "") + std::to_string(fm->occ[i]);
      for (uint i = 0; i < 256; i++) alpha += fm->alphabet[i] ? '1' : '0';
      if (fm->samplesuff > 0) {
        for (size_t i = 0; i < fm->sampled->getLength(); i++) sampled += fm->sampled->access(i) ? '1' : '0';
        for (uint i = 0; i < (fm->n + 1) / fm->samplesuff + 1; i++) samp += (i ? "," : "") + std::to_string(fm->suff_sample[i]);
      }
      for (size_t i = 0; i < c.strs.size(); i++) {
        Pat p(c.strs[i]);
        loc += (i ? "," : "") + std::to_string(d->locate(p.p, (uint)p.n));
      }
      if (op.size() > 1 && op[1] != "-")
        for (auto &h : splitc(op[1])) {
          Pat p(unhex(h));
          qa += (qa.empty() ? "" : ",") + std::to_string(d->locate(p.p, (uint)p.n));
        }
      if (op.size() > 2 && op[2] != "-")
        for (auto &h : splitc(op[2])) {
          Pat p(unhex(h));
          IteratorDictIDContiguous *it = (IteratorDictIDContiguous *)d->locatePrefix(p.p, (uint)p.n);
          pre += (pre.empty() ? "" : ",") + std::to_string(it->getLeftLimit()) + ":" + std::to_string(it->getRightLimit());
          delete it;
        }
      if (op.size() > 3 && op[3] != "-" && fm->samplesuff > 0)
        for (auto &h : splitc(op[3])) {
          Pat p(unhex(h));
          IteratorDictID *it = d->locateSubstr(p.p, (uint)p.n);
          bool ovf; vector<size_t> v = drainIds(it, ovf);
          string one;
          for (size_t t = 0; t < v.size(); t++) one += (t ? "." : "") + std::to_string(v[t]);
          sub += (sub.empty() ? "" : ",") + (one.empty() ? string("e") : one) + (ovf ? "!" : "");
        }
      for (size_t id = 0; id <= d->numElements() + 1; id++) {
        uint l = 0; uchar *s = d->extract(id, &l);
        ext += (id ? "," : "") + (s ? "x" + hex(s, strlen((char *)s)) : string("N"));
        delete[] s;
      }
      { // the table scan, string by string
        string flaw; vector<string> tv = drainStrs(d->extractTable(), flaw);
        ext += ";";
        for (size_t t = 0; t < tv.size(); t++) ext += (t ? "," : "") + string("x") + hex(tv[t]);
        if (!flaw.empty()) ext += ",F" + flaw;
      }
      emit("FM n=%u el=%zu ml=%u bwt=%s occ=%s alpha=%s ss=%u sampled=%s samp=%s loc=%s abs=%s pre=%s sub=%s ext=%s", fm->n,
           (size_t)d->numElements(), (uint)d->maxLength(), bwt.c_str(), occ.c_str(), alpha.c_str(), fm->samplesuff, sampled.empty() ? "-" : sampled.c_str(),
           samp.empty() ? "-" : samp.c_str(), loc.empty() ? "-" : loc.c_str(), qa.empty() ? "-" : qa.c_str(), pre.empty() ? "-" : pre.c_str(),
           sub.empty() ? "-" : sub.c_str(), ext.c_str());
    } else emit("ERR unknown-op");
  }
  delete d;
}

// RPFC as its query layer sees it: grammar, the header of every bucket and the Re-Pair symbols behind it
// (the bitsrp-wide fields are unpacked here the way decodeSymbol does it), and its own answers;
// re-validated by the Lean driver (`rfchk`): the streams must store the front-coded strings, and the
// model of decodeString / locate / extract / locatePrefix is run on the exported structure.
#include "StringDictionaryRPFC.h"
static void runRpfc(const Case &c) {
  size_t len = 0;
  uchar *buf = plain(c.strs, len, 0);
  StringDictionaryRPFC *d = new StringDictionaryRPFC(new IteratorDictStringPlain(buf, len), (uint)c.geti("b", 4));
  for (auto &op : c.ops) {
    g_op++;
    if (op[0] == "reload") {
      std::stringstream ss(std::ios::in | std::ios::out | std::ios::binary);
      d->save(ss);
      StringDictionary *d2 = StringDictionaryRPFC::load(ss);
      delete d; d = (StringDictionaryRPFC *)d2;
      emit("RQ reloaded");
    } else if (op[0] == "rf") { // rf <absent queries|-> <prefixes|->
      RePair *rp = d->rp;
      string rules, hdr, st, loc, qa, pre, ext;
      for (uint64_t k = 0; k < rp->rules; k++)
        rules += (k ? "," : "") + std::to_string(rp->G->getField(2 * k)) + ":" + std::to_string(rp->G->getField(2 * k + 1));
      for (size_t b = 1; b <= d->buckets; b++) {
        size_t beg = d->blStrings->getField(b), end = d->blStrings->getField(b + 1);
        if (b == d->buckets) end = d->bytesStrings;
        const uchar *p = d->textStrings + beg;
        size_t hl = strlen((const char *)p);
        hdr += (b > 1 ? "," : "") + hex(p, hl);
        size_t bitpos = (beg + hl + 1) * 8, bitend = end * 8;
        string one;
        while (bitpos + d->bitsrp <= bitend) {
          uint64_t v = 0;
          for (uint t = 0; t < d->bitsrp; t++, bitpos++)
            v = (v << 1) | ((d->textStrings[bitpos / 8] >> (7 - bitpos % 8)) & 1);
          one += (one.empty() ? "" : ",") + std::to_string(v);
        }
        st += (b > 1 ? ";" : "") + (one.empty() ? string("e") : one);
      }
      for (size_t i = 0; i < c.strs.size(); i++) {
        Pat p(c.strs[i]);
        loc += (i ? "," : "") + std::to_string(d->locate(p.p, (uint)p.n));
      }
      if (op.size() > 1 && op[1] != "-")
        for (auto &h : splitc(op[1])) {
          Pat p(unhex(h));
          qa += (qa.empty() ? "" : ",") + std::to_string(d->locate(p.p, (uint)p.n));
        }
      if (op.size() > 2 && op[2] != "-")
        for (auto &h : splitc(op[2])) {
          Pat p(unhex(h));
          IteratorDictIDContiguous *it = (IteratorDictIDContiguous *)d->locatePrefix(p.p, (uint)p.n);
          pre += (pre.empty() ? "" : ",") + std::to_string(it->getLeftLimit()) + ":" + std::to_string(it->getRightLimit());
          delete it;
        }
      for (size_t id = 0; id <= d->numElements() + 1; id++) {
        uint l = 0; uchar *s = d->extract(id, &l);
        ext += (id ? "," : "") + (s ? "x" + hex(s, strlen((char *)s)) : string("N"));
        delete[] s;
      }
      ext += ";" + hex(saveImage(d));   // the saved image rides behind the extractions
      emit("RF t=%llu mc=%u bits=%u el=%zu ml=%u bk=%u bs=%u rules=%s hdr=%s st=%s loc=%s abs=%s pre=%s ext=%s", (unsigned long long)rp->terminals,
           (uint)rp->maxchar, d->bitsrp, (size_t)d->numElements(), (uint)d->maxLength(), (uint)d->buckets, (uint)d->bucketsize,
           rules.empty() ? "-" : rules.c_str(), hdr.c_str(), st.c_str(), loc.empty() ? "-" : loc.c_str(), qa.empty() ? "-" : qa.c_str(),
           pre.empty() ? "-" : pre.c_str(), ext.c_str());
    } else emit("ERR unknown-op");
  }
  delete d;
}

// DAC_BVLS as HASHUFFDAC builds it: every field and every sequence (access, access_next), before and after
// save/load; re-validated by the Lean driver (`bvchk`): the fields must be the layout `DAC.build` derives
// from the sequences and the model of `access` run on the exported fields must return them.
#include "StringDictionaryHASHUFFDAC.h"
static void runBvls(const Case &c) {
  size_t len = 0;
  uchar *buf = plain(c.strs, len, 1);
  StringDictionaryHASHUFFDAC *d = new StringDictionaryHASHUFFDAC(new IteratorDictStringPlain(buf, len), len, (int)c.geti("ov", 25));
  for (auto &op : c.ops) {
    g_op++;
    if (op[0] == "reload") {
      std::stringstream ss(std::ios::in | std::ios::out | std::ios::binary);
      d->save(ss);
      StringDictionary *d2 = StringDictionaryHASHUFFDAC::load(ss);
      delete d; d = (StringDictionaryHASHUFFDAC *)d2;
      emit("RQ reloaded");
    } else if (op[0] == "bv") {
      DAC_BVLS *q = d->dac;
      string idx, bits, rl, lv, acc, nxt;
      for (uint j = 0; j <= q->nLevels; j++) idx += (j ? "," : "") + std::to_string(q->levelsIndex[j]);
      for (uint j = 0; j < q->nLevels; j++) rl += (j ? "," : "") + std::to_string(q->rankLevels[j]);
      for (uint k = 0; k < q->tamCode; k++) { bits += q->bS->access(k) ? '1' : '0'; lv += (k ? "," : "") + std::to_string((uint)q->levels[k]); }
      size_t n = d->numElements();
      for (uint pos = 1; pos <= n; pos++) {
        uint *sq = nullptr;
        uint l = q->access(pos, &sq);
        if (pos > 1) acc += ";";
        for (uint t = 0; t < l; t++) acc += (t ? "," : "") + std::to_string(sq[t]);
        delete[] sq;
        if (pos > 1) nxt += ";";
        uint p = pos, lev = 0;
        while (p != (uint)-1 && lev <= q->nLevels) { uint v = q->access_next(lev, &p); nxt += (lev ? "," : "") + std::to_string(v); lev++; }
      }
      emit("BV n=%u tam=%u idx=%s bits=%s rl=%s lv=%s acc=%s nxt=%s", q->nLevels, q->tamCode, idx.c_str(), bits.empty() ? "-" : bits.c_str(),
           rl.empty() ? "-" : rl.c_str(), lv.empty() ? "-" : lv.c_str(), acc.empty() ? "-" : acc.c_str(), nxt.empty() ? "-" : nxt.c_str());
    } else emit("ERR unknown-op");
  }
  delete d;
}

// The saved image of a block dictionary with the counters it must carry; parsed by the model loader in the
// Lean driver (`bichk`).
static void runBlocksImg(const Case &c) {
  size_t len = 0;
  uchar *buf = plain(c.strs, len, 1);
  auto *it = new IteratorDictStringPlain(buf, len);
  StringDictionaryHASHRPDACBlocks *d = new StringDictionaryHASHRPDACBlocks(it, len, (int)c.geti("ov", 25), (unsigned long)c.geti("cut", 64), (int)c.geti("thr", 2));
  for (auto &op : c.ops) {
    g_op++;
    if (op[0] == "reload") {
      std::stringstream ss(std::ios::in | std::ios::out | std::ios::binary);
      d->save(ss);
      StringDictionary *d2 = StringDictionaryHASHRPDACBlocks::load(ss);
      delete d; d = (StringDictionaryHASHRPDACBlocks *)d2;
      emit("RQ reloaded");
    } else if (op[0] == "bi") {
      string firsts, starts, pel;
      for (size_t i = 0; i < d->cut_samples.size(); i++) firsts += (i ? "," : "") + (d->cut_samples[i].empty() ? string("e") : hex(d->cut_samples[i]));
      for (size_t i = 0; i < d->starting_indexes.size(); i++) starts += (i ? "," : "") + std::to_string(d->starting_indexes[i]);
      for (size_t i = 0; i < d->parts.size(); i++) pel += (i ? "," : "") + std::to_string(d->parts[i]->numElements());
      emit("BI img=%s ml=%u cs=%llu sq=%llu np=%zu firsts=%s starts=%s pel=%s", hex(saveImage(d)).c_str(), (uint)d->maxLength(),
           (unsigned long long)d->cut_size, (unsigned long long)d->strings_qty, d->parts.size(), firsts.empty() ? "-" : firsts.c_str(),
           starts.empty() ? "-" : starts.c_str(), pel.empty() ? "-" : pel.c_str());
    } else emit("ERR unknown-op");
  }
  delete d;
}

// ---------------------------------------------------------------------------
static void runCase(const Case &c) {
  if (c.stream == "dict") runDict(c);
  else if (c.stream == "vbyte") runVByte(c);
  else if (c.stream == "logseq") runLogSeq(c);
  else if (c.stream == "pool") runPool(c);
  else if (c.stream == "codes") runCodes(c);
  else if (c.stream == "bits") runBits(c);
  else if (c.stream == "repair") runRePair(c);
  else if (c.stream == "dac" || c.stream == "dacimg") runDac(c);
  else if (c.stream == "chunks") runChunks(c);
  else if (c.stream == "sweep") runSweep(c);
  else if (c.stream == "rpdac") { if (c.kind == "HASHRPDAC") runHrpdac(c); else if (c.kind == "HASHRPF") runHrpf(c); else runRpdac(c); }
  else if (c.stream == "hhf") runHhf(c);
  else if (c.stream == "fm") runFm(c);
  else if (c.stream == "rpfc") runRpfc(c);
  else if (c.stream == "bvls") runBvls(c);
  else if (c.stream == "blkimg") runBlocksImg(c);
  else emit("ERR unknown-stream %s", c.stream.c_str());
}

static string summarizeLog(const string &path) {
  std::ifstream in(path);
  string l, kind, frame;
  bool inTrace = false;
  while (std::getline(in, l)) {
    size_t p;
    if (kind.empty() && (p = l.find("ERROR: AddressSanitizer: ")) != string::npos) {
      std::istringstream is(l.substr(p + 25)); is >> kind; kind = "asan:" + kind; inTrace = true; continue;
    }
    if (kind.empty() && (p = l.find("runtime error: ")) != string::npos) {
      string m = l.substr(p + 15);
      for (auto &ch : m) if (ch == ' ') ch = '_';
      kind = "ubsan:" + m.substr(0, 60); inTrace = true;
      // location is at the start of the line
      size_t q = l.find(": runtime error");
      string loc = l.substr(0, q);
      size_t sl = loc.rfind('/');
      frame = sl == string::npos ? loc : loc.substr(sl + 1);
      break;
    }
    if (kind.empty() && (p = l.find("WARNING: ThreadSanitizer: ")) != string::npos) {
      std::istringstream is(l.substr(p + 26)); string a, b; is >> a >> b; kind = "tsan:" + a + "_" + b; inTrace = true; continue;
    }
    if (inTrace && frame.empty() && l.find("    #") != string::npos) {
      // first frame located in the repository sources (not in the sanitizer runtime or the harness)
      if (l.find("/harness/") != string::npos) continue;
      size_t in_ = l.find(" in ");
      size_t sp = l.rfind(' ');
      if (in_ != string::npos && sp != string::npos && sp > in_ + 4) {
        string fn = l.substr(in_ + 4, sp - in_ - 4);
        string loc = l.substr(sp + 1);
        if (loc.find("/libsanitizer/") != string::npos || loc.find("/lib/x86_64") != string::npos || loc.find("/usr/") != string::npos) continue;
        size_t par = fn.find('(');
        if (par != string::npos) fn = fn.substr(0, par);
        for (auto &ch : fn) if (ch == ' ') ch = '_';
        frame = fn;
      }
    }
  }
  if (kind.empty()) return "";
  return kind + (frame.empty() ? "" : "@" + frame);
}

int main(int argc, char **argv) {
  if (argc < 2) { fprintf(stderr, "usage: drv casefile [--timeout s] [--logdir d]\n"); return 2; }
  int timeout = 20;
  string logdir = "";
  for (int i = 2; i + 1 < argc; i += 2) {
    if (!strcmp(argv[i], "--timeout")) timeout = atoi(argv[i + 1]);
    if (!strcmp(argv[i], "--logdir")) logdir = argv[i + 1];
  }
  int outfd = dup(1);
  OUT = fdopen(outfd, "w");
  std::ifstream in(argv[1]);
  string line;
  vector<Case> cases;
  Case cur; bool inCase = false;
  while (std::getline(in, line)) {
    auto t = split(line);
    if (t.empty() || t[0][0] == '#') continue;
    if (t[0] == "case") {
      cur = Case(); cur.id = t[1]; cur.stream = t[2]; cur.kind = t.size() > 3 ? t[3] : "";
      for (size_t i = 4; i < t.size(); i++) {
        size_t e = t[i].find('=');
        if (e != string::npos) cur.par[t[i].substr(0, e)] = t[i].substr(e + 1);
      }
      inCase = true;
    } else if (t[0] == "s" && inCase) cur.strs.push_back(unhex(t[1]));
    else if (t[0] == "o" && inCase) cur.ops.emplace_back(t.begin() + 1, t.end());
    else if (t[0] == "end" && inCase) { cases.push_back(cur); inCase = false; }
  }
  for (auto &c : cases) {
    string log = (logdir.empty() ? string("/dev/null") : logdir + "/" + c.id + ".log");
    fflush(OUT);
    pid_t pid = fork();
    if (pid == 0) {
      int fd = open(log.c_str(), O_WRONLY | O_CREAT | O_TRUNC, 0644);
      dup2(fd, 1); dup2(fd, 2);
      g_case = c.id; g_op = 0;
      // the time budget grows with the work of the case (bytes of the dictionary x number of operations):
      // XBW under ASan needs ~0.4 s to extract three strings of 16 KiB, seventy such operations are slow, not hung
      double bytes = 0;
      for (auto &x : c.strs) bytes += (double)x.size();
      double budget = timeout * (1.0 + bytes * (double)c.ops.size() / 500000.0);
      double cap = timeout > 600 ? timeout : 600;
      if (budget > cap) budget = cap;
      alarm((unsigned)budget);
      runCase(c);
      fflush(OUT);
      _exit(0);
    }
    int st = 0;
    waitpid(pid, &st, 0);
    if (WIFSIGNALED(st) || (WIFEXITED(st) && WEXITSTATUS(st) != 0)) {
      string why;
      if (WIFSIGNALED(st) && WTERMSIG(st) == SIGALRM) why = "timeout";
      else {
        why = logdir.empty() ? "" : summarizeLog(log);
        if (why.empty()) why = WIFSIGNALED(st) ? "signal:" + std::to_string(WTERMSIG(st)) : "exit:" + std::to_string(WEXITSTATUS(st));
      }
      fprintf(OUT, "%s FAULT %s\n", c.id.c_str(), why.c_str());
      fflush(OUT);
    } else if (!logdir.empty()) {
      // a sanitizer report that did not abort (TSan) is still a result
      string why = summarizeLog(log);
      if (!why.empty()) { fprintf(OUT, "%s FAULT %s\n", c.id.c_str(), why.c_str()); fflush(OUT); }
      else unlink(log.c_str());
    }
  }
  return 0;
}
