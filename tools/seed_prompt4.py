import sys, subprocess, os
pid = sys.argv[1]
here = os.path.dirname(os.path.abspath(__file__))
txt = subprocess.run(['python3', os.path.join(here, 'seed_prompt.py'), pid], capture_output=True, text=True).stdout
txt = txt.replace('/tmp/seed_%s' % pid, '/tmp/seedd_%s' % pid)
txt = txt.replace("Prefer changing code of kinds OTHER than the two covered by the existing tests if the property allows",
  "This is a FOURTH, independent round. Earlier rounds used the top-level locate/extract of most kinds, save/load field lists, the worker loop, iterators, code builders, RG/RRR rank, and several off-by-one conditions that show on tiny dictionaries. This time make a change that is INVISIBLE on small inputs: every query on dictionaries of fewer than ~300 short strings over a small alphabet, with default-ish parameters, must still be answered correctly. It should need SCALE or a RARE COMBINATION to manifest: thousands of strings, strings of several hundred or thousand bytes, a large alphabet (bytes up to 0xFE), an unusual parameter value (bucket size 1000+, hash overhead 0 or 300, a sampling step that does not divide the text length, sparse bitmaps), integer widths (a count crossing 2^8, 2^16 or a bit width crossing 8/16/32), a structure crossing a super-block / sample / level boundary (DAC with 3+ levels, RG super-blocks, wavelet tree depth), a rarely taken loader option, or an interaction of two of these. Prefer changing code of kinds OTHER than the two covered by the existing tests if the property allows")
print(txt)
