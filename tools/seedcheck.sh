#!/bin/sh
# seedcheck.sh <patch.diff> <prop> [<prop>...]: run the quick checks against a scratch copy of /repo with the patch applied.
set -e
PATCH="$1"; shift
D=/tmp/sc_$$
rm -rf $D ${D}_build; mkdir -p $D
git -C /repo archive HEAD | tar -x -C $D
(cd $D && git init -q . && git apply --whitespace=nowarn "$PATCH")
for p in "$@"; do
  VERIF_REPO=$D VERIF_BUILD=${D}_build VERIF_OUT=${D}_build/out python3 /verif/tools/vcheck.py $p --tier ${TIER:-quick} 2>&1 | grep "VIOLATION\|tier=\|   [A-Za-z-]" | cut -c1-220
done
rm -rf $D ${D}_build
# the generated fragments must describe /repo again
python3 -c "
import sys; sys.path.insert(0,'/verif/tools'); import extract
extract.regenerate('/repo','/verif/lean/CSD/Generated')"
