#!/usr/bin/env python3
"""Seeded generators for dictionaries, queries and case files (DESIGN §5.3).

Every random choice derives from one SplitMix64 state, so a run replays exactly
from (VERIF_SEED, tier, property).
"""
import itertools

MASK = (1 << 64) - 1


class Rng:
    def __init__(self, seed):
        self.s = (seed * 0x9E3779B97F4A7C15 + 0x1234567) & MASK

    def next(self):
        self.s = (self.s + 0x9E3779B97F4A7C15) & MASK
        z = self.s
        z = ((z ^ (z >> 30)) * 0xBF58476D1CE4E5B9) & MASK
        z = ((z ^ (z >> 27)) * 0x94D049BB133111EB) & MASK
        return z ^ (z >> 31)

    def below(self, n):
        return self.next() % n if n > 0 else 0

    def range(self, a, b):  # inclusive
        return a + self.below(b - a + 1)

    def choice(self, xs):
        return xs[self.below(len(xs))]

    def chance(self, num, den):
        return self.below(den) < num

    def shuffle(self, xs):
        for i in range(len(xs) - 1, 0, -1):
            j = self.below(i + 1)
            xs[i], xs[j] = xs[j], xs[i]

    def sample(self, xs, k):
        xs = list(xs)
        self.shuffle(xs)
        return xs[:k]

    def fork(self, tag):
        h = 0
        for ch in str(tag).encode():
            h = (h * 131 + ch) & MASK
        return Rng(self.next() ^ h)


ALPHABETS = {
    1: [0x61],
    2: [0x61, 0x62],
    4: [0x02, 0x61, 0x7A, 0xFE],
    26: list(range(0x61, 0x7B)),
    253: list(range(2, 255)),
}


def small_scope_universe(maxlen=3, alpha=(0x61, 0x62)):
    u = []
    for l in range(1, maxlen + 1):
        for t in itertools.product(alpha, repeat=l):
            u.append(bytes(t))
    return sorted(u)


def g1_subsets(rng, count, maxlen=3):
    """Random non-empty subsets of all strings of length <= maxlen over {a,b}."""
    u = small_scope_universe(maxlen)
    out = []
    for _ in range(count):
        m = rng.range(1, (1 << len(u)) - 1)
        out.append([s for i, s in enumerate(u) if (m >> i) & 1])
    return out


def g1_all(maxlen=2):
    u = small_scope_universe(maxlen)
    return [[s for i, s in enumerate(u) if (m >> i) & 1] for m in range(1, 1 << len(u))]


def g2_dict(rng, n, alpha_size, lenmode):
    """Structured random: strings derived from the previous by keep-prefix-and-mutate."""
    alpha = ALPHABETS[alpha_size]
    lo, hi = {"short": (1, 4), "mixed": (1, 40), "long": (100, 300), "mid": (3, 12)}[lenmode]
    S = set()
    prev = bytes(rng.choice(alpha) for _ in range(rng.range(lo, hi)))
    tries = 0
    # the number of distinct strings over a tiny alphabet is limited
    cap = n
    if alpha_size == 1:
        cap = min(n, hi - lo + 1)
    elif alpha_size == 2 and lenmode == "short":
        cap = min(n, 28)
    while len(S) < cap and tries < 50 * n + 100:
        tries += 1
        mode = rng.below(10)
        if mode < 6 and prev:
            keep = rng.range(0, len(prev))
            l = max(lo, min(hi, rng.range(lo, hi)))
            tail = bytes(rng.choice(alpha) for _ in range(max(0, l - keep)))
            s = prev[:keep] + tail
        elif mode < 8 and prev and len(prev) < hi:
            s = prev + bytes([rng.choice(alpha)])
        else:
            s = bytes(rng.choice(alpha) for _ in range(rng.range(lo, hi)))
        if s and lo <= len(s) <= max(hi, lo):
            S.add(s)
            prev = s
    return sorted(S)


def g3_lcp_chain(rng, lcp, count=3):
    """Strings sharing a prefix of exactly `lcp` bytes (lcp around VByte limits)."""
    base = bytes(rng.choice(ALPHABETS[26]) for _ in range(lcp))
    tails = sorted(set(bytes([0x62 + i]) + bytes(rng.choice(ALPHABETS[26]) for _ in range(rng.below(3)))
                       for i in range(count)))
    return sorted(base + t for t in tails)


def g3_lcp_fence(rng, lcp):
    """A bucket's worth of long strings around one pair that shares exactly `lcp` bytes: a string before the
    pair that shares less, the pair, and strings after it that leave the common prefix early — so that a prefix
    range ends on the second string of the pair while the bucket goes on (the right-limit scans of the
    front-coding kinds must step over a string whose shared length is exactly `lcp`)."""
    A = ALPHABETS[26]
    pre = bytes(rng.choice(A) for _ in range(lcp))
    t = lambda k: bytes(rng.choice(A) for _ in range(k))
    cut1, cut2 = max(1, lcp // 3), max(2, lcp // 2)
    S = {bytes([0x41]) + t(3),                              # sorts first (a header)
         pre[:cut1] + bytes([0x21]) + t(2),                 # shares cut1 bytes, sorts before the pair
         pre + bytes([0x62]) + t(2), pre + bytes([0x64]) + t(1),          # the pair: exactly `lcp` shared bytes
         pre[:cut2] + bytes([0x7b]) + t(2),                 # after the pair, shares only cut2 bytes
         pre[:cut1] + bytes([0x7c]) + t(1),
         bytes([0x7d]) + t(2)}
    return sorted(S)


def fence_patterns(S, cap):
    """Patterns at which a prefix range begins or ends: for adjacent members a < b with l common bytes,
    a[:l] (both match), a[:l+1] and b[:l+1] (the range ends on a / begins on b)."""
    out = []
    pairs = []
    for i in range(len(S) - 1):
        a, b = S[i], S[i + 1]
        l = 0
        while l < len(a) and l < len(b) and a[l] == b[l]:
            l += 1
        pairs.append((l, a, b))
    # long common prefixes first (VByte boundaries), then evenly spread; prefixes of many KiB are left out
    # (patterns of 16 KiB make the trie-based kinds take minutes under the sanitizer)
    pairs = [x for x in pairs if x[0] <= 300]
    pairs.sort(key=lambda x: -x[0])
    keep = pairs[:max(2, cap // 2)] + pairs[max(2, cap // 2)::max(1, len(pairs) // max(1, cap // 2))]
    for l, a, b in keep:
        for q in (a[:l], a[:l + 1], b[:l + 1], a[:max(1, l // 2)]):
            if q and q not in out:
                out.append(q)
    return out[:3 * cap]


def g3_common_tail(rng, n, keylen, taillen):
    """Pairs `k`, `k + TAIL` with one long tail shared by every pair: with small buckets every
    internal string has the same front-coded form, which a grammar compressor folds into one long rule."""
    tail = bytes(rng.choice(ALPHABETS[26]) for _ in range(taillen))
    keys = set()
    while len(keys) < n:
        keys.add(bytes(rng.choice(ALPHABETS[26]) for _ in range(keylen)))
    return sorted([k for k in keys] + [k + tail for k in keys])


def g3_single_symbols(k):
    return [bytes([0x61 + i]) for i in range(k)]


def us_states():
    names = ["Alabama", "Alaska", "Arizona", "Arkansas", "California", "Colorado", "Connecticut",
             "Delaware", "Florida", "Georgia", "Hawaii", "Idaho", "Illinois", "Indiana", "Iowa", "Kansas",
             "Kentucky", "Louisiana", "Maine", "Maryland", "Massachusetts", "Michigan", "Minnesota",
             "Mississippi", "Missouri", "Montana", "Nebraska", "Nevada", "NewHampshire", "NewJersey",
             "NewMexico", "NewYork", "NorthCarolina", "NorthDakota", "Ohio", "Oklahoma", "Oregon",
             "Pennsylvania", "RhodeIsland", "SouthCarolina", "SouthDakota", "Tennessee", "Texas", "Utah",
             "Vermont", "Virginia", "Washington", "WestVirginia", "Wisconsin", "Wyoming"]
    return sorted(n.encode() for n in names)


def queries_members_and_neighbours(rng, S, cap):
    """Members, proper prefixes, one-byte extensions, +-1 on the last byte,
    below first / above last, bytes absent from the dictionary."""
    q = []
    members = S if len(S) <= cap else rng.sample(S, cap)
    used = set(b for s in S for b in s)
    absent_lo = next((b for b in range(2, 255) if b not in used), None)
    absent_hi = next((b for b in range(254, 1, -1) if b not in used), None)
    for s in members:
        q.append(s)
    non = []
    for s in (members if len(members) <= cap // 2 else rng.sample(members, max(1, cap // 2))):
        if len(s) > 1:
            non.append(s[:rng.range(1, len(s) - 1)])
        non.append(s + bytes([rng.choice([0x02, 0x61, 0xFE])]))
        if 2 < s[-1]:
            non.append(s[:-1] + bytes([s[-1] - 1]))
        if s[-1] < 254:
            non.append(s[:-1] + bytes([s[-1] + 1]))
    non.append(bytes([0x02]))
    non.append(bytes([0xFE]) * 3)
    if absent_lo is not None:
        non.append(bytes([absent_lo]))
        non.append(S[0][:1] + bytes([absent_lo]))
    if absent_hi is not None:
        non.append(bytes([absent_hi, absent_hi]))
        non.append(S[-1] + bytes([absent_hi]))
    # the byte right above the alphabet (Re-Pair kinds use it as their string terminator)
    mc = max(used) + 1 if used else 0
    if 2 <= mc <= 254:
        non.append(bytes([mc]))
        for s in (members if len(members) <= 4 else rng.sample(members, 4)):
            non.append(s + bytes([mc]))
            t = rng.choice(S)
            non.append(s + bytes([mc]) + t)
        if len(S) <= 6:
            for s in S:
                for t in S:
                    non.append(s + bytes([mc]) + t)
    # keep non-members among the "non" list as they are (some may be members: fine, the oracle decides)
    seen = set()
    out = []
    for x in q + non:
        if x and x not in seen and all(2 <= b <= 254 for b in x):
            seen.add(x)
            out.append(x)
    return out


def prefixes_of(rng, S, cap):
    ps = set()
    for s in S:
        for l in range(1, len(s) + 1):
            ps.add(s[:l])
            if len(ps) > 20 * cap:
                break
    ps = sorted(ps)
    if len(ps) > cap:
        ps = rng.sample(ps, cap)
    ext = [p + bytes([rng.choice([0x02, 0x61, 0x62, 0xFE])]) for p in ps[: max(1, cap // 3)]]
    extra = [bytes([0x02]), bytes([0xFE]), S[-1] + b"zz", max(S, key=len) + b"a"]
    out, seen = [], set()
    for x in ps + ext + extra + fence_patterns(S, max(2, cap // 3)):
        if x not in seen:
            seen.add(x)
            out.append(x)
    return out


def substrings_of(rng, S, cap):
    ss = set()
    for s in S:
        for i in range(len(s)):
            for l in (1, 2, 3):
                if i + l <= len(s):
                    ss.add(s[i:i + l])
        ss.add(s)
        if len(ss) > 30 * cap:
            break
    ss = sorted(ss)
    if len(ss) > cap:
        ss = rng.sample(ss, cap)
    extra = []
    if len(S) >= 2:
        extra.append(S[0][-1:] + S[1][:1])  # straddles two members in the text
        extra.append(S[0] + S[1])
    extra += [bytes([0x02]), bytes([0xFE, 0xFE]), b"zzzz"]
    # long twins, queried one after the other: patterns of one length that agree on a long prefix and differ
    # at the end or only in the middle (an answer must not depend on the previous query)
    tw = 0
    for a, b in zip(S, S[1:]):
        l = 0
        while l < len(a) and l < len(b) and a[l] == b[l]:
            l += 1
        if 33 <= l <= 300 and tw < 3:
            extra += [a[:l + 1], b[:l + 1], a[l - 33:l + 1], b[l - 33:l + 1]]
            m = min(len(a), len(b))
            if m > l + 1:
                extra += [a[:m], b[:m]]
            tw += 1
    out, seen = [], set()
    for x in ss + extra:
        if x not in seen:
            seen.add(x)
            out.append(x)
    return out


def bad_ids(n):
    return [0, n + 1, n + 2, 2 ** 32 - 1, 2 ** 32, 2 ** 32 + 1, 2 ** 64 - 1]


class CaseWriter:
    def __init__(self):
        self.lines = []
        self.cases = []  # (id, stream, kind, params, strs, ops)

    def add(self, cid, stream, kind, params, strs, ops):
        self.cases.append((cid, stream, kind, dict(params), list(strs), list(ops)))

    @staticmethod
    def render(case):
        cid, stream, kind, params, strs, ops = case
        out = ["case %s %s %s %s" % (cid, stream, kind, " ".join("%s=%s" % kv for kv in sorted(params.items())))]
        for s in strs:
            out.append("s " + s.hex())
        for o in ops:
            out.append("o " + " ".join(str(x) for x in o))
        out.append("end")
        return "\n".join(out) + "\n"


def hx(b):
    return b.hex() if b else "-"
