#!/usr/bin/env python3
"""probe.py — run a case file (or a quick ad-hoc dictionary) through the real code
and the Lean model and print the differing lines.  Development aid; not a check.

  VERIF_REPO=<tree> VERIF_BUILD=<dir> python3 tools/probe.py cases.txt [--cfg asan] [--all]
  ... probe.py --kind HTFC --b 2 --strings a,ab,bb [--loaded]   (ad-hoc: locate/extract everything)
"""
import argparse, os, sys
HERE = os.path.dirname(os.path.abspath(__file__))
sys.path.insert(0, HERE)
import build, gen, vcheck


def main():
    ap = argparse.ArgumentParser()
    ap.add_argument("casefile", nargs="?")
    ap.add_argument("--cfg", default="asan")
    ap.add_argument("--all", action="store_true", help="print every line, not only differences")
    ap.add_argument("--kind")
    ap.add_argument("--strings")
    ap.add_argument("--hexstrings")
    ap.add_argument("--params", default="", help="k=v,k=v")
    ap.add_argument("--loaded", action="store_true")
    ap.add_argument("--defs", default="", help="extra -D defines, comma separated, e.g. LIBCSD_VERIF_MEMALLOC=1")
    ap.add_argument("--ops", default="", help="extra ops separated by ';' e.g. 'pre 61;sub 62'")
    a = ap.parse_args()
    cases = []
    if a.casefile:
        cur = None
        for line in open(a.casefile):
            t = line.split()
            if not t:
                continue
            if t[0] == "case":
                cur = [t[1], t[2], t[3] if len(t) > 3 else "-", dict(x.split("=", 1) for x in t[4:] if "=" in x), [], []]
            elif t[0] == "s":
                cur[4].append(bytes.fromhex(t[1]))
            elif t[0] == "o":
                cur[5].append(t[1:])
            elif t[0] == "end":
                cases.append(tuple(cur))
    else:
        if a.hexstrings:
            S = sorted(bytes.fromhex(x) for x in a.hexstrings.split(","))
        else:
            S = sorted(x.encode() for x in a.strings.split(","))
        pv = dict(x.split("=", 1) for x in a.params.split(",") if "=" in x)
        ops = [["reload", "own", "1"]] if a.loaded else []
        ops += [["meta"]]
        exact = a.kind not in ("HASHHF", "HASHRPF", "HASHUFFDAC", "HASHRPDAC", "BLOCKS")
        ops += [["loc" if exact else "rt", s.hex()] for s in S]
        if exact:
            ops += [["ext", str(i)] for i in range(0, len(S) + 2)]
        ops += [["exts"]]
        ops += [o.split() for o in a.ops.split(";") if o.strip()]
        cases.append(("adhoc", "dict", a.kind, pv, S, ops))
    rundir = os.path.join(build.BUILD, "run", "probe_%d" % os.getpid())
    defs = tuple("-D" + d for d in a.defs.split(",") if d)
    impl, mod, err = vcheck.run_cases(cases, a.cfg, rundir, defs, "_" + "".join(ch for ch in a.defs if ch.isalnum()) if defs else "")
    if err:
        print("ERROR", err)
        return 2
    bad = 0
    for c in cases:
        il, ml = impl.get(c[0], []), mod.get(c[0], [])
        d = vcheck.compare_case(c, il, ml)
        if d:
            bad += 1
        if a.all or d:
            for i in range(max(len(il), len(ml))):
                e = ml[i] if i < len(ml) else "<none>"
                o = il[i] if i < len(il) else "<none>"
                ok = vcheck.tokens_match(e, o) if i < len(ml) and i < len(il) else False
                if a.all or not ok:
                    print("%s %s | exp: %-50s | obs: %s" % ("  " if ok else "!!", c[0], e[:100], o[:200]))
                    if not ok and not a.all:
                        break
    logs = []
    for root, _, files in os.walk(rundir):
        logs += [os.path.join(root, f) for f in files if f.endswith(".log")]
    print("cases=%d failing=%d   sanitizer logs kept: %s" % (len(cases), bad, " ".join(logs[:3])))
    return 1 if bad else 0


if __name__ == "__main__":
    sys.exit(main())
