#!/usr/bin/env python3
"""record_bodies.py — writes lean/CSD/Model/SourceText.lean: the text of the C++ functions the
hand-written models mirror, as it is in /repo NOW.  Run it deliberately, after the models have been
brought in line with a source change (and reviewed); the checks never run it."""
import os, sys
sys.path.insert(0, os.path.dirname(os.path.abspath(__file__)))
import extract_frag
repo = os.environ.get("VERIF_REPO", "/repo")
out = os.path.join(os.path.dirname(os.path.dirname(os.path.abspath(__file__))), "lean", "CSD", "Model", "SourceText.lean")
text = extract_frag.bodies_lean(repo, "CSD.SourceText",
    "/-\n  The C++ function bodies (comments stripped, white space collapsed) the hand-written models of\n"
    "  CSD/Model were written against. Recorded by tools/record_bodies.py; compared on every run with\n"
    "  the same extraction from the current sources (CSD/Generated/Bodies.lean) by the theorems\n"
    "  `models_match_source_text` of the property files.\n-/")
open(out, "w").write(text)
print("wrote", out)
