#!/bin/sh
# seedconfirm.sh <seed_out_dir>: confirm a seeded defect independently:
#   tests pass with the change; the demonstration fails with it and passes without it.
OUT="$1"
D=/tmp/cf_$$
rm -rf $D; mkdir -p $D/base $D/mut
git -C /repo archive HEAD | tar -x -C $D/base
git -C /repo archive HEAD | tar -x -C $D/mut
(cd $D/mut && git init -q . && git apply --whitespace=nowarn "$OUT/patch.diff") || { echo "PATCH-DOES-NOT-APPLY"; rm -rf $D; exit 2; }
for t in base mut; do
  (cd $D/$t && cmake -G Ninja -B _build -DCMAKE_BUILD_TYPE=RelWithDebInfo >/dev/null 2>&1 && cmake --build _build -j8 >/dev/null 2>&1) || echo "BUILD-FAILED $t"
done
TESTS=$(ctest --test-dir $D/mut/_build -j8 --timeout 900 2>&1 | grep "tests passed" )
echo "tests-with-change: $TESTS"
cp "$OUT/demo.cpp" "$OUT/run.sh" $D/ 2>/dev/null
(cd $D && timeout 300 sh ./run.sh $D/mut >$D/mut.log 2>&1); echo "demo-with-change: exit=$? $(tail -2 $D/mut.log | tr '\n' ' ' | cut -c1-200)"
(cd $D && timeout 300 sh ./run.sh $D/base >$D/base.log 2>&1); echo "demo-without-change: exit=$? $(tail -1 $D/base.log | cut -c1-200)"
rm -rf $D
