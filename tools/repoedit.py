#!/usr/bin/env python3
"""repoedit.py <file> — replace OLD by NEW (read from a python literal file or stdin JSON
[[old,new],...]) keeping the file's line endings (several libCSD sources use CRLF)."""
import json, sys


def edit(path, pairs):
    b = open(path, "rb").read()
    crlf = b"\r\n" in b
    for old, new in pairs:
        o = old.encode(); n = new.encode()
        if crlf:
            o = o.replace(b"\r\n", b"\n").replace(b"\n", b"\r\n")
            n = n.replace(b"\r\n", b"\n").replace(b"\n", b"\r\n")
        if b.count(o) != 1:
            raise SystemExit("%s: pattern occurs %d times: %r" % (path, b.count(o), old[:60]))
        b = b.replace(o, n)
    open(path, "wb").write(b)


if __name__ == "__main__":
    edit(sys.argv[1], json.load(sys.stdin))
