#!/bin/sh
# Runs the repository's pinned suite with the verification guard OFF
# (no -DLIBCSD_VERIF anywhere): reconfigure, rebuild, ctest.
set -e
REPO="${VERIF_REPO:-/repo}"
cmake -G Ninja -B "$REPO/_build" -S "$REPO" -DCMAKE_BUILD_TYPE=RelWithDebInfo >/dev/null
cmake --build "$REPO/_build" -j16 >/dev/null
ctest --test-dir "$REPO/_build" -j8 --timeout 900
