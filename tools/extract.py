#!/usr/bin/env python3
"""extract.py — the translator: regenerates lean/CSD/Generated/*.lean from the
current sources of the repository (DESIGN §5.1).  Fails closed: if a place it
used to parse no longer parses, it returns an error string and the properties
that use the fragment report a broken correspondence."""
import os, re


def write_if_changed(path, text):
    if os.path.exists(path) and open(path).read() == text:
        return
    os.makedirs(os.path.dirname(path), exist_ok=True)
    with open(path, "w") as f:
        f.write(text)


# which properties rest on which generated fragment
FRAGMENT_USERS = {"Dispatch": ["C06", "C16"], "Stubs": ["C16", "C03"], "Fields": ["C06", "C08"], "PoolOps": ["C09", "C10", "C11"], "RPCompare": ["C14"],
                  "Bodies": ["C01", "C02", "C03", "C04", "C05", "C06", "C07", "C08", "C12", "C13", "C15", "C17", "C18", "C19", "C20"]}


def regenerate(repo, outdir, prop=None):
    """Rewrites every fragment; returns an error text only for fragments `prop` rests on."""
    errs = []
    try:
        from extract_frag import FRAGMENTS
    except ImportError:
        FRAGMENTS = []
    for name, fn in FRAGMENTS:
        try:
            text = fn(repo)
            write_if_changed(os.path.join(outdir, name + ".lean"), text)
        except Exception as e:  # fail closed
            if prop is None or prop in FRAGMENT_USERS.get(name, []):
                errs.append("%s: %s" % (name, e))
            write_if_changed(os.path.join(outdir, name + ".lean"),
                             "-- extraction failed: %s\n#eval (throw (IO.userError \"extraction of %s failed\") : IO Unit)\n" % (str(e).replace("\n", " "), name))
    return "\n".join(errs) if errs else None
