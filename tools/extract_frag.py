#!/usr/bin/env python3
"""Fragments translated mechanically from the C++ sources into Lean (DESIGN §5.1).

Each function takes the repository path and returns the text of one
lean/CSD/Generated/<Name>.lean file.  Anything that does not parse raises, and
extract.regenerate() turns that into a broken correspondence.
"""
import os, re

KINDS = [  # (model name, class suffix, tag constant)
    ("PFC", "PFC", "PFC"), ("RPFC", "RPFC", "RPFC"), ("HTFC", "HTFC", "HTFC"), ("HHTFC", "HHTFC", "HHTFC"),
    ("RPHTFC", "RPHTFC", "RPHTFC"), ("RPDAC", "RPDAC", "RPDAC"), ("HASHHF", "HASHHF", "HASHHF"),
    ("HASHRPF", "HASHRPF", "HASHRPF"), ("HASHUFFDAC", "HASHUFFDAC", "HASHUFFDAC"),
    ("HASHRPDAC", "HASHRPDAC", "HASHRPDAC"), ("BLOCKS", "HASHRPDACBlocks", "HASHRPDACBlocks"),
    ("FMINDEX", "FMINDEX", "FMINDEX"), ("XBW", "XBW", "DXBW"),
]


def read(repo, rel):
    return open(os.path.join(repo, rel), "rb").read().decode("utf-8", "replace").replace("\r\n", "\n")


def strip_comments(src):
    src = re.sub(r"/\*.*?\*/", lambda m: " " * 0 + "\n" * m.group(0).count("\n"), src, flags=re.S)
    src = re.sub(r"//[^\n]*", "", src)
    return src


def func_body(src, qualname, must=True, nth=0):
    """Body (between the outer braces) of the nth definition `... qualname(...) {`."""
    pat = re.compile(r"(?<![\w:])" + re.escape(qualname) + r"\s*\(")
    found = -1
    for m in pat.finditer(src):
        # find the matching ')' then expect optional const and '{'
        i = m.end()
        depth = 1
        while i < len(src) and depth:
            depth += {"(": 1, ")": -1}.get(src[i], 0)
            i += 1
        j = i
        # skip ctor initialiser lists / const
        k = src.find("{", j)
        semi = src.find(";", j)
        if k == -1 or (semi != -1 and semi < k):
            continue  # a declaration or a call, not a definition
        between = src[j:k]
        if re.search(r"[=<>!&|+\-*/]\s*$", between.strip()) or "return" in between:
            continue
        found += 1
        if found < nth:
            continue
        depth = 1
        i = k + 1
        while i < len(src) and depth:
            depth += {"{": 1, "}": -1}.get(src[i], 0)
            i += 1
        return src[k + 1:i - 1], src[m.start():k]
    if must:
        raise ValueError("cannot find definition of " + qualname)
    return None, None


def lean_str(s):
    return '"' + s.replace("\\", "\\\\").replace('"', '\\"') + '"'


def lean_list(xs):
    return "[" + ", ".join(xs) + "]"


# --------------------------------------------------------------------------- tags + dispatch + guards
def tags(repo):
    src = strip_comments(read(repo, "utils/Utils.h"))
    out = {}
    for m in re.finditer(r"static\s+const\s+uint32_t\s+(\w+)\s*=\s*(\d+)\s*;", src):
        out[m.group(1)] = int(m.group(2))
    need = [k[2] for k in KINDS] + ["HASHRP", "HASHBRP", "HASHBBRP", "HASHUFF", "HASHBHUFF", "HASHBBHUFF"]
    for n in need:
        if n not in out:
            raise ValueError("tag constant %s not found in utils/Utils.h" % n)
    m = re.search(r"static\s+const\s+size_t\s+NORESULT\s*=\s*(\d+)", src)
    if not m:
        raise ValueError("NORESULT not found")
    out["NORESULT"] = int(m.group(1))
    return out


def dispatch_cases(repo):
    """[(tag constant, loader class)] in the order of the switch of StringDictionary::load."""
    src = strip_comments(read(repo, "StringDictionary.cpp"))
    body, _ = func_body(src, "StringDictionary::load")
    if "switch" not in body:
        raise ValueError("StringDictionary::load has no switch")
    m = re.search(r"switch\s*\(\s*(\w+)\s*\)", body)
    swvar = m.group(1)
    if not re.search(r"size_t\s+%s\s*=\s*loadValue<uint32_t>\(fp\)" % swvar, body):
        raise ValueError("dispatch variable is not the leading uint32 of the image")
    cases = []
    pending = []
    for m in re.finditer(r"case\s+(\w+)\s*:|return\s+StringDictionary(\w+)::load\s*\(|default\s*:|return\s+NULL", body):
        if m.group(1):
            pending.append(m.group(1))
        elif m.group(2):
            for p in pending:
                cases.append((p, m.group(2)))
            pending = []
    if pending:
        raise ValueError("case label(s) without loader: %s" % pending)
    tail = body[body.rfind("}"):]
    if "return NULL" not in tail and "return nullptr" not in tail:
        raise ValueError("generic loader does not end with return NULL")
    return cases


def loader_guard(repo, cls):
    src = strip_comments(read(repo, "StringDictionary%s.cpp" % cls))
    body, _ = func_body(src, "StringDictionary%s::load" % cls)
    m = re.search(r"(?:size_t|auto|uint32_t|uint)\s+(\w+)\s*=\s*loadValue<uint32_t>\((\w+)\)\s*;\s*if\s*\(\s*\1\s*!=\s*(\w+)\s*\)\s*return\s+(NULL|nullptr)\s*;", body)
    if not m:
        raise ValueError("loader of %s does not start with the tag guard" % cls)
    if body.strip().find(m.group(0).split(";")[0]) > 5:
        raise ValueError("loader guard of %s is not the first statement" % cls)
    return m.group(3)


def save_tag(repo, cls):
    """The constant the first saveValue<uint32_t> of save() writes (through `type`, set by every ctor and by load)."""
    src = strip_comments(read(repo, "StringDictionary%s.cpp" % cls))
    body, _ = func_body(src, "StringDictionary%s::save" % cls)
    m = re.match(r"\s*saveValue<uint32_t>\(\s*out\s*,\s*(\w+)\s*\)", body)
    if not m:
        raise ValueError("save of %s does not start with the type tag" % cls)
    what = m.group(1)
    if what != "type":
        return [what]
    vals = set(re.findall(r"(?:this|dict)->type\s*=\s*(\w+)\s*;", src))
    if not vals:
        raise ValueError("no assignment to type in %s" % cls)
    return sorted(vals)


def gen_dispatch(repo):
    t = tags(repo)
    cases = dispatch_cases(repo)
    L = ["-- generated by tools/extract_frag.py from utils/Utils.h, StringDictionary.cpp and StringDictionary*.cpp",
         "namespace CSD.Generated", "",
         "/-- The dictionary kinds. -/",
         "inductive Kind where", "  | " + " | ".join(k[0] for k in KINDS), "  deriving DecidableEq, Repr", "",
         "/-- Type tag constants of utils/Utils.h. -/",
         "def Kind.tag : Kind → Nat"]
    for name, cls, const in KINDS:
        L.append("  | .%s => %d" % (name, t[const]))
    L += ["", "def allKinds : List Kind := " + lean_list(["." + k[0] for k in KINDS]), "",
          "def NORESULT : Nat := %d" % t["NORESULT"], "",
          "/-- `StringDictionary::load`: the switch on the leading uint32 of the image, case by case. -/",
          "def dispatch (t : Nat) : Option Kind :="]
    cls2kind = {cls: name for name, cls, _ in KINDS}
    for const, cls in cases:
        if cls not in cls2kind:
            raise ValueError("switch dispatches to unknown class " + cls)
        L.append("  if t = %d then some .%s else" % (t[const], cls2kind[cls]))
    L.append("  none")
    L += ["", "/-- The tag each kind's own loader insists on (`if (type != X) return NULL`). -/",
          "def loaderGuard : Kind → Nat"]
    for name, cls, const in KINDS:
        g = loader_guard(repo, cls)
        L.append("  | .%s => %d" % (name, t[g]))
    L += ["", "/-- The tag(s) `save` can write as the first field: every value ever assigned to `type`. -/",
          "def saveTags : Kind → List Nat"]
    for name, cls, const in KINDS:
        L.append("  | .%s => %s" % (name, lean_list(str(t[v]) if v in t else "0" for v in save_tag(repo, cls))))
    L += ["", "end CSD.Generated", ""]
    return "\n".join(L)


# --------------------------------------------------------------------------- stubs and rank identities
OPS = ["locatePrefix", "locateSubstr", "locateRank", "extractPrefix", "extractSubstr", "extractRank", "extractTable"]


def classify_body(body):
    """stub: prints and returns the null value, touches nothing else.
       rankid / extractid: `return rank;` / `return extract(rank, strLen);`
       guarded: FMINDEX substring ops: stub unless BWTsampling != 0 -> 'impl' with guard text
       impl: anything else."""
    b = body.strip()
    s = re.sub(r"std::(cerr|cout)\s*(<<\s*(\"[^\"]*\"|std::endl)\s*)+;", "", b).strip()
    if re.fullmatch(r"return\s+(NULL|nullptr|0)\s*;", s):
        return "stub"
    if re.fullmatch(r"return\s+rank\s*;", s):
        return "rankid"
    if re.fullmatch(r"return\s+extract\s*\(\s*rank\s*,\s*strLen\s*\)\s*;", s):
        return "extractid"
    return "impl"


def gen_stubs(repo):
    L = ["-- generated by tools/extract_frag.py from StringDictionary*.cpp",
         "import CSD.Generated.Dispatch", "namespace CSD.Generated", "",
         "inductive Op where", "  | " + " | ".join(OPS), "  deriving DecidableEq, Repr", "",
         "/-- How the body of an operation looks: `stub` = prints a message and returns NULL/0 without touching any member;",
         "`rankid` = `return rank;`; `extractid` = `return extract(rank, strLen);`; `impl` = a real implementation. -/",
         "inductive BodyKind where", "  | stub | rankid | extractid | impl", "  deriving DecidableEq, Repr", "",
         "def body : Kind → Op → BodyKind"]
    guards = {}
    for name, cls, const in KINDS:
        src = strip_comments(read(repo, "StringDictionary%s.cpp" % cls))
        for op in OPS:
            b, _ = func_body(src, "StringDictionary%s::%s" % (cls, op))
            k = classify_body(b)
            L.append("  | .%s, .%s => .%s" % (name, op, k))
            if name == "FMINDEX" and op in ("locateSubstr", "extractSubstr"):
                m = re.match(r"\s*if\s*\(\s*BWTsampling\s*(?:!=\s*0|>\s*0)\s*\)\s*\{", b)
                tail = re.search(r"\}\s*else\s*\{?\s*(std::(cerr|cout)[^;]*;\s*)*return\s+(NULL|nullptr|0)\s*;\s*\}?\s*$", b)
                guards[op] = bool(m and tail)
    L += ["", "/-- FMINDEX substring operations: `if (BWTsampling != 0) {…} else {print; return NULL;}` -/",
          "def fmSubstrGuarded : Bool := %s" % ("true" if guards.get("locateSubstr") and guards.get("extractSubstr") else "false"),
          "", "end CSD.Generated", ""]
    return "\n".join(L)


# --------------------------------------------------------------------------- save / load field sequences
PREFIXES = ("dict->", "rep->", "h_new->", "this->", "fm->", "ssa->", "_", "ret->")


# the same quantity under two names on the save and the load side (locals of the Blocks loader)
ALIASES = {"parts.size()": "parts_sz", "s.size()": "cut_sample_sz", "s.c_str()": "cut_sample_buf",
           "starting_indexes[i]": "starting_indexes", "numbytes": "numbytes"}


def norm(x):
    x = x.strip()
    x = re.sub(r"\s+", "", x)
    changed = True
    while changed:
        changed = False
        for p in PREFIXES:
            if x.startswith(p):
                x = x[len(p):]
                changed = True
    x = x.replace("dict->", "").replace("rep->", "").replace("h_new->", "").replace("this->", "").replace("ret->", "")
    x = x.lstrip("*")
    x = ALIASES.get(x, x)
    x = re.sub(r"\(char\*\)|\(uchar\*\)|\(uint\*\)|\(size_t\*\)", "", x)
    return x


def member_types(repo, headers):
    t = {}
    for h in headers:
        src = strip_comments(read(repo, h))
        for m in re.finditer(r"\b([A-Z]\w+)\s*\*\s*(\w+)\s*;", src):
            t.setdefault(m.group(2), m.group(1))
    return t


def fields_of(body, side, mtypes):
    """Token list of a save (side='s') or load (side='l') body, in source order."""
    toks = []
    pat = re.compile(
        r"(?P<for>\bfor\s*\()"
        r"|saveValue(?:<(?P<sty>[\w:\s\*]+)>)?\s*\(\s*\w+\s*,\s*(?P<sargs>[^;]*?)\)\s*;"
        r"|(?P<sobj>[\w\->\.\[\]\(\)\*]+?)(?:->|\.)save\s*\(\s*\w+\s*(?P<sextra>,[^;]*)?\)\s*;"
        r"|(?:(?P<lhs>[\w\->\.\*\s]+?)=\s*)?(?:\([\w\s\*]+\)\s*)?loadValue<(?P<lty>[\w:\s\*]+)>\s*\(\s*\w+\s*(?P<largs>,[^;()]*?)?\)"
        r"|(?P<lcls>\w+)::(?P<lfn>load\w*)\s*\(\s*\w+\s*(?P<lextra>,[^;)]*)?\)"
        r"|new\s+(?P<ncls>\w+)\s*\(\s*(?:in|fp|input)\s*\)"
        r"|out(?:put)?\.write\s*\(\s*\(char\s*\*\)\s*&?(?P<wname>[\w\->]+)\s*,\s*(?P<wcount>[^;]*?)\)\s*;"
        r"|(?:in|input)\.read\s*\(\s*\(char\s*\*\)\s*&?(?P<rname>[\w\->]+)\s*,\s*(?P<rcount>[^;]*?)\)\s*;")
    for m in pat.finditer(body):
        if m.group("for"):
            toks.append("loop")
        elif m.group("sargs") is not None and side == "s":
            args = [a for a in re.split(r",(?![^()]*\))", m.group("sargs"))]
            ty = (m.group("sty") or "auto").replace(" ", "")
            if len(args) == 1:
                toks.append("val %s %s" % (ty, norm(args[0])))
            else:
                toks.append("arr %s %s [%s]" % (ty, norm(args[0]), norm(args[1])))
        elif m.group("sobj") and side == "s":
            obj = norm(m.group("sobj"))
            cls = mtypes.get(obj, obj)
            toks.append("sub %s/%d" % (cls, 2 if m.group("sextra") else 1))
        elif m.group("lty") and side == "l":
            ty = m.group("lty").replace(" ", "")
            lhs = norm((m.group("lhs") or "?").split()[-1]) if m.group("lhs") else "?"
            if lhs == "?":
                pre = body[max(0, m.start() - 60):m.start()]
                pm = re.search(r"(\w+)\.push_back\(\s*$", pre)
                if pm:
                    lhs = norm(pm.group(1))
            if m.group("largs"):
                toks.append("arr %s %s [%s]" % (ty, lhs, norm(m.group("largs")[1:])))
            else:
                toks.append("val %s %s" % (ty, lhs))
        elif m.group("lcls") and side == "l":
            cls, fn = m.group("lcls"), m.group("lfn")
            if cls.startswith("StringDictionary") and fn == "load":
                toks.append("sub %s/1" % cls)
            elif fn == "loadNoSeq":
                toks.append("sub %s/1" % cls)
            elif cls == "RePair":
                toks.append("sub RePair/2")
            else:
                toks.append("sub %s/1" % cls)
        elif m.group("ncls") and side == "l":
            toks.append("sub %s/1" % m.group("ncls"))
        elif m.group("wname") and side == "s":
            toks.append("raw %s [%s]" % (norm(m.group("wname")), norm(m.group("wcount"))))
        elif m.group("rname") and side == "l":
            toks.append("raw %s [%s]" % (norm(m.group("rname")), norm(m.group("rcount"))))
    return toks


# equivalences between the class named at a save site and the loader used at the load site
SUBCLASS_ALIASES = {
    "Hash": "Hash", "Hashdh": "Hash", "HashBdh": "Hash", "HashBBdh": "Hash",
    "BitSequence": "BitSequence", "BitSequenceRG": "BitSequence", "BitSequenceRRR": "BitSequence",
    "Sequence": "Sequence", "WaveletTree": "Sequence", "Mapper": "Mapper", "StringDictionary": "StringDictionaryHASHRPDAC", "part": "StringDictionaryHASHRPDAC",
}


def canon(tok):
    if tok.startswith("sub "):
        cls, ar = tok[4:].split("/")
        return "sub %s/%s" % (SUBCLASS_ALIASES.get(cls, cls), ar)
    if tok.startswith("val "):
        _, ty, name = tok.split(" ", 2)
        ty = {"uint": "uint32_t", "size_t": "uint64_t", "ushort": "uint16_t", "unsignedchar": "uchar"}.get(ty, ty)
        return "val %s %s" % (ty, name)
    if tok.startswith("arr "):
        _, ty, rest = tok.split(" ", 2)
        ty = {"uint": "uint32_t", "size_t": "uint64_t", "ushort": "uint16_t", "unsignedchar": "uchar"}.get(ty, ty)
        return "arr %s %s" % (ty, rest)
    return tok


CLASS_IO = [
    # (label, file, save qualname, load qualname, headers for member types, auto-type hints)
    ("PFC", "StringDictionaryPFC.cpp", "StringDictionaryPFC::save", "StringDictionaryPFC::load", ["StringDictionaryPFC.h"]),
    ("RPFC", "StringDictionaryRPFC.cpp", "StringDictionaryRPFC::save", "StringDictionaryRPFC::load", ["StringDictionaryRPFC.h", "StringDictionaryPFC.h"]),
    ("HTFC", "StringDictionaryHTFC.cpp", "StringDictionaryHTFC::save", "StringDictionaryHTFC::load", ["StringDictionaryHTFC.h", "StringDictionaryPFC.h"]),
    ("HHTFC", "StringDictionaryHHTFC.cpp", "StringDictionaryHHTFC::save", "StringDictionaryHHTFC::load", ["StringDictionaryHHTFC.h", "StringDictionaryPFC.h"]),
    ("RPHTFC", "StringDictionaryRPHTFC.cpp", "StringDictionaryRPHTFC::save", "StringDictionaryRPHTFC::load", ["StringDictionaryRPHTFC.h", "StringDictionaryPFC.h"]),
    ("RPDAC", "StringDictionaryRPDAC.cpp", "StringDictionaryRPDAC::save", "StringDictionaryRPDAC::load", ["StringDictionaryRPDAC.h"]),
    ("HASHHF", "StringDictionaryHASHHF.cpp", "StringDictionaryHASHHF::save", "StringDictionaryHASHHF::load", ["StringDictionaryHASHHF.h"]),
    ("HASHRPF", "StringDictionaryHASHRPF.cpp", "StringDictionaryHASHRPF::save", "StringDictionaryHASHRPF::load", ["StringDictionaryHASHRPF.h"]),
    ("HASHUFFDAC", "StringDictionaryHASHUFFDAC.cpp", "StringDictionaryHASHUFFDAC::save", "StringDictionaryHASHUFFDAC::load", ["StringDictionaryHASHUFFDAC.h"]),
    ("HASHRPDAC", "StringDictionaryHASHRPDAC.cpp", "StringDictionaryHASHRPDAC::save", "StringDictionaryHASHRPDAC::load", ["StringDictionaryHASHRPDAC.h"]),
    ("BLOCKS", "StringDictionaryHASHRPDACBlocks.cpp", "StringDictionaryHASHRPDACBlocks::save", "StringDictionaryHASHRPDACBlocks::load", ["StringDictionaryHASHRPDACBlocks.h"]),
    ("FMINDEX", "StringDictionaryFMINDEX.cpp", "StringDictionaryFMINDEX::save", "StringDictionaryFMINDEX::load", ["StringDictionaryFMINDEX.h"]),
    ("LogSequence", "utils/LogSequence.cpp", "LogSequence::save", "LogSequence::LogSequence@3", ["utils/LogSequence.h"]),
    ("DAC_VLS", "utils/DAC_VLS.cpp", "DAC_VLS::save", "DAC_VLS::load", ["utils/DAC_VLS.h"]),
    ("DAC_BVLS", "utils/DAC_BVLS.cpp", "DAC_BVLS::save", "DAC_BVLS::load", ["utils/DAC_BVLS.h"]),
    ("HashDAC", "Hash/HashDAC.cpp", "HashDAC::save", "HashDAC::load", ["Hash/HashDAC.h"]),
    ("Hash", "Hash/Hash.cpp", "Hash::save", "Hashdh::load@Hash/Hashdh.cpp", ["Hash/Hash.h"]),
    ("RePairNoSeq", "RePair/RePair.cpp", "RePair::save@1", "RePair::loadNoSeq", ["RePair/RePair.h"]),
    ("BitSequenceRG", "libcds/src/bitsequence/BitSequenceRG.cpp", "BitSequenceRG::save", "BitSequenceRG::load", ["libcds/includes/BitSequenceRG.h"]),
]

# field names whose type is deduced at the save site (`saveValue(fp, x)`): the member's declared type
AUTO_TYPES_HEADERS = ["utils/DAC_VLS.h", "utils/DAC_BVLS.h", "Hash/HashDAC.h", "Hash/Hash.h", "libcds/includes/BitSequenceRG.h",
                      "libcds/includes/BitSequence.h"]


def declared_types(repo):
    t = {}
    for h in AUTO_TYPES_HEADERS:
        src = strip_comments(read(repo, h))
        for m in re.finditer(r"\b(uint|size_t|ushort|uchar|int|uint32_t|uint64_t)\s+(\w+)\s*;", src):
            t.setdefault((h, m.group(2)), m.group(1))
        for m in re.finditer(r"\b(uint|size_t|ushort|uchar|int)\s*\*\s*(\w+)\s*;", src):
            t.setdefault((h, m.group(2)), m.group(1))
    return t


def io_tokens(repo, label, rel, sq, lq, headers):
    src = strip_comments(read(repo, rel))
    mtypes = member_types(repo, headers)
    nth = 0
    if "@" in sq:
        sq, n = sq.split("@")
        nth = int(n)
    sbody, _ = func_body(src, sq, nth=nth)
    lsrc = src
    lnth = 0
    if "@" in lq:
        lq, x = lq.split("@")
        if x.isdigit():
            lnth = int(x)
        else:
            lsrc = strip_comments(read(repo, x))
    lbody, _ = func_body(lsrc, lq, nth=lnth)
    s = [canon(t) for t in fields_of(sbody, "s", mtypes)]
    l = [canon(t) for t in fields_of(lbody, "l", mtypes)]
    # resolve deduced types at save sites from the declarations
    decl = {}
    for hs in [sbody] + [strip_comments(read(repo, h)) for h in headers]:
        for m in re.finditer(r"\b(uint|size_t|ushort|uchar|int|uint32_t|uint64_t)\s+([\w\s,\*]+?)\s*(?:;|=)", hs):
            for nm in m.group(2).split(","):
                nm = nm.replace("*", "").strip()
                if re.fullmatch(r"\w+", nm):
                    decl.setdefault(nm, m.group(1))
    out = []
    for t in s:
        p = t.split(" ")
        if p[0] in ("val", "arr") and p[1] == "auto":
            ty = decl.get(p[2])
            if not ty:
                raise ValueError("%s: cannot resolve the type of saved field %s" % (label, p[2]))
            p[1] = ty
            t = canon(" ".join(p))
        out.append(t)

    def tagfirst(ts):
        if ts and ts[0].startswith("val "):
            p = ts[0].split(" ")
            ts = ["val %s TAG" % p[1]] + ts[1:]
        return ts
    return tagfirst(out), tagfirst(l)


def gen_fields(repo):
    L = ["-- generated by tools/extract_frag.py: the field sequences of every save/load pair, in source order",
         "namespace CSD.Generated", "",
         "/-- One token per field: `val <type> <name>`, `arr <type> <name> [<count expr>]`, `sub <Class>/<arity>`, `raw …`, `loop`. -/",
         "def saveFields : List (String × List String) := ["]
    rows_s, rows_l = [], []
    for label, rel, sq, lq, headers in CLASS_IO:
        s, l = io_tokens(repo, label, rel, sq, lq, headers)
        rows_s.append("  (%s, %s)" % (lean_str(label), lean_list(lean_str(x) for x in s)))
        rows_l.append("  (%s, %s)" % (lean_str(label), lean_list(lean_str(x) for x in l)))
    L.append(",\n".join(rows_s) + "]")
    L += ["", "def loadFields : List (String × List String) := ["]
    L.append(",\n".join(rows_l) + "]")
    L += ["", "end CSD.Generated", ""]
    return "\n".join(L)


# --------------------------------------------------------------------------- synchronisation shape of the pool
SYNC_PAT = re.compile(
    r"(?P<ulock>std::unique_lock<std::mutex>\s+\w+\s*\(\s*(?P<ulm>\w+)\s*\))"
    r"|(?P<guard>std::lock_guard(?:<std::mutex>)?\s+\w+\s*\(\s*(?P<gm>\w+)\s*\))"
    r"|(?P<unlock>\b\w+\.unlock\s*\(\s*\))"
    r"|(?P<wait>\b(?P<wcv>\w+)\.wait\s*\(\s*\w+\s*,\s*\[[^\]]*\]\s*\(\s*\)\s*\{\s*return\s+(?P<wpred>[^;]*);\s*\}\s*\))"
    r"|(?P<wait0>\b\w+\.wait\s*\(\s*\w+\s*\))"
    r"|(?P<nall>\b\w+\.notify_all\s*\(\s*\))"
    r"|(?P<none_>\b\w+\.notify_one\s*\(\s*\))"
    r"|(?P<push>\bqueue\.add_task\s*\()|(?P<qpush>\bq\.push_back\s*\()"
    r"|(?P<pop>\bqueue\.pop\s*\(\s*\))|(?P<qpop>\bq\.pop_front\s*\(\s*\))|(?P<qfront>\bq\.front\s*\(\s*\))"
    r"|(?P<qempty>\bqueue\.empty\s*\(\s*\)|\bq\.empty\s*\(\s*\))"
    r"|(?P<stopped>\bstopped\s*\(\s*\))"
    r"|(?P<setstop>\b\w+->stop\s*\(\s*\)|\bset_stopped\s*\(\s*\w+\s*\))"
    r"|(?P<rawstop>\b_stopped\b)"
    r"|(?P<ppush>\bparts\.push_back\s*\()|(?P<pstore>\bparts\s*\[[^\]]*\]\s*=)|(?P<psize>\bparts\.size\s*\(\s*\))"
    r"|(?P<pother>\bparts\.\w+\s*\()|(?P<pdone>\bparts_done\s*\+\+|\+\+\s*parts_done)|(?P<pdoneread>\bparts_done\b)"
    r"|(?P<addtask>\bwpool\.add_task\s*\()|(?P<stopall>\bwpool\.stop_all_workers\s*\()|(?P<waitw>\bwpool\.wait_workers\s*\()"
    r"|(?P<newpart>\bnew\s+StringDictionaryHASHRPDAC\s*\()"
    r"|(?P<run>\btask\s*\(\s*\))"
    r"|(?P<join>\b\w+->join\s*\(\s*\))"
    r"|(?P<kw>\bwhile\b|\bif\b|\bfor\b|\bbreak\b|\bcontinue\b|\breturn\b)"
    r"|(?P<ob>\{)|(?P<cb>\})|(?P<neg>!)|(?P<oror>\|\|)|(?P<andand>&&)")


def sync_tokens(body):
    body = re.sub(r"LIBCSD_VERIF_POINT\([^;]*\);", "", body)
    out = []
    for m in SYNC_PAT.finditer(body):
        k = m.lastgroup
        g = m.groupdict()
        if g["ulock"]:
            out.append("lock " + g["ulm"])
        elif g["guard"]:
            out.append("guard " + g["gm"])
        elif g["unlock"]:
            out.append("unlock")
        elif g["wait"]:
            pred = " ".join(sync_tokens(g["wpred"]))
            out.append("wait[" + pred + "]")
        elif g["wait0"]:
            out.append("wait-nopred")
        elif g["nall"]:
            out.append("notify_all")
        elif g["none_"]:
            out.append("notify_one")
        elif g["push"]:
            out.append("q.add")
        elif g["qpush"]:
            out.append("q.push_back")
        elif g["pop"]:
            out.append("q.pop")
        elif g["qpop"]:
            out.append("q.pop_front")
        elif g["qfront"]:
            out.append("q.front")
        elif g["qempty"]:
            out.append("q.empty")
        elif g["stopped"]:
            out.append("stopped?")
        elif g["setstop"]:
            out.append("setstop")
        elif g["rawstop"]:
            out.append("_stopped")
        elif g["ppush"]:
            out.append("parts.push")
        elif g["pstore"]:
            out.append("parts.store")
        elif g["psize"]:
            out.append("parts.size")
        elif g["pother"]:
            out.append("parts.other")
        elif g["pdone"]:
            out.append("done++")
        elif g["pdoneread"]:
            out.append("done?")
        elif g["addtask"]:
            out.append("pool.add_task")
        elif g["stopall"]:
            out.append("pool.stop")
        elif g["waitw"]:
            out.append("pool.join")
        elif g["newpart"]:
            out.append("build-part")
        elif g["run"]:
            out.append("run")
        elif g["join"]:
            out.append("join")
        elif g["kw"]:
            out.append(g["kw"])
        elif g["ob"]:
            out.append("{")
        elif g["cb"]:
            out.append("}")
        elif g["neg"]:
            out.append("!")
        elif g["oror"]:
            out.append("||")
        elif g["andand"]:
            out.append("&&")
    return out


POOL_FUNCS = [("WorkerQueue::add_task", "add_task", 0), ("WorkerQueue::empty", "empty", 0), ("WorkerQueue::pop", "pop", 0),
              ("Worker::stopped", "stopped", 0), ("Worker::set_stopped", "set_stopped", 0), ("Worker::run", "run", 0),
              ("WorkerPool::add_task", "add_task", 1), ("WorkerPool::wait_workers", "wait_workers", 0),
              ("WorkerPool::stop_all_workers", "stop_all_workers", 0)]


def gen_poolops(repo):
    src = strip_comments(read(repo, "parallel/Worker.hpp"))
    L = ["-- generated by tools/extract_frag.py from parallel/Worker.hpp: the synchronisation skeleton of every pool method",
         "namespace CSD.Generated", "", "def poolOps : List (String × List String) := ["]
    rows = []
    for label, name, nth in POOL_FUNCS:
        body, _ = func_body(src, name, nth=nth)
        rows.append("  (%s, %s)" % (lean_str(label), lean_list(lean_str(t) for t in sync_tokens(body))))
    bsrc = strip_comments(read(repo, "StringDictionaryHASHRPDACBlocks.cpp"))
    bbody, _ = func_body(bsrc, "StringDictionaryHASHRPDACBlocks::StringDictionaryHASHRPDACBlocks", nth=2)
    if "thread_count" not in _ or "WorkerPool" not in bbody:
        raise ValueError("the parallel constructor of HASHRPDACBlocks was not found")
    rows.append("  (%s, %s)" % (lean_str("Blocks::ctor"), lean_list(lean_str(t) for t in sync_tokens(bbody) if t not in ("{", "}", "if", "while", "for", "!", "||", "&&", "return"))))
    # every access to the raw members happens inside the accessor that takes the leaf mutex
    src = re.sub(r"LIBCSD_VERIF_POINT\([^;]*\);", "", src)
    raw_q = len(re.findall(r"\bq\.", src))
    raw_s = len(re.findall(r"\b_stopped\b", src))
    L.append(",\n".join(rows) + "]")
    L += ["", "/-- occurrences of the raw members `q.` and `_stopped` in the whole header (all inside the guarded accessors / the declaration / the constructor) -/",
          "def rawQueueUses : Nat := %d" % raw_q, "def rawStoppedUses : Nat := %d" % raw_s, "", "end CSD.Generated", ""]
    return "\n".join(L)


def gen_rpcompare(repo):
    """Pattern-buffer discipline of RePair::extractStringAndCompareRP (C14)."""
    src = strip_comments(read(repo, "RePair/RePair.cpp"))
    body, _ = func_body(src, "RePair::extractStringAndCompareRP")
    w = re.search(r"str\s*\[\s*strLen\s*\]\s*=\s*maxchar\s*;", body)
    rs = [m for m in re.finditer(r"str\s*\[\s*strLen\s*\]\s*=\s*(0|'\\0')\s*;", body)]
    if not w:
        raise ValueError("extractStringAndCompareRP no longer writes the sentinel the model describes")
    restore_at = rs[-1].start() if rs else -1
    between = body[w.end():restore_at] if restore_at > 0 else body[w.end():]
    early = len(re.findall(r"\breturn\b", between))
    after = body[restore_at:] if restore_at > 0 else ""
    final_return = bool(re.search(r"return\s+cmp\s*;", after))
    # other routines writing into the caller's pattern
    writers = []
    for fn in re.finditer(r"(\w+::\w+)\s*\([^)]*uchar\s*\*\s*str[^)]*\)\s*\{", src):
        b, _h = func_body(src, fn.group(1), must=False)
        if b and re.search(r"\bstr\s*\[[^\]]*\]\s*=[^=]", b):
            writers.append(fn.group(1))
    L = ["-- generated by tools/extract_frag.py from RePair/RePair.cpp", "namespace CSD.Generated", "",
         "/-- `return` statements between the sentinel write `str[strLen] = maxchar` and the restore `str[strLen] = 0` -/",
         "def rpEarlyReturns : Nat := %d" % early,
         "/-- the restore exists and is followed by the final `return cmp;` -/",
         "def rpRestores : Bool := %s" % ("true" if restore_at > 0 and final_return else "false"),
         "/-- routines of RePair.cpp that assign through the caller's pattern pointer -/",
         "def rpPatternWriters : List String := " + lean_list(lean_str(x) for x in sorted(set(writers))),
         "", "end CSD.Generated", ""]
    return "\n".join(L)



# --------------------------------------------------------------------------- Bodies
# The hand-written models of CSD/Model were written against these function bodies. The fragment holds
# their text (comments stripped, white space collapsed); CSD/Model/SourceText.lean holds the text the
# models were written against; the property theorems `model_written_against_current_source` state
# that the two agree, so an edit of one of these functions breaks an obligation even when no generated
# input distinguishes the behaviours.
BODIES = [
    # label, file, qualified name, nth definition
    ("VByte_encode", "utils/VByte.cpp", "VByte::encode", 0),
    ("VByte_decode", "utils/VByte.cpp", "VByte::decode", 0),
    ("LogSequence_get_field", "utils/LogSequence.h", "get_field", 0),
    ("LogSequence_set_field", "utils/LogSequence.h", "set_field", 0),
    ("LogSequence_load", "utils/LogSequence.cpp", "LogSequence::LogSequence", 3),
    ("LogSequence_save", "utils/LogSequence.cpp", "LogSequence::save", 0),
    ("DAC_VLS_ctor", "utils/DAC_VLS.cpp", "DAC_VLS::DAC_VLS", 1),
    ("DAC_VLS_access", "utils/DAC_VLS.cpp", "DAC_VLS::access", 0),
    ("DAC_VLS_access_next", "utils/DAC_VLS.cpp", "DAC_VLS::access_next", 0),
    ("DAC_VLS_save", "utils/DAC_VLS.cpp", "DAC_VLS::save", 0),
    ("DAC_VLS_load", "utils/DAC_VLS.cpp", "DAC_VLS::load", 0),
    ("bitwisehash", "Hash/HashUtils.h", "bitwisehash", 0),
    ("step_value", "Hash/HashUtils.h", "step_value", 0),
    ("nearest_prime", "Hash/HashUtils.h", "nearest_prime", 0),
    ("HashDAC_insert", "Hash/HashDAC.cpp", "HashDAC::insert", 0),
    ("HASHRPDAC_locate", "StringDictionaryHASHRPDAC.cpp", "StringDictionaryHASHRPDAC::locate", 0),
    ("HASHRPDAC_extract", "StringDictionaryHASHRPDAC.cpp", "StringDictionaryHASHRPDAC::extract", 0),
    ("Blocks_search_before", "StringDictionaryHASHRPDACBlocks.cpp", "binary_search_before_index", 0),
    ("Blocks_locate", "StringDictionaryHASHRPDACBlocks.cpp", "StringDictionaryHASHRPDACBlocks::locate", 0),
    ("Blocks_extract", "StringDictionaryHASHRPDACBlocks.cpp", "StringDictionaryHASHRPDACBlocks::extract", 0),
    ("Blocks_extractTable", "StringDictionaryHASHRPDACBlocks.cpp", "StringDictionaryHASHRPDACBlocks::extractTable", 0),
    ("BlocksIter_to_index", "iterators/IteratorDictStringHRPDACBlocks.h", "to_index", 0),
    ("BlocksIter_hasNext", "iterators/IteratorDictStringHRPDACBlocks.h", "hasNext", 0),
    ("BlocksIter_next", "iterators/IteratorDictStringHRPDACBlocks.h", "next", 0),
    ("RPDAC_locate", "StringDictionaryRPDAC.cpp", "StringDictionaryRPDAC::locate", 0),
    ("RPDAC_extract", "StringDictionaryRPDAC.cpp", "StringDictionaryRPDAC::extract", 0),
    ("RePair_compareDAC", "RePair/RePair.cpp", "RePair::extractStringAndCompareDAC", 0),
    ("RePair_compareRP", "RePair/RePair.cpp", "RePair::extractStringAndCompareRP", 0),
    ("HASHRPF_locate", "StringDictionaryHASHRPF.cpp", "StringDictionaryHASHRPF::locate", 0),
    ("Hash_insert", "Hash/Hash.cpp", "Hash::insert", 0),
    ("RePair_compareRule", "RePair/RePair.cpp", "RePair::expandRuleAndCompareString", 0),
    ("RePair_expandRule", "RePair/RePair.cpp", "RePair::expandRule", 0),
    ("RPDAC_locatePrefix", "StringDictionaryRPDAC.cpp", "StringDictionaryRPDAC::locatePrefix", 0),
    ("RPDAC_extractPrefix", "StringDictionaryRPDAC.cpp", "StringDictionaryRPDAC::extractPrefix", 0),
    ("RPDAC_extractTable", "StringDictionaryRPDAC.cpp", "StringDictionaryRPDAC::extractTable", 0),
    ("RPDACIter_ctor", "iterators/IteratorDictStringRPDAC.h", "IteratorDictStringRPDAC", 0),
    ("RPDACIter_next", "iterators/IteratorDictStringRPDAC.h", "next", 0),
    ("RePair_comparePrefixDAC", "RePair/RePair.cpp", "RePair::extractPrefixAndCompareDAC", 0),
    ("RePair_comparePrefixRule", "RePair/RePair.cpp", "RePair::expandRuleAndComparePrefixDAC", 0),
    ("PFC_locate", "StringDictionaryPFC.cpp", "StringDictionaryPFC::locate", 0),
    ("PFC_extract", "StringDictionaryPFC.cpp", "StringDictionaryPFC::extract", 0),
    ("PFC_locateBucket", "StringDictionaryPFC.cpp", "StringDictionaryPFC::locateBucket", 0),
    ("PFC_getHeader", "StringDictionaryPFC.cpp", "StringDictionaryPFC::getHeader", 0),
    ("PFC_decodeNextString", "StringDictionaryPFC.cpp", "StringDictionaryPFC::decodeNextString", 0),
    ("PFC_ctor", "StringDictionaryPFC.cpp", "StringDictionaryPFC::StringDictionaryPFC", 1),
    ("LogSequence_vector_ctor", "utils/LogSequence.cpp", "LogSequence::LogSequence", 2),
    ("PFC_locatePrefix", "StringDictionaryPFC.cpp", "StringDictionaryPFC::locatePrefix", 0),
    ("PFC_locateBoundaryBuckets", "StringDictionaryPFC.cpp", "StringDictionaryPFC::locateBoundaryBuckets", 0),
    ("PFC_searchPrefix", "StringDictionaryPFC.cpp", "StringDictionaryPFC::searchPrefix", 0),
    ("PFC_searchDistinctPrefix", "StringDictionaryPFC.cpp", "StringDictionaryPFC::searchDistinctPrefix", 0),
    ("longestCommonPrefix", "utils/Utils.h", "longestCommonPrefix", 0),
    ("PFC_extractPrefix", "StringDictionaryPFC.cpp", "StringDictionaryPFC::extractPrefix", 0),
    ("PFC_extractTable", "StringDictionaryPFC.cpp", "StringDictionaryPFC::extractTable", 0),
    ("PFCIter_ctor", "iterators/IteratorDictStringPFC.h", "IteratorDictStringPFC", 0),
    ("PFCIter_next", "iterators/IteratorDictStringPFC.h", "next", 0),
    ("PFCIter_decodeNext", "iterators/IteratorDictStringPFC.h", "decodeNext", 0),
    ("PFC_save", "StringDictionaryPFC.cpp", "StringDictionaryPFC::save", 0),
    ("PFC_load", "StringDictionaryPFC.cpp", "StringDictionaryPFC::load", 0),
    ("RG_rank1", "libcds/src/bitsequence/BitSequenceRG.cpp", "BitSequenceRG::rank1", 0),
    ("RG_select1", "libcds/src/bitsequence/BitSequenceRG.cpp", "BitSequenceRG::select1", 0),
    ("RG_select0", "libcds/src/bitsequence/BitSequenceRG.cpp", "BitSequenceRG::select0", 0),
    ("RG_save", "libcds/src/bitsequence/BitSequenceRG.cpp", "BitSequenceRG::save", 0),
    ("RG_load", "libcds/src/bitsequence/BitSequenceRG.cpp", "BitSequenceRG::load", 0),
    ("RG_BuildRank", "libcds/src/bitsequence/BitSequenceRG.cpp", "BitSequenceRG::BuildRank", 0),
    ("RG_BuildRankSub", "libcds/src/bitsequence/BitSequenceRG.cpp", "BitSequenceRG::BuildRankSub", 0),
    ("DecodingTable_getSubstring", "utils/Coder/DecodingTable.cpp", "DecodingTable::getSubstring", 0),
    ("DecodingTable_processChunk", "utils/Coder/DecodingTable.cpp", "DecodingTable::processChunk", 0),
    ("StatCoder_encodeSymbol", "utils/Coder/StatCoder.cpp", "StatCoder::encodeSymbol", 0),
    ("StatCoder_encodeString", "utils/Coder/StatCoder.cpp", "StatCoder::encodeString", 0),
    ("SSA_locate_id", "FMIndex/SSA.cpp", "SSA::locate_id", 0),
    ("SSA_locateP", "FMIndex/SSA.cpp", "SSA::locateP", 0),
    ("SSA_locate", "FMIndex/SSA.cpp", "SSA::locate", 0),
    ("SSA_extract_id", "FMIndex/SSA.cpp", "SSA::extract_id", 0),
    ("SSA_build_index", "FMIndex/SSA.cpp", "SSA::build_index", 0),
    ("SSA_build_bwt", "FMIndex/SSA.cpp", "SSA::build_bwt", 0),
    ("FMINDEX_ctor", "StringDictionaryFMINDEX.cpp", "StringDictionaryFMINDEX::StringDictionaryFMINDEX", 1),
    ("FMINDEX_locate", "StringDictionaryFMINDEX.cpp", "StringDictionaryFMINDEX::locate", 0),
    ("FMINDEX_extract", "StringDictionaryFMINDEX.cpp", "StringDictionaryFMINDEX::extract", 0),
    ("FMINDEX_locatePrefix", "StringDictionaryFMINDEX.cpp", "StringDictionaryFMINDEX::locatePrefix", 0),
    ("FMINDEX_locateSubstr", "StringDictionaryFMINDEX.cpp", "StringDictionaryFMINDEX::locateSubstr", 0),
    ("FMINDEX_build_ssa", "StringDictionaryFMINDEX.cpp", "StringDictionaryFMINDEX::build_ssa", 0),
    ("FMINDEX_extractSubstr", "StringDictionaryFMINDEX.cpp", "StringDictionaryFMINDEX::extractSubstr", 0),
    ("FMINDEX_extractPrefix", "StringDictionaryFMINDEX.cpp", "StringDictionaryFMINDEX::extractPrefix", 0),
    ("FMINDEX_extractTable", "StringDictionaryFMINDEX.cpp", "StringDictionaryFMINDEX::extractTable", 0),
    ("FMIter_next", "iterators/IteratorDictStringFMINDEX.h", "next", 0),
    ("FMIterDup_next", "iterators/IteratorDictStringFMINDEXDuplicates.h", "next", 0),
    ("RPFC_decodeString", "StringDictionaryRPFC.cpp", "StringDictionaryRPFC::decodeString", 0),
    ("RPFC_decodeSymbol", "StringDictionaryRPFC.cpp", "StringDictionaryRPFC::decodeSymbol", 0),
    ("RPFC_getHeader", "StringDictionaryRPFC.cpp", "StringDictionaryRPFC::getHeader", 0),
    ("RPFC_locateBucket", "StringDictionaryRPFC.cpp", "StringDictionaryRPFC::locateBucket", 0),
    ("RPFC_locate", "StringDictionaryRPFC.cpp", "StringDictionaryRPFC::locate", 0),
    ("RPFC_extract", "StringDictionaryRPFC.cpp", "StringDictionaryRPFC::extract", 0),
    ("RPFC_locatePrefix", "StringDictionaryRPFC.cpp", "StringDictionaryRPFC::locatePrefix", 0),
    ("RPFC_extractPrefix", "StringDictionaryRPFC.cpp", "StringDictionaryRPFC::extractPrefix", 0),
    ("RPFC_extractTable", "StringDictionaryRPFC.cpp", "StringDictionaryRPFC::extractTable", 0),
    ("RPFCIter_ctor", "iterators/IteratorDictStringRPFC.h", "IteratorDictStringRPFC", 0),
    ("RPFCIter_next", "iterators/IteratorDictStringRPFC.h", "next", 0),
    ("RPFCIter_decodeNext", "iterators/IteratorDictStringRPFC.h", "decodeNext", 0),
    ("RPFC_locateBoundaryBuckets", "StringDictionaryRPFC.cpp", "StringDictionaryRPFC::locateBoundaryBuckets", 0),
    ("RPFC_searchPrefix", "StringDictionaryRPFC.cpp", "StringDictionaryRPFC::searchPrefix", 0),
    ("RPFC_searchDistinctPrefix", "StringDictionaryRPFC.cpp", "StringDictionaryRPFC::searchDistinctPrefix", 0),
]


def body_text(repo, rel, qual, nth):
    src = strip_comments(read(repo, rel))
    body, _ = func_body(src, qual, nth=nth)
    return re.sub(r"\s+", " ", body).strip()


def bodies_lean(repo, namespace, header):
    L = [header, "namespace " + namespace, ""]
    for label, rel, qual, nth in BODIES:
        L.append("def body_%s : String := %s" % (label, lean_str(body_text(repo, rel, qual, nth))))
    L += ["", "end " + namespace, ""]
    return "\n".join(L)


def gen_bodies(repo):
    return bodies_lean(repo, "CSD.Generated", "-- generated by tools/extract_frag.py: bodies of the functions the hand-written models mirror")

FRAGMENTS = [("Bodies", gen_bodies), ("RPCompare", gen_rpcompare), ("Dispatch", gen_dispatch), ("Stubs", gen_stubs), ("Fields", gen_fields), ("PoolOps", gen_poolops)]

if __name__ == "__main__":
    import sys
    repo = sys.argv[1] if len(sys.argv) > 1 else "/repo"
    for name, fn in FRAGMENTS:
        print("=" * 30, name)
        print(fn(repo))
