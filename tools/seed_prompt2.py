import sys
pid=sys.argv[1]
base=open('/tmp/seed_prompt_%s.txt'%pid).read() if False else None
import subprocess
txt=subprocess.run(['python3','/tmp/seed_prompt.py',pid],capture_output=True,text=True).stdout
txt=txt.replace('/tmp/seed_%s'%pid,'/tmp/seedb_%s'%pid)
txt=txt.replace("Prefer changing code of kinds OTHER than the two covered by the existing tests if the property allows","This is a second, independent round: prefer a kind, component or clause of the property that is LESS obvious than the first thing that comes to mind (for instance not the first kind named in the property, not the most central function), and prefer changing code of kinds OTHER than the two covered by the existing tests if the property allows")
print(txt)
