#!/usr/bin/env python3
"""Per-property correspondence streams: which cases are generated for which
property, under which build configuration (DESIGN §8)."""
import os, json
import gen
from gen import hx

VERIF = os.path.dirname(os.path.dirname(os.path.abspath(__file__)))


class StreamSet:
    def __init__(self, name, cfg, cases, extra_defs=(), tag="", timeout=20, env=None):
        self.name, self.cfg, self.cases = name, cfg, cases
        self.extra_defs, self.tag, self.timeout, self.env = tuple(extra_defs), tag, timeout, env


class PropSpec:
    def __init__(self, fn, rule, partial, explanation, assumptions):
        self.streams = fn
        self.rule, self.partial, self.explanation, self.assumptions = rule, partial, explanation, assumptions


def nontrivial(case):
    cid, stream, kind, params, strs, ops = case
    if stream == "dict":
        return len(strs) >= 2 and len(ops) >= 1
    return len(ops) >= 2


def load_corpus(prop):
    d = os.path.join(VERIF, "corpus", prop)
    out = []
    if os.path.isdir(d):
        for f in sorted(os.listdir(d)):
            if f.endswith(".json"):
                j = json.load(open(os.path.join(d, f)))
                out.append(("corpus_" + f[:-5], j["stream"], j["kind"], j["params"],
                            [bytes.fromhex(s) for s in j["strings_hex"]], [list(o) for o in j["ops"]]))
    return out


# --------------------------------------------------------------------------- C17
def c17_streams(tier, rng):
    thorough = tier == "thorough"
    cases = []
    # VByte: boundary values and random 32-bit values
    vals = set()
    for k in range(33):
        for d in (-1, 0, 1):
            v = (1 << k) + d
            if 0 <= v < 2 ** 32:
                vals.add(v)
        if 127 * (1 << k) < 2 ** 32:
            vals.add(127 * (1 << k))
            vals.add(128 * (1 << k) - 1)
    vals = sorted(vals)
    r = rng.fork("vbyte")
    nrand = 20000 if thorough else 3000
    for _ in range(nrand):
        bits_ = r.range(1, 32)
        vals.append(r.below(1 << bits_))
    if thorough:
        vals += list(range(0, 1 << 16))
    for i in range(0, len(vals), 250):
        cases.append(("vb%d" % (i // 250), "vbyte", "-", {}, [], [["enc", v] for v in vals[i:i + 250]]))
    # LogSequence: every width, several lengths, random set/overwrite/get sequences
    r = rng.fork("logseq")
    lens = [1, 2, 3, 63, 64, 65, 129] if thorough else [1, 2, 5, 64, 65]
    reps = 4 if thorough else 1
    cid = 0
    for w in range(1, 65):
        for n in lens:
            for _ in range(reps):
                ops = []
                nops = min(4 * n, 120)
                for _ in range(nops):
                    i = r.below(n)
                    which = r.below(8)
                    if which == 0:
                        v = (1 << w) - 1
                    elif which == 1:
                        v = 0
                    elif which == 2:
                        v = 1 << (w - 1)
                    else:
                        v = r.below(1 << w)
                    ops.append(["set", i, v])
                    if r.chance(1, 3):
                        ops.append(["get", r.below(n)])
                ops += [["all"], ["image"], ["reload"], ["all"], ["image"]]
                # and the vector constructor with fresh values
                vec = [r.below(1 << w) for _ in range(n)]
                ops += [["vec"] + vec, ["all"], ["image"], ["reload"], ["all"]]
                cases.append(("ls%d" % cid, "logseq", "-", {"w": w, "n": n}, [], ops))
                cid += 1
    return [StreamSet("codecs", "asan", cases)]


PROPS = {
    "C17": PropSpec(
        c17_streams,
        rule="vbyte: boundary values 2^k, 2^k±1, 127·2^k, 128·2^k−1 plus seeded random 32-bit values, 250 per case; "
             "logseq: every width 1..64 × lengths × random set/overwrite/get histories followed by dump, save image, reload, dump, "
             "then the vector constructor; a case is non-trivial when it has ≥2 operations; distinct by hash of (stream, params, ops)",
        partial=["DAC_VLS/DAC_BVLS: correspondence only until their model lands"],
        explanation="VByte and LogSequence are modelled exactly (bytes and words); the theorems cover all values/widths/positions; "
                    "the harness compares encodings, decoded values, every field and the saved image with the model",
        assumptions=["BitVec 64 shifts equal the C++ shifts for counts < 64 (counts of 64 are excluded by lowMask in the repaired code)",
                     "Lean compiler agrees with the kernel semantics of the model definitions"]),
}


# --------------------------------------------------------------------------- dictionary battery
FC_KINDS = ["PFC", "RPFC", "HTFC", "HHTFC", "RPHTFC"]
ORDERED_KINDS = FC_KINDS + ["RPDAC", "FMINDEX"]
HASH_KINDS = ["HASHHF", "HASHRPF", "HASHUFFDAC", "HASHRPDAC", "BLOCKS"]
ALL_KINDS = FC_KINDS + ["RPDAC"] + HASH_KINDS + ["FMINDEX", "XBW"]
PREFIX_KINDS = FC_KINDS + ["RPDAC", "FMINDEX", "XBW"]
SUBSTR_KINDS = ["FMINDEX", "XBW"]
EXACT_ID_KINDS = ORDERED_KINDS + ["XBW"]   # kinds whose IDs the model predicts (hash kinds join when modelled)


def dict_battery(tier, rng):
    """List of (name, S) — the dictionaries every dictionary-level property runs on."""
    thorough = tier == "thorough"
    out = []
    r = rng.fork("battery")
    g1 = gen.g1_all(2)
    if not thorough:
        g1 = r.sample(g1, 24)
    for i, S in enumerate(g1):
        out.append(("g1a%d" % i, S))
    for i, S in enumerate(gen.g1_subsets(r, 400 if thorough else 24, 3)):
        out.append(("g1b%d" % i, S))
    ns = [1, 2, 3, 4, 5, 7, 8, 9, 16, 17, 37, 100, 257] + ([1000, 3000] if thorough else [])
    combos = [(26, "short"), (26, "mixed"), (2, "short"), (2, "mid"), (4, "mixed"), (253, "mixed"), (26, "long"), (1, "mixed"), (4, "mid")]
    k = 0
    for n in ns:
        for (a, lm) in (combos if thorough else r.sample(combos, 3)):
            if lm == "long" and n > 100:
                continue
            S = gen.g2_dict(r, n, a, lm)
            if S:
                out.append(("g2_%d" % k, S))
                k += 1
    for lcp in (126, 127, 128, 129) + ((16383, 16384) if thorough else ()):
        out.append(("g3lcp%d" % lcp, gen.g3_lcp_chain(r, lcp, 3)))
    for kk in (1, 2, 5):
        out.append(("g3sym%d" % kk, gen.g3_single_symbols(kk)))
    out.append(("g3states", gen.us_states()))
    out.append(("g3states12", gen.us_states()[:12]))
    out.append(("g3abcb", [b"ab", b"abc", b"b"]))
    out.append(("g3one", [b"hello"]))
    out.append(("g3long1", [b"x" * 300]))
    out.append(("g3edges", [bytes([2]), bytes([2, 2]), bytes([2, 254]), bytes([254]), bytes([254, 2]), bytes([254, 254, 254])]))
    return out


def param_vectors(kind, rng, n, tier, many=False):
    """Legal parameter vectors for a kind (one or a few per dictionary)."""
    r = rng
    if kind in FC_KINDS:
        bs = [2, 3, 4, 5, 8, 16, max(2, n), n + 1]
        return [{"b": b} for b in (bs if many else r.sample(bs, 2))]
    if kind in ("HASHHF", "HASHRPF", "HASHUFFDAC", "HASHRPDAC"):
        ovs = [0, 1, 10, 25, 100]
        return [{"ov": o} for o in (ovs if many else r.sample(ovs, 2))]
    if kind == "BLOCKS":
        cuts = [1, 8, 64, 1 << 27]
        vs = [{"ov": r.choice([0, 25]), "cut": c, "thr": t} for c in cuts for t in (1, 2, 4)]
        return vs if many else r.sample(vs, 2)
    if kind == "FMINDEX":
        vs = [{"rrr": rr, "bs": bs, "bwt": bw} for rr in (0, 1) for bs in (4, 20, 32) for bw in (1, 2, 5, 16, 64)]
        return vs if many else r.sample(vs, 2)
    return [{}]


def kind_cases(tier, rng, kinds, ops_fn, phases=("built", "loaded"), many=False, battery=None, name="d"):
    """Builds the case list: battery × kinds × parameter vectors × phases.
    ops_fn(kind, params, S, rng) -> list of ops."""
    cases = []
    battery = battery if battery is not None else dict_battery(tier, rng)
    for dname, S in battery:
        for kind in kinds:
            r = rng.fork(dname + kind)
            for pv in param_vectors(kind, r, len(S), tier, many):
                ops = ops_fn(kind, pv, S, r)
                if not ops:
                    continue
                for ph in phases:
                    pre = []
                    if ph == "loaded":
                        pre = [["reload", "own", r.range(1, 3) if kind in ("HASHHF", "HASHRPF") else 1]]
                    elif ph == "generic":
                        pre = [["reload", "generic", r.range(1, 3) if kind in ("HASHHF", "HASHRPF") else 1]]
                    cid = "%s_%s_%s_%s_%s" % (name, dname, kind, "".join("%s%s" % kv for kv in sorted(pv.items())), ph[0])
                    cases.append((cid, "dict", kind, pv, S, pre + ops))
    return cases


def c01_ops(kind, pv, S, r):
    cap = 64
    members = S if len(S) <= cap else r.sample(S, cap)
    ops = []
    if kind in EXACT_ID_KINDS:
        ops += [["loc", hx(s)] for s in members]
        ids = list(range(1, len(S) + 1))
        if len(ids) > cap:
            ids = r.sample(ids, cap) + [1, len(S)]
        ops += [["ext", i] for i in ids]
    else:
        ops += [["rt", hx(s)] for s in members]
    ops.append(["exts"])
    return ops


def c01_streams(tier, rng):
    return [StreamSet("roundtrip", "asan", kind_cases(tier, rng, ALL_KINDS, c01_ops))]


PROPS["C01"] = PropSpec(
    c01_streams,
    rule="battery (G1 small-scope subsets over {a,b}, G2 structured random with deep lcp chains, G3 proof-directed boundaries) × 13 kinds × "
         "parameter vectors × {built, reloaded}; per case locate(s) for members, extract(i) for IDs, and the sorted multiset of extract(1..n); "
         "non-trivial = at least 2 strings; distinct by hash of (kind, params, strings, ops)",
    partial=["kinds without an exact Lean model are compared with the specification only (CSD/Spec.lean)"],
    explanation="refinement of the kind's model to Spec.locate/Spec.extract; the harness compares every answer of the real code with it",
    assumptions=["the input contract validDict (sorted, duplicate-free, bytes 0x02..0xFE)"])
