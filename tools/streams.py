#!/usr/bin/env python3
"""Per-property correspondence streams: which cases are generated for which
property, under which build configuration (DESIGN §8)."""
import os, json
import gen
from gen import hx

VERIF = os.path.dirname(os.path.dirname(os.path.abspath(__file__)))


class StreamSet:
    def __init__(self, name, cfg, cases, extra_defs=(), tag="", timeout=20, env=None):
        self.name, self.cfg, self.cases = name, cfg, cases
        self.extra_defs, self.tag, self.timeout, self.env = tuple(extra_defs), tag, timeout, env


class PropSpec:
    def __init__(self, fn, rule, partial, explanation, assumptions):
        self.streams = fn
        self.rule, self.partial, self.explanation, self.assumptions = rule, partial, explanation, assumptions


def nontrivial(case):
    cid, stream, kind, params, strs, ops = case
    if stream == "dict":
        return len(strs) >= 2 and len(ops) >= 1
    return len(ops) >= 2


def load_corpus(prop):
    d = os.path.join(VERIF, "corpus", prop)
    out = []
    if os.path.isdir(d):
        for f in sorted(os.listdir(d)):
            if f.endswith(".json"):
                j = json.load(open(os.path.join(d, f)))
                out.append(("corpus_" + f[:-5], j["stream"], j["kind"], j["params"],
                            [bytes.fromhex(s) for s in j["strings_hex"]], [list(o) for o in j["ops"]]))
    return out


# --------------------------------------------------------------------------- C17
def c17_streams(tier, rng):
    thorough = tier == "thorough"
    cases = []
    # VByte: boundary values and random 32-bit values
    vals = set()
    for k in range(33):
        for d in (-1, 0, 1):
            v = (1 << k) + d
            if 0 <= v < 2 ** 32:
                vals.add(v)
        if 127 * (1 << k) < 2 ** 32:
            vals.add(127 * (1 << k))
            vals.add(128 * (1 << k) - 1)
    vals = sorted(vals)
    r = rng.fork("vbyte")
    nrand = 20000 if thorough else 3000
    for _ in range(nrand):
        bits_ = r.range(1, 32)
        vals.append(r.below(1 << bits_))
    if thorough:
        vals += list(range(0, 1 << 16))
    for i in range(0, len(vals), 250):
        cases.append(("vb%d" % (i // 250), "vbyte", "-", {}, [], [["enc", v] for v in vals[i:i + 250]]))
    # LogSequence: every width, several lengths, random set/overwrite/get sequences
    r = rng.fork("logseq")
    lens = [1, 2, 3, 63, 64, 65, 129] if thorough else [1, 2, 5, 64, 65]
    reps = 4 if thorough else 1
    cid = 0
    for w in range(1, 65):
        for n in lens:
            for _ in range(reps):
                ops = []
                nops = min(4 * n, 120)
                for _ in range(nops):
                    i = r.below(n)
                    which = r.below(8)
                    if which == 0:
                        v = (1 << w) - 1
                    elif which == 1:
                        v = 0
                    elif which == 2:
                        v = 1 << (w - 1)
                    else:
                        v = r.below(1 << w)
                    ops.append(["set", i, v])
                    if r.chance(1, 3):
                        ops.append(["get", r.below(n)])
                ops += [["all"], ["image"], ["reload"], ["all"], ["image"]]
                # and the vector constructor with fresh values
                vec = [r.below(1 << w) for _ in range(n)]
                ops += [["vec"] + vec, ["all"], ["image"], ["reload"], ["all"]]
                cases.append(("ls%d" % cid, "logseq", "-", {"w": w, "n": n}, [], ops))
                cid += 1
    return [StreamSet("codecs", "asan", cases)]


PROPS = {
    "C17": PropSpec(
        c17_streams,
        rule="vbyte: boundary values 2^k, 2^k±1, 127·2^k, 128·2^k−1 plus seeded random 32-bit values, 250 per case; "
             "logseq: every width 1..64 × lengths × random set/overwrite/get histories followed by dump, save image, reload, dump, "
             "then the vector constructor; a case is non-trivial when it has ≥2 operations; distinct by hash of (stream, params, ops)",
        partial=["DAC_VLS/DAC_BVLS: correspondence only until their model lands"],
        explanation="VByte and LogSequence are modelled exactly (bytes and words); the theorems cover all values/widths/positions; "
                    "the harness compares encodings, decoded values, every field and the saved image with the model",
        assumptions=["BitVec 64 shifts equal the C++ shifts for counts < 64 (counts of 64 are excluded by lowMask in the repaired code)",
                     "Lean compiler agrees with the kernel semantics of the model definitions"]),
}
