#!/usr/bin/env python3
"""Per-property correspondence streams: which cases are generated for which
property, under which build configuration (DESIGN §8)."""
import os, json
import gen
from gen import hx

VERIF = os.path.dirname(os.path.dirname(os.path.abspath(__file__)))


class StreamSet:
    def __init__(self, name, cfg, cases, extra_defs=(), tag="", timeout=20, env=None):
        self.name, self.cfg, self.cases = name, cfg, cases
        self.extra_defs, self.tag, self.timeout, self.env = tuple(extra_defs), tag, timeout, env


class PropSpec:
    def __init__(self, fn, rule, partial, explanation, assumptions):
        self.streams = fn
        self.rule, self.partial, self.explanation, self.assumptions = rule, partial, explanation, assumptions


def nontrivial(case):
    cid, stream, kind, params, strs, ops = case
    if stream == "dict":
        return len(strs) >= 2 and len(ops) >= 1
    return len(ops) >= 2


def load_corpus(prop):
    d = os.path.join(VERIF, "corpus", prop)
    out = []
    if os.path.isdir(d):
        for f in sorted(os.listdir(d)):
            if f.endswith(".json"):
                j = json.load(open(os.path.join(d, f)))
                out.append(("corpus_" + f[:-5], j["stream"], j["kind"], j["params"],
                            [bytes.fromhex(s) for s in j["strings_hex"]], [list(o) for o in j["ops"]]))
    return out


# --------------------------------------------------------------------------- C17
def c17_streams(tier, rng):
    thorough = tier == "thorough"
    cases = []
    # VByte: boundary values and random 32-bit values
    vals = set()
    for k in range(33):
        for d in (-1, 0, 1):
            v = (1 << k) + d
            if 0 <= v < 2 ** 32:
                vals.add(v)
        if 127 * (1 << k) < 2 ** 32:
            vals.add(127 * (1 << k))
            vals.add(128 * (1 << k) - 1)
    vals = sorted(vals)
    r = rng.fork("vbyte")
    nrand = 20000 if thorough else 3000
    for _ in range(nrand):
        bits_ = r.range(1, 32)
        vals.append(r.below(1 << bits_))
    if thorough:
        vals += list(range(0, 1 << 16))
    for i in range(0, len(vals), 250):
        cases.append(("vb%d" % (i // 250), "vbyte", "-", {}, [], [["enc", v] for v in vals[i:i + 250]]))
    # LogSequence: every width, several lengths, random set/overwrite/get sequences
    r = rng.fork("logseq")
    lens = [1, 2, 3, 63, 64, 65, 129] if thorough else [1, 2, 5, 64, 65]
    reps = 4 if thorough else 1
    cid = 0
    for w in range(1, 65):
        for n in lens:
            for _ in range(reps):
                ops = []
                nops = min(4 * n, 120)
                for _ in range(nops):
                    i = r.below(n)
                    which = r.below(8)
                    if which == 0:
                        v = (1 << w) - 1
                    elif which == 1:
                        v = 0
                    elif which == 2:
                        v = 1 << (w - 1)
                    else:
                        v = r.below(1 << w)
                    ops.append(["set", i, v])
                    if r.chance(1, 3):
                        ops.append(["get", r.below(n)])
                ops += [["all"], ["image"], ["reload"], ["all"], ["image"]]
                # and the vector constructor with fresh values
                vec = [r.below(1 << w) for _ in range(n)]
                ops += [["vec"] + vec, ["all"], ["image"], ["reload"], ["all"]]
                cases.append(("ls%d" % cid, "logseq", "-", {"w": w, "n": n}, [], ops))
                cid += 1
    return [StreamSet("codecs", "asan", cases)]


PROPS = {
    "C17": PropSpec(
        c17_streams,
        rule="vbyte: boundary values 2^k, 2^k±1, 127·2^k, 128·2^k−1 plus seeded random 32-bit values, 250 per case; "
             "logseq: every width 1..64 × lengths × random set/overwrite/get histories followed by dump, save image, reload, dump, "
             "then the vector constructor; a case is non-trivial when it has ≥2 operations; distinct by hash of (stream, params, ops)",
        partial=["DAC_VLS/DAC_BVLS: correspondence only until their model lands"],
        explanation="VByte and LogSequence are modelled exactly (bytes and words); the theorems cover all values/widths/positions; "
                    "the harness compares encodings, decoded values, every field and the saved image with the model",
        assumptions=["BitVec 64 shifts equal the C++ shifts for counts < 64 (counts of 64 are excluded by lowMask in the repaired code)",
                     "Lean compiler agrees with the kernel semantics of the model definitions"]),
}


# --------------------------------------------------------------------------- dictionary battery
FC_KINDS = ["PFC", "RPFC", "HTFC", "HHTFC", "RPHTFC"]
ORDERED_KINDS = FC_KINDS + ["RPDAC", "FMINDEX"]
HASH_KINDS = ["HASHHF", "HASHRPF", "HASHUFFDAC", "HASHRPDAC", "BLOCKS"]
ALL_KINDS = FC_KINDS + ["RPDAC"] + HASH_KINDS + ["FMINDEX", "XBW"]
PREFIX_KINDS = FC_KINDS + ["RPDAC", "FMINDEX", "XBW"]
SUBSTR_KINDS = ["FMINDEX", "XBW"]
EXACT_ID_KINDS = ORDERED_KINDS + ["XBW"]   # kinds whose IDs the model predicts (hash kinds join when modelled)


SAVE_OPS = ("save", "save2", "resave", "foreign", "image", "reload")


def dict_battery(tier, rng):
    """List of (name, S) — the dictionaries every dictionary-level property runs on."""
    thorough = tier == "thorough"
    out = []
    r = rng.fork("battery")
    g1 = gen.g1_all(2)
    if not thorough:
        g1 = r.sample(g1, 24)
    for i, S in enumerate(g1):
        out.append(("g1a%d" % i, S))
    for i, S in enumerate(gen.g1_subsets(r, 400 if thorough else 24, 3)):
        out.append(("g1b%d" % i, S))
    ns = [1, 2, 3, 4, 5, 7, 8, 9, 16, 17, 37, 100, 257] + ([1000, 3000] if thorough else [])
    combos = [(26, "short"), (26, "mixed"), (2, "short"), (2, "mid"), (4, "mixed"), (253, "mixed"), (26, "long"), (1, "mixed"), (4, "mid")]
    k = 0
    for n in ns:
        for (a, lm) in (combos if thorough else r.sample(combos, 3)):
            if lm == "long" and n > 100:
                continue
            S = gen.g2_dict(r, n, a, lm)
            if S:
                out.append(("g2_%d" % k, S))
                k += 1
    for lcp in (126, 127, 128, 129) + ((16383, 16384) if thorough else ()):
        out.append(("g3lcp%d" % lcp, gen.g3_lcp_chain(r, lcp, 3)))
    for kk in (1, 2, 5):
        out.append(("g3sym%d" % kk, gen.g3_single_symbols(kk)))
    out.append(("g3states", gen.us_states()))
    out.append(("g3states12", gen.us_states()[:12]))
    out.append(("g3abcb", [b"ab", b"abc", b"b"]))
    out.append(("g3one", [b"hello"]))
    out.append(("g3long1", [b"x" * 300]))
    out.append(("g3edges", [bytes([2]), bytes([2, 2]), bytes([2, 254]), bytes([254]), bytes([254, 2]), bytes([254, 254, 254])]))
    return out


def param_vectors(kind, rng, n, tier, many=False):
    """Legal parameter vectors for a kind (one or a few per dictionary)."""
    r = rng
    if kind in FC_KINDS:
        bs = [2, 3, 4, 5, 8, 16, max(2, n), n + 1]
        return [{"b": b} for b in (bs if many else r.sample(bs, 2))]
    if kind in ("HASHHF", "HASHRPF", "HASHUFFDAC", "HASHRPDAC"):
        ovs = [0, 1, 10, 25, 100]
        return [{"ov": o} for o in (ovs if many else r.sample(ovs, 2))]
    if kind == "BLOCKS":
        cuts = [1, 8, 64, 1 << 27]
        vs = [{"ov": r.choice([0, 25]), "cut": c, "thr": t} for c in cuts for t in (1, 2, 4)]
        return vs if many else r.sample(vs, 2)
    if kind == "FMINDEX":
        vs = [{"rrr": rr, "bs": bs, "bwt": bw} for rr in (0, 1) for bs in (4, 20, 32) for bw in (1, 2, 5, 16, 64)]
        return vs if many else r.sample(vs, 2)
    return [{}]


def kind_cases(tier, rng, kinds, ops_fn, phases=("built", "loaded"), many=False, battery=None, name="d"):
    """Builds the case list: battery × kinds × parameter vectors × phases.
    ops_fn(kind, params, S, rng) -> list of ops."""
    cases = []
    battery = battery if battery is not None else dict_battery(tier, rng)
    for dname, S in battery:
        for kind in kinds:
            r = rng.fork(dname + kind)
            for pv in param_vectors(kind, r, len(S), tier, many):
                ops = ops_fn(kind, pv, S, r)
                if not ops:
                    continue
                for ph in phases:
                    pre = []
                    pops = ops
                    if ph == "loaded2":
                        # second generation: save -> load -> save -> load
                        pre = [["reload", "own", 1], ["reload", "own", 1]]
                    elif ph in ("loaded", "generic"):
                        lopt = r.range(1, 3) if kind in ("HASHHF", "HASHRPF") else 1
                        pre = [["reload", "own" if ph == "loaded" else "generic", lopt]]
                        if lopt != 1:
                            # HashBdh/HashBBdh are load-only representations (known finding K5):
                            # saving them is exercised only by the dedicated k5 stream of C08
                            pops = [o for o in ops if o[0] not in SAVE_OPS]
                    cid = "%s_%s_%s_%s_%s" % (name, dname, kind, "".join("%s%s" % kv for kv in sorted(pv.items())), {"built": "b", "loaded": "l", "generic": "g", "loaded2": "l2"}[ph])
                    cases.append((cid, "dict", kind, pv, S, pre + pops))
    return cases


def c01_ops(kind, pv, S, r):
    cap = 64
    members = S if len(S) <= cap else r.sample(S, cap)
    ops = []
    if kind in EXACT_ID_KINDS:
        ops += [["loc", hx(s)] for s in members]
        ids = list(range(1, len(S) + 1))
        if len(ids) > cap:
            ids = r.sample(ids, cap) + [1, len(S)]
        ops += [["ext", i] for i in ids]
    else:
        ops += [["rt", hx(s)] for s in members]
    ops.append(["exts"])
    if kind == "PFC":
        # exact model: the saved image is compared byte for byte (hash for large dictionaries)
        ops.append(["image"] if len(S) <= 40 else ["save"])
    return ops


def c01_streams(tier, rng):
    return [StreamSet("roundtrip", "asan", kind_cases(tier, rng, ALL_KINDS, c01_ops))]


PROPS["C01"] = PropSpec(
    c01_streams,
    rule="battery (G1 small-scope subsets over {a,b}, G2 structured random with deep lcp chains, G3 proof-directed boundaries) × 13 kinds × "
         "parameter vectors × {built, reloaded}; per case locate(s) for members, extract(i) for IDs, and the sorted multiset of extract(1..n); "
         "non-trivial = at least 2 strings; distinct by hash of (kind, params, strings, ops)",
    partial=["kinds without an exact Lean model are compared with the specification only (CSD/Spec.lean)"],
    explanation="refinement of the kind's model to Spec.locate/Spec.extract; the harness compares every answer of the real code with it",
    assumptions=["the input contract validDict (sorted, duplicate-free, bytes 0x02..0xFE)"])


# --------------------------------------------------------------------------- C02..C16 dictionary-level streams
def c02_ops(kind, pv, S, r):
    qs = gen.queries_members_and_neighbours(r, S, 24)
    op = "loc" if kind in EXACT_ID_KINDS else "rt"
    ops = [[op, hx(q)] for q in qs]
    ops += [["ext", i] for i in gen.bad_ids(len(S))]
    return ops


def c03_ops(kind, pv, S, r):
    n = len(S)
    ids = list(range(1, n + 1))
    if n > 48:
        ids = sorted(set(r.sample(ids, 46) + [1, n]))
    ops = [["ext", i] for i in ids]
    ops += [["loc", hx(S[i - 1])] for i in ids[:24]]
    ks = ids[:16] + [n]
    ops += [["lrk", k] for k in ks] + [["xrk", k] for k in ks]
    return ops


def c04_ops(kind, pv, S, r):
    ps = gen.prefixes_of(r, S, 28)
    ops = []
    for p in ps:
        ops.append(["pre", hx(p)])
        if r.chance(1, 2):
            ops.append(["xpre", hx(p)])
    return ops


def c05_ops(kind, pv, S, r):
    if kind == "FMINDEX" and int(pv.get("bwt", 4)) == 0:
        return []
    ps = gen.substrings_of(r, S, 28)
    ops = []
    for p in ps:
        ops.append(["sub", hx(p)])
        if r.chance(1, 2):
            ops.append(["xsub", hx(p)])
    return ops


def all_query_ops(kind, pv, S, r, cap=10):
    """A mixed battery of every query the kind supports (for C06/C08/C12/C14)."""
    ops = [["meta"]]
    qs = gen.queries_members_and_neighbours(r, S, cap)
    op = "loc" if kind in EXACT_ID_KINDS else "rt"
    ops += [[op, hx(q)] for q in qs[: 2 * cap]]
    n = len(S)
    ids = [1, n, (n + 1) // 2, 0, n + 1]
    ops += [["ext", i] for i in ids if kind in EXACT_ID_KINDS or i == 0 or i > n]
    ops.append(["exts"])
    if kind in PREFIX_KINDS:
        for p in gen.prefixes_of(r, S, cap)[:cap]:
            ops.append(["pre", hx(p)])
            ops.append(["xpre", hx(p)])
    if kind in SUBSTR_KINDS and not (kind == "FMINDEX" and int(pv.get("bwt", 4)) == 0):
        for p in gen.substrings_of(r, S, cap)[:cap]:
            ops.append(["sub", hx(p)])
            ops.append(["xsub", hx(p)])
    if kind in ORDERED_KINDS:
        ops += [["lrk", 1], ["xrk", 1], ["xrk", n]]
    if kind != "XBW":
        ops += [["tabs"], ["tabx"]]
    if kind in ORDERED_KINDS:
        ops.append(["tab"])
    return ops


def c06_ops(kind, pv, S, r):
    return all_query_ops(kind, pv, S, r)


def c06_streams(tier, rng):
    cases = kind_cases(tier, rng, ALL_KINDS, c06_ops, phases=("loaded", "generic", "loaded2"))
    # images are self-delimiting: the `reload` op appends a trailer and checks tellg
    return [StreamSet("persist", "asan", cases)]


def c08_ops(kind, pv, S, r):
    q = all_query_ops(kind, pv, S, r, cap=4)
    return [["save2"]] + q[:12] + [["save2"], ["resave", 1], ["save"]] + q[:12] + [["save2"]]


def c08_streams(tier, rng):
    main = kind_cases(tier, rng, ALL_KINDS, c08_ops)
    # K5: objects loaded with hash representation 2/3 cannot be saved (recorded finding)
    k5 = []
    for kind in ("HASHHF", "HASHRPF"):
        for lopt in (2, 3):
            S = gen.us_states()[:9]
            k5.append(("k5_%s_%d" % (kind, lopt), "dict", kind, {"ov": 25}, S, [["reload", "own", lopt], ["rt", hx(S[0])], ["save2"]]))
            k5.append(("k5r_%s_%d" % (kind, lopt), "dict", kind, {"ov": 25}, S, [["resave", lopt]]))
    return [StreamSet("saves", "asan", main), StreamSet("k5", "asan", k5)]


def c13_ops(kind, pv, S, r):
    if kind == "XBW":
        return [["tab"]]
    ops = [["tabx"], ["tabs"], ["meta"]]
    if kind in ORDERED_KINDS:
        ops.append(["tab"])
    if kind in PREFIX_KINDS:
        for p in gen.prefixes_of(r, S, 10)[:10]:
            ops += [["xpre", hx(p)], ["pre", hx(p)]]
    if kind in SUBSTR_KINDS:
        for p in gen.substrings_of(r, S, 6)[:6]:
            ops += [["xsub", hx(p)], ["sub", hx(p)]]
    return ops


def c15_ops(kind, pv, S, r):
    return [["meta"], ["exts"]]


def c16_ops(kind, pv, S, r):
    ops = []
    pats = gen.prefixes_of(r, S, 4)[:4] + gen.queries_members_and_neighbours(r, S, 3)[:4]
    if kind in HASH_KINDS:
        for p in pats:
            ops += [["pre", hx(p)], ["xpre", hx(p)], ["sub", hx(p)], ["xsub", hx(p)]]
        ops += [["lrk", 1], ["xrk", 1], ["lrk", len(S)], ["xrk", 0]]
    elif kind in FC_KINDS + ["RPDAC"] or (kind == "FMINDEX" and int(pv.get("bwt", 4)) == 0):
        for p in pats:
            ops += [["sub", hx(p)], ["xsub", hx(p)]]
    elif kind == "XBW":
        ops += [["tab"]]
    else:
        return []
    # the dictionary stays fully usable
    op = "loc" if kind in EXACT_ID_KINDS else "rt"
    ops += [[op, hx(s)] for s in S[:6]] + [["exts"]]
    # a kind's loader refuses another kind's image
    others = [k for k in ALL_KINDS if k != kind]
    ops += [["foreign", k] for k in r.sample(others, 4)]
    return ops


def simple_dict_prop(ops_fn, kinds, name, phases=("built", "loaded"), many=False):
    def f(tier, rng):
        return [StreamSet(name, "asan", kind_cases(tier, rng, kinds, ops_fn, phases=phases, many=many))]
    return f


_PART = ["kinds without an exact Lean model are compared with the specification only (CSD/Spec.lean)"]
_RULE = ("battery (G1 small-scope subsets over {a,b}, G2 structured random with deep lcp chains, G3 proof-directed boundaries) × kinds × "
         "parameter vectors × {built, reloaded}; %s; non-trivial = at least 2 strings; distinct by hash of (kind, params, strings, ops)")
_ASSUME = ["the input contract validDict (sorted, duplicate-free, bytes 0x02..0xFE)"]

PROPS["C02"] = PropSpec(simple_dict_prop(c02_ops, ALL_KINDS, "absent"),
                        _RULE % "queries: members, proper prefixes, one-byte extensions, ±1 on the last byte, below first / above last, bytes absent from the dictionary; IDs 0, n+1, 2^32±1, 2^64−1",
                        _PART, "the refinement theorems read at non-members; ASan monitors the reads of the real code", _ASSUME)
def c03_streams(tier, rng):
    main = kind_cases(tier, rng, ORDERED_KINDS, c03_ops, name="d")
    # XBW answers rank queries although its IDs are co-lexicographic (recorded finding K6)
    k6 = kind_cases(tier, rng, ["XBW"], lambda k, pv, S, r: [["lrk", 1], ["xrk", 1], ["lrk", len(S)], ["xrk", len(S)], ["xrk", (len(S) + 1) // 2]],
                    battery=small_battery(tier, rng, 6), name="x")
    return [StreamSet("order", "asan", main), StreamSet("xbwrank", "asan", k6)]


PROPS["C03"] = PropSpec(c03_streams,
                        _RULE % "extract(i) for IDs, locate of members, locateRank/extractRank for ranks",
                        _PART, "IDs of order-preserving kinds are lexicographic ranks (corollary of the refinement theorems)", _ASSUME)
PROPS["C04"] = PropSpec(simple_dict_prop(c04_ops, PREFIX_KINDS, "prefix"),
                        _RULE % "patterns: prefixes of members, one-byte extensions, members, longer than every member, below/above all members",
                        _PART, "prefix search equals the contiguous specification range", _ASSUME)
PROPS["C05"] = PropSpec(simple_dict_prop(c05_ops, SUBSTR_KINDS, "substr"),
                        _RULE % "patterns: substrings of length 1..3 of members, whole members, straddling two members, absent bytes",
                        ["FM-index backward search and XBW navigation are not modelled (D3): correspondence with the specification only"],
                        "glue (duplicate-skipping iterator, position→ID map) is modelled; the index algorithms are compared with Spec.substrIds", _ASSUME)
PROPS["C06"] = PropSpec(c06_streams,
                        _RULE % "every query of C01–C05/C13/C15 on objects reloaded through the kind's own loader and through the generic loader, with a trailer after the image (tellg must stop at the image end)",
                        _PART, "field-sequence theorems over generated fragments + byte-level serialisers of the exact models", _ASSUME)
PROPS["C08"] = PropSpec(c08_streams,
                        _RULE % "save twice, queries, save twice, save→load→save byte comparison, queries again",
                        _PART, "save is a function of the model state; re-save equality for the exact models", _ASSUME)
PROPS["C13"] = PropSpec(simple_dict_prop(c13_ops, ALL_KINDS, "iters"),
                        _RULE % "extractTable vs extract(k), sorted table, string/ID iterators of prefix and substring searches, NUL termination and reported lengths",
                        _PART, "iterator state machines drain to the specification lists", _ASSUME)
PROPS["C15"] = PropSpec(simple_dict_prop(c15_ops, ALL_KINDS, "meta"),
                        _RULE % "numElements and maxLength on built and reloaded objects",
                        _PART, "counter folds of the constructor models", _ASSUME)
PROPS["C16"] = PropSpec(simple_dict_prop(c16_ops, ALL_KINDS, "failsafe"),
                        _RULE % "every unsupported operation of the kind with well-formed arguments, then ordinary queries on the same object; four foreign loaders per image",
                        _PART, "dispatch / loader-guard / stub theorems over generated fragments", _ASSUME)


# --------------------------------------------------------------------------- C12 / C14 / C07
def small_battery(tier, rng, k):
    b = dict_battery(tier, rng)
    keep = [x for x in b if x[0].startswith("g3")]
    rest = [x for x in b if not x[0].startswith("g3")]
    return keep + rng.fork("small").sample(rest, min(k, len(rest)))


def c12_ops(kind, pv, S, r):
    # the same queries for every parameter vector of a dictionary: the rng is re-seeded per dictionary
    r2 = gen.Rng(len(S) * 7919 + sum(S[0]))
    return all_query_ops(kind, pv, S, r2, cap=8)


def c12_streams(tier, rng):
    thorough = tier == "thorough"
    bat = small_battery(tier, rng, 60 if thorough else 14)
    cases = kind_cases(tier, rng, ALL_KINDS, c12_ops, phases=("built", "loaded"), many=True, battery=bat, name="p")
    # bucket sizes below 2 are clamped to 2
    clamp = []
    for dname, S in bat[:10]:
        for kind in FC_KINDS:
            for b in (0, 1):
                clamp.append(("clamp_%s_%s_b%d" % (dname, kind, b), "dict", kind, {"b": b}, S,
                              c12_ops(kind, {"b": b}, S, rng)))
    return [StreamSet("params", "asan", cases), StreamSet("clamp", "asan", clamp)]


def history_ops(kind, pv, S, r, length):
    pool = all_query_ops(kind, pv, S, r, cap=8)
    pool = [o for o in pool if o[0] not in ("tabx",)]
    # failed lookups and unsupported operations are part of every history
    pool += [["loc" if kind in EXACT_ID_KINDS else "rt", hx(S[0] + b"\x02")], ["ext", 0], ["sub", hx(S[0][:1])], ["pre", hx(S[-1][:1])],
             ["lrk", 1], ["xrk", len(S) + 1], ["save2"]]
    ops = []
    openit = []
    cnt = 0
    pats = gen.prefixes_of(r, S, 6)[:6]
    subs = gen.substrings_of(r, S, 4)[:4]
    while len(ops) < length:
        c = r.below(10)
        if kind == "XBW":
            c = 0   # XBW's iteration order is unspecified: its iterators are drained whole by pre/sub/xpre/xsub
        if c < 5:
            ops.append(list(r.choice(pool)))
        elif c < 7 and len(openit) < 4:
            name = "i%d" % cnt
            cnt += 1
            what = r.choice(["pre", "xpre", "tab"] + (["sub", "xsub"] if kind in SUBSTR_KINDS else []))
            if what == "tab" and kind not in ORDERED_KINDS:
                what = "pre"
            pat = r.choice(subs if what in ("sub", "xsub") else pats)
            ops.append(["iopen", name, what, hx(pat)])
            openit.append(name)
        elif c < 9 and openit:
            ops.append(["inext", r.choice(openit), r.range(1, 3)])
        elif openit:
            name = r.choice(openit)
            openit.remove(name)
            ops.append(["iclose", name])
    for name in openit:
        ops.append(["inext", name, 100000])
        ops.append(["iclose", name])
    return ops


def c14_streams(tier, rng):
    thorough = tier == "thorough"
    bat = small_battery(tier, rng, 50 if thorough else 12)
    L = 200 if thorough else 50

    def fn(kind, pv, S, r):
        return history_ops(kind, pv, S, r, L)
    cases = kind_cases(tier, rng, ALL_KINDS, fn, battery=bat, name="h")
    # the same history replayed in a different order must give the same per-op answers:
    # both orders are compared with the (history-free) model, so agreement is implied
    cases2 = []
    for c in cases[:: 3]:
        ops = list(c[5])
        head = [o for o in ops if o[0] == "reload"]
        body = [o for o in ops if o[0] not in ("reload", "iopen", "inext", "iclose")]
        rng.fork(c[0]).shuffle(body)
        cases2.append((c[0] + "_perm", c[1], c[2], c[3], c[4], head + body))
    return [StreamSet("histories", "asan", cases), StreamSet("reordered", "asan", cases2)]


def c07_streams(tier, rng):
    thorough = tier == "thorough"
    bat = small_battery(tier, rng, 40 if thorough else 10)
    # long strings and many strings: every internal buffer is reallocated
    r = rng.fork("c07")
    bat.append(("long2000", sorted(set(bytes(r.choice(gen.ALPHABETS[26]) for _ in range(r.range(1500, 2500))) for _ in range(5)))))
    bat.append(("many", gen.g2_dict(r, 3000 if thorough else 1200, 26, "mixed")))

    def fn(kind, pv, S, r):
        if len(S) > 500:
            return all_query_ops(kind, pv, S, r, cap=6) + [["save2"], ["resave", 1]]
        return history_ops(kind, pv, S, r, 40) + [["save2"], ["resave", 1]]
    out = [StreamSet("lifecycle", "asan", kind_cases(tier, rng, ALL_KINDS, fn, battery=bat, name="m"), timeout=60)]
    # growth paths: MEMALLOC overridden through the hook so that every doubling is taken with small inputs
    growk = FC_KINDS + ["HASHHF"]
    for mem in ((1, 2, 7, 64) if thorough else (1, 7)):
        gb = [x for x in bat if x[0] not in ("many",)]
        cs = kind_cases(tier, rng.fork("mem%d" % mem), growk, lambda k, pv, S, r: all_query_ops(k, pv, S, r, cap=4),
                        phases=("built",), battery=gb, name="g%d" % mem)
        out.append(StreamSet("memalloc%d" % mem, "asan", cs, extra_defs=("-DLIBCSD_VERIF_MEMALLOC=%d" % mem,), tag="_mem%d" % mem, timeout=60))
    return out


PROPS["C12"] = PropSpec(c12_streams,
                        _RULE % "every legal parameter vector of each kind (bucket sizes 2..n+1, overheads 0..100, FM bitmap kind × sampling × BWT step, cut × threads, load option 1..3) on the same dictionary and the same queries; bucket sizes 0 and 1",
                        _PART, "answers equal the parameter-free specification for every parameter vector, hence equal each other", _ASSUME)
PROPS["C14"] = PropSpec(c14_streams,
                        _RULE % "random call histories (queries, failed lookups, unsupported operations, save, up to 4 interleaved open iterators), and the same queries in a shuffled order; the pattern buffer is checked after every call",
                        _PART + ["immutability of the C++ objects is observed, not proved"],
                        "the model answers each call from the dictionary alone (history-free); the pattern-buffer discipline of RePair is modelled", _ASSUME)
PROPS["C07"] = PropSpec(c07_streams,
                        _RULE % "life-cycle histories build → queries → save → load → queries → destroy under ASan+UBSan; 1200+ strings; 2000-byte strings; FC kinds rebuilt with MEMALLOC 1/7 (thorough: 1/2/7/64)",
                        ["memory safety of the C++ runtime is monitored by sanitizers on the runs, the theorems cover the index arithmetic of the modelled buffers only"],
                        "index-bounds theorems for the modelled buffers; sanitizers monitor every correspondence run", _ASSUME)


# --------------------------------------------------------------------------- C09 / C10 / C11 (parallel build, worker pool)
def pool_cases(tier, rng, name):
    thorough = tier == "thorough"
    r = rng.fork("pool" + name)
    cases = []
    cid = 0
    Ns = [1, 2, 3, 8] if thorough else [1, 2, 3, 8]
    Ts = [0, 1, 2, 3, 9, 50] if thorough else [0, 1, 2, 4, 20]
    reps = 12 if thorough else 3
    for N in Ns:
        for T in Ts:
            for mode in ("stoplast", "waitdone", "stopnow"):
                for strat in (0, 1, 2, 3, 4, 5):
                    ops = [["pool", N, T, mode, strat, r.below(1 << 30)] for _ in range(reps)]
                    cases.append(("%s%d" % (name, cid), "pool", "-", {"n": N, "t": T}, [], ops))
                    cid += 1
    return cases


def blocks_cases(tier, rng, name, per_dict=2):
    thorough = tier == "thorough"
    r = rng.fork("blocks" + name)
    bat = small_battery(tier, rng, 30 if thorough else 8)
    bat = [x for x in bat if len(x[1]) >= 2]
    bat.append(("many", gen.g2_dict(r, 1500 if thorough else 400, 26, "mixed")))
    cases = []
    for dname, S in bat:
        total = sum(len(s) + 1 for s in S)
        for cut in sorted(set([1, 8, 64, max(1, total // 2), total, total + 10])):
            ops = []
            for k in range(per_dict):
                strat = r.choice([0, 1, 3, 4, 5])
                ops.append(["blocksdet", strat, r.below(1 << 30), 2, 3, r.choice([8, 16])])
            ops += [["rt", hx(s)] for s in S[:6]] + [["exts"]]
            cases.append(("%s_%s_cut%d" % (name, dname, cut), "dict", "BLOCKS", {"ov": r.choice([0, 25]), "cut": cut, "thr": r.choice([2, 4])}, S, ops))
    return cases


def c10_streams(tier, rng):
    return [StreamSet("pool", "asan", pool_cases(tier, rng, "pl"), timeout=8)]


def c09_streams(tier, rng):
    return [StreamSet("blocksdet", "asan", blocks_cases(tier, rng, "bd"), timeout=60)]


def c11_streams(tier, rng):
    env = {"TSAN_OPTIONS": "halt_on_error=0:report_signal_unsafe=0:exitcode=0:second_deadlock_stack=1"}
    pc = [c for i, c in enumerate(pool_cases(tier, rng, "tp")) if i % 3 == 0]
    return [StreamSet("tsan-pool", "tsan", pc, timeout=30, env=env),
            StreamSet("tsan-blocks", "tsan", blocks_cases(tier, rng, "tb", per_dict=1), timeout=120, env=env)]


PROPS["C10"] = PropSpec(c10_streams,
                        "worker counts {1,2,3,8} × task counts {0,1,2,4,20} × shutdown pattern {last task stops, wait-then-stop, stop at once} × schedule perturbation strategy "
                        "{none, random delays, pause when the wait predicate is false, both, slow producer, slow workers} × seeds, on the real threads through the LIBCSD_VERIF_POINT hooks; "
                        "a hang is a timeout; non-trivial = at least 2 runs; distinct by (N, T, mode, strategy, seed)",
                        ["thread interleavings inside libstdc++'s condition_variable are represented by the two-step wait of the model, not executed exhaustively"],
                        "state-machine model of the pool with invariants (at most once, exactly once at termination, no stuck state); the real pool is driven under perturbed schedules",
                        ["std::mutex / std::condition_variable behave as the C++17 standard says"])
PROPS["C09"] = PropSpec(c09_streams,
                        "BLOCKS dictionaries × cut sizes {1, 8, 64, total/2, total, > total} × thread counts {2,3,8|16} × perturbation strategies: image compared byte for byte with the single-thread image, "
                        "every block complete on return, answers compared with the specification",
                        ["HASHRPDAC part construction is compared with the specification, not modelled byte for byte"],
                        "schedule-independence of the parts vector and the image in the pool model; images across thread counts and perturbed schedules on the real code",
                        _ASSUME)
PROPS["C11"] = PropSpec(c11_streams,
                        "the C10 pool runs and the C09 block builds under ThreadSanitizer with perturbed schedules; every TSan report is a violation",
                        ["a lock-discipline theorem about a model cannot see an access the model does not have; TSan sees only the schedules run"],
                        "lock discipline of the pool model (every shared location is accessed under its lock or ordered by create/join); TSan on the real threads",
                        ["ThreadSanitizer's happens-before detection"])
