#!/usr/bin/env python3
"""Per-property correspondence streams: which cases are generated for which
property, under which build configuration (DESIGN §8)."""
import os, json
import gen
from gen import hx

VERIF = os.path.dirname(os.path.dirname(os.path.abspath(__file__)))


class StreamSet:
    def __init__(self, name, cfg, cases, extra_defs=(), tag="", timeout=20, env=None, phase2=None, cross_with=None):
        self.name, self.cfg, self.cases = name, cfg, cases
        self.extra_defs, self.tag, self.timeout, self.env = tuple(extra_defs), tag, timeout, env
        self.phase2 = phase2
        # name of an earlier stream set with the same cases: the implementation's output of the two runs
        # must be identical line by line (used to run the same builds over differently filled heaps)
        self.cross_with = cross_with


class PropSpec:
    def __init__(self, fn, rule, partial, explanation, assumptions):
        self.streams = fn
        self.rule, self.partial, self.explanation, self.assumptions = rule, partial, explanation, assumptions


def nontrivial(case):
    cid, stream, kind, params, strs, ops = case
    if stream == "dict":
        return len(strs) >= 2 and len(ops) >= 1
    return len(ops) >= 2


def load_corpus(prop):
    d = os.path.join(VERIF, "corpus", prop)
    out = []
    if os.path.isdir(d):
        for f in sorted(os.listdir(d)):
            if f.endswith(".json"):
                j = json.load(open(os.path.join(d, f)))
                out.append(("corpus_" + f[:-5], j["stream"], j["kind"], j["params"],
                            [bytes.fromhex(s) for s in j["strings_hex"]], [list(o) for o in j["ops"]]))
    return out


# --------------------------------------------------------------------------- C17
def c17_streams(tier, rng):
    thorough = tier == "thorough"
    cases = []
    # VByte: boundary values and random 32-bit values
    vals = set()
    for k in range(33):
        for d in (-1, 0, 1):
            v = (1 << k) + d
            if 0 <= v < 2 ** 32:
                vals.add(v)
        if 127 * (1 << k) < 2 ** 32:
            vals.add(127 * (1 << k))
            vals.add(128 * (1 << k) - 1)
    vals = sorted(vals)
    r = rng.fork("vbyte")
    nrand = 20000 if thorough else 3000
    for _ in range(nrand):
        bits_ = r.range(1, 32)
        vals.append(r.below(1 << bits_))
    if thorough:
        vals += list(range(0, 1 << 16))
    for i in range(0, len(vals), 250):
        cases.append(("vb%d" % (i // 250), "vbyte", "-", {}, [], [["enc", v] for v in vals[i:i + 250]]))
    # LogSequence: every width, several lengths, random set/overwrite/get sequences
    r = rng.fork("logseq")
    lens = [1, 2, 3, 63, 64, 65, 129] if thorough else [1, 2, 5, 64, 65]
    reps = 4 if thorough else 1
    cid = 0
    for w in range(1, 65):
        for n in lens:
            for _ in range(reps):
                ops = []
                nops = min(4 * n, 120)
                for _ in range(nops):
                    i = r.below(n)
                    which = r.below(8)
                    if which == 0:
                        v = (1 << w) - 1
                    elif which == 1:
                        v = 0
                    elif which == 2:
                        v = 1 << (w - 1)
                    else:
                        v = r.below(1 << w)
                    ops.append(["set", i, v])
                    if r.chance(1, 3):
                        ops.append(["get", r.below(n)])
                ops += [["all"], ["image"], ["reload"], ["all"], ["image"]]
                # and the vector constructor with fresh values
                vec = [r.below(1 << w) for _ in range(n)]
                ops += [["vec"] + vec, ["all"], ["image"], ["reload"], ["all"]]
                cases.append(("ls%d" % cid, "logseq", "-", {"w": w, "n": n}, [], ops))
                cid += 1
    # DAC_VLS: lists of sequences of every shape (all of length 1, one long one, ragged, many), several field widths
    r = rng.fork("dac")
    shapes = []
    for n in (1, 2, 5, 31, 32, 33, 40) + ((100, 257, 1000) if thorough else (100,)):
        shapes.append([1] * n)                                   # a single level
        shapes.append([1 + r.below(3) for _ in range(n)])        # short ragged
        shapes.append([1 + r.below(9) for _ in range(n)])
        shapes.append([1] * (n - 1) + [12])                      # one sequence reaches the deep levels
        shapes.append([7] * n)                                   # every level full
        if thorough:
            shapes.append([1 + r.below(40) for _ in range(n)])
    did = 0
    imgcases = []
    for lens in shapes:
        for logr in ((1, 7, 8, 13, 20, 32) if thorough else r.sample([1, 7, 8, 13, 20, 32], 2)):
            hi = min((1 << logr) - 1, (1 << 31) - 1)   # the constructor takes `int*`: negative entries are separators
            L = [[max(1, r.below(hi + 1)) if r.chance(7, 8) else hi for _ in range(k)] for k in lens]
            enc = ";".join(",".join(str(x) for x in sq) for sq in L)
            ops = [["dac", logr, enc], ["dac", logr, enc, "reload"]]
            cases.append(("dac%d" % did, "dac", "-", {}, [], ops))
            imgcases.append(("dimg%d" % did, "dacimg", "-", {}, [], [["dimg", logr, enc]]))
            did += 1
    return [StreamSet("codecs", "asan", cases), StreamSet("dac-image", "asan", imgcases, phase2=dacimg_phase2),
            StreamSet("dac-bvls", "asan", bvls_cases(tier, rng, 40 if tier == "thorough" else 12), phase2=bvls_phase2, timeout=60)]


def dacimg_phase2(case, impl_lines):
    """The saved DAC_VLS image and the fields of the real object -> the Lean validator (byte-level model of
    save/load: the fields must serialise to exactly these bytes and the bytes must parse back to the fields)."""
    ops = []
    for l in impl_lines:
        t = l.split()
        if len(t) >= 6 and t[1] == "DI":
            d = dict(x.split("=", 1) for x in t[2:])
            ops.append(["dichk"] + [d.get(k, "-") for k in ("img", "tam", "ll", "nl", "bb", "li", "lv", "rl", "bn", "bf", "bd", "br")])
        elif not l.startswith("FAULT"):
            ops.append(["dichk"] + ["-"] * 12)
    while len(ops) < len(case[5]):
        ops.append(["dichk"] + ["-"] * 12)
    return ops


PROPS = {
    "C17": PropSpec(
        c17_streams,
        rule="vbyte: boundary values 2^k, 2^k±1, 127·2^k, 128·2^k−1 plus seeded random 32-bit values, 250 per case; "
             "logseq: every width 1..64 × lengths × random set/overwrite/get histories followed by dump, save image, reload, dump, "
             "then the vector constructor; a case is non-trivial when it has ≥2 operations; distinct by hash of (stream, params, ops)",
        partial=["DAC_BVLS is exercised only through HASHUFFDAC; the packing of DAC_VLS symbols into base_bits-wide fields is abstracted in the access model "
                 "(the image model carries the packed words as they are)"],
        explanation="VByte, LogSequence and DAC_VLS (layout, access, save/load bytes) are modelled exactly; the theorems cover all values/widths/positions/lists; "
                    "the harness compares encodings, decoded values, every field, the DAC layout and accesses and the saved images with the models; "
                    "dac-image: the real fields must serialise to the real image under the model and parse back",
        assumptions=["BitVec 64 shifts equal the C++ shifts for counts < 64 (counts of 64 are excluded by lowMask in the repaired code)",
                     "Lean compiler agrees with the kernel semantics of the model definitions"]),
}


# --------------------------------------------------------------------------- dictionary battery
FC_KINDS = ["PFC", "RPFC", "HTFC", "HHTFC", "RPHTFC"]
ORDERED_KINDS = FC_KINDS + ["RPDAC", "FMINDEX"]
HASH_KINDS = ["HASHHF", "HASHRPF", "HASHUFFDAC", "HASHRPDAC", "BLOCKS"]
ALL_KINDS = FC_KINDS + ["RPDAC"] + HASH_KINDS + ["FMINDEX", "XBW"]
PREFIX_KINDS = FC_KINDS + ["RPDAC", "FMINDEX", "XBW"]
SUBSTR_KINDS = ["FMINDEX", "XBW"]
EXACT_ID_KINDS = ORDERED_KINDS + ["XBW", "HASHRPDAC", "HASHRPF", "BLOCKS"]   # kinds whose IDs the model predicts


SAVE_OPS = ("save", "save2", "resave", "foreign", "image", "reload", "badtag")


def dict_battery(tier, rng):
    """List of (name, S) — the dictionaries every dictionary-level property runs on."""
    thorough = tier == "thorough"
    out = []
    r = rng.fork("battery")
    g1 = gen.g1_all(2)
    if not thorough:
        g1 = r.sample(g1, 24)
    for i, S in enumerate(g1):
        out.append(("g1a%d" % i, S))
    for i, S in enumerate(gen.g1_subsets(r, 400 if thorough else 24, 3)):
        out.append(("g1b%d" % i, S))
    ns = [1, 2, 3, 4, 5, 7, 8, 9, 16, 17, 37, 100, 257] + ([1000, 3000] if thorough else [])
    combos = [(26, "short"), (26, "mixed"), (2, "short"), (2, "mid"), (4, "mixed"), (253, "mixed"), (26, "long"), (1, "mixed"), (4, "mid")]
    k = 0
    for n in ns:
        for (a, lm) in (combos if thorough else r.sample(combos, 3)):
            if lm == "long" and n > 100:
                continue
            S = gen.g2_dict(r, n, a, lm)
            if S:
                out.append(("g2_%d" % k, S))
                k += 1
    for lcp in (126, 127, 128, 129) + ((16383, 16384) if thorough else ()):
        out.append(("g3lcp%d" % lcp, gen.g3_lcp_chain(r, lcp, 3)))
    for lcp in (126, 127, 128, 129) + ((255, 16383, 16384) if thorough else ()):
        out.append(("g3fence%d" % lcp, gen.g3_lcp_fence(r, lcp)))
    for (n, kl, tl) in ((12, 4, 40), (20, 3, 220)) + (((40, 5, 220), (64, 2, 33), (33, 6, 700)) if thorough else ()):
        out.append(("g3tail%d_%d" % (n, tl), gen.g3_common_tail(r, n, kl, tl)))
    for kk in (1, 2, 5):
        out.append(("g3sym%d" % kk, gen.g3_single_symbols(kk)))
    out.append(("g3states", gen.us_states()))
    out.append(("g3states12", gen.us_states()[:12]))
    out.append(("g3abcb", [b"ab", b"abc", b"b"]))
    out.append(("g3one", [b"hello"]))
    out.append(("g3long1", [b"x" * 300]))
    out.append(("g3edges", [bytes([2]), bytes([2, 2]), bytes([2, 254]), bytes([254]), bytes([254, 2]), bytes([254, 254, 254])]))
    return out


def param_vectors(kind, rng, n, tier, many=False):
    """Legal parameter vectors for a kind (one or a few per dictionary)."""
    r = rng
    if kind in FC_KINDS:
        bs = [2, 3, 4, 5, 8, 16, max(2, n), n + 1]
        return [{"b": b} for b in (bs if many else r.sample(bs, 2))]
    if kind in ("HASHHF", "HASHRPF", "HASHUFFDAC", "HASHRPDAC"):
        ovs = [0, 1, 10, 25, 100]
        return [{"ov": o} for o in (ovs if many else r.sample(ovs, 2))]
    if kind == "BLOCKS":
        cuts = [1, 8, 64, 1 << 27]
        vs = [{"ov": r.choice([0, 25]), "cut": c, "thr": t} for c in cuts for t in (1, 2, 4)]
        return vs if many else r.sample(vs, 2)
    if kind == "FMINDEX":
        vs = [{"rrr": rr, "bs": bs, "bwt": bw} for rr in (0, 1) for bs in (4, 5, 7, 20, 32) for bw in (0, 1, 2, 5, 16, 64)]
        return vs if many else r.sample(vs, 2)
    return [{}]


def kind_cases(tier, rng, kinds, ops_fn, phases=("built", "loaded"), many=False, battery=None, name="d"):
    """Builds the case list: battery × kinds × parameter vectors × phases.
    ops_fn(kind, params, S, rng) -> list of ops."""
    cases = []
    battery = battery if battery is not None else dict_battery(tier, rng)
    for dname, S in battery:
        for kind in kinds:
            r = rng.fork(dname + kind)
            for pv in param_vectors(kind, r, len(S), tier, many):
                if kind in ("HASHRPDAC", "HASHRPF"):
                    pv = dict(pv)
                    pv["hs"] = int(len(S) * (1 + (int(pv.get("ov", 25)) * 1.0 / 100.0)))
                ops = ops_fn(kind, pv, S, r)
                if not ops:
                    continue
                for ph in phases:
                    pre = []
                    pops = ops
                    if ph == "loaded2":
                        # second generation: save -> load -> save -> load
                        pre = [["reload", "own", 1], ["reload", "own", 1]]
                    elif ph in ("loaded", "generic"):
                        lopt = r.range(1, 3) if kind in ("HASHHF", "HASHRPF") else 1
                        pre = [["reload", "own" if ph == "loaded" else "generic", lopt]]
                        if lopt != 1:
                            # HashBdh/HashBBdh are load-only representations (known finding K5):
                            # saving them is exercised only by the dedicated k5 stream of C08
                            pops = [o for o in ops if o[0] not in SAVE_OPS]
                    cid = "%s_%s_%s_%s_%s" % (name, dname, kind, "".join("%s%s" % kv for kv in sorted(pv.items())), {"built": "b", "loaded": "l", "generic": "g", "loaded2": "l2"}[ph])
                    cases.append((cid, "dict", kind, pv, S, pre + pops))
    return cases


def c01_ops(kind, pv, S, r):
    cap = 64
    members = S if len(S) <= cap else r.sample(S, cap)
    ops = []
    if kind in EXACT_ID_KINDS:
        ops += [["loc", hx(s)] for s in members]
        ids = list(range(1, len(S) + 1))
        if len(ids) > cap:
            ids = r.sample(ids, cap) + [1, len(S)]
        ops += [["ext", i] for i in ids]
    else:
        ops += [["rt", hx(s)] for s in members]
    ops.append(["exts"])
    if kind == "PFC":
        # exact model: the saved image is compared byte for byte (hash for large dictionaries)
        ops.append(["image"] if len(S) <= 40 else ["save"])
    return ops


def _is_prime(n):
    if n < 2:
        return False
    i = 2
    while i * i <= n:
        if n % i == 0:
            return False
        i += 1
    return True


def full_table_cases(tier, rng):
    """Hash tables above 2^16 slots that are full or have one or two free cells: the strings inserted last
    need tens of thousands of probes (the probe arithmetic leaves 32 bits), a search for them or for an
    absent string runs through the whole table."""
    S = scale_dicts(tier, rng)["hash150k"]
    r = rng.fork("fulltab")
    cases = []
    for target in ((149000, 131100, 98000, 70000) if tier == "thorough" else (149000, 131100, 70000)):
        pr = target
        while not _is_prime(pr):
            pr -= 1
        for free in (0, 1, 2):
            n = pr - free
            T = S[:n]
            for kind in ("HASHHF", "HASHRPF"):
                ops = [["rt", hx(x)] for x in T[-160:] + r.sample(T, 40)] + [["rt", hx(x + b"~")] for x in r.sample(T, 5)]
                for ph, pre in (("b", []), ("l", [["reload", "own", 1]])):
                    cases.append(("ft_%s_%d_%d_%s" % (kind, pr, free, ph), "dict", kind, {"ov": 0, "scale": 1}, T, pre + ops))
    return cases


def c01_streams(tier, rng):
    return [StreamSet("roundtrip", "asan", kind_cases(tier, rng, ALL_KINDS, c01_ops)),
            StreamSet("huffman-keys", "asan", hhf_cases(tier, rng, 40 if tier == "thorough" else 14), phase2=hhf_phase2, timeout=60),
            StreamSet("scale", "asan", scale_cases(tier, rng, scale_ops_roundtrip), timeout=600),
            StreamSet("full-tables", "asan", full_table_cases(tier, rng), timeout=600),
            StreamSet("fm-layer", "asan", fm_cases(tier, rng, 24 if tier == "thorough" else 6), phase2=fm_phase2, timeout=90),
            StreamSet("rpfc-layer", "asan", rpfc_cases(tier, rng, 24 if tier == "thorough" else 6), phase2=rpfc_phase2, timeout=90)]


PROPS["C01"] = PropSpec(
    c01_streams,
    rule="battery (G1 small-scope subsets over {a,b}, G2 structured random with deep lcp chains, G3 proof-directed boundaries) × 13 kinds × "
         "parameter vectors × {built, reloaded}; per case locate(s) for members, extract(i) for IDs, and the sorted multiset of extract(1..n); "
         "non-trivial = at least 2 strings; distinct by hash of (kind, params, strings, ops)",
    partial=["kinds without an exact Lean model are compared with the specification only (CSD/Spec.lean)"],
    explanation="refinement of the kind's model to Spec.locate/Spec.extract; the harness compares every answer of the real code with it",
    assumptions=["the input contract validDict (sorted, duplicate-free, bytes 0x02..0xFE)"])


# --------------------------------------------------------------------------- C02..C16 dictionary-level streams
def c02_ops(kind, pv, S, r):
    qs = gen.queries_members_and_neighbours(r, S, 24)
    op = "loc" if kind in EXACT_ID_KINDS else "rt"
    ops = [[op, hx(q)] for q in qs]
    ops += [["ext", i] for i in gen.bad_ids(len(S))]
    return ops


def c03_ops(kind, pv, S, r):
    n = len(S)
    ids = list(range(1, n + 1))
    if n > 48:
        ids = sorted(set(r.sample(ids, 46) + [1, n]))
    ops = [["ext", i] for i in ids]
    ops += [["loc", hx(S[i - 1])] for i in ids[:24]]
    ks = ids[:16] + [n]
    ops += [["lrk", k] for k in ks] + [["xrk", k] for k in ks]
    return ops


def c04_ops(kind, pv, S, r):
    ps = gen.prefixes_of(r, S, 28)
    ops = []
    for p in ps:
        ops.append(["pre", hx(p)])
        if r.chance(1, 2):
            ops.append(["xpre", hx(p)])
    return ops


def c05_ops(kind, pv, S, r):
    if kind == "FMINDEX" and int(pv.get("bwt", 4)) == 0:
        return []
    ps = gen.substrings_of(r, S, 28)
    ops = []
    for p in ps:
        ops.append(["sub", hx(p)])
        if r.chance(1, 2):
            ops.append(["xsub", hx(p)])
    return ops


def all_query_ops(kind, pv, S, r, cap=10):
    """A mixed battery of every query the kind supports (for C06/C08/C12/C14)."""
    ops = [["meta"]]
    qs = gen.queries_members_and_neighbours(r, S, cap)
    op = "loc" if kind in EXACT_ID_KINDS else "rt"
    ops += [[op, hx(q)] for q in qs[: 2 * cap]]
    n = len(S)
    ids = [1, n, (n + 1) // 2, 0, n + 1]
    ops += [["ext", i] for i in ids if kind in EXACT_ID_KINDS or i == 0 or i > n]
    ops.append(["exts"])
    if kind in PREFIX_KINDS:
        for p in gen.prefixes_of(r, S, cap)[:cap]:
            ops.append(["pre", hx(p)])
            ops.append(["xpre", hx(p)])
    if kind in SUBSTR_KINDS and not (kind == "FMINDEX" and int(pv.get("bwt", 4)) == 0):
        for p in gen.substrings_of(r, S, cap)[:cap]:
            ops.append(["sub", hx(p)])
            ops.append(["xsub", hx(p)])
    if kind in ORDERED_KINDS:
        ops += [["lrk", 1], ["xrk", 1], ["xrk", n]]
    if kind != "XBW":
        ops += [["tabs"], ["tabx"]]
    if kind in ORDERED_KINDS:
        ops.append(["tab"])
    return ops


def c06_ops(kind, pv, S, r):
    return all_query_ops(kind, pv, S, r)


def c06_streams(tier, rng):
    cases = kind_cases(tier, rng, ALL_KINDS, c06_ops, phases=("loaded", "generic", "loaded2"))
    # the decoding subtrees (codewords longer than the table chunk) are part of the image too
    S, rare, probe = longcw_dict(tier, rng)
    lc = []
    for kind in ("HTFC", "HHTFC", "RPHTFC", "HASHHF", "HASHUFFDAC"):
        op = "loc" if kind in EXACT_ID_KINDS else "rt"
        qs = [[op, hx(x)] for x in probe]
        for how in (["reload", "own", 1], ["reload", "generic"]):
            lc.append(("pl_%s_%s" % (kind, how[1]), "dict", kind, {"b": 8, "ov": 25}, S, [how] + qs + [["exts"], how] + qs))
    # images are self-delimiting: the `reload` op appends a trailer and checks tellg
    return [StreamSet("persist", "asan", cases), StreamSet("longcodes", "asan", lc, timeout=120),
            StreamSet("scale", "asan", scale_cases(tier, rng, scale_ops_persist, phases=("loaded", "generic")), timeout=600),
            StreamSet("reload-every-size", "asan", sweep_cases(tier, rng), timeout=900),
            StreamSet("rpdac-image", "asan", [c for c in rpdac_cases(tier, rng, 30 if tier == "thorough" else 10) if c[2] in ("RPDAC", "HASHRPDAC")],
                      phase2=rpdac_phase2, timeout=60),
            StreamSet("rpfc-layer", "asan", rpfc_cases(tier, rng, 24 if tier == "thorough" else 6), phase2=rpfc_phase2, timeout=90),
            StreamSet("blocks-image", "asan", blkimg_cases(tier, rng, 30 if tier == "thorough" else 10), phase2=blkimg_phase2, timeout=90)]


def c08_ops(kind, pv, S, r):
    q = all_query_ops(kind, pv, S, r, cap=4)
    return [["save2"]] + q[:12] + [["save2"], ["resave", 1], ["save"]] + q[:12] + [["save2"]]


def c08_streams(tier, rng):
    main = kind_cases(tier, rng, ALL_KINDS, c08_ops)
    # K5: objects loaded with hash representation 2/3 cannot be saved (recorded finding)
    k5 = []
    for kind in ("HASHHF", "HASHRPF"):
        for lopt in (2, 3):
            S = gen.us_states()[:9]
            k5.append(("k5_%s_%d" % (kind, lopt), "dict", kind, {"ov": 25}, S, [["reload", "own", lopt], ["rt", hx(S[0])], ["save2"]]))
            k5.append(("k5r_%s_%d" % (kind, lopt), "dict", kind, {"ov": 25}, S, [["resave", lopt]]))
    # the image must not depend on what the heap contained: the same builds over a differently filled heap
    # (ASan's malloc_fill_byte) must print the same image lengths and hashes
    refill = dict(ASAN_OPTIONS="detect_leaks=0:abort_on_error=0:allocator_may_return_null=1:malloc_fill_byte=85:max_malloc_fill_size=1073741824:detect_stack_use_after_return=0")
    sweep = []
    rs = rng.fork("c08sweep")
    for L in range(40, 104):
        body = sorted(set(bytes(rs.choice(gen.ALPHABETS[26]) for _ in range(rs.range(3, 7))) for _ in range(5)))
        pad = L - sum(len(x) + 1 for x in body) - 1
        if pad < 1:
            continue
        S = sorted(set(body + [bytes([0x7a]) * pad]))
        for kind, pv in (("FMINDEX", {"rrr": 0, "bs": 4, "bwt": 4}), ("FMINDEX", {"rrr": 1, "bs": 5, "bwt": 3}), ("XBW", {}), ("HASHHF", {"ov": 25}),
                         ("HASHRPDAC", {"ov": 25, "hs": int(len(S) * 1.25)}), ("HASHUFFDAC", {"ov": 25}), ("RPDAC", {}), ("HTFC", {"b": 3}), ("RPFC", {"b": 3})):
            sweep.append(("c8s%d_%s_%s" % (L, kind, pv.get("rrr", "")), "dict", kind, pv, S, [["save"], ["resave", 1], ["save2"]]))
    # decoding subtrees (codewords longer than the table chunk) are saved too
    LS, rare, probe = longcw_dict(tier, rng)
    lc = [("c8l_%s" % kind, "dict", kind, {"b": 8, "ov": 25}, LS, [["save2"], ["rt", hx(rare[0])], ["save2"], ["resave", 1], ["save"]])
          for kind in ("HTFC", "HHTFC", "RPHTFC", "HASHHF", "HASHUFFDAC")]
    return [StreamSet("saves", "asan", main), StreamSet("k5", "asan", k5), StreamSet("longcodes", "asan", lc, timeout=120),
            StreamSet("sizes", "asan", sweep), StreamSet("sizes-refilled", "asan", sweep, env=refill, cross_with="sizes"),
            StreamSet("saves-refilled", "asan", main, env=refill, cross_with="saves"),
            StreamSet("scale", "asan", scale_cases(tier, rng, scale_ops_resave, phases=("built",)), timeout=600)]


def c13_ops(kind, pv, S, r):
    if kind == "XBW":
        return [["tab"]]
    ops = [["tabx"], ["tabs"], ["meta"]]
    if kind in ORDERED_KINDS:
        ops.append(["tab"])
    if kind in PREFIX_KINDS:
        for p in gen.prefixes_of(r, S, 10)[:10]:
            ops += [["xpre", hx(p)], ["pre", hx(p)]]
    if kind in SUBSTR_KINDS:
        for p in gen.substrings_of(r, S, 6)[:6]:
            ops += [["xsub", hx(p)], ["sub", hx(p)]]
    return ops


def c15_ops(kind, pv, S, r):
    return [["meta"], ["exts"]]


def c16_ops(kind, pv, S, r):
    ops = []
    pats = gen.prefixes_of(r, S, 4)[:4] + gen.queries_members_and_neighbours(r, S, 3)[:4]
    if kind in HASH_KINDS:
        for p in pats:
            ops += [["pre", hx(p)], ["xpre", hx(p)], ["sub", hx(p)], ["xsub", hx(p)]]
        ops += [["lrk", 1], ["xrk", 1], ["lrk", len(S)], ["xrk", 0]]
    elif kind in FC_KINDS + ["RPDAC"] or (kind == "FMINDEX" and int(pv.get("bwt", 4)) == 0):
        for p in pats:
            ops += [["sub", hx(p)], ["xsub", hx(p)]]
    elif kind == "XBW":
        ops += [["tab"]]
    else:
        return []
    # the dictionary stays fully usable
    op = "loc" if kind in EXACT_ID_KINDS else "rt"
    ops += [[op, hx(s)] for s in S[:6]] + [["exts"]]
    # a kind's loader refuses another kind's image
    others = [k for k in ALL_KINDS if k != kind]
    ops += [["foreign", k] for k in r.sample(others, 4)]
    # the generic loader refuses every tag that names no kind, whatever the image body: tags whose low byte
    # (or low 16 bits) is the tag of a real kind, zero, and large values
    low = r.choice([3, 4, 5, 11, 12, 114, 124, 125, 211, 214, 221, 222, 223])     # the tags of the thirteen kinds
    ops += [["badtag", t] for t in (0, 256 + low, 512 + low, 65536 + low, 0x01000000 + low, 0xFFFFFF00 + low, 0xFFFFFFFF, 1000 + r.range(0, 5000) * 256 + low)]
    # loaders that take a load option must refuse foreign images whatever the option
    for k in ("HASHHF", "HASHRPF"):
        if k != kind:
            ops.append(["foreign", k, r.choice([2, 3])])
    return ops


def simple_dict_prop(ops_fn, kinds, name, phases=("built", "loaded"), many=False, scale=None, scale_phases=("built", "loaded")):
    def f(tier, rng):
        out = [StreamSet(name, "asan", kind_cases(tier, rng, kinds, ops_fn, phases=phases, many=many))]
        if scale is not None:
            out.append(StreamSet("scale", "asan", scale_cases(tier, rng, globals()[scale], kinds=kinds, phases=scale_phases), timeout=600))
        return out
    return f


_PART = ["kinds without an exact Lean model are compared with the specification only (CSD/Spec.lean)"]
_RULE = ("battery (G1 small-scope subsets over {a,b}, G2 structured random with deep lcp chains, G3 proof-directed boundaries) × kinds × "
         "parameter vectors × {built, reloaded}; %s; non-trivial = at least 2 strings; distinct by hash of (kind, params, strings, ops)")
_ASSUME = ["the input contract validDict (sorted, duplicate-free, bytes 0x02..0xFE)"]

def c02_streams(tier, rng):
    base = simple_dict_prop(c02_ops, ALL_KINDS, "absent", scale="scale_ops_absent")(tier, rng)
    # queries made of bytes with the longest codewords (rare or foreign to a large skewed dictionary): the
    # encoded query is longer than two bytes per symbol
    S, rare, probe = longcw_dict(tier, rng)
    r = rng.fork("c02long")
    foreign = [bytes(r.range(0x80, 0xFE) for _ in range(L)) for L in (9, 10, 16, 40, 150, 400)]
    foreign += [bytes(r.choice([0xD0, 0xD1, 0xE0, 0xE3, 0xE5, 0xFE, 0x02]) for _ in range(L)) for L in (12, 60, 200)]
    foreign += [probe[0] + bytes([0xF0] * 30), bytes([0x61]) * 300]
    lc = []
    for kind in ("HTFC", "HHTFC", "RPHTFC", "HASHHF", "HASHUFFDAC"):
        op = "loc" if kind in EXACT_ID_KINDS else "rt"
        for pv in ({"b": 8, "ov": 25}, {"b": 64, "ov": 0}):
            for ph, pre in (("b", []), ("l", [["reload", "own", 1]])):
                ops = pre + [[op, hx(q)] for q in foreign] + [[op, hx(x)] for x in probe[:6]]
                if kind in PREFIX_KINDS:
                    ops += [["pre", hx(q[:20])] for q in foreign[:5]]
                lc.append(("c2l_%s_%d_%s" % (kind, pv["b"], ph), "dict", kind, pv, S, ops))
    return base + [StreamSet("longcodes", "asan", lc, timeout=120),
                   StreamSet("huffman-keys", "asan", hhf_cases(tier, rng, 20 if tier == "thorough" else 8), phase2=hhf_phase2, timeout=60),
                   StreamSet("fm-layer", "asan", fm_cases(tier, rng, 24 if tier == "thorough" else 6), phase2=fm_phase2, timeout=90),
                   StreamSet("rpfc-layer", "asan", rpfc_cases(tier, rng, 24 if tier == "thorough" else 6), phase2=rpfc_phase2, timeout=90)]


PROPS["C02"] = PropSpec(c02_streams,
                        _RULE % "queries: members, proper prefixes, one-byte extensions, ±1 on the last byte, below first / above last, bytes absent from the dictionary; IDs 0, n+1, 2^32±1, 2^64−1",
                        _PART, "the refinement theorems read at non-members; ASan monitors the reads of the real code", _ASSUME)
def c03_streams(tier, rng):
    main = kind_cases(tier, rng, ORDERED_KINDS, c03_ops, name="d")
    # XBW answers rank queries although its IDs are co-lexicographic (recorded finding K6)
    k6 = kind_cases(tier, rng, ["XBW"], lambda k, pv, S, r: [["lrk", 1], ["xrk", 1], ["lrk", len(S)], ["xrk", len(S)], ["xrk", (len(S) + 1) // 2]],
                    battery=small_battery(tier, rng, 6), name="x")
    # codewords longer than the 16-bit chunk of the decoding table (rare bytes of a large skewed dictionary),
    # in bucket headers and inside buckets
    LS, rare, probe = longcw_dict(tier, rng)
    idx = {x: i + 1 for i, x in enumerate(LS)}
    lc = []
    for kind in ("HTFC", "HHTFC", "RPHTFC"):
        for b in (2, 3, 16):
            ops = []
            for x in rare + probe[:8]:
                i = idx[x]
                ops += [["ext", i], ["loc", hx(x)], ["xrk", i]] + ([["ext", i - 1], ["ext", i + 1]] if 1 < i < len(LS) else [])
            for ph, pre in (("b", []), ("l", [["reload", "own", 1]])):
                lc.append(("c3l_%s_%d_%s" % (kind, b, ph), "dict", kind, {"b": b}, LS, pre + ops))
    return [StreamSet("order", "asan", main), StreamSet("xbwrank", "asan", k6), StreamSet("longcodes", "asan", lc, timeout=120),
            StreamSet("rpdac-layer", "asan", rpdac_cases(tier, rng, 30 if tier == "thorough" else 10), phase2=rpdac_phase2, timeout=60),
            StreamSet("fm-layer", "asan", fm_cases(tier, rng, 24 if tier == "thorough" else 6), phase2=fm_phase2, timeout=90),
            StreamSet("rpfc-layer", "asan", rpfc_cases(tier, rng, 24 if tier == "thorough" else 6), phase2=rpfc_phase2, timeout=90)]


PROPS["C03"] = PropSpec(c03_streams,
                        _RULE % "extract(i) for IDs, locate of members, locateRank/extractRank for ranks",
                        _PART, "IDs of order-preserving kinds are lexicographic ranks (corollary of the refinement theorems)", _ASSUME)
def c04_streams(tier, rng):
    base = simple_dict_prop(c04_ops, PREFIX_KINDS, "prefix", phases=("built", "loaded", "loaded2"), scale="scale_ops_prefix")(tier, rng)
    return base + [StreamSet("fm-layer", "asan", fm_cases(tier, rng, 24 if tier == "thorough" else 6), phase2=fm_phase2, timeout=90),
                   StreamSet("rpfc-layer", "asan", rpfc_cases(tier, rng, 24 if tier == "thorough" else 6), phase2=rpfc_phase2, timeout=90)]


PROPS["C04"] = PropSpec(c04_streams,
                        _RULE % "patterns: prefixes of members, one-byte extensions, members, longer than every member, below/above all members",
                        _PART, "prefix search equals the contiguous specification range", _ASSUME)
def c05_streams(tier, rng):
    base = simple_dict_prop(c05_ops, SUBSTR_KINDS, "substr", phases=("built", "loaded", "loaded2"))(tier, rng)
    return base + [StreamSet("fm-layer", "asan", fm_cases(tier, rng, 30 if tier == "thorough" else 8), phase2=fm_phase2, timeout=90),
                   StreamSet("scale", "asan", scale_cases(tier, rng, scale_ops_substr, kinds=SUBSTR_KINDS), timeout=900)]


PROPS["C05"] = PropSpec(c05_streams,
                        _RULE % "patterns: substrings of length 1..3 of members, whole members, straddling two members, absent bytes",
                        ["suffix sorting (FMIndex/SuffixArray.cpp) and the wavelet tree under the BWT are not modelled: the theorems hold for every suffix array of the text, and the BWT / occ / alphabet / samples "
                         "exported by the real index are compared with the model's build on every run (fm-layer)",
                         "XBW navigation is not modelled: correspondence with the specification only"],
                        "FMINDEX locateSubstr is proved equal to Spec.substrIds (backward search = block of rows, LF walk of every row to its member, sort + duplicate-skipping iterator); "
                        "the models of locate_id / locateP / locate / extract_id are run on the exported index of every fm-layer case", _ASSUME)
PROPS["C06"] = PropSpec(c06_streams,
                        _RULE % "every query of C01–C05/C13/C15 on objects reloaded through the kind's own loader and through the generic loader, with a trailer after the image (tellg must stop at the image end)",
                        _PART, "field-sequence theorems over generated fragments + byte-level serialisers of the exact models", _ASSUME)
PROPS["C08"] = PropSpec(c08_streams,
                        _RULE % "save twice, queries, save twice, save→load→save byte comparison, queries again",
                        _PART, "save is a function of the model state; re-save equality for the exact models", _ASSUME)
def c13_streams(tier, rng):
    base = simple_dict_prop(c13_ops, ALL_KINDS, "iters")(tier, rng)
    # complete small universes (every string up to a length over a tiny alphabet) under EVERY bucket size:
    # one-symbol strings become bucket headers, very short strings follow long ones, buckets end anywhere
    dense = []
    import itertools
    for alpha, maxlen in (((0x61, 0x62, 0x63), 4), ((0x61, 0x62), 5), ((0x61, 0x62, 0x63, 0x64), 3)):
        U = sorted(bytes(t) for L in range(1, maxlen + 1) for t in itertools.product(alpha, repeat=L))
        for kind in FC_KINDS:
            for b in range(2, (42 if tier == "thorough" else 42)):
                ops = [["tabx"], ["tabs"], ["tab"], ["reload", "own", 1], ["tabs"], ["tab"]]
                dense.append(("dn%d_%d_%s_b%d" % (len(alpha), maxlen, kind, b), "dict", kind, {"b": b}, U, ops))
    return base + [StreamSet("dense", "asan", dense),
                   StreamSet("fm-layer", "asan", fm_cases(tier, rng, 24 if tier == "thorough" else 6), phase2=fm_phase2, timeout=90),
                   StreamSet("rpfc-layer", "asan", rpfc_cases(tier, rng, 24 if tier == "thorough" else 6), phase2=rpfc_phase2, timeout=90),
                   StreamSet("scale", "asan", scale_cases(tier, rng, scale_ops_table), timeout=600)]


PROPS["C13"] = PropSpec(c13_streams,
                        _RULE % "extractTable vs extract(k), sorted table, string/ID iterators of prefix and substring searches, NUL termination and reported lengths",
                        _PART, "iterator state machines drain to the specification lists", _ASSUME)
PROPS["C15"] = PropSpec(simple_dict_prop(c15_ops, ALL_KINDS, "meta", phases=("built", "loaded", "loaded2"), scale="scale_ops_meta", scale_phases=("built", "loaded", "generic")),
                        _RULE % "numElements and maxLength on built and reloaded objects",
                        _PART, "counter folds of the constructor models", _ASSUME)
PROPS["C16"] = PropSpec(simple_dict_prop(c16_ops, ALL_KINDS, "failsafe"),
                        _RULE % "every unsupported operation of the kind with well-formed arguments, then ordinary queries on the same object; four foreign loaders per image; "
                                "the image with its type tag overwritten by eight values that name no kind (0, values whose low byte or low 16 bits are a real tag, 2^32-1) through the generic loader",
                        _PART, "dispatch / loader-guard / stub theorems over generated fragments", _ASSUME)


# --------------------------------------------------------------------------- C12 / C14 / C07
def small_battery(tier, rng, k):
    b = dict_battery(tier, rng)
    keep = [x for x in b if x[0].startswith("g3")]
    rest = [x for x in b if not x[0].startswith("g3")]
    return keep + rng.fork("small").sample(rest, min(k, len(rest)))


def c12_ops(kind, pv, S, r):
    # the same queries for every parameter vector of a dictionary: the rng is re-seeded per dictionary
    r2 = gen.Rng(len(S) * 7919 + sum(S[0]))
    return all_query_ops(kind, pv, S, r2, cap=8)


def c12_streams(tier, rng):
    thorough = tier == "thorough"
    bat = small_battery(tier, rng, 60 if thorough else 14)
    cases = kind_cases(tier, rng, ALL_KINDS, c12_ops, phases=("built", "loaded"), many=True, battery=bat, name="p")
    # bucket sizes below 2 are clamped to 2
    clamp = []
    for dname, S in bat[:10]:
        for kind in FC_KINDS:
            for b in (0, 1):
                clamp.append(("clamp_%s_%s_b%d" % (dname, kind, b), "dict", kind, {"b": b}, S,
                              c12_ops(kind, {"b": b}, S, rng)))
    # tables of thousands of slots under every overhead and every load representation (rank/select
    # super-blocks, sampling boundaries), bucket sizes up to the whole dictionary
    D = scale_dicts(tier, rng)
    S = D["mid6k"]
    r = rng.fork("c12scale")
    members = scale_members(S, r, 250)
    big = []
    for kind in ("HASHHF", "HASHRPF", "HASHUFFDAC", "HASHRPDAC"):
        for ov in (0, 10, 25, 100, 300):
            for lopt in ((0, 1, 2, 3) if kind in ("HASHHF", "HASHRPF") else (0, 1)):
                pre = [["reload", "own", lopt]] if lopt else []
                big.append(("sp_%s_%d_%d" % (kind, ov, lopt), "dict", kind, {"ov": ov, "scale": 1}, S,
                            pre + [["rt", hx(x)] for x in members] + [["tabh"], ["meta"]]))
    for kind in FC_KINDS:
        for b in (2, 7, 64, 1000, 5999, 6000, 20000):
            big.append(("sp_%s_b%d" % (kind, b), "dict", kind, {"b": b, "scale": 1}, S,
                        [["rt", hx(x)] for x in members[:80]] + [["ext", i] for i in (1, 2, len(S) - 1, len(S))] + [["tabh"]]))
    return [StreamSet("params", "asan", cases), StreamSet("clamp", "asan", clamp), StreamSet("scale", "asan", big, timeout=600)]


def history_ops(kind, pv, S, r, length):
    pool = all_query_ops(kind, pv, S, r, cap=8)
    pool = [o for o in pool if o[0] not in ("tabx",)]
    # failed lookups and unsupported operations are part of every history
    pool += [["loc" if kind in EXACT_ID_KINDS else "rt", hx(S[0] + b"\x02")], ["ext", 0], ["sub", hx(S[0][:1])], ["pre", hx(S[-1][:1])],
             ["lrk", 1], ["xrk", len(S) + 1], ["save2"]]
    ops = []
    openit = []
    cnt = 0
    pats = gen.prefixes_of(r, S, 6)[:6]
    subs = gen.substrings_of(r, S, 4)[:4]
    while len(ops) < length:
        c = r.below(10)
        if kind == "XBW":
            c = 0   # XBW's iteration order is unspecified: its iterators are drained whole by pre/sub/xpre/xsub
        if c < 5:
            ops.append(list(r.choice(pool)))
        elif c < 7 and len(openit) < 4:
            name = "i%d" % cnt
            cnt += 1
            what = r.choice(["pre", "xpre", "tab"] + (["sub", "xsub"] if kind in SUBSTR_KINDS else []))
            if what == "tab" and kind not in ORDERED_KINDS:
                what = "pre"
            pat = r.choice(subs if what in ("sub", "xsub") else pats)
            ops.append(["iopen", name, what, hx(pat)])
            openit.append(name)
        elif c < 9 and openit:
            ops.append(["inext", r.choice(openit), r.range(1, 3)])
        elif openit:
            name = r.choice(openit)
            openit.remove(name)
            ops.append(["iclose", name])
    for name in openit:
        ops.append(["inext", name, 100000])
        ops.append(["iclose", name])
    # look-alike queries one after the other (same length, long common prefix): an answer must not be the
    # previous one's
    if kind in SUBSTR_KINDS and not (kind == "FMINDEX" and int(pv.get("bwt", 4)) == 0):
        for x in gen.substrings_of(r, S, 2)[-8:]:
            if len(x) > 33:
                ops += [["sub", hx(x)], ["xsub", hx(x)]]
    if kind in PREFIX_KINDS:
        for x in gen.fence_patterns(S, 4)[:8]:
            if len(x) > 33:
                ops += [["pre", hx(x)], ["xpre", hx(x)]]
    return ops


def c14_streams(tier, rng):
    thorough = tier == "thorough"
    bat = small_battery(tier, rng, 50 if thorough else 12)
    L = 200 if thorough else 50

    def fn(kind, pv, S, r):
        return history_ops(kind, pv, S, r, L)
    cases = kind_cases(tier, rng, ALL_KINDS, fn, battery=bat, name="h")
    # the same history replayed in a different order must give the same per-op answers:
    # both orders are compared with the (history-free) model, so agreement is implied
    cases2 = []
    for c in cases[:: 3]:
        ops = list(c[5])
        head = [o for o in ops if o[0] == "reload"]
        body = [o for o in ops if o[0] not in ("reload", "iopen", "inext", "iclose")]
        rng.fork(c[0]).shuffle(body)
        cases2.append((c[0] + "_perm", c[1], c[2], c[3], c[4], head + body))
    # decoding a codeword longer than the table chunk walks a subtree stored in the dictionary: the same
    # queries repeated and reversed must keep their answers
    S, rare, probe = longcw_dict(tier, rng)
    lc = []
    for kind in ("HTFC", "HHTFC", "RPHTFC", "HASHHF", "HASHUFFDAC"):
        pv = {"b": 8, "ov": 25}
        op = "loc" if kind in EXACT_ID_KINDS else "rt"
        qs = [[op, hx(x)] for x in probe]
        lc.append(("hl_%s" % kind, "dict", kind, pv, S, qs + qs + list(reversed(qs)) + [["exts"]] + qs))
    return [StreamSet("histories", "asan", cases), StreamSet("reordered", "asan", cases2), StreamSet("longcodes", "asan", lc, timeout=120),
            StreamSet("scale", "asan", scale_cases(tier, rng, scale_ops_history, kinds=["RPDAC", "RPFC", "RPHTFC", "HASHRPF", "HASHRPDAC", "BLOCKS", "HTFC"], phases=("built",)), timeout=600)]


def c07_streams(tier, rng):
    thorough = tier == "thorough"
    bat = small_battery(tier, rng, 40 if thorough else 10)
    # long strings and many strings: every internal buffer is reallocated
    r = rng.fork("c07")
    bat.append(("long2000", sorted(set(bytes(r.choice(gen.ALPHABETS[26]) for _ in range(r.range(1500, 2500))) for _ in range(5)))))
    bat.append(("many", gen.g2_dict(r, 3000 if thorough else 1200, 26, "mixed")))

    def fn(kind, pv, S, r):
        if len(S) > 500:
            return all_query_ops(kind, pv, S, r, cap=6) + [["save2"], ["resave", 1]]
        return history_ops(kind, pv, S, r, 40) + [["save2"], ["resave", 1]]
    out = [StreamSet("lifecycle", "asan", kind_cases(tier, rng, ALL_KINDS, fn, battery=bat, name="m"), timeout=60)]
    # size sweep: bit arrays are allocated in 32/64-bit words, so defects sit at sizes that are 0, -1 or -3
    # modulo the word size; one small dictionary for every residue of its total byte size (sum of len+1) mod 64
    sweep = []
    rs = rng.fork("sweep")
    for L in range(40, 104):
        body = sorted(set(bytes(rs.choice(gen.ALPHABETS[26]) for _ in range(rs.range(3, 7))) for _ in range(5)))
        used = sum(len(x) + 1 for x in body)
        pad = L - used - 1
        if pad < 1:
            continue
        S = sorted(set(body + [bytes([0x7a]) * pad]))
        if sum(len(x) + 1 for x in S) != L:
            continue
        for kind, pv in (("FMINDEX", {"rrr": 0, "bs": 4, "bwt": 2}), ("FMINDEX", {"rrr": 1, "bs": 5, "bwt": 3}), ("XBW", {}),
                         ("HASHHF", {"ov": 25}), ("HASHRPDAC", {"ov": 25, "hs": int(len(S) * 1.25)}), ("RPDAC", {}), ("HTFC", {"b": 3}),
                         ("RPFC", {"b": 3}), ("PFC", {"b": 3})):
            qs = [["loc" if kind in EXACT_ID_KINDS else "rt", hx(x)] for x in S]
            ops = qs + [["exts"], ["reload", "own", 1]] + qs + [["exts"], ["resave", 1]]
            if kind in SUBSTR_KINDS:
                ops.insert(len(qs), ["sub", hx(S[0][:2])])
            sweep.append(("sw%d_%s_%s" % (L, kind, pv.get("rrr", "")), "dict", kind, pv, S, ops))
    out.append(StreamSet("sizesweep", "asan", sweep, timeout=60))
    # growth paths: MEMALLOC overridden through the hook so that every doubling is taken with small inputs
    growk = FC_KINDS + ["HASHHF"]
    # large buckets of poorly compressible strings: many Re-Pair / Huffman symbols per bucket relative to maxlength
    dense = [("dense400", gen.g2_dict(r, 400, 26, "mid")), ("dense253", gen.g2_dict(r, 300, 253, "mid"))]
    for mem in ((1, 2, 7, 64) if thorough else (1, 7)):
        gb = [x for x in bat if x[0] not in ("many",)]
        cs = kind_cases(tier, rng.fork("mem%d" % mem), growk, lambda k, pv, S, r: all_query_ops(k, pv, S, r, cap=4),
                        phases=("built",), battery=gb, name="g%d" % mem)
        for dname, S in dense:
            for kind in FC_KINDS:
                for b in (16, 32, 64, 128, len(S)):
                    cs.append(("gd%d_%s_%s_b%d" % (mem, dname, kind, b), "dict", kind, {"b": b}, S,
                               all_query_ops(kind, {"b": b}, S, rng.fork(dname + kind), cap=6) + [["tabx"], ["resave", 1]]))
        out.append(StreamSet("memalloc%d" % mem, "asan", cs, extra_defs=("-DLIBCSD_VERIF_MEMALLOC=%d" % mem,), tag="_mem%d" % mem, timeout=60))
    out.append(StreamSet("scale", "asan", scale_cases(tier, rng, scale_ops_persist, phases=("built",)), timeout=600))
    return out


PROPS["C12"] = PropSpec(c12_streams,
                        _RULE % "every legal parameter vector of each kind (bucket sizes 2..n+1, overheads 0..100, FM bitmap kind × sampling × BWT step, cut × threads, load option 1..3) on the same dictionary and the same queries; bucket sizes 0 and 1",
                        _PART, "answers equal the parameter-free specification for every parameter vector, hence equal each other", _ASSUME)
PROPS["C14"] = PropSpec(c14_streams,
                        _RULE % "random call histories (queries, failed lookups, unsupported operations, save, up to 4 interleaved open iterators), and the same queries in a shuffled order; the pattern buffer is checked after every call",
                        _PART + ["immutability of the C++ objects is observed, not proved"],
                        "the model answers each call from the dictionary alone (history-free); the pattern-buffer discipline of RePair is modelled", _ASSUME)
PROPS["C07"] = PropSpec(c07_streams,
                        _RULE % "life-cycle histories build → queries → save → load → queries → destroy under ASan+UBSan; 1200+ strings; 2000-byte strings; FC kinds rebuilt with MEMALLOC 1/7 (thorough: 1/2/7/64)",
                        ["memory safety of the C++ runtime is monitored by sanitizers on the runs, the theorems cover the index arithmetic of the modelled buffers only"],
                        "index-bounds theorems for the modelled buffers; sanitizers monitor every correspondence run", _ASSUME)


# --------------------------------------------------------------------------- C09 / C10 / C11 (parallel build, worker pool)
def pool_cases(tier, rng, name):
    thorough = tier == "thorough"
    r = rng.fork("pool" + name)
    cases = []
    cid = 0
    Ns = [1, 2, 3, 8] if thorough else [1, 2, 3, 8]
    Ts = [0, 1, 2, 3, 9, 50] if thorough else [0, 1, 2, 4, 20]
    reps = 12 if thorough else 3
    for N in Ns:
        for T in Ts:
            for mode in ("stoplast", "waitdone", "stopnow"):
                for strat in (0, 1, 2, 3, 4, 5):
                    ops = [["pool", N, T, mode, strat, r.below(1 << 30)] for _ in range(reps)]
                    cases.append(("%s%d" % (name, cid), "pool", "-", {"n": N, "t": T}, [], ops))
                    cid += 1
    return cases


def blocks_cases(tier, rng, name, per_dict=2, big_inputs=True, tiny_cuts_on_large=True):
    thorough = tier == "thorough"
    r = rng.fork("blocks" + name)
    bat = small_battery(tier, rng, 30 if thorough else 8)
    bat = [x for x in bat if len(x[1]) >= 2]
    bat.append(("many", gen.g2_dict(r, 1500 if thorough else 400, 26, "mixed")))
    # keys whose length drifts slowly: consecutive blocks of a byte-based cut hold close but different
    # numbers of strings (their hash tables are sized independently)
    nd = 9000 if thorough else 5000
    al = gen.ALPHABETS[26]
    drift = []
    for i in range(nd):
        head = [al[(i // 676) % 26], al[(i // 26) % 26], al[i % 26]]     # increasing: sorted order = i order
        tail = [r.choice(al) for _ in range(4 + (1 if r.range(0, nd - 1) < i else 0))]
        drift.append(bytes(head + tail))
    drift = sorted(set(drift))
    bat.append(("drift", drift))
    cases = []
    # several MiB of strings: the share of a worker exceeds 1 MiB; default and explicit cut sizes
    big = sorted(set(bytes(r.choice(al) for _ in range(r.range(30, 80))) for _ in range(60000 if thorough else 42000)))
    btotal = sum(len(s) + 1 for s in big)
    for cut in (((1 << 27, 2 << 20, btotal // 3) if thorough else (1 << 27,)) if big_inputs else ()):
        ops = [["blocksdet", 0, r.below(1 << 30)] + ([2, 3] if thorough else [2]), ["rt", hx(big[0])], ["rt", hx(big[-1])], ["rt", hx(big[len(big) // 2])]]
        cases.append(("%s_big_cut%d" % (name, cut), "dict", "BLOCKS", {"ov": 10, "cut": cut, "thr": 2, "scale": 1}, big, ops))
    for dname, S in bat:
        total = sum(len(s) + 1 for s in S)
        cuts = [1, 8, 64, max(1, total // 2), total, total + 10]
        if len(S) >= 300:
            cuts += [max(1, total // 6), max(1, total // 11)]
        for cut in sorted(set(cuts)):
            if not tiny_cuts_on_large and len(S) >= 2000 and cut < 64:
                continue      # thousands of one-string blocks under TSan take minutes; the 400-string dictionary covers tiny cuts
            ops = []
            for k in range(per_dict):
                strat = r.choice([0, 1, 3, 4, 5])
                ops.append(["blocksdet", strat, r.below(1 << 30), 2, 3, r.choice([8, 16])])
            ops += [["loc", hx(s)] for s in (S[:6] + S[-3:])] + [["exts"]]
            cases.append(("%s_%s_cut%d" % (name, dname, cut), "dict", "BLOCKS", {"ov": r.choice([0, 25]), "cut": cut, "thr": r.choice([2, 4])}, S, ops))
    return cases


def c10_streams(tier, rng):
    return [StreamSet("pool", "asan", pool_cases(tier, rng, "pl"), timeout=8)]


def c09_streams(tier, rng):
    return [StreamSet("blocksdet", "asan", blocks_cases(tier, rng, "bd"), timeout=400),
            StreamSet("blocks-image", "asan", blkimg_cases(tier, rng, 30 if tier == "thorough" else 10), phase2=blkimg_phase2, timeout=90)]


def c11_streams(tier, rng):
    env = {"TSAN_OPTIONS": "halt_on_error=0:report_signal_unsafe=0:exitcode=0:second_deadlock_stack=1"}
    pc = [c for i, c in enumerate(pool_cases(tier, rng, "tp")) if i % 3 == 0]
    return [StreamSet("tsan-pool", "tsan", pc, timeout=30, env=env),
            StreamSet("tsan-blocks", "tsan", blocks_cases(tier, rng, "tb", per_dict=1, big_inputs=False, tiny_cuts_on_large=False), timeout=240, env=env)]


PROPS["C10"] = PropSpec(c10_streams,
                        "worker counts {1,2,3,8} × task counts {0,1,2,4,20} × shutdown pattern {last task stops, wait-then-stop, stop at once} × schedule perturbation strategy "
                        "{none, random delays, pause when the wait predicate is false, both, slow producer, slow workers} × seeds, on the real threads through the LIBCSD_VERIF_POINT hooks; "
                        "a hang is a timeout; non-trivial = at least 2 runs; distinct by (N, T, mode, strategy, seed)",
                        ["thread interleavings inside libstdc++'s condition_variable are represented by the two-step wait of the model, not executed exhaustively"],
                        "state-machine model of the pool with invariants (at most once, exactly once at termination, no stuck state) and a potential that bounds the length of every execution; the real pool is driven under perturbed schedules",
                        ["std::mutex / std::condition_variable behave as the C++17 standard says"])
PROPS["C09"] = PropSpec(c09_streams,
                        "BLOCKS dictionaries × cut sizes {1, 8, 64, total/2, total, > total} × thread counts {2,3,8|16} × perturbation strategies: image compared byte for byte with the single-thread image, "
                        "every block complete on return, answers compared with the specification",
                        ["HASHRPDAC part construction is compared with the specification, not modelled byte for byte"],
                        "schedule-independence of the parts vector and the image in the pool model; images across thread counts and perturbed schedules on the real code",
                        _ASSUME)
PROPS["C11"] = PropSpec(c11_streams,
                        "the C10 pool runs and the C09 block builds under ThreadSanitizer with perturbed schedules; every TSan report is a violation",
                        ["a lock-discipline theorem about a model cannot see an access the model does not have; TSan sees only the schedules run"],
                        "lock discipline of the pool model (every shared location is accessed under its lock or ordered by create/join); TSan on the real threads",
                        ["ThreadSanitizer's happens-before detection"])


# --------------------------------------------------------------------------- C18 / C19 / C20 component streams
def freq_vectors(tier, rng):
    """Frequency vectors over 256 symbols, all >= 1 (the dictionaries replace zeros by ones)."""
    r = rng.fork("freq")
    thorough = tier == "thorough"
    out = []
    out.append(("uniform", [1] * 256))
    out.append(("uniform7", [7] * 256))
    for ratio in (1.02, 1.05, 1.5, 3.0):
        # geometric growth, capped so that the total stays below 2^31 and the depth below 32
        cap = {1.02: 1e9, 1.05: 4e5, 1.5: 3e5, 3.0: 3e5}[ratio]
        v, x = [], 1.0
        for i in range(256):
            v.append(max(1, int(x)))
            x = min(x * ratio, cap)
        out.append(("geo%s" % ratio, v))
        out.append(("geo%srev" % ratio, list(reversed(v))))
    # Fibonacci prefixes: long codewords (depth 17..30 stays within the 32-bit codeword)
    for k in (17, 24, 30):
        fib = [1, 1]
        while len(fib) < k:
            fib.append(fib[-1] + fib[-2])
        v = [1] * 256
        pos = r.sample(range(256), k)
        for p_, f in zip(pos, fib):
            v[p_] = f
        out.append(("fib%d" % k, v))
    # powers of two: codewords of 26..31 bits (a 32-bit encoder shifts them across four output bytes)
    for k in (27, 29):
        v = [1] * 256
        for j, p_ in enumerate(r.sample(range(256), k)):
            v[p_] = 1 << (j + 1)
        out.append(("pow2_%d" % k, v))
    v = [1] * 256
    v[r.below(256)] = 10 ** 6
    out.append(("dominant", v))
    v = [1] * 256
    v[0] = 5000
    v[97] = 9000
    out.append(("text-like", v))
    # many small tied weights: tie-breaking of the Hu-Tucker combination phase decides realisability
    for i in range(60 if thorough else 16):
        hi = 3 if i % 2 == 0 else 8
        out.append(("ties%d_%d" % (hi, i), [1 + r.below(hi) for _ in range(256)]))
    v = [1] * 256
    v[250:255] = [3, 1, 3, 1, 4]
    out.append(("ties-tail", v))
    # what the dictionaries really count: byte frequencies of small front-coded texts (+1 everywhere)
    for i in range(30 if thorough else 8):
        S = gen.g2_dict(r, r.range(3, 40), r.choice([2, 4, 26]), r.choice(["short", "mid"]))
        v = [1] * 256
        for s_ in S:
            for b_ in s_:
                v[b_] += 1
            v[0] += 1
        out.append(("dict%d" % i, v))
    for i in range(40 if thorough else 10):
        mode = r.below(3)
        if mode == 0:
            v = [1 + r.below(1000) for _ in range(256)]
        elif mode == 1:
            v = [1 + (r.below(100000) if r.chance(1, 8) else 0) for _ in range(256)]
        else:
            v = [1 + (r.below(1 << r.range(1, 18))) for _ in range(256)]
        out.append(("rand%d" % i, v))
    return out


def codes_phase2(case, impl_lines):
    ops = []
    for l in impl_lines:
        t = l.split()
        if len(t) >= 4 and t[1] == "CT":
            ops.append(["ctchk", t[2], t[3]] + ([t[4]] if len(t) > 4 else []))
        elif not l.startswith("FAULT"):
            ops.append(["ctchk", "?", "-"])
    while len(ops) < len(case[5]):
        ops.append(["ctchk", "?", "-"])
    return ops


def longcw_dict(tier, rng):
    """Strings whose codewords exceed the 16-bit chunk of the decoding table. Every code starts with 256
    unit weights, so a byte that occurs once gets a codeword of more than 16 bits only in a text of
    well over 100 KB with a geometric letter distribution; the rare bytes are put at the start of a
    string (byte-aligned codeword) and inside one.  Returns (S, rare strings, strings to probe)."""
    r = rng.fork("longcw")
    letters = [0x61 + k for k in range(13)]

    def skewed(n):
        out = bytearray()
        for _ in range(n):
            k = 0
            while k < 12 and r.chance(1, 2):
                k += 1
            out.append(letters[k])
        return bytes(out)
    body = set()
    while len(body) < (900 if tier == "thorough" else 700):
        body.add(skewed(200))
    rare = [bytes([0xE0 + i]) + skewed(30) for i in range(6)] + [skewed(17) + bytes([0xD0 + i]) + skewed(9) for i in range(4)]
    S = sorted(body | set(rare))
    probe = rare + r.sample(sorted(body), 25)
    return S, rare, probe


# ---------------------------------------------------------------------------
# scale: one large dictionary per kind (thousands of strings, table sizes above 2^16, grammars above 2^16
# rules, tries above 2^14 nodes, compressed texts above the initial 32 KB buffers); the answers are
# summarised (hashes) and compared with the specification
_SCALE_CACHE = {}


def scale_dicts(tier, rng):
    key = (tier, rng.fork("scale").range(0, 1 << 30))
    if key in _SCALE_CACHE:
        return _SCALE_CACHE[key]
    r = rng.fork("scale-d")
    thorough = tier == "thorough"

    def rnd(n, lo, hi, alpha):
        out = set()
        while len(out) < n:
            out.add(bytes(r.choice(alpha) for _ in range(r.range(lo, hi))))
        return sorted(out)
    a60 = [0x30 + i for i in range(60)]
    a40 = [0x41 + i for i in range(40)]
    a26 = gen.ALPHABETS[26]
    d = {
        "hash150k": rnd(150001, 6, 9, a60),            # 150001 is prime: with overhead 0 the table is full
        "fc100k": rnd(100000, 1, 40, a40),             # Re-Pair over the front-coded text: > 65280 rules
        "trie12k": rnd(12000 if not thorough else 20000, 3, 14, a26),   # > 16384 trie nodes
        "mid6k": rnd(6000, 4, 60, a26 + [0x20, 0x2d]),
        "ab3k": rnd(3000, 6, 14, [0x61, 0x62]),       # two letters: the trie block under one symbol spans whole RRR super-blocks
        "abc5k": rnd(5000, 5, 12, [0x61, 0x62, 0x63]),
    }
    _SCALE_CACHE[key] = d
    return d


SCALE_PLAN = [
    # (kind, dictionary, parameters)
    ("HASHHF", "hash150k", {"ov": 0}), ("HASHRPF", "hash150k", {"ov": 0}), ("HASHUFFDAC", "hash150k", {"ov": 0}),
    ("HASHRPDAC", "mid6k", {"ov": 10}), ("BLOCKS", "mid6k", {"ov": 25, "cut": 20000, "thr": 4}),
    ("RPFC", "fc100k", {"b": 16}), ("RPHTFC", "fc100k", {"b": 16}), ("PFC", "fc100k", {"b": 1000}),
    ("HTFC", "mid6k", {"b": 16}), ("HHTFC", "mid6k", {"b": 33}),
    ("XBW", "trie12k", {}), ("FMINDEX", "trie12k", {"rrr": 1, "bs": 7, "bwt": 5}), ("FMINDEX", "mid6k", {"rrr": 0, "bs": 20, "bwt": 16}),
    ("RPDAC", "trie12k", {}),
    ("XBW", "ab3k", {}), ("XBW", "abc5k", {}), ("FMINDEX", "ab3k", {"rrr": 1, "bs": 128, "bwt": 7}), ("RPDAC", "ab3k", {}), ("HTFC", "abc5k", {"b": 8}),
]


def scale_cases(tier, rng, ops_fn, kinds=None, phases=("built", "loaded")):
    """ops_fn(kind, pv, S, r) -> ops (use the summary ops tabh/xph, never exts/tab on these sizes)."""
    D = scale_dicts(tier, rng)
    cases = []
    for kind, dn, pv in SCALE_PLAN:
        if kinds is not None and kind not in kinds:
            continue
        S = D[dn]
        r = rng.fork("scale" + kind + dn)
        pv = dict(pv)
        pv["scale"] = 1
        ops = ops_fn(kind, pv, S, r)
        if not ops:
            continue
        for ph in phases:
            pre = []
            if ph == "loaded":
                pre = [["reload", "own", 1]]
            elif ph == "loaded2":
                pre = [["reload", "own", 1], ["reload", "own", 1]]
            elif ph == "generic":
                pre = [["reload", "generic", 1]]
            cases.append(("sc_%s_%s_%s" % (kind, dn, ph), "dict", kind, pv, S, pre + ops))
    return cases


def scale_members(S, r, k=120):
    """first / last members (the last ones are inserted last into a hash table), and a sample"""
    return S[:10] + S[-40:] + r.sample(S, k)


def scale_ops_roundtrip(kind, pv, S, r):
    n = len(S)
    ops = [["rt", hx(s)] for s in scale_members(S, r)]
    if kind in ORDERED_KINDS:
        ops += [["ext", i] for i in [1, 2, n - 1, n] + [r.range(1, n) for _ in range(60)]]
        ops += [["loc", hx(s)] for s in r.sample(S, 40)]
    return ops


def scale_ops_history(kind, pv, S, r):
    """A long history on ONE large object (grammars above 2^12 rules, tables above 2^16 slots): a run of
    extractions / round trips, the same run backwards, and again forwards; a table summary in between.
    Every answer is compared with the history-free specification."""
    n = len(S)
    ids = sorted(set([1, 2, n - 1, n] + [r.range(1, n) for _ in range(400)]))
    if kind in ORDERED_KINDS:
        run = [["ext", i] for i in ids]
    else:
        run = [["rt", hx(S[i - 1])] for i in ids[:200]]
    return run + list(reversed(run)) + [["tabh"]] + run[::3]


def scale_ops_absent(kind, pv, S, r):
    qs = [q for q in gen.queries_members_and_neighbours(r, S, 40)][:120]
    # strings made of bytes that occur nowhere in the dictionary (long codewords), of several lengths
    foreign = [bytes(r.range(0x80, 0xFE) for _ in range(L)) for L in (1, 5, 12, 40, 150)]
    ops = [["rt", hx(q)] for q in qs + foreign]
    ops += [["ext", i] for i in gen.bad_ids(len(S))]
    return ops


def scale_ops_prefix(kind, pv, S, r):
    if kind not in PREFIX_KINDS:
        return []
    ops = []
    ps = [s[:max(2, len(s) - r.range(0, 3))] for s in r.sample(S, 40)] + [S[0][:1], S[-1][:1], S[len(S) // 2][:2]]
    for p in ps:
        ops.append(["xph", hx(p)])
    for p in ps[:30]:
        if len(p) >= 3:
            ops.append(["pre", hx(p)])
    return ops


def scale_ops_table(kind, pv, S, r):
    return [["meta"]] + ([["tabh"]] if kind != "XBW" else []) + scale_ops_prefix(kind, pv, S, r)[:12]


def scale_ops_persist(kind, pv, S, r):
    ops = [["meta"]] + scale_ops_roundtrip(kind, pv, S, r)[:60] + scale_ops_prefix(kind, pv, S, r)[:10]
    if kind != "XBW":
        ops.append(["tabh"])
    return ops


def scale_ops_substr(kind, pv, S, r):
    if kind not in SUBSTR_KINDS or (kind == "FMINDEX" and int(pv.get("bwt", 4)) == 0):
        return []
    pats = []
    for x in r.sample(S, 24):
        a = r.range(0, max(0, len(x) - 3))
        pats.append(x[a:a + r.range(3, 8)])
    pats += [S[0], S[-1], S[len(S) // 2][:5], b"zzzz", S[3][1:]]
    ops = []
    for p in pats:
        ops.append(["sub", hx(p)])
    for p in pats[:8]:
        ops.append(["xsub", hx(p)])
    return ops


def scale_ops_meta(kind, pv, S, r):
    return [["meta"]]


def scale_ops_resave(kind, pv, S, r):
    q = scale_ops_roundtrip(kind, pv, S, r)[:20]
    return [["save2"]] + q + [["resave", 1], ["save2"]] + q


def sweep_cases(tier, rng):
    """One case per kind: the harness builds a dictionary for every size in a range (first n strings of a
    pool), reloads it and probes both objects; the sizes at which a rule count, a node count or a bit width
    reaches a power of two lie somewhere inside."""
    r = rng.fork("sweep-pool")
    thorough = tier == "thorough"
    pool = sorted(set(bytes(r.choice(gen.ALPHABETS[26]) for _ in range(r.range(2, 9))) for _ in range(5200 if thorough else 1500)))
    pool4 = sorted(set(bytes(r.choice(gen.ALPHABETS[4]) for _ in range(r.range(3, 14))) for _ in range(2500 if thorough else 1200)))
    hi = len(pool)
    plan = [("RPFC", {"b": 16}, pool, 150, 4600 if thorough else 760, 1), ("RPHTFC", {"b": 16}, pool, 150, 4600 if thorough else 760, 1),
            ("RPFC", {"b": 4}, pool4, 100, 1100, 1), ("RPHTFC", {"b": 4}, pool4, 100, 1100, 1),
            ("RPDAC", {}, pool, 60, 900 if thorough else 500, 1), ("HASHRPDAC", {"ov": 25}, pool, 60, 700 if thorough else 400, 2),
            ("HASHRPF", {"ov": 10}, pool, 60, 700 if thorough else 400, 2),
            ("PFC", {"b": 8}, pool, 2, 300, 1), ("HTFC", {"b": 8}, pool, 2, 400, 1), ("HHTFC", {"b": 5}, pool, 2, 400, 1),
            ("FMINDEX", {"rrr": 0, "bs": 4, "bwt": 3}, pool, 2, 300, 1), ("FMINDEX", {"rrr": 1, "bs": 5, "bwt": 4}, pool, 2, 300, 1),
            ("XBW", {}, pool, 2, 260, 2), ("HASHHF", {"ov": 0}, pool, 2, 330, 1), ("HASHUFFDAC", {"ov": 10}, pool, 2, 330, 1),
            ("BLOCKS", {"ov": 25, "cut": 300, "thr": 2}, pool, 2, 200, 3)]
    cases = []
    for kind, pv, P, lo, top, step in plan:
        top = min(top, len(P))
        # split the range so that the cases run in parallel and a crash is localised
        span = max(40, (top - lo) // 6)
        a = lo
        while a <= top:
            b = min(top, a + span - 1)
            cases.append(("sw_%s_%s_%d" % (kind, "_".join("%s%s" % kv for kv in sorted(pv.items())), a), "sweep", kind, pv, P[:b],
                          [["sweep", a, b, step]]))
            a = b + 1
    return cases


def chunks_phase2(case, impl_lines):
    """The decoding table exported by the real dictionary -> the Lean validator (`TableOK`, coverage, and the
    model of processChunk run on the real table over the same encoded texts)."""
    ops = []
    k = 0
    for l in impl_lines:
        t = l.split()
        if k >= len(case[5]):
            break
        src = case[5][k]
        if len(t) >= 8 and t[1] == "CT":
            d = dict(x.split("=", 1) for x in t[2:])
            ops.append(["chchk", str(src[2]), src[3] if len(src) > 3 else "-", d.get("k", "0"), d.get("cw", "-"), d.get("pos", "-"),
                        d.get("ent", "-"), d.get("trees", "-"), d.get("runs", "-"), d.get("encs", "-")])
            k += 1
        elif len(t) >= 2 and t[1] == "RQ":
            ops.append(["rdskip"])
            k += 1
        elif not l.startswith("FAULT"):
            ops.append(["chchk", "0", "-", "0", "-", "-", "-", "-", "-", "-"])
            k += 1
    while len(ops) < len(case[5]):
        ops.append(["chchk", "0", "-", "0", "-", "-", "-", "-", "-", "-"])
    return ops


def chunk_cases(tier, rng):
    """Real dictionaries of the five kinds that decode through a chunk table; texts over the whole byte
    alphabet (rare bytes have the long codewords), run from several `extracted` counts."""
    r = rng.fork("chunks")
    thorough = tier == "thorough"
    bat = small_battery(tier, rng, 8 if thorough else 3)
    Sl, rare, probe = longcw_dict(tier, rng)
    bat = bat + [("longcw", Sl)]
    # thousands of strings over 16 letters (codewords of 3-5 bits, several symbols per 16-bit chunk): the table
    # lists far more than 64 KiB of distinct decodeable substrings
    a16 = [0x61 + i for i in range(16)]
    big16 = sorted(set(bytes(r.choice(a16) for _ in range(r.range(4, 40))) for _ in range(40000 if thorough else 25000)))
    bat = bat + [("hex16", big16)]
    cases = []
    for dname, S in bat:
        if sum(len(x) for x in S) > 400000 and dname != "hex16":
            continue
        texts = []
        cat = b"".join(x + b"\0" for x in S[:12])[:400]
        texts.append(cat)
        texts.append(bytes(r.range(0, 255) for _ in range(60)))
        texts.append(bytes(r.choice([0, 1, 2, 0xD0, 0xD1, 0xE0, 0xE5, 0xFE, 0xFF, 0x61]) for _ in range(40)))
        texts.append(bytes([0]) * 20)
        texts.append(bytes([0x61, 0, 0x61, 0x62, 0, 0, 0x63]) * 6)
        texts += [x + b"\0" for x in (rare[:3] if dname == "longcw" else S[:2])]
        th = ",".join(hx(x) for x in texts)
        for kind, whiches in (("HTFC", (0,)), ("HHTFC", (0, 1)), ("RPHTFC", (0,)), ("HASHHF", (0,)), ("HASHUFFDAC", (0,))):
            for pv in ({"b": 4, "ov": 25},) + (({"b": 16, "ov": 0},) if thorough else ()):
                ops = []
                for w in whiches:
                    for e0 in (0, 1, 3):
                        ops.append(["ct", w, e0, th])
                ops.append(["reload"])
                for w in whiches:
                    ops.append(["ct", w, 2, th])
                cases.append(("ch_%s_%s_b%d" % (dname, kind, pv["b"]), "chunks", kind, pv, S, ops))
    return cases


def c18_streams(tier, rng):
    cases = []
    for name, v in freq_vectors(tier, rng):
        fs = ",".join(str(x) for x in v)
        cases.append(("ct_%s" % name, "codes", "-", {}, [], [["hu", fs], ["hf", fs]]))
    # the dictionaries that decode through the chunk table: every answer goes through encode/decode
    def fn(kind, pv, S, r):
        return c01_ops(kind, pv, S, r) + c04_ops(kind, pv, S, r)[:8] + [["tabs"]]
    dcases = kind_cases(tier, rng, ["HTFC", "HHTFC", "RPHTFC", "HASHHF", "HASHUFFDAC"], fn, battery=small_battery(tier, rng, 30 if tier == "thorough" else 12), name="t")
    S, rare, probe = longcw_dict(tier, rng)
    for kind in ("HTFC", "HHTFC", "RPHTFC", "HASHHF", "HASHUFFDAC"):
        for pv in ({"b": 3, "ov": 25}, {"b": 16, "ov": 0}):
            for ph, pre in (("b", []), ("l", [["reload", "own", 1]])):
                ops = pre + [["loc" if kind in EXACT_ID_KINDS else "rt", hx(s)] for s in probe] + [["exts"]]
                cases_id = "lc_%s_%s_%s" % (kind, pv["b"], ph)
                dcases.append((cases_id, "dict", kind, pv, S, ops))
    return [StreamSet("tables", "asan", cases, phase2=codes_phase2), StreamSet("decoding", "asan", dcases, timeout=120),
            StreamSet("chunk-table", "asan", chunk_cases(tier, rng), phase2=chunks_phase2, timeout=120)]


def bitvectors(tier, rng):
    r = rng.fork("bits")
    thorough = tier == "thorough"
    vs = []
    for n in range(1, 13 if thorough else 9):       # exhaustive small scope
        for m in (range(1 << n) if n <= (10 if thorough else 6) else [r.below(1 << n) for _ in range(40)]):
            vs.append([(m >> k) & 1 for k in range(n)])
    for n in (31, 32, 33, 63, 64, 65, 95, 96, 97, 127, 128, 129, 255, 256, 257, 639, 640, 641, 1000, 2048 + 5):
        vs.append([0] * n)
        vs.append([1] * n)
        vs.append([1] + [0] * (n - 1))
        vs.append([0] * (n - 1) + [1])
        for dens in (1, 10, 50, 90, 99):
            vs.append([1 if r.below(100) < dens else 0 for _ in range(n)])
    return vs


def pack_bits(bits):
    b = bytearray((len(bits) + 7) // 8 or 1)
    for k, x in enumerate(bits):
        if x:
            b[k // 8] |= 1 << (k % 8)
    return bytes(b).hex()


def c19_streams(tier, rng):
    thorough = tier == "thorough"
    r = rng.fork("c19")
    cases = []
    vs = bitvectors(tier, rng)
    impls = [("rg", f) for f in (1, 2, 3, 4, 5, 7, 20, 32)] + [("rrr", sm) for sm in (1, 3, 4, 5, 7, 9, 16, 31, 32, 33, 64, 128)]
    cid = 0
    for bits in vs:
        chosen = impls if (thorough or len(bits) > 12) else r.sample(impls, 3)
        ops = []
        for impl, par in chosen:
            if impl in ("sd", "da") and (sum(bits) == 0):
                continue  # these builders are documented for vectors with at least one 1
            ops.append(["bv", impl, par, len(bits), pack_bits(bits)])
            if r.chance(1, 3):
                ops.append(["bv", impl, par, len(bits), pack_bits(bits), "reload"])
        if ops:
            cases.append(("bv%d" % cid, "bits", "-", {}, [], ops))
            cid += 1
    # wavelet trees (at least two distinct symbols; the degenerate shapes are recorded findings K9/K10)
    for alpha in (2, 3, 17, 256):
        for n in (2, 3, 100, 1000 if thorough else 300):
            seq = [r.below(alpha) for _ in range(n)]
            if len(set(seq)) < 2:
                seq[0], seq[-1] = 0, 1
            for impl in ("wt", "wtnp"):
                ops = [["wt", impl, ",".join(map(str, seq))], ["wt", impl, ",".join(map(str, seq)), "reload"]]
                cases.append(("wt%d" % cid, "bits", "-", {}, [], ops))
                cid += 1
    # the other bundled variants and the degenerate wavelet-tree shapes
    var = []
    for n in (4, 128, 256, 512, 1000, 5000):
        for dens in (2, 50, 98):
            bits = [1 if r.below(100) < dens else 0 for _ in range(n)]
            bits[0] = 1
            for impl in ("sd", "da"):
                var.append(("var%d" % cid, "bits", "-", {}, [], [["bv", impl, 0, n, pack_bits(bits)], ["bv", impl, 0, n, pack_bits(bits), "reload"]]))
                cid += 1
    var.append(("var%d" % cid, "bits", "-", {}, [], [["bv", "sd", 0, 2, pack_bits([1, 1])]]))
    var.append(("var%d" % (cid + 1), "bits", "-", {}, [], [["wt", "wt", "1,1"]]))
    var.append(("var%d" % (cid + 2), "bits", "-", {}, [], [["wt", "wtnp", "0"]]))
    var.append(("var%d" % (cid + 3), "bits", "-", {}, [], [["wt", "wtnp", "0,0,0"]]))
    # long vectors (hundreds of thousands of bits): several super-blocks / sample blocks / "long" blocks of the
    # select directories; every select and a grid of rank/access are checked by the harness itself (summary line)
    longv = []
    rl = rng.fork("c19long")

    def dens(n, per_mille):
        return [1 if rl.below(1000) < per_mille else 0 for _ in range(n)]
    shapes = [("sparse1m", dens(1 << 20, 10)), ("mixed600k", dens(200000, 3) + dens(200000, 600) + dens(200000, 4)),
              ("gaps", ([0] * 70000 + [1] * 40) * 4 + [0] * 5000 + [1]), ("dense300k", dens(300000, 990)),
              ("blocks", ([1] * 1920 + [0] * 1920 * 2) * 30)]
    if thorough:
        shapes += [("sparse2m", dens(1 << 21, 4)), ("half1m", dens(1 << 20, 500))]
    for nm, bits in shapes:
        hexbits = pack_bits(bits)
        for impl, par in (("rg", 20), ("rg", 3), ("rrr", 32), ("rrr", 128), ("rrr", 7), ("da", 0), ("sd", 0)):
            longv.append(("lv_%s_%s%d" % (nm, impl, par), "bits", "-", {}, [], [["bvh", impl, par, len(bits), hexbits]]))
    return [StreamSet("succinct", "asan", cases, timeout=60), StreamSet("variants", "asan", var, timeout=60),
            StreamSet("long-vectors", "asan", longv, timeout=300)]


def repair_phase2(case, impl_lines):
    ops = []
    k = 0
    for l in impl_lines:
        t = l.split()
        if len(t) >= 3 and t[1] == "RPBIG":
            ops.append(["rpbigchk", t[2]])
            k += 1
        elif len(t) >= 6 and t[1] == "RP":
            src = case[5][k]
            d = dict(x.split("=", 1) for x in t[2:])
            ops.append(["rpchk", src[1], src[2], d.get("t", "0"), d.get("bits", "0"), d.get("rules", "-"), d.get("seq", "-")])
            k += 1
        elif not l.startswith("FAULT"):
            ops.append(["rpchk", "0", "-", "0", "0", "-", "-"])
            k += 1
    while len(ops) < len(case[5]):
        ops.append(["rpchk", "0", "-", "0", "0", "-", "-"])
    return ops


def repair_inputs(tier, rng):
    r = rng.fork("repair")
    thorough = tier == "thorough"
    out = []
    import itertools as it
    # all sequences over {1,2} with terminators, small scope
    for n in range(1, 9 if thorough else 7):
        for t in it.product((1, 2, 0), repeat=n):
            if t[-1] != 0 or any(t[i] == 0 and t[i + 1] == 0 for i in range(n - 1)) or t[0] == 0:
                continue
            out.append(list(t))
    for k in (2, 3, 4, 5, 8, 16, 33, 40):
        out.append([7] * k + [0])                                   # runs of one symbol (overlapping pairs)
    out.append(list(range(1, 200)) + [0])                           # no repeated pair
    fibw = ["a", "ab"]
    while len(fibw[-1]) < 600:
        fibw.append(fibw[-1] + fibw[-2])
    out.append([ord(ch) for ch in fibw[-1]] + [0])                  # deep rules
    tm = [1]
    while len(tm) < 512:
        tm = tm + [3 - x for x in tm]
    out.append(tm + [0])
    # what the dictionaries feed: strings + terminators, incl. byte 255 end markers as RPFC uses
    for _ in range(30 if thorough else 10):
        S = gen.g2_dict(r, r.range(2, 60), r.choice([2, 4, 26]), r.choice(["short", "mixed", "mid"]))
        seq = []
        for s_ in S:
            seq += list(s_) + [0]
        out.append(seq)
        seq2 = []
        for s_ in S:
            seq2 += [0x80] + list(s_) + [255, 0]
        out.append(seq2)
    # large varied inputs: the compressor's pair table (linear probing, tombstones) and its heap are only
    # stressed by thousands of rules
    for nstr, alpha in ((2500, 26), (1200, 253)) + (((6000, 26),) if thorough else ()):
        S = gen.g2_dict(r, nstr, alpha, "mixed")
        seq = []
        for s_ in S:
            seq += list(s_) + [0]
        out.append(seq)
    # strings of 100-300 random bytes over the whole alphabet that come in near-duplicate pairs (s, s + one byte):
    # most pairs occur at least twice, more than 98 304 pair records are alive at once and the compressor's pair
    # table (131 072 slots, grown at 75 % load) is enlarged
    base = [bytes(r.range(2, 254) for _ in range(r.range(100, 300))) for _ in range(2200 if thorough else 1600)]
    seq = []
    for x in sorted(set(base)):
        seq += list(x) + [0] + list(x) + [r.range(2, 254), 0]
    out.append(seq)
    return out


def rpdac_phase2(case, impl_lines):
    """The RPDAC object exported by the real code -> the Lean validator (hypotheses of the RPDAC theorems +
    the model of the query layer run on the real grammar and sequences)."""
    strs = ",".join(hx(s) for s in case[4]) or "-"
    ops = []
    k = 0
    for l in impl_lines:
        t = l.split()
        if k >= len(case[5]):
            break
        src = case[5][k]
        if len(t) >= 7 and t[1] == "RD":
            d = dict(x.split("=", 1) for x in t[2:])
            ops.append(["rdchk", strs, src[1] if len(src) > 1 else "-", src[2] if len(src) > 2 else "-", d.get("t", "0"), d.get("rules", "-"),
                        d.get("seqs", "-"), d.get("loc", "-"), d.get("abs", "-"), d.get("pre", "-")])
            k += 1
        elif len(t) >= 9 and t[1] == "HD":
            d = dict(x.split("=", 1) for x in t[2:])
            ops.append(["hdchk", strs, src[1] if len(src) > 1 else "-", str(case[3].get("hs", 0)), d.get("ts", "0"), d.get("occ", "-"), d.get("t", "0"),
                        d.get("rules", "-"), d.get("seqs", "-"), d.get("loc", "-"), d.get("abs", "-")])
            k += 1
        elif len(t) >= 11 and t[1] == "HF":
            d = dict(x.split("=", 1) for x in t[2:])
            ops.append(["hfchk", strs, src[1] if len(src) > 1 else "-", str(case[3].get("hs", 0)), d.get("ts", "0"), d.get("occ", "-"), d.get("t", "0"),
                        d.get("mc", "0"), d.get("rules", "-"), d.get("cls", "-"), d.get("offs", "-"), d.get("loc", "-"), d.get("abs", "-")])
            k += 1
        elif len(t) >= 4 and t[1] == "HI":
            d = dict(x.split("=", 1) for x in t[2:])
            ops.append(["hichk", d.get("img", "-"), d.get("el", "0"), d.get("ml", "0"), d.get("ts", "0"), d.get("n", "0"), d.get("occ", "-")])
            k += 1
        elif len(t) >= 4 and t[1] == "RI":
            d = dict(x.split("=", 1) for x in t[2:])
            ops.append(["richk", d.get("img", "-"), d.get("el", "0"), d.get("ml", "0"), d.get("t", "0"), d.get("mc", "0"), d.get("rules", "-")])
            k += 1
        elif len(t) >= 2 and t[1] == "RQ":
            ops.append(["rdskip"])
            k += 1
        elif not l.startswith("FAULT"):
            ops.append(["rdchk", strs, "-", "-", "0", "-", "-", "-", "-", "-"])
            k += 1
    while len(ops) < len(case[5]):
        ops.append(["rdchk", strs, "-", "-", "0", "-", "-", "-", "-", "-"])
    return ops


def rpdac_cases(tier, rng, k):
    cases = []
    r = rng.fork("rpdac")
    for name, S in small_battery(tier, rng, k):
        if sum(len(s) for s in S) > 40000:
            continue        # the Lean validator expands every sequence: keep the exported structures moderate
        qs = [q for q in gen.queries_members_and_neighbours(r, S, 12) if q not in set(S)][:16]
        qh = ",".join(hx(q) for q in qs) or "-"
        ps = [p for p in gen.prefixes_of(r, S, 14) if p][:20]
        ph = ",".join(hx(p) for p in ps) or "-"
        cases.append(("rq_%s" % name, "rpdac", "RPDAC", {}, S, [["rd", qh, ph], ["ri"], ["reload"], ["rd", qh, ph], ["ri"]]))
        for ov in (0, 25):
            hs = int(len(S) * (1 + (ov * 1.0 / 100.0)))
            cases.append(("hq_%s_%d" % (name, ov), "rpdac", "HASHRPDAC", {"ov": ov, "hs": hs}, S, [["hd", qh], ["hi"], ["reload"], ["hd", qh], ["hi"]]))
            cases.append(("hf_%s_%d" % (name, ov), "rpdac", "HASHRPF", {"ov": ov, "hs": hs}, S, [["hf", qh], ["reload"], ["hf", qh]]))
    return cases



def fm_phase2(case, impl_lines):
    """The FM-index exported by the real code -> the Lean validator: the exported BWT / occ / alphabet / sampling
    structures must be what the model's build derives from the sorted rows of the text, and the models of
    locate_id / locateP / locate / extract_id run on the exported structure must give the code's answers."""
    strs = ",".join(hx(s) for s in case[4]) or "-"
    ops = []
    k = 0
    for l in impl_lines:
        t = l.split()
        if k >= len(case[5]):
            break
        src = case[5][k]
        if len(t) >= 10 and t[1] == "FM":
            d = dict(x.split("=", 1) for x in t[2:])
            ops.append(["fmchk", strs, src[1] if len(src) > 1 else "-", src[2] if len(src) > 2 else "-", src[3] if len(src) > 3 else "-"] +
                       [d.get(f, "-") for f in ("n", "el", "ml", "bwt", "occ", "alpha", "ss", "sampled", "samp", "loc", "abs", "pre", "sub", "ext")])
            k += 1
        elif len(t) >= 2 and t[1] == "RQ":
            ops.append(["rdskip"])
            k += 1
        elif not l.startswith("FAULT"):
            ops.append(["fmchk", strs] + ["-"] * 17)
            k += 1
    while len(ops) < len(case[5]):
        ops.append(["fmchk", strs] + ["-"] * 17)
    return ops


def fm_cases(tier, rng, k):
    cases = []
    r = rng.fork("fm")
    for name, S in small_battery(tier, rng, k):
        total = sum(len(s) + 1 for s in S)
        if total > 2500:
            continue        # the Lean validator sorts the suffixes of the text itself: keep the texts moderate
        qs = [q for q in gen.queries_members_and_neighbours(r, S, 10) if q not in set(S)][:12]
        qh = ",".join(hx(q) for q in qs) or "-"
        ps = [p for p in gen.prefixes_of(r, S, 10) if p][:14]
        ph = ",".join(hx(p) for p in ps) or "-"
        ss = [p for p in gen.substrings_of(r, S, 12) if p][:16]
        sh = ",".join(hx(p) for p in ss) or "-"
        # sampling steps: 1, small, one that divides the text length, one above the text length, 0 (no sampling)
        div = next((d for d in range(2, 40) if (total + 2) % d == 0), 3)
        steps = [1, 2 + r.below(6), div, total + 5, 0]
        chosen = steps if tier == "thorough" else [steps[r.below(2)], steps[2], steps[3 + r.below(2)]]
        for i, st in enumerate(sorted(set(chosen))):
            pv = {"rrr": (i + r.below(2)) % 2, "bs": r.choice([2, 3, 5, 20, 32]), "bwt": st}
            cases.append(("fm_%s_%d" % (name, st), "fm", "FMINDEX", pv, S, [["fm", qh, ph, sh], ["reload"], ["fm", qh, ph, sh]]))
    return cases



def rpfc_phase2(case, impl_lines):
    """The RPFC object exported by the real code (grammar, bucket headers, symbol streams) -> the Lean validator."""
    strs = ",".join(hx(s) for s in case[4]) or "-"
    ops = []
    k = 0
    for l in impl_lines:
        t = l.split()
        if k >= len(case[5]):
            break
        src = case[5][k]
        if len(t) >= 10 and t[1] == "RF":
            d = dict(x.split("=", 1) for x in t[2:])
            ops.append(["rfchk", strs, src[1] if len(src) > 1 else "-", src[2] if len(src) > 2 else "-"] +
                       [d.get(f, "-") for f in ("t", "mc", "el", "ml", "bk", "bs", "rules", "hdr", "st", "loc", "abs", "pre", "ext")])
            k += 1
        elif len(t) >= 2 and t[1] == "RQ":
            ops.append(["rdskip"])
            k += 1
        elif not l.startswith("FAULT"):
            ops.append(["rfchk", strs] + ["-"] * 15)
            k += 1
    while len(ops) < len(case[5]):
        ops.append(["rfchk", strs] + ["-"] * 15)
    return ops


def rpfc_cases(tier, rng, k):
    cases = []
    r = rng.fork("rpfc")
    for name, S in small_battery(tier, rng, k):
        if sum(len(s) + 1 for s in S) > 6000 or any(len(s) >= 16384 for s in S):
            continue        # the Lean model expands every symbol through the rule table
        qs = [q for q in gen.queries_members_and_neighbours(r, S, 10) if q not in set(S)][:12]
        qh = ",".join(hx(q) for q in qs) or "-"
        ps = [p for p in gen.prefixes_of(r, S, 10) if p][:20]
        ph = ",".join(hx(p) for p in ps) or "-"
        n = len(S)
        bs = sorted(set([2, 3, 4, r.choice([5, 8, 16]), max(2, n), n + 1]))
        for b in (bs if tier == "thorough" else r.sample(bs, min(3, len(bs)))):
            cases.append(("rf_%s_b%d" % (name, b), "rpfc", "RPFC", {"b": b}, S, [["rf", qh, ph], ["reload"], ["rf", qh, ph]]))
    return cases



def bvls_phase2(case, impl_lines):
    """The DAC_BVLS of a real HASHUFFDAC dictionary -> the Lean validator (layout = DAC.build of its sequences)."""
    ops = []
    k = 0
    for l in impl_lines:
        t = l.split()
        if k >= len(case[5]):
            break
        if len(t) >= 9 and t[1] == "BV":
            d = dict(x.split("=", 1) for x in t[2:])
            ops.append(["bvchk"] + [d.get(f, "-") for f in ("n", "tam", "idx", "bits", "rl", "lv", "acc", "nxt")])
            k += 1
        elif len(t) >= 2 and t[1] == "RQ":
            ops.append(["rdskip"])
            k += 1
        elif not l.startswith("FAULT"):
            ops.append(["bvchk"] + ["-"] * 8)
            k += 1
    while len(ops) < len(case[5]):
        ops.append(["bvchk"] + ["-"] * 8)
    return ops


def bvls_cases(tier, rng, k):
    cases = []
    r = rng.fork("bvls")
    for name, S in small_battery(tier, rng, k):
        if sum(len(s) + 1 for s in S) > 20000:
            continue
        for ov in ((0, 25, 100) if tier == "thorough" else (r.choice([0, 25]),)):
            cases.append(("bv_%s_%d" % (name, ov), "bvls", "HASHUFFDAC", {"ov": ov}, S, [["bv"], ["reload"], ["bv"]]))
    return cases



def blkimg_phase2(case, impl_lines):
    """The saved image of a real block dictionary -> the Lean validator (model loader / writer, counters)."""
    strs = ",".join(hx(s) for s in case[4]) or "-"
    ops = []
    k = 0
    for l in impl_lines:
        t = l.split()
        if k >= len(case[5]):
            break
        if len(t) >= 6 and t[1] == "BI":
            d = dict(x.split("=", 1) for x in t[2:])
            ops.append(["bichk", strs] + [d.get(f, "-") for f in ("img", "ml", "cs", "sq", "np", "firsts", "starts", "pel")])
            k += 1
        elif len(t) >= 2 and t[1] == "RQ":
            ops.append(["rdskip"])
            k += 1
        elif not l.startswith("FAULT"):
            ops.append(["bichk", strs] + ["-"] * 8)
            k += 1
    while len(ops) < len(case[5]):
        ops.append(["bichk", strs] + ["-"] * 8)
    return ops


def blkimg_cases(tier, rng, k):
    cases = []
    r = rng.fork("blkimg")
    for name, S in small_battery(tier, rng, k):
        total = sum(len(s) + 1 for s in S)
        if total > 4000 or len(S) < 2:
            continue
        cuts = sorted(set([1, 8, max(1, total // 3), total, total + 10]))
        for cut in (cuts if tier == "thorough" else r.sample(cuts, min(2, len(cuts)))):
            cases.append(("bk_%s_c%d" % (name, cut), "blkimg", "BLOCKS", {"ov": r.choice([0, 25]), "cut": cut, "thr": r.choice([1, 2, 3])}, S,
                          [["bi"], ["reload"], ["bi"]]))
    return cases


def hhf_phase2(case, impl_lines):
    """HASHHF / HASHUFFDAC: codewords, table size, occupancy and the code's own answers -> the Lean validator
    (keys re-encoded with the model of encodeString, table rebuilt by the double-hashing model, exact IDs)."""
    strs = ",".join(hx(s) for s in case[4]) or "-"
    ops = []
    k = 0
    for l in impl_lines:
        t = l.split()
        if k >= len(case[5]):
            break
        src = case[5][k]
        if len(t) >= 6 and t[1] == "HH":
            d = dict(x.split("=", 1) for x in t[2:])
            ops.append(["hhchk", strs, src[1] if len(src) > 1 else "-", str(case[3].get("hs", 0)), d.get("ts", "0"), d.get("occ", "-"),
                        d.get("cw", "-"), d.get("loc", "-"), d.get("abs", "-")])
            k += 1
        elif len(t) >= 2 and t[1] == "RQ":
            ops.append(["rdskip"])
            k += 1
        elif not l.startswith("FAULT"):
            ops.append(["hhchk", strs, "-", "0", "0", "-", "-", "-", "-"])
            k += 1
    while len(ops) < len(case[5]):
        ops.append(["hhchk", strs, "-", "0", "0", "-", "-", "-", "-"])
    return ops


def hhf_cases(tier, rng, k):
    cases = []
    r = rng.fork("hhf")
    for name, S in small_battery(tier, rng, k):
        if sum(len(s) for s in S) > 40000:
            continue
        qs = [q for q in gen.queries_members_and_neighbours(r, S, 12) if q not in set(S)][:16]
        qh = ",".join(hx(q) for q in qs) or "-"
        for ov in (0, 25, 100):
            hs = int(len(S) * (1 + (ov * 1.0 / 100.0)))
            for kind in ("HASHHF", "HASHUFFDAC"):
                cases.append(("hh_%s_%s_%d" % (kind, name, ov), "hhf", kind, {"ov": ov, "hs": hs}, S, [["hh", qh], ["reload"], ["hh", qh]]))
    return cases


def c20_streams(tier, rng):
    cases = []
    inputs = repair_inputs(tier, rng)
    for i in range(0, len(inputs), 8):
        ops = []
        for seq in inputs[i:i + 8]:
            mx = max(seq) + 1 if max(seq) < 255 else 255
            ops.append(["rp", mx if mx < 256 else 255, ",".join(map(str, seq))])
        ops.append(["rp", 255, ",".join(map(str, inputs[i])), "reload"])
        cases.append(("rp%d" % (i // 8), "repair", "-", {}, [], ops))
    # the five kinds that use Re-Pair: every answer goes through the grammar
    def fn(kind, pv, S, r):
        return c01_ops(kind, pv, S, r)
    dcases = kind_cases(tier, rng, ["RPFC", "RPHTFC", "RPDAC", "HASHRPF", "HASHRPDAC"], fn,
                        battery=small_battery(tier, rng, 30 if tier == "thorough" else 10), name="g")
    # a pair table that has to grow: > 98 304 distinct pairs alive at once (about a million symbols over 60..75
    # letters); expansion checked by the harness itself (`rpbig`), the specification says nothing differs
    bigc = [("rpbig%d" % a, "repair", "-", {}, [], [["rpbig", rng.fork("rpbig%d" % a).below(1 << 30), 150000, a]])
            for a in ((60, 75, 50) if tier == "thorough" else (75,))]
    return [StreamSet("grammars", "asan", cases, phase2=repair_phase2, timeout=60), StreamSet("users", "asan", dcases),
            StreamSet("pair-table-growth", "asan", bigc, phase2=repair_phase2, timeout=600),
            StreamSet("rpdac-layer", "asan", rpdac_cases(tier, rng, 40 if tier == "thorough" else 12), phase2=rpdac_phase2, timeout=60)]


PROPS["C18"] = PropSpec(c18_streams,
                        "frequency vectors over 256 symbols, all >= 1: uniform, geometric ratios 1.1..3 (both directions), Fibonacci prefixes giving depths 17..30, one dominant symbol, "
                        "seeded random (sparse, wide range); both code constructions; the exported table is re-validated by the Lean driver (tree rebuilt from the table, paths = table, "
                        "Kraft = 1, leaves in order for Hu-Tucker, decode∘encode); plus every answer of the kinds that decode through the chunk table, incl. codewords longer than 16 bits; "
                        "non-trivial = at least 2 operations",
                        ["the decoding-table builder (which chunks get multi-symbol entries) is not modelled: its tables are shown sound entry by entry on every run; "
                         "the 32-bit register of the bit buffer is abstracted to a list of pending bits",
                         "codeword depth > 32 (total frequency above 2^31) is outside the generated vectors: not reproduced as a defect"],
                        "theorems about code trees (prefix-free, complete, order-preserving, decode∘encode), about processChunk over any sound table (step = tree decoding, whole strings, totality) "
                        "and about StatCoder::encodeSymbol/encodeString (bit-exact); the implementation's code tables are shown to be tree codes and its chunk tables sound on every run; "
                        "chunk-table stream: real dictionaries of the five kinds, 2^16 entries each, model run on the real table over the real encoder's bytes",
                        ["all 256 frequencies >= 1, as the dictionaries guarantee"])
PROPS["C19"] = PropSpec(c19_streams,
                        "bit vectors: all vectors of length <= 6 (thorough <= 10), sampled up to 12, lengths around multiples of 32 and of the sampling rate, all-zero, all-one, single one at either end, densities 1..99 %; "
                        "BitSequenceRG factor {1,2,3,4,20,32}, RRR sample {4,16,32,64,128}, SDArray, DArray; access/rank0/rank1 at every position, select0/select1 for every rank, before and after save/load; "
                        "wavelet trees (pointer and pointerless, Huffman shape, identity mapper) over alphabets {1,2,3,17,256}; long vectors of 285 000 .. 1 048 576 bits (1 % ones, mixed sparse/dense/sparse, "
                        "long gaps, aligned empty super-blocks) for RG, RRR, DArray, SDArray: every select (sampled above 60 000) and a grid of rank/access checked against the plain definitions by the harness, built and reloaded",
                        ["BitSequenceRG has theorems (rank1, select1, select0, access, save/load bytes); RRR, SDArray, DArray and the wavelet trees are compared with the plain definitions"],
                        "rank1/select1/select0/access of BitSequenceRG are exact (theorems) and its image reloads to itself; the driver answers r1, s1, s0 and the image through the exact models "
                        "and everything else from the plain definitions",
                        [])
PROPS["C20"] = PropSpec(c20_streams,
                        "integer sequences with 0 terminators: all sequences over {1,2,0} up to length 6 (thorough 8), runs of one symbol, no repeated pair, Fibonacci and Thue-Morse words (deep rules), "
                        "the sequences the dictionary constructors build (incl. VByte bytes and 255 end markers), 20-60 K-symbol texts (thousands of rules) and a 640 K-symbol text of near-duplicate random strings "
                        "(> 200 000 rules; the compressor's pair table is enlarged); the exported grammar and compacted sequence are re-validated by the Lean driver "
                        "(rules well-founded, zero-free, expansion = input, identifier width); after save/load; plus every answer of the five kinds that use Re-Pair",
                        ["pair selection (heap/hash/records of IRePair) is not modelled: the theorems hold for every choice, the actual choice is validated per run"],
                        "replacement-system theorems (lossless for every run, zero-free and well-founded rules, bits suffice); the implementation's grammars are validated on every run",
                        [])
