#!/usr/bin/env python3
"""vcheck.py — the one entry point of the libCSD verification framework.

    python3 tools/vcheck.py <Cxx> [--tier quick|thorough]
    python3 tools/vcheck.py --setup
    python3 tools/vcheck.py <Cxx> --replay <file>

What a run does (DESIGN.md §3):
  1. extract   regenerate lean/CSD/Generated/*.lean from $VERIF_REPO
  2. prove     lake build of CSD.Props.<Cxx> and of the model driver; axiom audit; source grep
  3. build     compile $VERIF_REPO's working tree with -DLIBCSD_VERIF and sanitizers
  4. correspond  run the real code and the Lean models on the same cases, diff
  5. decide    pass / KNOWN-FINDING / VIOLATION (with replay or no-failing-input-found); evidence
"""
import argparse, hashlib, json, os, re, shutil, subprocess, sys, time, fcntl
from concurrent.futures import ThreadPoolExecutor

HERE = os.path.dirname(os.path.abspath(__file__))
VERIF = os.path.dirname(HERE)
sys.path.insert(0, HERE)
import build, gen  # noqa: E402
import streams  # noqa: E402
import extract  # noqa: E402

LEAN = os.path.join(VERIF, "lean")
BUILD = build.BUILD
REPO = os.environ.get("VERIF_REPO", "/repo")
# evidence/ and replays/ live under /verif unless a run against a scratch tree (seeded defects) redirects them
OUT = os.environ.get("VERIF_OUT") or os.path.dirname(os.path.dirname(os.path.abspath(__file__)))
ALLOWED_AXIOMS = {"propext", "Quot.sound", "Classical.choice"}
FORBIDDEN = re.compile(r"\b(sorry|admit|native_decide|bv_decide|implemented_by|unsafe)\b|^\s*axiom\s|maxHeartbeats\s+0")


def log(*a):
    print(*a, flush=True)


def _bigstack():
    # XBW's TrieNode::insert recurses once per byte of a string; under ASan its frames are large
    # enough for 16 KiB strings to exhaust the default 8 MiB stack, which says nothing about libCSD.
    import resource
    soft, hard = resource.getrlimit(resource.RLIMIT_STACK)
    want = 1 << 30
    if hard != resource.RLIM_INFINITY:
        want = min(want, hard)
    try:
        resource.setrlimit(resource.RLIMIT_STACK, (want, hard))
    except Exception:
        pass


def sh(cmd, cwd=None, env=None, timeout=None, stdin=None, bigstack=False):
    try:
        r = subprocess.run(cmd, cwd=cwd, env=env, stdout=subprocess.PIPE, stderr=subprocess.STDOUT,
                           text=True, timeout=timeout, input=stdin, errors="replace",
                           preexec_fn=_bigstack if bigstack else None)
        return r.returncode, r.stdout
    except subprocess.TimeoutExpired as e:
        return 124, (e.stdout or b"").decode(errors="replace") if isinstance(e.stdout, bytes) else (e.stdout or "")


# --------------------------------------------------------------------------- Lean side
class LakeLock:
    def __enter__(self):
        # one lock per Lean project (runs against scratch trees share /verif/lean and its Generated/)
        os.makedirs(os.path.join(LEAN, ".lake"), exist_ok=True)
        self.f = open(os.path.join(LEAN, ".lake", "verif.lock"), "w")
        fcntl.flock(self.f, fcntl.LOCK_EX)

    def __exit__(self, *a):
        fcntl.flock(self.f, fcntl.LOCK_UN)
        self.f.close()


def strip_comments(src):
    # remove /- ... -/ (nested) and -- line comments
    out, i, depth = [], 0, 0
    while i < len(src):
        if src.startswith("/-", i):
            depth += 1
            i += 2
        elif depth and src.startswith("-/", i):
            depth -= 1
            i += 2
        elif depth:
            if src[i] == "\n":
                out.append("\n")
            i += 1
        elif src.startswith("--", i):
            while i < len(src) and src[i] != "\n":
                i += 1
        else:
            out.append(src[i])
            i += 1
    return "".join(out)


def lean_sources():
    for root, dirs, files in os.walk(LEAN):
        dirs[:] = [d for d in dirs if d != ".lake"]
        for f in files:
            if f.endswith(".lean"):
                yield os.path.join(root, f)


def grep_forbidden():
    hits = []
    for p in lean_sources():
        src = strip_comments(open(p).read())
        for n, line in enumerate(src.splitlines(), 1):
            if FORBIDDEN.search(line):
                hits.append("%s:%d: %s" % (os.path.relpath(p, LEAN), n, line.strip()[:120]))
    return hits


def prop_theorems(prop):
    """Names of the theorems declared in CSD/Props/<prop>.lean (the obligations)."""
    p = os.path.join(LEAN, "CSD", "Props", prop + ".lean")
    if not os.path.exists(p):
        return []
    src = strip_comments(open(p).read())
    ns = []
    names = []
    for line in src.splitlines():
        m = re.match(r"\s*namespace\s+([\w\.]+)", line)
        if m:
            ns.append(m.group(1))
        m = re.match(r"\s*end\s+([\w\.]+)", line)
        if m and ns and ns[-1] == m.group(1):
            ns.pop()
        m = re.match(r"\s*(?:@\[[^\]]*\]\s*)?(?:private\s+|protected\s+)?theorem\s+([\w\.']+)", line)
        if m:
            names.append(".".join(ns + [m.group(1)]))
    return names


MODEL_BIN = [None]


def snapshot_model():
    """Private copy of the model driver (taken under the lock): a concurrent run against a scratch
    tree rebuilds .lake/build/bin/csd_model."""
    import atexit
    os.makedirs(BUILD, exist_ok=True)
    dst = os.path.join(BUILD, "csd_model_%d" % os.getpid())
    try:
        shutil.copy2(os.path.join(LEAN, ".lake", "build", "bin", "csd_model"), dst)
        MODEL_BIN[0] = dst
        atexit.register(lambda: os.path.exists(dst) and os.remove(dst))
    except OSError:
        MODEL_BIN[0] = None


def lean_stage(prop):
    """Returns dict(ok, obligations, discharged, axioms, errors, wall)."""
    t0 = time.time()
    res = {"ok": True, "obligations": 0, "discharged": 0, "axioms": {}, "errors": [], "broken": []}
    with LakeLock():
        gen_err = extract.regenerate(REPO, os.path.join(LEAN, "CSD", "Generated"), prop)
        if gen_err:
            res["ok"] = False
            res["errors"].append("extract: " + gen_err)
            res["broken"].append("extractor: " + gen_err.splitlines()[0])
        mod = "CSD.Props." + prop
        rc, out = sh(["lake", "build", mod, "csd_model"], cwd=LEAN, timeout=1500)
        if rc != 0:
            res["ok"] = False
            errs = [l for l in out.splitlines() if l.startswith("error:")]
            res["errors"] += errs[:20] or [out[-2000:]]
            for l in errs:
                m = re.match(r"error: (CSD/[\w/]+\.lean):(\d+)", l)
                if m:
                    res["broken"].append(m.group(1) + ":" + m.group(2))
            if not res["broken"]:
                res["broken"].append("lake build " + mod)
        if rc == 0:
            snapshot_model()
        names = prop_theorems(prop)
        res["obligations"] = len(names)
        if rc == 0 and names:
            audit = os.path.join(BUILD, "audit_%s_%d.lean" % (prop, os.getpid()))
            with open(audit, "w") as f:
                f.write("import %s\n" % mod)
                for n in names:
                    f.write("#print axioms %s\n" % n)
            rc2, out2 = sh(["lake", "env", "lean", audit], cwd=LEAN, timeout=600)
            os.remove(audit)
            cur = None
            text = out2.replace("\n  ", " ").replace("\n ", " ")
            for l in text.splitlines():
                m = re.match(r"'([^']+)' depends on axioms: \[(.*)\]", l)
                if m:
                    res["axioms"][m.group(1)] = [a.strip() for a in m.group(2).split(",") if a.strip()]
                m = re.match(r"'([^']+)' does not depend on any axioms", l)
                if m:
                    res["axioms"][m.group(1)] = []
            for n in names:
                ax = res["axioms"].get(n)
                if ax is None:
                    res["ok"] = False
                    res["broken"].append("audit: no axiom report for " + n)
                elif set(ax) - ALLOWED_AXIOMS:
                    res["ok"] = False
                    res["broken"].append("audit: %s uses %s" % (n, sorted(set(ax) - ALLOWED_AXIOMS)))
                else:
                    res["discharged"] += 1
            if rc2 != 0 and not res["axioms"]:
                res["ok"] = False
                res["errors"].append("audit failed: " + out2[-1500:])
    hits = grep_forbidden()
    if hits:
        res["ok"] = False
        res["broken"] += ["forbidden token: " + h for h in hits[:10]]
    res["wall"] = time.time() - t0
    return res


def leanchecker(prop):
    rc, out = sh(["lake", "env", "leanchecker", "CSD.Props." + prop], cwd=LEAN, timeout=1800)
    return rc == 0, out[-500:]


# --------------------------------------------------------------------------- correspondence
def tokens_match(exp, obs):
    et, ot = exp.split(), obs.split()
    if len(et) != len(ot):
        return False
    return all(e == "?" or e == o for e, o in zip(et, ot))


def run_cases(cases, cfg, rundir, extra_defs=(), tag="", timeout=20, env_extra=None, phase2=None, modelonly=False):
    """Runs both sides on `cases`. Returns (impl_lines_by_case, model_lines_by_case, error).

    With `phase2` (a function case, impl_lines -> ops for the Lean validator) the stream is two-phase:
    the real code exports a structure, the Lean driver re-validates it with the definitions the theorems
    are about, and every verdict must be `V ok`."""
    if phase2 is not None:
        impl, _, err = run_cases(cases, cfg, rundir, extra_defs, tag, timeout, env_extra)
        if err:
            return None, None, err
        cases2 = []
        for c in cases:
            ops2 = phase2(c, impl.get(c[0], []))
            cases2.append((c[0], c[1], c[2], c[3], [], ops2))
        _, verdicts, err = run_cases(cases2, cfg, os.path.join(rundir, "p2"), extra_defs, tag, timeout, env_extra, modelonly=True)
        if err:
            return None, None, err
        impl2, mod2 = {}, {}
        for c in cases:
            faults = [l for l in impl.get(c[0], []) if l.startswith("FAULT")]
            impl2[c[0]] = verdicts.get(c[0], []) + faults
            mod2[c[0]] = ["%d V ok" % (i + 1) for i in range(len(c[5]))]
        return impl2, mod2, None
    exe, err = build.build_harness("drv", cfg, REPO, extra_defs, tag)
    if err:
        return None, None, err
    os.makedirs(rundir, exist_ok=True)
    nsh = max(1, min(16, len(cases) // 4 or 1))
    shards = [[] for _ in range(nsh)]
    for i, c in enumerate(cases):
        shards[i % nsh].append(c)
    files = []
    for i, shc in enumerate(shards):
        p = os.path.join(rundir, "cases_%d.txt" % i)
        with open(p, "w") as f:
            for c in shc:
                f.write(gen.CaseWriter.render(c))
        files.append(p)
    env = dict(os.environ)
    env["ASAN_OPTIONS"] = "detect_leaks=0:abort_on_error=0:allocator_may_return_null=1:malloc_fill_byte=190:detect_stack_use_after_return=0"
    env["UBSAN_OPTIONS"] = "print_stacktrace=1:halt_on_error=1"
    env["TSAN_OPTIONS"] = "halt_on_error=0:report_signal_unsafe=0:exitcode=0"
    if env_extra:
        env.update(env_extra)
    model = MODEL_BIN[0] or os.path.join(LEAN, ".lake", "build", "bin", "csd_model")

    def one(p):
        logdir = p + ".logs"
        os.makedirs(logdir, exist_ok=True)
        rc1, o1 = (0, "") if modelonly else sh([exe, p, "--timeout", str(timeout), "--logdir", logdir], env=env, timeout=3600, bigstack=True)
        rc2, o2 = sh([model, p], timeout=3600)
        return (rc1, o1, rc2, o2)

    with ThreadPoolExecutor(max_workers=16) as ex:
        outs = list(ex.map(one, files))
    impl, mod = {}, {}
    for rc1, o1, rc2, o2 in outs:
        if rc2 != 0:
            return None, None, "model driver failed: " + o2[-800:]
        if rc1 != 0:
            return None, None, "harness driver failed (rc=%d): %s" % (rc1, o1[-800:])
        for l in o1.splitlines():
            cid, _, rest = l.partition(" ")
            impl.setdefault(cid, []).append(rest)
        for l in o2.splitlines():
            cid, _, rest = l.partition(" ")
            mod.setdefault(cid, []).append(rest)
    return impl, mod, None


def compare_case(case, impl_lines, mod_lines):
    """Returns None if they agree, else dict describing the first difference."""
    impl_lines = impl_lines or []
    mod_lines = mod_lines or []
    for i, exp in enumerate(mod_lines):
        if i >= len(impl_lines):
            return {"op_index": i + 1, "expected": exp, "observed": "<missing>"}
        obs = impl_lines[i]
        if obs.startswith("FAULT"):
            return {"op_index": i + 1, "expected": exp, "observed": obs, "fault": obs.split(" ", 1)[1]}
        if not tokens_match(exp, obs):
            return {"op_index": i + 1, "expected": exp, "observed": obs}
    if len(impl_lines) > len(mod_lines):
        extra = impl_lines[len(mod_lines)]
        d = {"op_index": len(mod_lines) + 1, "expected": "<end>", "observed": extra}
        if extra.startswith("FAULT"):
            d["fault"] = extra.split(" ", 1)[1]
        return d
    return None


def op_of(case, diff):
    ops = case[5]
    k = diff["op_index"] - 1
    # FAULT lines carry no op index: the faulting op is the first one without output
    if 0 <= k < len(ops):
        return ops[k]
    return ["<end>"]


# --------------------------------------------------------------------------- known findings
def load_known():
    p = os.path.join(VERIF, "known_findings.json")
    if not os.path.exists(p):
        return []
    return [f for f in json.load(open(p)).get("findings", []) if f.get("status") == "known"]


def _lcp(a, b):
    n = 0
    while n < len(a) and n < len(b) and a[n] == b[n]:
        n += 1
    return n


def match_known(known, prop, case, diff):
    """A failing case is suppressed only if a classifier matches it exactly."""
    cid, stream, kind, params, strs, ops = case
    op = op_of(case, diff)
    before = ops[: max(0, diff["op_index"] - 1)]
    phase = "loaded" if any(o and o[0] == "reload" for o in before) else "built"
    lopt = 0
    for o in before + [op]:
        if o and o[0] == "reload" and len(o) > 2:
            lopt = int(o[2])
        if o and o[0] == "resave" and len(o) > 1 and o is op:
            lopt = int(o[1])
    for f in known:
        m = f["match"]
        if prop not in f.get("properties", [prop]):
            continue
        if "stream" in m and m["stream"] != stream:
            continue
        if "kind" in m and kind not in m["kind"]:
            continue
        if "phase" in m and m["phase"] != phase:
            continue
        if "op" in m and op[0] not in m["op"]:
            continue
        if "lopt" in m and lopt not in m["lopt"]:
            continue
        if "op_prefix" in m and [str(x) for x in op[:len(m["op_prefix"])]] != m["op_prefix"]:
            continue
        if "case_prefix" in m and not cid.startswith(m["case_prefix"]):
            continue
        if "observed_regex" in m and not re.search(m["observed_regex"], diff["observed"]):
            continue
        if "params" in m and any(str(params.get(k)) != str(v) for k, v in m["params"].items()):
            continue
        if "strings" in m and [s.hex() for s in strs] != m["strings"]:
            continue
        if "min_shared_prefix" in m and not any(_lcp(a, b) >= m["min_shared_prefix"] for a, b in zip(sorted(strs), sorted(strs)[1:])):
            continue
        return f
    return None


# --------------------------------------------------------------------------- shrinking
def shrink(case, cfg, rundir, predicate_sig, extra_defs=(), tag="", budget=40, phase2=None):
    """Delta debugging over strings, then ops.  `predicate_sig(diff)` tells whether a
    reduced case still fails the same way."""
    def fails(c):
        impl, mod, err = run_cases([c], cfg, rundir, extra_defs, tag, phase2=phase2)
        if err:
            return None
        d = compare_case(c, impl.get(c[0]), mod.get(c[0]))
        return d if d and predicate_sig(d) else None

    best = case
    t_start = time.time()
    bestd = fails(case)
    if not bestd:
        return case, None
    steps = 0
    if time.time() - t_start > 30:
        budget = 6          # a single run of this case takes long (large dictionary): shrink only a little
    # ops after the failing one are irrelevant
    k = bestd["op_index"]
    if k < len(best[5]):
        c2 = best[:5] + (best[5][:k],)
        d = fails(c2)
        steps += 1
        if d:
            best, bestd = c2, d
    for field in (4, 5):
        chunk = max(1, len(best[field]) // 2)
        while chunk >= 1 and steps < budget and time.time() - t_start < 240:
            i = 0
            progressed = False
            while i < len(best[field]) and steps < budget and time.time() - t_start < 240:
                items = best[field]
                cand_items = items[:i] + items[i + chunk:]
                if field == 4 and not cand_items:
                    i += chunk
                    continue
                if field == 5 and not cand_items:
                    i += chunk
                    continue
                cand = best[:field] + (cand_items,) + best[field + 1:]
                steps += 1
                d = fails(cand)
                if d:
                    best, bestd = cand, d
                    progressed = True
                else:
                    i += chunk
            if not progressed:
                chunk //= 2
    return best, bestd


# --------------------------------------------------------------------------- evidence / replay
def write_replay(prop, name, payload):
    d = os.path.join(OUT, "replays", prop)
    os.makedirs(d, exist_ok=True)
    p = os.path.join(d, name + ".json")
    with open(p, "w") as f:
        json.dump(payload, f, indent=1)
    return p


def case_to_json(case):
    cid, stream, kind, params, strs, ops = case
    return {"id": cid, "stream": stream, "kind": kind, "params": params,
            "strings_hex": [s.hex() for s in strs], "ops": [list(map(str, o)) for o in ops],
            "casefile": gen.CaseWriter.render(case)}


def sample_to_json(case):
    """A case as it is shown in the evidence file: abbreviated (the replay files hold complete cases)."""
    cid, stream, kind, params, strs, ops = case
    cut = lambda x: x if len(x) <= 64 else x[:64] + "...(%d chars)" % len(x)
    return {"id": cid, "stream": stream, "kind": kind, "params": params, "n_strings": len(strs), "n_ops": len(ops),
            "strings_hex_first": [cut(s.hex()) for s in strs[:6]],
            "ops_first": [[cut(str(a)) for a in o[:6]] for o in ops[:6]]}


def case_from_json(j):
    return (j["id"], j["stream"], j["kind"], j["params"], [bytes.fromhex(s) for s in j["strings_hex"]],
            [list(o) for o in j["ops"]])


def write_evidence(prop, ev):
    os.makedirs(os.path.join(OUT, "evidence"), exist_ok=True)
    p = os.path.join(OUT, "evidence", prop + ".json")
    tmp = p + ".tmp"
    with open(tmp, "w") as f:
        json.dump(ev, f, indent=1)
    os.replace(tmp, p)


def case_key(case):
    cid, stream, kind, params, strs, ops = case
    h = hashlib.sha1()
    h.update(repr((stream, kind, sorted(params.items()), strs, ops)).encode())
    return h.hexdigest()


# --------------------------------------------------------------------------- main check
def check(prop, tier, seed):
    t0 = time.time()
    spec = streams.PROPS[prop]
    rundir = os.path.join(BUILD, "run", "%s_%s_%d" % (prop, tier, os.getpid()))
    shutil.rmtree(rundir, ignore_errors=True)
    os.makedirs(rundir, exist_ok=True)
    known = load_known()
    violations = []      # (text, replay path)
    known_hits = {}      # finding id -> count
    lean = lean_stage(prop)
    log("[%s] lean: obligations=%d discharged=%d ok=%s (%.1fs)" % (prop, lean["obligations"], lean["discharged"], lean["ok"], lean["wall"]))
    for e in lean["errors"][:8]:
        log("   " + e[:300])
    lc = None
    if tier == "thorough" and lean["ok"]:
        ok, out = leanchecker(prop)
        lc = ok
        if not ok:
            lean["ok"] = False
            lean["broken"].append("leanchecker: " + out)

    rng = gen.Rng(seed).fork(prop + tier)
    total_cases, distinct, nontrivial = 0, set(), set()
    samples, dist = [], {}
    corr_errors = []
    mismatches = []
    retried = [0]
    retry_failed = [0]
    stream_sets = spec.streams(tier, rng)
    corpus = streams.load_corpus(prop)
    if corpus:
        stream_sets.insert(0, streams.StreamSet("corpus", "asan", corpus))
    impl_by_stream = {}
    for ss in stream_sets:
        ts = time.time()
        impl, mod, err = run_cases(ss.cases, ss.cfg, os.path.join(rundir, ss.name), ss.extra_defs, ss.tag, ss.timeout, ss.env, phase2=ss.phase2)
        if not err:
            impl_by_stream[ss.name] = impl
            if getattr(ss, "cross_with", None) and ss.cross_with in impl_by_stream:
                # the reference is the other run of the same cases, not the model
                mod = impl_by_stream[ss.cross_with]
        if err:
            corr_errors.append("%s: %s" % (ss.name, err))
            log("[%s] stream %s: ERROR %s" % (prop, ss.name, err[:1500]))
            continue
        nbad = 0
        for c in ss.cases:
            total_cases += 1
            key = case_key(c)
            distinct.add(key)
            if streams.nontrivial(c):
                nontrivial.add(key)
            dist_k = "%s/%s" % (ss.name, c[2] or c[1])
            dist[dist_k] = dist.get(dist_k, 0) + 1
            d = compare_case(c, impl.get(c[0]), mod.get(c[0]))
            if d and "timeout" in str(d.get("observed", "")) and ss.name not in ("pool", "tsan-pool") and retried[0] < 4 and retry_failed[0] < 2:
                # slow is not wrong: a case that ran out of its (load-dependent) time budget is run again
                # alone with a 15x budget (at most 15 minutes, or twice the stream's own budget); a real hang still times out and is reported
                i2, m2, e2 = run_cases([c], ss.cfg, os.path.join(rundir, ss.name + "_retry"), ss.extra_defs, ss.tag,
                                       min(ss.timeout * 15, max(900, 2 * ss.timeout)), ss.env, phase2=ss.phase2)
                if not e2:
                    d = compare_case(c, i2.get(c[0]), m2.get(c[0]))
                    retried[0] += 1
                    # a change that makes many cases hang must not turn the check into hours of retries:
                    # at most four cases are re-run, and none any more once two of them timed out again
                    if d and "timeout" in str(d.get("observed", "")):
                        retry_failed[0] += 1
            if d:
                nbad += 1
                mismatches.append((ss, c, d))
        if ss.cases and len(samples) < 6:
            samples.append(sample_to_json(ss.cases[rng.below(len(ss.cases))]))
        log("[%s] stream %-14s cfg=%-5s cases=%d mismatches=%d (%.1fs)" % (prop, ss.name, ss.cfg, len(ss.cases), nbad, time.time() - ts))

    # classify mismatches
    reported = {}
    for ss, c, d in mismatches:
        f = match_known(known, prop, c, d)
        if f:
            known_hits[f["id"]] = known_hits.get(f["id"], 0) + 1
            continue
        sig = (c[2], op_of(c, d)[0], d.get("fault", "answer"))
        if sig in reported:
            reported[sig][3] += 1
            continue
        reported[sig] = [ss, c, d, 1]
    if os.environ.get("VERIF_SURVEY"):
        for sig, (ss, c, d, cnt) in sorted(reported.items(), key=lambda kv: -kv[1][3]):
            log("  SURVEY %-10s %-8s %-70s %5d  e.g. %s" % (sig[0], sig[1], sig[2][:70], cnt, c[0]))
        if os.environ.get("VERIF_SURVEY") == "only":
            reported = {}
    for sig, (ss, c, d, cnt) in list(reported.items())[:6]:
        fault = d.get("fault")
        same = (lambda dd, fault=fault: (dd.get("fault") == fault) if fault else ("fault" not in dd))
        if fault and "timeout" in str(fault):
            small, sd = c, d      # every shrinking step of a hang costs a full time budget
        else:
            small, sd = shrink(c, ss.cfg, os.path.join(rundir, "shrink"), same, ss.extra_defs, ss.tag, phase2=ss.phase2)
        sd = sd or d
        name = "%s_%s_%s" % (sig[0] or c[1], sig[1], hashlib.sha1(repr(sig).encode()).hexdigest()[:8])
        rp = write_replay(prop, name, {
            "property": prop, "kind": "correspondence", "stream": ss.name, "build_cfg": ss.cfg,
            "extra_defs": list(ss.extra_defs), "phase2": ss.phase2.__name__ if ss.phase2 else None, "seed": seed, "tier": tier, "occurrences": cnt,
            "case": case_to_json(small), "expected": sd["expected"], "observed": sd["observed"],
            "op": op_of(small, sd), "original_case_id": c[0],
            "how_to_replay": "python3 tools/vcheck.py %s --replay <this file>" % prop})
        violations.append(("%s %s: expected `%s` observed `%s` (%d cases)" % (sig[0], sig[1], sd["expected"][:80], sd["observed"][:120], cnt), rp))

    if (not lean["ok"] or corr_errors) and not violations:
        # a proof obligation or the correspondence itself broke and no failing input was found
        rp = write_replay(prop, "broken_obligation", {
            "property": prop, "kind": "broken-obligation", "seed": seed, "tier": tier,
            "broken": lean["broken"], "lean_errors": lean["errors"][:20], "correspondence_errors": corr_errors,
            "search": "all streams of this tier were run against the implementation; none failed the property predicate"})
        violations.append(("obligation/correspondence no longer checks: %s" % "; ".join((lean["broken"] + corr_errors)[:3])[:300], rp, True))

    for fid, cnt in sorted(known_hits.items()):
        f = next(x for x in known if x["id"] == fid)
        log("KNOWN-FINDING: property=%s %s %s (%d cases)" % (prop, fid, f["what"], cnt))
    for v in violations:
        log("VIOLATION property=%s replay=%s%s" % (prop, v[1], " no-failing-input-found" if len(v) > 2 else ""))
        log("   " + v[0])

    wall = time.time() - t0
    tb = ["Lean 4.33.0 kernel" + ("; leanchecker re-check of CSD.Props.%s: %s" % (prop, "ok" if lc else "FAILED") if lc is not None else ""),
          "axioms allowed in property theorems: propext, Quot.sound, Classical.choice (audited per theorem below)",
          "tools/extract.py (generated fragments), harness/drv.cpp + tools/vcheck.py (correspondence), g++ 12 sanitizers",
          "hand-written models in lean/CSD/Model tied to the code by the correspondence streams listed under distribution"]
    ev = {
        "property_id": prop, "tier": tier, "seed": seed, "level": "proof",
        "coverage": {
            "obligations": max(lean["obligations"], 1) if lean["obligations"] else 0,
            "discharged": lean["discharged"],
            "checker_cmd": "cd lean && lake build CSD.Props.%s && lake env lean <#print axioms of every theorem in CSD/Props/%s.lean>%s" % (prop, prop, " && lake env leanchecker CSD.Props.%s" % prop if tier == "thorough" else ""),
            "trusted_base": tb,
            "theorems": lean["axioms"],
            "broken_obligations": lean["broken"],
            "evaluations": total_cases,
            "distinct_nontrivial": len(nontrivial),
            "distinct": len(distinct),
            "rule": spec.rule,
            "samples": samples,
            "distribution": dist,
            "known_findings_matched": known_hits,
            "partial_because": spec.partial,
            "explanation": spec.explanation,
        },
        "assumptions": spec.assumptions,
        "wall_s": round(wall, 2),
        "violations": len(violations),
    }
    if ev["coverage"]["obligations"] == 0:
        # schema: a proof-level file needs >= 1 obligation; fall back to the generic keys
        del ev["coverage"]["obligations"], ev["coverage"]["discharged"]
    write_evidence(prop, ev)
    shutil.rmtree(rundir, ignore_errors=True)
    log("[%s] tier=%s seed=%d cases=%d distinct_nontrivial=%d known=%d violations=%d wall=%.1fs" % (
        prop, tier, seed, total_cases, len(nontrivial), sum(known_hits.values()), len(violations), wall))
    return 1 if violations else 0


def replay(prop, path):
    j = json.load(open(path))
    if j.get("kind") != "correspondence":
        log(json.dumps(j, indent=1))
        res = lean_stage(prop)
        log("lean stage ok=%s broken=%s" % (res["ok"], res["broken"]))
        return 0 if res["ok"] else 1
    with LakeLock():
        sh(["lake", "build", "csd_model"], cwd=LEAN)
        snapshot_model()
    c = case_from_json(j["case"])
    rundir = os.path.join(BUILD, "run", "replay_%d" % os.getpid())
    p2 = getattr(streams, j["phase2"]) if j.get("phase2") else None
    impl, mod, err = run_cases([c], j.get("build_cfg", "asan"), rundir, tuple(j.get("extra_defs", [])), phase2=p2)
    if err:
        log("replay error: " + err)
        return 2
    for a, b in zip(mod.get(c[0], []), impl.get(c[0], []) + ["<missing>"] * 1000):
        log("%s | expected: %-40s | observed: %s" % ("  " if tokens_match(a, b) else "!!", a[:100], b[:160]))
    for b in impl.get(c[0], [])[len(mod.get(c[0], [])):]:
        log("!! | observed extra: " + b)
    d = compare_case(c, impl.get(c[0]), mod.get(c[0]))
    shutil.rmtree(rundir, ignore_errors=True)
    if d:
        log("VIOLATION property=%s replay=%s" % (prop, path))
        return 1
    log("replay passes")
    return 0


def setup():
    t0 = time.time()
    with LakeLock():
        err = extract.regenerate(REPO, os.path.join(LEAN, "CSD", "Generated"))
        if err:
            log("extract: " + err)
        rc, out = sh(["lake", "build"], cwd=LEAN, timeout=3000)
        log(out[-3000:])
        if rc != 0:
            return 1
    for cfg in ("asan", "tsan"):
        exe, err = build.build_harness("drv", cfg, REPO)
        if err:
            log(err)
            return 1
        log("built %s" % exe)
    log("setup done in %.1fs" % (time.time() - t0))
    return 0


def main():
    ap = argparse.ArgumentParser()
    ap.add_argument("prop", nargs="?")
    ap.add_argument("--tier", default=os.environ.get("VERIF_TIER", "quick"))
    ap.add_argument("--replay")
    ap.add_argument("--setup", action="store_true")
    a = ap.parse_args()
    if a.setup:
        sys.exit(setup())
    seed = int(os.environ.get("VERIF_SEED", "1"))
    if a.replay:
        sys.exit(replay(a.prop, a.replay))
    if a.prop not in streams.PROPS:
        log("unknown property " + str(a.prop))
        sys.exit(2)
    sys.exit(check(a.prop, a.tier if a.tier in ("quick", "thorough") else "quick", seed))


if __name__ == "__main__":
    main()
