#!/usr/bin/env python3
"""seedsave.py <seed_out_dir> <name> <caught-by...>: archive a confirmed seeded defect under /verif/seeded/<name>/"""
import json, os, shutil, sys
out, name = sys.argv[1], sys.argv[2]
caught = sys.argv[3:]
d = os.path.join("/verif/seeded", name)
os.makedirs(d, exist_ok=True)
for f in ("patch.diff", "demo.cpp", "run.sh"):
    shutil.copy(os.path.join(out, f), os.path.join(d, f))
meta = json.load(open(os.path.join(out, "meta.json")))
cf = "/tmp/cf_%s.txt" % meta["property"]
meta["confirmed_by_us"] = open(cf).read().strip().splitlines() if os.path.exists(cf) else []
meta["what_we_ran"] = ["tools/seedconfirm.sh (tests with change; demo with and without change, fresh copies of /repo HEAD)",
                       "tools/seedcheck.sh patch.diff " + " ".join(c.split(":")[0] for c in caught)]
meta["caught_by"] = caught
json.dump(meta, open(os.path.join(d, "meta.json"), "w"), indent=1)
print("saved", d)
