import sys, subprocess, os
pid = sys.argv[1]
here = os.path.dirname(os.path.abspath(__file__))
txt = subprocess.run(['python3', os.path.join(here, 'seed_prompt.py'), pid], capture_output=True, text=True).stdout
txt = txt.replace('/tmp/seed_%s' % pid, '/tmp/seedc_%s' % pid)
txt = txt.replace("Prefer changing code of kinds OTHER than the two covered by the existing tests if the property allows",
  "This is a THIRD, independent round; the obvious places (the top-level locate/extract of a kind, the save/load field lists, the worker loop) have been used already. Look deeper: the iterators (iterators/*.h), the builders (DecodingTableBuilder, Huffman, HuTucker, IRePair and its heap/hash/records), the FM-index internals (SSA, suffix sorting, sampling), XBW internals (XBW.cpp, TrieNode), the hash representations used by the load options (Hashdh/HashBdh/HashBBdh), the bundled libcds structures actually used by a dictionary (BitSequenceRG/RRR, WaveletTreeNoptrs, Mapper, BitString, Array), reallocation/growth code, or an interaction between two of these. Prefer changing code of kinds OTHER than the two covered by the existing tests if the property allows")
print(txt)
