#!/usr/bin/env python3
"""Build the libCSD sources of $VERIF_REPO (default /repo) into /verif/.build.

Every translation unit listed in the repository's own CMakeLists files is
compiled from the *current working tree* with -DLIBCSD_VERIF and the sanitizer
configuration asked for.  Objects are cached by content hash (flags + TU text +
hash of every header in the tree), so an unchanged tree costs nothing and any
edit to /repo is picked up on the next run.
"""
import hashlib, os, re, subprocess, sys, fcntl, shutil
from concurrent.futures import ThreadPoolExecutor

VERIF = os.path.dirname(os.path.dirname(os.path.abspath(__file__)))
BUILD = os.environ.get("VERIF_BUILD") or os.path.join(VERIF, ".build")
REPO = os.environ.get("VERIF_REPO", "/repo")
GUARD = "LIBCSD_VERIF"

UBSAN_MEM = "null,alignment,bounds,vptr,object-size,return,unreachable,bool,enum,pointer-overflow"
CONFIGS = {
    # implementation-side monitor for memory safety
    "asan": ["-O1", "-g", "-fno-omit-frame-pointer", "-fsanitize=address",
             "-fsanitize=" + UBSAN_MEM, "-fno-sanitize-recover=all"],
    "tsan": ["-O1", "-g", "-fno-omit-frame-pointer", "-fsanitize=thread"],
    "plain": ["-O2", "-g"],
}
COMMON = ["-std=gnu++17", "-w", "-D" + GUARD, "-pthread"]


def sh(cmd, **kw):
    return subprocess.run(cmd, stdout=subprocess.PIPE, stderr=subprocess.STDOUT, text=True, **kw)


def repo_sources(repo):
    """The .cpp files the repository's CMake build puts into libCSD.a and libcds.a."""
    out = []
    for cm, prefix in (("CMakeLists.txt", ""), ("libcds/CMakeLists.txt", "libcds/")):
        txt = open(os.path.join(repo, cm)).read()
        for line in txt.splitlines():
            line = line.split("#", 1)[0].strip()
            m = re.fullmatch(r"([\w/\.\-]+\.cpp)", line)
            if m and not m.group(1).startswith("test/"):
                p = prefix + m.group(1)
                if os.path.exists(os.path.join(repo, p)) and p not in out:
                    out.append(p)
    return out


def headers_hash(repo):
    h = hashlib.sha1()
    for root, dirs, files in os.walk(repo):
        dirs[:] = sorted(d for d in dirs if d not in (".git", "_build", "test"))
        for f in sorted(files):
            if f.endswith((".h", ".hpp")):
                p = os.path.join(root, f)
                h.update(os.path.relpath(p, repo).encode())
                h.update(open(p, "rb").read())
    return h.hexdigest()


class Lock:
    def __init__(self, name):
        os.makedirs(BUILD, exist_ok=True)
        self.path = os.path.join(BUILD, name + ".lock")

    def __enter__(self):
        self.f = open(self.path, "w")
        fcntl.flock(self.f, fcntl.LOCK_EX)

    def __exit__(self, *a):
        fcntl.flock(self.f, fcntl.LOCK_UN)
        self.f.close()


def includes(repo):
    return ["-I" + repo, "-I" + os.path.join(repo, "libcds/includes")]


def build_lib(cfg, repo=None, extra_defs=(), tag=""):
    """Returns (path to static library, error text or None)."""
    repo = repo or REPO
    flags = COMMON + CONFIGS[cfg] + list(extra_defs)
    hh = headers_hash(repo)
    objdir = os.path.join(BUILD, "obj")
    os.makedirs(objdir, exist_ok=True)
    srcs = repo_sources(repo)
    jobs = []
    objs = []
    for s in srcs:
        body = open(os.path.join(repo, s), "rb").read()
        key = hashlib.sha1((" ".join(flags) + "|" + hh + "|" + s + "|").encode() + body).hexdigest()
        o = os.path.join(objdir, key + ".o")
        objs.append(o)
        if not os.path.exists(o):
            jobs.append((s, o))
    errors = []

    def cc(job):
        s, o = job
        tmp = o + ".tmp%d" % os.getpid()
        r = sh(["g++"] + flags + includes(repo) + ["-c", os.path.join(repo, s), "-o", tmp])
        if r.returncode != 0:
            errors.append("compile %s failed:\n%s" % (s, r.stdout[-4000:]))
        else:
            os.replace(tmp, o)

    with Lock("objs"):
        if jobs:
            with ThreadPoolExecutor(max_workers=16) as ex:
                list(ex.map(cc, jobs))
        if errors:
            return None, "\n".join(errors)
        libkey = hashlib.sha1("".join(objs).encode()).hexdigest()[:16]
        lib = os.path.join(BUILD, "lib_%s%s_%s.a" % (cfg, tag, libkey))
        if not os.path.exists(lib):
            tmp = lib + ".tmp%d" % os.getpid()
            if os.path.exists(tmp):
                os.remove(tmp)
            r = sh(["ar", "rcs", tmp] + objs)
            if r.returncode != 0:
                return None, "ar failed: " + r.stdout
            os.replace(tmp, lib)
            # keep only a handful of old libraries
            olds = sorted((f for f in os.listdir(BUILD) if f.startswith("lib_") and f.endswith(".a")),
                          key=lambda f: os.path.getmtime(os.path.join(BUILD, f)))
            for f in olds[:-12]:
                os.remove(os.path.join(BUILD, f))
    return lib, None


def build_harness(name, cfg, repo=None, extra_defs=(), tag=""):
    """Compile harness/<name>.cpp against the library built from the working tree."""
    repo = repo or REPO
    lib, err = build_lib(cfg, repo, extra_defs, tag)
    if err:
        return None, err
    src = os.path.join(VERIF, "harness", name + ".cpp")
    flags = COMMON + CONFIGS[cfg] + list(extra_defs)
    hh = headers_hash(repo)
    hdeps = b"".join(open(os.path.join(VERIF, "harness", f), "rb").read()
                     for f in sorted(os.listdir(os.path.join(VERIF, "harness"))) if f.endswith(".h"))
    key = hashlib.sha1((" ".join(flags) + hh + lib).encode() + open(src, "rb").read() + hdeps).hexdigest()[:16]
    exe = os.path.join(BUILD, "%s_%s%s_%s" % (name, cfg, tag, key))
    with Lock("harness_" + name + cfg + tag):
        if not os.path.exists(exe):
            tmp = exe + ".tmp%d" % os.getpid()
            r = sh(["g++"] + flags + includes(repo) + ["-I" + os.path.join(VERIF, "harness"),
                                                        src, lib, "-ldl", "-o", tmp])
            if r.returncode != 0:
                return None, "harness %s failed to compile:\n%s" % (name, r.stdout[-6000:])
            os.replace(tmp, exe)
            olds = sorted((f for f in os.listdir(BUILD) if f.startswith(name + "_" + cfg + tag + "_") and "." not in f),
                          key=lambda f: os.path.getmtime(os.path.join(BUILD, f)))
            for f in olds[:-3]:
                os.remove(os.path.join(BUILD, f))
    return exe, None


def gc_objects(max_files=4000):
    objdir = os.path.join(BUILD, "obj")
    if not os.path.isdir(objdir):
        return
    fs = sorted((os.path.join(objdir, f) for f in os.listdir(objdir)), key=os.path.getmtime)
    for f in fs[:-max_files]:
        os.remove(f)


if __name__ == "__main__":
    cfgs = sys.argv[1:] or ["asan"]
    for c in cfgs:
        lib, err = build_lib(c)
        print(c, lib, err or "ok")
