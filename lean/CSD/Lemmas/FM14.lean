/-
  FM-index, part 14: the rows `[lo P, lo P + occs P)` are the rows whose suffix starts with `P`
  (`block_rows`, `row_in_block`), and a row whose suffix starts with an ordinary byte lies inside a
  member (`row_inside`).
-/
import CSD.Lemmas.FM13

namespace CSD.FM
open CSD.PFC

/-! ### Blocks of a sorted list -/

theorem nodup_of_sorted {L : List Row} (h : L.Pairwise (fun a b => a.2 < b.2)) : L.Nodup :=
  List.nodup_iff_pairwise_ne.mpr (h.imp (fun {a b} hab e => by subst e; exact List.lt_irrefl _ hab))

theorem getElem_inj_of_sorted {L : List Row} (hs : L.Pairwise (fun a b => a.2 < b.2)) {i j : Nat}
    (hi : i < L.length) (hj : j < L.length) (he : L[i] = L[j]) : i = j := by
  have h := List.pairwise_iff_getElem.mp hs
  rcases Nat.lt_trichotomy i j with hlt | heq | hgt
  · have := h i j hi hj hlt
    rw [he] at this
    exact absurd this (List.lt_irrefl _)
  · exact heq
  · have := h j i hj hi hgt
    rw [he] at this
    exact absurd this (List.lt_irrefl _)

theorem sorted_pred_iff {L : List Row} (hs : L.Pairwise (fun a b => a.2 < b.2)) {q : List Sym → Bool}
    (hq : DownClosed q) (j : Nat) (hj : j < L.length) : q L[j].2 = true ↔ j < cntq L q := by
  have hft := filter_eq_take (fun a b : Row => a.2 < b.2) (fun r => q r.2) (fun a b hab hb => hq a.2 b.2 hab hb) L hs
  unfold cntq
  constructor
  · intro h
    have hm : L[j] ∈ L.filter (fun r => q r.2) := List.mem_filter.mpr ⟨List.getElem_mem hj, h⟩
    rw [hft, List.mem_take_iff_getElem] at hm
    obtain ⟨i, hi, he⟩ := hm
    have hi' : i < L.length := by omega
    have := getElem_inj_of_sorted hs hi' hj he
    omega
  · intro h
    have hm : L[j] ∈ L.take (L.countP fun r => q r.2) := by
      rw [List.mem_take_iff_getElem]
      exact ⟨j, by omega, rfl⟩
    rw [← hft] at hm
    exact (List.mem_filter.mp hm).2

/-- Every row of the block starts with the pattern. -/
theorem block_rows {T : List Sym} {L : List Row} (hSA : IsSA T L) (P : List Sym) (j : Nat)
    (h1 : lo L P ≤ j) (h2 : j < lo L P + occs L P) :
    ∃ hj : j < L.length, preP P L[j].2 = true := by
  have hlen := hi_le_length L P
  have hj : j < L.length := by omega
  refine ⟨hj, ?_⟩
  have hhi : hiP P L[j].2 = true := by
    rw [sorted_pred_iff hSA.2 (downClosed_hiP P) j hj, cntq_hiP]
    exact h2
  have hlt : ¬ ltP P L[j].2 = true := by
    rw [sorted_pred_iff hSA.2 (downClosed_ltP P) j hj]
    unfold lo at h1; omega
  simp only [hiP, Bool.or_eq_true] at hhi
  rcases hhi with h | h
  · exact absurd h hlt
  · exact h

/-- Every row that starts with the pattern is in the block, at index `lo L (its suffix)`. -/
theorem row_in_block {T : List Sym} {L : List Row} (hSA : IsSA T L) (P : List Sym) {p' : Option Sym} {t : List Sym}
    (hrow : (p', t) ∈ L) (hpre : preP P t = true) : lo L P ≤ lo L t ∧ lo L t < lo L P + occs L P := by
  have hget := getElem_lo hSA hrow
  obtain ⟨hj, he⟩ := List.getElem?_eq_some_iff.mp hget
  have hhi : hiP P L[lo L t].2 = true := by rw [he]; simp [hiP, hpre]
  have hlt : ¬ ltP P L[lo L t].2 = true := by
    rw [he]
    simp only [ltP, decide_eq_true_eq]
    obtain ⟨y, hy⟩ := isPrefixOf_iff.mp hpre
    rw [hy]; exact not_lt_of_prefix P y
  rw [sorted_pred_iff hSA.2 (downClosed_hiP P) _ hj, cntq_hiP] at hhi
  rw [sorted_pred_iff hSA.2 (downClosed_ltP P) _ hj] at hlt
  unfold lo at hlt ⊢
  exact ⟨by omega, hhi⟩

/-- Two rows with the same content are the same index. -/
theorem index_unique {T : List Sym} {L : List Row} (hSA : IsSA T L) {j : Nat} (hj : j < L.length) :
    lo L L[j].2 = j := by
  have hrow : (L[j].1, L[j].2) ∈ L := List.getElem_mem hj
  have hget := getElem_lo hSA hrow
  obtain ⟨hk, he⟩ := List.getElem?_eq_some_iff.mp hget
  exact getElem_inj_of_sorted hSA.2 hk hj he

/-! ### Suffixes of the text of a dictionary -/

def tailsOf : List Sym → List (List Sym)
  | [] => [[]]
  | x :: t => (x :: t) :: tailsOf t

theorem map_snd_rowsFrom : ∀ (X : List Sym) (p : Option Sym), (rowsFrom p X).map (·.2) = tailsOf X
  | [], _ => rfl
  | x :: t, _ => by simp [rowsFrom, tailsOf, map_snd_rowsFrom t]

theorem mem_tailsOf_append : ∀ (a X t : List Sym), t ∈ tailsOf (a ++ X) →
    (∃ u v, a = u ++ v ∧ v ≠ [] ∧ t = v ++ X) ∨ t ∈ tailsOf X
  | [], X, t, h => Or.inr h
  | x :: a, X, t, h => by
    simp only [List.cons_append, tailsOf, List.mem_cons] at h
    rcases h with rfl | h
    · exact Or.inl ⟨[], x :: a, rfl, by simp, rfl⟩
    · rcases mem_tailsOf_append a X t h with ⟨u, v, rfl, hv, rfl⟩ | h'
      · exact Or.inl ⟨x :: u, v, rfl, hv, rfl⟩
      · exact Or.inr h'

/-- A suffix of the body that starts with an ordinary byte lies inside a member. -/
theorem tail_inside : ∀ (S : List Str) (y : Sym) (t' : List Sym), 2 ≤ y → (y :: t') ∈ tailsOf (body S) →
    ∃ (i : Nat) (hi : i < S.length) (u v : List Sym), symsOf S[i] = u ++ v ∧ v ≠ [] ∧
      y :: t' = v ++ 1 :: body (S.drop (i + 1))
  | [], y, t', hy, h => by
    simp only [body, tailsOf, List.mem_cons, List.cons.injEq, List.not_mem_nil, or_false] at h
    rcases h with ⟨h, _⟩ | h
    · omega
    · cases h
  | s :: rest, y, t', hy, h => by
    simp only [body] at h
    rcases mem_tailsOf_append (symsOf s) (1 :: body rest) (y :: t') h with ⟨u, v, huv, hv, ht⟩ | h'
    · exact ⟨0, by simp, u, v, by simpa using huv, hv, by simpa using ht⟩
    · simp only [tailsOf, List.mem_cons, List.cons.injEq] at h'
      rcases h' with ⟨h1, _⟩ | h'
      · omega
      · obtain ⟨i, hi, u, v, huv, hv, ht⟩ := tail_inside rest y t' hy h'
        exact ⟨i + 1, by simpa using hi, u, v, by simpa using huv, hv, by simpa using ht⟩

theorem row_inside {S : List Str} {p' : Option Sym} {y : Sym} {t' : List Sym} (hy : 2 ≤ y)
    (h : (p', y :: t') ∈ rows (mkText S)) :
    ∃ (i : Nat) (hi : i < S.length) (u v : List Sym), symsOf S[i] = u ++ v ∧ v ≠ [] ∧
      y :: t' = v ++ 1 :: body (S.drop (i + 1)) := by
  have hm : (y :: t') ∈ tailsOf (mkText S) := by
    rw [← map_snd_rowsFrom (mkText S) none]
    exact List.mem_map.mpr ⟨_, h, rfl⟩
  simp only [mkText, tailsOf, List.mem_cons, List.cons.injEq] at hm
  rcases hm with ⟨h1, _⟩ | hm
  · omega
  · exact tail_inside S y t' hy hm

end CSD.FM
