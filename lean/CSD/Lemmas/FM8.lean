/-
  FM-index, part 8: the hypotheses `DictOK` hold for the model's own build, and the number of
  rows found by the backward search is the number of occurrences of the pattern in the text.
-/
import CSD.Lemmas.FM7

namespace CSD.FM

theorem dictOK_buildDict (S : List Str) (samplesuff : Nat) :
    DictOK S (sortRows (mkText S)) (buildDict S samplesuff) :=
  ⟨isSA_sortRows _, built_buildIndex samplesuff, rfl⟩

/-- Occurrences of `P` in `T`, counted suffix by suffix. -/
def occurrences (P T : List Sym) : Nat := sufCount (preP P) T

theorem occs_eq_occurrences {T : List Sym} {L : List Row} (hSA : IsSA T L) (P : List Sym) :
    occs L P = occurrences P T := by
  unfold occs cntq occurrences
  rw [hSA.1.countP_eq, rows, countP_rowsFrom]

end CSD.FM
