/-! Index arithmetic over `filterMap` and `flatten` (used by the DAC proofs). -/
namespace CSD.ListIdx

variable {α β : Type}

/-- Number of elements among the first `i` on which `f` is defined. -/
def cntB (f : α → Option β) (l : List α) (i : Nat) : Nat := ((l.take i).filterMap f).length

theorem split_at (l : List α) (i : Nat) (hi : i < l.length) :
    l = l.take i ++ l[i] :: l.drop (i + 1) := by
  rw [← List.drop_eq_getElem_cons hi, List.take_append_drop]

theorem filterMap_split (f : α → Option β) (l : List α) (i : Nat) (hi : i < l.length) :
    l.filterMap f = (l.take i).filterMap f ++ ([l[i]].filterMap f ++ (l.drop (i + 1)).filterMap f) := by
  have h := split_at l i hi
  have : l.filterMap f = (l.take i ++ ([l[i]] ++ l.drop (i + 1))).filterMap f := by
    rw [List.singleton_append, ← h]
  rw [this, List.filterMap_append, List.filterMap_append]

/-- The element produced by `l[i]` sits at index `cntB f l i` of `l.filterMap f`. -/
theorem filterMap_getElem? (f : α → Option β) (l : List α) (i : Nat) (hi : i < l.length) (b : β)
    (hb : f l[i] = some b) : (l.filterMap f)[cntB f l i]? = some b := by
  rw [filterMap_split f l i hi]
  unfold cntB
  rw [List.getElem?_append_right (Nat.le_refl _), Nat.sub_self]
  simp [List.filterMap_cons, hb]

theorem take_succ_eq (l : List α) (i : Nat) (hi : i < l.length) : l.take (i + 1) = l.take i ++ [l[i]] := by
  rw [List.take_add_one, List.getElem?_eq_getElem hi]; rfl

theorem cntB_succ_some (f : α → Option β) (l : List α) (i : Nat) (hi : i < l.length) (b : β)
    (hb : f l[i] = some b) : cntB f l (i + 1) = cntB f l i + 1 := by
  unfold cntB
  rw [take_succ_eq l i hi, List.filterMap_append]
  simp [List.filterMap_cons, hb]

theorem cntB_succ_none (f : α → Option β) (l : List α) (i : Nat) (hi : i < l.length)
    (hb : f l[i] = none) : cntB f l (i + 1) = cntB f l i := by
  unfold cntB
  rw [take_succ_eq l i hi, List.filterMap_append]
  simp [List.filterMap_cons, hb]

/-- The first `cntB f l i` produced elements are those produced by the first `i` elements. -/
theorem filterMap_take (f : α → Option β) (l : List α) (i : Nat) (hi : i ≤ l.length) :
    (l.filterMap f).take (cntB f l i) = (l.take i).filterMap f := by
  have : l.filterMap f = (l.take i).filterMap f ++ (l.drop i).filterMap f := by
    rw [← List.filterMap_append, List.take_append_drop]
  rw [this]
  exact List.take_left' rfl

theorem cntB_length (f : α → Option β) (l : List α) : cntB f l l.length = (l.filterMap f).length := by
  unfold cntB; rw [List.take_length]

theorem cntB_le (f : α → Option β) (l : List α) (i : Nat) : cntB f l i ≤ (l.filterMap f).length := by
  unfold cntB
  have : l.filterMap f = (l.take i).filterMap f ++ (l.drop i).filterMap f := by
    rw [← List.filterMap_append, List.take_append_drop]
  rw [this, List.length_append]; omega

theorem cntB_lt (f : α → Option β) (l : List α) (i : Nat) (hi : i < l.length) (b : β)
    (hb : f l[i] = some b) : cntB f l i < (l.filterMap f).length := by
  have := cntB_le f l (i + 1)
  rw [cntB_succ_some f l i hi b hb] at this
  omega

/-! ### flatten -/

/-- Elements before block `j`. -/
def pre (Ls : List (List α)) (j : Nat) : Nat := ((Ls.take j).map List.length).sum

theorem pre_eq (Ls : List (List α)) (j : Nat) : pre Ls j = (Ls.take j).flatten.length := by
  simp [pre, List.length_flatten]

theorem pre_succ (Ls : List (List α)) (j : Nat) (hj : j < Ls.length) : pre Ls (j + 1) = pre Ls j + Ls[j].length := by
  unfold pre
  rw [take_succ_eq Ls j hj]
  simp only [List.map_append, List.sum_append, List.map_cons, List.map_nil, List.sum_cons, List.sum_nil]
  omega

theorem flatten_split (Ls : List (List α)) (j : Nat) (hj : j < Ls.length) :
    Ls.flatten = (Ls.take j).flatten ++ (Ls[j] ++ (Ls.drop (j + 1)).flatten) := by
  have h := split_at Ls j hj
  have : Ls.flatten = (Ls.take j ++ Ls[j] :: Ls.drop (j + 1)).flatten := by rw [← h]
  rw [this, List.flatten_append, List.flatten_cons]

theorem flatten_getElem? (Ls : List (List α)) (j p : Nat) (hj : j < Ls.length) (hp : p < Ls[j].length) :
    Ls.flatten[pre Ls j + p]? = Ls[j][p]? := by
  rw [flatten_split Ls j hj, pre_eq]
  rw [List.getElem?_append_right (by omega)]
  have : (Ls.take j).flatten.length + p - (Ls.take j).flatten.length = p := by omega
  rw [this, List.getElem?_append_left hp]

theorem flatten_take (Ls : List (List α)) (j q : Nat) (hj : j < Ls.length) (hq : q ≤ Ls[j].length) :
    Ls.flatten.take (pre Ls j + q) = (Ls.take j).flatten ++ Ls[j].take q := by
  rw [flatten_split Ls j hj, pre_eq, List.take_append]
  have h1 : ((Ls.take j).flatten).take ((Ls.take j).flatten.length + q) = (Ls.take j).flatten :=
    List.take_of_length_le (by omega)
  have h2 : (Ls.take j).flatten.length + q - (Ls.take j).flatten.length = q := by omega
  rw [h1, h2, List.take_append_of_le_length hq]

theorem flatten_take_pre (Ls : List (List α)) (j : Nat) (hj : j ≤ Ls.length) :
    Ls.flatten.take (pre Ls j) = (Ls.take j).flatten := by
  have : Ls.flatten = (Ls.take j).flatten ++ (Ls.drop j).flatten := by
    rw [← List.flatten_append, List.take_append_drop]
  rw [this, pre_eq]
  exact List.take_left' rfl

end CSD.ListIdx

namespace CSD.ListIdx
variable {α : Type}

theorem pre_mono (Ls : List (List α)) (j k : Nat) (hjk : j ≤ k) (hk : k ≤ Ls.length) : pre Ls j ≤ pre Ls k := by
  induction k with
  | zero => have : j = 0 := by omega
            subst this; exact Nat.le_refl _
  | succ k ih =>
    by_cases e : j = k + 1
    · subst e; exact Nat.le_refl _
    · have := ih (by omega) (by omega)
      rw [pre_succ Ls k (by omega)]; omega

end CSD.ListIdx
