import CSD.Model.PFCLoad
import CSD.Lemmas.LogSeq

/-! `LogSequence(vector, bits)` stores what it is given; `load ∘ save = id` on bytes. -/
namespace CSD.LogSeq

/-! ### little-endian numbers -/

theorem leBytes_length (n k : Nat) : (leBytes n k).length = k := by
  induction k generalizing n with
  | zero => rfl
  | succ k ih => simp [leBytes, ih]

theorem fromLE_leBytes (k : Nat) : ∀ n, n < 256 ^ k → fromLE (leBytes n k) = n := by
  induction k with
  | zero => intro n h; simp at h; subst h; rfl
  | succ k ih =>
    intro n h
    simp only [leBytes, fromLE]
    have h1 : n / 256 < 256 ^ k := by
      rw [Nat.pow_succ] at h
      exact Nat.div_lt_of_lt_mul (by rw [Nat.mul_comm]; exact h)
    rw [ih _ h1]
    have : (n % 256).toUInt8.toNat = n % 256 := by
      simp [Nat.toUInt8, UInt8.toNat_ofNat']
    rw [this]; omega

theorem readLE_leBytes (k n : Nat) (h : n < 256 ^ k) (rest : List UInt8) :
    readLE k (leBytes n k ++ rest) = some (n, rest) := by
  unfold readLE
  have hl := leBytes_length n k
  rw [if_neg (by simp [hl])]
  rw [List.take_append_of_le_length (by omega), List.take_of_length_le (by omega),
    List.drop_append_of_le_length (by omega), List.drop_of_length_le (by omega), fromLE_leBytes k n h]
  rfl

theorem wordsOf_flatMap (data : List Word) (rest : List UInt8) :
    wordsOf data.length (data.flatMap (fun w => leBytes w.toNat 8) ++ rest) = data := by
  induction data with
  | nil => rfl
  | cons w data ih =>
    simp only [List.length_cons, wordsOf, List.flatMap_cons, List.append_assoc]
    have hl := leBytes_length w.toNat 8
    have h1 : (leBytes w.toNat 8 ++ (data.flatMap (fun w => leBytes w.toNat 8) ++ rest)).take 8 = leBytes w.toNat 8 := by
      rw [List.take_append_of_le_length (by omega), List.take_of_length_le (by omega)]
    have h2 : (leBytes w.toNat 8 ++ (data.flatMap (fun w => leBytes w.toNat 8) ++ rest)).drop 8 =
        data.flatMap (fun w => leBytes w.toNat 8) ++ rest := by
      rw [List.drop_append_of_le_length (by omega), List.drop_of_length_le (by omega)]; rfl
    rw [h1, h2, ih, fromLE_leBytes 8 _ (by have := w.isLt; omega)]
    simp

theorem flatMap_le8_length (data : List Word) :
    (data.flatMap (fun w => leBytes w.toNat 8)).length = 8 * data.length := by
  induction data with
  | nil => rfl
  | cons w data ih => simp [List.flatMap_cons, leBytes_length, ih]; omega

theorem numBytesPadded_eq (w n : Nat) : numBytesPadded w n = 8 * numWords w n := by
  unfold numBytesPadded numWords
  generalize w * n = x
  simp only
  split <;> omega

/-- **`load ∘ save = id`** for a LogSequence whose word array has the allocated size. -/
theorem load_save (s : T) (hb : s.numbits < 256) (hn : s.numentries < 2 ^ 64)
    (hd : s.data.length = numWords s.numbits s.numentries) (rest : List UInt8) :
    load (s.save ++ rest) = some (s, rest) := by
  unfold T.save load
  simp only [List.cons_append, List.append_assoc]
  rw [readLE_leBytes 8 s.numentries (by omega)]
  simp only
  have hbn : s.numbits.toUInt8.toNat = s.numbits := by
    simp [Nat.toUInt8, UInt8.toNat_ofNat']; omega
  rw [hbn, numBytesPadded_eq]
  have hfl := flatMap_le8_length s.data
  have htake : (s.data.flatMap (fun w => leBytes w.toNat 8)).take (8 * numWords s.numbits s.numentries) =
      s.data.flatMap (fun w => leBytes w.toNat 8) := by
    apply List.take_of_length_le; rw [hfl, hd]; exact Nat.le_refl _
  rw [htake]
  have hlen : ¬ ((s.data.flatMap (fun w => leBytes w.toNat 8) ++ rest).length < 8 * numWords s.numbits s.numentries) := by
    simp [hfl, hd]
  rw [if_neg hlen]
  have h8 : 8 * numWords s.numbits s.numentries / 8 = s.data.length := by rw [hd]; omega
  rw [h8, wordsOf_flatMap]
  have hdrop : (s.data.flatMap (fun w => leBytes w.toNat 8) ++ rest).drop (8 * numWords s.numbits s.numentries) = rest := by
    rw [List.drop_append_of_le_length (by rw [hfl, hd]; exact Nat.le_refl _), List.drop_of_length_le (by rw [hfl, hd]; exact Nat.le_refl _)]
    rfl
  rw [hdrop]

/-! ### the vector constructor -/

theorem ofNat_high_bits (w v : Nat) (hv : v ≤ maxVal w) : ∀ t, w ≤ t → (BitVec.ofNat 64 v).getLsbD t = false := by
  intro t ht
  rw [BitVec.getLsbD_ofNat]
  have h2 : 0 < 2 ^ w := Nat.two_pow_pos w
  have : v < 2 ^ t := by
    unfold maxVal at hv
    have := Nat.pow_le_pow_right (by omega : 2 > 0) ht
    omega
  simp [Nat.testBit_lt_two_pow this]

/-- State of the constructor loop after `i` values. -/
structure Filled (vs : List Nat) (w : Nat) (s : T) (i : Nat) : Prop where
  nb : s.numbits = w
  ne : s.numentries = vs.length
  len : s.data.length = numWords w vs.length
  got : ∀ j (hj : j < vs.length), j < i → s.get j = some (BitVec.ofNat 64 vs[j])

theorem go_spec (vs : List Nat) (w : Nat) (hw1 : 1 ≤ w) (hw : w ≤ 64) (hv : ∀ v ∈ vs, v ≤ maxVal w) :
    ∀ (rest : List Nat) (i : Nat) (s : T), vs.drop i = rest → Filled vs w s i →
      ∃ s', ofList.go s i rest = some s' ∧ Filled vs w s' vs.length := by
  intro rest
  induction rest with
  | nil =>
    intro i s hd f
    have hi : vs.length ≤ i := by
      rcases Nat.lt_or_ge i vs.length with h | h
      · have : (vs.drop i).length = 0 := by rw [hd]; rfl
        simp at this; omega
      · exact h
    exact ⟨s, rfl, ⟨f.nb, f.ne, f.len, fun j hj _ => f.got j hj (by omega)⟩⟩
  | cons v rest ih =>
    intro i s hd f
    have hi : i < vs.length := by
      rcases Nat.lt_or_ge i vs.length with h | h
      · exact h
      · rw [List.drop_of_length_le h] at hd; cases hd
    have hvi : vs[i] = v := by
      have : (vs.drop i)[0]? = some v := by rw [hd]; rfl
      simp [List.getElem?_eq_getElem hi] at this; exact this
    have hvm : v ≤ maxVal w := hv v (hvi ▸ List.getElem_mem hi)
    have hb : i * w + w ≤ 64 * s.data.length := by rw [f.len]; exact numWords_enough w vs.length i hi
    obtain ⟨d', hs, hlen, _⟩ := setField_spec s.data w i (BitVec.ofNat 64 v) hw1 hw hb (ofNat_high_bits w v hvm)
    have hset : s.set i v = some { s with data := d' } := by
      unfold T.set
      rw [if_neg (by rw [f.ne]; omega), if_neg (by rw [f.nb]; omega), f.nb, hs]
    have f' : Filled vs w { s with data := d' } (i + 1) := by
      refine ⟨f.nb, f.ne, by rw [← f.len]; exact hlen, ?_⟩
      intro j hj hji
      unfold T.get
      simp only
      rw [if_neg (by rw [f.ne]; omega), f.nb]
      by_cases e : j = i
      · subst e
        rw [hvi]
        exact get_set_same s.data d' w j _ hw1 hw hb (ofNat_high_bits w v hvm) hs
      · have hbj : j * w + w ≤ 64 * s.data.length := by rw [f.len]; exact numWords_enough w vs.length j hj
        rw [get_set_other s.data d' w i j _ hw1 hw hb hbj (ofNat_high_bits w v hvm) (fun h => e h.symm) hs]
        have := f.got j hj (by omega)
        unfold T.get at this
        rw [if_neg (by rw [f.ne]; omega), f.nb] at this
        exact this
    have hd' : vs.drop (i + 1) = rest := by
      have : (vs.drop i).drop 1 = rest := by rw [hd]; rfl
      rw [List.drop_drop] at this; simpa [Nat.add_comm] using this
    obtain ⟨s', hgo, fs'⟩ := ih (i + 1) _ hd' f'
    exact ⟨s', by simp only [ofList.go, hset]; exact hgo, fs'⟩

/-- **`LogSequence(vector, w)` holds the vector**: it succeeds when every value fits in `w` bits and
every field reads back the value given. -/
theorem ofList_spec (vs : List Nat) (w : Nat) (hw1 : 1 ≤ w) (hw : w ≤ 64) (hv : ∀ v ∈ vs, v ≤ maxVal w) :
    ∃ s, ofList vs w = some s ∧ Filled vs w s vs.length := by
  unfold ofList
  apply go_spec vs w hw1 hw hv vs 0 (mk w vs.length) (by simp)
  exact ⟨rfl, rfl, by simp [mk], fun j _ h => by omega⟩

end CSD.LogSeq
