import CSD.Lemmas.PFCExtract
import CSD.Lemmas.PFCScan
import CSD.Lemmas.Sorted

/-! `StringDictionaryPFC::locate` on a built dictionary equals `Spec.locate`. -/
namespace CSD.PFC
open CSD

theorem build_buckets (b0 : Nat) (S : List Str) :
    (build b0 S).buckets = (S.length + clamp b0 - 1) / clamp b0 := by
  have hb : clamp b0 ≠ 0 := by have := clamp_ge_two b0; omega
  show ((chunks (clamp b0) S).map encBucket).length = _
  rw [List.length_map, chunks_length _ hb]

/-- `k < buckets ↔ k * b < n`. -/
theorem lt_buckets_iff (b n k : Nat) (hb : 0 < b) : k < (n + b - 1) / b ↔ k * b < n := by
  rw [Nat.lt_iff_add_one_le, Nat.le_div_iff_mul_le hb, Nat.succ_mul]
  omega

/-- Bucket `k` (0-based) of a built dictionary: its header is `S[k*b]`. -/
theorem header_at (b0 : Nat) (S : List Str) (k : Nat) (hk : k * clamp b0 < S.length) :
    ∃ L rest, (S.drop (k * clamp b0)).take (clamp b0) = S[k * clamp b0] :: L ∧
      bucketPtr (build b0 S) (k + 1) = some (S[k * clamp b0] ++ 0 :: (encTail S[k * clamp b0] L ++ rest)) := by
  obtain ⟨rest, hp⟩ := bucketPtr_build b0 S k hk
  have hb := clamp_ge_two b0
  have hd : S.drop (k * clamp b0) = S[k * clamp b0] :: S.drop (k * clamp b0 + 1) :=
    List.drop_eq_getElem_cons hk
  have htk : (S.drop (k * clamp b0)).take (clamp b0)
      = S[k * clamp b0] :: (S.drop (k * clamp b0 + 1)).take (clamp b0 - 1) := by
    rw [hd, List.take_cons (by omega)]
  refine ⟨(S.drop (k * clamp b0 + 1)).take (clamp b0 - 1), rest, htk, ?_⟩
  rw [hp, htk]
  simp [encBucket]

section
variable (b0 : Nat) (S : List Str) (q : Str)

/-- What `locateBucket` promises. -/
def GoodBucket : BucketRes → Prop
  | .header k => 1 ≤ k ∧ (k - 1) * clamp b0 < S.length ∧ S[(k - 1) * clamp b0]? = some q
  | .candidate k => (k = 0 ∨ (k - 1) * clamp b0 < S.length) ∧
      (∀ j, 1 ≤ j → j ≤ k → ∀ h, S[(j - 1) * clamp b0]? = some h → scmp h q < 0) ∧
      (∀ j, k < j → ∀ h, S[(j - 1) * clamp b0]? = some h → scmp h q > 0)

theorem locateBucketLoop_spec (hS : ∀ s ∈ S, nulFree s) (hq : nulFree q) (hsort : SortedLt S) :
    ∀ (fuel left right center : Nat) (cmp : Int),
      1 ≤ left → (right = 0 ∨ (right - 1) * clamp b0 < S.length) → left ≤ right + 1 → right + 1 - left ≤ fuel →
      (∀ j, 1 ≤ j → j < left → ∀ h, S[(j - 1) * clamp b0]? = some h → scmp h q < 0) →
      (∀ j, right < j → ∀ h, S[(j - 1) * clamp b0]? = some h → scmp h q > 0) →
      (right < left → (if cmp < 0 then center else center - 1) = right) →
      ∃ res, locateBucketLoop (build b0 S) q fuel left right center cmp = some res ∧ GoodBucket b0 S q res := by
  have hb := clamp_ge_two b0
  intro fuel
  induction fuel with
  | zero =>
    intro left right center cmp h1 hr hlr hfuel hlo hhi hcons
    have hrl : right < left := by omega
    refine ⟨.candidate right, ?_, ?_⟩
    · simp [locateBucketLoop, hcons hrl]
    · exact ⟨hr, fun j hj1 hj2 => hlo j hj1 (by omega), hhi⟩
  | succ fuel ih =>
    intro left right center cmp h1 hr hlr hfuel hlo hhi hcons
    by_cases hle : left ≤ right
    · -- one iteration
      simp only [locateBucketLoop, hle, ↓reduceIte]
      generalize hc : (left + right) / 2 = c
      have hc1 : left ≤ c := by rw [← hc]; omega
      have hc2 : c ≤ right := by rw [← hc]; omega
      have hrpos : (right - 1) * clamp b0 < S.length := by
        rcases hr with h | h
        · omega
        · exact h
      have hcn : (c - 1) * clamp b0 < S.length :=
        Nat.lt_of_le_of_lt (Nat.mul_le_mul_right _ (by omega)) hrpos
      obtain ⟨L, rest, _, hp⟩ := header_at b0 S (c - 1) hcn
      have hcc : c - 1 + 1 = c := by omega
      rw [hcc] at hp
      rw [hp]
      simp only
      have hhn : nulFree S[(c - 1) * clamp b0] := hS _ (List.getElem_mem _)
      rw [readCStr_append hhn]
      simp only
      have hget : S[(c - 1) * clamp b0]? = some S[(c - 1) * clamp b0] := List.getElem?_eq_getElem hcn
      by_cases hgt : scmp S[(c - 1) * clamp b0] q > 0
      · simp only [hgt, ↓reduceIte]
        apply ih left (c - 1) c _ h1
        · by_cases hc0 : c - 1 = 0
          · exact Or.inl hc0
          · refine Or.inr (Nat.lt_of_le_of_lt (Nat.mul_le_mul_right _ (by omega)) hcn)
        · omega
        · omega
        · exact hlo
        · intro j hj h hjh
          by_cases hjr : right < j
          · exact hhi j hjr h hjh
          · by_cases hjc : j = c
            · subst hjc; rw [hget] at hjh; cases hjh; exact hgt
            · -- c < j ≤ right: its header is above header c
              have hjn : (j - 1) * clamp b0 < S.length := by
                rcases Nat.lt_or_ge ((j - 1) * clamp b0) S.length with h' | h'
                · exact h'
                · rw [List.getElem?_eq_none h'] at hjh; cases hjh
              have hlt : (c - 1) * clamp b0 < (j - 1) * clamp b0 :=
                Nat.mul_lt_mul_of_lt_of_le (by omega) (Nat.le_refl _) (by omega)
              have := hsort.getElem_lt hlt hjn
              rw [List.getElem?_eq_getElem hjn] at hjh; cases hjh
              have h2 : scmp q S[(c - 1) * clamp b0] < 0 := (scmp_lt_iff_gt _ _).mpr hgt
              exact (scmp_lt_iff_gt _ _).mp (scmp_trans_lt h2 this)
        · intro _; simp; omega
      · simp only [hgt, ↓reduceIte]
        by_cases hlt : scmp S[(c - 1) * clamp b0] q < 0
        · simp only [hlt, ↓reduceIte]
          apply ih (c + 1) right c _ (by omega) hr (by omega) (by omega)
          · intro j hj1 hj2 h hjh
            by_cases hjl : j < left
            · exact hlo j hj1 hjl h hjh
            · by_cases hjc : j = c
              · subst hjc; rw [hget] at hjh; cases hjh; exact hlt
              · have hjn : (j - 1) * clamp b0 < S.length :=
                  Nat.lt_of_le_of_lt (Nat.mul_le_mul_right _ (by omega)) hcn
                have hlt' : (j - 1) * clamp b0 < (c - 1) * clamp b0 :=
                  Nat.mul_lt_mul_of_lt_of_le (by omega) (Nat.le_refl _) (by omega)
                have := hsort.getElem_lt hlt' hcn
                rw [List.getElem?_eq_getElem hjn] at hjh; cases hjh
                exact scmp_trans_lt this hlt
          · exact hhi
          · intro hh; simp [hlt]; omega
        · simp only [hlt, ↓reduceIte]
          have h0 : scmp S[(c - 1) * clamp b0] q = 0 := by omega
          have heq := (scmp_eq_zero hhn hq).mp h0
          exact ⟨.header c, rfl, by omega, hcn, by rw [hget, heq]⟩
    · have hrl : right < left := by omega
      refine ⟨.candidate right, ?_, ?_⟩
      · simp [locateBucketLoop, hle, hcons hrl]
      · exact ⟨hr, fun j hj1 hj2 => hlo j hj1 (by omega), hhi⟩

end
end CSD.PFC
