import CSD.Model.IdIter2

namespace CSD.Dups

/-- Skipping a run: `pre ++ x^(k+1) ++ y :: tail` with `y ≠ x`, from the first `x`. -/
theorem advance_run (x y : Nat) (hxy : x ≠ y) (tail : List Nat) :
    ∀ (k : Nat) (pre : List Nat) (fuel : Nat), k + 1 ≤ fuel →
      advance (pre ++ List.replicate (k + 1) x ++ y :: tail) fuel pre.length = some (pre.length + k + 1)
  | 0, pre, fuel, hf => by
    obtain ⟨f, rfl⟩ : ∃ f, fuel = f + 1 := ⟨fuel - 1, by omega⟩
    have h0 : (pre ++ List.replicate 1 x ++ y :: tail)[pre.length]? = some x := by
      simp [List.getElem?_append_left, List.getElem?_append_right]
    have h1 : (pre ++ List.replicate 1 x ++ y :: tail)[pre.length + 1]? = some y := by
      rw [List.append_assoc, List.getElem?_append_right (by omega)]
      simp
    simp only [advance, h0, h1, hxy, ↓reduceIte]
  | k + 1, pre, fuel, hf => by
    obtain ⟨f, rfl⟩ : ∃ f, fuel = f + 1 := ⟨fuel - 1, by omega⟩
    have h0 : (pre ++ List.replicate (k + 2) x ++ y :: tail)[pre.length]? = some x := by
      rw [List.append_assoc, List.getElem?_append_right (by omega)]
      simp [List.replicate_succ]
    have h1 : (pre ++ List.replicate (k + 2) x ++ y :: tail)[pre.length + 1]? = some x := by
      rw [List.append_assoc, List.getElem?_append_right (by omega)]
      simp [List.replicate_succ]
    simp only [advance, h0, h1, ↓reduceIte]
    have hre : pre ++ List.replicate (k + 2) x ++ y :: tail = (pre ++ [x]) ++ List.replicate (k + 1) x ++ y :: tail := by
      simp [List.replicate_succ]
    rw [hre]
    have := advance_run x y hxy tail k (pre ++ [x]) f (by omega)
    simp only [List.length_append, List.length_cons, List.length_nil] at this
    rw [this]
    congr 1; omega

/-- Split off the leading run. -/
theorem leading_run : ∀ (x : Nat) (l : List Nat),
    ∃ k rest, x :: l = List.replicate (k + 1) x ++ rest ∧ (∀ y t, rest = y :: t → y ≠ x) ∧
      dedupAdj (x :: l) = x :: dedupAdj rest ∧ rest.length + k = l.length
  | x, [] => by
    refine ⟨0, [], by simp, ?_, by simp [dedupAdj], by simp⟩
    intro y t h; cases h
  | x, z :: l => by
    by_cases hxz : x = z
    · subst hxz
      obtain ⟨k, rest, he, hne, hd, hl⟩ := leading_run x l
      refine ⟨k + 1, rest, ?_, hne, ?_, by simp; omega⟩
      · rw [he]; simp [List.replicate_succ]
      · simp only [dedupAdj, ↓reduceIte]; exact hd
    · refine ⟨0, z :: l, by simp, ?_, ?_, by simp⟩
      · intro y t h; cases h; exact fun e => hxz e.symm
      · simp [dedupAdj, hxz]

/-- **The duplicate-skipping iterator is exact**: over the sorted occurrences
followed by the sentinel it yields every distinct ID once (adjacent repetitions
removed), in order, never reads beyond the sentinel cell, and then `hasNext` is
false. Stated from an arbitrary position for the induction. -/
theorem drain_from : ∀ (n : Nat) (pre rest : List Nat) (fuel : Nat), rest.length ≤ n →
    rest.length + 1 ≤ fuel → (∀ v ∈ rest, v ≠ 0) →
    It.drain fuel ⟨pre ++ rest ++ [0], pre.length, pre.length + rest.length⟩ = some (dedupAdj rest)
  | _, pre, [], fuel, _, hf, _ => by
    obtain ⟨f, rfl⟩ : ∃ f, fuel = f + 1 := ⟨fuel - 1, by simp at hf; omega⟩
    simp [It.drain, It.hasNext, dedupAdj]
  | 0, pre, x :: l, _, hn, _, _ => by simp at hn
  | n + 1, pre, x :: l, fuel, hn, hf, hpos => by
    obtain ⟨f, rfl⟩ : ∃ f, fuel = f + 1 := ⟨fuel - 1, by simp at hf; omega⟩
    obtain ⟨k, rest', he, hne, hd, hl⟩ := leading_run x l
    have hx : x ≠ 0 := hpos x (by simp)
    have hids : ∃ y tail, pre ++ (x :: l) ++ [0] = pre ++ List.replicate (k + 1) x ++ y :: tail ∧ x ≠ y ∧
        rest' ++ [0] = y :: tail := by
      cases hr : rest' with
      | nil => exact ⟨0, [], by rw [he, hr]; simp, hx, by simp⟩
      | cons y t => exact ⟨y, t ++ [0], by rw [he, hr]; simp, fun e => hne y t hr e.symm, by simp⟩
    obtain ⟨y, tail, hids, hxy, hrest⟩ := hids
    rw [It.drain]
    have hhas : (⟨pre ++ (x :: l) ++ [0], pre.length, pre.length + (x :: l).length⟩ : It).hasNext = true := by
      simp [It.hasNext]
    simp only [hhas, ↓reduceIte, It.next]
    have hcur : (pre ++ (x :: l) ++ [0])[pre.length]? = some x := by
      rw [List.append_assoc, List.getElem?_append_right (by omega)]; simp
    simp only [hcur]
    rw [hids, advance_run x y hxy tail k pre _ (by simp; omega)]
    simp only
    have hcont := drain_from n (pre ++ List.replicate (k + 1) x) rest' f (by simp at hn; omega)
      (by simp at hf; omega) (by intro v hv; apply hpos v; rw [he]; simp [hv])
    have hlen : (pre ++ List.replicate (k + 1) x).length = pre.length + k + 1 := by simp; omega
    rw [hlen] at hcont
    have harr : pre ++ List.replicate (k + 1) x ++ rest' ++ [0] = pre ++ List.replicate (k + 1) x ++ y :: tail := by
      rw [List.append_assoc _ rest', hrest]
    rw [harr] at hcont
    have hsc : pre.length + (x :: l).length = pre.length + k + 1 + rest'.length := by simp; omega
    rw [hsc, hcont, hd]

/-- `locateSubstr` of the FM-index: `occs` sorted, `occs[num_occ] = 0`, iterator over `num_occ`. -/
theorem drain_all (occs : List Nat) (hpos : ∀ v ∈ occs, v ≠ 0) :
    It.drain (occs.length + 1) ⟨occs ++ [0], 0, occs.length⟩ = some (dedupAdj occs) := by
  have := drain_from occs.length [] occs (occs.length + 1) (Nat.le_refl _) (Nat.le_refl _) hpos
  simpa using this

end CSD.Dups
