import CSD.Model.Codes

namespace CSD.Codes

theorem mem_codes_leaves : ∀ (t : Tree) (s : Nat) (c : List Bool), (s, c) ∈ codes t → s ∈ leaves t
  | .leaf x, s, c, h => by simp [codes] at h; simp [leaves, h.1]
  | .node l r, s, c, h => by
    simp only [codes, List.mem_append, List.mem_map, Prod.mk.injEq, Prod.exists] at h
    rcases h with ⟨a, b, hm, rfl, _⟩ | ⟨a, b, hm, rfl, _⟩
    · simp [leaves, mem_codes_leaves l _ _ hm]
    · simp [leaves, mem_codes_leaves r _ _ hm]

/-- Decoding the codeword of a leaf (followed by anything) returns that leaf and the rest. -/
theorem decodeSym_code : ∀ (t : Tree) (s : Nat) (c rest : List Bool), (s, c) ∈ codes t →
    decodeSym t (c ++ rest) = some (s, rest)
  | .leaf x, s, c, rest, h => by
    simp [codes] at h; obtain ⟨rfl, rfl⟩ := h; simp [decodeSym]
  | .node l r, s, c, rest, h => by
    simp only [codes, List.mem_append, List.mem_map, Prod.mk.injEq, Prod.exists] at h
    rcases h with ⟨a, b, hm, rfl, rfl⟩ | ⟨a, b, hm, rfl, rfl⟩
    · simp [decodeSym, decodeSym_code l a b rest hm]
    · simp [decodeSym, decodeSym_code r a b rest hm]

/-- **Prefix-freeness**: if the codeword of one leaf is a prefix of the codeword of
another entry, they are the same entry (same position in the table). -/
theorem codes_prefix_free : ∀ (t : Tree) (s₁ s₂ : Nat) (c₁ c₂ ext : List Bool),
    (s₁, c₁) ∈ codes t → (s₂, c₂) ∈ codes t → c₂ = c₁ ++ ext → ext = [] ∧ s₁ = s₂ := by
  intro t s₁ s₂ c₁ c₂ ext h1 h2 he
  have d1 := decodeSym_code t s₁ c₁ ext h1
  have d2 := decodeSym_code t s₂ c₂ [] h2
  rw [List.append_nil, he, d1] at d2
  simp only [Option.some.injEq, Prod.mk.injEq] at d2
  exact ⟨d2.2, d2.1⟩

theorem lookup_mem {α β : Type} [BEq α] [LawfulBEq α] : ∀ (l : List (α × β)) (a : α) (b : β),
    l.lookup a = some b → (a, b) ∈ l
  | [], _, _, h => by simp at h
  | (x, y) :: l, a, b, h => by
    simp only [List.lookup] at h
    by_cases hx : a == x
    · simp only [hx] at h; simp at hx; cases h; subst hx; simp
    · simp only [hx] at h
      exact List.mem_cons_of_mem _ (lookup_mem l a b h)

/-- **Decoding inverts encoding**: any word that can be encoded with the table is
decoded back to itself, whatever follows it in the bit stream. -/
theorem decode_encode (t : Tree) : ∀ (w : List Nat) (bits rest : List Bool),
    encode t w = some bits → decode t w.length (bits ++ rest) = some (w, rest)
  | [], bits, rest, h => by simp [encode] at h; subst h; simp [decode]
  | s :: w, bits, rest, h => by
    simp only [encode] at h
    cases hc : encodeSym t s with
    | none => simp [hc] at h
    | some c =>
      cases hr : encode t w with
      | none => simp [hc, hr] at h
      | some r =>
        simp only [hc, hr, Option.some.injEq] at h
        subst h
        have hm : (s, c) ∈ codes t := lookup_mem _ _ _ hc
        simp only [List.length_cons, decode, List.append_assoc]
        rw [decodeSym_code t s c (r ++ rest) hm]
        simp only
        rw [decode_encode t w r rest hr]

/-- **Completeness** (Kraft equality): in a tree whose internal nodes all have two
children — every tree of this type — the code lengths satisfy Σ 2^(D−ℓ) = 2^D for
every `D` at least the depth: no bit pattern is wasted. -/
theorem kraft_eq : ∀ (t : Tree) (d : Nat), depth t ≤ d → kraft t d = 2 ^ d
  | .leaf _, d, _ => rfl
  | .node l r, d, h => by
    simp only [depth] at h
    have hl : depth l ≤ d - 1 := by omega
    have hr : depth r ≤ d - 1 := by omega
    simp only [kraft, kraft_eq l (d - 1) hl, kraft_eq r (d - 1) hr]
    have : d = (d - 1) + 1 := by omega
    conv => rhs; rw [this, Nat.pow_succ]
    omega

/-- Symbols strictly increasing from left to right (an alphabetic tree). -/
def ordered : Tree → Prop
  | .leaf _ => True
  | .node l r => ordered l ∧ ordered r ∧ ∀ a ∈ leaves l, ∀ b ∈ leaves r, a < b

/-- **Order preservation**: in an alphabetic tree (Hu-Tucker) a smaller symbol has a
lexicographically smaller codeword. -/
theorem ordered_codes_lt : ∀ (t : Tree), ordered t → ∀ (s₁ s₂ : Nat) (c₁ c₂ : List Bool),
    (s₁, c₁) ∈ codes t → (s₂, c₂) ∈ codes t → s₁ < s₂ → bitsLt c₁ c₂ = true
  | .leaf x, _, s₁, s₂, c₁, c₂, h1, h2, hlt => by
    simp [codes] at h1 h2; omega
  | .node l r, ho, s₁, s₂, c₁, c₂, h1, h2, hlt => by
    obtain ⟨hol, hor, hlr⟩ := ho
    simp only [codes, List.mem_append, List.mem_map, Prod.mk.injEq, Prod.exists] at h1 h2
    rcases h1 with ⟨a1, b1, m1, rfl, rfl⟩ | ⟨a1, b1, m1, rfl, rfl⟩ <;>
      rcases h2 with ⟨a2, b2, m2, rfl, rfl⟩ | ⟨a2, b2, m2, rfl, rfl⟩
    · simp [bitsLt, ordered_codes_lt l hol _ _ _ _ m1 m2 hlt]
    · simp [bitsLt]
    · have := hlr _ (mem_codes_leaves l _ _ m2) _ (mem_codes_leaves r _ _ m1); omega
    · simp [bitsLt, ordered_codes_lt r hor _ _ _ _ m1 m2 hlt]

end CSD.Codes
