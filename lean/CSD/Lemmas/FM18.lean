/-
  FM-index, part 18: `StringDictionaryFMINDEX::extractPrefix` yields exactly the members that start with
  the pattern, in ID order (NULL when there is none).
-/
import CSD.Lemmas.FM17

namespace CSD.FM
open CSD.PFC

theorem counts_le_length (S : List Str) (p : Str) :
    S.countP (fun s => decide (symsOf s < symsOf p)) + S.countP (fun s => (symsOf p).isPrefixOf (symsOf s)) ≤ S.length := by
  have := countP_or_disjoint (fun s : Str => decide (symsOf s < symsOf p)) (fun s : Str => (symsOf p).isPrefixOf (symsOf s))
    (by
      rintro s ⟨h1, h2⟩
      simp only [decide_eq_true_eq] at h1
      obtain ⟨y, hy⟩ := isPrefixOf_iff.mp h2
      rw [hy] at h1
      exact not_lt_of_prefix _ _ h1) S
  rw [← this]
  exact List.countP_le_length

/-- `extractPrefix`: `some none` (the NULL iterator) when no member starts with `p`; otherwise the iterator
drains to the members `S[lo-1], …, S[hi-1]` of the ID range of `locatePrefix`, i.e. exactly the members that
start with `p`, in order. -/
theorem extractPrefix_spec {S : List Str} {L : List Row} {d : Dict} (hv : validDict S = true) (hd : DictOK S L d)
    (hml : ∀ s ∈ S, s.length < d.maxlength) (p : Str) (hp : p.all validByte = true) (hne : p ≠ []) :
    d.extractPrefix p =
      some (if S.countP (fun s => (symsOf p).isPrefixOf (symsOf s)) = 0 then none
            else some (((S.drop (S.countP (fun s => decide (symsOf s < symsOf p)))).take
                          (S.countP (fun s => (symsOf p).isPrefixOf (symsOf s)))).map symsOf)) := by
  have hVS := validS_of_validDict hv
  have hp2 := ge2_of_validStr hp
  have hall : ∀ c ∈ prePat p, c ≠ 0 ∧ c < 256 := by
    intro c hc
    simp only [prePat, List.mem_cons] at hc
    rcases hc with rfl | hc
    · omega
    · have h1 := hp2 c hc
      have h2 := lt256_of_symsOf p c hc
      omega
  obtain ⟨res, hres, hspec⟩ := bsearch_spec hd.sa hd.built (prePat p) (by simp [prePat]) hall
  have hocc := occs_prePat hd.sa hVS hp2 hne
  have hlo := lo_prePat hd.sa hVS hp2 hne
  have hle := counts_le_length S p
  unfold Dict.extractPrefix locateP
  have hpat : (1 :: symsOf p : List Sym) = prePat p := rfl
  rw [hpat, hres]
  cases res with
  | notInAlphabet =>
    simp only [BSpec] at hspec
    rw [hocc] at hspec
    simp [hspec]
  | range sp ep =>
    simp only [BSpec] at hspec
    rcases hspec with ⟨h1, h2, h3⟩ | ⟨h1, h2⟩
    · have hsp : ¬ sp < 2 := by omega
      simp only [h1, ↓reduceIte, hsp]
      have hcnt : ep - sp + 1 = S.countP (fun s => (symsOf p).isPrefixOf (symsOf s)) := by omega
      have hpos : ¬ S.countP (fun s => (symsOf p).isPrefixOf (symsOf s)) = 0 := by omega
      simp only [hpos, ↓reduceIte]
      cases hh : ep - sp + 1 with
      | zero => omega
      | succ m =>
        have hl : sp - 2 = S.countP (fun s => decide (symsOf s < symsOf p)) + 1 := by omega
        have hk : ep - 2 + 1 - (sp - 2) = S.countP (fun s => (symsOf p).isPrefixOf (symsOf s)) := by omega
        have hdr := drain_spec hv hd hml (S.countP (fun s => (symsOf p).isPrefixOf (symsOf s)))
          (S.countP (fun s => decide (symsOf s < symsOf p)))
          (S.countP (fun s => decide (symsOf s < symsOf p)) + S.countP (fun s => (symsOf p).isPrefixOf (symsOf s)) + 1 -
            (S.countP (fun s => decide (symsOf s < symsOf p)) + 1)) (by omega) (by omega)
        have hsc : ep - 2 + 1 = S.countP (fun s => decide (symsOf s < symsOf p)) +
            S.countP (fun s => (symsOf p).isPrefixOf (symsOf s)) + 1 := by omega
        rw [hl, hsc, hdr]
        rfl
    · have : ¬ sp ≤ ep := by omega
      simp only [this, ↓reduceIte]
      rw [hocc] at h2
      simp [h2]

end CSD.FM
