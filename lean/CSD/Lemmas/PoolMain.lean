import CSD.Lemmas.PoolProd

namespace CSD.Pool

theorem inv_step_worker (s s' : State) (i : Nat) (hI : Inv s) (h : stepWorker s i = some s') : Inv s' := by
  unfold stepWorker at h
  by_cases hge : i ≥ s.n
  · simp [hge] at h
  · simp only [hge, ↓reduceIte] at h
    have hi : i < s.n := by omega
    cases hpc : s.wpc i with
    | loopStopped =>
      rw [hpc] at h; simp only [Option.some.injEq] at h; subst h
      have hnd := prod_not_done_of_worker s hI i hi (by rw [hpc]; simp)
      apply inv_wpc_only s hI i hi _ (by rw [hpc]; rfl) _ _ _ hnd <;> split <;> simp [WPc.holding]
    | loopEmpty =>
      rw [hpc] at h; simp only [Option.some.injEq] at h; subst h
      have hnd := prod_not_done_of_worker s hI i hi (by rw [hpc]; simp)
      apply inv_wpc_only s hI i hi _ (by rw [hpc]; rfl) _ _ _ hnd <;> split <;> simp [WPc.holding]
    | lock =>
      rw [hpc] at h
      by_cases hm : s.mutex = none
      · simp only [hm, ↓reduceIte, Option.some.injEq] at h; subst h
        exact inv_acquire s hI i hi hm (prod_not_done_of_worker s hI i hi (by rw [hpc]; simp))
      · simp [hm] at h
    | wake =>
      rw [hpc] at h
      by_cases hm : s.mutex = none
      · simp only [hm, ↓reduceIte, Option.some.injEq] at h; subst h
        exact inv_acquire s hI i hi hm (prod_not_done_of_worker s hI i hi (by rw [hpc]; simp))
      · simp [hm] at h
    | pred =>
      rw [hpc] at h; simp only [Option.some.injEq] at h; subst h
      have hnd := prod_not_done_of_worker s hI i hi (by rw [hpc]; simp)
      apply inv_holding_move s hI i hi _ (by rw [hpc]; rfl) _ _ _ hnd
      · split <;> rfl
      · split <;> simp
      · intro hv
        by_cases hc : (s.stopped i || !s.queue.isEmpty) = true
        · simp [hc] at hv
        · simp only [Bool.or_eq_true, Bool.not_eq_true', not_or, Bool.not_eq_true, Bool.not_eq_false] at hc
          exact ⟨hc.1, by simpa using hc.2⟩
    | sleep =>
      rw [hpc] at h; simp only [Option.some.injEq] at h; subst h
      have hnd := prod_not_done_of_worker s hI i hi (by rw [hpc]; simp)
      exact inv_release s hI i hi .waiting s.queue (by rw [hpc]; rfl) rfl (by simp) (Or.inl rfl)
        (fun _ => hI.sleepFalse i hi hpc) hnd
    | waiting => rw [hpc] at h; simp at h
    | check =>
      rw [hpc] at h
      have hnd := prod_not_done_of_worker s hI i hi (by rw [hpc]; simp)
      have hold : (s.wpc i).holding = true := by rw [hpc]; rfl
      by_cases hc : (s.stopped i && s.queue.isEmpty) = true
      · simp only [hc, ↓reduceIte, Option.some.injEq] at h; subst h
        exact inv_release s hI i hi .exitNotify s.queue hold rfl (by simp) (Or.inl rfl) (by simp) hnd
      · simp only [hc] at h
        cases hq : s.queue with
        | nil =>
          rw [hq] at h; simp only [Bool.false_eq_true, ↓reduceIte, Option.some.injEq] at h; subst h
          have := inv_release s hI i hi .loopStopped s.queue hold rfl (by simp) (Or.inl rfl) (by simp) hnd
          rw [hq] at this; exact this
        | cons t q =>
          rw [hq] at h; simp only [Bool.false_eq_true, ↓reduceIte, Option.some.injEq] at h; subst h
          exact inv_release s hI i hi (.unlocked t) q hold rfl (by simp) (Or.inr ⟨t, hq⟩) (by simp) hnd
    | unlocked t =>
      rw [hpc] at h; simp only [Option.some.injEq] at h; subst h
      have hnd := prod_not_done_of_worker s hI i hi (by rw [hpc]; simp)
      exact inv_notify _ (inv_wpc_only s hI i hi (.run t) (by rw [hpc]; rfl) rfl (by simp) (by simp) hnd)
    | run t =>
      rw [hpc] at h; simp only [Option.some.injEq] at h; subst h
      have hnd := prod_not_done_of_worker s hI i hi (by rw [hpc]; simp)
      have := inv_wpc_only s hI i hi .loopStopped (by rw [hpc]; rfl) rfl (by simp) (by simp) hnd
      exact inv_logs _ this _ _
    | exitNotify =>
      rw [hpc] at h; simp only [Option.some.injEq] at h; subst h
      have hnd := prod_not_done_of_worker s hI i hi (by rw [hpc]; simp)
      exact inv_notify _ (inv_wpc_only s hI i hi .done (by rw [hpc]; rfl) rfl (by simp) (by simp) hnd)
    | done => rw [hpc] at h; simp at h

theorem inv_step_prod (s s' : State) (hI : Inv s) (h : stepProd s = some s') : Inv s' := by
  unfold stepProd at h
  cases hp : s.prod with
  | addLock t r =>
    rw [hp] at h
    by_cases hm : s.mutex = none
    · simp only [hm, ↓reduceIte, Option.some.injEq] at h; subst h
      exact inv_prod_acquire s hI (.addPush t r) hm rfl rfl (by intro h; cases h) (by rw [hp]; rfl)
        (by intro k h; cases h) (by simp) (by simp) (by simp)
    · simp [hm] at h
  | addPush t r =>
    rw [hp] at h; simp only [Option.some.injEq] at h; subst h
    exact inv_push s hI t r hp
  | addNotify r =>
    rw [hp] at h; simp only [Option.some.injEq] at h; subst h
    have hn := nextAdd_props r
    apply inv_prod_notify s hI (nextAdd r) (by rw [hp]; rfl) hn.1
    · intro h; rcases h with h | h | h
      · exact absurd h hn.2.2.2.1
      · exact absurd h hn.2.2.2.2.1
      · exact absurd h hn.2.2.2.2.2.1
    · intro h; rw [hp] at h; cases h
    · exact hn.2.2.2.2.2.2
    · exact hn.2.2.2.2.2.1
  | stopLock =>
    rw [hp] at h
    by_cases hm : s.mutex = none
    · simp only [hm, ↓reduceIte, Option.some.injEq] at h; subst h
      exact inv_prod_acquire s hI (.stopSet 0) hm rfl rfl
        (by intro _; right; intro i
            cases hs : s.stopped i
            · rfl
            · have := hI.flagsOnlyStop i hs; rw [hp] at this; cases this)
        (by rw [hp]; rfl) (by intro k h; cases h; rfl) (by simp) (by simp) (by simp)
    · simp [hm] at h
  | stopSet k =>
    rw [hp] at h
    by_cases hk : k < s.n
    · simp only [hk, ↓reduceIte, Option.some.injEq] at h; subst h
      exact inv_stop_set s hI k hp
    · simp only [hk, ↓reduceIte, Option.some.injEq] at h; subst h
      exact inv_stop_release s hI k hp hk
  | stopNotify =>
    rw [hp] at h; simp only [Option.some.injEq] at h; subst h
    apply inv_prod_notify s hI .join (by rw [hp]; rfl) rfl
    · intro _; exact hI.flagsAll (Or.inl hp)
    · intro _; rfl
    · intro k; simp
    · simp
  | join =>
    rw [hp] at h
    by_cases hall : ∀ i, i < s.n → s.wpc i = .done
    · rw [if_pos hall] at h; simp only [Option.some.injEq] at h; subst h
      exact inv_join s hI hp hall
    · simp [hall] at h
  | done => rw [hp] at h; simp at h

/-- Every step of the repaired pool preserves the invariant. -/
theorem inv_step (s s' : State) (t : Tid) (hI : Inv s) (h : step s t = some s') : Inv s' := by
  cases t with
  | prod => exact inv_step_prod s s' hI h
  | worker i => exact inv_step_worker s s' i hI h
  | spurious i =>
    simp only [step] at h
    by_cases hc : i < s.n ∧ s.wpc i = .waiting
    · simp only [hc, and_self, ↓reduceIte, Option.some.injEq] at h; subst h
      have hnd := prod_not_done_of_worker s hI i hc.1 (by rw [hc.2]; simp)
      exact inv_wpc_only s hI i hc.1 .wake (by rw [hc.2]; rfl) rfl (by simp) (by simp) hnd
    · simp [hc] at h

theorem inv_reachable {n : Nat} {tasks : List Nat} {s : State} (h : Reachable n tasks s) : Inv s := by
  induction h with
  | init => exact inv_init n tasks
  | step _ hs ih => exact inv_step _ _ _ ih hs

end CSD.Pool
