import CSD.Model.DAC
import CSD.Lemmas.ListIdx

/-! `DAC_VLS::access` returns the sequence that was stored, for every list of non-empty sequences. -/
namespace CSD.DAC
open CSD.ListIdx

/-- The two `filterMap`s of a level. -/
def symF (j : Nat) : List Nat → Option Nat := fun s => s[j]?
def bitF (j : Nat) : List Nat → Option Bool := fun s => if j < s.length then some (decide (j + 1 < s.length)) else none

theorem level_eq (L : List (List Nat)) (j : Nat) : level L j = L.filterMap (symF j) := rfl
theorem levelBits_eq (L : List (List Nat)) (j : Nat) : levelBits L j = L.filterMap (bitF j) := rfl

theorem len_sym_bit (j : Nat) (l : List (List Nat)) : (l.filterMap (bitF j)).length = (l.filterMap (symF j)).length := by
  induction l with
  | nil => rfl
  | cons s l ih =>
    simp only [List.filterMap_cons, symF, bitF]
    by_cases h : j < s.length
    · simp [h, ih, symF, bitF]
    · have : s[j]? = none := List.getElem?_eq_none (by omega)
      simp [h, this, ih, symF, bitF]

theorem cnt_sym_bit (j : Nat) (L : List (List Nat)) (i : Nat) : cntB (bitF j) L i = cntB (symF j) L i :=
  len_sym_bit j (L.take i)

/-- Ones among the continuation bits of level `j` = entries of level `j + 1`. -/
theorem ones_bits (j : Nat) (l : List (List Nat)) :
    ((l.filterMap (bitF j)).filter id).length = (l.filterMap (symF (j + 1))).length := by
  induction l with
  | nil => rfl
  | cons s l ih =>
    simp only [List.filterMap_cons, symF, bitF]
    by_cases h : j < s.length
    · by_cases h2 : j + 1 < s.length
      · simp [h, h2, ih, symF, bitF]
      · have : s[j + 1]? = none := List.getElem?_eq_none (by omega)
        simp [h, h2, this, ih, symF, bitF]
    · have : s[j + 1]? = none := List.getElem?_eq_none (by omega)
      simp [h, this, ih, symF, bitF]

theorem maxLen_ge (L : List (List Nat)) : ∀ s ∈ L, s.length ≤ maxLen L := by
  unfold maxLen
  suffices h : ∀ (m : Nat) (s : List Nat), (s ∈ L ∨ s.length ≤ m) → s.length ≤ L.foldl (fun m s => max m s.length) m by
    intro s hs; exact h 0 s (Or.inl hs)
  induction L with
  | nil => intro m s h; rcases h with h | h; · cases h
           · exact h
  | cons a L ih =>
    intro m s h
    simp only [List.foldl_cons]
    apply ih
    rcases h with h | h
    · rcases List.mem_cons.mp h with e | e
      · right; subst e; omega
      · left; exact e
    · right; omega

theorem sums_getElem? : ∀ (ws : List Nat) (acc j : Nat), j ≤ ws.length → (sums acc ws)[j]? = some (acc + (ws.take j).sum)
  | [], acc, j, h => by
    have : j = 0 := by simpa using h
    subst this; simp [sums]
  | w :: ws, acc, 0, _ => by simp [sums]
  | w :: ws, acc, j + 1, h => by
    simp only [sums, List.getElem?_cons_succ]
    rw [sums_getElem? ws (acc + w) j (by simpa using h)]
    simp [Nat.add_assoc]

/-! ### the layout of `build L` -/

/-- The levels / the bit blocks as lists of lists. -/
def lv (L : List (List Nat)) : List (List Nat) := (List.range (maxLen L)).map (level L)
def bl (L : List (List Nat)) : List (List Bool) := (List.range (maxLen L - 1)).map (levelBits L)

theorem lv_length (L : List (List Nat)) : (lv L).length = maxLen L := by simp [lv]
theorem bl_length (L : List (List Nat)) : (bl L).length = maxLen L - 1 := by simp [bl]

theorem lv_get (L : List (List Nat)) (j : Nat) (hj : j < (lv L).length) : (lv L)[j] = L.filterMap (symF j) := by
  simp [lv, level_eq]

theorem bl_get (L : List (List Nat)) (j : Nat) (hj : j < (bl L).length) : (bl L)[j] = L.filterMap (bitF j) := by
  simp [bl, levelBits_eq]

theorem pre_bl_lv (L : List (List Nat)) (j : Nat) (hj : j ≤ maxLen L - 1) : pre (bl L) j = pre (lv L) j := by
  induction j with
  | zero => simp [pre]
  | succ j ih =>
    have h1 : j < (bl L).length := by rw [bl_length]; omega
    have h2 : j < (lv L).length := by rw [lv_length]; omega
    rw [pre_succ _ j h1, pre_succ _ j h2, ih (by omega), bl_get L j h1, lv_get L j h2, len_sym_bit]

theorem build_vals (L : List (List Nat)) : (build L).vals = (lv L).flatten := rfl
theorem build_bits (L : List (List Nat)) : (build L).bits = (bl L).flatten ++ [true] := rfl
theorem build_n (L : List (List Nat)) : (build L).nLevels = maxLen L := rfl

theorem build_idx (L : List (List Nat)) (j : Nat) (hj : j ≤ maxLen L) :
    (build L).levelsIndex[j]? = some (pre (lv L) j) := by
  show (sums 0 ((lv L).map List.length))[j]? = _
  rw [sums_getElem? _ 0 j (by simp [lv_length]; exact hj)]
  simp [pre, List.map_take]

theorem rank1_pre (L : List (List Nat)) (j : Nat) (hj : j ≤ maxLen L - 1) (q : Nat)
    (hq : q ≤ ((bl L)[j]?.getD []).length) (hjq : j < maxLen L - 1 ∨ q = 0) :
    (((build L).bits.take (pre (lv L) j + q)).filter id).length =
      (((bl L).take j).flatten.filter id).length + ((((bl L)[j]?.getD []).take q).filter id).length := by
  rw [build_bits, ← pre_bl_lv L j hj]
  rcases hjq with h | h
  · have hjl : j < (bl L).length := by rw [bl_length]; exact h
    rw [List.getElem?_eq_getElem hjl] at hq ⊢
    simp only [Option.getD_some] at hq ⊢
    have hle : pre (bl L) j + q ≤ (bl L).flatten.length := by
      have := flatten_take (bl L) j q hjl hq
      have h2 : ((bl L).flatten.take (pre (bl L) j + q)).length = ((bl L).take j).flatten.length + ((bl L)[j].take q).length := by
        rw [this, List.length_append]
      rw [List.length_take, List.length_take, ← pre_eq] at h2
      omega
    rw [List.take_append_of_le_length hle, flatten_take (bl L) j q hjl hq, List.filter_append, List.length_append]
  · subst h
    have hle : pre (bl L) j + 0 ≤ (bl L).flatten.length := by
      rw [Nat.add_zero, pre_eq]
      have : (bl L).flatten = ((bl L).take j).flatten ++ ((bl L).drop j).flatten := by
        rw [← List.flatten_append, List.take_append_drop]
      rw [this, List.length_append]; omega
    rw [List.take_append_of_le_length hle, Nat.add_zero, flatten_take_pre (bl L) j (by rw [bl_length]; exact hj)]
    simp

end CSD.DAC

namespace CSD.DAC
open CSD.ListIdx

/-- Position of the `j`-th symbol of sequence `i` in `vals` (and of its bit in `bits`). -/
def pos (L : List (List Nat)) (i j : Nat) : Nat := pre (lv L) j + cntB (symF j) L i

section
variable (L : List (List Nat)) (i : Nat) (hi : i < L.length)

theorem sym_some (j : Nat) (hj : j < L[i].length) : symF j L[i] = some L[i][j] := by
  simp [symF, List.getElem?_eq_getElem hj]

theorem bit_some (j : Nat) (hj : j < L[i].length) : bitF j L[i] = some (decide (j + 1 < L[i].length)) := by
  simp [bitF, hj]

theorem len_le_max : L[i].length ≤ maxLen L := maxLen_ge L _ (List.getElem_mem hi)

theorem vals_pos (j : Nat) (hj : j < L[i].length) : (build L).vals[pos L i j]? = some L[i][j] := by
  have hn := len_le_max L i hi
  have hjl : j < (lv L).length := by rw [lv_length]; omega
  have hc := cntB_lt (symF j) L i hi _ (sym_some L i hi j hj)
  rw [build_vals, pos, flatten_getElem? (lv L) j _ hjl (by rw [lv_get L j hjl]; exact hc), lv_get L j hjl]
  exact filterMap_getElem? (symF j) L i hi _ (sym_some L i hi j hj)

theorem bits_pos (j : Nat) (hj : j < L[i].length) (hjn : j + 1 < maxLen L) :
    (build L).bits[pos L i j]? = some (decide (j + 1 < L[i].length)) := by
  have hjl : j < (bl L).length := by rw [bl_length]; omega
  have hc := cntB_lt (bitF j) L i hi _ (bit_some L i hi j hj)
  have hcb : cntB (symF j) L i < ((bl L)[j]).length := by rw [bl_get L j hjl, ← cnt_sym_bit]; exact hc
  have hget := flatten_getElem? (bl L) j _ hjl hcb
  have hlt : pre (bl L) j + cntB (symF j) L i < (bl L).flatten.length := by
    have : ((bl L).flatten[pre (bl L) j + cntB (symF j) L i]?).isSome := by
      rw [hget, List.getElem?_eq_getElem hcb]; rfl
    rcases Nat.lt_or_ge (pre (bl L) j + cntB (symF j) L i) (bl L).flatten.length with h | h
    · exact h
    · rw [List.getElem?_eq_none h] at this; cases this
  rw [build_bits, pos, ← pre_bl_lv L j (by omega), List.getElem?_append_left hlt, hget, bl_get L j hjl,
    ← cnt_sym_bit]
  exact filterMap_getElem? (bitF j) L i hi _ (bit_some L i hi j hj)

theorem rank_pos (j : Nat) (hj : j < L[i].length) (hjn : j + 1 < maxLen L) :
    rank1 (build L).bits (pos L i j) =
      (((bl L).take j).flatten.filter id).length + cntB (symF (j + 1)) L (i + 1) := by
  have hjl : j < (bl L).length := by rw [bl_length]; omega
  have hb := bit_some L i hi j hj
  have hc := cntB_lt (bitF j) L i hi _ hb
  unfold rank1
  have e : pos L i j + 1 = pre (lv L) j + (cntB (bitF j) L i + 1) := by rw [pos, cnt_sym_bit]; omega
  rw [e]
  have hq : cntB (bitF j) L i + 1 ≤ ((bl L)[j]?.getD []).length := by
    rw [List.getElem?_eq_getElem hjl, Option.getD_some, bl_get L j hjl]; omega
  rw [rank1_pre L j (by omega) _ hq (Or.inl (by omega))]
  congr 1
  rw [List.getElem?_eq_getElem hjl, Option.getD_some, bl_get L j hjl,
    ← cntB_succ_some (bitF j) L i hi _ hb, filterMap_take (bitF j) L (i + 1) (by omega), ones_bits]
  rfl

theorem rankLevels_get (j : Nat) (hj : j < L[i].length) :
    (build L).rankLevels[j]? = some ((((bl L).take j).flatten.filter id).length) := by
  have hn := len_le_max L i hi
  have hjn : j < maxLen L := by omega
  show ((List.range (maxLen L)).map fun j => if j = 0 then 0 else
      rank1 (build L).bits ((build L).levelsIndex.getD j 0 - 1))[j]? = _
  rw [List.getElem?_map, List.getElem?_range hjn]
  simp only [Option.map_some]
  by_cases h0 : j = 0
  · subst h0; simp
  · rw [if_neg h0]
    have hidx := build_idx L j (by omega)
    rw [List.getD_eq_getElem?_getD, hidx, Option.getD_some]
    -- the first level is not empty, so the index is positive
    have hpos : 1 ≤ pre (lv L) j := by
      have h1 : pre (lv L) 1 ≤ pre (lv L) j := pre_mono (lv L) 1 j (by omega) (by rw [lv_length]; omega)
      have h0l : 0 < (lv L).length := by rw [lv_length]; omega
      rw [pre_succ (lv L) 0 h0l, lv_get L 0 h0l] at h1
      have := cntB_lt (symF 0) L i hi _ (sym_some L i hi 0 (by omega))
      omega
    unfold rank1
    have e : pre (lv L) j - 1 + 1 = pre (lv L) j + 0 := by omega
    rw [e, rank1_pre L j (by omega) 0 (by omega) (Or.inr rfl)]
    simp

/-- One round of the loop of `access`, from level `j` to level `j + 1`. -/
theorem loop_spec : ∀ (m j fuel : Nat), j < L[i].length → L[i].length - 1 - j = m → maxLen L - j ≤ fuel →
    accessLoop (build L) fuel j (pos L i j) (L[i].take (j + 1)) = some L[i] := by
  intro m
  induction m with
  | zero =>
    intro j fuel hj hm hf
    have hn := len_le_max L i hi
    have hlast : j + 1 = L[i].length := by omega
    have htake : L[i].take (j + 1) = L[i] := List.take_of_length_le (by omega)
    cases fuel with
    | zero => omega
    | succ fuel =>
      unfold accessLoop
      rw [build_n]
      by_cases hjn : j + 1 < maxLen L
      · rw [if_pos hjn, bits_pos L i hi j hj hjn]
        have : decide (j + 1 < L[i].length) = false := by simp; omega
        rw [this, htake]
      · rw [if_neg hjn, htake]
  | succ m ih =>
    intro j fuel hj hm hf
    have hn := len_le_max L i hi
    have hj1 : j + 1 < L[i].length := by omega
    have hjn : j + 1 < maxLen L := by omega
    cases fuel with
    | zero => omega
    | succ fuel =>
      unfold accessLoop
      rw [build_n, if_pos hjn, bits_pos L i hi j hj hjn]
      have hd : decide (j + 1 < L[i].length) = true := by simp; exact hj1
      rw [hd]
      simp only
      rw [rankLevels_get L i hi j hj, build_idx L (j + 1) (by omega)]
      simp only
      rw [rank_pos L i hi j hj hjn, cntB_succ_some (symF (j + 1)) L i hi _ (sym_some L i hi (j + 1) hj1)]
      have hnle : ¬ ((((bl L).take j).flatten.filter id).length + (cntB (symF (j + 1)) L i + 1) ≤
          (((bl L).take j).flatten.filter id).length) := by omega
      rw [if_neg hnle]
      have hini : pre (lv L) (j + 1) + ((((bl L).take j).flatten.filter id).length + (cntB (symF (j + 1)) L i + 1) -
          (((bl L).take j).flatten.filter id).length) - 1 = pos L i (j + 1) := by
        unfold pos; omega
      rw [hini, vals_pos L i hi (j + 1) hj1]
      simp only
      have hacc : L[i].take (j + 1) ++ [L[i][j + 1]] = L[i].take (j + 1 + 1) := by
        rw [take_succ_eq L[i] (j + 1) hj1]
      rw [hacc]
      exact ih (j + 1) fuel hj1 (by omega) (by omega)

theorem len_sym0 (l : List (List Nat)) (h : ∀ s ∈ l, s ≠ []) : (l.filterMap (symF 0)).length = l.length := by
  induction l with
  | nil => rfl
  | cons s l ih =>
    have hs : s ≠ [] := h s (by simp)
    cases s with
    | nil => exact absurd rfl hs
    | cons a t =>
      simp only [List.filterMap_cons, symF, List.getElem?_cons_zero, List.length_cons]
      rw [← ih (fun s hs => h s (by simp [hs]))]

/-- **`access(i + 1)` returns the `i`-th sequence** — for every list of non-empty sequences, whatever
their number and lengths. -/
theorem access_build (hall : ∀ s ∈ L, s ≠ []) : access (build L) (i + 1) = some L[i] := by
  have hne : L[i] ≠ [] := hall _ (List.getElem_mem hi)
  have h0 : 0 < L[i].length := List.length_pos_iff.mpr hne
  have hp : i + 1 - 1 = pos L i 0 := by
    unfold pos cntB
    have : pre (lv L) 0 = 0 := by simp [pre]
    rw [this, len_sym0 (L.take i) (fun s hs => hall s (List.mem_of_mem_take hs)), List.length_take]
    omega
  unfold access
  rw [if_neg (by omega), hp, vals_pos L i hi 0 h0]
  simp only
  have hacc : [L[i][0]] = L[i].take (0 + 1) := by
    rw [take_succ_eq L[i] 0 h0]; rfl
  rw [build_n, hacc]
  exact loop_spec L i hi (L[i].length - 1) 0 (maxLen L) h0 (by omega) (by omega)
end

end CSD.DAC
