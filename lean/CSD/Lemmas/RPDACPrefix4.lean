import CSD.Lemmas.RPDACPrefix3

/-! `StringDictionaryRPDAC::locatePrefix` returns exactly the ID range of the members with the prefix. -/
namespace CSD.RPDAC
open CSD CSD.RePair CSD.PFC

/-- The comparison as a total function of the ID. -/
def pf (S : List Str) (p : Str) (id : Nat) : Int := pcmp (S.getD (id - 1) []) p

theorem pf_get (S : List Str) (p : Str) (id : Nat) (h1 : 1 ≤ id) (h2 : id ≤ S.length) :
    pf S p id = pcmp (S[id - 1]'(by omega)) p := by
  unfold pf
  rw [List.getD_eq_getElem?_getD, List.getElem?_eq_getElem (by omega)]; rfl

theorem pf_mono (S : List Str) (p : Str) (hS : ∀ s ∈ S, nulFree s) (hsort : SortedLt S) : Mono S.length (pf S p) where
  pos := by
    intro a b h1 hab hb hpos
    rw [pf_get S p a h1 (by omega)] at hpos
    rw [pf_get S p b (by omega) hb]
    have hlt := hsort.getElem_lt (i := a - 1) (j := b - 1) (by omega) (by omega)
    exact (pcmp_mono (hS _ (List.getElem_mem _)) (hS _ (List.getElem_mem _)) hlt).2 hpos
  neg := by
    intro a b h1 hab hb hneg
    rw [pf_get S p b (by omega) hb] at hneg
    rw [pf_get S p a h1 (by omega)]
    have hlt := hsort.getElem_lt (i := a - 1) (j := b - 1) (by omega) (by omega)
    exact (pcmp_mono (hS _ (List.getElem_mem _)) (hS _ (List.getElem_mem _)) hlt).1 hneg

/-- **`locatePrefix` is exact**: it returns `(0,0)` when no member starts with the pattern, and
otherwise the range `[l, r]` such that a member starts with the pattern iff its ID lies in the range. -/
theorem locatePrefix_represents (d : D) (S : List Str) (r : Represents d S) (hS : ∀ s ∈ S, nulFree s)
    (hsort : SortedLt S) (p : Str) (hp : nulFree p) (hne : p ≠ []) :
    ∃ lo hi, locatePrefix d (bytesNat p) = some (lo, hi) ∧
      ((lo = 0 ∧ hi = 0 ∧ ∀ id (h1 : 1 ≤ id) (h2 : id ≤ S.length), isPrefix p (S[id - 1]'(by omega)) = false) ∨
       (1 ≤ lo ∧ lo ≤ hi ∧ hi ≤ S.length ∧
         ∀ id (h1 : 1 ≤ id) (h2 : id ≤ S.length), (isPrefix p (S[id - 1]'(by omega)) = true ↔ lo ≤ id ∧ id ≤ hi))) := by
  have m := pf_mono S p hS hsort
  -- the comparison the searches use
  let cmp : Nat → Option Int := fun id => match d.seqs[id - 1]? with
    | some syms => comparePrefixDAC d.g syms (bytesNat p)
    | none => none
  have hcmp : ∀ id, 1 ≤ id → id ≤ S.length → cmp id = some (pf S p id) := by
    intro id h1 h2
    have hi : id - 1 < d.seqs.length := by rw [r.len]; omega
    show (match d.seqs[id - 1]? with
      | some syms => comparePrefixDAC d.g syms (bytesNat p)
      | none => none) = _
    rw [List.getElem?_eq_getElem hi]
    simp only
    rw [comparePrefixDAC_eq d.g r.wf _ (r.valid _ (List.getElem_mem hi)) _ p (r.exp (id - 1) hi (by omega))
      (hS _ (List.getElem_mem _)) hp hne, pf_get S p id h1 h2]
  have hzero : ∀ id (h1 : 1 ≤ id) (h2 : id ≤ S.length),
      (isPrefix p (S[id - 1]'(by omega)) = true ↔ pf S p id = 0) := by
    intro id h1 h2
    rw [pf_get S p id h1 h2, pcmp_zero_iff (hS _ (List.getElem_mem _)) hp]
  have hn : d.seqs.length = S.length := r.len
  unfold locatePrefix
  simp only
  rw [hn]
  rcases findAny_spec m cmp hcmp (S.length + 1) 1 S.length (Nat.le_refl _) (Nat.le_refl _) (by omega)
      (fun id h1 h2 => by omega) (fun id h1 h2 => by omega) with ⟨hnone, hnz⟩ | ⟨c, l0, r0, hsome, hl1, hlc, hcr, hrn, hcz, hlow, hhigh⟩
  · refine ⟨0, 0, ?_, Or.inl ⟨rfl, rfl, ?_⟩⟩
    · show (match findAny cmp (S.length + 1) 1 S.length with
        | none => none
        | some none => some (0, 0)
        | some (some (center, left, right)) => _) = _
      rw [hnone]
    · intro id h1 h2
      have := hnz id h1 h2
      cases hpre : isPrefix p (S[id - 1]'(by omega)) with
      | false => rfl
      | true => exact absurd ((hzero id h1 h2).mp hpre) this
  · -- left boundary
    have hL : ∃ L, (if c > 1 then
          match leftLoop cmp (S.length + 1) l0 (c - 1) with
          | none => none
          | some lr => some (if lr > 0 then lr + 1 else 1)
        else some c) = some L ∧ 1 ≤ L ∧ L ≤ c ∧ (∀ id, L ≤ id → id ≤ c → pf S p id = 0) ∧
        (∀ id, 1 ≤ id → id < L → pf S p id < 0) := by
      by_cases hc : c > 1
      · rw [if_pos hc]
        obtain ⟨res, hres, h1, h2, h3⟩ := leftLoop_spec m cmp hcmp c (by omega) (by omega) hcz (S.length + 1) l0 (c - 1)
          hl1 (by omega) (by omega) hlow (fun id h1 h2 => by
            have : id = c := by omega
            subst this; exact hcz)
        rw [hres]
        refine ⟨res + 1, ?_, by omega, h1, fun id ha hb => h2 id (by omega) hb, fun id ha hb => h3 id ha (by omega)⟩
        by_cases h0 : res > 0
        · simp [h0]
        · have : res = 0 := by omega
          subst this; simp
      · rw [if_neg hc]
        have hc1 : c = 1 := by omega
        refine ⟨c, rfl, by omega, Nat.le_refl _, fun id ha hb => by
          have : id = c := by omega
          subst this; exact hcz, fun id ha hb => by omega⟩
    -- right boundary
    have hR : ∃ R, (if c < S.length then rightLoop cmp (S.length + 2) c (r0 + 1) else some c) = some R ∧
        c ≤ R ∧ R ≤ S.length ∧ (∀ id, c ≤ id → id ≤ R → pf S p id = 0) ∧
        (∀ id, R < id → id ≤ S.length → pf S p id > 0) := by
      by_cases hc : c < S.length
      · rw [if_pos hc]
        obtain ⟨res, hres, h1, h2, h3, h4⟩ := rightLoop_spec m cmp hcmp c (by omega) hcz (S.length + 2) c (r0 + 1)
          (Nat.le_refl _) (by omega) (by omega) (by omega) (fun id h1 h2 => by
            have : id = c := by omega
            subst this; exact hcz) (fun id h1 h2 => hhigh id (by omega) h2)
        exact ⟨res, hres, h1, h2, h3, h4⟩
      · rw [if_neg hc]
        have hcn : c = S.length := by omega
        refine ⟨c, rfl, Nat.le_refl _, by omega, fun id ha hb => by
          have : id = c := by omega
          subst this; exact hcz, fun id ha hb => by omega⟩
    obtain ⟨L, hLe, hL1, hLc, hLz, hLn⟩ := hL
    obtain ⟨R, hRe, hRc, hRn, hRz, hRp⟩ := hR
    refine ⟨L, R, ?_, Or.inr ⟨hL1, by omega, hRn, ?_⟩⟩
    · show (match findAny cmp (S.length + 1) 1 S.length with
        | none => none
        | some none => some (0, 0)
        | some (some (center, left, right)) => _) = _
      rw [hsome]
      show (match (if c > 1 then
            match leftLoop cmp (S.length + 1) l0 (c - 1) with
            | none => none
            | some lr => some (if lr > 0 then lr + 1 else 1)
          else some c), (if c < S.length then rightLoop cmp (S.length + 2) c (r0 + 1) else some c) with
        | some l, some r => some (l, r)
        | _, _ => none) = some (L, R)
      rw [hLe, hRe]
    · intro id h1 h2
      rw [hzero id h1 h2]
      constructor
      · intro hz
        constructor
        · rcases Nat.lt_or_ge id L with h | h
          · have := hLn id h1 h; omega
          · exact h
        · rcases Nat.lt_or_ge R id with h | h
          · have := hRp id h h2; omega
          · exact h
      · rintro ⟨ha, hb⟩
        rcases Nat.le_total id c with h | h
        · exact hLz id ha h
        · exact hRz id h hb

end CSD.RPDAC
