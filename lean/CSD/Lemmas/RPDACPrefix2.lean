import CSD.Lemmas.RPDACPrefix
import CSD.Lemmas.Prefix

/-! The flat prefix comparison is `strncmp`; order facts about it. -/
namespace CSD.RPDAC
open CSD CSD.RePair CSD.PFC

/-- `strncmp(s, p, |p|)`. -/
def pcmp (s p : Str) : Int := scmp (s.take p.length) p

theorem pcmp_cons_same (a : UInt8) (as bs : Str) : pcmp (a :: as) (a :: bs) = pcmp as bs := by
  simp [pcmp, scmp]

theorem pcmp_cons_ne {a b : UInt8} (h : a ≠ b) (as bs : Str) :
    pcmp (a :: as) (b :: bs) = (a.toNat : Int) - b.toNat := by
  simp [pcmp, scmp, h]

theorem cmpListP_spec : ∀ (s p : Str) (pre : List Nat), nulFree s → nulFree p → p ≠ [] →
    (∃ pos, cmpListP (pre ++ bytesNat p ++ [0]) (bytesNat s) pre.length = some (pcmp s p, pos, false) ∧ pcmp s p ≠ 0) ∨
    (cmpListP (pre ++ bytesNat p ++ [0]) (bytesNat s) pre.length = some (0, pre.length + p.length, true) ∧ pcmp s p = 0) ∨
    (cmpListP (pre ++ bytesNat p ++ [0]) (bytesNat s) pre.length = some (0, pre.length + s.length, false) ∧
      ∃ b t, p = s ++ b :: t ∧ pcmp s p = -(b.toNat : Int))
  | _, [], _, _, _, hp => absurd rfl hp
  | [], b :: bs, pre, _, _, _ => by
    right; right
    exact ⟨by simp [bytesNat, cmpListP], b, bs, rfl, by simp [pcmp, scmp]⟩
  | a :: as, b :: bs, pre, hs, hp, _ => by
    have hbuf : (pre ++ bytesNat (b :: bs) ++ [0])[pre.length]? = some b.toNat := by
      simp [bytesNat, List.getElem?_append_right]
    have hcons : bytesNat (a :: as) = a.toNat :: bytesNat as := rfl
    by_cases hab : a = b
    · subst hab
      have hs' := (nulFree_cons.mp hs).2
      have hp' := (nulFree_cons.mp hp).2
      have hshift : pre ++ bytesNat (a :: bs) ++ [0] = (pre ++ [a.toNat]) ++ bytesNat bs ++ [0] := by
        simp [bytesNat]
      cases bs with
      | nil =>
        -- the pattern is exhausted after this byte
        right; left
        have hend : atEnd (pre ++ bytesNat [a] ++ [0]) (pre.length + 1) = some true := by
          simp [atEnd, bytesNat, List.getElem?_append_right]
        refine ⟨?_, by simp [pcmp, scmp]⟩
        rw [hcons]
        generalize pre ++ bytesNat [a] ++ [0] = B at hbuf hend ⊢
        simp only [cmpListP, cmpTerm, hbuf]
        simp [hend]
      | cons b2 bs2 =>
        have hb2 : b2 ≠ 0 := (nulFree_cons.mp hp').1
        have hend : atEnd (pre ++ bytesNat (a :: b2 :: bs2) ++ [0]) (pre.length + 1) = some false := by
          have : b2.toNat ≠ 0 := fun e => hb2 (UInt8.toNat_inj.mp (by simpa using e))
          simp [atEnd, bytesNat, List.getElem?_append_right, this]
        have hstep : cmpListP (pre ++ bytesNat (a :: b2 :: bs2) ++ [0]) (bytesNat (a :: as)) pre.length =
            cmpListP ((pre ++ [a.toNat]) ++ bytesNat (b2 :: bs2) ++ [0]) (bytesNat as) (pre ++ [a.toNat]).length := by
          rw [hcons, ← hshift]
          generalize pre ++ bytesNat (a :: b2 :: bs2) ++ [0] = B at hbuf hend ⊢
          simp only [cmpListP, cmpTerm, hbuf]
          simp [hend]
        rw [hstep, pcmp_cons_same]
        rcases cmpListP_spec as (b2 :: bs2) (pre ++ [a.toNat]) hs' hp' (by simp) with ⟨pos, h1, h2⟩ | ⟨h1, h2⟩ | ⟨h1, b', t, h2, h3⟩
        · left; exact ⟨pos, h1, h2⟩
        · right; left
          refine ⟨?_, h2⟩
          rw [h1]; simp; omega
        · right; right
          refine ⟨?_, b', t, by rw [h2]; rfl, h3⟩
          rw [h1]; simp; omega
    · left
      have hne : (a.toNat : Int) - b.toNat ≠ 0 := by
        have := toNat_ne hab; omega
      refine ⟨pre.length, ?_, by rw [pcmp_cons_ne hab]; exact hne⟩
      rw [hcons, pcmp_cons_ne hab]
      simp only [cmpListP, cmpTerm, hbuf]
      simp [toNat_ne hab, hne]

/-- **`extractPrefixAndCompareDAC` computes `strncmp(stored, pattern, |pattern|)`** for a non-empty pattern. -/
theorem comparePrefixDAC_eq (g : Grammar) (hwf : g.wf = true) (syms : List Nat)
    (hv : ∀ s ∈ syms, s < g.terminals + g.rules.length) (s p : Str) (hexp : g.expand syms = bytesNat s)
    (hs : nulFree s) (hp : nulFree p) (hne : p ≠ []) :
    comparePrefixDAC g syms (bytesNat p) = some (pcmp s p) := by
  unfold comparePrefixDAC
  simp only
  rw [cmpSymsP_eq g hwf _ syms hv 0, hexp]
  have h := cmpListP_spec s p [] hs hp hne
  simp only [List.nil_append, List.length_nil, Nat.zero_add] at h
  rcases h with ⟨pos, h1, h2⟩ | ⟨h1, h2⟩ | ⟨h1, b, t, h2, h3⟩
  · rw [h1]; simp [h2]
  · rw [h1, h2]; simp
  · rw [h1, h3]
    simp only [ne_eq, not_true_eq_false, ↓reduceIte, Bool.false_eq_true]
    have hlen : ¬ (s.length = (bytesNat p).length) := by rw [h2]; simp [bytesNat]
    rw [if_neg hlen]
    have hget : (bytesNat p ++ [0])[s.length]? = some b.toNat := by
      rw [h2]; simp [bytesNat, List.getElem?_append_right]
    rw [hget]

/-! ### `strncmp` against a sorted dictionary -/

theorem scmp_take_le : ∀ (k : Nat) (a b : Str), scmp a b < 0 → scmp (a.take k) (b.take k) ≤ 0
  | 0, _, _, _ => by simp [scmp]
  | k + 1, [], [], h => by simp [scmp] at h
  | k + 1, [], y :: bs, _ => by simp [scmp]
  | k + 1, x :: as, [], h => by simp [scmp] at h; omega
  | k + 1, x :: as, y :: bs, h => by
    simp only [List.take_succ_cons]
    unfold scmp at h ⊢
    by_cases hxy : x = y
    · simp only [hxy, ↓reduceIte] at h ⊢
      exact scmp_take_le k as bs h
    · simp only [hxy, ↓reduceIte] at h ⊢
      omega

theorem nulFree_take {s : Str} (h : nulFree s) (k : Nat) : nulFree (s.take k) :=
  fun c hc => h c (List.mem_of_mem_take hc)

/-- `strncmp` is monotone along a strictly sorted dictionary. -/
theorem pcmp_mono {s t p : Str} (hs : nulFree s) (ht : nulFree t) (hst : scmp s t < 0) :
    (pcmp t p < 0 → pcmp s p < 0) ∧ (pcmp s p > 0 → pcmp t p > 0) := by
  have hle := scmp_take_le p.length s t hst
  unfold pcmp
  constructor
  · intro h
    rcases Int.lt_or_eq_of_le hle with h1 | h1
    · exact scmp_trans_lt h1 h
    · have := (scmp_eq_zero (nulFree_take hs _) (nulFree_take ht _)).mp h1
      rw [this]; exact h
  · intro h
    rcases Int.lt_or_eq_of_le hle with h1 | h1
    · have h2 : scmp p (s.take p.length) < 0 := by rw [scmp_antisymm (s.take p.length) p]; omega
      have := scmp_trans_lt h2 h1
      rw [scmp_antisymm (t.take p.length) p] at this; omega
    · have := (scmp_eq_zero (nulFree_take hs _) (nulFree_take ht _)).mp h1
      rw [← this]; exact h

theorem isPrefix_take : ∀ (p s : Str), isPrefix p s = true ↔ s.take p.length = p
  | [], s => by simp [isPrefix]
  | a :: p, [] => by simp [isPrefix]
  | a :: p, b :: s => by
    simp only [isPrefix, Bool.and_eq_true, beq_iff_eq, List.length_cons, List.take_succ_cons, List.cons.injEq]
    rw [isPrefix_take p s]
    constructor
    · rintro ⟨h1, h2⟩; exact ⟨h1.symm, h2⟩
    · rintro ⟨h1, h2⟩; exact ⟨h1.symm, h2⟩

/-- `strncmp = 0` exactly for the members that start with the pattern. -/
theorem pcmp_zero_iff {s p : Str} (hs : nulFree s) (hp : nulFree p) : pcmp s p = 0 ↔ isPrefix p s = true := by
  unfold pcmp
  rw [scmp_eq_zero (nulFree_take hs _) hp, isPrefix_take]

end CSD.RPDAC
