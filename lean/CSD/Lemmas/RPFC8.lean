/-
  RPFC, part 8: `locateBoundaryBuckets`, `searchPrefix`, `searchDistinctPrefix` of RPFC on an object that
  stores `S` run in lockstep with those of the plain front-coded dictionary built from `S`.
-/
import CSD.Lemmas.RPFC7

namespace CSD.RPFC
open CSD.RePair CSD.PFC

section
variable {S : List Str} {d : D}

theorem boundaryBuckets_sim (hst : Stores S d) (hne : S ≠ []) (hS : ∀ s ∈ S, nulFree s) (hsort : SortedLt S) (p : Str) :
    boundaryBuckets d p = PFC.boundaryBuckets (build d.bucketsize S) p := by
  have hbe := buckets_eq_build hst
  have hnb : 1 ≤ (build d.bucketsize S).buckets := by
    rw [build_buckets]
    have hb := clamp_ge_two d.bucketsize
    have : 0 < S.length := List.length_pos_iff.mpr hne
    exact (Nat.le_div_iff_mul_le (by omega)).mpr (by omega)
  obtain ⟨l, r, c, cm, hfirst, hcase⟩ := bbFirst_spec d.bucketsize S p hS hsort ((build d.bucketsize S).buckets + 1) 1
    (build d.bucketsize S).buckets 0 0
    (Nat.le_refl _) (Nat.le_refl _) (by omega) (by omega) (fun k h1 h2 => by omega) (fun k h1 h2 => by omega)
    (fun h => by omega)
  have hfirstR : bbFirst d p (d.buckets + 1) 1 d.buckets 0 0 = some (l, r, c, cm) := by
    rw [bbFirst_sim hst hS p _ _ _ _ _ (Nat.le_refl 1) (Nat.le_refl _), hbe]; exact hfirst
  unfold boundaryBuckets PFC.boundaryBuckets
  rw [hfirstR, hfirst]
  simp only
  rcases hcase with ⟨hcm, _, hl1, hlc, hcr, hrn, _, _⟩ | ⟨hcm, _, _, _⟩
  · subst hcm
    simp only [ne_eq, not_true_eq_false, ↓reduceIte]
    have hrn' : r ≤ d.buckets := by rw [hbe]; exact hrn
    rw [bbLeft_sim hst hS p _ l (c - 1) hl1 (by omega), bbRight_sim hst hS p _ c (r + 1) (by omega) (by omega), hbe]
    generalize (if c > 1 then
        match PFC.bbLeft (build d.bucketsize S) p ((build d.bucketsize S).buckets + 1) l (c - 1) with
        | none => none
        | some lr => some (if lr > 0 then lr else 1)
      else some l) = A
    generalize (if c < (build d.bucketsize S).buckets then
        PFC.bbRight (build d.bucketsize S) p ((build d.bucketsize S).buckets + 2) c (r + 1) else some r) = B
    cases A <;> cases B <;> rfl
  · simp only [ne_eq, hcm, not_false_eq_true, ↓reduceIte]

/-! ### The in-bucket loops -/

/-- The pointer of the plain dictionary and the stream of the compressed one are at the same string. -/
structure At (d : D) (decoded : Str) (L : List Str) (ptr : List UInt8) (st : List Nat) : Prop where
  ptr : ∃ rest, ptr = encTail decoded L ++ rest
  stores : StoresTail d.g d.maxchar decoded L st
  chain : ChainOK d.maxchar decoded L
  nf : ∀ s ∈ L, nulFree s

/-- One step of both decoders from related positions. -/
theorem step_sim {decoded c : Str} {L : List Str} {ptr : List UInt8} {st : List Nat}
    (h : At d decoded (c :: L) ptr st) :
    ∃ used rest' st', VByte.decode ptr = some (lcp decoded c, used) ∧
      readCStr (ptr.drop used) = some (c.drop (lcp decoded c), rest') ∧
      decodeString d decoded st = some (lcp decoded c, c, st') ∧ At d c L rest' st' := by
  obtain ⟨⟨rest, hp⟩, hstores, hchain, hnf⟩ := h
  cases hstores with
  | cons _ _ _ σ τ hexp hne htail =>
    obtain ⟨⟨h1, h2, h3⟩, hok'⟩ := hchain
    have hc : nulFree c := hnf c (by simp)
    refine ⟨(VByte.encode (lcp decoded c)).length, encTail c L ++ rest, τ, ?_, ?_, ?_, ?_⟩
    · rw [hp]
      simp only [encTail, encInternal, List.append_assoc]
      rw [VByte.decode_encode]
    · rw [hp]
      simp only [encTail, encInternal, List.append_assoc, List.drop_left]
      have := readCStr_append' (nulFree_drop hc (lcp decoded c)) (encTail c L ++ rest)
      simpa [List.append_assoc] using this
    · exact decodeString_spec d decoded c σ τ hexp hne h1 h2 h3
    · exact ⟨⟨rest, rfl⟩, htail, hok', fun s hs => hnf s (List.mem_cons_of_mem _ hs)⟩

/-- `searchPrefix` in lockstep: the same in-bucket position; when it is a match, related positions behind it. -/
theorem searchPrefixLoop_sim (q : Str) :
    ∀ (fuel : Nat) (L : List Str) (decoded : Str) (id sc : Nat) (ptr : List UInt8) (st : List Nat) (sh : Nat),
      At d decoded L ptr st → sc = id + L.length →
      (searchPrefixLoop d q fuel id sc st decoded sh = none ∧ PFC.searchPrefixLoop q fuel id sc ptr decoded sh = none) ∨
      (∃ idr st' dec' ptr' dec'', searchPrefixLoop d q fuel id sc st decoded sh = some (idr, st', dec') ∧
          PFC.searchPrefixLoop q fuel id sc ptr decoded sh = some (idr, ptr', dec'') ∧
          (idr ≠ 0 → dec' = dec'' ∧ ∃ L'', At d dec' L'' ptr' st' ∧ sc = idr + L''.length))
  | 0, _, _, _, _, _, _, _, _, _ => Or.inl ⟨rfl, rfl⟩
  | fuel + 1, L, decoded, id, sc, ptr, st, sh, hat, hsc => by
    unfold searchPrefixLoop PFC.searchPrefixLoop
    cases hl : lcpLoop (decoded.drop sh) ((q ++ [0]).drop sh) sh with
    | none => exact Or.inl ⟨rfl, rfl⟩
    | some cs =>
      obtain ⟨cmp, shared⟩ := cs
      simp only
      by_cases hfound : shared = q.length
      · simp only [hfound, ↓reduceIte]
        exact Or.inr ⟨id, st, decoded, ptr, decoded, rfl, rfl, fun _ => ⟨rfl, L, hat, hsc⟩⟩
      · simp only [hfound, ↓reduceIte]
        by_cases hstop : cmp > 0 ∨ id = sc
        · have hstop' : cmp > 0 ∨ id + 1 > sc := by
            rcases hstop with h | h
            · exact Or.inl h
            · exact Or.inr (by omega)
          simp only [hstop, hstop', ↓reduceIte]
          exact Or.inr ⟨0, st, decoded, ptr, decoded, rfl, rfl, fun h => absurd rfl h⟩
        · have hstop' : ¬ (cmp > 0 ∨ id + 1 > sc) := by
            intro h
            rcases h with h | h
            · exact hstop (Or.inl h)
            · exact hstop (Or.inr (by omega))
          simp only [hstop, hstop', ↓reduceIte]
          -- there is a next string
          cases L with
          | nil => exfalso; simp at hsc; exact hstop (Or.inr hsc.symm)
          | cons c L' =>
            obtain ⟨used, rest', st', hv, hr, hds, hat'⟩ := step_sim hat
            rw [hv, hds]
            simp only
            by_cases hlt : lcp decoded c < shared
            · simp only [hlt, ↓reduceIte]
              exact Or.inr ⟨0, _, _, _, _, rfl, rfl, fun h => absurd rfl h⟩
            · simp only [hlt, ↓reduceIte]
              have hle := lcp_le_left decoded c
              have hnot : ¬ lcp decoded c > decoded.length := by omega
              simp only [hnot, ↓reduceIte, hr, take_lcp_append_drop]
              exact searchPrefixLoop_sim q fuel L' c (id + 1) sc rest' st' shared hat' (by simp at hsc; omega)

/-- `searchDistinctPrefix` in lockstep (the plain version counts to `scanneable`, the compressed one to
`scanneable + 1` exclusive). -/
theorem searchDistinctLoop_sim (plen : Nat) :
    ∀ (fuel : Nat) (L : List Str) (decoded : Str) (id sc : Nat) (ptr : List UInt8) (st : List Nat),
      At d decoded L ptr st → sc + 1 = id + L.length →
      searchDistinctLoop d plen fuel id (sc + 1) st decoded = PFC.searchDistinctLoop plen fuel id sc ptr decoded
  | 0, _, _, _, _, _, _, _, _ => rfl
  | fuel + 1, L, decoded, id, sc, ptr, st, hat, hsc => by
    unfold searchDistinctLoop PFC.searchDistinctLoop
    by_cases hi : id < sc + 1
    · have hi' : id ≤ sc := by omega
      simp only [hi, hi', ↓reduceIte]
      cases L with
      | nil => exfalso; simp at hsc; omega
      | cons c L' =>
        obtain ⟨used, rest', st', hv, hr, hds, hat'⟩ := step_sim hat
        rw [hv, hds]
        simp only
        by_cases hlt : lcp decoded c < plen
        · simp [hlt]
        · simp only [hlt, ↓reduceIte]
          have hle := lcp_le_left decoded c
          have hnot : ¬ lcp decoded c > decoded.length := by omega
          simp only [hnot, ↓reduceIte, hr, take_lcp_append_drop]
          exact searchDistinctLoop_sim plen fuel L' c (id + 1) sc rest' st' hat' (by simp at hsc; omega)
    · have hi' : ¬ id ≤ sc := by omega
      simp [hi, hi']

end
end CSD.RPFC
