import CSD.Model.PFC
import CSD.Lemmas.VByte

namespace CSD.PFC
open CSD

/-- A string without NUL bytes (what a C string can hold). -/
def nulFree (s : Str) : Prop := ∀ c ∈ s, c ≠ 0

theorem nulFree_of_validStr {s : Str} (h : validStr s = true) : nulFree s := by
  intro c hc
  simp only [validStr, Bool.and_eq_true, List.all_eq_true] at h
  have := h.2 c hc
  simp only [validByte, Bool.and_eq_true, decide_eq_true_eq] at this
  intro h0; subst h0; simp at this

theorem nulFree_cons {c : UInt8} {s : Str} : nulFree (c :: s) ↔ c ≠ 0 ∧ nulFree s := by
  simp [nulFree]

theorem nulFree_drop {s : Str} (h : nulFree s) (k : Nat) : nulFree (s.drop k) :=
  fun c hc => h c (List.mem_of_mem_drop hc)

theorem readCStr_append {s : Str} (h : nulFree s) (rest : List UInt8) :
    readCStr (s ++ 0 :: rest) = some (s, rest) := by
  induction s with
  | nil => simp [readCStr]
  | cons c s ih =>
    have hc := (nulFree_cons.mp h)
    simp [readCStr, hc.1, ih hc.2]

theorem readCStr_append' {s : Str} (h : nulFree s) (rest : List UInt8) :
    readCStr (s ++ [0] ++ rest) = some (s, rest) := by
  simpa using readCStr_append h rest

theorem lcp_le_left : ∀ (a b : Str), lcp a b ≤ a.length
  | [], _ => by simp [lcp]
  | _ :: _, [] => by simp [lcp]
  | x :: as, y :: bs => by
    unfold lcp; split
    · have := lcp_le_left as bs; simp; omega
    · simp

theorem lcp_le_right : ∀ (a b : Str), lcp a b ≤ b.length
  | [], _ => by simp [lcp]
  | _ :: _, [] => by simp [lcp]
  | x :: as, y :: bs => by
    unfold lcp; split
    · have := lcp_le_right as bs; simp; omega
    · simp

theorem take_lcp_append_drop : ∀ (a b : Str), a.take (lcp a b) ++ b.drop (lcp a b) = b
  | [], b => by simp [lcp]
  | _ :: _, [] => by simp [lcp]
  | x :: as, y :: bs => by
    unfold lcp; split
    · rename_i h; subst h
      simp [take_lcp_append_drop as bs]
    · simp

/-- Decoding what the constructor wrote for a non-header string gives the
string back and leaves the pointer right after it. -/
theorem decodeNext_encInternal (prev cur : Str) (hc : nulFree cur) (rest : List UInt8) :
    decodeNext (encInternal prev cur ++ rest) prev = some (cur, rest) := by
  unfold decodeNext encInternal
  have h1 : VByte.encode (lcp prev cur) ++ List.drop (lcp prev cur) cur ++ [0] ++ rest
      = VByte.encode (lcp prev cur) ++ (List.drop (lcp prev cur) cur ++ [0] ++ rest) := by
    simp [List.append_assoc]
  rw [h1, VByte.decode_encode]
  simp only
  have hle := lcp_le_left prev cur
  have : ¬ lcp prev cur > prev.length := by omega
  simp only [this, ↓reduceIte, List.drop_left]
  rw [readCStr_append' (nulFree_drop hc _)]
  simp [take_lcp_append_drop]

/-- `getElem` on `h :: L` with a default, to state "the k-th string of the bucket". -/
theorem decodeSteps_encTail : ∀ (L : List Str) (h : Str) (k : Nat) (rest : List UInt8),
    (∀ s ∈ L, nulFree s) → k ≤ L.length →
    ∃ r, decodeSteps k (encTail h L ++ rest) h = some ((h :: L)[k]!, r)
  | L, h, 0, rest, _, _ => ⟨encTail h L ++ rest, by simp [decodeSteps]⟩
  | [], h, k + 1, rest, _, hk => by simp at hk
  | s :: L, h, k + 1, rest, hn, hk => by
    have hs : nulFree s := hn s (by simp)
    have hL : ∀ t ∈ L, nulFree t := fun t ht => hn t (by simp [ht])
    have hk' : k ≤ L.length := by simpa using hk
    obtain ⟨r, hr⟩ := decodeSteps_encTail L s k rest hL hk'
    refine ⟨r, ?_⟩
    simp only [decodeSteps, encTail, List.append_assoc]
    rw [decodeNext_encInternal h s hs]
    simp only
    rw [hr]
    simp

/-! ### chunks -/

theorem chunks_nil (b : Nat) : chunks b [] = [] := by
  unfold chunks; simp

theorem chunks_cons (b : Nat) (S : List Str) (hb : b ≠ 0) (hS : S ≠ []) :
    chunks b S = S.take b :: chunks b (S.drop b) := by
  rw [chunks]; simp [hb, hS]

/-- The `k`-th chunk is the `k`-th group of `b` consecutive strings. -/
theorem chunks_getElem? (b : Nat) (hb : b ≠ 0) : ∀ (S : List Str) (k : Nat),
    k * b < S.length → (chunks b S)[k]? = some ((S.drop (k * b)).take b) := by
  intro S k
  induction k generalizing S with
  | zero =>
    intro h
    have hS : S ≠ [] := by intro e; subst e; simp at h
    rw [chunks_cons b S hb hS]; simp
  | succ k ih =>
    intro h
    have hS : S ≠ [] := by intro e; subst e; simp at h
    rw [chunks_cons b S hb hS]
    simp only [List.getElem?_cons_succ]
    have : k * b < (S.drop b).length := by
      simp only [List.length_drop]
      have : (k + 1) * b = k * b + b := by rw [Nat.add_mul]; simp
      omega
    rw [ih (S.drop b) this, List.drop_drop]
    congr 2
    rw [Nat.add_mul]; simp [Nat.add_comm]

theorem chunks_length (b : Nat) (hb : b ≠ 0) (S : List Str) :
    (chunks b S).length = (S.length + b - 1) / b := by
  induction h : S.length using Nat.strongRecOn generalizing S with
  | _ n ih =>
    by_cases hS : S = []
    · subst hS; simp at h; subst h
      rw [chunks_nil]
      have : (0 + b - 1) / b = 0 := by
        apply Nat.div_eq_of_lt; omega
      rw [this]; rfl
    · rw [chunks_cons b S hb hS]
      have hpos : 0 < S.length := List.length_pos_iff.mpr hS
      simp only [List.length_cons]
      rw [ih (S.drop b).length (by simp only [List.length_drop]; omega) (S.drop b) rfl]
      simp only [List.length_drop]
      by_cases hle : S.length ≤ b
      · have h0 : S.length - b = 0 := by omega
        rw [h0]
        have e1 : (0 + b - 1) / b = 0 := by apply Nat.div_eq_of_lt; omega
        have e2 : (n + b - 1) / b = 1 := by
          subst h
          have : S.length + b - 1 = (S.length - 1) + 1 * b := by omega
          rw [this, Nat.add_mul_div_right _ _ (by omega)]
          have : (S.length - 1) / b = 0 := by apply Nat.div_eq_of_lt; omega
          omega
        omega
      · subst h
        have : S.length + b - 1 = (S.length - b + b - 1) + 1 * b := by omega
        rw [this, Nat.add_mul_div_right _ _ (by omega)]

/-! ### offsets -/

theorem offsetsFrom_getElem? : ∀ (encs : List (List UInt8)) (off k : Nat), k < encs.length →
    (offsetsFrom off encs)[k]? = some (off + (encs.take k).flatten.length)
  | [], _, _, h => by simp at h
  | e :: rest, off, 0, _ => by simp [offsetsFrom]
  | e :: rest, off, k + 1, h => by
    simp only [offsetsFrom, List.getElem?_cons_succ]
    rw [offsetsFrom_getElem? rest (off + e.length) k (by simpa using h)]
    simp [Nat.add_assoc]

theorem offsetsFrom_length : ∀ (encs : List (List UInt8)) (off : Nat),
    (offsetsFrom off encs).length = encs.length
  | [], _ => rfl
  | _ :: rest, off => by simp [offsetsFrom, offsetsFrom_length rest]

theorem drop_flatten_take (encs : List (List UInt8)) (k : Nat) :
    encs.flatten.drop (encs.take k).flatten.length = (encs.drop k).flatten := by
  induction encs generalizing k with
  | nil => simp
  | cons e rest ih =>
    cases k with
    | zero => simp
    | succ k =>
      simp only [List.take_succ_cons, List.flatten_cons, List.length_append, List.drop_succ_cons]
      rw [← List.drop_drop, List.drop_left, ih]

end CSD.PFC
