import CSD.Lemmas.HashRP
import CSD.Lemmas.RPDACPrefix

/-! `RePair::extractStringAndCompareRP` decides equality with the stored string; HASHRPF `locate`. -/
namespace CSD.Hash
open CSD CSD.RePair CSD.PFC CSD.RPDAC

/-- Compare a list of terminals with the head of a buffer: sign and number of positions consumed. -/
def cmpL : List Nat → List Nat → Option (Int × Nat)
  | [], _ => some (0, 0)
  | _ :: _, [] => none
  | x :: xs, b :: bs => if x ≠ b then some ((x : Int) - b, 0) else (cmpL xs bs).map fun (c, k) => (c, k + 1)

theorem cmpList_eq_cmpL (buf : List Nat) : ∀ (seg : List Nat) (pos : Nat),
    cmpList buf seg pos = (cmpL seg (buf.drop pos)).map fun (c, k) => (c, pos + k)
  | [], pos => by simp [cmpList, cmpL]
  | x :: xs, pos => by
    unfold cmpList cmpTerm
    cases hb : buf[pos]? with
    | none =>
      have : buf.drop pos = [] := List.drop_eq_nil_iff.mpr (by
        rcases Nat.lt_or_ge pos buf.length with h | h
        · rw [List.getElem?_eq_getElem h] at hb; cases hb
        · exact h)
      simp [this, cmpL]
    | some b =>
      have hlt : pos < buf.length := by
        rcases Nat.lt_or_ge pos buf.length with h | h
        · exact h
        · rw [List.getElem?_eq_none h] at hb; cases hb
      have hd : buf.drop pos = b :: buf.drop (pos + 1) := by
        rw [List.drop_eq_getElem_cons hlt]
        rw [List.getElem?_eq_getElem hlt] at hb
        rw [Option.some.inj hb]
      rw [hd]
      simp only [cmpL]
      by_cases hne : x ≠ b
      · have hi : (x : Int) - b ≠ 0 := by omega
        simp [hne, hi]
      · have : x = b := by omega
        subst this
        simp only [ne_eq, not_true_eq_false, ↓reduceIte]
        rw [cmpList_eq_cmpL buf xs (pos + 1)]
        cases cmpL xs (buf.drop (pos + 1)) with
        | none => rfl
        | some r => obtain ⟨c, k⟩ := r; simp; omega

theorem cmpL_zero : ∀ (seg B : List Nat) (k : Nat), cmpL seg B = some (0, k) → k = seg.length ∧ ∃ B', B = seg ++ B'
  | [], B, k, h => by
    simp only [cmpL, Option.some.injEq, Prod.mk.injEq] at h
    exact ⟨by simp; omega, B, rfl⟩
  | x :: xs, [], k, h => by simp [cmpL] at h
  | x :: xs, b :: bs, k, h => by
    simp only [cmpL] at h
    by_cases hne : x ≠ b
    · rw [if_pos hne] at h
      simp only [Option.some.injEq, Prod.mk.injEq] at h
      have : (x : Int) - b ≠ 0 := by omega
      omega
    · have : x = b := by omega
      subst this
      simp only [ne_eq, not_true_eq_false, ↓reduceIte] at h
      cases hr : cmpL xs bs with
      | none => rw [hr] at h; cases h
      | some r =>
        obtain ⟨c, k'⟩ := r
        rw [hr] at h
        simp only [Option.map_some, Option.some.injEq, Prod.mk.injEq] at h
        obtain ⟨h1, h2⟩ := h
        subst h1
        obtain ⟨hk, B', hB⟩ := cmpL_zero xs bs k' hr
        exact ⟨by simp; omega, B', by rw [hB]; rfl⟩

theorem cmpL_none : ∀ (seg B : List Nat), cmpL seg B = none → ∃ t, t ≠ [] ∧ seg = B ++ t
  | [], B, h => by simp [cmpL] at h
  | x :: xs, [], _ => ⟨x :: xs, by simp, rfl⟩
  | x :: xs, b :: bs, h => by
    simp only [cmpL] at h
    by_cases hne : x ≠ b
    · simp [hne] at h
    · have : x = b := by omega
      subst this
      simp only [ne_eq, not_true_eq_false, ↓reduceIte, Option.map_eq_none_iff] at h
      obtain ⟨t, ht, hs⟩ := cmpL_none xs bs h
      exact ⟨t, ht, by rw [hs]; rfl⟩

theorem cmpL_ne : ∀ (seg B : List Nat) (c : Int) (k : Nat), cmpL seg B = some (c, k) → c ≠ 0 →
    ∃ pre x y s1 s2, seg = pre ++ x :: s1 ∧ B = pre ++ y :: s2 ∧ x ≠ y
  | [], B, c, k, h, hc => by simp [cmpL] at h; omega
  | x :: xs, [], c, k, h, _ => by simp [cmpL] at h
  | x :: xs, b :: bs, c, k, h, hc => by
    simp only [cmpL] at h
    by_cases hne : x ≠ b
    · exact ⟨[], x, b, xs, bs, rfl, rfl, hne⟩
    · have : x = b := by omega
      subst this
      simp only [ne_eq, not_true_eq_false, ↓reduceIte] at h
      cases hr : cmpL xs bs with
      | none => rw [hr] at h; cases h
      | some r =>
        obtain ⟨c', k'⟩ := r
        rw [hr] at h
        simp only [Option.map_some, Option.some.injEq, Prod.mk.injEq] at h
        obtain ⟨h1, _⟩ := h
        subst h1
        obtain ⟨pre, x', y', s1, s2, e1, e2, hxy⟩ := cmpL_ne xs bs c' k' hr hc
        exact ⟨x :: pre, x', y', s1, s2, by rw [e1]; rfl, by rw [e2]; rfl, hxy⟩

/-- If a string closed by `T` continues after the `T`, the `T` is not its last symbol. -/
theorem mem_of_append_cons (a b Y : List Nat) (T : Nat) (hY : Y ≠ []) (h : b ++ T :: Y = a ++ [T]) : T ∈ a := by
  have hlen : b.length + 1 + Y.length = a.length + 1 := by
    have := congrArg List.length h; simp at this; omega
  have hy : 0 < Y.length := List.length_pos_iff.mpr hY
  have hlt : b.length < a.length := by omega
  have h1 : (b ++ T :: Y)[b.length]? = some T := by simp
  rw [h, List.getElem?_append_left hlt] at h1
  exact List.mem_of_getElem? h1

end CSD.Hash

namespace CSD.Hash
open CSD CSD.RePair CSD.PFC CSD.RPDAC

/-- One symbol of the stream compared at `pos`, as a list comparison against the rest of the buffer. -/
theorem sym_cmp (g : Grammar) (hwf : g.wf = true) (buf : List Nat) (x pos : Nat) (hx : x < g.terminals + g.rules.length) :
    (if x ≥ g.terminals then cmpRule g buf (g.rules.length + 1) (x - g.terminals) pos else cmpTerm buf x pos) =
      (cmpL (g.expandSym x) (buf.drop pos)).map fun (c, k) => (c, pos + k) := by
  rw [← cmpList_eq_cmpL]
  by_cases hge : x ≥ g.terminals
  · rw [if_pos hge, cmpRule_eq g hwf buf (x - g.terminals) (by omega) _ (by omega) pos]
    congr 2; omega
  · rw [if_neg hge, expandSym_term g x (by omega), cmpList_single]

/-- **`extractStringAndCompareRP` decides equality.** The stream holds, from the offset on, symbols that
expand to the stored string followed by the terminator `T` (then whatever follows); the pattern buffer
is the pattern followed by `T`; `T` occurs in neither. The loop returns 0 exactly when the two are equal,
reading neither past the string's symbols nor past the buffer. -/
theorem cmpStream_spec (g : Grammar) (hwf : g.wf = true) (T : Nat) (buf : List Nat) (strLen : Nat)
    (hbuf : buf.length = strLen + 1) :
    ∀ (syms : List Nat) (a b rest : List Nat) (pos fuel : Nat),
      (∀ x ∈ syms, x < g.terminals + g.rules.length) → g.expand syms = a ++ [T] → T ∉ a → T ∉ b →
      buf.drop pos = b ++ [T] → strLen + 2 - pos ≤ fuel →
      ∃ c, cmpStream g buf strLen fuel (syms ++ rest) pos = some c ∧ (c = 0 ↔ a = b) := by
  intro syms
  induction syms with
  | nil =>
    intro a b rest pos fuel _ hexp _ _ _ _
    simp [Grammar.expand] at hexp
  | cons x xs ih =>
    intro a b rest pos fuel hv hexp hTa hTb hdrop hf
    have hpos : pos ≤ strLen := by
      rcases Nat.lt_or_ge strLen pos with h | h
      · have : buf.drop pos = [] := List.drop_eq_nil_iff.mpr (by omega)
        rw [this] at hdrop; simp at hdrop
      · exact h
    obtain ⟨fuel', rfl⟩ : ∃ f, fuel = f + 1 := ⟨fuel - 1, by omega⟩
    have hx := hv x (by simp)
    have hxs : ∀ y ∈ xs, y < g.terminals + g.rules.length := fun y hy => hv y (by simp [hy])
    have hseg : g.expand (x :: xs) = g.expandSym x ++ g.expand xs := by simp [Grammar.expand]
    rw [hseg] at hexp
    have hne := expandSym_ne_nil g hwf x hx
    simp only [List.cons_append, cmpStream, hpos, ↓reduceIte]
    rw [sym_cmp g hwf buf x pos hx, hdrop]
    cases hc : cmpL (g.expandSym x) (b ++ [T]) with
    | none =>
      -- the buffer cannot end inside the symbol: its `T` would sit inside the stored string
      exfalso
      obtain ⟨t, ht, hs⟩ := cmpL_none _ _ hc
      rw [hs] at hexp
      have : b ++ T :: (t ++ g.expand xs) = a ++ [T] := by simpa using hexp
      exact hTa (mem_of_append_cons a b _ T (by simp [ht]) this)
    | some r =>
      obtain ⟨c, k⟩ := r
      simp only [Option.map_some]
      by_cases hc0 : c ≠ 0
      · rw [if_pos hc0]
        refine ⟨c, rfl, ⟨fun h => absurd h hc0, fun hab => ?_⟩⟩
        exfalso
        obtain ⟨pre, x', y', s1, s2, e1, e2, hxy⟩ := cmpL_ne _ _ c k hc hc0
        subst hab
        rw [e1] at hexp
        rw [e2] at hexp
        have : pre ++ x' :: (s1 ++ g.expand xs) = pre ++ y' :: s2 := by simpa using hexp
        have := List.append_cancel_left this
        exact hxy (List.cons.inj this).1
      · have hc0' : c = 0 := by omega
        subst hc0'
        simp only [ne_eq, not_true_eq_false, ↓reduceIte]
        obtain ⟨hk, B', hB⟩ := cmpL_zero _ _ k hc
        subst hk
        have hdrop' : buf.drop (pos + (g.expandSym x).length) = B' := by
          have : buf.drop (pos + (g.expandSym x).length) = (buf.drop pos).drop (g.expandSym x).length := by
            rw [List.drop_drop]
          rw [this, hdrop, hB, List.drop_left]
        by_cases hX : g.expand xs = []
        · -- the symbol closes the stored string
          rw [hX, List.append_nil] at hexp
          rw [hexp] at hB
          have hB'nil : B' = [] := by
            rcases List.eq_nil_or_concat B' with h | ⟨B'', t, h⟩
            · exact h
            · exfalso
              -- b ++ [T] = a ++ [T] ++ B' with B' non-empty puts a `T` inside b
              have h2 : a ++ T :: B' = b ++ [T] := by simpa using hB.symm
              exact hTb (mem_of_append_cons b a B' T (by rw [h]; simp) h2)
          subst hB'nil
          have hab : a = b := by
            have := hB; simp at this; exact this.symm
          have hxs0 : xs = [] := by
            cases xs with
            | nil => rfl
            | cons y ys =>
              exfalso
              have hy := expandSym_ne_nil g hwf y (hxs y (by simp))
              simp [Grammar.expand] at hX
              exact hy hX.1
          subst hxs0
          refine ⟨0, ?_, by simp [hab]⟩
          -- next iteration: the buffer is exhausted, the loop ends
          have hfuel : fuel' ≥ 1 := by omega
          obtain ⟨f2, rfl⟩ : ∃ f, fuel' = f + 1 := ⟨fuel' - 1, by omega⟩
          have hend : ¬ (pos + (g.expandSym x).length ≤ strLen) := by
            intro hle
            have : (buf.drop (pos + (g.expandSym x).length)).length = buf.length - (pos + (g.expandSym x).length) := by simp
            rw [hdrop'] at this
            simp at this; omega
          simp [cmpStream, hend]
        · -- more symbols follow: peel the matched part off both strings
          have hlen : (g.expandSym x).length ≤ a.length := by
            have := congrArg List.length hexp
            simp at this
            have : 0 < (g.expand xs).length := List.length_pos_iff.mpr hX
            omega
          have ha : a = g.expandSym x ++ a.drop (g.expandSym x).length := by
            have h1 := congrArg (List.take (g.expandSym x).length) hexp
            rw [List.take_left, List.take_append_of_le_length hlen] at h1
            conv => lhs; rw [← List.take_append_drop (g.expandSym x).length a, ← h1]
          have hXa : g.expand xs = a.drop (g.expandSym x).length ++ [T] := by
            have h1 := congrArg (List.drop (g.expandSym x).length) hexp
            rw [List.drop_left, List.drop_append_of_le_length hlen] at h1
            exact h1
          have hTseg : T ∉ g.expandSym x := fun h => hTa (by rw [ha]; exact List.mem_append_left _ h)
          -- the symbol fits inside b
          have hlenb : (g.expandSym x).length ≤ b.length := by
            rcases Nat.lt_or_ge b.length (g.expandSym x).length with h | h
            · exfalso
              have h1 : (b ++ [T])[b.length]? = some T := by simp
              rw [hB, List.getElem?_append_left h] at h1
              exact hTseg (List.mem_of_getElem? h1)
            · exact h
          have hb : b = g.expandSym x ++ b.drop (g.expandSym x).length := by
            have h1 := congrArg (List.take (g.expandSym x).length) hB
            rw [List.take_left, List.take_append_of_le_length hlenb] at h1
            conv => lhs; rw [← List.take_append_drop (g.expandSym x).length b, h1]
          have hB' : B' = b.drop (g.expandSym x).length ++ [T] := by
            have h1 := congrArg (List.drop (g.expandSym x).length) hB
            rw [List.drop_left, List.drop_append_of_le_length hlenb] at h1
            exact h1.symm
          have hTa' : T ∉ a.drop (g.expandSym x).length := fun h => hTa (List.mem_of_mem_drop h)
          have hTb' : T ∉ b.drop (g.expandSym x).length := fun h => hTb (List.mem_of_mem_drop h)
          obtain ⟨c, hcs, hiff⟩ := ih (a.drop (g.expandSym x).length) (b.drop (g.expandSym x).length) rest
            (pos + (g.expandSym x).length) fuel' hxs hXa hTa' hTb' (by rw [hdrop', hB']) (by
              have : 0 < (g.expandSym x).length := List.length_pos_iff.mpr hne
              omega)
          refine ⟨c, hcs, ?_⟩
          rw [hiff]
          constructor
          · intro h; rw [ha, hb, h]
          · intro h
            rw [ha, hb] at h
            have := List.append_cancel_left h
            -- a.drop / b.drop of the rewritten forms
            simpa using congrArg (List.drop (g.expandSym x).length) (by rw [ha, hb, h] : a = b)

end CSD.Hash

namespace CSD.Hash
open CSD CSD.RePair CSD.PFC CSD.RPDAC

theorem natBytes_inj {s q : Str} (h : natBytes s = natBytes q) : s = q := by
  unfold natBytes at h
  induction s generalizing q with
  | nil => cases q with
    | nil => rfl
    | cons b q => simp at h
  | cons a s ih =>
    cases q with
    | nil => simp at h
    | cons b q =>
      simp only [List.map_cons, List.cons.injEq] at h
      rw [UInt8.toNat_inj.mp h.1, ih h.2]

/-- `extractStringAndCompareRP` returns 0 exactly for the stored string itself. -/
theorem compareRP_spec (g : Grammar) (hwf : g.wf = true) (T : Nat) (syms rest : List Nat)
    (hv : ∀ x ∈ syms, x < g.terminals + g.rules.length) (s q : Str)
    (hexp : g.expand syms = natBytes s ++ [T]) (hTs : T ∉ natBytes s) :
    ∃ c, compareRP g T (syms ++ rest) (natBytes q) = some c ∧ (c = 0 ↔ s = q) := by
  unfold compareRP
  by_cases hany : (natBytes q).any (· == T) = true
  · rw [if_pos hany]
    refine ⟨1, rfl, ⟨fun h => by omega, fun h => ?_⟩⟩
    exfalso
    subst h
    simp only [List.any_eq_true, beq_iff_eq] at hany
    obtain ⟨x, hx, rfl⟩ := hany
    exact hTs hx
  · rw [if_neg hany]
    have hTq : T ∉ natBytes q := by
      intro h
      apply hany
      simp only [List.any_eq_true, beq_iff_eq]
      exact ⟨T, h, rfl⟩
    obtain ⟨c, hc, hiff⟩ := cmpStream_spec g hwf T (natBytes q ++ [T]) (natBytes q).length (by simp) syms
      (natBytes s) (natBytes q) rest 0 ((natBytes q).length + 2) hv hexp hTs hTq (by simp) (by omega)
    exact ⟨c, hc, by rw [hiff]; exact ⟨natBytes_inj, fun h => by rw [h]⟩⟩

end CSD.Hash

namespace CSD.Hash
open CSD CSD.RePair CSD.PFC CSD.RPDAC

/-- The sequence holds, from the offset stored in an occupied cell on, symbols expanding to that cell's
string followed by the terminator `T` (which occurs in no string). -/
structure StoresRPF (d : HDict) (g : Grammar) (T : Nat) (cls : List Nat) (offs : Nat → Nat) : Prop where
  wf : g.wf = true
  noT : ∀ s ∈ d.S, T ∉ natBytes s
  cellAt : ∀ cell k, d.table[cell]? = some (some k) → ∀ (hk : k < d.S.length),
    ∃ syms rest, cls.drop (offs cell) = syms ++ rest ∧ (∀ x ∈ syms, x < g.terminals + g.rules.length) ∧
      g.expand syms = natBytes d.S[k] ++ [T]

/-- **The real HASHRPF `locate` equals the table-level `locate`.** -/
theorem locateRPF_eq {d : HDict} (gd : GoodDict d) (g : Grammar) (T : Nat) (cls : List Nat) (offs : Nat → Nat)
    (st : StoresRPF d g T cls offs) (q : Str) :
    locateRPF d g T cls offs q = some (locate d q) := by
  have hpt : ∀ i ∈ List.range d.tsize, lfRPF d g T cls offs q i = (lf d q i).map some := by
    intro i _
    unfold lfRPF lf
    have hpr : probe (bitwisehash q d.tsize) (stepValue q d.tsize) d.tsize i = pr d.tsize q i := rfl
    simp only [hpr]
    cases hc : d.table.getD (pr d.tsize q i) none with
    | none => rfl
    | some k =>
      simp only
      have hcell : d.table[pr d.tsize q i]? = some (some k) := by
        rw [List.getD_eq_getElem?_getD] at hc
        cases h : d.table[pr d.tsize q i]? with
        | none => rw [h] at hc; simp at hc
        | some v => rw [h] at hc; simp at hc; rw [hc]
      obtain ⟨hkn, _⟩ := gd.good.stored _ k hcell
      obtain ⟨syms, rest, hdrop, hval, hexp⟩ := st.cellAt _ k hcell hkn
      rw [hdrop]
      obtain ⟨c, hc', hiff⟩ := compareRP_spec g st.wf T syms rest hval d.S[k] q hexp (st.noT _ (List.getElem_mem hkn))
      rw [hc']
      simp only
      have hget : d.S.getD k [] = d.S[k] := by
        rw [List.getD_eq_getElem?_getD, List.getElem?_eq_getElem hkn]; rfl
      rw [hget]
      by_cases heq : d.S[k] = q
      · have : c = 0 := hiff.mpr heq
        simp [this, heq]
      · have : c ≠ 0 := fun h => heq (hiff.mp h)
        simp [this, heq]
  unfold locateRPF
  rw [findSome?_congr _ _ _ hpt, locate_eq, findSome?_map_some]
  cases (List.range d.tsize).findSome? (lf d q) <;> rfl

end CSD.Hash
