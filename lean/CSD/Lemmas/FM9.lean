/-
  FM-index, part 9: rows by position.  In a suffix array the row of a suffix `s`
  is at index `lo L s` (`getElem_lo`); one LF step from the row of `s`, preceded by
  `c`, leads to the row of `c :: s` (`lf_step`) — what `SSA::extract_id` and the
  walk of `SSA::locate` do with `occ[c] + rank - 1`.
-/
import CSD.Lemmas.FM8

namespace CSD.FM

theorem getElem_lo_aux (p : Option Sym) (s : List Sym) : ∀ (L : List Row),
    L.Pairwise (fun a b => a.2 < b.2) → (p, s) ∈ L → L[L.countP (fun r => ltP s r.2)]? = some (p, s)
  | [], _, h => by simp at h
  | a :: L, hs, h => by
    have ⟨ha, hL⟩ := List.pairwise_cons.mp hs
    rcases List.mem_cons.mp h with e | e
    · subst e
      have h0 : L.countP (fun r => ltP s r.2) = 0 := by
        rw [List.countP_eq_zero]
        intro b hb
        simp only [ltP, decide_eq_true_eq]
        exact List.lt_asymm (ha b hb)
      have h1 : ltP s s = false := by simp [ltP, List.lt_irrefl]
      simp [List.countP_cons, h0, h1]
    · have h1 : ltP s a.2 = true := by simp only [ltP, decide_eq_true_eq]; exact ha _ e
      simp only [List.countP_cons, h1, ↓reduceIte, List.getElem?_cons_succ]
      exact getElem_lo_aux p s L hL e

/-- The row of the suffix `s` is at index `lo L s`. -/
theorem getElem_lo {T : List Sym} {L : List Row} (hSA : IsSA T L) {p : Option Sym} {s : List Sym}
    (h : (p, s) ∈ L) : L[lo L s]? = some (p, s) :=
  getElem_lo_aux p s L hSA.2 h

theorem lo_lt_length {T : List Sym} {L : List Row} (hSA : IsSA T L) {p : Option Sym} {s : List Sym}
    (h : (p, s) ∈ L) : lo L s < L.length := by
  have := getElem_lo hSA h
  exact (List.getElem?_eq_some_iff.mp this).1

/-- A row preceded by `c` has the row of `c :: s` in the same text. -/
theorem pred_row (c : Sym) (s : List Sym) : ∀ (T : List Sym) (p : Option Sym),
    (some c, s) ∈ rowsFrom p T → p ≠ some c ∨ s ≠ T → ∃ p', (p', c :: s) ∈ rowsFrom p T
  | [], p, h, hne => by
    simp only [rowsFrom, List.mem_singleton, Prod.mk.injEq] at h
    rcases hne with hne | hne
    · exact absurd h.1.symm hne
    · exact absurd h.2 hne
  | x :: T, p, h, hne => by
    simp only [rowsFrom, List.mem_cons, Prod.mk.injEq] at h
    rcases h with ⟨h1, h2⟩ | h
    · rcases hne with hne | hne
      · exact absurd h1.symm hne
      · exact absurd h2 hne
    · by_cases hx : some x = some c ∧ s = T
      · obtain ⟨hx1, hx2⟩ := hx
        have : x = c := Option.some.inj hx1
        subst this; subst hx2
        exact ⟨p, by simp [rowsFrom]⟩
      · have hne' : some x ≠ some c ∨ s ≠ T := by
          by_cases h1 : some x = some c
          · right; intro e; exact hx ⟨h1, e⟩
          · left; exact h1
        obtain ⟨p', hp'⟩ := pred_row c s T (some x) h hne'
        exact ⟨p', List.mem_cons_of_mem _ hp'⟩

theorem pred_row_rows {T : List Sym} {c : Sym} {s : List Sym} (h : (some c, s) ∈ rows T) :
    ∃ p', (p', c :: s) ∈ rows T :=
  pred_row c s T none h (Or.inl (by simp))

theorem cnt_succ_of_getElem {bwt : List Sym} {c : Sym} {i : Nat} (h : bwt[i]? = some c) :
    cnt bwt c (i + 1) = cnt bwt c i + 1 := by
  unfold cnt
  obtain ⟨hi, he⟩ := List.getElem?_eq_some_iff.mp h
  rw [List.take_succ_eq_append_getElem hi, List.count_append, he]
  simp

theorem cnt_succ_of_ne {bwt : List Sym} {c x : Sym} {i : Nat} (h : bwt[i]? = some x) (hne : x ≠ c) :
    cnt bwt c (i + 1) = cnt bwt c i := by
  unfold cnt
  obtain ⟨hi, he⟩ := List.getElem?_eq_some_iff.mp h
  rw [List.take_succ_eq_append_getElem hi, List.count_append, he]
  simp [hne]

/-- One LF step: from the row of `s`, preceded by `c ≠ 0`, `bwt->access` returns `c` with rank
`r` and `occ[c] + r - 1` is the row of `c :: s`. -/
theorem lf_step {T : List Sym} {L : List Row} {ix : Index} (hSA : IsSA T L) (hB : Built T L ix)
    {c : Sym} {s : List Sym} (hc : c ≠ 0) (h : (some c, s) ∈ L) :
    access ix.bwt (lo L s) = some (c, cnt ix.bwt c (lo L s) + 1) ∧
    lo L (c :: s) = occOf T c + cnt ix.bwt c (lo L s) ∧
    (∃ p', (p', c :: s) ∈ L) := by
  have hrow := getElem_lo hSA h
  have hb : ix.bwt[lo L s]? = some c := by
    rw [hB.bwt, List.getElem?_map, hrow]; rfl
  refine ⟨?_, ?_, ?_⟩
  · unfold access
    rw [hb]
    simp only
    rw [cnt_succ_of_getElem hb]
  · have := step_lo hSA hc s
    unfold lo
    rw [this, cntq_ltP_single hSA, hB.bwt]
  · obtain ⟨p', hp'⟩ := pred_row_rows (hSA.1.mem_iff.mp h)
    exact ⟨p', hSA.1.mem_iff.mpr hp'⟩

end CSD.FM
