import CSD.Lemmas.HashSearch
import CSD.Lemmas.HashPrime

/-! The dictionary `build` produces satisfies `GoodDict`. -/
namespace CSD.Hash

theorem probeOK_of_accepted {m : Nat} (h : accepted m = true) : ProbeOK m := by
  rcases accepted_prime_or_one h with e | e
  · subst e; exact probeOK_one
  · exact probeOK_of_prime e

/-- **The constructor's table is good**: distinct strings, a requested size that holds them, and a
table size that passed `nearest_prime`'s own test (always the case when the C++ loop returns). -/
theorem goodDict_build (tsize0 : Nat) (S : List Str) (hnd : S.Nodup) (hcap : S.length ≤ tsize0)
    (hacc : accepted (build tsize0 S).tsize = true) : GoodDict (build tsize0 S) where
  probe := probeOK_of_accepted hacc
  nodup := hnd
  good := by
    have hge : tsize0 ≤ (build tsize0 S).tsize := nearestPrime_ge _ _
    exact good_insertAll (probeOK_of_accepted hacc) S (by simp only [build] at hge ⊢; omega)

/-- Within the model's fuel the size is always accepted unless the search ran to its end. -/
theorem build_tsize_spec (tsize0 : Nat) (S : List Str) :
    accepted (build tsize0 S).tsize = true ∨ (build tsize0 S).tsize = tsize0 + (2 * tsize0 + 4) :=
  nearestPrime_spec _ _

end CSD.Hash
