import CSD.Lemmas.HashSearch
import CSD.Model.HashRP
import CSD.Lemmas.RPDAC2

/-! `StringDictionaryHASHRPDAC::locate`: double hashing, the string of a cell compared through the
grammar (`extractStringAndCompareDAC`) at the DAC position given by the cell's rank. -/
namespace CSD.Hash
open CSD CSD.RePair CSD.PFC

/-- The DAC holds, at position `id`, a symbol sequence expanding to the string with ID `id`. -/
structure StoresRP (d : HDict) (g : Grammar) (seqs : List (List Nat)) : Prop where
  wf : g.wf = true
  len : seqs.length = d.S.length
  valid : ∀ syms ∈ seqs, ∀ s ∈ syms, s < g.terminals + g.rules.length
  exp : ∀ id (h1 : 1 ≤ id) (h2 : id - 1 < seqs.length) (w : Str), extract d id = some w →
    g.expand seqs[id - 1] = RPDAC.bytesNat w

theorem findSome?_congr {α β : Type} (l : List α) (f g : α → Option β) (h : ∀ a ∈ l, f a = g a) :
    l.findSome? f = l.findSome? g := by
  induction l with
  | nil => rfl
  | cons a l ih =>
    simp only [List.findSome?_cons]
    rw [h a (by simp), ih (fun x hx => h x (by simp [hx]))]

theorem findSome?_map_some {α β : Type} (l : List α) (f : α → Option β) :
    l.findSome? (fun a => (f a).map some) = (l.findSome? f).map some := by
  induction l with
  | nil => rfl
  | cons a l ih =>
    simp only [List.findSome?_cons]
    cases f a with
    | none => simpa using ih
    | some v => rfl

/-- **The real `locate` (hash + DAC + grammar) equals the table-level `locate`**, hence is correct
by the theorems about the latter. -/
theorem locateRP_eq {d : HDict} (gd : GoodDict d) (hS : ∀ s ∈ d.S, nulFree s) (g : Grammar)
    (seqs : List (List Nat)) (st : StoresRP d g seqs) (q : Str) (hq : nulFree q) :
    locateRP d g seqs q = some (locate d q) := by
  have hpt : ∀ i ∈ List.range d.tsize, lfRP d g seqs q i = (lf d q i).map some := by
    intro i _
    unfold lfRP lf
    have hpr : probe (bitwisehash q d.tsize) (stepValue q d.tsize) d.tsize i = pr d.tsize q i := rfl
    have hnb : natBytes q = RPDAC.bytesNat q := rfl
    rw [hpr, hnb]
    cases hc : d.table.getD (pr d.tsize q i) none with
    | none => rfl
    | some k =>
      simp only
      have hcell : d.table[pr d.tsize q i]? = some (some k) := by
        rw [List.getD_eq_getElem?_getD] at hc
        cases h : d.table[pr d.tsize q i]? with
        | none => rw [h] at hc; simp at hc
        | some v => rw [h] at hc; simp at hc; rw [hc]
      obtain ⟨hkn, _⟩ := gd.good.stored _ k hcell
      obtain ⟨hr1, hocc⟩ := occList_rank d.table _ k hcell
      have hrle : rankOcc d.table (pr d.tsize q i) ≤ d.S.length := by
        have := rankOcc_le d.table (pr d.tsize q i); rw [gd.good.cnt] at this; exact this
      have hpos : rankOcc d.table (pr d.tsize q i) - 1 < seqs.length := by rw [st.len]; omega
      rw [List.getElem?_eq_getElem hpos]
      simp only
      -- the string stored at that rank is S[k]
      have hex : extract d (rankOcc d.table (pr d.tsize q i)) = some d.S[k] := by
        unfold extract
        rw [if_neg (by omega)]
        simp only
        rw [hocc]
        simp [List.getElem?_eq_getElem hkn]
      have hexp := st.exp _ hr1 hpos _ hex
      rw [RPDAC.compareDAC_eq g st.wf _ (st.valid _ (List.getElem_mem hpos)) d.S[k] q hexp
        (hS _ (List.getElem_mem hkn)) hq]
      simp only
      have hget : d.S.getD k [] = d.S[k] := by
        rw [List.getD_eq_getElem?_getD, List.getElem?_eq_getElem hkn]; rfl
      rw [hget]
      by_cases heq : d.S[k] = q
      · rw [heq, scmp_self]; simp
      · have : scmp d.S[k] q ≠ 0 := fun h0 =>
          heq ((scmp_eq_zero (hS _ (List.getElem_mem hkn)) hq).mp h0)
        simp [this, heq]
  unfold locateRP
  rw [findSome?_congr _ _ _ hpt, locate_eq, findSome?_map_some]
  cases (List.range d.tsize).findSome? (lf d q) <;> rfl

end CSD.Hash
