import CSD.Lemmas.PoolCount

namespace CSD.Pool

theorem inv2_worker (tasks : List Nat) (s : State) (h2 : Inv2 tasks s) (i : Nat) (hi : i < s.n)
    (v : WPc) (m : Option Tid)
    (hhas : ∀ x, v.has x = (s.wpc i).has x)
    (hle : v = .loopEmpty → s.stopped i = true)
    (hex : (v = .exitNotify ∨ v = .done) → s.prod.stopping = true ∧ s.queue = []) :
    Inv2 tasks { s with mutex := m, wpc := upd s.wpc i v } := by
  constructor
  · intro x
    have := inHand_upd s.n s.wpc i hi v x
    rw [hhas x] at this
    have h := h2.cons x
    simp only
    omega
  · exact h2.progress
  · intro j hj hpc
    simp only at hpc ⊢
    by_cases hji : j = i
    · subst hji; rw [upd_same] at hpc; exact hle hpc
    · rw [upd_other _ _ _ _ hji] at hpc; exact h2.sawStop j hj hpc
  · intro j hj hpc
    simp only at hpc ⊢
    by_cases hji : j = i
    · subst hji; rw [upd_same] at hpc; exact hex hpc
    · rw [upd_other _ _ _ _ hji] at hpc; exact h2.exited j hj hpc

theorem inv2_notify (tasks : List Nat) (s : State) (h2 : Inv2 tasks s) : Inv2 tasks (notifyAll s) := by
  constructor
  · intro x
    show s.queue.count x + inHand s.n (notifyAll s).wpc x + s.ran.count x = s.added.count x
    rw [inHand_notify]; exact h2.cons x
  · exact h2.progress
  · intro j hj hpc
    apply h2.sawStop j hj
    simp only [notifyAll] at hpc
    split at hpc
    · cases hpc
    · exact hpc
  · intro j hj hpc
    apply h2.exited j hj
    simp only [notifyAll] at hpc
    split at hpc
    · rcases hpc with h | h <;> cases h
    · exact hpc

/-- `check` pops task `t`: it moves from the queue into the worker's hand. -/
theorem inv2_pop (tasks : List Nat) (s : State) (h2 : Inv2 tasks s) (i : Nat) (hi : i < s.n)
    (t : Nat) (q : List Nat) (hq : s.queue = t :: q) (hpc : s.wpc i = .check) :
    Inv2 tasks { s with queue := q, mutex := none, wpc := upd s.wpc i (.unlocked t) } := by
  have hnoexit : ∀ j, j < s.n → ¬ (s.wpc j = .exitNotify ∨ s.wpc j = .done) := by
    intro j hj h
    have := (h2.exited j hj h).2
    rw [hq] at this; cases this
  constructor
  · intro x
    have := inHand_upd s.n s.wpc i hi (.unlocked t) x
    rw [hpc] at this
    have h := h2.cons x
    rw [hq, List.count_cons] at h
    simp only [WPc.has, Bool.false_eq_true, ↓reduceIte, Nat.add_zero] at this
    simp only
    by_cases htx : t = x
    · subst htx; simp at this h; omega
    · have : (t == x) = false := by simp [htx]
      simp [this] at *
      omega
  · exact h2.progress
  · intro j hj hp
    simp only at hp ⊢
    by_cases hji : j = i
    · subst hji; rw [upd_same] at hp; cases hp
    · rw [upd_other _ _ _ _ hji] at hp; exact h2.sawStop j hj hp
  · intro j hj hp
    simp only at hp ⊢
    by_cases hji : j = i
    · subst hji; rw [upd_same] at hp; rcases hp with h | h <;> cases h
    · rw [upd_other _ _ _ _ hji] at hp; exact absurd hp (hnoexit j hj)

/-- `run t`: the task moves from the worker's hand into the log. -/
theorem inv2_run (tasks : List Nat) (s : State) (h2 : Inv2 tasks s) (i : Nat) (hi : i < s.n)
    (t : Nat) (hpc : s.wpc i = .run t) :
    Inv2 tasks { s with ran := s.ran ++ [t], wpc := upd s.wpc i .loopStopped } := by
  constructor
  · intro x
    have := inHand_upd s.n s.wpc i hi .loopStopped x
    rw [hpc] at this
    have h := h2.cons x
    simp only [WPc.has, Bool.false_eq_true, ↓reduceIte, Nat.add_zero] at this
    simp only [List.count_append, List.count_cons, List.count_nil]
    by_cases htx : t = x
    · subst htx; simp at this ⊢; omega
    · have : (t == x) = false := by simp [htx]
      simp [this] at *
      omega
  · exact h2.progress
  · intro j hj hp
    simp only at hp ⊢
    by_cases hji : j = i
    · subst hji; rw [upd_same] at hp; cases hp
    · rw [upd_other _ _ _ _ hji] at hp; exact h2.sawStop j hj hp
  · intro j hj hp
    simp only at hp ⊢
    by_cases hji : j = i
    · subst hji; rw [upd_same] at hp; rcases hp with h | h <;> cases h
    · rw [upd_other _ _ _ _ hji] at hp; exact h2.exited j hj hp

/-- The producer changes its pc (and possibly the mutex and some stop flags that
only get set), without touching the queue. -/
theorem inv2_prod (tasks : List Nat) (s : State) (h2 : Inv2 tasks s) (p : PPc) (m : Option Tid)
    (st : Nat → Bool) (hst : ∀ i, s.stopped i = true → st i = true)
    (hrem : p.remaining = s.prod.remaining) (hstop : s.prod.stopping = true → p.stopping = true) :
    Inv2 tasks { s with stopped := st, mutex := m, prod := p } := by
  constructor
  · exact h2.cons
  · show s.added ++ p.remaining = tasks
    rw [hrem]; exact h2.progress
  · intro j hj hp; exact hst j (h2.sawStop j hj hp)
  · intro j hj hp
    have := h2.exited j hj hp
    exact ⟨hstop this.1, this.2⟩

/-- `addPush`. -/
theorem inv2_push (tasks : List Nat) (s : State) (h2 : Inv2 tasks s) (t : Nat) (r : List Nat)
    (hp : s.prod = .addPush t r) :
    Inv2 tasks { s with queue := s.queue ++ [t], added := s.added ++ [t], mutex := none, prod := .addNotify r } := by
  have hnoexit : ∀ j, j < s.n → ¬ (s.wpc j = .exitNotify ∨ s.wpc j = .done) := by
    intro j hj h
    have := (h2.exited j hj h).1
    rw [hp] at this; cases this
  constructor
  · intro x
    have h := h2.cons x
    simp only [List.count_append]
    omega
  · have := h2.progress
    rw [hp] at this
    simp only [PPc.remaining] at this ⊢
    rw [List.append_assoc]; exact this
  · exact h2.sawStop
  · intro j hj h; exact absurd h (hnoexit j hj)

end CSD.Pool
