/-
  FM-index, part 4: the hypotheses of part 3 are satisfiable and are what the model's
  build produces — `sortRows T` is a suffix array of `T` (`isSA_sortRows`) and
  `buildIndex T L s` is `Built` (`built_buildIndex`).
-/
import CSD.Lemmas.FM3

namespace CSD.FM

/-! ### `sortRows` -/

theorem rowsFrom_len_lt : ∀ (T : List Sym) (p : Option Sym) (r : Row), r ∈ rowsFrom p T → r.2.length ≤ T.length
  | [], p, r, h => by
    simp only [rowsFrom, List.mem_singleton] at h; subst h; simp
  | x :: T, p, r, h => by
    simp only [rowsFrom, List.mem_cons] at h
    rcases h with rfl | h
    · simp
    · have := rowsFrom_len_lt T (some x) r h
      simp only [List.length_cons]; omega

/-- The suffixes of a text are pairwise different (their lengths decrease). -/
theorem rowsFrom_pairwise_ne : ∀ (T : List Sym) (p : Option Sym),
    (rowsFrom p T).Pairwise (fun a b => a.2 ≠ b.2)
  | [], p => by simp [rowsFrom]
  | x :: T, p => by
    simp only [rowsFrom, List.pairwise_cons]
    refine ⟨fun r hr he => ?_, rowsFrom_pairwise_ne T (some x)⟩
    have := rowsFrom_len_lt T (some x) r hr
    have h2 := congrArg List.length he
    simp only [List.length_cons] at h2
    omega

theorem le_trans_sym {a b c : List Sym} (h1 : a ≤ b) (h2 : b ≤ c) : a ≤ c := List.le_trans h1 h2

theorem isSA_sortRows (T : List Sym) : IsSA T (sortRows T) := by
  unfold sortRows
  refine ⟨List.mergeSort_perm _ _, ?_⟩
  have hle : ((rows T).mergeSort fun a b => decide (a.2 ≤ b.2)).Pairwise (fun a b => decide (a.2 ≤ b.2) = true) :=
    List.pairwise_mergeSort
      (fun a b c h1 h2 => by
        simp only [decide_eq_true_eq] at h1 h2 ⊢
        exact le_trans_sym h1 h2)
      (fun a b => by
        simp only [Bool.or_eq_true, decide_eq_true_eq]
        exact List.le_total a.2 b.2) _
  have hne : ((rows T).mergeSort fun a b => decide (a.2 ≤ b.2)).Pairwise (fun a b => a.2 ≠ b.2) :=
    ((List.mergeSort_perm (rows T) _).pairwise_iff (fun {x y} (h : x.2 ≠ y.2) => fun e => h e.symm)).mpr
      (rowsFrom_pairwise_ne T none)
  refine (hle.and hne).imp ?_
  rintro a b ⟨h1, h2⟩
  simp only [decide_eq_true_eq] at h1
  rcases List.le_iff_lt_or_eq.mp h1 with h | h
  · exact h
  · exact absurd h h2

/-! ### `buildIndex` -/

theorem le_foldl_max : ∀ (l : List Nat) (m x : Nat), x ∈ l ∨ x ≤ m → x ≤ l.foldl max m
  | [], m, x, h => by
    rcases h with h | h
    · simp at h
    · simpa using h
  | y :: l, m, x, h => by
    simp only [List.foldl_cons]
    apply le_foldl_max l (max m y) x
    rcases h with h | h
    · rcases List.mem_cons.mp h with rfl | h
      · exact Or.inr (Nat.le_max_right _ _)
      · exact Or.inl h
    · exact Or.inr (Nat.le_trans h (Nat.le_max_left _ _))

theorem built_buildIndex {T : List Sym} {L : List Row} (samplesuff : Nat) : Built T L (buildIndex T L samplesuff) := by
  refine ⟨rfl, ?_, ?_⟩
  · intro c hc
    simp only [buildIndex, List.getElem?_map, List.getElem?_range hc, Option.map_some, List.contains_eq_mem]
  · intro c hc hmem
    simp only [buildIndex] at hmem ⊢
    have hle : c ≤ (L.map Row.bwt).foldl max 0 := le_foldl_max _ 0 c (Or.inl hmem)
    have h1 : c < (L.map Row.bwt).foldl max 0 + 2 := Nat.lt_of_le_of_lt hle (Nat.lt_add_of_pos_right (by decide))
    have h2 : c + 1 < (L.map Row.bwt).foldl max 0 + 2 := Nat.add_lt_add_right (Nat.lt_succ_of_le hle) 1
    simp only [List.getElem?_map, List.getElem?_range h1, List.getElem?_range h2, Option.map_some, hc,
      ↓reduceIte, Nat.add_one_ne_zero, and_self]

/-- For every text the model's index answers the backward search exactly (no hypothesis left open). -/
theorem bsearch_buildIndex (T : List Sym) (samplesuff : Nat) (pat : List Sym) (hne : pat ≠ [])
    (hall : ∀ c ∈ pat, c ≠ 0 ∧ c < 256) :
    ∃ res, bsearch (buildIndex T (sortRows T) samplesuff) pat = some res ∧ BSpec (sortRows T) pat res :=
  bsearch_spec (isSA_sortRows T) (built_buildIndex samplesuff) pat hne hall

end CSD.FM
