import CSD.Lemmas.RPDACPrefix2

/-! The three binary searches of `locatePrefix` over a sign-monotone comparison. -/
namespace CSD.RPDAC
open CSD CSD.RePair CSD.PFC

/-- What the searches need of the comparison `f` on the IDs `1 … n`: once positive it stays positive,
before a negative value everything is negative (so the zeros are contiguous). -/
structure Mono (n : Nat) (f : Nat → Int) : Prop where
  pos : ∀ a b, 1 ≤ a → a < b → b ≤ n → f a > 0 → f b > 0
  neg : ∀ a b, 1 ≤ a → a < b → b ≤ n → f b < 0 → f a < 0

theorem Mono.zero_between {n : Nat} {f : Nat → Int} (m : Mono n f) (a b c : Nat) (h1 : 1 ≤ a) (hab : a ≤ b)
    (hbc : b ≤ c) (hc : c ≤ n) (ha : f a = 0) (hcz : f c = 0) : f b = 0 := by
  rcases Nat.lt_or_ge a b with h | h
  · rcases Nat.lt_or_ge b c with h' | h'
    · have p1 := m.pos b c (by omega) h' hc
      have p2 := m.neg a b h1 h (by omega)
      omega
    · have : b = c := by omega
      subst this; exact hcz
  · have : a = b := by omega
    subst this; exact ha

section
variable {n : Nat} {f : Nat → Int} (m : Mono n f) (cmp : Nat → Option Int)
  (hcmp : ∀ id, 1 ≤ id → id ≤ n → cmp id = some (f id))
include m hcmp

theorem findAny_spec : ∀ (fuel left right : Nat), 1 ≤ left → right ≤ n → right + 1 - left < fuel →
    (∀ id, 1 ≤ id → id < left → f id < 0) → (∀ id, right < id → id ≤ n → f id > 0) →
    (findAny cmp fuel left right = some none ∧ ∀ id, 1 ≤ id → id ≤ n → f id ≠ 0) ∨
    (∃ c l r, findAny cmp fuel left right = some (some (c, l, r)) ∧ 1 ≤ l ∧ l ≤ c ∧ c ≤ r ∧ r ≤ n ∧ f c = 0 ∧
      (∀ id, 1 ≤ id → id < l → f id < 0) ∧ (∀ id, r < id → id ≤ n → f id > 0)) := by
  intro fuel
  induction fuel with
  | zero => intro left right _ _ hf; omega
  | succ fuel ih =>
    intro left right hl hr hf hlow hhigh
    unfold findAny
    by_cases hle : left ≤ right
    · rw [if_pos hle]
      simp only
      have hc1 : 1 ≤ (left + right) / 2 := by omega
      have hc2 : (left + right) / 2 ≤ n := by omega
      rw [hcmp _ hc1 hc2]
      simp only
      by_cases hpos : f ((left + right) / 2) > 0
      · rw [if_pos hpos]
        apply ih left ((left + right) / 2 - 1) hl (by omega) (by omega) hlow
        intro id h1 h2
        by_cases e : id = (left + right) / 2
        · subst e; exact hpos
        · exact m.pos _ id hc1 (by omega) h2 hpos
      · rw [if_neg hpos]
        by_cases hneg : f ((left + right) / 2) < 0
        · rw [if_pos hneg]
          apply ih ((left + right) / 2 + 1) right (by omega) hr (by omega) _ hhigh
          intro id h1 h2
          by_cases e : id = (left + right) / 2
          · subst e; exact hneg
          · exact m.neg id _ h1 (by omega) hc2 hneg
        · rw [if_neg hneg]
          right
          exact ⟨_, left, right, rfl, hl, by omega, by omega, hr, by omega, hlow, hhigh⟩
    · rw [if_neg hle]
      left
      refine ⟨rfl, ?_⟩
      intro id h1 h2
      rcases Nat.lt_or_ge id left with h | h
      · have := hlow id h1 h; omega
      · have := hhigh id (by omega) h2; omega

/-- Left boundary: the returned `lr` is the last ID before the zeros. -/
theorem leftLoop_spec (c : Nat) (hc1 : 1 ≤ c) (hcn : c ≤ n) (hcz : f c = 0) :
    ∀ (fuel ll lr : Nat), 1 ≤ ll → lr + 1 ≤ c → lr + 1 - ll < fuel →
    (∀ id, 1 ≤ id → id < ll → f id < 0) → (∀ id, lr < id → id ≤ c → f id = 0) →
    ∃ res, leftLoop cmp fuel ll lr = some res ∧ res + 1 ≤ c ∧ (∀ id, res < id → id ≤ c → f id = 0) ∧
      (∀ id, 1 ≤ id → id ≤ res → f id < 0) := by
  intro fuel
  induction fuel with
  | zero => intro ll lr _ _ hf; omega
  | succ fuel ih =>
    intro ll lr hll hlr hf hlow hzero
    unfold leftLoop
    by_cases hle : ll ≤ lr
    · rw [if_pos hle]
      simp only
      have h1 : 1 ≤ (ll + lr) / 2 := by omega
      have h2 : (ll + lr) / 2 ≤ n := by omega
      rw [hcmp _ h1 h2]
      simp only
      by_cases hz : f ((ll + lr) / 2) = 0
      · rw [if_pos hz]
        apply ih ll ((ll + lr) / 2 - 1) hll (by omega) (by omega) hlow
        intro id hid1 hid2
        exact m.zero_between ((ll + lr) / 2) id c h1 (by omega) hid2 hcn hz hcz
      · rw [if_neg hz]
        have hneg : f ((ll + lr) / 2) < 0 := by
          have := m.pos ((ll + lr) / 2) c h1 (by omega) hcn
          omega
        apply ih ((ll + lr) / 2 + 1) lr (by omega) hlr (by omega) _ hzero
        intro id hid1 hid2
        by_cases e : id = (ll + lr) / 2
        · subst e; exact hneg
        · exact m.neg id _ hid1 (by omega) h2 hneg
    · rw [if_neg hle]
      exact ⟨lr, rfl, hlr, hzero, fun id h1 h2 => hlow id h1 (by omega)⟩

/-- Right boundary: the returned `rl` is the last zero. -/
theorem rightLoop_spec (c : Nat) (hc1 : 1 ≤ c) (hcz : f c = 0) :
    ∀ (fuel rl rr : Nat), c ≤ rl → rl < rr → rr ≤ n + 1 → rr - rl < fuel →
    (∀ id, c ≤ id → id ≤ rl → f id = 0) → (∀ id, rr ≤ id → id ≤ n → f id > 0) →
    ∃ res, rightLoop cmp fuel rl rr = some res ∧ c ≤ res ∧ res ≤ n ∧ (∀ id, c ≤ id → id ≤ res → f id = 0) ∧
      (∀ id, res < id → id ≤ n → f id > 0) := by
  intro fuel
  induction fuel with
  | zero => intro rl rr _ _ _ hf; omega
  | succ fuel ih =>
    intro rl rr hrl hlt hrr hf hzero hhigh
    unfold rightLoop
    by_cases hgo : rl < rr - 1
    · rw [if_pos hgo]
      simp only
      have h1 : 1 ≤ (rl + rr) / 2 := by omega
      have h2 : (rl + rr) / 2 ≤ n := by omega
      rw [hcmp _ h1 h2]
      simp only
      by_cases hz : f ((rl + rr) / 2) = 0
      · rw [if_pos hz]
        apply ih ((rl + rr) / 2) rr (by omega) (by omega) hrr (by omega) _ hhigh
        intro id hid1 hid2
        exact m.zero_between c id ((rl + rr) / 2) hc1 hid1 hid2 h2 hcz hz
      · rw [if_neg hz]
        have hpos : f ((rl + rr) / 2) > 0 := by
          have hrlz : f rl = 0 := hzero rl hrl (Nat.le_refl _)
          have := m.neg rl ((rl + rr) / 2) (by omega) (by omega) h2
          omega
        apply ih rl ((rl + rr) / 2) hrl (by omega) (by omega) (by omega) hzero
        intro id hid1 hid2
        by_cases e : id = (rl + rr) / 2
        · subst e; exact hpos
        · exact m.pos _ id h1 (by omega) hid2 hpos
    · rw [if_neg hgo]
      refine ⟨rl, rfl, hrl, by omega, hzero, ?_⟩
      intro id h1 h2
      exact hhigh id (by omega) h2

end

end CSD.RPDAC
