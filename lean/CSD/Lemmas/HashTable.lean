import CSD.Lemmas.HashList

/-! Open addressing with double hashing: insertion order, lookup, IDs. -/
namespace CSD.Hash

/-- Probe sequence of a key in a table of size `m`. -/
def pr (m : Nat) (w : Str) (i : Nat) : Nat := probe (bitwisehash w m) (stepValue w m) m i

theorem pr_lt (m : Nat) (hm : 0 < m) (w : Str) (i : Nat) : pr m w i < m := probe_lt _ _ _ _ hm

theorem pr_inj {m : Nat} (hp : IsPrime m) (w : Str) {i j : Nat} (hi : i < m) (hj : j < m)
    (h : pr m w i = pr m w j) : i = j := by
  have hs := stepValue_range w m hp.1
  exact probe_injective hp (by omega) hs.2 hi hj h

/-- What the open-addressing arguments need of the table size: the first `m` probes of any key
are pairwise distinct (so they visit every cell). True for a prime size, and for size 1. -/
def ProbeOK (m : Nat) : Prop := 0 < m ∧ ∀ (w : Str) (i j : Nat), i < m → j < m → pr m w i = pr m w j → i = j

theorem probeOK_of_prime {m : Nat} (hp : IsPrime m) : ProbeOK m :=
  ⟨by have := hp.1; omega, fun w _ _ hi hj h => pr_inj hp w hi hj h⟩

theorem probeOK_one : ProbeOK 1 := ⟨by omega, fun _ i j hi hj _ => by omega⟩

/-- Occupied cells. -/
def occ (t : Table) : Nat := (t.filter Option.isSome).length

theorem occ_set_none (t : Table) (s : Nat) (k : Nat) (hs : t[s]? = some none) :
    occ (t.set s (some k)) = occ t + 1 := by
  unfold occ
  induction t generalizing s with
  | nil => simp at hs
  | cons x t ih =>
    cases s with
    | zero =>
      simp only [List.getElem?_cons_zero, Option.some.injEq] at hs
      subst hs; simp
    | succ s =>
      simp only [List.getElem?_cons_succ] at hs
      simp only [List.set_cons_succ, List.filter_cons]
      have := ih s hs
      split <;> simp [this]

theorem exists_free (t : Table) (h : occ t < t.length) : ∃ s : Nat, t[s]? = some none := by
  unfold occ at h
  induction t with
  | nil => simp at h
  | cons x t ih =>
    cases x with
    | none => exact ⟨0, rfl⟩
    | some k =>
      simp only [List.filter_cons, Option.isSome_some, ↓reduceIte, List.length_cons] at h
      obtain ⟨s, hs⟩ := ih (by omega)
      exact ⟨s + 1, by simpa using hs⟩

/-- `insertSlot` in terms of `pr`. -/
theorem insertSlot_eq (t : Table) (w : Str) :
    insertSlot t w = (List.range t.length).findSome? fun i =>
      if t.getD (pr t.length w i) none = none then some (pr t.length w i) else none := rfl

/-- **Insertion finds a free cell** whenever the table is not full (prime size):
the probe sequence covers every cell. It returns the first free probe. -/
theorem insertSlot_spec {m : Nat} (hp : ProbeOK m) (t : Table) (hlen : t.length = m) (w : Str)
    (hfree : occ t < m) :
    ∃ i, i < m ∧ insertSlot t w = some (pr m w i) ∧ t[pr m w i]? = some none ∧
      ∀ j, j < i → ∃ k, t[pr m w j]? = some (some k) := by
  have hm : 0 < m := hp.1
  -- the probes cover all cells
  have hcover : ∀ s, s < m → s ∈ (List.range m).map (pr m w) := by
    apply pigeonhole
    · simp
    · intro x hx
      obtain ⟨i, _, rfl⟩ := List.mem_map.mp hx
      exact pr_lt m hm w i
    · unfold List.Nodup
      rw [List.pairwise_map]
      have hnr : (List.range m).Pairwise (fun a b => a ≠ b) := List.nodup_range
      apply List.Pairwise.imp_of_mem _ hnr
      intro a b ha hb hab heq
      exact hab (hp.2 w a b (List.mem_range.mp ha) (List.mem_range.mp hb) heq)
  obtain ⟨s, hs⟩ := exists_free t (by rw [hlen]; exact hfree)
  have hsm : s < m := by
    rcases Nat.lt_or_ge s t.length with h | h
    · omega
    · rw [List.getElem?_eq_none h] at hs; cases hs
  obtain ⟨i0, hi0, hpi0⟩ := List.mem_map.mp (hcover s hsm)
  have hi0 := List.mem_range.mp hi0
  -- first free probe
  let f : Nat → Option Nat := fun i => if t.getD (pr m w i) none = none then some (pr m w i) else none
  have hex : ∃ j, j < m ∧ (f j).isSome := ⟨i0, hi0, by simp [f, hpi0, List.getD_eq_getElem?_getD, hs]⟩
  obtain ⟨i, hi, his, hin⟩ := exists_first f m hex
  refine ⟨i, hi, ?_, ?_, ?_⟩
  · rw [insertSlot_eq, hlen]
    have : f i = some (pr m w i) := by
      simp only [f] at his ⊢
      split at his
      · rename_i hc; rw [if_pos hc]
      · simp at his
    exact findSome?_range_first f m i _ hi hin this
  · have hlt : pr m w i < t.length := by rw [hlen]; exact pr_lt m hm w i
    simp only [f] at his
    split at his
    · rename_i hnone
      rw [List.getD_eq_getElem?_getD, List.getElem?_eq_getElem hlt] at hnone
      rw [List.getElem?_eq_getElem hlt]
      simp at hnone; simp [hnone]
    · simp at his
  · intro j hj
    have hlt : pr m w j < t.length := by rw [hlen]; exact pr_lt m hm w j
    have := hin j hj
    simp only [f] at this
    split at this
    · cases this
    · rename_i hne
      rw [List.getD_eq_getElem?_getD, List.getElem?_eq_getElem hlt] at hne
      rw [List.getElem?_eq_getElem hlt]
      cases hc : t[pr m w j] with
      | none => simp [hc] at hne
      | some k => exact ⟨k, rfl⟩

end CSD.Hash
