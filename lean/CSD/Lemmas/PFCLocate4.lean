import CSD.Lemmas.PFCLocate3

namespace CSD.PFC
open CSD

theorem chain_of_sorted : ∀ (h : Str) (L : List Str), SortedLt (h :: L) → chain h L
  | _, [], _ => trivial
  | h, c :: L, hs => by
    unfold SortedLt at hs
    rw [List.pairwise_cons] at hs
    exact ⟨hs.1 c (by simp), chain_of_sorted c L hs.2⟩

theorem sortedLt_chunk {S : List Str} (hs : SortedLt S) (a b : Nat) : SortedLt ((S.drop a).take b) := by
  unfold SortedLt at hs ⊢
  exact List.Pairwise.sublist ((List.take_sublist _ _).trans (List.drop_sublist _ _)) hs

/-- **locate is exact**: on the dictionary built from a strictly sorted, NUL-free
input the model of `StringDictionaryPFC::locate` returns the 1-based rank of a
member and 0 (`NORESULT`) for every other NUL-free query — for every bucket
size — and never reads outside the text. -/
theorem locate_build (b0 : Nat) (S : List Str) (q : Str) (hne : S ≠ [])
    (hS : ∀ s ∈ S, nulFree s) (hq : nulFree q) (hsort : SortedLt S) :
    locate (build b0 S) q = some (Spec.locate S q) := by
  have hb := clamp_ge_two b0
  have hbpos : 0 < clamp b0 := by omega
  have hn : 0 < S.length := List.length_pos_iff.mpr hne
  have hbk := build_buckets b0 S
  have hm1 : 0 < (S.length + clamp b0 - 1) / clamp b0 :=
    (lt_buckets_iff (clamp b0) S.length 0 hbpos).mpr (by simpa using hn)
  obtain ⟨res, hres, hgood⟩ := locateBucketLoop_spec b0 S q hS hq hsort
    ((S.length + clamp b0 - 1) / clamp b0 + 1) 1 ((S.length + clamp b0 - 1) / clamp b0) 0 0
    (Nat.le_refl 1)
    (Or.inr ((lt_buckets_iff (clamp b0) S.length _ hbpos).mp (by omega)))
    (by omega) (by omega)
    (fun j h1 h2 => by omega)
    (fun j hj x hx => by
      exfalso
      have : ¬ (j - 1) * clamp b0 < S.length := by
        intro hlt
        have := (lt_buckets_iff (clamp b0) S.length (j - 1) hbpos).mpr hlt
        omega
      rw [List.getElem?_eq_none (by omega)] at hx; cases hx)
    (fun h => by omega)
  unfold locate locateBucket
  rw [hbk, hres]
  cases res with
  | header k =>
    obtain ⟨_, hk, hkq⟩ := hgood
    simp only [build_bucketsize]
    rw [List.getElem?_eq_getElem hk] at hkq
    have := Spec.locate_getElem hsort _ hk
    rw [Option.some.inj hkq] at this
    rw [this]
  | candidate k =>
    obtain ⟨hkb, hlo, hhi⟩ := hgood
    cases k with
    | zero =>
      simp only
      -- every header is above q, in particular S[0]
      congr 1
      symm
      apply Spec.locate_not_mem
      intro hmem
      obtain ⟨t, ht, hte⟩ := List.mem_iff_getElem.mp hmem
      have h0 := hhi 1 (by omega) S[0] (by simp [List.getElem?_eq_getElem hn])
      rcases Nat.eq_zero_or_pos t with e | e
      · subst e; rw [hte] at h0; exact scmp_irrefl_gt q h0
      · have := hsort.getElem_lt e ht
        rw [hte] at this
        have h0' : scmp q S[0] < 0 := (scmp_lt_iff_gt _ _).mpr h0
        exact scmp_irrefl_lt q (scmp_trans_lt h0' this)
    | succ k =>
      have hk : k * clamp b0 < S.length := by
        rcases hkb with h | h
        · omega
        · simpa using h
      obtain ⟨L, rest, hchunk, hp⟩ := header_at b0 S k hk
      have hhq : scmp S[k * clamp b0] q < 0 :=
        hlo (k + 1) (by omega) (by omega) _ (by simp [List.getElem?_eq_getElem hk])
      obtain ⟨hfound, hnot⟩ := bucket_locate (clamp b0) hb S q hsort k hk _ L hchunk hhq hhi
      have hhn : nulFree S[k * clamp b0] := hS _ (List.getElem_mem _)
      have hLn : ∀ s ∈ L, nulFree s := by
        intro s hs
        have : s ∈ (S.drop (k * clamp b0)).take (clamp b0) := by rw [hchunk]; simp [hs]
        exact hS s (List.mem_of_mem_drop (List.mem_of_mem_take this))
      have hchain : chain S[k * clamp b0] L := by
        apply chain_of_sorted
        rw [← hchunk]; exact sortedLt_chunk hsort _ _
      have hlen : (S[k * clamp b0] :: L).length = min (clamp b0) (S.length - k * clamp b0) := by
        rw [← hchunk]; simp
      have hscan : (if k + 1 = (S.length + clamp b0 - 1) / clamp b0 ∧ (build b0 S).elements % (build b0 S).bucketsize ≠ 0
          then (build b0 S).elements % (build b0 S).bucketsize else (build b0 S).bucketsize)
          = (S[k * clamp b0] :: L).length := by
        rw [hlen]
        exact scanneable_eq (clamp b0) S.length k hb hk
      simp only [hp]
      rw [readCStr_append hhn]
      simp only [Nat.add_sub_cancel]
      rw [hscan]
      simp only [build_bucketsize]
      have hne_h : S[k * clamp b0] ≠ q := ne_of_scmp_lt hhq
      cases L with
      | nil =>
        -- the bucket holds only its header
        simp only [List.length_cons, List.length_nil, Nat.zero_add, Nat.lt_irrefl, ↓reduceIte]
        rw [hnot (by simp [hne_h.symm])]
      | cons c L' =>
        have hc : nulFree c := hLn c (by simp)
        have hL' : ∀ s ∈ L', nulFree s := fun s hs => hLn s (by simp [hs])
        have hgt1 : (S[k * clamp b0] :: c :: L').length > 1 := by simp
        simp only [hgt1, ↓reduceIte, encTail, List.append_assoc]
        rw [decodeNext_encInternal _ c hc]
        simp only [cmpFrom_zero]
        by_cases h0 : scmp c q = 0
        · have : c = q := (scmp_eq_zero hc hq).mp h0
          subst this
          simp only [h0, ne_eq, not_true_eq_false, ↓reduceIte]
          rw [hfound 1 (by simp)]
        · simp only [ne_eq, h0, not_false_eq_true, ↓reduceIte]
          have hne_c : c ≠ q := fun e => h0 (by rw [e, scmp_self])
          by_cases hneg : scmp c q < 0
          · rw [scanLoop_spec q hq L' c 2 _ _ rest (scmp c q) hchain.2 hL' hc (by simp; omega)
              (by simp; omega) hneg hneg]
            simp only [foundAt]
            cases hidx : L'.idxOf? q with
            | none =>
              have : q ∉ L' := List.idxOf?_eq_none_iff.mp hidx
              simp only
              rw [hnot (by simp [hne_h.symm, hne_c.symm, this])]
            | some j =>
              have hj := (List.idxOf?_eq_some_iff.mp hidx)
              obtain ⟨hjl, hje, _⟩ := hj
              have : (S[k * clamp b0] :: c :: L')[j + 2]? = some q := by
                simp [List.getElem?_eq_getElem hjl, hje]
              rw [hfound (j + 2) this]
              simp only [Nat.add_eq, Nat.succ_ne_zero]
              congr 1; omega
          · have hpos : scmp c q > 0 := by omega
            rw [scanLoop_gt q L' c 2 _ _ rest (scmp c q) hchain.2 hL' (by simp; omega) hpos hpos]
            simp only
            have hqc : scmp q c < 0 := (scmp_lt_iff_gt _ _).mpr hpos
            have : q ∉ L' := by
              apply not_mem_of_all_gt
              intro s hs
              exact scmp_trans_lt hqc (chain_all_gt hchain.2 s hs)
            rw [hnot (by simp [hne_h.symm, hne_c.symm, this])]

end CSD.PFC
