import CSD.Model.PFCPrefix
import CSD.Lemmas.PFCScan
import CSD.Lemmas.PFCLocate4
import CSD.Lemmas.Prefix

/-! In-bucket scans of the PFC prefix search: `searchPrefix` and `searchDistinctPrefix`. -/
namespace CSD.PFC
open CSD

/-- `longestCommonPrefix` against the pattern's C string. -/
theorem lcpLoop_base : ∀ (a b : Str) (n : Nat), nulFree a →
    ∃ c, lcpLoop a (b ++ [0]) n = some (c, n + lcp a b) ∧
      ((c = 0 ∧ lcp a b = a.length) ∨ (c ≠ 0 ∧ c = scmp a b ∧ lcp a b < a.length))
  | [], b, n, _ => ⟨0, by simp [lcpLoop, lcp], Or.inl ⟨rfl, by simp [lcp]⟩⟩
  | x :: as, [], n, ha => by
    have hx : x ≠ 0 := (nulFree_cons.mp ha).1
    have hx' : x.toNat ≠ 0 := fun e => hx (UInt8.toNat_inj.mp (by simpa using e))
    refine ⟨x.toNat, ?_, Or.inr ⟨by exact_mod_cast hx', by simp [scmp], by simp [lcp]⟩⟩
    simp [lcpLoop, hx, lcp]
  | x :: as, y :: bs, n, ha => by
    by_cases hxy : x = y
    · subst hxy
      obtain ⟨c, h1, h2⟩ := lcpLoop_base as bs (n + 1) (nulFree_cons.mp ha).2
      refine ⟨c, ?_, ?_⟩
      · simp only [List.cons_append, lcpLoop, ne_eq, not_true_eq_false, ↓reduceIte, lcp]
        rw [h1]; congr 2; omega
      · rcases h2 with ⟨h, h'⟩ | ⟨h, h', h''⟩
        · left; exact ⟨h, by simp [lcp, h']⟩
        · right; exact ⟨h, by simp [scmp, h'], by simp [lcp]; omega⟩
    · have hne : (x.toNat : Int) - y.toNat ≠ 0 := by
        have : x.toNat ≠ y.toNat := fun e => hxy (UInt8.toNat_inj.mp e)
        omega
      refine ⟨(x.toNat : Int) - y.toNat, ?_, Or.inr ⟨hne, by simp [scmp, hxy], by simp [lcp, hxy]⟩⟩
      simp [lcpLoop, hxy, lcp]

/-- The comparison step of `searchPrefix`: from a position `sh` up to which the decoded string and the
pattern already agree, the new shared length is `lcp decoded q`; the sign is 0 when the decoded string
is exhausted (it is a prefix of the pattern) and `strcmp`'s otherwise. -/
theorem lcpLoop_spec (decoded q : Str) (sh : Nat) (hd : nulFree decoded) (hsh : sh ≤ lcp decoded q) :
    ∃ c, lcpLoop (decoded.drop sh) ((q ++ [0]).drop sh) sh = some (c, lcp decoded q) ∧
      ((c = 0 ∧ lcp decoded q = decoded.length) ∨ (c ≠ 0 ∧ c = scmp decoded q ∧ lcp decoded q < decoded.length)) := by
  have hq : sh ≤ q.length := Nat.le_trans hsh (lcp_le_right decoded q)
  have hdl : sh ≤ decoded.length := Nat.le_trans hsh (lcp_le_left decoded q)
  have hdrop : (q ++ [0]).drop sh = q.drop sh ++ [0] := by
    rw [List.drop_append_of_le_length hq]
  obtain ⟨c, h1, h2⟩ := lcpLoop_base (decoded.drop sh) (q.drop sh) sh (nulFree_drop hd sh)
  have hl := lcp_add_drop decoded q sh hsh
  refine ⟨c, by rw [hdrop, h1, hl], ?_⟩
  rcases h2 with ⟨h, h'⟩ | ⟨h, h', h''⟩
  · left; refine ⟨h, ?_⟩
    rw [hl, h']; simp; omega
  · right; refine ⟨h, ?_, ?_⟩
    · rw [h', ← scmp_drop_lcp decoded q sh hsh]
    · rw [hl]; simp at h''; omega

/-- A string above the pattern's range (`q < x`, sharing less than `|q|` with it) has no successor
that starts with the pattern. -/
theorem no_match_after {q x t : Str} (hqx : scmp q x < 0) (hl : lcp q x < q.length) (hxt : scmp x t < 0) :
    isPrefix q t = false := by
  cases h : isPrefix q t with
  | false => rfl
  | true =>
    have := (isPrefix_iff_lcp q t).mp h
    have := lcp_mono q x t hqx hxt
    omega

theorem lcp_comm' (a b : Str) : lcp a b = lcp b a := lcp_comm a b

/-- Result of the scan for the first string with the prefix among `c :: L`: its offset. -/
def firstMatch (q : Str) : List Str → Option Nat
  | [] => none
  | s :: rest => if isPrefix q s then some 0 else (firstMatch q rest).map (· + 1)

theorem firstMatch_none {q : Str} : ∀ {L : List Str}, firstMatch q L = none → ∀ s ∈ L, isPrefix q s = false
  | [], _, s, hs => by cases hs
  | a :: L, h, s, hs => by
    simp only [firstMatch] at h
    by_cases ha : isPrefix q a = true
    · simp [ha] at h
    · simp only [ha, Bool.false_eq_true, ↓reduceIte, Option.map_eq_none_iff] at h
      rcases List.mem_cons.mp hs with e | e
      · subst e; simpa using ha
      · exact firstMatch_none h s e

/-- **`searchPrefix` is exact** on the rest of a bucket: `c` is the string just decoded (position `id`),
`L` the strings after it, front-coded at the pointer; `sh` characters of `c` are known to agree with
the pattern. It returns the position of the first string starting with the pattern, together with
the pointer behind it and that string — or 0 when none of `c :: L` starts with the pattern. -/
theorem searchPrefixLoop_spec (q : Str) (hq : nulFree q) :
    ∀ (L : List Str) (c : Str) (id fuel scanneable sh : Nat) (rest : List UInt8),
      chain c L → nulFree c → (∀ s ∈ L, nulFree s) → scanneable = id + L.length → L.length + 1 ≤ fuel →
      sh ≤ lcp c q →
      match firstMatch q (c :: L) with
      | some j => ∃ m L', (c :: L).drop j = m :: L' ∧
          searchPrefixLoop q fuel id scanneable (encTail c L ++ rest) c sh = some (id + j, encTail m L' ++ rest, m)
      | none => (searchPrefixLoop q fuel id scanneable (encTail c L ++ rest) c sh).map (·.1) = some 0 := by
  intro L
  induction L with
  | nil =>
    intro c id fuel scanneable sh rest _ hc _ hsc hf hsh
    obtain ⟨fuel', rfl⟩ : ∃ f, fuel = f + 1 := ⟨fuel - 1, by simp at hf; omega⟩
    obtain ⟨cmp, h1, h2⟩ := lcpLoop_spec c q sh hc hsh
    simp only [firstMatch]
    by_cases hm : isPrefix q c = true
    · simp only [hm, ↓reduceIte]
      refine ⟨c, [], rfl, ?_⟩
      have hl : lcp c q = q.length := by rw [lcp_comm]; exact (isPrefix_iff_lcp q c).mp hm
      simp [searchPrefixLoop, h1, hl, encTail]
    · simp only [hm, Bool.false_eq_true, ↓reduceIte, Option.map_none]
      have hl : lcp c q ≠ q.length := fun e => hm ((isPrefix_iff_lcp q c).mpr (by rw [lcp_comm]; exact e))
      have : id + 1 > scanneable := by simp at hsc; omega
      simp only [searchPrefixLoop, h1, hl, ↓reduceIte]
      simp [this]
  | cons c2 L ih =>
    intro c id fuel scanneable sh rest hch hc hL hsc hf hsh
    obtain ⟨fuel', rfl⟩ : ∃ f, fuel = f + 1 := ⟨fuel - 1, by simp at hf; omega⟩
    have hc2 : nulFree c2 := hL c2 (by simp)
    have hL' : ∀ s ∈ L, nulFree s := fun s hs => hL s (by simp [hs])
    obtain ⟨cmp, h1, h2⟩ := lcpLoop_spec c q sh hc hsh
    by_cases hm : isPrefix q c = true
    · -- found at once
      have hl : lcp c q = q.length := by rw [lcp_comm]; exact (isPrefix_iff_lcp q c).mp hm
      simp only [firstMatch, hm, ↓reduceIte]
      refine ⟨c, c2 :: L, rfl, ?_⟩
      simp [searchPrefixLoop, h1, hl]
    · have hl : lcp c q ≠ q.length := fun e => hm ((isPrefix_iff_lcp q c).mpr (by rw [lcp_comm]; exact e))
      have hlt : lcp q c < q.length := by
        have := lcp_le_left q c; rw [lcp_comm] at hl; omega
      have hfm : firstMatch q (c :: c2 :: L) = (firstMatch q (c2 :: L)).map (· + 1) := by
        simp [firstMatch, hm]
      rw [hfm]
      have hid : ¬ (id + 1 > scanneable) := by simp at hsc; omega
      by_cases hpos : cmp > 0
      · -- the decoded string is above the pattern: nothing later can match
        have hgt : scmp q c < 0 := by
          rcases h2 with ⟨h, _⟩ | ⟨_, h, _⟩
          · omega
          · rw [scmp_antisymm c q]; omega
        have hnone : firstMatch q (c2 :: L) = none := by
          cases hfm2 : firstMatch q (c2 :: L) with
          | none => rfl
          | some j =>
            exfalso
            have hall : ∀ s ∈ c2 :: L, isPrefix q s = false := fun s hs =>
              no_match_after hgt hlt (chain_all_gt hch s hs)
            clear ih
            -- a `some` result points at a matching element
            have : ∀ (M : List Str) (j : Nat), firstMatch q M = some j → ∃ s ∈ M, isPrefix q s = true := by
              intro M
              induction M with
              | nil => intro j h; simp [firstMatch] at h
              | cons a M ihM =>
                intro j h
                simp only [firstMatch] at h
                by_cases ha : isPrefix q a = true
                · exact ⟨a, by simp, ha⟩
                · simp only [ha, Bool.false_eq_true, ↓reduceIte, Option.map_eq_some_iff] at h
                  obtain ⟨j', hj', _⟩ := h
                  obtain ⟨s, hs, hp⟩ := ihM j' hj'
                  exact ⟨s, by simp [hs], hp⟩
            obtain ⟨s, hs, hp⟩ := this _ j hfm2
            rw [hall s hs] at hp; cases hp
        rw [hnone]
        simp only [Option.map_none]
        simp only [searchPrefixLoop, h1, hl, ↓reduceIte]
        simp [hpos]
      · -- the decoded string is below the pattern: decode the next one
        have hlt' : scmp c q < 0 := by
          rcases h2 with ⟨h0, hlen⟩ | ⟨hne, heq, _⟩
          · -- c is a proper prefix of q
            have hcq : lcp c q = c.length := hlen
            have hne' : c ≠ q := fun e => by subst e; rw [lcp_self] at hl; exact hl rfl
            rcases Int.lt_trichotomy (scmp c q) 0 with h | h | h
            · exact h
            · exact absurd ((scmp_eq_zero hc hq).mp h) hne'
            · -- c > q is impossible when c is a prefix of q
              exfalso
              have := scmp_drop_lcp c q (lcp c q) (Nat.le_refl _)
              rw [hcq, List.drop_length] at this
              rw [this] at h
              cases hq' : q.drop c.length with
              | nil => rw [hq'] at h; simp [scmp] at h
              | cons z zs => rw [hq'] at h; simp [scmp] at h; omega
          · omega
        have henc : encTail c (c2 :: L) ++ rest =
            VByte.encode (lcp c c2) ++ (c2.drop (lcp c c2) ++ 0 :: (encTail c2 L ++ rest)) := by
          simp [encTail, encInternal]
        rw [henc]
        have hdec : VByte.decode (VByte.encode (lcp c c2) ++ (c2.drop (lcp c c2) ++ 0 :: (encTail c2 L ++ rest))) =
            some (lcp c c2, (VByte.encode (lcp c c2)).length) := VByte.decode_encode _ _
        by_cases hsp : lcp c c2 < lcp c q
        · -- the next string leaves the pattern's range
          have hgt : scmp q c2 < 0 := gt_of_lcp_lt c c2 q hsp hch.1
          have hl2 : lcp q c2 < q.length := by
            have := min_lcp_le c q c2
            have h3 : lcp q c2 ≤ lcp c c2 := by
              -- q and c2 differ where c and c2 differ
              rcases Nat.lt_or_ge (lcp c c2) (lcp q c2) with h | h
              · have := min_lcp_le q c c2
                rw [lcp_comm q c] at this
                omega
              · exact h
            have := lcp_le_right c q
            omega
          have hnone : firstMatch q (c2 :: L) = none := by
            cases hfm2 : firstMatch q (c2 :: L) with
            | none => rfl
            | some j =>
              exfalso
              have h2' : isPrefix q c2 = false := by
                cases h : isPrefix q c2 with
                | false => rfl
                | true => have := (isPrefix_iff_lcp q c2).mp h; omega
              have hall : ∀ s ∈ L, isPrefix q s = false := fun s hs =>
                no_match_after hgt hl2 (chain_all_gt hch.2 s hs)
              have : ∀ (M : List Str) (j : Nat), firstMatch q M = some j → ∃ s ∈ M, isPrefix q s = true := by
                intro M
                induction M with
                | nil => intro j h; simp [firstMatch] at h
                | cons a M ihM =>
                  intro j h
                  simp only [firstMatch] at h
                  by_cases ha : isPrefix q a = true
                  · exact ⟨a, by simp, ha⟩
                  · simp only [ha, Bool.false_eq_true, ↓reduceIte, Option.map_eq_some_iff] at h
                    obtain ⟨j', hj', _⟩ := h
                    obtain ⟨s, hs, hp⟩ := ihM j' hj'
                    exact ⟨s, by simp [hs], hp⟩
              obtain ⟨s, hs, hp⟩ := this _ j hfm2
              rcases List.mem_cons.mp hs with e | e
              · subst e; rw [h2'] at hp; cases hp
              · rw [hall s e] at hp; cases hp
          rw [hnone]
          simp only [Option.map_none]
          simp only [searchPrefixLoop, h1, hl, ↓reduceIte]
          simp [hpos, hid, hdec, hsp]
        · -- decode c2 and go on
          have hle : lcp c c2 ≤ c.length := lcp_le_left c c2
          have hrd : readCStr ((VByte.encode (lcp c c2) ++ (c2.drop (lcp c c2) ++ 0 :: (encTail c2 L ++ rest))).drop
              (VByte.encode (lcp c c2)).length) = some (c2.drop (lcp c c2), encTail c2 L ++ rest) := by
            rw [List.drop_left]
            exact readCStr_append (nulFree_drop hc2 _) _
          have hrd' : readCStr (c2.drop (lcp c c2) ++ 0 :: (encTail c2 L ++ rest)) =
              some (c2.drop (lcp c c2), encTail c2 L ++ rest) := readCStr_append (nulFree_drop hc2 _) _
          have hrec : c.take (lcp c c2) ++ c2.drop (lcp c c2) = c2 := take_lcp_append_drop c c2
          have hsh2 : lcp c q ≤ lcp c2 q := by
            have := min_lcp_le c c2 q
            omega
          have hstep : searchPrefixLoop q (fuel' + 1) id scanneable
              (VByte.encode (lcp c c2) ++ (c2.drop (lcp c c2) ++ 0 :: (encTail c2 L ++ rest))) c sh =
              searchPrefixLoop q fuel' (id + 1) scanneable (encTail c2 L ++ rest) c2 (lcp c q) := by
            simp only [searchPrefixLoop, h1, hl, ↓reduceIte]
            simp [hpos, hid, hdec, hsp, hrd, hrd', hrec, Nat.not_lt.mpr hle]
          rw [hstep]
          have := ih c2 (id + 1) fuel' scanneable (lcp c q) rest hch.2 hc2 hL' (by simp at hsc ⊢; omega)
            (by simp at hf ⊢; omega) hsh2
          cases hfm2 : firstMatch q (c2 :: L) with
          | none =>
            rw [hfm2] at this
            simpa using this
          | some j =>
            rw [hfm2] at this
            obtain ⟨m, L', hdrop, hres⟩ := this
            simp only [Option.map_some]
            refine ⟨m, L', by simpa using hdrop, ?_⟩
            rw [hres]; congr 2; omega

end CSD.PFC

namespace CSD.PFC
open CSD

theorem isPrefix_of_lcp_ge {q d c : Str} (hd : isPrefix q d = true) (h : q.length ≤ lcp d c) : isPrefix q c = true := by
  rw [isPrefix_iff_lcp]
  have h1 : lcp d q = q.length := by rw [lcp_comm]; exact (isPrefix_iff_lcp q d).mp hd
  have := min_lcp_le d q c
  have := lcp_le_left q c
  omega

/-- **`searchDistinctPrefix` is exact**: from a string `d` that starts with the pattern, followed in
its bucket by `L`, it returns one more than the number of leading strings of `L` that keep the prefix. -/
theorem searchDistinctLoop_spec (q : Str) :
    ∀ (L : List Str) (d : Str) (id fuel sc : Nat) (rest : List UInt8),
      chain d L → nulFree d → (∀ s ∈ L, nulFree s) → isPrefix q d = true → sc + 1 = id + L.length →
      L.length + 1 ≤ fuel →
      searchDistinctLoop q.length fuel id sc (encTail d L ++ rest) d = some (id + (L.takeWhile (isPrefix q)).length) := by
  intro L
  induction L with
  | nil =>
    intro d id fuel sc rest _ _ _ _ hsc hf
    obtain ⟨fuel', rfl⟩ : ∃ f, fuel = f + 1 := ⟨fuel - 1, by simp at hf; omega⟩
    have : ¬ id ≤ sc := by simp at hsc; omega
    simp [searchDistinctLoop, this]
  | cons c2 L ih =>
    intro d id fuel sc rest hch hd hL hpd hsc hf
    obtain ⟨fuel', rfl⟩ : ∃ f, fuel = f + 1 := ⟨fuel - 1, by simp at hf; omega⟩
    have hc2 : nulFree c2 := hL c2 (by simp)
    have hL' : ∀ s ∈ L, nulFree s := fun s hs => hL s (by simp [hs])
    have hid : id ≤ sc := by simp at hsc; omega
    have henc : encTail d (c2 :: L) ++ rest =
        VByte.encode (lcp d c2) ++ (c2.drop (lcp d c2) ++ 0 :: (encTail c2 L ++ rest)) := by
      simp [encTail, encInternal]
    have hdec : VByte.decode (VByte.encode (lcp d c2) ++ (c2.drop (lcp d c2) ++ 0 :: (encTail c2 L ++ rest))) =
        some (lcp d c2, (VByte.encode (lcp d c2)).length) := VByte.decode_encode _ _
    rw [henc]
    by_cases hlt : lcp d c2 < q.length
    · have hnp : isPrefix q c2 = false := by
        cases h : isPrefix q c2 with
        | false => rfl
        | true => have := lcp_ge_of_prefixes q d c2 hpd h; omega
      simp [searchDistinctLoop, hid, hdec, hlt, List.takeWhile, hnp]
    · have hp2 : isPrefix q c2 = true := isPrefix_of_lcp_ge hpd (by omega)
      have hle : lcp d c2 ≤ d.length := lcp_le_left d c2
      have hrd' : readCStr (c2.drop (lcp d c2) ++ 0 :: (encTail c2 L ++ rest)) =
          some (c2.drop (lcp d c2), encTail c2 L ++ rest) := readCStr_append (nulFree_drop hc2 _) _
      have hrec : d.take (lcp d c2) ++ c2.drop (lcp d c2) = c2 := take_lcp_append_drop d c2
      have hstep : searchDistinctLoop q.length (fuel' + 1) id sc
          (VByte.encode (lcp d c2) ++ (c2.drop (lcp d c2) ++ 0 :: (encTail c2 L ++ rest))) d =
          searchDistinctLoop q.length fuel' (id + 1) sc (encTail c2 L ++ rest) c2 := by
        simp only [searchDistinctLoop, hid, ↓reduceIte, hdec]
        simp [hlt, hrd', hrec, Nat.not_lt.mpr hle]
      rw [hstep, ih c2 (id + 1) fuel' sc rest hch.2 hc2 hL' hp2 (by simp at hsc ⊢; omega) (by simp at hf ⊢; omega)]
      simp [List.takeWhile, hp2]; omega

end CSD.PFC
