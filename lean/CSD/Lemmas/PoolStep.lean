import CSD.Lemmas.PoolInv

namespace CSD.Pool

theorem holding_notify (s : State) (j : Nat) :
    ((notifyAll s).wpc j).holding = (s.wpc j).holding := by
  simp only [notifyAll]
  split
  · rename_i h; rw [h]; rfl
  · rfl

theorem notify_not_waiting (s : State) (j : Nat) : (notifyAll s).wpc j ≠ .waiting := by
  simp only [notifyAll]
  split
  · simp
  · assumption

theorem notify_sleep (s : State) (j : Nat) : (notifyAll s).wpc j = .sleep ↔ s.wpc j = .sleep := by
  simp only [notifyAll]
  split
  · rename_i h; simp [h]
  · rfl

theorem notify_done (s : State) (j : Nat) : (notifyAll s).wpc j = .done ↔ s.wpc j = .done := by
  simp only [notifyAll]
  split
  · rename_i h; simp [h]
  · rfl

/-- Changing the pc of worker `i` from a non-holding to a non-holding pc, nothing else. -/
theorem inv_wpc_only (s : State) (hI : Inv s) (i : Nat) (hi : i < s.n) (v : WPc)
    (hold : (s.wpc i).holding = false) (hv : v.holding = false)
    (hvs : v ≠ .sleep) (hvw : v ≠ .waiting) (hnd : s.prod ≠ .done) :
    Inv { s with wpc := upd s.wpc i v } := by
  constructor
  · intro j
    simp only
    by_cases hj : j = i
    · subst hj
      rw [upd_same, hv]
      have := (hI.mutexW j)
      rw [hold] at this
      simp at this ⊢
      exact this
    · rw [upd_other _ _ _ _ hj]; exact hI.mutexW j
  · exact hI.mutexP
  · exact hI.mutexS
  · intro j hj hs
    simp only at hs ⊢
    by_cases hji : j = i
    · subst hji; rw [upd_same] at hs; exact absurd hs hvs
    · rw [upd_other _ _ _ _ hji] at hs; exact hI.sleepFalse j hj hs
  · intro j hj hs
    simp only at hs ⊢
    by_cases hji : j = i
    · subst hji; rw [upd_same] at hs; exact absurd hs hvw
    · rw [upd_other _ _ _ _ hji] at hs; exact hI.waitingOk j hj hs
  · exact hI.flagsOnlyStop
  · exact hI.flagsAll
  · exact hI.flagsPrefix
  · intro h; exact absurd h hnd

end CSD.Pool

namespace CSD.Pool

/-- `Inv` does not mention the logs. -/
theorem inv_logs (s : State) (hI : Inv s) (r a : List Nat) : Inv { s with ran := r, added := a } := by
  constructor
  · exact hI.mutexW
  · exact hI.mutexP
  · exact hI.mutexS
  · exact hI.sleepFalse
  · exact hI.waitingOk
  · exact hI.flagsOnlyStop
  · exact hI.flagsAll
  · exact hI.flagsPrefix
  · exact hI.doneAll

theorem prod_not_done_of_worker (s : State) (hI : Inv s) (i : Nat) (hi : i < s.n) (h : s.wpc i ≠ .done) :
    s.prod ≠ .done := fun hd => h (hI.doneAll hd i hi)

/-- Worker `i` acquires the free mutex (`lock` or `wake` → `pred`). -/
theorem inv_acquire (s : State) (hI : Inv s) (i : Nat) (hi : i < s.n) (hm : s.mutex = none)
    (hnd : s.prod ≠ .done) :
    Inv { s with mutex := some (.worker i), wpc := upd s.wpc i .pred } := by
  have hnoW : ∀ j, ¬ (j < s.n ∧ (s.wpc j).holding = true) := by
    intro j h; have := (hI.mutexW j).mpr h; rw [hm] at this; cases this
  have hnoP : s.prod.holding = false := by
    cases hp : s.prod.holding
    · rfl
    · have := hI.mutexP.mpr hp; rw [hm] at this; cases this
  constructor
  · intro j
    simp only
    by_cases hj : j = i
    · subst hj; simp [WPc.holding, hi]
    · rw [upd_other _ _ _ _ hj]
      constructor
      · intro h; cases h; exact absurd rfl hj
      · intro h; exact absurd h (hnoW j)
  · simp only; simp [hnoP]
  · intro j; simp
  · intro j hj hs
    simp only at hs ⊢
    by_cases hji : j = i
    · subst hji; rw [upd_same] at hs; cases hs
    · rw [upd_other _ _ _ _ hji] at hs; exact hI.sleepFalse j hj hs
  · intro j hj hs
    simp only at hs ⊢
    by_cases hji : j = i
    · subst hji; rw [upd_same] at hs; cases hs
    · rw [upd_other _ _ _ _ hji] at hs; exact hI.waitingOk j hj hs
  · exact hI.flagsOnlyStop
  · exact hI.flagsAll
  · exact hI.flagsPrefix
  · intro h; exact absurd h hnd

/-- A worker holding the mutex moves between holding pcs (`pred` → `check`/`sleep`). -/
theorem inv_holding_move (s : State) (hI : Inv s) (i : Nat) (hi : i < s.n) (v : WPc)
    (hold : (s.wpc i).holding = true) (hv : v.holding = true) (hvw : v ≠ .waiting)
    (hsl : v = .sleep → s.stopped i = false ∧ s.queue = []) (hnd : s.prod ≠ .done) :
    Inv { s with wpc := upd s.wpc i v } := by
  constructor
  · intro j
    simp only
    by_cases hj : j = i
    · subst hj
      rw [upd_same, hv]
      have := hI.mutexW j
      rw [hold] at this
      exact this
    · rw [upd_other _ _ _ _ hj]; exact hI.mutexW j
  · exact hI.mutexP
  · exact hI.mutexS
  · intro j hj hs
    simp only at hs ⊢
    by_cases hji : j = i
    · subst hji; rw [upd_same] at hs; exact hsl hs
    · rw [upd_other _ _ _ _ hji] at hs; exact hI.sleepFalse j hj hs
  · intro j hj hs
    simp only at hs ⊢
    by_cases hji : j = i
    · subst hji; rw [upd_same] at hs; exact absurd hs hvw
    · rw [upd_other _ _ _ _ hji] at hs; exact hI.waitingOk j hj hs
  · exact hI.flagsOnlyStop
  · exact hI.flagsAll
  · exact hI.flagsPrefix
  · intro h; exact absurd h hnd

/-- The holder `i` releases the mutex, possibly popping the queue, and goes to a
non-holding pc `v`; if `v = waiting` its predicate is false. -/
theorem inv_release (s : State) (hI : Inv s) (i : Nat) (hi : i < s.n) (v : WPc) (q : List Nat)
    (hold : (s.wpc i).holding = true) (hv : v.holding = false) (hvs : v ≠ .sleep)
    (hq : q = s.queue ∨ ∃ t, s.queue = t :: q)
    (hw : v = .waiting → s.stopped i = false ∧ s.queue = [])
    (hnd : s.prod ≠ .done) :
    Inv { s with queue := q, mutex := none, wpc := upd s.wpc i v } := by
  have hown : s.mutex = some (.worker i) := (hI.mutexW i).mpr ⟨hi, hold⟩
  have hothers : ∀ j, j ≠ i → ¬ (j < s.n ∧ (s.wpc j).holding = true) := by
    intro j hj h
    have := (hI.mutexW j).mpr h
    rw [hown] at this; cases this; exact hj rfl
  have hnoP : s.prod.holding = false := by
    cases hp : s.prod.holding
    · rfl
    · have := hI.mutexP.mpr hp; rw [hown] at this; cases this
  have hqnil : s.queue = [] → q = [] := by
    intro h
    rcases hq with e | ⟨t, e⟩
    · rw [e, h]
    · rw [h] at e; cases e
  have hqne : q ≠ [] → s.queue ≠ [] := by
    intro h h2; exact h (hqnil h2)
  constructor
  · intro j
    simp only
    constructor
    · intro h; cases h
    · intro h
      by_cases hj : j = i
      · subst hj; rw [upd_same, hv] at h; cases h.2
      · rw [upd_other _ _ _ _ hj] at h; exact absurd h (hothers j hj)
  · simp only; simp [hnoP]
  · intro j; simp
  · intro j hj hs
    simp only at hs ⊢
    by_cases hji : j = i
    · subst hji; rw [upd_same] at hs; exact absurd hs hvs
    · rw [upd_other _ _ _ _ hji] at hs
      -- another worker at `sleep` would hold the mutex
      exfalso; exact hothers j hji ⟨hj, by rw [hs]; rfl⟩
  · intro j hj hs hp
    simp only at hs hp ⊢
    by_cases hji : j = i
    · subst hji
      rw [upd_same] at hs
      have := hw hs
      rcases hp with h | h
      · rw [this.1] at h; cases h
      · exact absurd (hqnil this.2) h
    · rw [upd_other _ _ _ _ hji] at hs
      apply hI.waitingOk j hj hs
      rcases hp with h | h
      · exact Or.inl h
      · exact Or.inr (hqne h)
  · exact hI.flagsOnlyStop
  · exact hI.flagsAll
  · exact hI.flagsPrefix
  · intro h; exact absurd h hnd

/-- `notify_all` (after possibly changing one non-holding pc to another). -/
theorem inv_notify (s : State) (hI : Inv s) : Inv (notifyAll s) := by
  constructor
  · intro j; rw [holding_notify]; exact hI.mutexW j
  · exact hI.mutexP
  · exact hI.mutexS
  · intro j hj hs; exact hI.sleepFalse j hj ((notify_sleep s j).mp hs)
  · intro j hj hs; exact absurd hs (notify_not_waiting s j)
  · exact hI.flagsOnlyStop
  · exact hI.flagsAll
  · exact hI.flagsPrefix
  · intro h i hi; exact (notify_done s i).mpr (hI.doneAll h i hi)

end CSD.Pool
