/-
  The table scan of the blocks dictionary (`IteratorDictStringHRPDACBlocks`): part after part, local IDs
  `1 … size`, it yields exactly `extract(1), …, extract(n)` — the `k`-th string is `extract(k)` — for every
  cut size and every table-size function.
-/
import CSD.Lemmas.HashBlocks

namespace CSD.Hash
open CSD CSD.PFC CSD.Blocks

section
variable (cutSize : Nat) (tsizeOf : Nat → Nat) (S : List Str)

private theorem starts_getD (bs : List (List Str)) (p : Nat) (hp : p < bs.length) :
    (starts 0 bs).getD p 0 = pre bs p := by
  have := starts_getElem? bs 0 p hp
  simp only [List.getD, this]
  simp

theorem toIndex_build (p : Nat) (hp : p < (cut cutSize S).length) :
    toIndex (buildBlocks cutSize tsizeOf S) p = pre (cut cutSize S) (p + 1) := by
  unfold toIndex
  have hs : (buildBlocks cutSize tsizeOf S).starts = starts 0 (cut cutSize S) := rfl
  have hn : (buildBlocks cutSize tsizeOf S).n = S.length := rfl
  rw [hs, starts_length, hn]
  by_cases h : p < (cut cutSize S).length - 1
  · simp only [h, ↓reduceIte]
    exact starts_getD _ (p + 1) (by omega)
  · simp only [h, ↓reduceIte]
    have : p + 1 = (cut cutSize S).length := by omega
    rw [this, pre_length, cut_flatten]

/-- `to_index() − starting_indexes[partIdx]` is the size of the part (no unsigned wrap-around). -/
theorem toIndex_sub (p : Nat) (hp : p < (cut cutSize S).length) :
    toIndex (buildBlocks cutSize tsizeOf S) p - (buildBlocks cutSize tsizeOf S).starts.getD p 0
      = ((cut cutSize S)[p]).length := by
  rw [toIndex_build cutSize tsizeOf S p hp]
  have hs : (buildBlocks cutSize tsizeOf S).starts = starts 0 (cut cutSize S) := rfl
  rw [hs, starts_getD _ p hp, pre_succ _ p hp]
  omega

/-- A local ID of part `p` is the global ID `pre p + c`. -/
theorem extract_local (p : Nat) (hp : p < (cut cutSize S).length) (c : Nat) (h1 : 1 ≤ c)
    (h2 : c ≤ ((cut cutSize S)[p]).length) :
    extractBlocks (buildBlocks cutSize tsizeOf S) (pre (cut cutSize S) p + c) =
      extract (build (tsizeOf ((cut cutSize S)[p]).length) ((cut cutSize S)[p])) c := by
  have hne : ∀ b ∈ cut cutSize S, b ≠ [] := cut_nonempty cutSize S
  have hle : pre (cut cutSize S) p + ((cut cutSize S)[p]).length ≤ S.length := by
    have h1 := pre_succ (cut cutSize S) p hp
    have h2 := pre_mono (cut cutSize S) (p + 1) (cut cutSize S).length (by omega) (Nat.le_refl _)
    rw [pre_length, cut_flatten] at h2
    omega
  unfold extractBlocks
  have hn : (buildBlocks cutSize tsizeOf S).n = S.length := rfl
  rw [hn, if_neg (by omega)]
  simp only
  have hs : (buildBlocks cutSize tsizeOf S).starts = starts 0 (cut cutSize S) := rfl
  have hpos : searchBefore (fun a b => decide (a < b)) (buildBlocks cutSize tsizeOf S).starts
      (pre (cut cutSize S) p + c - 1) = p := by
    rw [hs]; exact route_pos (cut cutSize S) hne p hp _ (by omega) (by omega)
  rw [hpos]
  have hparts : (buildBlocks cutSize tsizeOf S).parts[p]? =
      some (build (tsizeOf ((cut cutSize S)[p]).length) ((cut cutSize S)[p])) := by
    simp only [buildBlocks, List.getElem?_map]
    rw [List.getElem?_eq_getElem hp]; rfl
  have hstarts : (buildBlocks cutSize tsizeOf S).starts[p]? = some (pre (cut cutSize S) p) := by
    rw [hs, starts_getElem? _ 0 p hp]; simp
  simp only [hparts, hstarts]
  congr 1
  omega

/-- Draining from local ID `c` of part `p`: the global IDs from `pre p + c` to the end. -/
theorem bDrain_build : ∀ (m p c fuel : Nat) (hp : p < (cut cutSize S).length), 1 ≤ c →
    c ≤ ((cut cutSize S)[p]).length → pre (cut cutSize S) p + c + m = S.length + 1 → m ≤ fuel →
    bDrain (buildBlocks cutSize tsizeOf S) fuel ⟨c, p⟩ =
      some ((List.range m).map fun i => extractBlocks (buildBlocks cutSize tsizeOf S) (pre (cut cutSize S) p + c + i))
  | 0, p, c, fuel, hp, h1, h2, hm, _ => by
    -- impossible: the ID `pre p + c` is at most `S.length`
    have h3 := pre_succ (cut cutSize S) p hp
    have h4 := pre_mono (cut cutSize S) (p + 1) (cut cutSize S).length (by omega) (Nat.le_refl _)
    rw [pre_length, cut_flatten] at h4
    omega
  | m + 1, p, c, 0, _, _, _, _, hf => by omega
  | m + 1, p, c, fuel + 1, hp, h1, h2, hm, hf => by
    have hplen : (buildBlocks cutSize tsizeOf S).parts.length = (cut cutSize S).length := by
      simp [buildBlocks]
    have hsub := toIndex_sub cutSize tsizeOf S p hp
    have hparts : (buildBlocks cutSize tsizeOf S).parts[p]? =
        some (build (tsizeOf ((cut cutSize S)[p]).length) ((cut cutSize S)[p])) := by
      simp only [buildBlocks, List.getElem?_map]
      rw [List.getElem?_eq_getElem hp]; rfl
    rw [bDrain]
    have hhas : bHasNext (buildBlocks cutSize tsizeOf S) ⟨c, p⟩ = true := by
      simp only [bHasNext, hplen, hsub, Bool.and_eq_true, decide_eq_true_eq]
      exact ⟨hp, h2⟩
    simp only [hhas, ↓reduceIte, bNext, hparts, hsub]
    have hloc := extract_local cutSize tsizeOf S p hp c h1 h2
    rw [← hloc]
    have hrange : (List.range (m + 1)).map (fun i => extractBlocks (buildBlocks cutSize tsizeOf S)
          (pre (cut cutSize S) p + c + i))
        = extractBlocks (buildBlocks cutSize tsizeOf S) (pre (cut cutSize S) p + c) ::
          (List.range m).map (fun i => extractBlocks (buildBlocks cutSize tsizeOf S)
            (pre (cut cutSize S) p + c + 1 + i)) := by
      rw [List.range_succ_eq_map, List.map_cons, List.map_map]
      simp only [Nat.add_zero, List.cons.injEq, true_and]
      apply List.map_congr_left
      intro i _
      simp only [Function.comp]
      congr 1
      omega
    rw [hrange]
    by_cases hlast : c + 1 > ((cut cutSize S)[p]).length
    · simp only [hlast, ↓reduceIte]
      by_cases hp' : p + 1 < (cut cutSize S).length
      · have hpre := pre_succ (cut cutSize S) p hp
        have := bDrain_build m (p + 1) 1 fuel hp' (Nat.le_refl _)
          (List.length_pos_iff.mpr (cut_nonempty cutSize S _ (List.getElem_mem _)))
          (by omega) (by omega)
        rw [this]
        simp only [Option.some.injEq, List.cons.injEq, true_and]
        apply List.map_congr_left
        intro i _
        congr 1
        omega
      · -- the last part is exhausted: nothing is left
        have hpe : p + 1 = (cut cutSize S).length := by omega
        have hpre := pre_succ (cut cutSize S) p hp
        have htot : pre (cut cutSize S) (p + 1) = S.length := by
          rw [hpe, pre_length, cut_flatten]
        have hm0 : m = 0 := by omega
        subst hm0
        have hno : bHasNext (buildBlocks cutSize tsizeOf S) ⟨1, p + 1⟩ = false := by
          simp only [bHasNext, hplen, Bool.and_eq_false_iff, decide_eq_false_iff_not]
          left; omega
        cases fuel with
        | zero => simp [bDrain]
        | succ f => simp [bDrain, hno]
    · simp only [hlast, ↓reduceIte]
      have := bDrain_build m p (c + 1) fuel hp (by omega) (by omega) (by omega) (by omega)
      rw [this]
      simp only [Option.some.injEq, List.cons.injEq, true_and]
      apply List.map_congr_left
      intro i _
      congr 1

/-- **The table scan of the blocks dictionary is `extract(1), …, extract(n)`**, for every cut size. -/
theorem tableBlocks_build (hne : S ≠ []) :
    tableBlocks (buildBlocks cutSize tsizeOf S) =
      some ((List.range S.length).map fun i => extractBlocks (buildBlocks cutSize tsizeOf S) (i + 1)) := by
  have hn : 0 < S.length := List.length_pos_iff.mpr hne
  have hbs : 0 < (cut cutSize S).length := by
    rcases Nat.eq_zero_or_pos (cut cutSize S).length with h | h
    · have := cut_flatten cutSize S
      rw [List.eq_nil_of_length_eq_zero h] at this
      simp at this
      exact absurd this hne
    · exact h
  unfold tableBlocks
  have hnn : (buildBlocks cutSize tsizeOf S).n = S.length := rfl
  rw [hnn]
  have := bDrain_build cutSize tsizeOf S S.length 0 1 (S.length + 1) hbs (Nat.le_refl _)
    (List.length_pos_iff.mpr (cut_nonempty cutSize S _ (List.getElem_mem _)))
    (by rw [pre_zero]; omega) (by omega)
  rw [this]
  simp only [pre_zero, Nat.zero_add, Option.some.injEq]
  apply List.map_congr_left
  intro i _
  congr 1
  omega

end
end CSD.Hash

namespace CSD.Hash
open CSD CSD.PFC CSD.Blocks

theorem map_eq_filterMap_some {α β : Type} (f : α → Option β) : ∀ (l : List α), (∀ x ∈ l, ∃ y, f x = some y) →
    l.map f = (l.filterMap f).map some
  | [], _ => rfl
  | x :: l, h => by
    obtain ⟨y, hy⟩ := h x (by simp)
    rw [List.map_cons, List.filterMap_cons, hy]
    simp only [List.map_cons, List.cons.injEq, true_and]
    exact map_eq_filterMap_some f l (fun z hz => h z (by simp [hz]))

theorem nodup_filterMap' {α β : Type} (f : α → Option β)
    (H : ∀ a a' b, f a = some b → f a' = some b → a = a') : ∀ (l : List α), l.Nodup → (l.filterMap f).Nodup
  | [], _ => by simp
  | x :: l, h => by
    obtain ⟨hx, hl⟩ := List.nodup_cons.mp h
    rw [List.filterMap_cons]
    cases hf : f x with
    | none => exact nodup_filterMap' f H l hl
    | some b =>
      simp only
      refine List.nodup_cons.mpr ⟨?_, nodup_filterMap' f H l hl⟩
      intro hb
      obtain ⟨a, ha, hfa⟩ := List.mem_filterMap.mp hb
      have := H a x b hfa hf
      subst this
      exact hx ha

/-- **Each member exactly once**: over good parts the table scan of the blocks dictionary lists `n` strings, all
members, no string twice. -/
theorem tableBlocks_each_once {cutSize : Nat} {tsizeOf : Nat → Nat} {S : List Str}
    (ok : PartsOK cutSize tsizeOf S) (hne : S ≠ []) :
    ∃ L : List Str, tableBlocks (buildBlocks cutSize tsizeOf S) = some (L.map some) ∧ L.length = S.length ∧
      L.Nodup ∧ ∀ w ∈ L, w ∈ S := by
  let d := buildBlocks cutSize tsizeOf S
  let f : Nat → Option Str := fun i => extractBlocks d (i + 1)
  have hall : ∀ i ∈ List.range S.length, ∃ y, f i = some y := by
    intro i hi
    have hi' := List.mem_range.mp hi
    obtain ⟨w, _, hw, _⟩ := blocks_extract_then_locate ok (i + 1) (by omega) (by omega)
    exact ⟨w, hw⟩
  have hmap := map_eq_filterMap_some f (List.range S.length) hall
  refine ⟨(List.range S.length).filterMap f, ?_, ?_, ?_, ?_⟩
  · rw [tableBlocks_build cutSize tsizeOf S hne]
    exact congrArg some hmap
  · have := congrArg List.length hmap
    simpa using this.symm
  · apply nodup_filterMap' f _ _ List.nodup_range
    intro a a' b ha ha'
    -- both IDs are valid, and `locate` of the string gives each of them back
    have hrange : ∀ x, f x = some b → x < S.length := by
      intro x hx
      simp only [f, extractBlocks] at hx
      have hn : d.n = S.length := rfl
      by_cases hc : x + 1 > d.n ∨ x + 1 = 0
      · rw [if_pos hc] at hx; cases hx
      · rw [hn] at hc; omega
    obtain ⟨w, _, hw, hl⟩ := blocks_extract_then_locate ok (a + 1) (by omega) (by have := hrange a ha; omega)
    obtain ⟨w', _, hw', hl'⟩ := blocks_extract_then_locate ok (a' + 1) (by omega) (by have := hrange a' ha'; omega)
    have e1 : w = b := by
      have : some w = some b := by rw [← hw]; exact ha
      exact Option.some.inj this
    have e2 : w' = b := by
      have : some w' = some b := by rw [← hw']; exact ha'
      exact Option.some.inj this
    rw [e1] at hl; rw [e2] at hl'
    omega
  · intro w hw
    obtain ⟨i, hi, hfi⟩ := List.mem_filterMap.mp hw
    have hi' := List.mem_range.mp hi
    obtain ⟨w', hwS, hw', _⟩ := blocks_extract_then_locate ok (i + 1) (by omega) (by omega)
    have : some w' = some w := by rw [← hw']; exact hfi
    rw [← Option.some.inj this]; exact hwS

/-- `extractTable` of the single-table hash kinds (HASHRPDAC, HASHRPF, …): `tabledec[i-1] = extract(i)` for
`i = 1 … elements`. -/
def tableHash (d : HDict) : List (Option Str) := (List.range d.S.length).map fun i => extract d (i + 1)

/-- **Each member exactly once** in the table scan of a good hash dictionary. -/
theorem tableHash_each_once {d : HDict} (g : GoodDict d) :
    ∃ L : List Str, tableHash d = L.map some ∧ L.length = d.S.length ∧ L.Nodup ∧ ∀ w ∈ L, w ∈ d.S := by
  let f : Nat → Option Str := fun i => extract d (i + 1)
  have hall : ∀ i ∈ List.range d.S.length, ∃ y, f i = some y := by
    intro i hi
    have hi' := List.mem_range.mp hi
    obtain ⟨w, hw, _, _⟩ := locate_extract g (i + 1) (by omega) (by omega)
    exact ⟨w, hw⟩
  have hmap := map_eq_filterMap_some f (List.range d.S.length) hall
  refine ⟨(List.range d.S.length).filterMap f, hmap, ?_, ?_, ?_⟩
  · have := congrArg List.length hmap
    simpa using this.symm
  · apply nodup_filterMap' f _ _ List.nodup_range
    intro a a' b ha ha'
    have hrange : ∀ x, f x = some b → x < d.S.length := by
      intro x hx
      simp only [f, extract] at hx
      by_cases hc : x + 1 = 0 ∨ x + 1 > d.S.length
      · rw [if_pos hc] at hx; cases hx
      · omega
    obtain ⟨w, hw, _, hl⟩ := locate_extract g (a + 1) (by omega) (by have := hrange a ha; omega)
    obtain ⟨w', hw', _, hl'⟩ := locate_extract g (a' + 1) (by omega) (by have := hrange a' ha'; omega)
    have e1 : w = b := by
      have : some w = some b := by rw [← hw]; exact ha
      exact Option.some.inj this
    have e2 : w' = b := by
      have : some w' = some b := by rw [← hw']; exact ha'
      exact Option.some.inj this
    rw [e1] at hl; rw [e2] at hl'
    omega
  · intro w hw
    obtain ⟨i, hi, hfi⟩ := List.mem_filterMap.mp hw
    have hi' := List.mem_range.mp hi
    obtain ⟨w', hw', hwS, _⟩ := locate_extract g (i + 1) (by omega) (by omega)
    have : some w' = some w := by rw [← hw']; exact hfi
    rw [← Option.some.inj this]; exact hwS

end CSD.Hash
