import CSD.Lemmas.PFCPrefixA
import CSD.Lemmas.PFCPrefixB

/-! Helpers for assembling the PFC prefix search: buckets as slices of `S`, first match, run length. -/
namespace CSD.PFC
open CSD CSD.RPDAC

theorem firstMatch_some {q : Str} : ∀ {L : List Str} {j : Nat}, firstMatch q L = some j →
    ∃ (h : j < L.length), isPrefix q L[j] = true ∧ ∀ j' (h' : j' < j), isPrefix q (L[j']'(by omega)) = false
  | [], j, h => by simp [firstMatch] at h
  | a :: L, j, h => by
    simp only [firstMatch] at h
    by_cases ha : isPrefix q a = true
    · simp only [ha, ↓reduceIte, Option.some.injEq] at h
      subst h
      exact ⟨by simp, by simpa using ha, fun j' h' => by omega⟩
    · simp only [ha, Bool.false_eq_true, ↓reduceIte, Option.map_eq_some_iff] at h
      obtain ⟨j0, hj0, rfl⟩ := h
      obtain ⟨hlt, hm, hmin⟩ := firstMatch_some hj0
      refine ⟨by simp; omega, by simpa using hm, ?_⟩
      intro j' h'
      cases j' with
      | zero => simpa using ha
      | succ j'' => simpa using hmin j'' (by omega)

theorem takeWhile_spec (p : Str → Bool) : ∀ (L : List Str),
    (L.takeWhile p).length ≤ L.length ∧
    (∀ j, j < (L.takeWhile p).length → ∃ s, L[j]? = some s ∧ p s = true) ∧
    ((L.takeWhile p).length < L.length → ∃ s, L[(L.takeWhile p).length]? = some s ∧ p s = false)
  | [] => by simp
  | a :: L => by
    obtain ⟨h1, h2, h3⟩ := takeWhile_spec p L
    by_cases ha : p a = true
    · simp only [List.takeWhile_cons, ha, ↓reduceIte, List.length_cons]
      refine ⟨by omega, ?_, ?_⟩
      · intro j h
        cases j with
        | zero => exact ⟨a, rfl, ha⟩
        | succ j => simpa using h2 j (by omega)
      · intro h
        simpa using h3 (by omega)
    · simp only [List.takeWhile_cons, ha, Bool.false_eq_true, ↓reduceIte, List.length_nil]
      refine ⟨by omega, fun j h => by omega, fun _ => ⟨a, rfl, by simpa using ha⟩⟩

theorem drop_eq_cons {α : Type} : ∀ (l : List α) (j : Nat) (m : α) (l' : List α), l.drop j = m :: l' →
    ∃ (h : j < l.length), l[j] = m ∧ l' = l.drop (j + 1) := by
  intro l j m l' h
  have hj : j < l.length := by
    rcases Nat.lt_or_ge j l.length with h' | h'
    · exact h'
    · rw [List.drop_of_length_le h'] at h; cases h
  rw [List.drop_eq_getElem_cons hj] at h
  exact ⟨hj, (List.cons.inj h).1, (List.cons.inj h).2.symm⟩

/-- Bucket `k` (1-based) of `S` with bucket size `B`. -/
def bucketOf (B : Nat) (S : List Str) (k : Nat) : List Str := (S.drop ((k - 1) * B)).take B

theorem bucketOf_getElem (B : Nat) (S : List Str) (k j : Nat) (h : j < (bucketOf B S k).length) :
    ∃ (h' : (k - 1) * B + j < S.length), (bucketOf B S k)[j] = S[(k - 1) * B + j] := by
  unfold bucketOf at h ⊢
  simp only [List.length_take, List.length_drop] at h
  refine ⟨by omega, ?_⟩
  simp [List.getElem_take, List.getElem_drop]

theorem bucketOf_length (B : Nat) (S : List Str) (k : Nat) :
    (bucketOf B S k).length = min B (S.length - (k - 1) * B) := by
  simp [bucketOf]

/-- The strings the matching IDs are read off: membership in the final range. -/
theorem range_char {S : List Str} (hs : SortedLt S) (q : Str) (i0 i1 : Nat) (h01 : i0 ≤ i1) (h1 : i1 < S.length)
    (m0 : isPrefix q (S[i0]'(by omega)) = true) (m1 : isPrefix q S[i1] = true)
    (b0 : ∀ (h : 0 < i0), isPrefix q (S[i0 - 1]'(by omega)) = false)
    (b1 : ∀ (h : i1 + 1 < S.length), isPrefix q S[i1 + 1] = false) :
    ∀ i (h : i < S.length), (isPrefix q S[i] = true ↔ i0 ≤ i ∧ i ≤ i1) := by
  intro i h
  constructor
  · intro hm
    constructor
    · rcases Nat.lt_or_ge i i0 with hlt | hge
      · exfalso
        have hb := b0 (by omega)
        by_cases e : i = i0 - 1
        · subst e; rw [hm] at hb; cases hb
        · have := prefix_contiguous hs q i (i0 - 1) i0 (by omega) (by omega) (by omega) hm m0
          rw [this] at hb; cases hb
      · exact hge
    · rcases Nat.lt_or_ge i1 i with hlt | hge
      · exfalso
        have hb := b1 (by omega)
        by_cases e : i = i1 + 1
        · subst e; rw [hm] at hb; cases hb
        · have := prefix_contiguous hs q i1 (i1 + 1) i (by omega) (by omega) h m1 hm
          rw [this] at hb; cases hb
      · exact hge
  · rintro ⟨ha, hb⟩
    by_cases e0 : i = i0
    · subst e0; exact m0
    · by_cases e1 : i = i1
      · subst e1; exact m1
      · exact prefix_contiguous hs q i0 i i1 (by omega) (by omega) h1 m0 m1

end CSD.PFC
