import CSD.Model.VByte

namespace CSD.VByte

theorem or_shift_eq_add {acc x s : Nat} (h : acc < 2 ^ s) :
    acc ||| (x <<< s) = acc + x * 2 ^ s := by
  rw [Nat.or_comm, ← Nat.shiftLeft_add_eq_or_of_lt h, Nat.shiftLeft_eq, Nat.add_comm]

theorem encode_length_pos (c : Nat) : 0 < (encode c).length := by
  unfold encode; split <;> simp

theorem toUInt8_toNat_of_lt {n : Nat} (h : n < 256) : n.toUInt8.toNat = n := by
  simp [Nat.toUInt8, UInt8.toNat, UInt8.ofNat, BitVec.toNat_ofNat, Nat.mod_eq_of_lt h]

/-- Main round-trip lemma, in accumulator form. -/
theorem decodeAux_encode (c : Nat) : ∀ (rest : List UInt8) (shift acc n : Nat),
    acc < 2 ^ shift →
    decodeAux (encode c ++ rest) shift acc n
      = some (acc + c * 2 ^ shift, n + (encode c).length) := by
  induction c using Nat.strongRecOn with
  | _ c ih =>
    intro rest shift acc n hacc
    unfold encode
    by_cases hc : c > 127
    · simp only [hc, ↓reduceDIte, List.cons_append, List.length_cons]
      have hb : (c % 128).toUInt8.toNat = c % 128 := toUInt8_toNat_of_lt (by omega)
      unfold decodeAux
      have hlt : ¬ (c % 128).toUInt8.toNat ≥ 128 := by rw [hb]; omega
      simp only [hlt, ↓reduceIte]
      rw [hb, Nat.mod_mod, or_shift_eq_add hacc]
      have hacc' : acc + c % 128 * 2 ^ shift < 2 ^ (shift + 7) := by
        have h1 : c % 128 * 2 ^ shift ≤ 127 * 2 ^ shift := Nat.mul_le_mul_right _ (by omega)
        rw [Nat.pow_add]; omega
      rw [ih (c / 128) (by omega) rest (shift + 7) _ (n + 1) hacc']
      congr 1
      have : c % 128 * 2 ^ shift + c / 128 * 2 ^ (shift + 7) = c * 2 ^ shift := by
        rw [Nat.pow_add, ← Nat.mul_assoc, Nat.mul_right_comm (c / 128), ← Nat.add_mul]
        congr 1; omega
      refine Prod.ext ?_ ?_ <;> simp only <;> omega
    · simp only [hc, ↓reduceDIte, List.cons_append, List.nil_append, List.length_cons,
        List.length_nil]
      have hb : (c + 128).toUInt8.toNat = c + 128 := toUInt8_toNat_of_lt (by omega)
      unfold decodeAux
      have hge : (c + 128).toUInt8.toNat ≥ 128 := by rw [hb]; omega
      simp only [hge, ↓reduceIte]
      rw [hb, or_shift_eq_add hacc]
      have : (c + 128) % 128 = c := by omega
      rw [this]

/-- `decode (encode c ++ rest) = (c, |encode c|)` for every `c` and every
continuation of the buffer. -/
theorem decode_encode (c : Nat) (rest : List UInt8) :
    decode (encode c ++ rest) = some (c, (encode c).length) := by
  unfold decode
  rw [decodeAux_encode c rest 0 0 0 (by simp)]
  simp

/-- Length of the encoding: one byte per started group of 7 bits. -/
theorem encode_length_le (c k : Nat) (hk : 0 < k) (h : c < 2 ^ (7 * k)) :
    (encode c).length ≤ k := by
  induction k generalizing c with
  | zero => omega
  | succ k ih =>
    unfold encode
    by_cases hc : c > 127
    · simp only [hc, ↓reduceDIte, List.length_cons]
      have hk' : 0 < k := by
        rcases Nat.eq_zero_or_pos k with h0 | h0
        · subst h0; simp at h; omega
        · exact h0
      have : c / 128 < 2 ^ (7 * k) := by
        have : 2 ^ (7 * (k + 1)) = 128 * 2 ^ (7 * k) := by
          rw [Nat.mul_add, Nat.pow_add]; simp [Nat.mul_comm]
        rw [Nat.div_lt_iff_lt_mul (by decide)]; omega
      have := ih (c / 128) hk' this
      omega
    · simp [hc]

/-- Every 32-bit value is encoded in at most 5 bytes (the constructors rely on
this when they reserve space for an lcp). -/
theorem encode_length_le_five (c : Nat) (h : c < 2 ^ 32) : (encode c).length ≤ 5 :=
  encode_length_le c 5 (by decide) (Nat.lt_of_lt_of_le h (by decide))

/-- The 32-bit machine decode agrees with the ideal one on every encoding of a
32-bit value: no shift reaches 32 and no bit is lost to the `uint` wrap. -/
theorem decode32Aux_encode (c : Nat) : ∀ (rest : List UInt8) (shift acc n : Nat),
    acc < 2 ^ shift → acc + c * 2 ^ shift < 2 ^ 32 → shift < 32 →
    decode32Aux (encode c ++ rest) shift acc n
      = .ok (acc + c * 2 ^ shift) (n + (encode c).length) := by
  induction c using Nat.strongRecOn with
  | _ c ih =>
    intro rest shift acc n hacc hfit hs
    unfold encode
    by_cases hc : c > 127
    · simp only [hc, ↓reduceDIte, List.cons_append, List.length_cons]
      have hb : (c % 128).toUInt8.toNat = c % 128 := toUInt8_toNat_of_lt (by omega)
      unfold decode32Aux
      have hlt : ¬ (c % 128).toUInt8.toNat ≥ 128 := by rw [hb]; omega
      have hs' : ¬ shift ≥ 32 := by omega
      simp only [hs', hlt, ↓reduceIte]
      rw [hb, Nat.mod_mod]
      have hsplit : c % 128 * 2 ^ shift + c / 128 * 2 ^ (shift + 7) = c * 2 ^ shift := by
        rw [Nat.pow_add, ← Nat.mul_assoc, Nat.mul_right_comm (c / 128), ← Nat.add_mul]
        congr 1; omega
      have hpos : 0 < 2 ^ shift := Nat.two_pow_pos shift
      have hq : 0 < c / 128 := by omega
      have hq2 : 2 ^ (shift + 7) ≤ c / 128 * 2 ^ (shift + 7) := Nat.le_mul_of_pos_left _ hq
      have hsm : c % 128 * 2 ^ shift < 2 ^ 32 := by omega
      rw [Nat.shiftLeft_eq, Nat.mod_eq_of_lt hsm, ← Nat.shiftLeft_eq, or_shift_eq_add hacc]
      have hsum : acc + c % 128 * 2 ^ shift < 2 ^ 32 := by omega
      rw [Nat.mod_eq_of_lt hsum]
      have hacc' : acc + c % 128 * 2 ^ shift < 2 ^ (shift + 7) := by
        have h1 : c % 128 * 2 ^ shift ≤ 127 * 2 ^ shift := Nat.mul_le_mul_right _ (by omega)
        rw [Nat.pow_add]; omega
      have hs7 : shift + 7 < 32 := by
        rcases Nat.lt_or_ge (shift + 7) 32 with h | h
        · exact h
        · exfalso
          have : 2 ^ 32 ≤ 2 ^ (shift + 7) := Nat.pow_le_pow_right (by decide) h
          omega
      rw [ih (c / 128) (by omega) rest (shift + 7) _ (n + 1) hacc' (by omega) hs7]
      congr 1 <;> omega
    · simp only [hc, ↓reduceDIte, List.cons_append, List.nil_append, List.length_cons,
        List.length_nil]
      have hb : (c + 128).toUInt8.toNat = c + 128 := toUInt8_toNat_of_lt (by omega)
      unfold decode32Aux
      have hge : (c + 128).toUInt8.toNat ≥ 128 := by rw [hb]; omega
      have hs' : ¬ shift ≥ 32 := by omega
      simp only [hs', hge, ↓reduceIte]
      rw [hb]
      have : (c + 128) % 128 = c := by omega
      rw [this]
      have hsm : c * 2 ^ shift < 2 ^ 32 := by omega
      rw [Nat.shiftLeft_eq, Nat.mod_eq_of_lt hsm, ← Nat.shiftLeft_eq, or_shift_eq_add hacc,
        Nat.mod_eq_of_lt hfit]
      simp [Nat.shiftLeft_eq]

theorem decode32_encode (c : Nat) (h : c < 2 ^ 32) (rest : List UInt8) :
    decode32 (encode c ++ rest) = .ok c (encode c).length := by
  unfold decode32
  rw [decode32Aux_encode c rest 0 0 0 (by simp) (by simpa using h) (by decide)]
  simp

end CSD.VByte
