import CSD.Lemmas.PFCBasic

namespace CSD.PFC
open CSD

/-- Clamped bucket size. -/
def clamp (b0 : Nat) : Nat := if b0 < 2 then 2 else b0

theorem clamp_ge_two (b0 : Nat) : 2 ≤ clamp b0 := by
  unfold clamp; split <;> omega

theorem build_elements (b0 : Nat) (S : List Str) : (build b0 S).elements = S.length := rfl
theorem build_bucketsize (b0 : Nat) (S : List Str) : (build b0 S).bucketsize = clamp b0 := rfl
theorem build_text (b0 : Nat) (S : List Str) :
    (build b0 S).text = ((chunks (clamp b0) S).map encBucket).flatten := rfl
theorem build_bl (b0 : Nat) (S : List Str) :
    (build b0 S).bl = 0 :: offsetsFrom 0 ((chunks (clamp b0) S).map encBucket) ++
      [((chunks (clamp b0) S).map encBucket).flatten.length] := rfl

/-- The pointer `textStrings + blStrings[k+1]` of a built dictionary points at the
encoding of chunk `k`, followed by the later buckets. -/
theorem bucketPtr_build (b0 : Nat) (S : List Str) (k : Nat) (hk : k * clamp b0 < S.length) :
    ∃ rest, bucketPtr (build b0 S) (k + 1) =
      some (encBucket ((S.drop (k * clamp b0)).take (clamp b0)) ++ rest) := by
  have hb : clamp b0 ≠ 0 := by have := clamp_ge_two b0; omega
  have hch := chunks_getElem? (clamp b0) hb S k hk
  have hklen : k < (chunks (clamp b0) S).length := by
    rcases Nat.lt_or_ge k (chunks (clamp b0) S).length with h | h
    · exact h
    · rw [List.getElem?_eq_none h] at hch; cases hch
  let encs := (chunks (clamp b0) S).map encBucket
  have hklen' : k < encs.length := by simpa [encs] using hklen
  have henc : encs[k]? = some (encBucket ((S.drop (k * clamp b0)).take (clamp b0))) := by
    simp [encs, List.getElem?_map, hch]
  refine ⟨(encs.drop (k + 1)).flatten, ?_⟩
  unfold bucketPtr
  rw [build_bl, build_text]
  have hoff : (0 :: offsetsFrom 0 encs ++ [encs.flatten.length])[k + 1]?
      = some ((encs.take k).flatten.length) := by
    rw [List.cons_append, List.getElem?_cons_succ, List.getElem?_append_left
      (by rw [offsetsFrom_length]; exact hklen'), offsetsFrom_getElem? encs 0 k hklen']
    simp
  show (match (0 :: offsetsFrom 0 encs ++ [encs.flatten.length])[k + 1]? with
    | some off => if off ≤ encs.flatten.length then some (encs.flatten.drop off) else none
    | none => none) = _
  rw [hoff]
  have hle : (encs.take k).flatten.length ≤ encs.flatten.length := by
    have h := congrArg (fun l => (List.flatten l).length) (List.take_append_drop k encs)
    simp only [List.flatten_append, List.length_append] at h
    omega
  simp only [hle, ↓reduceIte]
  rw [drop_flatten_take, List.drop_eq_getElem_cons hklen', List.flatten_cons]
  have : encs[k] = encBucket ((S.drop (k * clamp b0)).take (clamp b0)) := by
    have := List.getElem?_eq_getElem hklen'
    rw [henc] at this; exact (Option.some.inj this).symm
  rw [this]

/-- **Extraction is exact**: for every ID in `[1, n]` the model of
`StringDictionaryPFC::extract` on the constructed dictionary returns the
string with that rank, with every read inside the text. -/
theorem extract_build (b0 : Nat) (S : List Str) (hS : ∀ s ∈ S, nulFree s)
    (i : Nat) (h1 : 1 ≤ i) (h2 : i ≤ S.length) :
    extract (build b0 S) i = some (S[i - 1]?) := by
  have hb2 := clamp_ge_two b0
  have hbpos : 0 < clamp b0 := by omega
  unfold extract
  rw [build_elements, build_bucketsize]
  have hcond : i > 0 ∧ i ≤ S.length := ⟨by omega, h2⟩
  simp only [hcond, and_self, ↓reduceIte]
  -- k = bucket index (0-based), pos = position inside the bucket
  generalize hkdef : (i - 1) / clamp b0 = k
  generalize hpdef : (i - 1) % clamp b0 = pos
  have hdecomp : i - 1 = clamp b0 * k + pos := by
    rw [← hkdef, ← hpdef]; exact (Nat.div_add_mod (i - 1) (clamp b0)).symm
  have hpos_lt : pos < clamp b0 := by rw [← hpdef]; exact Nat.mod_lt _ hbpos
  have hk : k * clamp b0 < S.length := by rw [Nat.mul_comm]; omega
  obtain ⟨rest, hptr⟩ := bucketPtr_build b0 S k hk
  rw [Nat.add_comm 1 k, hptr]
  simp only
  -- the chunk is non-empty: h :: L
  have hchunk_len : ((S.drop (k * clamp b0)).take (clamp b0)).length = min (clamp b0) (S.length - k * clamp b0) := by
    simp
  cases hc : (S.drop (k * clamp b0)).take (clamp b0) with
  | nil =>
    rw [hc] at hchunk_len; simp at hchunk_len; omega
  | cons h L =>
    have hmem : ∀ s ∈ h :: L, nulFree s := by
      intro s hs
      rw [← hc] at hs
      exact hS s (List.mem_of_mem_drop (List.mem_of_mem_take hs))
    have hh : nulFree h := hmem h (by simp)
    have hL : ∀ s ∈ L, nulFree s := fun s hs => hmem s (by simp [hs])
    simp only [encBucket, List.append_assoc, List.cons_append, List.nil_append]
    rw [readCStr_append hh]
    simp only [List.nil_append]
    have hposL : pos ≤ L.length := by
      rw [hc] at hchunk_len
      simp only [List.length_cons] at hchunk_len
      have : k * clamp b0 = clamp b0 * k := Nat.mul_comm _ _
      omega
    obtain ⟨r, hr⟩ := decodeSteps_encTail L h pos rest hL hposL
    rw [hr]
    simp only
    -- (h :: L)[pos] = S[i-1]
    have hlt : pos < (h :: L).length := by simp; omega
    have e1 : (h :: L)[pos]! = (h :: L)[pos] := by
      rw [getElem!_pos (h :: L) pos hlt]
    rw [e1]
    have e2 : (h :: L)[pos]? = S[i - 1]? := by
      rw [← hc, List.getElem?_take]
      have : pos < clamp b0 := hpos_lt
      simp only [this, ↓reduceIte, List.getElem?_drop]
      congr 1
      rw [hdecomp, Nat.mul_comm]
    rw [← e2, List.getElem?_eq_getElem hlt]

end CSD.PFC
