import CSD.Lemmas.PoolTerm1

/-! A potential that every step of the program (producer or worker) strictly decreases. -/
namespace CSD.Pool

/-- What a `notify_all` can cost: every one of the `n` workers may go from `waiting` to `wake`. -/
def K (n : Nat) : Nat := 4 * n + 1

/-- Local potential of a worker. -/
def loc (n : Nat) : WPc → Nat
  | .done => 0
  | .exitNotify => K n
  | .waiting => K n + 1
  | .sleep => K n + 2
  | .check => K n + 3
  | .pred => K n + 4
  | .wake => K n + 5
  | .lock => K n + 5
  | .loopEmpty => K n + 6
  | .loopStopped => K n + 7
  | .run _ => K n + 8
  | .unlocked _ => 2 * K n + 8

def sumLoc (n : Nat) (wpc : Nat → WPc) : Nat → Nat
  | 0 => 0
  | m + 1 => sumLoc n wpc m + loc n (wpc m)

/-- Remaining steps of the producer's program. -/
def prodSteps (n : Nat) : PPc → Nat
  | .addLock _ rest => 3 * (rest.length + 1) + n + 4
  | .addPush _ rest => 3 * rest.length + 2 + n + 4
  | .addNotify rest => 3 * rest.length + 1 + n + 4
  | .stopLock => n + 4
  | .stopSet k => n - k + 3
  | .stopNotify => 2
  | .join => 1
  | .done => 0

/-- Tasks the producer still has to push. -/
def remTasks : PPc → Nat
  | .addLock _ rest => rest.length + 1
  | .addPush _ rest => rest.length + 1
  | .addNotify rest => rest.length
  | _ => 0

/-- The potential. -/
def Phi (s : State) : Nat :=
  K s.n * prodSteps s.n s.prod + (K s.n + 6) * (s.queue.length + remTasks s.prod) + sumLoc s.n s.wpc s.n

theorem prodSteps_nextAdd (n : Nat) (rest : List Nat) : prodSteps n (nextAdd rest) = 3 * rest.length + n + 4 := by
  cases rest <;> simp [nextAdd, prodSteps] <;> omega

theorem remTasks_nextAdd (rest : List Nat) : remTasks (nextAdd rest) = rest.length := by
  cases rest <;> simp [nextAdd, remTasks]

theorem sumLoc_congr (n : Nat) (w w' : Nat → WPc) : ∀ m, (∀ j, j < m → w j = w' j) → sumLoc n w m = sumLoc n w' m
  | 0, _ => rfl
  | m + 1, h => by simp [sumLoc, sumLoc_congr n w w' m (fun j hj => h j (by omega)), h m (by omega)]

theorem sumLoc_upd (n : Nat) (w : Nat → WPc) (i : Nat) (v : WPc) : ∀ m, i < m →
    sumLoc n (upd w i v) m + loc n (w i) = sumLoc n w m + loc n v
  | 0, h => by omega
  | m + 1, h => by
    by_cases e : i = m
    · subst e
      have : sumLoc n (upd w i v) i = sumLoc n w i := sumLoc_congr n _ _ i (fun j hj => upd_other _ _ _ _ (by omega))
      simp only [sumLoc, upd_same, this]; omega
    · have := sumLoc_upd n w i v m (by omega)
      simp only [sumLoc, upd_other _ _ _ _ (show m ≠ i by omega)]; omega

/-- A `notify_all` raises the local potentials by at most 4 per worker. -/
theorem sumLoc_notify (n : Nat) (w : Nat → WPc) : ∀ m,
    sumLoc n (fun j => if w j = .waiting then .wake else w j) m ≤ sumLoc n w m + 4 * m
  | 0 => by simp [sumLoc]
  | m + 1 => by
    have := sumLoc_notify n w m
    simp only [sumLoc]
    by_cases h : w m = .waiting
    · simp only [h, ↓reduceIte, loc]; omega
    · simp only [h, ↓reduceIte]; omega

end CSD.Pool

namespace CSD.Pool

@[simp] theorem notifyAll_prod (s : State) : (notifyAll s).prod = s.prod := rfl
@[simp] theorem notifyAll_queue (s : State) : (notifyAll s).queue = s.queue := rfl
@[simp] theorem notifyAll_n (s : State) : (notifyAll s).n = s.n := rfl

theorem phi_wpc (s s' : State) (i : Nat) (v : WPc) (hi : i < s.n) (hn : s'.n = s.n) (hp : s'.prod = s.prod)
    (hq : s'.queue = s.queue) (hw : s'.wpc = upd s.wpc i v) (hlt : loc s.n v < loc s.n (s.wpc i)) : Phi s' < Phi s := by
  unfold Phi
  rw [hn, hp, hq, hw]
  have := sumLoc_upd s.n s.wpc i v s.n hi
  omega

theorem phi_wpc_notify (s s' : State) (i : Nat) (v : WPc) (hi : i < s.n) (hn : s'.n = s.n) (hp : s'.prod = s.prod)
    (hq : s'.queue = s.queue)
    (hw : s'.wpc = fun j => if upd s.wpc i v j = .waiting then .wake else upd s.wpc i v j)
    (hlt : loc s.n v + 4 * s.n + 1 ≤ loc s.n (s.wpc i)) : Phi s' < Phi s := by
  unfold Phi
  rw [hn, hp, hq, hw]
  have h1 := sumLoc_upd s.n s.wpc i v s.n hi
  have h2 := sumLoc_notify s.n (upd s.wpc i v) s.n
  omega

theorem phi_pop (s s' : State) (i : Nat) (v : WPc) (hi : i < s.n) (hn : s'.n = s.n) (hp : s'.prod = s.prod)
    (hq : s'.queue.length + 1 = s.queue.length) (hw : s'.wpc = upd s.wpc i v)
    (hlt : loc s.n v ≤ loc s.n (s.wpc i) + K s.n + 5) : Phi s' < Phi s := by
  unfold Phi
  rw [hn, hp, hw]
  have h1 := sumLoc_upd s.n s.wpc i v s.n hi
  have e : s.queue.length + remTasks s.prod = (s'.queue.length + remTasks s.prod) + 1 := by omega
  rw [e, Nat.mul_succ]
  omega

theorem phi_prod (s s' : State) (hn : s'.n = s.n) (hw : s'.wpc = s.wpc)
    (hg : s'.queue.length + remTasks s'.prod = s.queue.length + remTasks s.prod)
    (hlt : prodSteps s.n s'.prod < prodSteps s.n s.prod) : Phi s' < Phi s := by
  unfold Phi
  rw [hn, hw, hg]
  have hK : 0 < K s.n := by unfold K; omega
  have h2 : K s.n * prodSteps s.n s'.prod < K s.n * prodSteps s.n s.prod := Nat.mul_lt_mul_of_pos_left hlt hK
  omega

theorem phi_prod_notify (s s' : State) (hn : s'.n = s.n)
    (hw : s'.wpc = fun j => if s.wpc j = .waiting then .wake else s.wpc j)
    (hg : s'.queue.length + remTasks s'.prod = s.queue.length + remTasks s.prod)
    (hlt : prodSteps s.n s'.prod + 1 = prodSteps s.n s.prod) : Phi s' < Phi s := by
  unfold Phi
  rw [hn, hw, hg, ← hlt, Nat.mul_succ]
  have := sumLoc_notify s.n s.wpc s.n
  unfold K at *
  omega

/-- Every step of a worker lowers the potential. -/
theorem phi_step_worker (s s' : State) (k : Nat) (h2 : InvC s) (h : stepWorker s k = some s') : Phi s' < Phi s := by
  unfold stepWorker at h
  by_cases hge : k ≥ s.n
  · simp [hge] at h
  · simp only [hge, ↓reduceIte] at h
    have hk : k < s.n := by omega
    cases hpc : s.wpc k with
    | loopStopped =>
      rw [hpc] at h; simp only [Option.some.injEq] at h; subst h
      exact phi_wpc s _ k _ hk rfl rfl rfl rfl (by rw [hpc]; split <;> simp [loc])
    | loopEmpty =>
      rw [hpc] at h; simp only [Option.some.injEq] at h; subst h
      exact phi_wpc s _ k _ hk rfl rfl rfl rfl (by rw [hpc]; split <;> simp [loc])
    | lock =>
      rw [hpc] at h
      by_cases hm : s.mutex = none
      · simp only [hm, ↓reduceIte, Option.some.injEq] at h; subst h
        exact phi_wpc s _ k _ hk rfl rfl rfl rfl (by rw [hpc]; simp [loc])
      · simp [hm] at h
    | wake =>
      rw [hpc] at h
      by_cases hm : s.mutex = none
      · simp only [hm, ↓reduceIte, Option.some.injEq] at h; subst h
        exact phi_wpc s _ k _ hk rfl rfl rfl rfl (by rw [hpc]; simp [loc])
      · simp [hm] at h
    | pred =>
      rw [hpc] at h; simp only [Option.some.injEq] at h; subst h
      exact phi_wpc s _ k _ hk rfl rfl rfl rfl (by rw [hpc]; split <;> simp [loc])
    | sleep =>
      rw [hpc] at h; simp only [Option.some.injEq] at h; subst h
      exact phi_wpc s _ k _ hk rfl rfl rfl rfl (by rw [hpc]; simp [loc])
    | waiting => rw [hpc] at h; simp at h
    | check =>
      rw [hpc] at h
      by_cases hc : (s.stopped k && s.queue.isEmpty) = true
      · simp only [hc, ↓reduceIte, Option.some.injEq] at h; subst h
        exact phi_wpc s _ k _ hk rfl rfl rfl rfl (by rw [hpc]; simp [loc])
      · simp only [hc] at h
        cases hq : s.queue with
        | nil =>
          -- `continue` with an empty queue and no stop flag: excluded by the invariant
          exfalso
          rcases h2 k hk hpc with hs | hne
          · simp [hs, hq] at hc
          · exact hne hq
        | cons t q =>
          rw [hq] at h; simp only [Bool.false_eq_true, ↓reduceIte, Option.some.injEq] at h; subst h
          exact phi_pop s _ k _ hk rfl rfl (by simp [hq]) rfl (by rw [hpc]; simp [loc]; omega)
    | unlocked t =>
      rw [hpc] at h; simp only [Option.some.injEq] at h; subst h
      exact phi_wpc_notify s _ k (.run t) hk rfl rfl rfl rfl (by rw [hpc]; simp [loc, K]; omega)
    | run t =>
      rw [hpc] at h; simp only [Option.some.injEq] at h; subst h
      exact phi_wpc s _ k _ hk rfl rfl rfl rfl (by rw [hpc]; simp [loc])
    | exitNotify =>
      rw [hpc] at h; simp only [Option.some.injEq] at h; subst h
      exact phi_wpc_notify s _ k .done hk rfl rfl rfl rfl (by rw [hpc]; simp [loc, K])
    | done => rw [hpc] at h; simp at h

/-- Every step of the producer lowers the potential. -/
theorem phi_step_prod (s s' : State) (h : stepProd s = some s') : Phi s' < Phi s := by
  unfold stepProd at h
  cases hp : s.prod with
  | addLock t rest =>
    rw [hp] at h
    by_cases hm : s.mutex = none
    · simp only [hm, ↓reduceIte, Option.some.injEq] at h; subst h
      exact phi_prod s _ rfl rfl (by simp [hp, remTasks]) (by simp [hp, prodSteps] <;> omega)
    · simp [hm] at h
  | addPush t rest =>
    rw [hp] at h; simp only [Option.some.injEq] at h; subst h
    exact phi_prod s _ rfl rfl (by simp [hp, remTasks] <;> omega) (by simp [hp, prodSteps])
  | addNotify rest =>
    rw [hp] at h; simp only [Option.some.injEq] at h; subst h
    exact phi_prod_notify s _ rfl rfl
      (by simp only [notifyAll_queue, notifyAll_prod, hp, remTasks_nextAdd]; simp [remTasks])
      (by simp only [notifyAll_prod, hp, prodSteps_nextAdd]; simp [prodSteps]; omega)
  | stopLock =>
    rw [hp] at h
    by_cases hm : s.mutex = none
    · simp only [hm, ↓reduceIte, Option.some.injEq] at h; subst h
      exact phi_prod s _ rfl rfl (by simp [hp, remTasks]) (by simp [hp, prodSteps] <;> omega)
    · simp [hm] at h
  | stopSet k =>
    rw [hp] at h
    by_cases hk : k < s.n
    · simp only [hk, ↓reduceIte, Option.some.injEq] at h; subst h
      exact phi_prod s _ rfl rfl (by simp [hp, remTasks]) (by simp [hp, prodSteps] <;> omega)
    · simp only [hk, ↓reduceIte, Option.some.injEq] at h; subst h
      exact phi_prod s _ rfl rfl (by simp [hp, remTasks]) (by simp [hp, prodSteps] <;> omega)
  | stopNotify =>
    rw [hp] at h; simp only [Option.some.injEq] at h; subst h
    exact phi_prod_notify s _ rfl rfl (by simp [hp, remTasks]) (by simp [hp, prodSteps])
  | join =>
    rw [hp] at h
    by_cases hd : ∀ i, i < s.n → s.wpc i = .done
    · rw [if_pos hd] at h; simp only [Option.some.injEq] at h; subst h
      exact phi_prod s _ rfl rfl (by simp [hp, remTasks]) (by simp [hp, prodSteps])
    · simp [hd] at h
  | done => rw [hp] at h; simp at h

/-- A spurious wake-up (the environment's move) raises the potential by 4. -/
theorem phi_step_spurious (s s' : State) (i : Nat) (h : step s (.spurious i) = some s') : Phi s' = Phi s + 4 := by
  simp only [step] at h
  by_cases hc : i < s.n ∧ s.wpc i = .waiting
  · simp only [hc, and_self, ↓reduceIte, Option.some.injEq] at h; subst h
    unfold Phi
    simp only
    have := sumLoc_upd s.n s.wpc i .wake s.n hc.1
    rw [hc.2] at this
    simp only [loc] at this
    omega
  · simp [hc] at h

end CSD.Pool
