import CSD.Model.Blocks
import CSD.Lemmas.PoolThms

namespace CSD.Blocks
open CSD

theorem cutLoop_flatten (c : Nat) : ∀ (l acc : List Str) (sz : Nat), l ≠ [] →
    (cutLoop c l acc sz).flatten = acc.reverse ++ l
  | [], _, _, h => absurd rfl h
  | s :: rest, acc, sz, _ => by
    unfold cutLoop
    simp only
    split
    · rename_i hc
      cases rest with
      | nil => simp [cutLoop]
      | cons r rest' =>
        rw [List.flatten_cons, cutLoop_flatten c (r :: rest') [] 0 (by simp)]
        simp
    · rename_i hc
      cases rest with
      | nil => simp at hc
      | cons r rest' =>
        rw [cutLoop_flatten c (r :: rest') (s :: acc) _ (by simp)]
        simp

/-- The blocks are consecutive pieces of the input: concatenated they give it back. -/
theorem cut_flatten (c : Nat) (S : List Str) : (cut c S).flatten = S := by
  cases S with
  | nil => simp [cut, cutLoop]
  | cons s rest =>
    unfold cut
    rw [cutLoop_flatten c (s :: rest) [] 0 (by simp)]
    simp

theorem cutLoop_nonempty (c : Nat) : ∀ (l acc : List Str) (sz : Nat), ∀ b ∈ cutLoop c l acc sz, b ≠ []
  | [], _, _, b, hb => by simp [cutLoop] at hb
  | s :: rest, acc, sz, b, hb => by
    unfold cutLoop at hb
    simp only at hb
    split at hb
    · rcases List.mem_cons.mp hb with e | e
      · subst e; simp
      · exact cutLoop_nonempty c rest [] 0 b e
    · exact cutLoop_nonempty c rest (s :: acc) _ b hb

/-- No block is empty. -/
theorem cut_nonempty (c : Nat) (S : List Str) : ∀ b ∈ cut c S, b ≠ [] :=
  cutLoop_nonempty c S [] 0

/-- Slot `i` of the parts vector depends only on whether task `i` ran. -/
theorem partsOf_complete {α : Type} (build : List Str → α) (blocks : List (List Str)) (ran : List Nat)
    (h : ∀ i, i < blocks.length → i ∈ ran) :
    partsOf build blocks ran = blocks.map (fun b => some (build b)) := by
  unfold partsOf
  apply List.ext_getElem
  · simp
  · intro i h1 h2
    simp only [List.getElem_map, List.getElem_zipIdx]
    have : i < blocks.length := by simpa using h1
    simp [h i this]

end CSD.Blocks
