import CSD.Model.BlocksImage
import CSD.Lemmas.HRPDACImage

/-! `StringDictionaryHASHRPDACBlocks::load ∘ save = id` on bytes. -/
namespace CSD.BlocksImg
open CSD.LogSeq (leBytes fromLE readLE leBytes_length fromLE_leBytes readLE_leBytes)

theorem readSamples_save : ∀ (l : List (List UInt8)) (rest : List UInt8), (∀ s ∈ l, s.length < 2 ^ 32) →
    readSamples l.length (saveSamples l ++ rest) = some (l, rest)
  | [], rest, _ => by simp [readSamples, saveSamples]
  | s :: l, rest, h => by
    have hs := h s (by simp)
    have ih := readSamples_save l rest (fun x hx => h x (by simp [hx]))
    simp only [saveSamples, List.flatMap_cons, List.append_assoc, List.length_cons, readSamples] at ih ⊢
    rw [readLE_leBytes 4 s.length (by omega)]
    simp only
    have : ¬ (s ++ (List.flatMap (fun s => leBytes s.length 4 ++ s) l ++ rest)).length < s.length := by
      simp only [List.length_append]; omega
    simp only [this, ↓reduceIte, List.drop_left, List.take_left, ih]

theorem readStarts_save : ∀ (l : List Nat) (rest : List UInt8), (∀ x ∈ l, x < 2 ^ 64) →
    readStarts l.length (saveStarts l ++ rest) = some (l, rest)
  | [], rest, _ => by simp [readStarts, saveStarts]
  | x :: l, rest, h => by
    have hx := h x (by simp)
    have ih := readStarts_save l rest (fun y hy => h y (by simp [hy]))
    simp only [saveStarts, List.flatMap_cons, List.append_assoc, List.length_cons, readStarts] at ih ⊢
    rw [readLE_leBytes 8 x (by omega)]
    simp only [ih]

theorem readParts_save : ∀ (l : List HRPDACImg.Img) (rest : List UInt8), (∀ p ∈ l, HRPDACImg.WF p) →
    readParts l.length (saveParts l ++ rest) = some (l, rest)
  | [], rest, _ => by simp [readParts, saveParts]
  | p :: l, rest, h => by
    have hp := h p (by simp)
    have ih := readParts_save l rest (fun y hy => h y (by simp [hy]))
    simp only [saveParts, List.flatMap_cons, List.append_assoc, List.length_cons, readParts] at ih ⊢
    rw [HRPDACImg.load_save p hp]
    simp only [ih]

structure WF (d : Img) : Prop where
  ml : d.maxlength < 2 ^ 32
  cs : d.cutSize < 2 ^ 64
  sq : d.stringsQty < 2 ^ 64
  np : d.parts.length < 2 ^ 32
  nsamples : d.samples.length = d.parts.length
  nstarts : d.starts.length = d.parts.length
  samples : ∀ s ∈ d.samples, s.length < 2 ^ 32
  starts : ∀ x ∈ d.starts, x < 2 ^ 64
  parts : ∀ p ∈ d.parts, HRPDACImg.WF p

/-- **`load (save d ++ rest) = (d, rest)`** for a block dictionary: header, the first string and the starting
ID of every part, and every part (a whole HASHRPDAC image each) come back; exactly the image is consumed. -/
theorem load_save (d : Img) (wf : WF d) (rest : List UInt8) : load (save d ++ rest) = some (d, rest) := by
  unfold load save
  simp only [List.append_assoc]
  rw [readLE_leBytes 4 125 (by decide)]
  simp only [ne_eq, not_true_eq_false, ↓reduceIte]
  rw [readLE_leBytes 4 d.maxlength (by have := wf.ml; omega)]
  simp only
  rw [readLE_leBytes 8 d.cutSize (by have := wf.cs; omega)]
  simp only
  rw [readLE_leBytes 8 d.stringsQty (by have := wf.sq; omega)]
  simp only
  rw [readLE_leBytes 4 d.parts.length (by have := wf.np; omega)]
  simp only
  have h1 := readSamples_save d.samples (saveStarts d.starts ++ (saveParts d.parts ++ rest)) wf.samples
  rw [wf.nsamples] at h1
  rw [h1]
  simp only
  have h2 := readStarts_save d.starts (saveParts d.parts ++ rest) wf.starts
  rw [wf.nstarts] at h2
  rw [h2]
  simp only
  rw [readParts_save d.parts rest wf.parts]

end CSD.BlocksImg
