import CSD.Lemmas.PFCBasic

/-! Facts about the byte order `scmp` (the model of `strcmp`). -/
namespace CSD
open CSD.PFC

theorem toNat_pos_of_ne_zero {c : UInt8} (h : c ≠ 0) : 0 < c.toNat := by
  rcases Nat.eq_zero_or_pos c.toNat with h0 | h0
  · exfalso; apply h; exact UInt8.toNat_inj.mp (by simpa using h0)
  · exact h0

theorem scmp_self : ∀ a : Str, scmp a a = 0
  | [] => rfl
  | _ :: as => by simp [scmp, scmp_self as]

theorem scmp_eq_zero {a b : Str} (ha : nulFree a) (hb : nulFree b) : scmp a b = 0 ↔ a = b := by
  induction a generalizing b with
  | nil =>
    cases b with
    | nil => simp [scmp]
    | cons y bs =>
      have := toNat_pos_of_ne_zero (nulFree_cons.mp hb).1
      simp [scmp]; omega
  | cons x as ih =>
    cases b with
    | nil =>
      have := toNat_pos_of_ne_zero (nulFree_cons.mp ha).1
      simp [scmp]; omega
    | cons y bs =>
      unfold scmp
      by_cases hxy : x = y
      · subst hxy
        simp [ih (nulFree_cons.mp ha).2 (nulFree_cons.mp hb).2]
      · have : x.toNat ≠ y.toNat := fun h => hxy (UInt8.toNat_inj.mp h)
        simp [hxy]; omega

theorem scmp_antisymm : ∀ a b : Str, scmp b a = - scmp a b
  | [], [] => by simp [scmp]
  | [], _ :: _ => by simp [scmp]
  | _ :: _, [] => by simp [scmp]
  | x :: as, y :: bs => by
    unfold scmp
    by_cases hxy : x = y
    · subst hxy; simp [scmp_antisymm as bs]
    · have : ¬ y = x := fun h => hxy h.symm
      simp only [hxy, this, ↓reduceIte]; omega

theorem scmp_lt_iff_gt (a b : Str) : scmp a b < 0 ↔ scmp b a > 0 := by
  rw [scmp_antisymm a b]; omega

/-- Dropping a common prefix does not change the comparison. -/
theorem scmp_drop_lcp : ∀ (a b : Str) (k : Nat), k ≤ lcp a b → scmp a b = scmp (a.drop k) (b.drop k)
  | a, b, 0, _ => by simp
  | [], _, k + 1, h => by simp [lcp] at h
  | _ :: _, [], k + 1, h => by simp [lcp] at h
  | x :: as, y :: bs, k + 1, h => by
    unfold lcp at h
    by_cases hxy : x = y
    · subst hxy
      simp only [↓reduceIte] at h
      simp only [scmp, ↓reduceIte, List.drop_succ_cons]
      exact scmp_drop_lcp as bs k (by omega)
    · simp [hxy] at h

theorem lcp_self : ∀ a : Str, lcp a a = a.length
  | [] => rfl
  | _ :: as => by simp [lcp, lcp_self as]

theorem lcp_comm : ∀ a b : Str, lcp a b = lcp b a
  | [], [] => rfl
  | [], _ :: _ => by simp [lcp]
  | _ :: _, [] => by simp [lcp]
  | x :: as, y :: bs => by
    unfold lcp
    by_cases hxy : x = y
    · subst hxy; simp [lcp_comm as bs]
    · have : ¬ y = x := fun h => hxy h.symm
      simp [hxy, this]

/-- The bytes below the lcp agree. -/
theorem take_lcp_eq : ∀ a b : Str, a.take (lcp a b) = b.take (lcp a b)
  | [], _ => by simp [lcp]
  | _ :: _, [] => by simp [lcp]
  | x :: as, y :: bs => by
    unfold lcp
    by_cases hxy : x = y
    · subst hxy; simp [take_lcp_eq as bs]
    · simp [hxy]

/-- Strings that agree on the first `k` bytes have lcp at least `k`. -/
theorem le_lcp_of_take_eq : ∀ (a b : Str) (k : Nat), k ≤ a.length → k ≤ b.length →
    a.take k = b.take k → k ≤ lcp a b
  | _, _, 0, _, _, _ => by omega
  | [], _, k + 1, h, _, _ => by simp at h
  | _ :: _, [], k + 1, _, h, _ => by simp at h
  | x :: as, y :: bs, k + 1, ha, hb, he => by
    simp only [List.take_succ_cons, List.cons.injEq] at he
    obtain ⟨hxy, he⟩ := he
    subst hxy
    have := le_lcp_of_take_eq as bs k (by simpa using ha) (by simpa using hb) he
    simp [lcp]; omega

/-- At the lcp the strings differ (or one ends): the comparison of the rests is
decided by their first bytes. -/
theorem lcp_drop_zero (a b : Str) : lcp (a.drop (lcp a b)) (b.drop (lcp a b)) = 0 := by
  induction a generalizing b with
  | nil => simp [lcp]
  | cons x as ih =>
    cases b with
    | nil => simp [lcp]
    | cons y bs =>
      by_cases hxy : x = y
      · subst hxy; simp [lcp, ih bs]
      · simp [lcp, hxy]

theorem scmp_trans_lt {a b c : Str} (h1 : scmp a b < 0) (h2 : scmp b c < 0) : scmp a c < 0 := by
  induction a generalizing b c with
  | nil =>
    cases c with
    | nil =>
      cases b with
      | nil => simp [scmp] at h1
      | cons y bs => simp [scmp] at h2; omega
    | cons z cs =>
      cases b with
      | nil => simp [scmp] at h1
      | cons y bs =>
        simp only [scmp] at h1 h2 ⊢
        by_cases hyz : y = z
        · subst hyz; omega
        · simp only [hyz, ↓reduceIte] at h2; omega
  | cons x as ih =>
    cases b with
    | nil => simp [scmp] at h1; omega
    | cons y bs =>
      cases c with
      | nil => simp [scmp] at h2; omega
      | cons z cs =>
        simp only [scmp] at h1 h2 ⊢
        by_cases hxy : x = y
        · subst hxy
          by_cases hxz : x = z
          · subst hxz
            simp only [↓reduceIte] at h1 h2 ⊢
            exact ih h1 h2
          · simp only [↓reduceIte, hxz] at h1 h2 ⊢; exact h2
        · simp only [hxy, ↓reduceIte] at h1
          by_cases hyz : y = z
          · subst hyz; simp only [hxy, ↓reduceIte]; exact h1
          · simp only [hyz, ↓reduceIte] at h2
            have hxz : x ≠ z := by
              intro h; subst h; omega
            simp only [hxz, ↓reduceIte]; omega

end CSD
