import CSD.Model.DACImage
import CSD.Lemmas.RGImage

/-! `DAC_VLS::load ∘ save = id` on bytes. -/
namespace CSD.DACImg
open CSD.LogSeq (leBytes fromLE readLE leBytes_length fromLE_leBytes readLE_leBytes)
open CSD.RG (le32s words32 le32s_length words32_le32s)

structure WF (d : Img) : Prop where
  tam_lt : d.tamCode < 2 ^ 32
  ll_lt : d.listLength < 2 ^ 32
  nl_lt : d.nLevels < 2 ^ 32
  bb_lt : d.baseBits < 2 ^ 16
  li_len : d.levelsIndex.length = d.nLevels + 1
  lv_len : d.levels.length = d.tamCode / 32 + 1
  rl_len : d.rankLevels.length = d.nLevels
  li_w : ∀ w ∈ d.levelsIndex, w < 2 ^ 32
  lv_w : ∀ w ∈ d.levels, w < 2 ^ 32
  rl_w : ∀ w ∈ d.rankLevels, w < 2 ^ 32
  bs_wf : RG.WF d.bs

theorem words32_le32s' (l : List Nat) (k : Nat) (rest : List UInt8) (hk : l.length = k) (hw : ∀ w ∈ l, w < 2 ^ 32) :
    words32 k (le32s l ++ rest) = l ∧ (le32s l ++ rest).drop (4 * k) = rest ∧ ¬ (le32s l ++ rest).length < 4 * k := by
  subst hk
  obtain ⟨a, b⟩ := words32_le32s l rest hw
  exact ⟨a, b, by simp [le32s_length]⟩

/-- **`load (save d ++ rest) = (d, rest)`** for a DAC_VLS: every field, the packed levels, the rank samples
and the bitmap come back, and exactly the image is consumed. -/
theorem loadImg_saveImg (d : Img) (wf : WF d) (rest : List UInt8) : loadImg (saveImg d ++ rest) = some (d, rest) := by
  unfold loadImg saveImg
  simp only [List.append_assoc]
  rw [readLE_leBytes 4 d.tamCode (by have := wf.tam_lt; omega)]
  simp only
  rw [readLE_leBytes 4 d.listLength (by have := wf.ll_lt; omega)]
  simp only
  rw [readLE_leBytes 4 d.nLevels (by have := wf.nl_lt; omega)]
  simp only
  rw [readLE_leBytes 2 d.baseBits (by have := wf.bb_lt; omega)]
  simp only
  obtain ⟨a1, a2, a3⟩ := words32_le32s' d.levelsIndex (d.nLevels + 1)
    (le32s d.levels ++ (le32s d.rankLevels ++ (RG.saveImg d.bs ++ rest))) wf.li_len wf.li_w
  rw [if_neg a3, a1, a2]
  obtain ⟨b1, b2, b3⟩ := words32_le32s' d.levels (d.tamCode / 32 + 1)
    (le32s d.rankLevels ++ (RG.saveImg d.bs ++ rest)) wf.lv_len wf.lv_w
  rw [if_neg b3, b1, b2]
  obtain ⟨c1, c2, c3⟩ := words32_le32s' d.rankLevels d.nLevels (RG.saveImg d.bs ++ rest) wf.rl_len wf.rl_w
  rw [if_neg c3, c1, c2, RG.loadImg_saveImg d.bs wf.bs_wf rest]

end CSD.DACImg
