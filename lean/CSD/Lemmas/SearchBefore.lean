import CSD.Model.Hash

/-! `binary_search_before_index`: which index it returns on a sorted vector. -/
namespace CSD.Hash

/-- `searchBefore lt v q = p` as soon as everything before `p` is below `q`, everything after `p`
is above `q`, and `v[p]` is `q` or below `q`. (No order axioms: the callers establish these.) -/
theorem searchBefore_spec {α : Type} (lt : α → α → Bool) (v : List α) (q : α) (p : Nat) (hp : p < v.length)
    (hbefore : ∀ j (hj : j < p), lt (v[j]'(by omega)) q = true)
    (hafter : ∀ j (_ : p < j) (hj : j < v.length), lt v[j] q = false ∧ lt q v[j] = true)
    (hat : lt q v[p] = false) :
    searchBefore lt v q = p := by
  unfold searchBefore
  cases hlt : lt v[p] q with
  | false =>
    -- v[p] is not below q: the lower bound is p itself
    have hlb : v.findIdx (fun x => !(lt x q)) = p := by
      rw [List.findIdx_eq hp]
      refine ⟨by simp [hlt], ?_⟩
      intro j hj
      simp [hbefore j hj]
    simp only [hlb]
    have hne : p ≠ v.length := by omega
    rw [if_neg hne]
    by_cases hp0 : p > 0
    · rw [if_pos hp0]
      have h1 : p - 1 < v.length := by omega
      rw [List.getElem?_eq_getElem h1, List.getElem?_eq_getElem hp]
      simp only
      rw [hat]
      simp
    · rw [if_neg hp0]
  | true =>
    by_cases hlast : p + 1 = v.length
    · -- every element is below q
      have hlb : v.findIdx (fun x => !(lt x q)) = v.length := by
        rw [List.findIdx_eq_length]
        intro x hx
        obtain ⟨j, hj, rfl⟩ := List.mem_iff_getElem.mp hx
        by_cases e : j = p
        · subst e; simp [hlt]
        · simp [hbefore j (by omega)]
      simp only [hlb, ↓reduceIte]
      omega
    · have hp1 : p + 1 < v.length := by omega
      have hlb : v.findIdx (fun x => !(lt x q)) = p + 1 := by
        rw [List.findIdx_eq hp1]
        refine ⟨by simp [(hafter (p + 1) (by omega) hp1).1], ?_⟩
        intro j hj
        by_cases e : j = p
        · subst e; simp [hlt]
        · simp [hbefore j (by omega)]
      simp only [hlb]
      have hne : p + 1 ≠ v.length := by omega
      rw [if_neg hne, if_pos (by omega)]
      have e : p + 1 - 1 = p := by omega
      rw [e, List.getElem?_eq_getElem hp, List.getElem?_eq_getElem hp1]
      simp only
      rw [hat, (hafter (p + 1) (by omega) hp1).2]
      simp

end CSD.Hash
