import CSD.Model.RG

namespace CSD.RG

theorem bitsOf_length (w : Nat) : (bitsOf w).length = 32 := by simp [bitsOf]

theorem allBits_length (words : List Nat) : (allBits words).length = 32 * words.length := by
  induction words with
  | nil => rfl
  | cons w ws ih => simp [allBits, List.flatMap_cons, bitsOf_length] at ih ⊢; omega

theorem allBits_take (words : List Nat) (k : Nat) :
    (allBits words).take (32 * k) = allBits (words.take k) := by
  induction words generalizing k with
  | nil => simp [allBits]
  | cons w ws ih =>
    cases k with
    | zero => simp [allBits]
    | succ k =>
      simp only [allBits, List.flatMap_cons, List.take_succ_cons] at ih ⊢
      have : 32 * (k + 1) = (bitsOf w).length + 32 * k := by rw [bitsOf_length]; omega
      rw [this, List.take_length_add_append, ih]

theorem sum_popcount (words : List Nat) : (words.map popcount).sum = (allBits words).count true := by
  induction words with
  | nil => rfl
  | cons w ws ih => simp [allBits, List.flatMap_cons, List.count_append, popcount] at ih ⊢; omega

/-- `Rs[j]` is the number of ones before the super-block `j`. -/
theorem Rs_eq (words : List Nat) (factor j : Nat) : Rs words factor j = ones words (32 * (j * factor)) := by
  unfold Rs ones
  rw [sum_popcount, allBits_take]

theorem testBit_mask (w r k : Nat) : (w &&& (2 ^ r - 1)).testBit k = (w.testBit k && decide (k < r)) := by
  rw [Nat.testBit_and, Nat.testBit_two_pow_sub_one]

theorem count_map_range_and (w r : Nat) (hr : r ≤ 32) :
    ((List.range 32).map fun k => (w.testBit k && decide (k < r))).count true
      = (((List.range 32).map w.testBit).take r).count true := by
  -- split the range at r
  have hsplit : List.range 32 = List.range r ++ (List.range' r (32 - r)) := by
    rw [List.range_eq_range', List.range_eq_range']
    have : 32 = r + (32 - r) := by omega
    conv => lhs; rw [this]
    rw [← List.range'_append_1]
    simp
  rw [hsplit, List.map_append, List.map_append, List.count_append, List.take_append_of_le_length (by simp)]
  have h1 : ((List.range r).map fun k => (w.testBit k && decide (k < r))) = (List.range r).map w.testBit := by
    apply List.map_congr_left; intro k hk; simp [List.mem_range.mp hk]
  have h2 : ((List.range' r (32 - r)).map fun k => (w.testBit k && decide (k < r))).count true = 0 := by
    rw [List.count_eq_zero]
    intro hm
    simp only [List.mem_map, List.mem_range'_1, Bool.and_eq_true, decide_eq_true_eq] at hm
    obtain ⟨k, hk, _, hk2⟩ := hm
    omega
  rw [h1, h2]
  have : ((List.range r).map w.testBit).take r = (List.range r).map w.testBit := by
    apply List.take_of_length_le; simp
  rw [this]; simp

/-- The masked popcount counts the ones among the low `r` bits of the word. -/
theorem popcount_mask (w r : Nat) (hr : r < 32) :
    popcount (w &&& (2 ^ r - 1)) = ((bitsOf w).take r).count true := by
  unfold popcount bitsOf
  have : (List.range 32).map (w &&& (2 ^ r - 1)).testBit
      = (List.range 32).map fun k => (w.testBit k && decide (k < r)) := by
    apply List.map_congr_left; intro k _; exact testBit_mask w r k
  rw [this, count_map_range_and w r (by omega)]

/-- **rank1 is exact**: for every bit vector, every sampling factor ≥ 1 and every
position inside the vector, `rank1(i)` is the number of ones in positions `0..i`. -/
theorem rank1_eq_ones (words : List Nat) (factor i : Nat) (hf : 0 < factor) (hi : (i + 1) / 32 < words.length) :
    rank1 words factor i = ones words (i + 1) := by
  unfold rank1
  simp only [W]
  generalize hi' : i + 1 = m at hi ⊢
  -- positions: super-block start p = 32*(sb*factor), word index q = m/32, offset r = m%32
  have hsb : m / (32 * factor) * factor ≤ m / 32 := by
    rw [← Nat.div_div_eq_div_mul]
    exact Nat.div_mul_le_self _ _
  generalize hp : m / (32 * factor) * factor = p at hsb ⊢
  generalize hq : m / 32 = q at hsb hi ⊢
  have hr : m % 32 < 32 := Nat.mod_lt _ (by decide)
  have hm : m = 32 * q + m % 32 := by rw [← hq]; exact (Nat.div_add_mod m 32).symm
  rw [Rs_eq, hp]
  -- middle words
  have hmid : (((words.drop p).take (q - p)).map popcount).sum = ones words (32 * q) - ones words (32 * p) := by
    rw [sum_popcount]
    unfold ones
    rw [allBits_take, allBits_take]
    have : words.take q = words.take p ++ (words.drop p).take (q - p) := by
      have : q = p + (q - p) := by omega
      conv => lhs; rw [this]
      rw [List.take_add]
    rw [this]
    simp [allBits, List.flatMap_append, List.count_append]
  -- last word
  have hlast : popcount (words.getD q 0 &&& (2 ^ (m % 32) - 1)) = ones words m - ones words (32 * q) := by
    rw [popcount_mask _ _ hr]
    unfold ones
    have hw : words.getD q 0 = words[q] := by simp [List.getD_eq_getElem?_getD, List.getElem?_eq_getElem hi]
    have hsplit : allBits words = allBits (words.take q) ++ (bitsOf words[q] ++ allBits (words.drop (q + 1))) := by
      have h1 : allBits words = allBits (words.take q) ++ allBits (words.drop q) := by
        unfold allBits; rw [← List.flatMap_append, List.take_append_drop]
      rw [h1, List.drop_eq_getElem_cons hi]
      simp only [allBits, List.flatMap_cons]
    have hlen : (allBits (words.take q)).length = 32 * q := by
      rw [allBits_length, List.length_take]; congr 1; omega
    rw [hw]
    have t1 : (allBits words).take (32 * q) = allBits (words.take q) := allBits_take words q
    have t2 : (allBits words).take m = allBits (words.take q) ++ (bitsOf words[q]).take (m % 32) := by
      rw [hsplit]
      conv => lhs; rw [hm, ← hlen, List.take_length_add_append]
      rw [List.take_append_of_le_length (by rw [bitsOf_length]; omega)]
    rw [t1, t2, List.count_append]
    omega
  have hmono1 : ones words (32 * p) ≤ ones words (32 * q) := by
    unfold ones
    rw [allBits_take, allBits_take]
    have : words.take q = words.take p ++ (words.drop p).take (q - p) := by
      have : q = p + (q - p) := by omega
      conv => lhs; rw [this]
      rw [List.take_add]
    rw [this]; simp [allBits, List.flatMap_append, List.count_append]
  have hmono2 : ones words (32 * q) ≤ ones words m := by
    unfold ones
    have : (allBits words).take (32 * q) = ((allBits words).take m).take (32 * q) := by
      rw [List.take_take]; congr 1; omega
    rw [this]
    exact List.Sublist.count_le true (List.take_sublist _ _)
  rw [hmid, hlast]
  omega

end CSD.RG
