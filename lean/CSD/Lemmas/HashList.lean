import CSD.Lemmas.HashNum

/-! List facts used by the hash-table proofs. -/
namespace CSD.Hash

/-- `findSome?` over `range m` returns the value at the first index where `f` is `some`. -/
theorem findSome?_range_first {α : Type} (f : Nat → Option α) (m i : Nat) (a : α) (hi : i < m)
    (hnone : ∀ j, j < i → f j = none) (hsome : f i = some a) :
    (List.range m).findSome? f = some a := by
  induction m generalizing i with
  | zero => omega
  | succ m ih =>
    rw [List.range_succ, List.findSome?_append]
    by_cases him : i < m
    · rw [ih i him hnone hsome]; rfl
    · have : i = m := by omega
      subst this
      have : (List.range i).findSome? f = none := by
        rw [List.findSome?_eq_none_iff]
        intro x hx; exact hnone x (List.mem_range.mp hx)
      rw [this]; simp [hsome]

theorem findSome?_range_none {α : Type} (f : Nat → Option α) (m : Nat) (h : ∀ j, j < m → f j = none) :
    (List.range m).findSome? f = none := by
  rw [List.findSome?_eq_none_iff]
  intro x hx; exact h x (List.mem_range.mp hx)

/-- If `findSome?` over a range is `none`, every index gave `none`. -/
theorem range_findSome?_none {α : Type} (f : Nat → Option α) (m : Nat)
    (h : (List.range m).findSome? f = none) : ∀ j, j < m → f j = none := by
  intro j hj
  rw [List.findSome?_eq_none_iff] at h
  exact h j (List.mem_range.mpr hj)

/-- The first index at which `f` is `some`, when there is one. -/
theorem exists_first {α : Type} (f : Nat → Option α) (m : Nat) (h : ∃ j, j < m ∧ (f j).isSome) :
    ∃ i, i < m ∧ (f i).isSome ∧ ∀ j, j < i → f j = none := by
  induction m with
  | zero => obtain ⟨j, hj, _⟩ := h; omega
  | succ m ih =>
    by_cases hex : ∃ j, j < m ∧ (f j).isSome
    · obtain ⟨i, hi, hs, hn⟩ := ih hex
      exact ⟨i, by omega, hs, hn⟩
    · obtain ⟨j, hj, hjs⟩ := h
      have hjm : j = m := by
        rcases Nat.lt_or_ge j m with h' | h'
        · exact absurd ⟨j, h', hjs⟩ hex
        · omega
      subst hjm
      refine ⟨j, by omega, hjs, ?_⟩
      intro k hk
      cases hfk : f k with
      | none => rfl
      | some a => exact absurd ⟨k, hk, by simp [hfk]⟩ hex

/-- Counting: a list of `m` pairwise distinct numbers below `m` contains every number below `m`. -/
theorem count_sum_eq_length (l : List Nat) (m : Nat) (hlt : ∀ x ∈ l, x < m) :
    ((List.range m).map fun s => l.count s).sum = l.length := by
  induction l with
  | nil =>
    simp only [List.count_nil, List.length_nil]
    induction m with
    | zero => rfl
    | succ k ihk => rw [List.range_succ, List.map_append, List.sum_append, ihk (by simp)]; rfl
  | cons x l ih =>
    have hx : x < m := hlt x (by simp)
    have ih' := ih (fun y hy => hlt y (by simp [hy]))
    have hstep : ∀ (k : Nat), x < k →
        ((List.range k).map fun s => (x :: l).count s).sum = ((List.range k).map fun s => l.count s).sum + 1 := by
      intro k
      induction k with
      | zero => intro h; omega
      | succ k ihk =>
        intro hk
        rw [List.range_succ, List.map_append, List.map_append, List.sum_append, List.sum_append]
        simp only [List.map_cons, List.map_nil, List.sum_cons, List.sum_nil, Nat.add_zero, List.count_cons]
        by_cases hxk : x = k
        · subst hxk
          have : ((List.range x).map fun s => (x :: l).count s).sum = ((List.range x).map fun s => l.count s).sum := by
            congr 1
            apply List.map_congr_left
            intro s hs
            have : s ≠ x := by have := List.mem_range.mp hs; omega
            simp [List.count_cons, Ne.symm this]
          simp only [List.count_cons] at this
          rw [this]; simp; omega
        · have hlt' : x < k := by omega
          have := ihk hlt'
          simp only [List.count_cons] at this
          rw [this]
          have : (x == k) = false := by simp [hxk]
          simp [this]; omega
    rw [hstep m hx, ih']; simp

theorem all_one_of_sum (f : Nat → Nat) : ∀ (m : Nat), (∀ s, s < m → f s ≤ 1) →
    ((List.range m).map f).sum = m → ∀ s, s < m → f s = 1 := by
  intro m
  induction m with
  | zero => intro _ _ s hs; omega
  | succ m ih =>
    intro hle hsum s hs
    rw [List.range_succ, List.map_append, List.sum_append] at hsum
    simp only [List.map_cons, List.map_nil, List.sum_cons, List.sum_nil, Nat.add_zero] at hsum
    have hbound : ∀ k, k ≤ m → ((List.range k).map f).sum ≤ k := by
      intro k
      induction k with
      | zero => intro _; simp
      | succ k ihk =>
        intro hk
        rw [List.range_succ, List.map_append, List.sum_append]
        simp only [List.map_cons, List.map_nil, List.sum_cons, List.sum_nil, Nat.add_zero]
        have h1 := ihk (by omega)
        have h2 := hle k (by omega)
        omega
    have hbound := hbound m (Nat.le_refl m)
    have hm := hle m (by omega)
    by_cases hsm : s = m
    · subst hsm; omega
    · exact ih (fun t ht => hle t (by omega)) (by omega) s (by omega)

theorem pigeonhole (l : List Nat) (m : Nat) (hlen : l.length = m) (hlt : ∀ x ∈ l, x < m) (hnd : l.Nodup) :
    ∀ s, s < m → s ∈ l := by
  intro s hs
  have hsum := count_sum_eq_length l m hlt
  rw [hlen] at hsum
  have hle : ∀ t, t < m → l.count t ≤ 1 := fun t _ => List.nodup_iff_count.mp hnd t
  have := all_one_of_sum (fun t => l.count t) m hle hsum s hs
  exact List.count_pos_iff.mp (by omega)

end CSD.Hash
