/-
  FM-index, part 2: the backward search of `SSA::locate_id` / `locateP` / `locate`
  keeps `sp = #{rows below P}` and `ep + 1 = sp + #{rows with prefix P}` for the part
  `P` of the pattern consumed so far, for every suffix array `L` of the text.
-/
import CSD.Lemmas.FM1

namespace CSD.FM

/-! ### The two predicates -/

/-- The suffix is below the pattern. -/
def ltP (P : List Sym) (s : List Sym) : Bool := decide (s < P)

/-- The pattern is a prefix of the suffix. -/
def preP (P : List Sym) (s : List Sym) : Bool := P.isPrefixOf s

/-- Below the pattern or starting with it. -/
def hiP (P : List Sym) (s : List Sym) : Bool := ltP P s || preP P s

theorem D_ltP (c : Sym) (P s : List Sym) : D c (ltP P) s = ltP (c :: P) s := by
  cases s with
  | nil => simp [D, ltP]
  | cons x t =>
    simp only [D, ltP, List.cons_lt_cons_iff, List.not_lt_nil, and_false, or_false,
      Bool.and_eq_true, beq_iff_eq, decide_eq_true_eq]
    by_cases h1 : x < c <;> by_cases h2 : x = c <;> by_cases h3 : t < P <;> simp [h1, h2, h3]

theorem D_hiP (c : Sym) (P s : List Sym) : D c (hiP P) s = hiP (c :: P) s := by
  cases s with
  | nil => simp [D, hiP, ltP, preP, List.isPrefixOf]
  | cons x t =>
    rw [Bool.eq_iff_iff]
    simp only [D, hiP, ltP, preP, List.isPrefixOf, List.cons_lt_cons_iff, List.not_lt_nil, and_false, or_false,
      Bool.or_eq_true, Bool.and_eq_true, beq_iff_eq, decide_eq_true_eq]
    constructor
    · rintro (h | ⟨rfl, h | h⟩)
      · exact Or.inl (Or.inl h)
      · exact Or.inl (Or.inr ⟨rfl, h⟩)
      · exact Or.inr ⟨rfl, h⟩
    · rintro ((h | ⟨rfl, h⟩) | ⟨rfl, h⟩)
      · exact Or.inl h
      · exact Or.inr ⟨rfl, Or.inl h⟩
      · exact Or.inr ⟨rfl, Or.inr h⟩

theorem lt_trans' {a b c : List Sym} (h1 : a < b) (h2 : b < c) : a < c := List.lt_trans h1 h2

theorem downClosed_ltP (P : List Sym) : DownClosed (ltP P) := by
  intro a b hab hb
  simp only [ltP, decide_eq_true_eq] at hb ⊢
  exact lt_trans' hab hb

/-- Below `P ++ y` means below `P` or starting with `P`. -/
theorem lt_append_cases : ∀ (P a y : List Sym), a < P ++ y → a < P ∨ P.isPrefixOf a = true
  | [], _, _, _ => Or.inr (by simp [List.isPrefixOf])
  | p :: P, [], _, _ => Or.inl (List.nil_lt_cons _ _)
  | p :: P, x :: a, y, h => by
    simp only [List.cons_append, List.cons_lt_cons_iff] at h
    rcases h with h | ⟨rfl, h⟩
    · exact Or.inl (List.cons_lt_cons_iff.mpr (Or.inl h))
    · rcases lt_append_cases P a y h with h' | h'
      · exact Or.inl (List.cons_lt_cons_iff.mpr (Or.inr ⟨rfl, h'⟩))
      · exact Or.inr (by simp [List.isPrefixOf, h'])

theorem isPrefixOf_iff {P s : List Sym} : P.isPrefixOf s = true ↔ ∃ y, s = P ++ y := by
  rw [List.isPrefixOf_iff_prefix]
  constructor
  · rintro ⟨y, rfl⟩; exact ⟨y, rfl⟩
  · rintro ⟨y, rfl⟩; exact ⟨y, rfl⟩

theorem downClosed_hiP (P : List Sym) : DownClosed (hiP P) := by
  intro a b hab hb
  simp only [hiP, ltP, preP, Bool.or_eq_true, decide_eq_true_eq] at hb ⊢
  rcases hb with hb | hb
  · exact Or.inl (lt_trans' hab hb)
  · obtain ⟨y, rfl⟩ := isPrefixOf_iff.mp hb
    exact lt_append_cases P a y hab

/-- A suffix starting with the pattern is not below it. -/
theorem not_lt_of_prefix : ∀ (P y : List Sym), ¬ (P ++ y < P)
  | [], y => List.not_lt_nil _
  | p :: P, y => by
    simp only [List.cons_append, List.cons_lt_cons_iff, Nat.lt_irrefl, true_and, false_or]
    exact not_lt_of_prefix P y

theorem cntq_hiP (L : List Row) (P : List Sym) : cntq L (hiP P) = cntq L (ltP P) + cntq L (preP P) := by
  unfold cntq
  have := countP_or_disjoint (fun r : Row => ltP P r.2) (fun r : Row => preP P r.2) (by
    rintro ⟨p, s⟩ ⟨h1, h2⟩
    simp only [ltP, decide_eq_true_eq, preP] at h1 h2
    obtain ⟨y, rfl⟩ := isPrefixOf_iff.mp h2
    exact not_lt_of_prefix P y h1) L
  rw [← this]
  rfl

theorem cntq_congr {L : List Row} {q q' : List Sym → Bool} (h : ∀ s, q s = q' s) : cntq L q = cntq L q' := by
  unfold cntq
  apply List.countP_congr
  intro r _
  simp [h]

/-- The LF step for the lower bound. -/
theorem step_lo {T : List Sym} {L : List Row} (hSA : IsSA T L) {c : Sym} (hc : c ≠ 0) (P : List Sym) :
    cntq L (ltP (c :: P)) = cntq L (ltP [c]) + cnt (L.map Row.bwt) c (cntq L (ltP P)) := by
  rw [← cntq_congr (D_ltP c P)]
  exact step hSA hc (downClosed_ltP P)

/-- The LF step for the upper bound. -/
theorem step_hi {T : List Sym} {L : List Row} (hSA : IsSA T L) {c : Sym} (hc : c ≠ 0) (P : List Sym) :
    cntq L (hiP (c :: P)) = cntq L (ltP [c]) + cnt (L.map Row.bwt) c (cntq L (hiP P)) := by
  rw [← cntq_congr (D_hiP c P)]
  exact step hSA hc (downClosed_hiP P)

/-! ### `occ` -/

theorem countP_rowsFrom_lt (c : Sym) : ∀ (T : List Sym) (p : Option Sym),
    (rowsFrom p T).countP (fun r => ltP [c] r.2) = T.countP (· < c) + 1
  | [], p => by simp [rowsFrom, ltP]
  | x :: T, p => by
    have ih := countP_rowsFrom_lt c T (some x)
    simp only [rowsFrom, List.countP_cons, ih]
    by_cases h : x < c <;> simp [ltP, List.cons_lt_cons_iff, h] <;> omega

/-- `occ[c]` (for `c ≥ 1`): the rows below `[c]`. -/
theorem cntq_ltP_single {T : List Sym} {L : List Row} (hSA : IsSA T L) (c : Sym) :
    cntq L (ltP [c]) = occOf T c := by
  unfold cntq occOf
  rw [hSA.1.countP_eq]
  exact countP_rowsFrom_lt c T none

/-- `hiP [c]` = `ltP [c + 1]`. -/
theorem hiP_single (c : Sym) (s : List Sym) : hiP [c] s = ltP [c + 1] s := by
  cases s with
  | nil => simp [hiP, ltP, preP, List.isPrefixOf]
  | cons x t =>
    rw [Bool.eq_iff_iff]
    simp only [hiP, ltP, preP, List.isPrefixOf, List.cons_lt_cons_iff, List.not_lt_nil, and_false, or_false,
      Bool.or_eq_true, Bool.and_eq_true, beq_iff_eq, decide_eq_true_eq, and_true]
    rw [Nat.lt_succ_iff, Nat.le_iff_lt_or_eq, eq_comm (a := c)]

/-! ### Occurrences survive dropping the front of the pattern -/

theorem mem_rowsFrom_drop : ∀ (T : List Sym) (p : Option Sym) (r : Row) (k : Nat),
    r ∈ rowsFrom p T → ∃ r' ∈ rowsFrom p T, r'.2 = r.2.drop k
  | T, p, r, 0, h => ⟨r, h, by simp⟩
  | [], p, r, k + 1, h => by
    simp only [rowsFrom, List.mem_singleton] at h
    subst h
    exact ⟨(p, []), by simp [rowsFrom], by simp⟩
  | x :: T, p, r, k + 1, h => by
    simp only [rowsFrom, List.mem_cons] at h
    rcases h with rfl | h
    · -- the whole text: dropping k+1 symbols is dropping k from the tail
      have hmem : (some x, T) ∈ rowsFrom (some x) T := by cases T <;> simp [rowsFrom]
      obtain ⟨r', hr', he⟩ := mem_rowsFrom_drop T (some x) (some x, T) k hmem
      exact ⟨r', List.mem_cons_of_mem _ hr', by simpa using he⟩
    · obtain ⟨r', hr', he⟩ := mem_rowsFrom_drop T (some x) r (k + 1) h
      exact ⟨r', List.mem_cons_of_mem _ hr', he⟩

theorem no_occ_of_suffix {T : List Sym} {L : List Row} (hSA : IsSA T L) (X P : List Sym)
    (h : cntq L (preP P) = 0) : cntq L (preP (X ++ P)) = 0 := by
  unfold cntq at h ⊢
  rw [List.countP_eq_zero] at h ⊢
  intro r hr hpre
  have hr' : r ∈ rows T := hSA.1.mem_iff.mp hr
  obtain ⟨r', hr'', he⟩ := mem_rowsFrom_drop T none r X.length hr'
  have : r' ∈ L := hSA.1.mem_iff.mpr hr''
  apply h r' this
  simp only [preP] at hpre ⊢
  obtain ⟨y, hy⟩ := isPrefixOf_iff.mp hpre
  rw [he, hy, List.append_assoc, List.drop_left]
  exact isPrefixOf_iff.mpr ⟨y, rfl⟩

/-- A symbol other than 0 that does not occur in the BWT does not occur in the text. -/
theorem mem_bwt_of_mem_rows (c : Sym) : ∀ (T : List Sym) (p : Option Sym) (x : Sym) (t : List Sym),
    (p', x :: t) ∈ rowsFrom p T → x = c → ∃ r ∈ rowsFrom p T, r.1 = some c
  | [], p, x, t, h, _ => by simp [rowsFrom] at h
  | y :: T, p, x, t, h, hx => by
    simp only [rowsFrom, List.mem_cons] at h
    rcases h with h | h
    · -- the row of the whole text starts with y = c: the next row is preceded by it
      have : y = c := by
        have := congrArg (fun r : Row => r.2) h
        simp at this
        rw [← this.1]; exact hx
      subst this
      refine ⟨(some y, T), ?_, rfl⟩
      apply List.mem_cons_of_mem
      cases T <;> simp [rowsFrom]
    · obtain ⟨r, hr, he⟩ := mem_bwt_of_mem_rows c T (some y) x t h hx
      exact ⟨r, List.mem_cons_of_mem _ hr, he⟩

theorem no_occ_of_not_mem_bwt {T : List Sym} {L : List Row} (hSA : IsSA T L) {c : Sym}
    (hnot : c ∉ L.map Row.bwt) (hc : c ≠ 0) (P : List Sym) : cntq L (preP (c :: P)) = 0 := by
  unfold cntq
  rw [List.countP_eq_zero]
  intro r hr hpre
  apply hnot
  simp only [preP] at hpre
  obtain ⟨y, hy⟩ := isPrefixOf_iff.mp hpre
  have hr' : r ∈ rows T := hSA.1.mem_iff.mp hr
  rcases r with ⟨p', s⟩
  simp only at hy
  subst hy
  obtain ⟨r2, hr2, he⟩ := mem_bwt_of_mem_rows c T none c (P ++ y) hr' rfl
  have : r2 ∈ L := hSA.1.mem_iff.mpr hr2
  refine List.mem_map.mpr ⟨r2, this, ?_⟩
  simp [Row.bwt, he]

end CSD.FM
