/-
  FM-index, part 7: `StringDictionaryFMINDEX::locatePrefix` returns exactly the ID
  range of the members that start with the pattern.
-/
import CSD.Lemmas.FM6

namespace CSD.FM
open CSD.PFC

/-! ### Comparisons against `\1 p` -/

/-- A separator-terminated string is below `p` iff the string itself is. -/
theorem sep_lt_pre_iff : ∀ (a p R : List Sym), Ge2 a → Ge2 p → (a ++ 1 :: R < p ↔ a < p)
  | [], [], R, _, _ => by simp
  | [], y :: p, R, _, hp => by
    have := hp.head
    simp only [List.nil_append, List.cons_lt_cons_iff, List.nil_lt_cons, iff_true]
    left; omega
  | x :: a, [], R, _, _ => by simp
  | x :: a, y :: p, R, ha, hp => by
    simp only [List.cons_append, List.cons_lt_cons_iff, sep_lt_pre_iff a p R ha.tail hp.tail]

/-- An ordinary pattern is a prefix of a separator-terminated string iff it is a prefix of the string. -/
theorem sep_pre_pre_iff : ∀ (p a R : List Sym), Ge2 p → (p.isPrefixOf (a ++ 1 :: R) = p.isPrefixOf a)
  | [], a, R, _ => by simp [List.isPrefixOf]
  | y :: p, [], R, hp => by
    have := hp.head
    simp only [List.nil_append, List.isPrefixOf, Bool.and_eq_false_imp, beq_iff_eq]
    intro e; omega
  | y :: p, x :: a, R, hp => by
    simp only [List.cons_append, List.isPrefixOf, sep_pre_pre_iff p a R hp.tail]

def prePat (p : Str) : List Sym := 1 :: symsOf p

theorem kills_ltP_prePat (p : Str) : Kills (ltP (prePat p)) := by
  intro x t hx
  simp only [ltP, prePat, List.cons_lt_cons_iff, decide_eq_false_iff_not]
  omega

theorem kills_preP_prePat (p : Str) : Kills (preP (prePat p)) := by
  intro x t hx
  simp only [preP, prePat, List.isPrefixOf, Bool.and_eq_false_imp, beq_iff_eq]
  omega

theorem sepSum_ltP_pre {p : Str} (hp : Ge2 (symsOf p)) (hne : p ≠ []) : ∀ (S : List Str), ValidS S →
    sepSum (ltP (prePat p)) S = 1 + S.countP (fun s => decide (symsOf s < symsOf p))
  | [], _ => by
    have : ([1, 0] : List Sym) < prePat p := by
      unfold prePat
      rw [List.cons_lt_cons_iff]; right; refine ⟨rfl, ?_⟩
      cases h : symsOf p with
      | nil => cases p with
        | nil => exact absurd rfl hne
        | cons c t => simp [symsOf] at h
      | cons y t =>
        have := Ge2.head (by rw [← h]; exact hp)
        rw [List.cons_lt_cons_iff]; left; omega
    simp [sepSum, ltP, this, b2n]
  | s :: rest, hv => by
    have ih := sepSum_ltP_pre hp hne rest (fun t ht => hv t (List.mem_cons_of_mem _ ht))
    have hs : Ge2 (symsOf s) := hv s List.mem_cons_self
    have key : ltP (prePat p) (1 :: symsOf s ++ 1 :: body rest) = decide (symsOf s < symsOf p) := by
      simp only [ltP, prePat, List.cons_append, List.cons_lt_cons_iff, Nat.lt_irrefl, true_and, false_or,
        sep_lt_pre_iff _ _ _ hs hp]
    rw [sepSum, ih, key, List.countP_cons]
    by_cases h : symsOf s < symsOf p <;> simp [h, b2n] <;> omega

theorem sepSum_preP_pre {p : Str} (hp : Ge2 (symsOf p)) (hne : p ≠ []) : ∀ (S : List Str), ValidS S →
    sepSum (preP (prePat p)) S = S.countP (fun s => (symsOf p).isPrefixOf (symsOf s))
  | [], _ => by
    have : preP (prePat p) [1, 0] = false := by
      unfold prePat preP
      cases h : symsOf p with
      | nil => cases p with
        | nil => exact absurd rfl hne
        | cons c t => simp [symsOf] at h
      | cons y t =>
        have := Ge2.head (by rw [← h]; exact hp)
        simp only [List.isPrefixOf, beq_self_eq_true, Bool.true_and, Bool.and_eq_false_imp, beq_iff_eq]
        intro e; omega
    simp [sepSum, this, b2n]
  | s :: rest, hv => by
    have ih := sepSum_preP_pre hp hne rest (fun t ht => hv t (List.mem_cons_of_mem _ ht))
    have key : preP (prePat p) (1 :: symsOf s ++ 1 :: body rest) = (symsOf p).isPrefixOf (symsOf s) := by
      simp only [preP, prePat, List.cons_append, List.isPrefixOf, beq_self_eq_true, Bool.true_and,
        sep_pre_pre_iff _ _ _ hp]
    rw [sepSum, ih, key, List.countP_cons]
    cases h : (symsOf p).isPrefixOf (symsOf s) <;> simp [b2n] <;> omega

theorem lo_prePat {L : List Row} {S : List Str} (hSA : IsSA (mkText S) L) (hv : ValidS S) {p : Str}
    (hp : Ge2 (symsOf p)) (hne : p ≠ []) :
    lo L (prePat p) = 3 + S.countP (fun s => decide (symsOf s < symsOf p)) := by
  unfold lo
  rw [cntq_mkText hSA hv (kills_ltP_prePat p), sepSum_ltP_pre hp hne S hv]
  have h1 : ltP (prePat p) [0] = true := by simp [ltP, prePat, List.cons_lt_cons_iff]
  have h2 : ltP (prePat p) [] = true := by simp [ltP, prePat]
  simp [h1, h2, b2n]; omega

theorem occs_prePat {L : List Row} {S : List Str} (hSA : IsSA (mkText S) L) (hv : ValidS S) {p : Str}
    (hp : Ge2 (symsOf p)) (hne : p ≠ []) :
    occs L (prePat p) = S.countP (fun s => (symsOf p).isPrefixOf (symsOf s)) := by
  unfold occs
  rw [cntq_mkText hSA hv (kills_preP_prePat p), sepSum_preP_pre hp hne S hv]
  have h1 : preP (prePat p) [0] = false := by simp [preP, prePat, List.isPrefixOf]
  have h2 : preP (prePat p) [] = false := by simp [preP, prePat, List.isPrefixOf]
  simp [h1, h2, b2n]

/-! ### The specification's ID list is a range -/

theorem isPrefix_symsOf : ∀ (p s : Str), (symsOf p).isPrefixOf (symsOf s) = isPrefix p s
  | [], _ => by simp [symsOf, isPrefix, List.isPrefixOf]
  | _ :: _, [] => by simp [symsOf, isPrefix, List.isPrefixOf]
  | x :: p, y :: s => by
    have ih := isPrefix_symsOf p s
    simp only [symsOf, List.map_cons, List.isPrefixOf, isPrefix] at ih ⊢
    rw [ih]
    congr 1
    by_cases h : x = y
    · subst h; simp
    · have : x.toNat ≠ y.toNat := fun e => h (UInt8.toNat_inj.mp e)
      rw [beq_eq_false_iff_ne.mpr this, beq_eq_false_iff_ne.mpr h]

/-- In a sorted dictionary the members starting with `p` are the IDs
`k + #{s < p} … ` — `#{p prefix of s}` of them. -/
theorem prefixIds_range (p : Str) : ∀ (S : List Str) (k : Nat),
    (S.map symsOf).Pairwise (· < ·) →
    (S.zipIdx k).filterMap (fun (x : Str × Nat) => if isPrefix p x.1 then some x.2 else none)
      = List.range' (k + S.countP (fun s => decide (symsOf s < symsOf p)))
          (S.countP (fun s => (symsOf p).isPrefixOf (symsOf s)))
  | [], k, _ => by simp
  | a :: S, k, hs => by
    simp only [List.map_cons, List.pairwise_cons, List.mem_map, forall_exists_index, and_imp,
      forall_apply_eq_imp_iff₂] at hs
    obtain ⟨ha, hS⟩ := hs
    have ih := prefixIds_range p S (k + 1) hS
    simp only [List.zipIdx_cons, List.filterMap_cons, List.countP_cons]
    by_cases hpre : isPrefix p a = true
    · -- a starts with p: nothing later is below p
      have hlt0 : S.countP (fun s => decide (symsOf s < symsOf p)) = 0 := by
        rw [List.countP_eq_zero]
        intro b hb
        simp only [decide_eq_true_eq]
        intro hbp
        have h1 := ha b hb
        have : symsOf a < symsOf p := lt_trans' h1 hbp
        rw [← isPrefix_symsOf] at hpre
        obtain ⟨y, hy⟩ := isPrefixOf_iff.mp hpre
        rw [hy] at this
        exact not_lt_of_prefix _ _ this
      have hna : ¬ symsOf a < symsOf p := by
        rw [← isPrefix_symsOf] at hpre
        obtain ⟨y, hy⟩ := isPrefixOf_iff.mp hpre
        rw [hy]; exact not_lt_of_prefix _ _
      rw [hlt0] at ih
      simp only [hpre, ↓reduceIte, ih, hlt0, hna, decide_false, isPrefix_symsOf, Nat.add_zero]
      simp [List.range'_succ, Nat.add_comm]
    · have hpre' : isPrefix p a = false := by cases h : isPrefix p a <;> simp_all
      by_cases hlt : symsOf a < symsOf p
      · simp only [hpre', ih, hlt, decide_true, isPrefix_symsOf]
        simp only [Bool.false_eq_true, ↓reduceIte, Nat.add_zero]
        congr 1; omega
      · -- a is above p and does not start with it: neither does anything later
        have hnone : ∀ b ∈ S, ¬ symsOf b < symsOf p ∧ (symsOf p).isPrefixOf (symsOf b) = false := by
          intro b hb
          have h1 := ha b hb
          constructor
          · intro hbp; exact hlt (lt_trans' h1 hbp)
          · cases hh : (symsOf p).isPrefixOf (symsOf b) with
            | false => rfl
            | true =>
              obtain ⟨y, hy⟩ := isPrefixOf_iff.mp hh
              rw [hy] at h1
              rcases lt_append_cases _ _ _ h1 with h2 | h2
              · exact absurd h2 hlt
              · rw [isPrefix_symsOf] at h2; rw [h2] at hpre'; cases hpre'
        have c1 : S.countP (fun s => decide (symsOf s < symsOf p)) = 0 :=
          List.countP_eq_zero.mpr (fun b hb => by simpa using (hnone b hb).1)
        have c2 : S.countP (fun s => (symsOf p).isPrefixOf (symsOf s)) = 0 :=
          List.countP_eq_zero.mpr (fun b hb => by simp [(hnone b hb).2])
        rw [c1, c2] at ih
        simp only [hpre', ih, hlt, decide_false, isPrefix_symsOf, c1]
        simp
        intro b hb
        have := (hnone b hb).2
        rwa [isPrefix_symsOf] at this

theorem sorted_symsOf {S : List Str} (hs : SortedLt S) (hn : ∀ s ∈ S, nulFree s) : (S.map symsOf).Pairwise (· < ·) := by
  rw [List.pairwise_map]
  unfold SortedLt at hs
  have : S.Pairwise (fun a b => a ∈ S ∧ b ∈ S ∧ scmp a b < 0) := by
    rw [List.pairwise_iff_getElem] at hs ⊢
    intro i j hi hj hij
    exact ⟨List.getElem_mem hi, List.getElem_mem hj, hs i j hi hj hij⟩
  exact this.imp (fun {a b} ⟨ha, hb, h⟩ => (symsOf_lt_iff a b (hn a ha) (hn b hb)).mpr h)

/-- `StringDictionaryFMINDEX::locatePrefix`: the limits `(l, r)` of the contiguous iterator satisfy
`Spec.prefixIds S p = [l, …, r]` (and `(0, 0)`, the empty iterator, when no member starts with `p`). -/
theorem locatePrefix_spec {S : List Str} {L : List Row} {d : Dict} (hv : validDict S = true) (hd : DictOK S L d)
    (p : Str) (hp : p.all validByte = true) (hne : p ≠ []) :
    ∃ l r, d.locatePrefix p = some (l, r) ∧
      ((Spec.prefixIds S p = [] ∧ l = 0 ∧ r = 0) ∨
       (Spec.prefixIds S p ≠ [] ∧ Spec.prefixIds S p = List.range' l (r + 1 - l) ∧ 1 ≤ l ∧ l ≤ r)) := by
  have hVS := validS_of_validDict hv
  have hsorted : SortedLt S := sortedLt_of_sortedStrict S (by
    simp only [validDict, Bool.and_eq_true] at hv; exact hv.2)
  have hnf := nulFree_of_validDict hv
  have hp2 := ge2_of_validStr hp
  have hall : ∀ c ∈ prePat p, c ≠ 0 ∧ c < 256 := by
    intro c hc
    simp only [prePat, List.mem_cons] at hc
    rcases hc with rfl | hc
    · omega
    · have h1 := hp2 c hc
      have h2 := lt256_of_symsOf p c hc
      omega
  obtain ⟨res, hres, hspec⟩ := bsearch_spec hd.sa hd.built (prePat p) (by simp [prePat]) hall
  have hocc := occs_prePat hd.sa hVS hp2 hne
  have hlo := lo_prePat hd.sa hVS hp2 hne
  have hids : Spec.prefixIds S p = List.range' (1 + S.countP (fun s => decide (symsOf s < symsOf p)))
      (S.countP (fun s => (symsOf p).isPrefixOf (symsOf s))) := by
    unfold Spec.prefixIds
    exact prefixIds_range p S 1 (sorted_symsOf hsorted hnf)
  unfold Dict.locatePrefix locateP
  have hpat : (1 :: symsOf p : List Sym) = prePat p := rfl
  rw [hpat, hres]
  cases res with
  | notInAlphabet =>
    refine ⟨0, 0, rfl, Or.inl ⟨?_, rfl, rfl⟩⟩
    simp only [BSpec] at hspec
    rw [hids, ← hocc, hspec]; rfl
  | range sp ep =>
    simp only [BSpec] at hspec
    rcases hspec with ⟨h1, h2, h3⟩ | ⟨h1, h2⟩
    · have hsp : ¬ sp < 2 := by omega
      simp only [h1, ↓reduceIte, hsp]
      have hcnt : ep - sp + 1 ≠ 0 := by omega
      refine ⟨sp - 2, ep - 2, ?_, Or.inr ⟨?_, ?_, by omega, by omega⟩⟩
      · cases hh : ep - sp + 1 with
        | zero => exact absurd hh hcnt
        | succ m => rfl
      · rw [hids]
        intro e
        have := congrArg List.length e
        simp only [List.length_range', List.length_nil] at this
        omega
      · rw [hids]
        congr 1 <;> omega
    · have : ¬ sp ≤ ep := by omega
      simp only [this, ↓reduceIte]
      refine ⟨0, 0, rfl, Or.inl ⟨?_, rfl, rfl⟩⟩
      rw [hids, ← hocc, h2]; rfl

end CSD.FM
