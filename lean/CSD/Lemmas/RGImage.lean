import CSD.Model.RGImage
import CSD.Lemmas.LogSeqIO
import CSD.Lemmas.RG

/-! `BitSequenceRG::load ∘ save = id` on bytes. -/
namespace CSD.RG
open CSD.LogSeq (leBytes fromLE readLE leBytes_length fromLE_leBytes readLE_leBytes)

theorem le32s_length (l : List Nat) : (le32s l).length = 4 * l.length := by
  induction l with
  | nil => rfl
  | cons a l ih => simp only [le32s, List.flatMap_cons, List.length_append, leBytes_length] at *; rw [ih]; simp; omega

theorem words32_le32s : ∀ (l : List Nat) (rest : List UInt8), (∀ w ∈ l, w < 2 ^ 32) →
    words32 l.length (le32s l ++ rest) = l ∧ (le32s l ++ rest).drop (4 * l.length) = rest
  | [], rest, _ => by simp [words32, le32s]
  | a :: l, rest, h => by
    have ha : a < 256 ^ 4 := by have := h a (by simp); omega
    obtain ⟨ih1, ih2⟩ := words32_le32s l rest (fun w hw => h w (by simp [hw]))
    have e1 : le32s (a :: l) ++ rest = leBytes a 4 ++ (le32s l ++ rest) := by simp [le32s, List.flatMap_cons]
    constructor
    · simp only [List.length_cons, words32]
      rw [e1, List.take_append_of_le_length (by simp [leBytes_length]), List.take_of_length_le (by simp [leBytes_length]),
        fromLE_leBytes 4 a ha, List.drop_append_of_le_length (by simp [leBytes_length]),
        List.drop_of_length_le (by simp [leBytes_length]), List.nil_append, ih1]
    · rw [e1]
      have hl : (leBytes a 4).length = 4 := leBytes_length a 4
      have : 4 * (a :: l).length = (leBytes a 4).length + 4 * l.length := by rw [hl]; simp; omega
      rw [this, List.drop_append, List.drop_of_length_le (by omega), List.nil_append, Nat.add_sub_cancel_left, ih2]

/-- A saved object: sizes fit their fields and the arrays have the lengths `load` recomputes. -/
structure WF (d : Img) : Prop where
  n_lt : d.n < 2 ^ 64
  f_pos : 0 < d.factor
  f_lt : d.factor < 2 ^ 64
  data_len : d.data.length = d.n / W + 1
  rs_len : d.Rs.length = d.n / (W * d.factor) + 1
  data_w : ∀ w ∈ d.data, w < 2 ^ 32
  rs_w : ∀ w ∈ d.Rs, w < 2 ^ 32

theorem integers_eq (n : Nat) : (n + 1) / W + (if (n + 1) % W ≠ 0 then 1 else 0) = n / W + 1 := by
  unfold W
  split <;> omega

/-- **`load (save d ++ rest) = (d, rest)`**: the image of a bit sequence is self-delimiting and reloads to
the same object — the same words and the same counters, hence the same answer to every query. -/
theorem loadImg_saveImg (d : Img) (wf : WF d) (rest : List UInt8) : loadImg (saveImg d ++ rest) = some (d, rest) := by
  unfold loadImg saveImg
  simp only [List.append_assoc]
  rw [readLE_leBytes 4 HDR (by decide)]
  simp only [ne_eq, not_true_eq_false, ↓reduceIte]
  rw [readLE_leBytes 8 d.n (by have := wf.n_lt; omega)]
  simp only
  rw [readLE_leBytes 8 d.factor (by have := wf.f_lt; omega)]
  simp only
  rw [if_neg (by have := wf.f_pos; omega)]
  rw [integers_eq, ← wf.data_len]
  have hlen1 : ¬ (le32s d.data ++ (le32s d.Rs ++ rest)).length < 4 * d.data.length := by
    simp [le32s_length]
  rw [if_neg hlen1]
  obtain ⟨h1, h2⟩ := words32_le32s d.data (le32s d.Rs ++ rest) wf.data_w
  rw [h1, h2, ← wf.rs_len]
  have hlen2 : ¬ (le32s d.Rs ++ rest).length < 4 * d.Rs.length := by simp [le32s_length]
  rw [if_neg hlen2]
  obtain ⟨h3, h4⟩ := words32_le32s d.Rs rest wf.rs_w
  rw [h3, h4]

theorem Rs_le (words : List Nat) (factor j : Nat) : Rs words factor j ≤ 32 * words.length := by
  rw [Rs_eq]
  unfold ones
  have h1 := List.count_le_length (a := true) (l := (allBits words).take (32 * (j * factor)))
  have h2 : ((allBits words).take (32 * (j * factor))).length ≤ (allBits words).length := by
    rw [List.length_take]; omega
  rw [allBits_length] at h2
  omega

/-- **What the constructor builds can be saved and reloaded**: for every bit vector of fewer than
`2^32 − 64` bits in 32-bit words and every sampling factor ≥ 1. -/
theorem build_wf (words : List Nat) (n factor : Nat) (hn : n + 64 < 2 ^ 32) (hf : 0 < factor) (hf2 : factor < 2 ^ 64)
    (hw : ∀ w ∈ words, w < 2 ^ 32) : WF (build words n factor) where
  n_lt := by simp [build]; omega
  f_pos := hf
  f_lt := hf2
  data_len := by simp [build, List.length_take]; omega
  rs_len := by simp [build]
  data_w := by
    intro w hw'
    simp only [build, List.mem_append, List.mem_replicate] at hw'
    rcases hw' with h | ⟨_, h⟩
    · exact hw w (List.mem_of_mem_take h)
    · subst h; decide
  rs_w := by
    intro w hw'
    simp only [build, List.mem_map, List.mem_range] at hw'
    obtain ⟨j, _, rfl⟩ := hw'
    have h1 := Rs_le (words.take (n / W + 1)) factor j
    have hl : (words.take (n / W + 1)).length ≤ n / W + 1 := by simp [List.length_take]; omega
    unfold W at hl h1 ⊢
    generalize (List.take (n / 32 + 1) words).length = L at *
    generalize Rs (List.take (n / 32 + 1) words) factor j = R at *
    omega

theorem build_reloads (words : List Nat) (n factor : Nat) (hn : n + 64 < 2 ^ 32) (hf : 0 < factor) (hf2 : factor < 2 ^ 64)
    (hw : ∀ w ∈ words, w < 2 ^ 32) (rest : List UInt8) :
    loadImg (saveImg (build words n factor) ++ rest) = some (build words n factor, rest) :=
  loadImg_saveImg _ (build_wf words n factor hn hf hf2 hw) rest

end CSD.RG
