import CSD.Model.StatCoder
import CSD.Model.ChunkDec

/-! `encodeSymbol` appends exactly the bits of the codeword to the bit stream it builds. -/
namespace CSD.StatCoder
open CSD.ChunkDec (byteBits)

/-- The `bits` bits of a right-aligned codeword, most significant first. -/
def cwb (cw bits : Nat) : List Bool := (List.range bits).map fun i => cw.testBit (bits - 1 - i)

theorem cwb_length (cw bits : Nat) : (cwb cw bits).length = bits := by simp [cwb]

/-- The bit stream written so far: the completed bytes and the first `off` bits of the byte under construction. -/
def written (done : List Nat) (cur off : Nat) : List Bool := done.flatMap byteBits ++ (byteBits cur).take off

/-- The byte under construction holds nothing behind the offset. -/
def Clean (cur off : Nat) : Prop := ∀ j, off ≤ j → j < 8 → cur.testBit (7 - j) = false

theorem byteBits_get (b j : Nat) (hj : j < 8) : (byteBits b)[j]? = some (b.testBit (7 - j)) := by
  simp [byteBits, hj]

theorem byteBits_length' (b : Nat) : (byteBits b).length = 8 := by simp [byteBits]

/-- Bit `7 - j` of the piece of the codeword that goes into the current byte. -/
theorem code_testBit (cw bits processed off j : Nat) (hb : bits ≤ 32) (hp : processed < bits) (ho : off < 8) (hj : j < 8) :
    (code cw bits processed off).testBit (7 - j) =
      (decide (off ≤ j) && (decide (processed + (j - off) < bits) && cw.testBit (bits - 1 - (processed + (j - off))))) := by
  unfold code
  rw [Nat.testBit_mod_two_pow, Nat.testBit_shiftRight, Nat.testBit_mod_two_pow, Nat.testBit_shiftLeft]
  have h8 : decide (7 - j < 8) = true := by simp; omega
  rw [h8, Bool.true_and]
  by_cases h1 : off ≤ j
  · have e1 : decide (24 + off + (7 - j) < 32) = true := by simp; omega
    rw [e1, Bool.true_and]
    simp only [h1, decide_true, Bool.true_and]
    by_cases h2 : processed + (j - off) < bits
    · have e2 : decide (24 + off + (7 - j) ≥ 32 - bits + processed) = true := by simp; omega
      rw [e2, Bool.true_and]
      simp only [h2, decide_true, Bool.true_and]
      congr 1; omega
    · have e2 : decide (24 + off + (7 - j) ≥ 32 - bits + processed) = false := by simp; omega
      rw [e2]
      simp [h2]
  · have e1 : decide (24 + off + (7 - j) < 32) = false := by simp; omega
    rw [e1]
    simp [h1]

/-- The bits of the byte obtained by OR-ing the next piece of the codeword into a clean byte. -/
theorem byteBits_or_code (cw bits processed off cur : Nat) (hb : bits ≤ 32) (hp : processed < bits) (ho : off < 8)
    (hc : Clean cur off) :
    byteBits (cur ||| code cw bits processed off) =
      (byteBits cur).take off ++ ((cwb cw bits).drop processed).take (8 - off) ++
        List.replicate (8 - off - (bits - processed)) false := by
  apply List.ext_getElem?
  intro j
  by_cases hj : j < 8
  · rw [byteBits_get _ _ hj, Nat.testBit_or, code_testBit cw bits processed off j hb hp ho hj]
    by_cases h1 : j < off
    · -- inside the bits already written
      rw [List.append_assoc, List.getElem?_append_left (by simp [byteBits_length']; omega)]
      rw [List.getElem?_take_of_lt h1, byteBits_get _ _ hj]
      have : decide (off ≤ j) = false := by simp; omega
      simp [this]
    · have hoj : off ≤ j := by omega
      rw [hc j hoj hj, Bool.false_or]
      simp only [hoj, decide_true, Bool.true_and]
      rw [List.append_assoc, List.getElem?_append_right (by simp [byteBits_length']; omega)]
      simp only [List.length_take, byteBits_length']
      have e0 : j - min off 8 = j - off := by omega
      rw [e0]
      by_cases h2 : processed + (j - off) < bits
      · rw [List.getElem?_append_left (by simp [cwb_length]; omega)]
        rw [List.getElem?_take_of_lt (by omega), List.getElem?_drop]
        simp only [cwb]
        rw [List.getElem?_map, List.getElem?_range (by omega)]
        simp [h2]
      · rw [List.getElem?_append_right (by simp [cwb_length]; omega)]
        simp only [List.length_take, List.length_drop, cwb_length]
        rw [List.getElem?_replicate]
        have : j - off - min (8 - off) (bits - processed) < 8 - off - (bits - processed) := by omega
        simp [this, h2]
  · have : (byteBits (cur ||| code cw bits processed off))[j]? = none := by
      rw [List.getElem?_eq_none]; simp [byteBits_length']; omega
    rw [this]
    symm
    rw [List.getElem?_eq_none]
    simp [byteBits_length', cwb_length]
    omega

theorem clean_zero (off : Nat) : Clean 0 off := by
  intro j _ _; simp

/-- **The loop** moves whole bytes: what is written plus what remains of the codeword stays the same. -/
theorem fill_spec (cw bits : Nat) (hb : bits ≤ 32) :
    ∀ (fuel processed off cur : Nat) (done : List Nat), processed ≤ bits → off < 8 → Clean cur off →
      (bits - processed + off) / 8 < fuel →
    ∃ p' off' cur' done', fill cw bits fuel processed off cur done = some (p', off', cur', done') ∧
      p' ≤ bits ∧ off' < 8 ∧ Clean cur' off' ∧ bits - p' < 8 - off' ∧
      written done' cur' off' ++ (cwb cw bits).drop p' = written done cur off ++ (cwb cw bits).drop processed := by
  intro fuel
  induction fuel with
  | zero => intro _ _ _ _ _ _ _ hf; omega
  | succ fuel ih =>
    intro processed off cur done hp ho hc hf
    unfold fill
    by_cases hge : bits - processed ≥ 8 - off
    · rw [if_pos hge]
      have hlt : processed < bits := by omega
      obtain ⟨p', off', cur', done', h1, h2, h3, h4, h5, h6⟩ :=
        ih (processed + (8 - off)) 0 0 (done ++ [cur ||| code cw bits processed off]) (by omega) (by omega)
          (clean_zero 0) (by omega)
      refine ⟨p', off', cur', done', h1, h2, h3, h4, h5, ?_⟩
      rw [h6]
      simp only [written, List.flatMap_append, List.flatMap_cons, List.flatMap_nil, List.append_nil, List.take_zero]
      rw [byteBits_or_code cw bits processed off cur hb hlt ho hc]
      have e : 8 - off - (bits - processed) = 0 := by omega
      rw [e]
      simp only [List.replicate_zero, List.append_nil, List.append_assoc]
      congr 2
      rw [← List.drop_drop]
      exact List.take_append_drop _ _
    · rw [if_neg hge]
      exact ⟨processed, off, cur, done, rfl, hp, ho, hc, by omega, rfl⟩

/-- **`encodeSymbol` appends the codeword**: the bit stream written afterwards is the bit stream written
before followed by the `bits` bits of the codeword; the new offset is `(off + bits) mod 8` and the byte
under construction is clean again. -/
theorem encodeSymbol_spec (cw bits cur off : Nat) (done : List Nat) (hb : bits ≤ 32) (ho : off < 8) (hc : Clean cur off) :
    ∃ bytes cur' off', encodeSymbol cw bits cur off = some (bytes, cur', off') ∧ off' < 8 ∧ Clean cur' off' ∧
      written (done ++ bytes) cur' off' = written done cur off ++ cwb cw bits := by
  unfold encodeSymbol
  obtain ⟨p', off1, cur1, done1, h1, h2, h3, h4, h5, h6⟩ := fill_spec cw bits hb 6 0 off cur [] (by omega) ho hc (by omega)
  rw [h1]
  simp only
  have hpre : ∀ (c o : Nat), written (done ++ done1) c o = done.flatMap byteBits ++ written done1 c o := by
    intro c o; simp [written, List.flatMap_append, List.append_assoc]
  have hw0 : written done cur off = done.flatMap byteBits ++ written [] cur off := by simp [written]
  simp only [List.drop_zero] at h6
  by_cases hgt : bits > p'
  · rw [if_pos hgt]
    refine ⟨done1, _, _, rfl, by omega, ?_, ?_⟩
    · -- clean behind the new offset
      intro j hj1 hj2
      rw [Nat.testBit_or, code_testBit cw bits p' off1 j hb (by omega) h3 hj2, h4 j (by omega) hj2]
      have : decide (p' + (j - off1) < bits) = false := by simp; omega
      simp [this]
    · rw [hpre, hw0, List.append_assoc, ← h6]
      congr 1
      simp only [written]
      rw [byteBits_or_code cw bits p' off1 cur1 hb (by omega) h3 h4]
      have hl : ((cwb cw bits).drop p').length = bits - p' := by simp [cwb_length]
      have e1 : ((cwb cw bits).drop p').take (8 - off1) = (cwb cw bits).drop p' := List.take_of_length_le (by omega)
      rw [e1]
      have hAB : ((byteBits cur1).take off1 ++ (cwb cw bits).drop p').length = off1 + (bits - p') := by
        simp [byteBits_length', hl]; omega
      rw [List.take_left' hAB, List.append_assoc]
  · rw [if_neg hgt]
    have hp : p' = bits := by omega
    refine ⟨done1, cur1, off1, rfl, h3, h4, ?_⟩
    rw [hpre, hw0, List.append_assoc, ← h6, hp]
    have : (cwb cw bits).drop bits = [] := List.drop_of_length_le (by simp [cwb_length])
    rw [this, List.append_nil]

theorem clean_drop (cur off : Nat) (hc : Clean cur off) : (byteBits cur).drop off = List.replicate (8 - off) false := by
  apply List.ext_getElem?
  intro j
  rw [List.getElem?_drop, List.getElem?_replicate]
  by_cases hj : j < 8 - off
  · rw [if_pos hj, byteBits_get _ _ (by omega), hc (off + j) (by omega) (by omega)]
  · rw [if_neg hj, List.getElem?_eq_none]
    simp [byteBits_length']; omega

/-- All codewords of a word, concatenated. -/
def encBits (cwOf : Nat → Nat × Nat) (w : List Nat) : List Bool := w.flatMap fun s => cwb (cwOf s).1 (cwOf s).2

/-- **`encodeString` writes the codewords one after the other**, most significant bit first, and pads the
last byte with zeros. -/
theorem encodeString_spec (cwOf : Nat → Nat × Nat) (hb : ∀ s, (cwOf s).2 ≤ 32) :
    ∀ (w : List Nat) (cur off : Nat) (done : List Nat), off < 8 → Clean cur off →
    ∃ out, encodeString cwOf w cur off done = some out ∧
      ∃ pad, out.flatMap byteBits = written done cur off ++ encBits cwOf w ++ List.replicate pad false
  | [], cur, off, done, ho, hc => by
    simp only [encodeString, encBits, List.flatMap_nil, List.append_nil]
    by_cases h0 : off > 0
    · rw [if_pos h0]
      refine ⟨_, rfl, 8 - off, ?_⟩
      simp only [written, List.flatMap_append, List.flatMap_cons, List.flatMap_nil, List.append_nil]
      rw [List.append_assoc, ← clean_drop cur off hc, List.take_append_drop]
    · rw [if_neg h0]
      have : off = 0 := by omega
      subst this
      exact ⟨_, rfl, 0, by simp [written]⟩
  | s :: w, cur, off, done, ho, hc => by
    simp only [encodeString]
    obtain ⟨bytes, cur', off', h1, h2, h3, h4⟩ := encodeSymbol_spec (cwOf s).1 (cwOf s).2 cur off done (hb s) ho hc
    rw [h1]
    simp only
    obtain ⟨out, ho1, pad, ho2⟩ := encodeString_spec cwOf hb w cur' off' (done ++ bytes) h2 h3
    refine ⟨out, ho1, pad, ?_⟩
    rw [ho2, h4]
    simp [encBits, List.flatMap_cons, List.append_assoc]

end CSD.StatCoder
