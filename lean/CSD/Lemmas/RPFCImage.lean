import CSD.Model.RPFCImage
import CSD.Lemmas.LogSeqIO

/-! `StringDictionaryRPFC::load ∘ save = id` on bytes. -/
namespace CSD.RPFCImg
open CSD.LogSeq (leBytes fromLE readLE leBytes_length fromLE_leBytes readLE_leBytes)

structure WF (d : Img) : Prop where
  el : d.elements < 2 ^ 64
  ml : d.maxlength < 2 ^ 32
  bk : d.buckets < 2 ^ 32
  bs : d.bucketsize < 2 ^ 32
  tx : d.text.length < 2 ^ 64
  blb : d.bl.numbits < 256
  bln : d.bl.numentries < 2 ^ 64
  bld : d.bl.data.length = LogSeq.numWords d.bl.numbits d.bl.numentries
  bits : d.bitsrp < 2 ^ 32
  mc : d.maxchar < 256
  tm : d.terminals < 2 ^ 64
  ru : d.rules < 2 ^ 64
  gb : d.G.numbits < 256
  gn : d.G.numentries < 2 ^ 64
  gd : d.G.data.length = LogSeq.numWords d.G.numbits d.G.numentries

/-- **`load (save d ++ rest) = (d, rest)`** for a StringDictionaryRPFC image. -/
theorem load_save (tag : Nat) (htag : tag < 2 ^ 32) (d : Img) (wf : WF d) (rest : List UInt8) :
    load tag (save tag d ++ rest) = some (d, rest) := by
  unfold load save
  simp only [List.append_assoc]
  rw [readLE_leBytes 4 tag (by omega)]
  simp only [ne_eq, not_true_eq_false, ↓reduceIte]
  rw [readLE_leBytes 8 d.elements (by have := wf.el; omega)]
  simp only
  rw [readLE_leBytes 4 d.maxlength (by have := wf.ml; omega)]
  simp only
  rw [readLE_leBytes 4 d.buckets (by have := wf.bk; omega)]
  simp only
  rw [readLE_leBytes 4 d.bucketsize (by have := wf.bs; omega)]
  simp only
  rw [readLE_leBytes 8 d.text.length (by have := wf.tx; omega)]
  simp only
  have hlen : ¬ (d.text ++ (d.bl.save ++ (leBytes d.bitsrp 4 ++ (leBytes d.maxchar 1 ++ (leBytes d.terminals 8 ++
      (leBytes d.rules 8 ++ (d.G.save ++ rest))))))).length < d.text.length := by
    simp only [List.length_append]; omega
  simp only [hlen, ↓reduceIte, List.drop_left, List.take_left]
  rw [LogSeq.load_save d.bl wf.blb wf.bln wf.bld]
  simp only
  rw [readLE_leBytes 4 d.bitsrp (by have := wf.bits; omega)]
  simp only
  rw [readLE_leBytes 1 d.maxchar (by have := wf.mc; omega)]
  simp only
  rw [readLE_leBytes 8 d.terminals (by have := wf.tm; omega)]
  simp only
  rw [readLE_leBytes 8 d.rules (by have := wf.ru; omega)]
  simp only
  rw [LogSeq.load_save d.G wf.gb wf.gn wf.gd]

theorem load_foreign (tag t : Nat) (ht : t < 2 ^ 32) (hne : t ≠ tag) (rest : List UInt8) :
    load tag (leBytes t 4 ++ rest) = none := by
  unfold load
  rw [readLE_leBytes 4 t (by omega)]
  simp [hne]

end CSD.RPFCImg
