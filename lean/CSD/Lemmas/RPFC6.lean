/-
  RPFC, part 6: `StringDictionaryRPFC::locate` refines `Spec.locate`.
-/
import CSD.Lemmas.RPFC5

namespace CSD.RPFC
open CSD.RePair CSD.PFC

/-- When the last decoded string is already above the query the loop finds nothing. -/
theorem scanLoop_gt (d : D) (q : Str) :
    ∀ (L : List Str) (decoded : Str) (i fuel scanneable : Nat) (σ : List Nat),
      StoresTail d.g d.maxchar decoded L σ → ChainOK d.maxchar decoded L → chain decoded L →
      scanneable = i + L.length → scmp decoded q > 0 →
      scanLoop d q fuel i scanneable σ decoded (lcp decoded q) = some 0
  | L, decoded, i, 0, scanneable, σ, _, _, _, _, _ => by simp [scanLoop]
  | [], decoded, i, fuel + 1, scanneable, σ, _, _, _, hsc, _ => by
    have hi : ¬ i < scanneable := by simp at hsc; omega
    simp [scanLoop, hi]
  | c :: L, decoded, i, fuel + 1, scanneable, σ, hst, hok, hch, _, hdq => by
    by_cases hi : i < scanneable
    · cases hst with
      | cons _ _ _ σ1 τ hexp hne htail =>
        obtain ⟨⟨h1, h2, h3⟩, _⟩ := hok
        simp only [scanLoop, hi, ↓reduceIte]
        rw [decodeString_spec d decoded c σ1 τ hexp hne h1 h2 h3]
        simp only
        by_cases hlt : lcp decoded c < lcp decoded q
        · simp [hlt]
        · simp only [hlt, ↓reduceIte]
          have hk : lcp decoded q ≤ lcp c q := by
            have := min_lcp_le decoded c q
            have h' : lcp decoded q ≤ lcp decoded c := by omega
            rw [Nat.min_eq_right h'] at this
            exact this
          have hs1 : scmp (c.drop (lcp decoded q)) (q.drop (lcp decoded q)) = scmp c q :=
            (scmp_drop_lcp c q _ hk).symm
          have hs2 : lcp decoded q + lcp (c.drop (lcp decoded q)) (q.drop (lcp decoded q)) = lcp c q :=
            (lcp_add_drop c q _ hk).symm
          have hcf : cmpFrom c q (lcp decoded q) = (scmp c q, lcp c q) := by
            simp only [cmpFrom, hs1, hs2]
          rw [hcf]
          simp only
          have hqd : scmp q decoded < 0 := (scmp_lt_iff_gt _ _).mpr hdq
          have hqc : scmp q c < 0 := scmp_trans_lt hqd hch.1
          have hpos : scmp c q > 0 := (scmp_lt_iff_gt _ _).mp hqc
          have h0 : ¬ scmp c q = 0 := by omega
          simp [h0, hpos]
    · simp [scanLoop, hi]

theorem chunks_length_stores {S : List Str} {d : D} (hst : Stores S d) :
    d.buckets = (S.length + d.bucketsize - 1) / d.bucketsize := by
  rw [hst.buckets, chunks_length d.bucketsize (by have := hst.b2; omega) S]

/-- **`locate` is exact** for RPFC over any grammar and streams that store the dictionary: the rank of a
member, 0 (`NORESULT`) for every other NUL-free query; no symbol is read past a bucket's stream. -/
theorem locate_stores {S : List Str} {d : D} (hst : Stores S d) (q : Str) (hne : S ≠ [])
    (hS : ∀ s ∈ S, nulFree s) (hq : nulFree q) (hsort : SortedLt S) :
    locate d q = some (Spec.locate S q) := by
  have hb := hst.b2
  have hcl := clamp_of_ge2 hb
  have hbpos : 0 < d.bucketsize := by omega
  have hb0 : d.bucketsize ≠ 0 := by omega
  have hn : 0 < S.length := List.length_pos_iff.mpr hne
  have hbk := chunks_length_stores hst
  have hm1 : 0 < (S.length + d.bucketsize - 1) / d.bucketsize :=
    (lt_buckets_iff d.bucketsize S.length 0 hbpos).mpr (by simpa using hn)
  obtain ⟨res, hres, hgood⟩ := locateBucketLoop_spec hst q hS hq hsort
    ((S.length + d.bucketsize - 1) / d.bucketsize + 1) 1 ((S.length + d.bucketsize - 1) / d.bucketsize) 0 0
    (Nat.le_refl 1)
    (Or.inr ((lt_buckets_iff d.bucketsize S.length _ hbpos).mp (by omega)))
    (by omega) (by omega)
    (fun j h1 h2 => by omega)
    (fun j hj x hx => by
      exfalso
      have : ¬ (j - 1) * d.bucketsize < S.length := by
        intro hlt
        have := (lt_buckets_iff d.bucketsize S.length (j - 1) hbpos).mpr hlt
        omega
      rw [List.getElem?_eq_none (by omega)] at hx; cases hx)
    (fun h => by omega)
  unfold locate locateBucket
  rw [hbk, hres]
  unfold GoodBucket at hgood
  cases res with
  | header k =>
    rw [hcl] at hgood
    obtain ⟨_, hk, hkq⟩ := hgood
    simp only
    rw [List.getElem?_eq_getElem hk] at hkq
    have := Spec.locate_getElem hsort _ hk
    rw [Option.some.inj hkq] at this
    rw [this]
  | candidate k =>
    rw [hcl] at hgood
    obtain ⟨hkb, hlo, hhi⟩ := hgood
    cases k with
    | zero =>
      simp only
      congr 1
      symm
      apply Spec.locate_not_mem
      intro hmem
      obtain ⟨t, ht, hte⟩ := List.mem_iff_getElem.mp hmem
      have h0 := hhi 1 (by omega) S[0] (by simp [List.getElem?_eq_getElem hn])
      rcases Nat.eq_zero_or_pos t with e | e
      · subst e; rw [hte] at h0; exact scmp_irrefl_gt q h0
      · have := hsort.getElem_lt e ht
        rw [hte] at this
        have h0' : scmp q S[0] < 0 := (scmp_lt_iff_gt _ _).mpr h0
        exact scmp_irrefl_lt q (scmp_trans_lt h0' this)
    | succ k =>
      have hk : k * d.bucketsize < S.length := by
        rcases hkb with h | h
        · omega
        · simpa using h
      have hchunk0 := chunks_getElem? d.bucketsize hb0 S k hk
      have hklen : k < (chunks d.bucketsize S).length := (List.getElem?_eq_some_iff.mp hchunk0).1
      obtain ⟨σ, hσ⟩ : ∃ σ, d.streams[k]? = some σ := by
        have : k < d.streams.length := by rw [hst.nstreams]; exact hklen
        exact ⟨d.streams[k], List.getElem?_eq_getElem this⟩
      obtain ⟨hstores, hchainok⟩ := hst.streams k _ σ hchunk0 hσ
      have hd : S.drop (k * d.bucketsize) = S[k * d.bucketsize] :: S.drop (k * d.bucketsize + 1) :=
        List.drop_eq_getElem_cons hk
      have hchunk : (S.drop (k * d.bucketsize)).take d.bucketsize
          = S[k * d.bucketsize] :: (S.drop (k * d.bucketsize + 1)).take (d.bucketsize - 1) := by
        rw [hd, List.take_cons (by omega)]
      generalize hLdef : (S.drop (k * d.bucketsize + 1)).take (d.bucketsize - 1) = L at hchunk
      rw [hchunk] at hstores hchainok
      simp only [List.headD_cons, List.drop_succ_cons, List.drop_zero] at hstores hchainok
      have hhq : scmp S[k * d.bucketsize] q < 0 :=
        hlo (k + 1) (by omega) (by omega) _ (by simp [List.getElem?_eq_getElem hk])
      obtain ⟨hfound, hnot⟩ := bucket_locate d.bucketsize hb S q hsort k hk _ L hchunk hhq hhi
      have hLn : ∀ s ∈ L, nulFree s := by
        intro s hs
        have : s ∈ (S.drop (k * d.bucketsize)).take d.bucketsize := by rw [hchunk]; simp [hs]
        exact hS s (List.mem_of_mem_drop (List.mem_of_mem_take this))
      have hchain : chain S[k * d.bucketsize] L := by
        apply chain_of_sorted
        rw [← hchunk]; exact sortedLt_chunk hsort _ _
      have hlen : (S[k * d.bucketsize] :: L).length = min d.bucketsize (S.length - k * d.bucketsize) := by
        rw [← hchunk]; simp
      have hscan : scanneableOf d (k + 1) = (S[k * d.bucketsize] :: L).length := by
        unfold scanneableOf
        rw [hlen, hbk, hst.elements]
        exact scanneable_eq d.bucketsize S.length k hb hk
      have hhdr := header_stores hst (k + 1) (by omega) (by simpa using hk)
      have hstr : stream d (k + 1) = some σ := by
        unfold stream
        simp only [Nat.add_one_ne_zero, ↓reduceIte, Nat.add_sub_cancel, hσ]
      simp only [Nat.add_sub_cancel] at hhdr
      simp only [hhdr, hstr, Nat.add_sub_cancel]
      rw [hscan]
      have hne_h : S[k * d.bucketsize] ≠ q := ne_of_scmp_lt hhq
      cases L with
      | nil =>
        simp only [List.length_cons, List.length_nil, Nat.zero_add, Nat.lt_irrefl, ↓reduceIte]
        rw [hnot (by simp [hne_h.symm])]
      | cons c L' =>
        have hc : nulFree c := hLn c (by simp)
        have hL' : ∀ s ∈ L', nulFree s := fun s hs => hLn s (by simp [hs])
        have hgt1 : (S[k * d.bucketsize] :: c :: L').length > 1 := by simp
        simp only [hgt1, ↓reduceIte]
        cases hstores with
        | cons _ _ _ σ1 τ hexp hnee htail =>
          obtain ⟨⟨h1, h2, h3⟩, hok'⟩ := hchainok
          rw [decodeString_spec d _ c σ1 τ hexp hnee h1 h2 h3]
          simp only [cmpFrom_zero]
          by_cases h0 : scmp c q = 0
          · have : c = q := (scmp_eq_zero hc hq).mp h0
            subst this
            simp only [h0, ne_eq, not_true_eq_false, ↓reduceIte]
            rw [hfound 1 (by simp)]
          · simp only [ne_eq, h0, not_false_eq_true, ↓reduceIte]
            have hne_c : c ≠ q := fun e => h0 (by rw [e, scmp_self])
            by_cases hneg : scmp c q < 0
            · rw [scanLoop_spec d q hq L' c 2 _ _ τ htail hok' hchain.2 hL' (by simp; omega)
                (by simp; omega) hneg]
              simp only [foundAt]
              cases hidx : L'.idxOf? q with
              | none =>
                have : q ∉ L' := List.idxOf?_eq_none_iff.mp hidx
                simp only
                rw [hnot (by simp [hne_h.symm, hne_c.symm, this])]
              | some j =>
                have hj := (List.idxOf?_eq_some_iff.mp hidx)
                obtain ⟨hjl, hje, _⟩ := hj
                have : (S[k * d.bucketsize] :: c :: L')[j + 2]? = some q := by
                  simp [List.getElem?_eq_getElem hjl, hje]
                rw [hfound (j + 2) this]
                simp only [Nat.add_eq, Nat.succ_ne_zero]
                congr 1; omega
            · have hpos : scmp c q > 0 := by omega
              rw [scanLoop_gt d q L' c 2 _ _ τ htail hok' hchain.2 (by simp; omega) hpos]
              simp only
              have hqc : scmp q c < 0 := (scmp_lt_iff_gt _ _).mpr hpos
              have : q ∉ L' := by
                apply not_mem_of_all_gt
                intro s hs
                exact scmp_trans_lt hqc (chain_all_gt hchain.2 s hs)
              rw [hnot (by simp [hne_h.symm, hne_c.symm, this])]

end CSD.RPFC
