import CSD.Lemmas.HashTable

/-! The invariant of the table while `insertAll` runs. -/
namespace CSD.Hash

theorem get_set (t : Table) (c : Nat) (v : Option Nat) (hc : c < t.length) (s : Nat) :
    (t.set c v)[s]? = if s = c then some v else t[s]? := by
  by_cases h : s = c
  · subst h; simp [List.getElem?_set_self hc]
  · rw [List.getElem?_set_ne (fun e => h e.symm)]; simp [h]

/-- One step of `insertAll`. -/
def insStep : Table × List (Option Nat) → Str × Nat → Table × List (Option Nat)
  | acc, (w, i) =>
    match insertSlot acc.1 w with
    | some s => (acc.1.set s (some i), acc.2 ++ [some s])
    | none => (acc.1, acc.2 ++ [none])

theorem insertAll_eq (m : Nat) (S : List Str) :
    insertAll m S = S.zipIdx.foldl insStep (List.replicate m none, []) := rfl

/-- After the first `k0` strings of `S` were inserted into a table of size `m`. -/
structure Good (m : Nat) (S : List Str) (t : Table) (k0 : Nat) : Prop where
  len : t.length = m
  /-- every stored index is one of the inserted strings, sits on that string's probe sequence,
  and every earlier probe of that string is occupied -/
  stored : ∀ (s k : Nat), t[s]? = some (some k) → k < k0 ∧ ∃ w, S[k]? = some w ∧ ∃ i, i < m ∧ s = pr m w i ∧
      ∀ j, j < i → ∃ k', t[pr m w j]? = some (some k')
  all : ∀ (k : Nat), k < k0 → ∃ s : Nat, t[s]? = some (some k)
  uniq : ∀ (s s' k : Nat), t[s]? = some (some k) → t[s']? = some (some k) → s = s'
  cnt : occ t = k0

theorem occ_replicate (m : Nat) : occ (List.replicate m none) = 0 := by
  unfold occ
  induction m with
  | zero => rfl
  | succ m ih => simp [List.replicate_succ, ih]

theorem good_init (m : Nat) (S : List Str) : Good m S (List.replicate m none) 0 where
  len := by simp
  stored := by
    intro s k h
    rw [List.getElem?_replicate] at h
    split at h <;> simp at h
  all := by intro k hk; omega
  uniq := by
    intro s s' k h
    rw [List.getElem?_replicate] at h
    split at h <;> simp at h
  cnt := occ_replicate m

/-- One insertion preserves the invariant (the table is not full: `k0 < m`). -/
theorem good_step {m : Nat} (hp : ProbeOK m) {S : List Str} {t : Table} {k0 : Nat}
    (g : Good m S t k0) (w : Str) (hw : S[k0]? = some w) (hk : k0 < m) :
    ∃ c, insertSlot t w = some c ∧ Good m S (t.set c (some k0)) (k0 + 1) := by
  obtain ⟨i, hi, hins, hfree, hpath⟩ := insertSlot_spec hp t g.len w (by rw [g.cnt]; exact hk)
  have hm := hp.1
  have hc : pr m w i < t.length := by rw [g.len]; exact pr_lt m hm w i
  refine ⟨pr m w i, hins, ?_⟩
  constructor
  · simp [g.len]
  · intro s k h
    rw [get_set t _ _ hc] at h
    split at h
    · rename_i hs
      simp only [Option.some.injEq] at h
      subst h; subst hs
      refine ⟨by omega, w, hw, i, hi, rfl, ?_⟩
      intro j hj
      obtain ⟨k', hk'⟩ := hpath j hj
      refine ⟨k', ?_⟩
      rw [get_set t _ _ hc]
      have : pr m w j ≠ pr m w i := fun e => by
        have := hp.2 w j i (by omega) hi e; omega
      simp [this, hk']
    · obtain ⟨hlt, w', hw', i', hi', hs', hp'⟩ := g.stored s k h
      refine ⟨by omega, w', hw', i', hi', hs', ?_⟩
      intro j hj
      obtain ⟨k', hk'⟩ := hp' j hj
      rw [get_set t _ _ hc]
      by_cases e : pr m w' j = pr m w i
      · exact ⟨k0, by simp [e]⟩
      · exact ⟨k', by simp [e, hk']⟩
  · intro k hk1
    by_cases e : k = k0
    · subst e
      exact ⟨pr m w i, by rw [get_set t _ _ hc]; simp⟩
    · obtain ⟨s, hs⟩ := g.all k (by omega)
      refine ⟨s, ?_⟩
      rw [get_set t _ _ hc]
      have : s ≠ pr m w i := fun e' => by rw [e', hfree] at hs; cases hs
      simp [this, hs]
  · intro s s' k h h'
    rw [get_set t _ _ hc] at h h'
    split at h <;> split at h'
    · rename_i a b; rw [a, b]
    · rename_i a b
      simp only [Option.some.injEq] at h; subst h
      have := (g.stored s' k0 h').1; omega
    · rename_i a b
      simp only [Option.some.injEq] at h'; subst h'
      have := (g.stored s k0 h).1; omega
    · exact g.uniq s s' k h h'
  · rw [occ_set_none t _ _ hfree, g.cnt]

/-- The fold of `insertAll` over a suffix of `S`. -/
theorem good_fold {m : Nat} (hp : ProbeOK m) (S : List Str) :
    ∀ (L : List Str) (k0 : Nat) (t : Table) (sl : List (Option Nat)),
      S.drop k0 = L → k0 + L.length ≤ m → Good m S t k0 →
      Good m S ((L.zipIdx k0).foldl insStep (t, sl)).1 (k0 + L.length) := by
  intro L
  induction L with
  | nil => intro k0 t sl _ _ g; simpa using g
  | cons w L ih =>
    intro k0 t sl hd hcap g
    have hw : S[k0]? = some w := by
      have : (S.drop k0)[0]? = some w := by rw [hd]; rfl
      simpa using this
    have hd' : S.drop (k0 + 1) = L := by
      have : (S.drop k0).drop 1 = L := by rw [hd]; rfl
      rw [List.drop_drop] at this
      simpa [Nat.add_comm] using this
    simp only [List.length_cons] at hcap ⊢
    obtain ⟨c, hc, g'⟩ := good_step hp g w hw (by omega)
    simp only [List.zipIdx_cons, List.foldl_cons]
    have hstep : insStep (t, sl) (w, k0) = (t.set c (some k0), sl ++ [some c]) := by
      simp [insStep, hc]
    rw [hstep]
    have := ih (k0 + 1) _ (sl ++ [some c]) hd' (by omega) g'
    have e : k0 + 1 + L.length = k0 + (L.length + 1) := by omega
    rw [e] at this
    exact this

/-- **The table built by `insertAll`** holds every string of `S` (when `S` fits). -/
theorem good_insertAll {m : Nat} (hp : ProbeOK m) (S : List Str) (hcap : S.length ≤ m) :
    Good m S (insertAll m S).1 S.length := by
  rw [insertAll_eq]
  have := good_fold hp S S 0 (List.replicate m none) [] (by simp) (by omega) (good_init m S)
  simpa using this

end CSD.Hash
