import CSD.Lemmas.PoolMain

/-! Conservation of tasks: every task is in exactly one place (queue, a worker's
hand, or the log of executed tasks). -/
namespace CSD.Pool

/-- Worker pc holds task `x` in hand. -/
def WPc.has (x : Nat) : WPc → Bool
  | .unlocked t | .run t => t == x
  | _ => false

/-- Number of workers holding task `x`. -/
def inHand (n : Nat) (wpc : Nat → WPc) (x : Nat) : Nat := (List.range n).countP (fun i => (wpc i).has x)

theorem countP_range_congr (n : Nat) (p q : Nat → Bool) (h : ∀ i, i < n → p i = q i) :
    (List.range n).countP p = (List.range n).countP q := by
  apply List.countP_congr
  intro i hi
  rw [List.mem_range] at hi
  rw [h i hi]

theorem inHand_upd (n : Nat) (wpc : Nat → WPc) (i : Nat) (hi : i < n) (v : WPc) (x : Nat) :
    inHand n (upd wpc i v) x + (if (wpc i).has x then 1 else 0)
      = inHand n wpc x + (if v.has x then 1 else 0) := by
  unfold inHand
  induction n with
  | zero => omega
  | succ n ih =>
    rw [List.range_succ, List.countP_append, List.countP_append]
    simp only [List.countP_cons, List.countP_nil]
    by_cases hin : i = n
    · subst hin
      have : (List.range i).countP (fun j => (upd wpc i v j).has x) = (List.range i).countP (fun j => (wpc j).has x) := by
        apply countP_range_congr
        intro j hj; rw [upd_other _ _ _ _ (by omega)]
      rw [this, upd_same]
      cases (wpc i).has x <;> cases v.has x <;> simp
    · have := ih (by omega)
      rw [upd_other _ _ _ _ (Ne.symm hin)]
      omega

theorem inHand_notify (s : State) (x : Nat) : inHand s.n (notifyAll s).wpc x = inHand s.n s.wpc x := by
  unfold inHand
  apply countP_range_congr
  intro i _
  simp only [notifyAll]
  split
  · rename_i h; rw [h]; rfl
  · rfl

/-- Tasks the producer has not pushed yet. -/
def PPc.remaining : PPc → List Nat
  | .addLock t r | .addPush t r => t :: r
  | .addNotify r => r
  | _ => []

theorem remaining_nextAdd (r : List Nat) : (nextAdd r).remaining = r := by
  cases r <;> rfl

structure Inv2 (tasks : List Nat) (s : State) : Prop where
  cons : ∀ x, s.queue.count x + inHand s.n s.wpc x + s.ran.count x = s.added.count x
  progress : s.added ++ s.prod.remaining = tasks
  sawStop : ∀ i, i < s.n → s.wpc i = .loopEmpty → s.stopped i = true
  exited : ∀ i, i < s.n → (s.wpc i = .exitNotify ∨ s.wpc i = .done) → s.prod.stopping = true ∧ s.queue = []

theorem inHand_init (n x : Nat) : inHand n (fun _ => WPc.loopStopped) x = 0 := by
  unfold inHand
  induction n with
  | zero => rfl
  | succ n ih => rw [List.range_succ, List.countP_append, ih]; simp [WPc.has]

theorem inv2_init (n : Nat) (tasks : List Nat) : Inv2 tasks (init n tasks) := by
  constructor
  · intro x; simp [init, inHand_init]
  · simp [init, remaining_nextAdd]
  · intro i _ h; simp [init] at h
  · intro i _ h; simp [init] at h

end CSD.Pool
