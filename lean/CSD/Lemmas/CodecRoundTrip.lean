import CSD.Lemmas.StatCoder
import CSD.Lemmas.ChunkDecAll

/-! `encodeString` followed by chunk-table decoding. -/
namespace CSD.StatCoder
open CSD.Codes CSD.ChunkDec

/-- The codeword table agrees with the code tree on the symbols of `w`. -/
def TableMatches (t : Tree) (cwOf : Nat → Nat × Nat) (w : List Nat) : Prop :=
  ∀ s, s ∈ w → encodeSym t s = some (cwb (cwOf s).1 (cwOf s).2)

theorem encode_eq_encBits (t : Tree) (cwOf : Nat → Nat × Nat) : ∀ (w : List Nat), TableMatches t cwOf w →
    encode t w = some (encBits cwOf w)
  | [], _ => rfl
  | s :: w, h => by
    have hs := h s (by simp)
    have hw := encode_eq_encBits t cwOf w (fun x hx => h x (by simp [hx]))
    simp only [encode, hs, hw, encBits, List.flatMap_cons]

/-- **Bytes written by `encodeString` are decoded back by the chunk table**: for every code tree, every
codeword table that agrees with it, every sound chunk table, and every string `w` whose only terminator (if
any) is its last symbol, decoding the bytes `encodeString` produced chunk by chunk writes `w`. -/
theorem encodeString_then_decodeAll (t : Tree) (k : Nat) (table : Nat → Option Entry) (hT : TableOK t k table)
    (cwOf : Nat → Nat × Nat) (hb : ∀ s, (cwOf s).2 ≤ 32) (w : List Nat) (hm : TableMatches t cwOf w)
    (hnz : ∀ i, i + 1 < w.length → w[i]? ≠ some 0) (bytes : List Nat)
    (he : encodeString cwOf w 0 0 [] = some bytes) (fuel : Nat) (o : List Nat)
    (hd : decodeAll table k fuel [] bytes w.length = some o) : o.take w.length = w := by
  obtain ⟨out, ho, pad, hbits⟩ := encodeString_spec cwOf hb w 0 0 [] (by omega) (clean_zero 0)
  rw [he] at ho
  simp only [Option.some.injEq] at ho
  subst ho
  have hs : stream [] bytes = encBits cwOf w ++ List.replicate pad false := by
    simp only [stream, List.nil_append]
    rw [hbits]
    simp [written]
  obtain ⟨z, hz⟩ := padTo_append k (encBits cwOf w) (List.replicate pad false)
  rw [← hs] at hz
  exact decodeAll_spec t k table hT fuel [] bytes w _ _ o (encode_eq_encBits t cwOf w hm) hnz hz hd

end CSD.StatCoder
