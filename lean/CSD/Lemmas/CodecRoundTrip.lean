import CSD.Lemmas.StatCoder
import CSD.Lemmas.ChunkDecAll

/-! `encodeString` followed by chunk-table decoding. -/
namespace CSD.StatCoder
open CSD.Codes CSD.ChunkDec

/-- The codeword table agrees with the code tree on the symbols of `w`. -/
def TableMatches (t : Tree) (cwOf : Nat → Nat × Nat) (w : List Nat) : Prop :=
  ∀ s, s ∈ w → encodeSym t s = some (cwb (cwOf s).1 (cwOf s).2)

theorem encode_eq_encBits (t : Tree) (cwOf : Nat → Nat × Nat) : ∀ (w : List Nat), TableMatches t cwOf w →
    encode t w = some (encBits cwOf w)
  | [], _ => rfl
  | s :: w, h => by
    have hs := h s (by simp)
    have hw := encode_eq_encBits t cwOf w (fun x hx => h x (by simp [hx]))
    simp only [encode, hs, hw, encBits, List.flatMap_cons]

/-- **Bytes written by `encodeString` are decoded back by the chunk table**: for every code tree, every
codeword table that agrees with it, every sound chunk table, and every string `w` whose only terminator (if
any) is its last symbol, decoding the bytes `encodeString` produced chunk by chunk writes `w`. -/
theorem encodeString_then_decodeAll (t : Tree) (k : Nat) (table : Nat → Option Entry) (hT : TableOK t k table)
    (cwOf : Nat → Nat × Nat) (hb : ∀ s, (cwOf s).2 ≤ 32) (w : List Nat) (hm : TableMatches t cwOf w)
    (hnz : ∀ i, i + 1 < w.length → w[i]? ≠ some 0) (bytes : List Nat)
    (he : encodeString cwOf w 0 0 [] = some bytes) (fuel : Nat) (o : List Nat)
    (hd : decodeAll table k fuel [] bytes w.length = some o) : o.take w.length = w := by
  obtain ⟨out, ho, pad, hbits⟩ := encodeString_spec cwOf hb w 0 0 [] (by omega) (clean_zero 0)
  rw [he] at ho
  simp only [Option.some.injEq] at ho
  subst ho
  have hs : stream [] bytes = encBits cwOf w ++ List.replicate pad false := by
    simp only [stream, List.nil_append]
    rw [hbits]
    simp [written]
  obtain ⟨z, hz⟩ := padTo_append k (encBits cwOf w) (List.replicate pad false)
  rw [← hs] at hz
  exact decodeAll_spec t k table hT fuel [] bytes w _ _ o (encode_eq_encBits t cwOf w hm) hnz hz hd

/-- A NUL-terminated string: the terminator is its last symbol and occurs nowhere else. -/
def Terminated (w : List Nat) : Prop := w.getLast? = some 0 ∧ ∀ i, i + 1 < w.length → w[i]? ≠ some 0

/-- **Coded keys are distinct**: two different NUL-terminated strings never get the same bytes from
`encodeString` (the hash kinds HASHHF and HASHUFFDAC use these bytes as the keys of their table). -/
theorem encodeString_injective (t : Tree) (cwOf : Nat → Nat × Nat) (hb : ∀ s, (cwOf s).2 ≤ 32)
    (w w' : List Nat) (hm : TableMatches t cwOf w) (hm' : TableMatches t cwOf w')
    (hw : Terminated w) (hw' : Terminated w') (bytes : List Nat)
    (he : encodeString cwOf w 0 0 [] = some bytes) (he' : encodeString cwOf w' 0 0 [] = some bytes) : w = w' := by
  obtain ⟨out, ho, pad, hbits⟩ := encodeString_spec cwOf hb w 0 0 [] (by omega) (clean_zero 0)
  obtain ⟨out', ho', pad', hbits'⟩ := encodeString_spec cwOf hb w' 0 0 [] (by omega) (clean_zero 0)
  rw [he] at ho; rw [he'] at ho'
  simp only [Option.some.injEq] at ho ho'
  subst ho; subst ho'
  have hs : encBits cwOf w ++ List.replicate pad false = encBits cwOf w' ++ List.replicate pad' false := by
    have a : bytes.flatMap byteBits = encBits cwOf w ++ List.replicate pad false := by rw [hbits]; simp [written]
    have b : bytes.flatMap byteBits = encBits cwOf w' ++ List.replicate pad' false := by rw [hbits']; simp [written]
    rw [← a, ← b]
  have hd := decode_encode t w _ (List.replicate pad false) (encode_eq_encBits t cwOf w hm)
  have hd' := decode_encode t w' _ (List.replicate pad' false) (encode_eq_encBits t cwOf w' hm')
  -- compare the two decodings of the same stream at the shorter length
  have key : ∀ (a b : List Nat) (pa pb : Nat), Terminated a → Terminated b → a.length ≤ b.length →
      encBits cwOf a ++ List.replicate pa false = encBits cwOf b ++ List.replicate pb false →
      decode t a.length (encBits cwOf a ++ List.replicate pa false) = some (a, List.replicate pa false) →
      decode t b.length (encBits cwOf b ++ List.replicate pb false) = some (b, List.replicate pb false) → a = b := by
    intro a b pa pb ha hb' hle hst da db
    have e : b.length = a.length + (b.length - a.length) := by omega
    rw [e] at db
    obtain ⟨r', hr'⟩ := decode_prefix t a.length _ _ _ _ db
    rw [← hst, da] at hr'
    simp only [Option.some.injEq, Prod.mk.injEq] at hr'
    have hab : a = b.take a.length := hr'.1
    -- the terminator of `a` sits at position |a|-1 of `b`, which must then be the last position of `b`
    have hapos : 0 < a.length := by
      rcases Nat.eq_zero_or_pos a.length with h0 | h0
      · have : a = [] := List.eq_nil_of_length_eq_zero h0
        rw [this] at ha; simp [Terminated] at ha
      · exact h0
    have hlast : b[a.length - 1]? = some 0 := by
      have h1 := ha.1
      rw [List.getLast?_eq_getElem?] at h1
      rw [hab] at h1
      rw [List.getElem?_take] at h1
      simp only [List.length_take] at h1
      have e1 : min a.length b.length - 1 < a.length := by omega
      rw [if_pos e1] at h1
      have e2 : min a.length b.length - 1 = a.length - 1 := by omega
      rw [e2] at h1; exact h1
    have hlen : a.length = b.length := by
      rcases Nat.lt_or_ge a.length b.length with h | h
      · exact absurd hlast (hb'.2 (a.length - 1) (by omega))
      · omega
    rw [hab, hlen, List.take_length]
  rcases Nat.le_total w.length w'.length with h | h
  · exact key w w' pad pad' hw hw' h hs hd hd'
  · exact (key w' w pad' pad hw' hw h hs.symm hd' hd).symm

end CSD.StatCoder
