/-
  FM-index, part 16: `StringDictionaryFMINDEX::locateSubstr` (with BWT sampling) yields exactly the IDs of
  the members that contain the pattern, each once, in ascending order.
-/
import CSD.Lemmas.FM15

namespace CSD.FM
open CSD.PFC

theorem walkAll_spec (ix : Index) (Q : Nat → Prop) : ∀ js : List Nat,
    (∀ j ∈ js, ∃ a, walk ix (ix.bwt.length + 1) j = some a ∧ Q a) →
    ∃ ids, walkAll ix js = some ids ∧ (∀ a ∈ ids, Q a) ∧
      (∀ j ∈ js, ∀ a, walk ix (ix.bwt.length + 1) j = some a → a ∈ ids)
  | [], _ => ⟨[], rfl, by simp, by simp⟩
  | j :: js, h => by
    obtain ⟨a, ha, hq⟩ := h j (by simp)
    obtain ⟨ids, hids, h1, h2⟩ := walkAll_spec ix Q js (fun k hk => h k (List.mem_cons_of_mem _ hk))
    refine ⟨a :: ids, by simp [walkAll, ha, hids], ?_, ?_⟩
    · intro b hb
      rcases List.mem_cons.mp hb with rfl | hb
      · exact hq
      · exact h1 b hb
    · intro k hk b hb
      rcases List.mem_cons.mp hk with rfl | hk
      · rw [ha] at hb; cases hb; simp
      · exact List.mem_cons_of_mem _ (h2 k hk b hb)

/-- The text of a dictionary, split inside member `i`. -/
theorem mkText_inside (S : List Str) (i : Nat) (hi : i < S.length) (u v : List Sym) (huv : symsOf S[i] = u ++ v) :
    mkText S = (textBefore (S.take i) ++ 1 :: u) ++ (v ++ 1 :: body (S.drop (i + 1))) := by
  rw [mkText_at S i hi, List.drop_eq_getElem_cons hi]
  simp [body, huv, List.append_assoc]

/-- A member containing `p` contributes a row that starts with `p`, and the walk from it returns its ID. -/
theorem substr_row {S : List Str} {L : List Row} {d : Dict} (hv : validDict S = true) (hd : DictOK S L d)
    (hS : BuiltS (mkText S) L d.ix) (p : Str) (hne : p ≠ []) (i : Nat) (hi : i < S.length)
    (hsub : isSubstr p S[i] = true) :
    ∃ t, (∃ p', (p', t) ∈ L) ∧ preP (symsOf p) t = true ∧
      walk d.ix (d.ix.bwt.length + 1) (lo L t) = some (i + 1) := by
  obtain ⟨u0, w0, hs⟩ := (isSubstr_iff p S[i] hne).mp hsub
  have huv : symsOf S[i] = symsOf u0 ++ (symsOf p ++ symsOf w0) := by
    rw [hs]; simp [symsOf, List.append_assoc]
  have hvne : symsOf p ++ symsOf w0 ≠ [] := by
    cases p with
    | nil => exact absurd rfl hne
    | cons c t => simp [symsOf]
  refine ⟨(symsOf p ++ symsOf w0) ++ 1 :: body (S.drop (i + 1)), ?_, ?_, ?_⟩
  · obtain ⟨p', hp'⟩ := mem_rows_of_suffix ((symsOf p ++ symsOf w0) ++ 1 :: body (S.drop (i + 1)))
      (textBefore (S.take i) ++ 1 :: symsOf u0) none
    rw [← mkText_inside S i hi _ _ huv] at hp'
    exact ⟨p', hd.sa.1.mem_iff.mpr hp'⟩
  · exact isPrefixOf_iff.mpr ⟨symsOf w0 ++ 1 :: body (S.drop (i + 1)), by simp [List.append_assoc]⟩
  · exact walk_member hv hd hS i hi (symsOf u0) (symsOf p ++ symsOf w0) huv hvne

/-- A row of the block lies inside a member that contains `p`, and the walk from it returns that member's ID. -/
theorem block_row_walk {S : List Str} {L : List Row} {d : Dict} (hv : validDict S = true) (hd : DictOK S L d)
    (hS : BuiltS (mkText S) L d.ix) (p : Str) (hp : p.all validByte = true) (hne : p ≠ [])
    (j : Nat) (h1 : lo L (symsOf p) ≤ j) (h2 : j < lo L (symsOf p) + occs L (symsOf p)) :
    ∃ a, walk d.ix (d.ix.bwt.length + 1) j = some a ∧ a ∈ Spec.substrIds S p := by
  have hp2 := ge2_of_validStr hp
  obtain ⟨hj, hpre⟩ := block_rows hd.sa (symsOf p) j h1 h2
  obtain ⟨y0, P', hP⟩ : ∃ y0 P', symsOf p = y0 :: P' := by
    cases p with
    | nil => exact absurd rfl hne
    | cons c t => exact ⟨c.toNat, symsOf t, rfl⟩
  have hy0 : 2 ≤ y0 := hp2 y0 (by rw [hP]; simp)
  obtain ⟨z, hz⟩ := isPrefixOf_iff.mp hpre
  have ht : L[j].2 = y0 :: (P' ++ z) := by rw [hz, hP]; rfl
  have hmemL : (L[j].1, y0 :: (P' ++ z)) ∈ L := by rw [← ht]; exact List.getElem_mem hj
  have hrows := hd.sa.1.mem_iff.mp hmemL
  obtain ⟨i, hi, u, v, huv, hvne, hsplit⟩ := row_inside hy0 hrows
  have hidx : lo L (v ++ 1 :: body (S.drop (i + 1))) = j := by
    rw [← hsplit, ← ht]; exact index_unique hd.sa hj
  refine ⟨i + 1, ?_, ?_⟩
  · rw [← hidx]; exact walk_member hv hd hS i hi u v huv hvne
  · -- the member contains p
    rw [mem_substrIds]
    refine ⟨i, hi, rfl, ?_⟩
    have hpv : (symsOf p).isPrefixOf v = true := by
      have := hpre
      rw [ht, hsplit] at this
      simp only [preP] at this
      rwa [sep_pre_pre_iff _ _ _ hp2] at this
    obtain ⟨w', hw'⟩ := isPrefixOf_iff.mp hpv
    have hmap : S[i].map (·.toNat) = u ++ (symsOf p ++ w') := by
      have := huv; rw [hw'] at this; exact this
    obtain ⟨l1, l2, hl, _, h2'⟩ := List.map_eq_append_iff.mp hmap
    obtain ⟨l3, l4, hl2, h3, _⟩ := List.map_eq_append_iff.mp h2'
    have : l3 = p := symsOf_inj h3
    subst this
    rw [isSubstr_iff l3 S[i] hne]
    exact ⟨l1, l4, by rw [hl, hl2, List.append_assoc]⟩

/-- `StringDictionaryFMINDEX::locateSubstr` on a dictionary built with BWT sampling: the iterator yields
`Spec.substrIds S p` — the members containing `p`, each once — with every read in bounds. -/
theorem locateSubstr_spec {S : List Str} {L : List Row} {d : Dict} (hv : validDict S = true) (hd : DictOK S L d)
    (hS : BuiltS (mkText S) L d.ix) (p : Str) (hp : p.all validByte = true) (hne : p ≠ []) :
    d.locateSubstr p = some (Spec.substrIds S p) := by
  have hp2 := ge2_of_validStr hp
  have hall : ∀ c ∈ symsOf p, c ≠ 0 ∧ c < 256 := by
    intro c hc
    have h1 := hp2 c hc
    have h2 := lt256_of_symsOf p c hc
    omega
  have hPne : symsOf p ≠ [] := by
    cases p with
    | nil => exact absurd rfl hne
    | cons c t => simp [symsOf]
  obtain ⟨res, hres, hspec⟩ := bsearch_spec hd.sa hd.built (symsOf p) hPne hall
  -- no occurrence in the text: no member contains p
  have hnone : occs L (symsOf p) = 0 → Spec.substrIds S p = [] := by
    intro h0
    apply List.eq_nil_iff_forall_not_mem.mpr
    intro id hid
    obtain ⟨i, hi, _, hsub⟩ := (mem_substrIds S p id).mp hid
    obtain ⟨t, ⟨p', hrow⟩, hpre, _⟩ := substr_row hv hd hS p hne i hi hsub
    have : 0 < occs L (symsOf p) := by
      unfold occs cntq
      exact List.countP_pos_iff.mpr ⟨(p', t), hrow, hpre⟩
    omega
  have hstep : ¬ d.ix.samplesuff = 0 := by have := hS.step_pos; omega
  unfold Dict.locateSubstr locateOccs
  simp only [hstep, ↓reduceIte, hres]
  cases res with
  | notInAlphabet =>
    simp only [BSpec] at hspec
    rw [hnone hspec]
  | range sp ep =>
    simp only [BSpec] at hspec
    rcases hspec with ⟨hle, hsp, hep⟩ | ⟨hlt, h0⟩
    · simp only [hle, ↓reduceIte]
      have hjs : ∀ j ∈ (List.range (ep - sp + 1)).map (sp + ·),
          lo L (symsOf p) ≤ j ∧ j < lo L (symsOf p) + occs L (symsOf p) := by
        intro j hj
        obtain ⟨k, hk, rfl⟩ := List.mem_map.mp hj
        have := List.mem_range.mp hk
        omega
      obtain ⟨ids, hids, hsound, hcompl⟩ := walkAll_spec d.ix (· ∈ Spec.substrIds S p)
        ((List.range (ep - sp + 1)).map (sp + ·))
        (fun j hj => block_row_walk hv hd hS p hp hne j (hjs j hj).1 (hjs j hj).2)
      rw [hids]
      simp only [Option.map_some]
      congr 1
      apply dedup_sort_eq ids _ (sorted_substrIds S p)
      intro x
      constructor
      · exact hsound x
      · intro hx
        obtain ⟨i, hi, rfl, hsub⟩ := (mem_substrIds S p x).mp hx
        obtain ⟨t, ⟨p', hrow⟩, hpre, hwalk⟩ := substr_row hv hd hS p hne i hi hsub
        obtain ⟨hb1, hb2⟩ := row_in_block hd.sa (symsOf p) hrow hpre
        apply hcompl (lo L t) _ (i + 1) hwalk
        apply List.mem_map.mpr
        refine ⟨lo L t - sp, List.mem_range.mpr (by omega), by omega⟩
    · have : ¬ sp ≤ ep := by omega
      simp only [this, ↓reduceIte]
      rw [hnone h0]

/-- The hypotheses about the sampling structures hold for the model's build with any step `> 0`. -/
theorem builtS_buildDict (S : List Str) (step : Nat) (h : 0 < step) :
    BuiltS (mkText S) (sortRows (mkText S)) (buildDict S step).ix :=
  builtS_buildIndex _ _ step h

end CSD.FM
