import CSD.Lemmas.RGSelect0a

/-! `BitSequenceRG::select0`: super-block search, word scan, and the final statement. -/
namespace CSD.RG

/-- Plain definition: zeros among the first `m` positions. -/
def zeros (words : List Nat) (m : Nat) : Nat := m - ones words m

theorem ones_le (words : List Nat) (m : Nat) : ones words m ≤ m := by
  unfold ones
  exact Nat.le_trans (List.count_le_length) (by simp [List.length_take]; omega)

/-- Ones grow by at most one per position. -/
theorem ones_lipschitz (words : List Nat) {a b : Nat} (h : a ≤ b) : ones words b ≤ ones words a + (b - a) := by
  unfold ones
  have : (allBits words).take b = (allBits words).take a ++ ((allBits words).drop a).take (b - a) := by
    have e : b = a + (b - a) := by omega
    conv => lhs; rw [e]
    rw [List.take_add]
  rw [this, List.count_append]
  have := List.count_le_length (a := true) (l := ((allBits words).drop a).take (b - a))
  have h2 : (((allBits words).drop a).take (b - a)).length ≤ b - a := by simp [List.length_take]; omega
  omega

theorem zeros_mono (words : List Nat) {a b : Nat} (h : a ≤ b) : zeros words a ≤ zeros words b := by
  unfold zeros
  have := ones_lipschitz words h
  have := ones_le words a
  omega

theorem zeros_word (words : List Nat) (k q : Nat) (hk : k < words.length) (hq : q ≤ 32) :
    zeros words (32 * k + q) = zeros words (32 * k) + cz words[k] q := by
  unfold zeros
  rw [ones_word words k q hk hq]
  have := cz_add_cb words[k] q
  have := ones_le words (32 * k)
  omega

theorem Rs0_eq (words : List Nat) (factor j : Nat) : Rs0 words factor j = zeros words (32 * (j * factor)) := by
  unfold Rs0 zeros W
  rw [Rs_eq]
  have : j * factor * 32 = 32 * (j * factor) := by omega
  rw [this]

theorem Rs0_zero (words : List Nat) (factor : Nat) : Rs0 words factor 0 = 0 := by simp [Rs0]

/-- The super-block search ends on a super-block with fewer than `x` zeros before it, inside the range. -/
theorem selBin0_spec (words : List Nat) (factor x R : Nat) (hx : 1 ≤ x) :
    ∀ (fuel l r mid : Nat), mid = (l + r) / 2 → l ≤ r + 1 → r ≤ R → r + 1 - l < fuel →
      (l = 0 ∨ Rs0 words factor (l - 1) < x) →
    ∃ m, selBin0 words factor x fuel l r mid = some m ∧ Rs0 words factor m < x ∧ m ≤ R := by
  intro fuel
  induction fuel with
  | zero => intro l r mid _ _ _ hf; omega
  | succ fuel ih =>
    intro l r mid hmid hlr hR hf hinv
    unfold selBin0
    by_cases hle : l ≤ r
    · rw [if_pos hle]
      by_cases hlt : Rs0 words factor mid < x
      · rw [if_pos hlt]
        exact ih (mid + 1) r _ rfl (by omega) hR (by omega) (Or.inr (by simpa using hlt))
      · rw [if_neg hlt]
        have hm0 : mid ≠ 0 := by
          intro e; rw [e, Rs0_zero] at hlt; omega
        rw [if_neg hm0]
        exact ih l (mid - 1) _ rfl (by omega) (by omega) (by omega) hinv
    · rw [if_neg hle]
      have hl : l = r + 1 := by omega
      have hm : mid = l - 1 := by omega
      refine ⟨mid, rfl, ?_, by omega⟩
      rcases hinv with h | h
      · subst h; omega
      · rw [hm]; exact h

/-- The word scan stops at the word that holds the `x`-th zero. -/
theorem selWords0_spec (words : List Nat) (integers x : Nat) (hint : words.length ≤ integers)
    (hx2 : x ≤ zeros words (32 * words.length)) :
    ∀ (fuel left : Nat), zeros words (32 * left) < x → words.length + 1 - left ≤ fuel →
    ∃ left', selWords0 words integers fuel left (x - zeros words (32 * left)) =
        some (some (left', x - zeros words (32 * left'))) ∧
      ∃ (h : left' < words.length), zeros words (32 * left') < x ∧ x - zeros words (32 * left') ≤ cz words[left'] 32 := by
  intro fuel
  induction fuel with
  | zero =>
    intro left h1 hf
    exfalso
    have := zeros_mono words (show 32 * words.length ≤ 32 * left by omega)
    omega
  | succ fuel ih =>
    intro left h1 hf
    have hleft : left < words.length := by
      rcases Nat.lt_or_ge left words.length with h | h
      · exact h
      · exfalso
        have := zeros_mono words (show 32 * words.length ≤ 32 * left by omega)
        omega
    unfold selWords0
    rw [List.getElem?_eq_getElem hleft]
    simp only
    have hw := zeros_word words left 32 hleft (Nat.le_refl _)
    have e : 32 * left + 32 = 32 * (left + 1) := by omega
    rw [e] at hw
    rw [popcount_eq_cz]
    by_cases hlt : cz words[left] 32 < x - zeros words (32 * left)
    · rw [if_pos hlt]
      have hnext : zeros words (32 * (left + 1)) < x := by rw [hw]; omega
      have hl1 : left + 1 < words.length := by
        rcases Nat.lt_or_ge (left + 1) words.length with h | h
        · exact h
        · exfalso
          have := zeros_mono words (show 32 * words.length ≤ 32 * (left + 1) by omega)
          omega
      rw [if_neg (by omega)]
      have hsub : x - zeros words (32 * left) - cz words[left] 32 = x - zeros words (32 * (left + 1)) := by
        rw [hw]; omega
      rw [hsub]
      exact ih (left + 1) hnext (by omega)
    · rw [if_neg hlt]
      exact ⟨left, rfl, hleft, h1, by omega⟩

/-- **`select0` is exact**: for `1 ≤ x ≤ n - ones`, the answer `p < n` is the position of the `x`-th zero —
the bit at `p` is clear and exactly `x - 1` zeros precede it — and every array read is in bounds. -/
theorem select0_spec (words : List Nat) (factor n total x : Nat) (hf : 0 < factor) (hx1 : 1 ≤ x) (hx2 : x ≤ n - total)
    (htot : n - total ≤ zeros words n) (hlen : words.length = n / 32 + 1) :
    ∃ p, select0 words factor n total x = some p ∧ p < n ∧ (allBits words)[p]? = some false ∧ zeros words p = x - 1 := by
  unfold select0
  rw [if_neg (by omega), if_neg (by omega)]
  simp only
  have hxn : x ≤ zeros words n := by omega
  have hnlen : n ≤ 32 * words.length := by rw [hlen]; omega
  have hxall : x ≤ zeros words (32 * words.length) := Nat.le_trans hxn (zeros_mono words hnlen)
  obtain ⟨mid, hmid, hRs, hmidle⟩ : ∃ m, selBin0 words factor x (n / (W * factor) + 3) 0 (n / (W * factor))
      ((0 + n / (W * factor)) / 2) = some m ∧ Rs0 words factor m < x ∧ m ≤ n / (W * factor) := by
    generalize n / (W * factor) = t
    exact selBin0_spec words factor x t hx1 (t + 3) 0 t ((0 + t) / 2) rfl (by omega) (Nat.le_refl _) (by omega) (Or.inl rfl)
  rw [hmid]
  simp only
  rw [Rs0_eq] at hRs
  obtain ⟨left, hsw, hleft, hlt, hle⟩ := selWords0_spec words (n / W + 1) x (by unfold W; omega) hxall
    (words.length + 1) (mid * factor) hRs (by omega)
  rw [Rs0_eq, hsw]
  simp only
  rw [List.getElem?_eq_getElem hleft]
  simp only
  obtain ⟨off, hsb, hoff, hofflt, hoffle⟩ := selBytes0_spec words[left] (x - zeros words (32 * left)) (by omega) hle
  rw [hsb]
  simp only
  have hfuel : x - zeros words (32 * left) - cz words[left] off ≤ cz (words[left] >>> off) 39 :=
    Nat.le_trans hoffle (cz_mono _ (by omega))
  obtain ⟨q, hq1, hq2, hq3, hq4⟩ := selBits0_spec 39 (words[left] >>> off) (x - zeros words (32 * left) - cz words[left] off)
    (left * W + off) hfuel
  rw [hq1]
  simp only
  obtain ⟨hqpos, hbit, hcnt⟩ := hq4 (by omega)
  rw [cz_shift] at hcnt
  have hmono := cz_mono words[left] (show off ≤ off + (q - 1) by omega)
  -- the stop is inside the word: beyond bit 31 the shifted word only shows zeros that were never needed
  have hidx : off + (q - 1) < 32 := by
    rcases Nat.lt_or_ge (off + (q - 1)) 32 with h | h
    · exact h
    · exfalso
      have := cz_mono words[left] h
      omega
  rw [Nat.testBit_shiftRight] at hbit
  have e : left * W + off + q - 1 = 32 * left + (off + (q - 1)) := by unfold W; omega
  have hz : zeros words (32 * left + (off + (q - 1))) = x - 1 := by
    rw [zeros_word words left _ hleft (by omega)]
    omega
  have hpn : 32 * left + (off + (q - 1)) < n := by
    rcases Nat.lt_or_ge (32 * left + (off + (q - 1))) n with h | h
    · exact h
    · exfalso
      have := zeros_mono words h
      omega
  rw [e, if_neg (by omega)]
  refine ⟨_, rfl, hpn, ?_, hz⟩
  rw [allBits_get words left _ hleft hidx, hbit]

end CSD.RG
