import CSD.Model.HRPDACImage
import CSD.Lemmas.RPDACImage

/-! `StringDictionaryHASHRPDAC::load ∘ save = id` on bytes. -/
namespace CSD.HRPDACImg
open CSD.LogSeq (leBytes fromLE readLE leBytes_length fromLE_leBytes readLE_leBytes)

structure WF (d : Img) : Prop where
  el : d.elements < 2 ^ 64
  ml : d.maxlength < 2 ^ 32
  rp : RPDACImg.WFRP d.rp
  enc : d.rp.encoding = 124
  ts : d.tsize < 2 ^ 64
  n : d.n < 2 ^ 64
  bht : RG.WF d.bht

/-- **`load (save d ++ rest) = (d, rest)`** for a StringDictionaryHASHRPDAC image. -/
theorem load_save (d : Img) (wf : WF d) (rest : List UInt8) : load (save d ++ rest) = some (d, rest) := by
  unfold load save
  simp only [List.append_assoc]
  rw [readLE_leBytes 4 124 (by decide)]
  simp only [ne_eq, not_true_eq_false, ↓reduceIte]
  rw [readLE_leBytes 8 d.elements (by have := wf.el; omega)]
  simp only
  rw [readLE_leBytes 4 d.maxlength (by have := wf.ml; omega)]
  simp only
  rw [RPDACImg.loadRP_saveRP 3 124 d.rp wf.rp (Or.inr wf.enc)]
  simp only
  rw [readLE_leBytes 8 d.tsize (by have := wf.ts; omega)]
  simp only
  rw [readLE_leBytes 8 d.n (by have := wf.n; omega)]
  simp only
  rw [RG.loadImg_saveImg d.bht wf.bht]

end CSD.HRPDACImg
