/-
  RPFC, part 2: `readTail` and `decodeString`.
-/
import CSD.Lemmas.RPFC1

namespace CSD.RPFC
open CSD.RePair CSD.PFC

theorem mark_unique {a b X : List Nat} {m : Nat} (h : a ++ [m] ++ b = X ++ [m]) (hm : m ∉ X) : a = X ∧ b = [] := by
  have hlen := congrArg List.length h
  simp only [List.length_append, List.length_cons, List.length_nil] at hlen
  have hle : a.length ≤ X.length := by omega
  rcases Nat.lt_or_ge a.length X.length with hlt | hge
  · -- the mark of the left side would sit inside X
    have h1 : (a ++ [m] ++ b)[a.length]? = some m := by
      rw [List.append_assoc, List.getElem?_append_right (Nat.le_refl _)]; simp
    rw [h, List.getElem?_append_left hlt] at h1
    have : m ∈ X := List.mem_of_getElem? h1
    exact absurd this hm
  · have he : a.length = X.length := by omega
    have hb : b = [] := List.eq_nil_of_length_eq_zero (by omega)
    subst hb
    simp only [List.append_nil] at h
    exact ⟨(List.append_inj h he).1, rfl⟩

theorem readTail_spec (g : Grammar) (mc : Nat) : ∀ (fuel : Nat) (σ τ str X : List Nat),
    (∀ r ∈ σ, g.expandSym r ≠ []) → str ≠ [] → str ++ g.expand σ = X ++ [mc] → mc ∉ X → σ.length < fuel →
    readTail g mc fuel (σ ++ τ) str = some (X ++ [mc], τ)
  | 0, _, _, _, _, _, _, _, _, hf => by omega
  | fuel + 1, σ, τ, str, X, hne, hs, heq, hm, hf => by
    unfold readTail
    obtain ⟨l, hl⟩ : ∃ l, str.getLast? = some l := by
      cases h : str.getLast? with
      | none => exact absurd (List.getLast?_eq_none_iff.mp h) hs
      | some l => exact ⟨l, rfl⟩
    rw [hl]
    simp only
    obtain ⟨str', rfl⟩ : ∃ str', str = str' ++ [l] := by
      have := List.getLast?_eq_some_iff.mp hl
      obtain ⟨ys, h⟩ := this
      exact ⟨ys, h⟩
    by_cases hlm : l = mc
    · subst hlm
      simp only [↓reduceIte]
      obtain ⟨h1, h2⟩ := mark_unique heq hm
      have hσ : σ = [] := by
        cases σ with
        | nil => rfl
        | cons r σ' =>
          rw [expand_cons] at h2
          have := hne r (by simp)
          simp at h2
          exact absurd h2.1 this
      subst hσ; subst h1
      simp
    · simp only [hlm, ↓reduceIte]
      cases σ with
      | nil =>
        simp only [Grammar.expand, List.flatMap_nil, List.append_nil] at heq
        have := congrArg List.getLast? heq
        simp at this
        exact absurd this hlm
      | cons r σ' =>
        simp only [List.cons_append]
        apply readTail_spec g mc fuel σ' τ _ X (fun x hx => hne x (List.mem_cons_of_mem _ hx)) (by simp)
        · rw [expand_cons] at heq; simpa [List.append_assoc] using heq
        · exact hm
        · simp at hf; omega

theorem natsOf_append (a b : Str) : natsOf (a ++ b) = natsOf a ++ natsOf b := by simp [natsOf]
theorem natsOf_take (a : Str) (k : Nat) : (natsOf a).take k = natsOf (a.take k) := by simp [natsOf, List.map_take]

/-- `decodeString` on a stream that stores `cur` after `prev`. -/
theorem decodeString_spec (d : D) (prev cur : Str) (σ τ : List Nat)
    (hσ : d.g.expand σ = entry d.maxchar prev cur) (hne : ∀ r ∈ σ, d.g.expandSym r ≠ [])
    (hl : lcp prev cur < 16384) (hsuf : cur.drop (lcp prev cur) ≠ [])
    (hmc : ∀ b ∈ cur, b.toNat ≠ d.maxchar) :
    decodeString d prev (σ ++ τ) = some (lcp prev cur, cur, τ) := by
  have hElen : (VByte.encode (lcp prev cur)).length ≤ 2 :=
    VByte.encode_length_le (lcp prev cur) 2 (by decide) (by simpa using hl)
  have hEpos := VByte.encode_length_pos (lcp prev cur)
  have hentry_len : 3 ≤ (entry d.maxchar prev cur).length := by
    unfold entry natsOf
    have : 1 ≤ (cur.drop (lcp prev cur)).length := by
      cases h : cur.drop (lcp prev cur) with
      | nil => exact absurd h hsuf
      | cons _ _ => simp
    simp only [List.length_append, List.length_map, List.length_cons, List.length_nil]
    omega
  obtain ⟨σ1, σ2, hs, hread, hvl⟩ := readVB_spec d.g 3 σ τ [] hne (by rw [hσ]; simp; omega) (by simp)
  simp only [List.nil_append] at hread hvl
  -- the bytes read start with the VByte
  have hsplit : d.g.expand σ1 ++ d.g.expand σ2 = entry d.maxchar prev cur := by
    rw [← expand_append, ← hs, hσ]
  obtain ⟨w, hw⟩ : ∃ w, d.g.expand σ1 = natsOf (VByte.encode (lcp prev cur)) ++ w := by
    have h1 : (natsOf (VByte.encode (lcp prev cur))).length ≤ (d.g.expand σ1).length := by
      simp only [natsOf, List.length_map]; omega
    have h2 : natsOf (VByte.encode (lcp prev cur)) <+: d.g.expand σ1 ++ d.g.expand σ2 := by
      rw [hsplit]; unfold entry
      exact ⟨natsOf (cur.drop (lcp prev cur)) ++ [d.maxchar], by simp [List.append_assoc]⟩
    have := List.prefix_of_prefix_length_le h2 (List.prefix_append _ _) h1
    obtain ⟨w, hw⟩ := this
    exact ⟨w, hw.symm⟩
  have hrest : w ++ d.g.expand σ2 = natsOf (cur.drop (lcp prev cur)) ++ [d.maxchar] := by
    have : natsOf (VByte.encode (lcp prev cur)) ++ (w ++ d.g.expand σ2)
        = natsOf (VByte.encode (lcp prev cur)) ++ (natsOf (cur.drop (lcp prev cur)) ++ [d.maxchar]) := by
      rw [← List.append_assoc, ← hw, hsplit]; unfold entry; simp [List.append_assoc]
    exact List.append_cancel_left this
  unfold decodeString
  rw [hread]
  simp only
  have hbytes : toBytes (d.g.expand σ1) = VByte.encode (lcp prev cur) ++ toBytes w := by
    rw [hw]; unfold toBytes; rw [List.map_append]; congr 1; exact toBytes_natsOf _
  rw [hbytes, VByte.decode_encode]
  simp only
  have hle := lcp_le_left prev cur
  have hnot : ¬ lcp prev cur > prev.length := by omega
  simp only [hnot, ↓reduceIte]
  -- the string under construction and what is still to be read
  have hdrop : (d.g.expand σ1).drop (VByte.encode (lcp prev cur)).length = w := by
    rw [hw]
    have : (VByte.encode (lcp prev cur)).length = (natsOf (VByte.encode (lcp prev cur))).length := by simp [natsOf]
    rw [this, List.drop_left]
  rw [hdrop]
  have hstr0 : (List.take (lcp prev cur) (List.map (fun x => x.toNat) prev)).append w
      = natsOf (prev.take (lcp prev cur)) ++ w := by
    show (natsOf prev).take (lcp prev cur) ++ w = _
    rw [natsOf_take]
  rw [hstr0]
  have hne2 : ∀ r ∈ σ2, d.g.expandSym r ≠ [] := fun r hr => hne r (by rw [hs]; simp [hr])
  have hX : natsOf (prev.take (lcp prev cur)) ++ w ++ d.g.expand σ2 = natsOf cur ++ [d.maxchar] := by
    rw [List.append_assoc, hrest, ← List.append_assoc, ← natsOf_append, take_lcp_append_drop]
  have hmem : d.maxchar ∉ natsOf cur := by
    intro h
    simp only [natsOf, List.mem_map] at h
    obtain ⟨b, hb, he⟩ := h
    exact hmc b hb he
  have hstr_ne : natsOf (prev.take (lcp prev cur)) ++ w ≠ [] := by
    intro h
    have h1 := (List.append_eq_nil_iff.mp h)
    have hw0 : w = [] := h1.2
    have ht : (prev.take (lcp prev cur)).length = 0 := by
      have := congrArg List.length h1.1; simpa [natsOf] using this
    have hl0 : lcp prev cur = 0 := by
      simp only [List.length_take] at ht; omega
    -- lcp = 0: the VByte is one byte, so two bytes read leave a non-empty w
    have : (VByte.encode (lcp prev cur)).length = 1 := by rw [hl0]; unfold VByte.encode; simp
    rw [hw, hw0] at hvl
    simp [natsOf, this] at hvl
  rw [readTail_spec d.g d.maxchar _ σ2 τ _ (natsOf cur) hne2 hstr_ne hX hmem (by simp; omega)]
  simp only [List.dropLast_concat, toBytes_natsOf]

end CSD.RPFC
