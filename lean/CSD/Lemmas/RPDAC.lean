import CSD.Model.RPDAC
import CSD.Lemmas.RePair
import CSD.Lemmas.Sorted

/-! The query layer of RPDAC is correct over every well-formed grammar. -/
namespace CSD.RPDAC
open CSD CSD.RePair

/-! ### the grammar: a rule stands for the concatenation of its sides -/

theorem wellFounded_get (t : Nat) : ∀ (rules : List (Nat × Nat)) (k0 : Nat), wellFounded t k0 rules = true →
    ∀ i (hi : i < rules.length), rules[i].1 < t + (k0 + i) ∧ rules[i].2 < t + (k0 + i)
  | [], _, _, i, hi => by simp at hi
  | (a, b) :: rest, k0, h, i, hi => by
    simp only [wellFounded, Bool.and_eq_true, decide_eq_true_eq] at h
    cases i with
    | zero => simp; omega
    | succ i =>
      have := wellFounded_get t rest (k0 + 1) h.2 i (by simpa using hi)
      simp only [List.getElem_cons_succ]
      omega

theorem expandSym_rule (g : Grammar) (hwf : g.wf = true) (k : Nat) (hk : k < g.rules.length) :
    g.expandSym (g.terminals + k) = g.expandSym g.rules[k].1 ++ g.expandSym g.rules[k].2 := by
  have hsplit : g.rules = g.rules.take k ++ ([g.rules[k]] ++ g.rules.drop (k + 1)) := by
    rw [List.singleton_append, ← List.drop_eq_getElem_cons hk, List.take_append_drop]
  have hab := wellFounded_get g.terminals g.rules 0 hwf k hk
  simp only [Nat.zero_add] at hab
  -- the table after the first k rules
  let T1 := buildTable g.terminals (g.rules.take k) []
  have hT1 : T1.length = k := by
    obtain ⟨extra, he, hl⟩ := buildTable_prefix g.terminals (g.rules.take k) []
    show (buildTable g.terminals (g.rules.take k) []).length = k
    rw [he]; simp [hl]; omega
  let E := expandWith g.terminals T1 g.rules[k].1 ++ expandWith g.terminals T1 g.rules[k].2
  have htab : ∃ extra, g.table = T1 ++ [E] ++ extra := by
    unfold Grammar.table
    rw [hsplit, buildTable_append, buildTable_append]
    obtain ⟨extra, he, _⟩ := buildTable_prefix g.terminals (g.rules.drop (k + 1))
      (buildTable g.terminals [g.rules[k]] (buildTable g.terminals (g.rules.take k) []))
    refine ⟨extra, ?_⟩
    rw [he]
    rfl
  obtain ⟨extra, htab⟩ := htab
  unfold Grammar.expandSym
  rw [htab]
  have h1 : expandWith g.terminals (T1 ++ [E] ++ extra) g.rules[k].1 = expandWith g.terminals T1 g.rules[k].1 := by
    rw [List.append_assoc]; exact expandWith_append _ _ _ _ (by omega)
  have h2 : expandWith g.terminals (T1 ++ [E] ++ extra) g.rules[k].2 = expandWith g.terminals T1 g.rules[k].2 := by
    rw [List.append_assoc]; exact expandWith_append _ _ _ _ (by omega)
  rw [h1, h2]
  unfold expandWith
  rw [if_neg (by omega)]
  have : g.terminals + k - g.terminals = T1.length := by omega
  rw [this]
  simp [List.getD_eq_getElem?_getD, E, expandWith]

theorem expandSym_term (g : Grammar) (s : Nat) (hs : s < g.terminals) : g.expandSym s = [s] := by
  simp [Grammar.expandSym, expandWith, hs]

/-! ### comparing a list of terminals -/

/-- Compare terminals one by one (what the nested rule comparison amounts to). -/
def cmpList (buf : List Nat) : List Nat → Nat → Option (Int × Nat)
  | [], pos => some (0, pos)
  | s :: rest, pos =>
    match cmpTerm buf s pos with
    | none => none
    | some (c, p) => if c ≠ 0 then some (c, p) else cmpList buf rest p

/-- Sequencing two comparisons. -/
def andThen (r : Option (Int × Nat)) (k : Nat → Option (Int × Nat)) : Option (Int × Nat) :=
  match r with
  | none => none
  | some (c, p) => if c ≠ 0 then some (c, p) else k p

theorem cmpList_append (buf : List Nat) : ∀ (a b : List Nat) (pos : Nat),
    cmpList buf (a ++ b) pos = andThen (cmpList buf a pos) (cmpList buf b)
  | [], b, pos => by simp [cmpList, andThen]
  | s :: a, b, pos => by
    simp only [List.cons_append, cmpList]
    cases h : cmpTerm buf s pos with
    | none => simp [andThen]
    | some cp =>
      obtain ⟨c, p⟩ := cp
      simp only
      by_cases hc : c ≠ 0
      · simp [hc, andThen]
      · simp only [hc, ↓reduceIte]
        exact cmpList_append buf a b p

theorem cmpList_single (buf : List Nat) (s pos : Nat) : cmpList buf [s] pos = cmpTerm buf s pos := by
  simp only [cmpList]
  cases h : cmpTerm buf s pos with
  | none => rfl
  | some cp =>
    obtain ⟨c, p⟩ := cp
    by_cases hc : c ≠ 0
    · simp [hc]
    · have : c = 0 := by omega
      subst this; simp

/-- The nested comparison of a rule equals the flat comparison of its expansion. -/
theorem cmpRule_eq (g : Grammar) (hwf : g.wf = true) (buf : List Nat) :
    ∀ (k : Nat), k < g.rules.length → ∀ fuel, k + 1 ≤ fuel → ∀ pos,
      cmpRule g buf fuel k pos = cmpList buf (g.expandSym (g.terminals + k)) pos := by
  intro k
  induction k using Nat.strongRecOn with
  | _ k ih =>
    intro hk fuel hf pos
    cases fuel with
    | zero => omega
    | succ fuel =>
      have hab := wellFounded_get g.terminals g.rules 0 hwf k hk
      simp only [Nat.zero_add] at hab
      have hside : ∀ (s p : Nat), s < g.terminals + k →
          (if s ≥ g.terminals then cmpRule g buf fuel (s - g.terminals) p else cmpTerm buf s p) =
            cmpList buf (g.expandSym s) p := by
        intro s p hs
        by_cases hge : s ≥ g.terminals
        · rw [if_pos hge]
          have := ih (s - g.terminals) (by omega) (by omega) fuel (by omega) p
          rw [this]
          congr 2; omega
        · rw [if_neg hge, expandSym_term g s (by omega), cmpList_single]
      unfold cmpRule
      rw [List.getElem?_eq_getElem hk]
      simp only
      rw [expandSym_rule g hwf k hk, cmpList_append, hside _ pos hab.1]
      unfold andThen
      cases h : cmpList buf (g.expandSym g.rules[k].1) pos with
      | none => rfl
      | some cp =>
        obtain ⟨c, p⟩ := cp
        simp only
        by_cases hc : c ≠ 0
        · simp [hc]
        · simp only [hc, ↓reduceIte]
          exact hside _ p hab.2

/-- The symbol loop equals the flat comparison of the whole expansion. -/
theorem cmpSyms_eq (g : Grammar) (hwf : g.wf = true) (buf : List Nat) :
    ∀ (syms : List Nat), (∀ s ∈ syms, s < g.terminals + g.rules.length) → ∀ pos,
      cmpSyms g buf syms pos = cmpList buf (g.expand syms) pos
  | [], _, pos => by simp [cmpSyms, Grammar.expand, cmpList]
  | s :: rest, hv, pos => by
    have hs := hv s (by simp)
    have hrest : ∀ x ∈ rest, x < g.terminals + g.rules.length := fun x hx => hv x (by simp [hx])
    have hstep : (if s ≥ g.terminals then cmpRule g buf (g.rules.length + 1) (s - g.terminals) pos
        else cmpTerm buf s pos) = cmpList buf (g.expandSym s) pos := by
      by_cases hge : s ≥ g.terminals
      · rw [if_pos hge, cmpRule_eq g hwf buf (s - g.terminals) (by omega) _ (by omega) pos]
        congr 2; omega
      · rw [if_neg hge, expandSym_term g s (by omega), cmpList_single]
    have hexp : g.expand (s :: rest) = g.expandSym s ++ g.expand rest := by
      simp [Grammar.expand]
    unfold cmpSyms
    simp only
    rw [hstep, hexp, cmpList_append]
    unfold andThen
    cases h : cmpList buf (g.expandSym s) pos with
    | none => rfl
    | some cp =>
      obtain ⟨c, p⟩ := cp
      simp only
      by_cases hc : c ≠ 0
      · simp [hc]
      · simp only [hc, ↓reduceIte]
        exact cmpSyms_eq g hwf buf rest hrest p

end CSD.RPDAC
