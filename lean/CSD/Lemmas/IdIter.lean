import CSD.Model.IdIter

namespace CSD.IdIter

theorem drain_range : ∀ (k : Nat) (p r : Nat), p + k = r → r < W64 →
    Contig.drain (k + 1) { processed := p, scanneable := r } = (List.range k).map (· + p + 1)
  | 0, p, r, h, _ => by
    have : ¬ p < r := by omega
    simp [Contig.drain, Contig.hasNext, this]
  | k + 1, p, r, h, hr => by
    have hlt : p < r := by omega
    have hmod : (p + 1) % W64 = p + 1 := Nat.mod_eq_of_lt (by omega)
    rw [Contig.drain]
    simp only [Contig.hasNext, hlt, decide_true, ↓reduceIte, Contig.next, hmod]
    rw [drain_range k (p + 1) r (by omega) hr, List.range_succ_eq_map]
    simp only [List.map_cons, List.map_map]
    congr 1
    · omega
    · apply List.map_congr_left; intro a _; simp; omega

/-- The contiguous ID iterator yields exactly `left, left+1, …, right`, each once,
in ascending order, and then `hasNext` is false. -/
theorem contig_drain (left right : Nat) (h1 : 1 ≤ left) (h2 : left ≤ right) (h3 : right < W64) :
    Contig.drain (right - left + 2) (Contig.mk' left right) = (List.range (right - left + 1)).map (· + left) := by
  have hp : (left + W64 - 1) % W64 = left - 1 := by
    have : left + W64 - 1 = (left - 1) + W64 := by omega
    rw [this, Nat.add_mod_right]; exact Nat.mod_eq_of_lt (by omega)
  unfold Contig.mk'
  rw [hp, drain_range (right - left + 1) (left - 1) right (by omega) h3]
  apply List.map_congr_left; intro a _; omega

/-- The "no result" encoding `(NORESULT, NORESULT)` is an empty stream: the wrapped
counter 2^64 − 1 is not below 0. -/
theorem contig_empty (fuel : Nat) : Contig.drain fuel (Contig.mk' 0 0) = [] := by
  cases fuel with
  | zero => rfl
  | succ f => simp [Contig.drain, Contig.hasNext, Contig.mk', W64]

end CSD.IdIter
