import CSD.Lemmas.ChunkDec

/-! Decoding a whole NUL-terminated string chunk by chunk. -/
namespace CSD.ChunkDec
open CSD.Codes

/-- What a step does to the bit stream and what it writes — independent of the counters of the scan. -/
def stepBits (table : Nat → Option Entry) (k : Nat) (pend : List Bool) (bytes : List Nat) :
    Option (List Nat × List Bool × List Nat) :=
  (processChunk table k { pend := pend, bytes := bytes, strLen := 0, advanced := 0, extracted := 0 }).map
    fun r => (r.1, r.2.2.pend, r.2.2.bytes)

theorem processChunk_bits (table : Nat → Option Entry) (k : Nat) (c : Scan) :
    (processChunk table k c).map (fun r => (r.1, r.2.2.pend, r.2.2.bytes)) = stepBits table k c.pend c.bytes := by
  unfold stepBits processChunk
  simp only
  cases refill k (k + 2) c.pend c.bytes with
  | none => rfl
  | some pb =>
    obtain ⟨pend, bytes⟩ := pb
    simp only
    cases table (bitsVal (pend.take k)) with
    | none => rfl
    | some e =>
      cases e with
      | str syms bits ending =>
        simp only
        split
        · rfl
        · repeat' split
          all_goals simp
      | sub st =>
        simp only
        cases walk 64 st (pend.drop k) bytes with
        | none => rfl
        | some r => rfl

/-- Repeat the step until `need` symbols have been written. -/
def decodeAll (table : Nat → Option Entry) (k : Nat) : Nat → List Bool → List Nat → Nat → Option (List Nat)
  | _, _, _, 0 => some []
  | 0, _, _, _ + 1 => none
  | fuel + 1, pend, bytes, need + 1 =>
    match stepBits table k pend bytes with
    | none => none
    | some (out, pend', bytes') => (decodeAll table k fuel pend' bytes' (need + 1 - out.length)).map (out ++ ·)

theorem decode_prefix (t : Tree) : ∀ (a b : Nat) (s : List Bool) (o : List Nat) (r : List Bool),
    decode t (a + b) s = some (o, r) → ∃ r', decode t a s = some (o.take a, r')
  | 0, b, s, o, r, _ => ⟨s, by simp [decode]⟩
  | a + 1, b, s, o, r, h => by
    have e : a + 1 + b = (a + b) + 1 := by omega
    rw [e] at h
    simp only [decode] at h ⊢
    cases hd : decodeSym t s with
    | none => rw [hd] at h; cases h
    | some p =>
      obtain ⟨x, rest⟩ := p
      rw [hd] at h
      simp only at h ⊢
      cases hr : decode t (a + b) rest with
      | none => rw [hr] at h; cases h
      | some q =>
        obtain ⟨w, r2⟩ := q
        rw [hr] at h
        simp only [Option.some.injEq, Prod.mk.injEq] at h
        obtain ⟨rfl, rfl⟩ := h
        obtain ⟨r', hr'⟩ := decode_prefix t a b rest w r2 hr
        exact ⟨r', by rw [hr']; simp⟩

theorem padTo_append (k : Nat) (a b : List Bool) : ∃ z, padTo k (a ++ b) = a ++ (b ++ z) :=
  ⟨List.replicate (k - (a ++ b).length) false, by simp [padTo]⟩

/-- **A whole string is decoded back to itself, chunk by chunk**: if the stream — from whatever bit
position, pending bits first, then bytes — holds the encoding of `w`, a string with no terminator before
its last symbol, then repeating `processChunk` until `|w|` symbols are written writes exactly `w`
(whatever follows `w` in the stream, and although an entry may decode past the end of `w`). -/
theorem decodeAll_spec (t : Tree) (k : Nat) (table : Nat → Option Entry) (hT : TableOK t k table) :
    ∀ (fuel : Nat) (pend : List Bool) (bytes : List Nat) (w : List Nat) (enc rest : List Bool) (o : List Nat),
    encode t w = some enc → (∀ i, i + 1 < w.length → w[i]? ≠ some 0) →
    padTo k (stream pend bytes) = enc ++ rest →
    decodeAll table k fuel pend bytes w.length = some o → o.take w.length = w := by
  intro fuel
  induction fuel with
  | zero =>
    intro pend bytes w enc rest o _ _ _ h
    cases w with
    | nil => simp
    | cons a w => simp [decodeAll] at h
  | succ fuel ih =>
    intro pend bytes w enc rest o henc hnz hs h
    cases hw : w with
    | nil => simp
    | cons a w0 =>
      have hlen : w.length = w0.length + 1 := by rw [hw]; rfl
      rw [hlen] at h
      simp only [decodeAll] at h
      cases hsb : stepBits table k pend bytes with
      | none => rw [hsb] at h; cases h
      | some r =>
        obtain ⟨out, pend', bytes'⟩ := r
        rw [hsb] at h
        simp only at h
        -- the step behind `stepBits`
        have hpc := processChunk_bits table k { pend := pend, bytes := bytes, strLen := 0, advanced := 0, extracted := 0 }
        simp only at hpc
        rw [hsb] at hpc
        cases hp : processChunk table k { pend := pend, bytes := bytes, strLen := 0, advanced := 0, extracted := 0 } with
        | none => rw [hp] at hpc; cases hpc
        | some pr =>
          obtain ⟨out0, flag, c'⟩ := pr
          rw [hp] at hpc
          simp only [Option.map_some, Option.some.injEq, Prod.mk.injEq] at hpc
          obtain ⟨rfl, rfl, rfl⟩ := hpc
          obtain ⟨hne, r, hdec, hr⟩ := processChunk_sound t k table hT _ _ _ _ hp
          simp only at hdec hr
          rw [hs] at hdec
          cases hrec : decodeAll table k fuel c'.pend c'.bytes (w0.length + 1 - out0.length) with
          | none => rw [hrec] at h; cases h
          | some o' =>
            rw [hrec] at h
            simp only [Option.map_some, Option.some.injEq] at h
            subst h
            rw [← hw, hlen]
            by_cases hcmp : out0.length < w.length
            · -- the step stays inside `w`
              have hon := processChunk_on_encoded t k table hT _ _ _ _ hp w enc rest henc hs (by omega)
              obtain ⟨hout, hnext⟩ := hon
              have hlast : out0.getLast? ≠ some 0 := by
                intro hl
                have hpos : 0 < out0.length := List.length_pos_iff.mpr hne
                rw [List.getLast?_eq_getElem?] at hl
                have : w[out0.length - 1]? = some 0 := by
                  rw [hout] at hl
                  rw [List.getElem?_take] at hl
                  simp only [List.length_take] at hl
                  have e1 : min out0.length w.length - 1 < out0.length := by omega
                  rw [if_pos e1] at hl
                  have e2 : min out0.length w.length - 1 = out0.length - 1 := by omega
                  rw [e2] at hl; exact hl
                exact hnz (out0.length - 1) (by omega) this
              obtain ⟨e2, he2, hst⟩ := hnext hlast
              obtain ⟨z, hz⟩ := padTo_append k e2 rest
              rw [← hst] at hz
              have hlen' : (w.drop out0.length).length = w0.length + 1 - out0.length := by
                rw [List.length_drop, hlen]
              have hnz' : ∀ i, i + 1 < (w.drop out0.length).length → (w.drop out0.length)[i]? ≠ some 0 := by
                intro i hi
                rw [List.getElem?_drop]
                rw [List.length_drop] at hi
                exact hnz (out0.length + i) (by omega)
              rw [← hlen'] at hrec
              have := ih c'.pend c'.bytes (w.drop out0.length) e2 (rest ++ z) o' he2 hnz' hz hrec
              rw [← hlen]
              rw [List.take_append]
              have e3 : out0.take w.length = out0 := List.take_of_length_le (by omega)
              rw [e3]
              have e4 : w.length - out0.length = (w.drop out0.length).length := by rw [List.length_drop]
              rw [e4, this]
              conv => rhs; rw [← List.take_append_drop out0.length w]
              rw [← hout]
            · -- the step reaches the end of `w` (or decodes beyond it)
              have hge : w.length ≤ out0.length := by omega
              have e : out0.length = w.length + (out0.length - w.length) := by omega
              rw [e] at hdec
              obtain ⟨r', hr'⟩ := decode_prefix t w.length _ _ _ _ hdec
              have := decode_encode t w enc rest henc
              rw [hr'] at this
              simp only [Option.some.injEq, Prod.mk.injEq] at this
              rw [← hlen, List.take_append_of_le_length hge]
              exact this.1

end CSD.ChunkDec
