/-
  RPFC, part 7: `locateBoundaryBuckets` of RPFC on an object that stores `S` is `locateBoundaryBuckets` of
  the plain front-coded dictionary built from `S` — both read the same plain headers.
-/
import CSD.Lemmas.RPFC6
import CSD.Lemmas.PFCPrefixD

namespace CSD.RPFC
open CSD.RePair CSD.PFC

section
variable {S : List Str} {d : D}

theorem buckets_eq_build (hst : Stores S d) : d.buckets = (build d.bucketsize S).buckets := by
  rw [chunks_length_stores hst, build_buckets, clamp_of_ge2 hst.b2]

/-- Both header reads agree on every bucket number in range. -/
theorem header_sim (hst : Stores S d) (hS : ∀ s ∈ S, nulFree s) (k : Nat) (h1 : 1 ≤ k) (h2 : k ≤ d.buckets) :
    ∃ ptr, header d k = some (hd d.bucketsize S k) ∧ hdrOf (build d.bucketsize S) k = some (hd d.bucketsize S k, ptr) := by
  have h2' : k ≤ (build d.bucketsize S).buckets := by rw [← buckets_eq_build hst]; exact h2
  obtain ⟨L, rest, _, hh⟩ := hdrOf_build d.bucketsize S hS k h1 h2'
  refine ⟨_, ?_, hh⟩
  have hlt := bucket_idx_lt d.bucketsize S k h1 h2'
  rw [clamp_of_ge2 hst.b2] at hlt
  rw [header_stores hst k h1 hlt, hd_get d.bucketsize S k h1 h2']
  congr 1
  simp only [clamp_of_ge2 hst.b2]

theorem bbFirst_sim (hst : Stores S d) (hS : ∀ s ∈ S, nulFree s) (p : Str) :
    ∀ (fuel left right center : Nat) (cmp : Int), 1 ≤ left → right ≤ d.buckets →
      bbFirst d p fuel left right center cmp = PFC.bbFirst (build d.bucketsize S) p fuel left right center cmp
  | 0, _, _, _, _, _, _ => rfl
  | fuel + 1, left, right, center, cmp, h1, h2 => by
    unfold bbFirst PFC.bbFirst
    by_cases h : left ≤ right
    · simp only [h, ↓reduceIte]
      obtain ⟨ptr, ha, hb⟩ := header_sim hst hS ((left + right) / 2) (by omega) (by omega)
      rw [ha, hb]
      simp only [ncmp, PFC.ncmp]
      by_cases c1 : scmp (List.take (List.length p) (hd d.bucketsize S ((left + right) / 2))) p > 0
      · simp only [c1, ↓reduceIte]
        exact bbFirst_sim hst hS p fuel _ _ _ _ h1 (by omega)
      · simp only [c1, ↓reduceIte]
        by_cases c2 : scmp (List.take (List.length p) (hd d.bucketsize S ((left + right) / 2))) p < 0
        · simp only [c2, ↓reduceIte]
          exact bbFirst_sim hst hS p fuel _ _ _ _ (by omega) h2
        · simp only [c2, ↓reduceIte]
    · simp [h]

theorem bbLeft_sim (hst : Stores S d) (hS : ∀ s ∈ S, nulFree s) (p : Str) :
    ∀ (fuel ll lr : Nat), 1 ≤ ll → lr ≤ d.buckets →
      bbLeft d p fuel ll lr = PFC.bbLeft (build d.bucketsize S) p fuel ll lr
  | 0, _, _, _, _ => rfl
  | fuel + 1, ll, lr, h1, h2 => by
    unfold bbLeft PFC.bbLeft
    by_cases h : ll ≤ lr
    · simp only [h, ↓reduceIte]
      obtain ⟨ptr, ha, hb⟩ := header_sim hst hS ((ll + lr) / 2) (by omega) (by omega)
      rw [ha, hb]
      simp only [ncmp, PFC.ncmp]
      by_cases c1 : scmp (List.take (List.length p) (hd d.bucketsize S ((ll + lr) / 2))) p = 0
      · simp only [c1, ↓reduceIte]
        exact bbLeft_sim hst hS p fuel _ _ h1 (by omega)
      · simp only [c1, ↓reduceIte]
        exact bbLeft_sim hst hS p fuel _ _ (by omega) h2
    · simp [h]

theorem bbRight_sim (hst : Stores S d) (hS : ∀ s ∈ S, nulFree s) (p : Str) :
    ∀ (fuel rl rr : Nat), 1 ≤ rl → rr ≤ d.buckets + 1 →
      bbRight d p fuel rl rr = PFC.bbRight (build d.bucketsize S) p fuel rl rr
  | 0, _, _, _, _ => rfl
  | fuel + 1, rl, rr, h1, h2 => by
    unfold bbRight PFC.bbRight
    by_cases h : rl < rr - 1
    · simp only [h, ↓reduceIte]
      obtain ⟨ptr, ha, hb⟩ := header_sim hst hS ((rl + rr) / 2) (by omega) (by omega)
      rw [ha, hb]
      simp only [ncmp, PFC.ncmp]
      by_cases c1 : scmp (List.take (List.length p) (hd d.bucketsize S ((rl + rr) / 2))) p = 0
      · simp only [c1, ↓reduceIte]
        exact bbRight_sim hst hS p fuel _ _ (by omega) h2
      · simp only [c1, ↓reduceIte]
        exact bbRight_sim hst hS p fuel _ _ h1 (by omega)
    · simp [h]

end
end CSD.RPFC
