import CSD.Model.Hash

/-! Number-theoretic facts behind double hashing with a prime table size. -/
namespace CSD.Hash

def IsPrime (m : Nat) : Prop := 2 ≤ m ∧ ∀ d, d ∣ m → d = 1 ∨ d = m

theorem coprime_of_prime_lt {m k : Nat} (hp : IsPrime m) (h0 : 0 < k) (hk : k < m) : Nat.Coprime m k := by
  unfold Nat.Coprime
  have hd : Nat.gcd m k ∣ m := Nat.gcd_dvd_left m k
  rcases hp.2 _ hd with h | h
  · exact h
  · exfalso
    have : m ∣ k := by rw [← h]; exact Nat.gcd_dvd_right m k
    have := Nat.le_of_dvd h0 this
    omega

theorem bitwisehash_lt (w : Str) (m : Nat) (hm : 0 < m) : bitwisehash w m < m := by
  unfold bitwisehash; exact Nat.mod_lt _ hm

theorem stepValue_range (w : Str) (m : Nat) (hm : 2 ≤ m) : 1 ≤ stepValue w m ∧ stepValue w m < m := by
  unfold stepValue
  have h1 : ¬ m = 1 := by omega
  simp only [h1, ↓reduceIte]
  split
  · omega
  · rename_i h
    have : List.foldl (fun h c => (h <<< 5 % M32 ^^^ h >>> 27) ^^^ c.toNat) 4294967197 w % (m - 1) < m - 1 :=
      Nat.mod_lt _ (by omega)
    omega

theorem probe_lt (h h2 m i : Nat) (hm : 0 < m) : probe h h2 m i < m := Nat.mod_lt _ hm

/-- **The probe sequence visits pairwise distinct cells**: with a prime table size
and a step in `[1, m)`, the `m` probes `h + i·h2 (mod m)` are all different — so an
insertion into a table that is not full always finds a free cell, and a search
never revisits a cell. -/
theorem probe_injective {m h h2 : Nat} (hp : IsPrime m) (h2pos : 0 < h2) (h2lt : h2 < m)
    {i j : Nat} (hi : i < m) (hj : j < m) (heq : probe h h2 m i = probe h h2 m j) : i = j := by
  have key : ∀ a b : Nat, a ≤ b → b < m → probe h h2 m a = probe h h2 m b → a = b := by
    intro a b hab hb he
    unfold probe at he
    have h0 := Nat.sub_mod_eq_zero_of_mod_eq he.symm
    have hdiff : h + b * h2 - (h + a * h2) = (b - a) * h2 := by
      rw [Nat.sub_mul]
      have : a * h2 ≤ b * h2 := Nat.mul_le_mul_right _ hab
      omega
    rw [hdiff] at h0
    have hdvd : m ∣ (b - a) * h2 := Nat.dvd_of_mod_eq_zero h0
    have hcop := coprime_of_prime_lt hp h2pos h2lt
    have hd2 : m ∣ b - a := Nat.Coprime.dvd_of_dvd_mul_right hcop hdvd
    rcases Nat.eq_zero_or_pos (b - a) with hz | hz
    · omega
    · have := Nat.le_of_dvd hz hd2; omega
  rcases Nat.le_total i j with h' | h'
  · exact key i j h' hj heq
  · exact (key j i h' hi heq.symm).symm

end CSD.Hash
