import CSD.Model.LogSeq

/-! Bit-level facts about `get_field` / `set_field` of `LogSequence`. -/
namespace CSD.LogSeq

/-- Bit `k` of the word array (bit 0 = least significant bit of word 0). -/
def bit (d : List Word) (k : Nat) : Bool := ((d[k / 64]?).getD 0).getLsbD (k % 64)

theorem getLsbD_ge (a : Word) (i : Nat) (h : 64 ≤ i) : a.getLsbD i = false :=
  BitVec.getLsbD_of_ge a i h

/-- `get_field` returns exactly the `w` bits starting at bit `idx*w`, for every
width 1..64 and every position, including fields that straddle two words. -/
theorem getField_spec (d : List Word) (w idx : Nat) (hw1 : 1 ≤ w) (hw : w ≤ 64)
    (hb : idx * w + w ≤ 64 * d.length) :
    ∃ r, getField d w idx = some r ∧ ∀ t, r.getLsbD t = (decide (t < w) && bit d (idx * w + t)) := by
  unfold getField
  generalize idx * w = P at hb ⊢
  have hi : P / 64 < d.length := by omega
  have ha : d[P / 64]? = some d[P / 64] := List.getElem?_eq_getElem hi
  by_cases hc : P % 64 + w ≤ 64
  · simp only [hc, ↓reduceIte, ha]
    refine ⟨_, rfl, ?_⟩
    intro t
    rw [BitVec.getLsbD_ushiftRight, BitVec.getLsbD_shiftLeft]
    by_cases ht : t < w
    · have e1 : (P + t) / 64 = P / 64 := by omega
      have e2 : (P + t) % 64 = P % 64 + t := by omega
      have c1 : 64 - w + t < 64 := by omega
      have c2 : ¬ (64 - w + t < 64 - P % 64 - w) := by omega
      have c3 : 64 - w + t - (64 - P % 64 - w) = P % 64 + t := by omega
      simp [bit, ht, e1, e2, ha, c1, c2, c3]
    · have c1 : ¬ (64 - w + t < 64) := by omega
      simp [ht, c1]
  · simp only [hc, ↓reduceIte]
    have hi2 : P / 64 + 1 < d.length := by omega
    have hb2 : d[P / 64 + 1]? = some d[P / 64 + 1] := List.getElem?_eq_getElem hi2
    simp only [ha, hb2]
    refine ⟨_, rfl, ?_⟩
    intro t
    rw [BitVec.getLsbD_or, BitVec.getLsbD_ushiftRight, BitVec.getLsbD_ushiftRight, BitVec.getLsbD_shiftLeft]
    by_cases ht : t < w
    · by_cases h1 : P % 64 + t < 64
      · -- still in the first word
        have e1 : (P + t) / 64 = P / 64 := by omega
        have e2 : (P + t) % 64 = P % 64 + t := by omega
        have c2 : (64 - w + t < 128 - P % 64 - w) := by omega
        simp [bit, ht, e1, e2, ha, c2]
      · -- in the second word
        have e1 : (P + t) / 64 = P / 64 + 1 := by omega
        have e2 : (P + t) % 64 = P % 64 + t - 64 := by omega
        have c0 : d[P / 64].getLsbD (P % 64 + t) = false := getLsbD_ge _ _ (by omega)
        have c1 : 64 - w + t < 64 := by omega
        have c2 : ¬ (64 - w + t < 128 - P % 64 - w) := by omega
        have c3 : 64 - w + t - (128 - P % 64 - w) = P % 64 + t - 64 := by omega
        simp [bit, ht, e1, e2, hb2, c0, c1, c2, c3]
    · have c0 : d[P / 64].getLsbD (P % 64 + t) = false := getLsbD_ge _ _ (by omega)
      have c1 : ¬ (64 - w + t < 64) := by omega
      simp [ht, c0, c1]

theorem bit_set_same (d : List Word) (i : Nat) (x : Word) (hi : i < d.length) (k : Nat) (hk : k / 64 = i) :
    bit (d.set i x) k = x.getLsbD (k % 64) := by
  simp [bit, hk, List.getElem?_set_self hi]

theorem bit_set_other (d : List Word) (i : Nat) (x : Word) (k : Nat) (hk : k / 64 ≠ i) :
    bit (d.set i x) k = bit d k := by
  simp [bit, List.getElem?_set_ne (Ne.symm hk)]

/-- `set_field` stores `v` in the `w` bits starting at bit `idx*w` and leaves every
other bit of the array unchanged, for every width 1..64 (value below 2^w). -/
theorem setField_spec (d : List Word) (w idx : Nat) (v : Word) (hw1 : 1 ≤ w) (hw : w ≤ 64)
    (hb : idx * w + w ≤ 64 * d.length) (hv : ∀ t, w ≤ t → v.getLsbD t = false) :
    ∃ d', setField d w idx v = some d' ∧ d'.length = d.length ∧
      ∀ k, bit d' k = if idx * w ≤ k ∧ k < idx * w + w then v.getLsbD (k - idx * w) else bit d k := by
  unfold setField
  generalize idx * w = P at hb ⊢
  have hi : P / 64 < d.length := by omega
  have ha : d[P / 64]? = some d[P / 64] := List.getElem?_eq_getElem hi
  simp only [ha]
  by_cases hc : P % 64 + w > 64
  · -- two words
    simp only [hc, ↓reduceIte]
    have hi2 : P / 64 + 1 < d.length := by omega
    have hne : P / 64 ≠ P / 64 + 1 := by omega
    have hb1 : (d.set (P / 64) ((d[P / 64] &&& ~~~(lowMask w <<< (P % 64))) ||| v <<< (P % 64)))[P / 64 + 1]?
        = some d[P / 64 + 1] := by
      rw [List.getElem?_set_ne hne, List.getElem?_eq_getElem hi2]
    simp only [hb1]
    refine ⟨_, rfl, by simp, ?_⟩
    intro k
    by_cases hk2 : k / 64 = P / 64 + 1
    · rw [bit_set_same _ _ _ (by simp; omega) k hk2]
      simp only [BitVec.getLsbD_or, BitVec.getLsbD_and, BitVec.getLsbD_ushiftRight, BitVec.getLsbD_shiftLeft,
        BitVec.getLsbD_allOnes]
      have hk64 : k % 64 < 64 := Nat.mod_lt _ (by decide)
      by_cases hin : k < P + w
      · have c1 : k % 64 < w + P % 64 - 64 := by omega
        have c2 : 64 - P % 64 + k % 64 = k - P := by omega
        have hcond : P ≤ k ∧ k < P + w := by omega
        simp [c1, c2, hcond] <;> (intros; omega)
      · have c1 : ¬ k % 64 < w + P % 64 - 64 := by omega
        have c3 : v.getLsbD (64 - P % 64 + k % 64) = false := hv _ (by omega)
        have hcond : ¬ (P ≤ k ∧ k < P + w) := by omega
        simp [c1, c3, hcond, hk64, bit, hk2, List.getElem?_eq_getElem hi2] <;> (intros; omega)
    · rw [bit_set_other _ _ _ k hk2]
      by_cases hk1 : k / 64 = P / 64
      · rw [bit_set_same _ _ _ hi k hk1]
        simp only [BitVec.getLsbD_or, BitVec.getLsbD_and, BitVec.getLsbD_not, BitVec.getLsbD_shiftLeft,
          lowMask, BitVec.getLsbD_allOnes]
        have hk64 : k % 64 < 64 := Nat.mod_lt _ (by decide)
        by_cases hin : P ≤ k
        · have c1 : ¬ k % 64 < P % 64 := by omega
          have c2 : k % 64 - P % 64 = k - P := by omega
          have c3 : k % 64 - P % 64 < w := by omega
          have c4 : k % 64 - P % 64 < 64 := by omega
          have hcond : P ≤ k ∧ k < P + w := by omega
          simp [hk64, c1, c2, c3, c4, hcond] <;> (intros; omega)
        · have c1 : k % 64 < P % 64 := by omega
          have hcond : ¬ (P ≤ k ∧ k < P + w) := by omega
          simp [hk64, c1, hcond, bit, hk1, ha] <;> (intros; omega)
      · rw [bit_set_other _ _ _ k hk1]
        have hcond : ¬ (P ≤ k ∧ k < P + w) := by omega
        simp [hcond] <;> (intros; omega)
  · -- one word
    simp only [hc, ↓reduceIte]
    refine ⟨_, rfl, by simp, ?_⟩
    intro k
    by_cases hk1 : k / 64 = P / 64
    · rw [bit_set_same _ _ _ hi k hk1]
      simp only [BitVec.getLsbD_or, BitVec.getLsbD_and, BitVec.getLsbD_not, BitVec.getLsbD_shiftLeft,
        lowMask, BitVec.getLsbD_allOnes]
      have hk64 : k % 64 < 64 := Nat.mod_lt _ (by decide)
      by_cases hin : P ≤ k
      · have c1 : ¬ k % 64 < P % 64 := by omega
        have c2 : k % 64 - P % 64 = k - P := by omega
        have c4 : k % 64 - P % 64 < 64 := by omega
        by_cases hin2 : k < P + w
        · have c3 : k % 64 - P % 64 < w := by omega
          have hcond : P ≤ k ∧ k < P + w := by omega
          simp [hk64, c1, c2, c3, c4, hcond] <;> (intros; omega)
        · have c3 : ¬ k % 64 - P % 64 < w := by omega
          have c5 : v.getLsbD (k - P) = false := hv _ (by omega)
          have hcond : ¬ (P ≤ k ∧ k < P + w) := by omega
          simp [hk64, c1, c2, c3, c4, c5, hcond, bit, hk1, ha] <;> (intros; omega)
      · have c1 : k % 64 < P % 64 := by omega
        have hcond : ¬ (P ≤ k ∧ k < P + w) := by omega
        simp [hk64, c1, hcond, bit, hk1, ha] <;> (intros; omega)
    · rw [bit_set_other _ _ _ k hk1]
      have hcond : ¬ (P ≤ k ∧ k < P + w) := by omega
      simp [hcond] <;> (intros; omega)

end CSD.LogSeq

namespace CSD.LogSeq

theorem range_disjoint (w i j : Nat) (h : i ≠ j) (t : Nat) (ht : t < w) :
    ¬ (i * w ≤ j * w + t ∧ j * w + t < i * w + w) := by
  rcases Nat.lt_or_gt_of_ne h with hij | hij
  · have : (i + 1) * w ≤ j * w := Nat.mul_le_mul_right w hij
    rw [Nat.succ_mul] at this; omega
  · have : (j + 1) * w ≤ i * w := Nat.mul_le_mul_right w hij
    rw [Nat.succ_mul] at this; omega

/-- Reading a field right after writing it returns the value written. -/
theorem get_set_same (d d' : List Word) (w idx : Nat) (v : Word) (hw1 : 1 ≤ w) (hw : w ≤ 64)
    (hb : idx * w + w ≤ 64 * d.length) (hv : ∀ t, w ≤ t → v.getLsbD t = false)
    (hs : setField d w idx v = some d') : getField d' w idx = some v := by
  obtain ⟨d'', hs', hlen, hbits⟩ := setField_spec d w idx v hw1 hw hb hv
  rw [hs] at hs'; cases hs'
  obtain ⟨r, hr, hrb⟩ := getField_spec d' w idx hw1 hw (by rw [hlen]; exact hb)
  rw [hr]; congr 1
  apply BitVec.eq_of_getLsbD_eq
  intro t _
  rw [hrb t, hbits]
  by_cases ht : t < w
  · have : idx * w ≤ idx * w + t ∧ idx * w + t < idx * w + w := by omega
    simp [ht, this]
  · simp [ht, hv t (by omega)]

/-- Writing a field does not disturb any other field. -/
theorem get_set_other (d d' : List Word) (w idx j : Nat) (v : Word) (hw1 : 1 ≤ w) (hw : w ≤ 64)
    (hb : idx * w + w ≤ 64 * d.length) (hbj : j * w + w ≤ 64 * d.length)
    (hv : ∀ t, w ≤ t → v.getLsbD t = false) (hne : idx ≠ j)
    (hs : setField d w idx v = some d') : getField d' w j = getField d w j := by
  obtain ⟨d'', hs', hlen, hbits⟩ := setField_spec d w idx v hw1 hw hb hv
  rw [hs] at hs'; cases hs'
  obtain ⟨r, hr, hrb⟩ := getField_spec d' w j hw1 hw (by rw [hlen]; exact hbj)
  obtain ⟨r0, hr0, hrb0⟩ := getField_spec d w j hw1 hw hbj
  rw [hr, hr0]; congr 1
  apply BitVec.eq_of_getLsbD_eq
  intro t _
  rw [hrb t, hrb0 t]
  by_cases ht : t < w
  · rw [hbits, if_neg (range_disjoint w idx j hne t ht)]
  · simp [ht]

/-- The words `numElementsFor` allocates are enough for every field, including a
last field that straddles into the final word. -/
theorem numWords_enough (w n idx : Nat) (h : idx < n) : idx * w + w ≤ 64 * numWords w n := by
  unfold numWords
  have h1 : (idx + 1) * w ≤ n * w := Nat.mul_le_mul_right w h
  rw [Nat.succ_mul] at h1
  have h2 : n * w = w * n := Nat.mul_comm _ _
  omega

end CSD.LogSeq
