import CSD.Lemmas.RG

/-! `BitSequenceRG::select1`, the part inside one word: byte skips and the bit loop. -/
namespace CSD.RG

/-- Ones among the low `q` bits of `j`. -/
def cb (j q : Nat) : Nat := ((List.range q).map j.testBit).count true

theorem cb_zero (j : Nat) : cb j 0 = 0 := rfl

theorem cb_succ (j q : Nat) : cb j (q + 1) = cb j q + (if j.testBit q then 1 else 0) := by
  unfold cb
  rw [List.range_succ, List.map_append, List.count_append]
  cases h : j.testBit q <;> simp [h]

theorem cb_mono (j : Nat) : ∀ {a b : Nat}, a ≤ b → cb j a ≤ cb j b := by
  intro a b h
  induction b with
  | zero => have : a = 0 := by omega
            subst this; exact Nat.le_refl _
  | succ b ih =>
    by_cases e : a = b + 1
    · subst e; exact Nat.le_refl _
    · have := ih (by omega)
      rw [cb_succ]; omega

theorem popcount_eq_cb (j : Nat) : popcount j = cb j 32 := rfl
theorem popcount8_eq_cb (j : Nat) : popcount8 j = cb j 8 := rfl

/-- Shifting right by `t` drops the low `t` bits. -/
theorem cb_shift (j t : Nat) : ∀ q, cb (j >>> t) q = cb j (t + q) - cb j t := by
  intro q
  induction q with
  | zero => simp [cb_zero]
  | succ q ih =>
    have e : t + (q + 1) = (t + q) + 1 := by omega
    rw [cb_succ, e, cb_succ, ih, Nat.testBit_shiftRight]
    have := cb_mono j (show t ≤ t + q by omega)
    omega

theorem mod_two_eq_one_iff_testBit (j : Nat) : j % 2 = 1 ↔ j.testBit 0 = true := by
  rw [Nat.testBit_zero]; simp

/-- **The bit loop** finds the `x`-th one of `j`: if the low `fuel` bits of `j` hold at least `x` ones,
it stops right behind that one. -/
theorem selBits_spec : ∀ (fuel j x left : Nat), x ≤ cb j fuel →
    ∃ q, selBits (fuel + 1) j x left = some (left + q) ∧ q ≤ fuel ∧ cb j q = x ∧
      (x > 0 → q > 0 ∧ j.testBit (q - 1) = true ∧ cb j (q - 1) = x - 1) := by
  intro fuel
  induction fuel with
  | zero =>
    intro j x left h
    have : x = 0 := by simpa [cb_zero] using h
    subst this
    exact ⟨0, by simp [selBits], Nat.le_refl _, rfl, fun h => by omega⟩
  | succ fuel ih =>
    intro j x left h
    by_cases hx : x > 0
    · have hb : x - (if j.testBit 0 then 1 else 0) ≤ cb (j >>> 1) fuel := by
        rw [cb_shift j 1 fuel]
        have h1 : cb j 1 = (if j.testBit 0 then 1 else 0) := by rw [cb_succ, cb_zero]; simp
        have e : 1 + fuel = fuel + 1 := by omega
        rw [h1, e]; omega
      have hx' : (if j % 2 = 1 then x - 1 else x) = x - (if j.testBit 0 then 1 else 0) := by
        by_cases hb0 : j.testBit 0 = true
        · have := (mod_two_eq_one_iff_testBit j).mpr hb0
          simp [this, hb0]
        · have h2 : ¬ j % 2 = 1 := fun h => hb0 ((mod_two_eq_one_iff_testBit j).mp h)
          simp [h2, hb0]
      obtain ⟨q, hq1, hq2, hq3, hq4⟩ := ih (j >>> 1) (x - (if j.testBit 0 then 1 else 0)) (left + 1) hb
      refine ⟨q + 1, ?_, by omega, ?_, fun _ => ⟨by omega, ?_, ?_⟩⟩
      · rw [selBits, if_pos hx, hx', hq1]; congr 1; omega
      · rw [cb_shift j 1 q] at hq3
        have h1 : cb j 1 = (if j.testBit 0 then 1 else 0) := by rw [cb_succ, cb_zero]; simp
        have e : 1 + q = q + 1 := by omega
        rw [e] at hq3
        have := cb_mono j (show 1 ≤ q + 1 by omega)
        have hle : (if j.testBit 0 then 1 else 0) ≤ x := by split <;> omega
        generalize (if j.testBit 0 then 1 else 0) = b0 at *
        omega
      · -- the bit just before the stop is a one
        by_cases hq0 : q = 0
        · subst hq0
          simp only [Nat.zero_add, Nat.sub_self]
          -- nothing was left to find after bit 0, so bit 0 was the one
          have : cb (j >>> 1) 0 = 0 := cb_zero _
          rw [this] at hq3
          by_cases hb0 : j.testBit 0 = true
          · exact hb0
          · simp [hb0] at hq3; omega
        · have hpos : x - (if j.testBit 0 then 1 else 0) > 0 := by
            rcases Nat.eq_zero_or_pos (x - (if j.testBit 0 then 1 else 0)) with e | e
            · exfalso
              rw [e] at hq3
              have hq' := hq4
              -- cb (j>>>1) q = 0 with q > 0 is possible; but then the loop would have stopped at once
              rw [e] at hq1
              have : selBits (fuel + 1) (j >>> 1) 0 (left + 1) = some (left + 1) := by simp [selBits]
              rw [this] at hq1
              have := Option.some.inj hq1
              omega
            · exact e
          obtain ⟨_, hb, _⟩ := hq4 hpos
          rw [Nat.testBit_shiftRight] at hb
          have e : q + 1 - 1 = 1 + (q - 1) := by omega
          rw [e]; exact hb
      · by_cases hq0 : q = 0
        · subst hq0
          simp only [Nat.zero_add, Nat.sub_self, cb_zero]
          have : cb (j >>> 1) 0 = 0 := cb_zero _
          rw [this] at hq3
          have h1 : (if j.testBit 0 then 1 else 0) ≤ 1 := by split <;> omega
          omega
        · have hpos : x - (if j.testBit 0 then 1 else 0) > 0 := by
            rcases Nat.eq_zero_or_pos (x - (if j.testBit 0 then 1 else 0)) with e | e
            · exfalso
              rw [e] at hq1
              have : selBits (fuel + 1) (j >>> 1) 0 (left + 1) = some (left + 1) := by simp [selBits]
              rw [this] at hq1
              have := Option.some.inj hq1
              omega
            · exact e
          obtain ⟨_, _, hc⟩ := hq4 hpos
          rw [cb_shift j 1 (q - 1)] at hc
          have h1 : cb j 1 = (if j.testBit 0 then 1 else 0) := by rw [cb_succ, cb_zero]; simp
          have e : q + 1 - 1 = 1 + (q - 1) := by omega
          rw [e]
          have := cb_mono j (show 1 ≤ 1 + (q - 1) by omega)
          omega
    · have : x = 0 := by omega
      subst this
      exact ⟨0, by simp [selBits], by omega, cb_zero j, fun h => by omega⟩

/-- **The byte skips** keep the invariant: `j' = j >>> off`, `x'' = x - (ones among the skipped bits)`,
and the `x''`-th one of `j'` is still among its low `32 - off` bits. -/
theorem selBytes_spec (j x : Nat) (h1 : 1 ≤ x) (h2 : x ≤ cb j 32) :
    ∃ off, selBytes j x = (j >>> off, x - cb j off, off) ∧ off ≤ 24 ∧ cb j off < x ∧ x - cb j off ≤ cb (j >>> off) (32 - off) := by
  have hfin : ∀ off, off ≤ 24 → cb j off < x → x - cb j off ≤ cb (j >>> off) (32 - off) := by
    intro off ho hlt
    rw [cb_shift]
    have e : off + (32 - off) = 32 := by omega
    rw [e]; omega
  have h8 : ∀ t, popcount8 (j >>> t) = cb j (t + 8) - cb j t := by
    intro t; rw [popcount8_eq_cb, cb_shift]
  unfold selBytes
  have m1 := cb_mono j (show 0 ≤ 8 by omega)
  have m2 := cb_mono j (show 8 ≤ 16 by omega)
  have m3 := cb_mono j (show 16 ≤ 24 by omega)
  have hp0 : popcount8 j = cb j 8 := rfl
  by_cases c1 : popcount8 j < x
  · rw [if_pos c1]
    simp only
    have hs1 : popcount8 (j >>> 8) = cb j 16 - cb j 8 := h8 8
    by_cases c2 : popcount8 (j >>> 8) < x - popcount8 j
    · rw [if_pos c2]
      have hs2 : popcount8 (j >>> 8 >>> 8) = cb j 24 - cb j 16 := by
        rw [← Nat.shiftRight_add]; exact h8 16
      by_cases c3 : popcount8 (j >>> 8 >>> 8) < x - popcount8 j - popcount8 (j >>> 8)
      · rw [if_pos c3]
        refine ⟨24, ?_, by omega, by omega, hfin 24 (by omega) (by omega)⟩
        rw [← Nat.shiftRight_add, ← Nat.shiftRight_add]
        congr 2; omega
      · rw [if_neg c3]
        refine ⟨16, ?_, by omega, by omega, hfin 16 (by omega) (by omega)⟩
        rw [← Nat.shiftRight_add]
        congr 2; omega
    · rw [if_neg c2]
      refine ⟨8, rfl, by omega, by omega, hfin 8 (by omega) (by omega)⟩
  · rw [if_neg c1]
    exact ⟨0, by simp [cb_zero], by omega, by rw [cb_zero]; omega, by simpa [cb_zero] using h2⟩

end CSD.RG
