import CSD.Lemmas.HashBuild
import CSD.Lemmas.SearchBefore
import CSD.Lemmas.BlockLayout

/-! `StringDictionaryHASHRPDACBlocks`: routing by samples / starting indexes on top of correct parts. -/
namespace CSD.Hash
open CSD CSD.Blocks

theorem slt_true {a b : Str} : slt a b = true ↔ scmp a b < 0 := by simp [slt]

theorem slt_false_of_gt {a b : Str} (h : scmp b a < 0) : slt a b = false := by
  have := scmp_antisymm b a
  simp only [slt, decide_eq_false_iff_not]
  omega

theorem slt_self (a : Str) : slt a a = false := by simp [slt, scmp_self]

/-- What the sample of block `j` is. -/
theorem sample_spec (bs : List (List Str)) (hne : ∀ b ∈ bs, b ≠ []) (hs : SortedLt bs.flatten)
    (j : Nat) (hj : j < bs.length) :
    ∃ (hj' : j < (samples bs).length), (samples bs)[j] ∈ bs[j] ∧
      ∀ y ∈ bs[j], y = (samples bs)[j] ∨ scmp (samples bs)[j] y < 0 := by
  have hlen := samples_length bs hne
  have hj' : j < (samples bs).length := by omega
  refine ⟨hj', ?_⟩
  have hb : bs[j] ≠ [] := hne _ (List.getElem_mem hj)
  have h0 : 0 < bs[j].length := List.length_pos_iff.mpr hb
  have hv : (samples bs)[j] = bs[j][0] := by
    have := samples_getElem? bs j hne
    rw [List.getElem?_eq_getElem hj', List.getElem?_eq_getElem hj] at this
    simp only [Option.bind_some, List.head?_eq_getElem?, List.getElem?_eq_getElem h0] at this
    exact Option.some.inj this
  rw [hv]
  refine ⟨List.getElem_mem h0, ?_⟩
  intro y hy
  obtain ⟨i, hi, rfl⟩ := List.mem_iff_getElem.mp hy
  by_cases e : i = 0
  · left; subst e; rfl
  · right
    have hp := (List.pairwise_flatten.mp hs).1 bs[j] (List.getElem_mem hj)
    exact List.pairwise_iff_getElem.mp hp 0 i h0 hi (by omega)

/-- Strings of an earlier block are below strings of a later block. -/
theorem block_lt (bs : List (List Str)) (hs : SortedLt bs.flatten) (i j : Nat) (hij : i < j) (hj : j < bs.length)
    (x : Str) (hx : x ∈ bs[i]'(by omega)) (y : Str) (hy : y ∈ bs[j]) : scmp x y < 0 :=
  List.pairwise_iff_getElem.mp (List.pairwise_flatten.mp hs).2 i j (by omega) hj hij x hx y hy

/-- **Routing of `locate`**: a string of block `p` is sent to part `p`. -/
theorem route_str (bs : List (List Str)) (hne : ∀ b ∈ bs, b ≠ []) (hs : SortedLt bs.flatten)
    (p : Nat) (hp : p < bs.length) (q : Str) (hq : q ∈ bs[p]) :
    searchBefore slt (samples bs) q = p := by
  obtain ⟨hp', hmem, hmin⟩ := sample_spec bs hne hs p hp
  have hlen := samples_length bs hne
  apply searchBefore_spec slt (samples bs) q p hp'
  · intro j hj
    obtain ⟨_, hjm, _⟩ := sample_spec bs hne hs j (by omega)
    exact slt_true.mpr (block_lt bs hs j p hj hp _ hjm q hq)
  · intro j hpj hj
    obtain ⟨_, hjm, _⟩ := sample_spec bs hne hs j (by omega)
    have := block_lt bs hs p j hpj (by omega) q hq _ hjm
    exact ⟨slt_false_of_gt this, slt_true.mpr this⟩
  · rcases hmin q hq with e | e
    · rw [← e]; exact slt_self q
    · exact slt_false_of_gt e

/-- **Routing of `extract`**: a position inside block `p` is sent to part `p`. -/
theorem route_pos (bs : List (List Str)) (hne : ∀ b ∈ bs, b ≠ [])
    (p : Nat) (hp : p < bs.length) (pos : Nat) (h1 : pre bs p ≤ pos) (h2 : pos < pre bs p + bs[p].length) :
    searchBefore (fun a b => decide (a < b)) (starts 0 bs) pos = p := by
  have hlen := starts_length bs 0
  have hget : ∀ j (hj : j < bs.length), (starts 0 bs)[j]'(by omega) = pre bs j := by
    intro j hj
    have := starts_getElem? bs 0 j hj
    rw [List.getElem?_eq_getElem (by omega)] at this
    simpa using this
  apply searchBefore_spec _ (starts 0 bs) pos p (by omega)
  · intro j hj
    rw [hget j (by omega)]
    have := pre_lt bs j p hj (by omega)
    have hb : 0 < (bs[j]'(by omega)).length := List.length_pos_iff.mpr (hne _ (List.getElem_mem _))
    simp; omega
  · intro j hpj hj
    rw [hget j (by omega)]
    have := pre_lt bs p j hpj (by omega)
    simp; omega
  · rw [hget p hp]; simp; omega

/-! ### The dictionary -/

/-- The hypotheses under which every part is a good hash dictionary. -/
structure PartsOK (cutSize : Nat) (tsizeOf : Nat → Nat) (S : List Str) : Prop where
  sorted : SortedLt S
  parts : ∀ b ∈ Blocks.cut cutSize S, b.length ≤ tsizeOf b.length ∧
    accepted (build (tsizeOf b.length) b).tsize = true

theorem nodup_of_sortedLt {S : List Str} (h : SortedLt S) : S.Nodup :=
  List.Pairwise.imp (fun hab => ne_of_scmp_lt hab) h

theorem part_good {cutSize : Nat} {tsizeOf : Nat → Nat} {S : List Str} (ok : PartsOK cutSize tsizeOf S)
    (b : List Str) (hb : b ∈ Blocks.cut cutSize S) : GoodDict (build (tsizeOf b.length) b) := by
  have hsb : SortedLt b := by
    have := ok.sorted
    rw [← cut_flatten cutSize S] at this
    exact (List.pairwise_flatten.mp this).1 b hb
  exact goodDict_build _ b (nodup_of_sortedLt hsb) (ok.parts b hb).1 (ok.parts b hb).2

theorem build_S (t : Nat) (S : List Str) : (build t S).S = S := rfl

/-- Members: `locate` gives an ID in `[1,n]`, namely (local ID) + (strings before the block), and
`extract` of it gives the string back. -/
theorem blocks_locate_member {cutSize : Nat} {tsizeOf : Nat → Nat} {S : List Str}
    (ok : PartsOK cutSize tsizeOf S) (q : Str) (hq : q ∈ S) :
    1 ≤ locateBlocks (buildBlocks cutSize tsizeOf S) q ∧
    locateBlocks (buildBlocks cutSize tsizeOf S) q ≤ S.length ∧
    extractBlocks (buildBlocks cutSize tsizeOf S) (locateBlocks (buildBlocks cutSize tsizeOf S) q) = some q := by
  let bs := Blocks.cut cutSize S
  have hfl : bs.flatten = S := cut_flatten cutSize S
  have hne : ∀ b ∈ bs, b ≠ [] := cut_nonempty cutSize S
  have hs : SortedLt bs.flatten := by rw [hfl]; exact ok.sorted
  -- the block of q
  have hq' : q ∈ bs.flatten := by rw [hfl]; exact hq
  obtain ⟨b, hb, hqb⟩ := List.mem_flatten.mp hq'
  obtain ⟨p, hp, rfl⟩ := List.mem_iff_getElem.mp hb
  have hroute := route_str bs hne hs p hp q hqb
  have g := part_good ok bs[p] hb
  obtain ⟨k, hk⟩ := List.mem_iff_getElem?.mp hqb
  have hr := locate_range g k q (by rw [build_S]; exact hk)
  have hex := extract_locate g k q (by rw [build_S]; exact hk)
  rw [build_S] at hr
  -- unfold locateBlocks
  have hparts : (buildBlocks cutSize tsizeOf S).parts[p]? = some (build (tsizeOf bs[p].length) bs[p]) := by
    simp only [buildBlocks, List.getElem?_map]
    rw [List.getElem?_eq_getElem hp]; rfl
  have hstarts : (buildBlocks cutSize tsizeOf S).starts[p]? = some (pre bs p) := by
    simp only [buildBlocks]
    rw [starts_getElem? bs 0 p hp]; simp
  have hloc : locateBlocks (buildBlocks cutSize tsizeOf S) q =
      locate (build (tsizeOf bs[p].length) bs[p]) q + pre bs p := by
    unfold locateBlocks
    have : searchBefore slt (buildBlocks cutSize tsizeOf S).samples q = p := hroute
    simp only [this, hparts, hstarts]
    rw [if_pos (by omega)]
  have hpl : pre bs p + bs[p].length ≤ S.length := by
    have := pre_lt bs p bs.length hp (Nat.le_refl _)
    rw [pre_length, hfl] at this; exact this
  refine ⟨by omega, by omega, ?_⟩
  -- extract
  rw [hloc]
  unfold extractBlocks
  have hn : (buildBlocks cutSize tsizeOf S).n = S.length := rfl
  rw [hn, if_neg (by omega)]
  simp only
  have hpos : searchBefore (fun a b => decide (a < b)) (buildBlocks cutSize tsizeOf S).starts
      (locate (build (tsizeOf bs[p].length) bs[p]) q + pre bs p - 1) = p :=
    route_pos bs hne p hp _ (by omega) (by omega)
  rw [hpos]
  simp only [hparts, hstarts]
  have : locate (build (tsizeOf bs[p].length) bs[p]) q + pre bs p - pre bs p =
      locate (build (tsizeOf bs[p].length) bs[p]) q := by omega
  rw [this]
  exact hex

/-- Absent strings: whichever part the samples select, it does not hold `q`. -/
theorem blocks_locate_absent {cutSize : Nat} {tsizeOf : Nat → Nat} {S : List Str}
    (ok : PartsOK cutSize tsizeOf S) (q : Str) (hq : q ∉ S) :
    locateBlocks (buildBlocks cutSize tsizeOf S) q = 0 := by
  unfold locateBlocks
  simp only
  cases hpp : (buildBlocks cutSize tsizeOf S).parts[searchBefore slt (buildBlocks cutSize tsizeOf S).samples q]? with
  | none => rfl
  | some part =>
    cases hst : (buildBlocks cutSize tsizeOf S).starts[searchBefore slt (buildBlocks cutSize tsizeOf S).samples q]? with
    | none => rfl
    | some st =>
      simp only
      have hmem : part ∈ (buildBlocks cutSize tsizeOf S).parts := List.mem_of_getElem? hpp
      simp only [buildBlocks, List.mem_map] at hmem
      obtain ⟨b, hb, rfl⟩ := hmem
      have g := part_good ok b hb
      have : q ∉ (build (tsizeOf b.length) b).S := by
        rw [build_S]
        intro hqb
        exact hq (by rw [← cut_flatten cutSize S]; exact List.mem_flatten.mpr ⟨b, hb, hqb⟩)
      rw [locate_absent g q this]
      simp

/-- IDs: every `id ∈ [1,n]` extracts a member whose `locate` is `id`. -/
theorem blocks_extract_then_locate {cutSize : Nat} {tsizeOf : Nat → Nat} {S : List Str}
    (ok : PartsOK cutSize tsizeOf S) (id : Nat) (h1 : 1 ≤ id) (h2 : id ≤ S.length) :
    ∃ w, w ∈ S ∧ extractBlocks (buildBlocks cutSize tsizeOf S) id = some w ∧
      locateBlocks (buildBlocks cutSize tsizeOf S) w = id := by
  let bs := Blocks.cut cutSize S
  have hfl : bs.flatten = S := cut_flatten cutSize S
  have hne : ∀ b ∈ bs, b ≠ [] := cut_nonempty cutSize S
  have hs : SortedLt bs.flatten := by rw [hfl]; exact ok.sorted
  obtain ⟨p, hp, _, hp1, hp2⟩ := exists_block_of_pos bs bs.length (Nat.le_refl _) (id - 1)
    (by rw [pre_length, hfl]; omega)
  have hb : bs[p] ∈ bs := List.getElem_mem hp
  have g := part_good ok bs[p] hb
  obtain ⟨w, hw, hwm, hwl⟩ := locate_extract g (id - pre bs p) (by omega) (by rw [build_S]; omega)
  rw [build_S] at hwm
  have hwS : w ∈ S := by rw [← hfl]; exact List.mem_flatten.mpr ⟨_, hb, hwm⟩
  have hparts : (buildBlocks cutSize tsizeOf S).parts[p]? = some (build (tsizeOf bs[p].length) bs[p]) := by
    simp only [buildBlocks, List.getElem?_map]
    rw [List.getElem?_eq_getElem hp]; rfl
  have hstarts : (buildBlocks cutSize tsizeOf S).starts[p]? = some (pre bs p) := by
    simp only [buildBlocks]
    rw [starts_getElem? bs 0 p hp]; simp
  refine ⟨w, hwS, ?_, ?_⟩
  · unfold extractBlocks
    have hn : (buildBlocks cutSize tsizeOf S).n = S.length := rfl
    rw [hn, if_neg (by omega)]
    simp only
    have hpos : searchBefore (fun a b => decide (a < b)) (buildBlocks cutSize tsizeOf S).starts (id - 1) = p :=
      route_pos bs hne p hp _ hp1 hp2
    rw [hpos]
    simp only [hparts, hstarts]
    exact hw
  · unfold locateBlocks
    have : searchBefore slt (buildBlocks cutSize tsizeOf S).samples w = p := route_str bs hne hs p hp w hwm
    simp only [this, hparts, hstarts]
    rw [hwl, if_pos (by omega)]
    omega

end CSD.Hash
