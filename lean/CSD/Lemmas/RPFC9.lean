/-
  RPFC, part 9: `StringDictionaryRPFC::locatePrefix` on an object that stores `S` equals `locatePrefix` of
  the plain front-coded dictionary built from `S`, hence returns exactly the ID range of the members that
  start with the pattern.
-/
import CSD.Lemmas.RPFC8

namespace CSD.RPFC
open CSD.RePair CSD.PFC

section
variable {S : List Str} {d : D}

/-- Both dictionaries at the start of bucket `k`. -/
theorem bucket_at (hst : Stores S d) (hS : ∀ s ∈ S, nulFree s) (k : Nat) (h1 : 1 ≤ k) (h2 : k ≤ d.buckets) :
    ∃ L ptr st, header d k = some (hd d.bucketsize S k) ∧ stream d k = some st ∧
      hdrOf (build d.bucketsize S) k = some (hd d.bucketsize S k, ptr) ∧ At d (hd d.bucketsize S k) L ptr st ∧
      scanneableOf d k = L.length + 1 ∧ PFC.scanneableOf (build d.bucketsize S) k = L.length + 1 := by
  have hb := hst.b2
  have hcl := clamp_of_ge2 hb
  have hb0 : d.bucketsize ≠ 0 := by omega
  have hbe := buckets_eq_build hst
  have h2' : k ≤ (build d.bucketsize S).buckets := by rw [← hbe]; exact h2
  obtain ⟨L, rest, hchunk, hh⟩ := hdrOf_build d.bucketsize S hS k h1 h2'
  rw [hcl] at hchunk
  have hlt := bucket_idx_lt d.bucketsize S k h1 h2'
  rw [hcl] at hlt
  have hchunk0 := chunks_getElem? d.bucketsize hb0 S (k - 1) hlt
  have hklen : k - 1 < (chunks d.bucketsize S).length := (List.getElem?_eq_some_iff.mp hchunk0).1
  obtain ⟨st, hσ⟩ : ∃ σ, d.streams[k - 1]? = some σ := by
    have : k - 1 < d.streams.length := by rw [hst.nstreams]; exact hklen
    exact ⟨d.streams[k - 1], List.getElem?_eq_getElem this⟩
  obtain ⟨hstores, hchainok⟩ := hst.streams (k - 1) _ st hchunk0 hσ
  rw [hchunk] at hstores hchainok
  simp only [List.headD_cons, List.drop_succ_cons, List.drop_zero] at hstores hchainok
  obtain ⟨ptr, hhdr, _⟩ := header_sim hst hS k h1 h2
  have hLn : ∀ s ∈ L, nulFree s := by
    intro s hs
    have : s ∈ (S.drop ((k - 1) * d.bucketsize)).take d.bucketsize := by rw [hchunk]; simp [hs]
    exact hS s (List.mem_of_mem_drop (List.mem_of_mem_take this))
  have hlen : (hd d.bucketsize S k :: L).length = min d.bucketsize (S.length - (k - 1) * d.bucketsize) := by
    rw [← hchunk]; simp
  have hsc := scanneable_eq d.bucketsize S.length (k - 1) hb hlt
  have hk1 : k - 1 + 1 = k := by omega
  rw [hk1] at hsc
  refine ⟨L, _, st, hhdr, ?_, hh, ⟨⟨rest, rfl⟩, hstores, hchainok, hLn⟩, ?_, ?_⟩
  · unfold stream
    have : ¬ k = 0 := by omega
    simp only [this, ↓reduceIte, hσ]
  · unfold scanneableOf
    rw [chunks_length_stores hst, hst.elements, hsc]
    simp only [List.length_cons] at hlen; omega
  · unfold PFC.scanneableOf
    rw [build_buckets, build_elements, build_bucketsize, hcl, hsc]
    simp only [List.length_cons] at hlen; omega

theorem locatePrefix_sim (hst : Stores S d) (hne : S ≠ []) (hS : ∀ s ∈ S, nulFree s) (hsort : SortedLt S) (q : Str) :
    locatePrefix d q = PFC.locatePrefix (build d.bucketsize S) q := by
  have hbe := buckets_eq_build hst
  have hcl := clamp_of_ge2 hst.b2
  obtain ⟨lb, rb, hbb, hcase⟩ := boundaryBuckets_spec d.bucketsize S q hne hS hsort
  have hbbR : boundaryBuckets d q = some (lb, rb) := by rw [boundaryBuckets_sim hst hne hS hsort q]; exact hbb
  -- both bucket numbers are in range when used
  have hrange : lb ≤ d.buckets ∧ rb ≤ d.buckets ∧ (lb ≠ 0 → 1 ≤ rb) := by
    rw [hbe]
    rcases hcase with ⟨h1, h2, _⟩ | ⟨F, Lz, hF1, hFL, hLn, hlbF, hrbL, _⟩
    · subst h1; exact ⟨h2, h2, fun h => by omega⟩
    · subst hrbL
      refine ⟨?_, hLn, fun _ => by omega⟩
      rw [hlbF]; split <;> omega
  unfold locatePrefix PFC.locatePrefix
  rw [hbbR, hbb]
  simp only
  by_cases hl0 : lb = 0
  · simp [hl0]
  · simp only [hl0, ↓reduceIte]
    obtain ⟨L, ptr, st, hhdr, hstr, hhdrP, hat, hsc, hscP⟩ := bucket_at hst hS lb (by omega) hrange.1
    rw [hhdr, hstr, hhdrP]
    simp only [hsc, hscP, build_bucketsize, hcl]
    rcases searchPrefixLoop_sim (d := d) q (L.length + 1 + 1) L (hd d.bucketsize S lb) 1 (L.length + 1) ptr st 0 hat (by omega)
      with ⟨hR, hP⟩ | ⟨idr, st', dec', ptr', dec'', hR, hP, hrel⟩
    · rw [hR, hP]
    · rw [hR, hP]
      simp only
      by_cases hlr : lb = rb
      · simp only [hlr, ↓reduceIte]
        by_cases hid : idr = 0
        · simp [hid]
        · simp only [hid, ↓reduceIte]
          obtain ⟨hde, L'', hat'', hsc''⟩ := hrel hid
          subst hde
          have hcnt : L.length + 1 - idr + 1 = (L.length + 1 - idr) + 1 := rfl
          rw [searchDistinctLoop_sim (d := d) q.length (L.length + 1 + 1) L'' dec' 1 (L.length + 1 - idr) ptr' st' hat'' (by omega)]
          cases PFC.searchDistinctLoop q.length (L.length + 1 + 1) 1 (L.length + 1 - idr) ptr' dec' <;> rfl
      · simp only [hlr, ↓reduceIte]
        obtain ⟨L2, ptr2, st2, hhdr2, hstr2, hhdrP2, hat2, hsc2, hscP2⟩ := bucket_at hst hS rb (hrange.2.2 hl0) hrange.2.1
        rw [hhdr2, hstr2, hhdrP2]
        simp only [hsc2, hscP2]
        have := searchDistinctLoop_sim (d := d) q.length (L2.length + 1 + 1) L2 (hd d.bucketsize S rb) 1 L2.length ptr2 st2 hat2 (by omega)
        rw [this]
        simp only [Nat.add_sub_cancel]
        cases PFC.searchDistinctLoop q.length (L2.length + 1 + 1) 1 L2.length ptr2 (hd d.bucketsize S rb) <;> rfl

/-- **`StringDictionaryRPFC::locatePrefix` is exact** over any grammar and streams that store the
dictionary: `(0, 0)` when no member starts with the pattern, otherwise the ID range `[lo, hi]` with member
`i` (0-based) starting with the pattern iff `lo ≤ i + 1 ≤ hi`; no symbol is read past a bucket's stream. -/
theorem locatePrefix_stores (hst : Stores S d) (hne : S ≠ []) (hS : ∀ s ∈ S, nulFree s) (hsort : SortedLt S)
    (q : Str) (hq : nulFree q) :
    ∃ lo hi, locatePrefix d q = some (lo, hi) ∧ PrefixChar S q lo hi := by
  rw [locatePrefix_sim hst hne hS hsort q]
  exact locatePrefix_build d.bucketsize S q hne hS hsort hq

end
end CSD.RPFC
