import CSD.Lemmas.HashGood

/-! `locate` / `extract` of the hash dictionary over a table satisfying `Good`. -/
namespace CSD.Hash

/-! ### ranks of occupied cells -/

theorem rankOcc_cons (x : Option Nat) (t : Table) (s : Nat) :
    rankOcc (x :: t) (s + 1) = (if x.isSome then 1 else 0) + rankOcc t s := by
  unfold rankOcc
  simp only [List.take_succ_cons, List.filter_cons]
  split <;> simp <;> omega

theorem rankOcc_le (t : Table) (s : Nat) : rankOcc t s ≤ occ t :=
  ((List.take_sublist _ t).filter _).length_le

/-- The cell holding `k` has rank ≥ 1 and the list of occupied cells has `k` at that rank. -/
theorem occList_rank : ∀ (t : Table) (s k : Nat), t[s]? = some (some k) →
    1 ≤ rankOcc t s ∧ (t.filterMap (fun x => x))[rankOcc t s - 1]? = some k
  | [], s, k, h => by simp at h
  | x :: t, 0, k, h => by
    simp only [List.getElem?_cons_zero, Option.some.injEq] at h
    subst h
    simp [rankOcc]
  | x :: t, s + 1, k, h => by
    simp only [List.getElem?_cons_succ] at h
    obtain ⟨h1, h2⟩ := occList_rank t s k h
    rw [rankOcc_cons]
    cases x with
    | none => simpa using ⟨h1, h2⟩
    | some k0 =>
      refine ⟨by simp, ?_⟩
      simp only [Option.isSome_some, ↓reduceIte, List.filterMap_cons]
      have : 1 + rankOcc t s - 1 = (rankOcc t s - 1) + 1 := by omega
      rw [this, List.getElem?_cons_succ]
      exact h2

/-- Every rank `1 … occ t` is the rank of an occupied cell. -/
theorem exists_cell_of_rank : ∀ (t : Table) (id : Nat), 1 ≤ id → id ≤ occ t →
    ∃ s k : Nat, t[s]? = some (some k) ∧ rankOcc t s = id
  | [], id, h1, h2 => by simp [occ] at h2; omega
  | none :: t, id, h1, h2 => by
    have : occ (none :: t) = occ t := by simp [occ]
    obtain ⟨s, k, hs, hr⟩ := exists_cell_of_rank t id h1 (by omega)
    exact ⟨s + 1, k, by simpa using hs, by rw [rankOcc_cons]; simpa using hr⟩
  | some k0 :: t, id, h1, h2 => by
    have ho : occ (some k0 :: t) = occ t + 1 := by simp [occ]
    by_cases e : id = 1
    · subst e
      exact ⟨0, k0, rfl, by simp [rankOcc]⟩
    · obtain ⟨s, k, hs, hr⟩ := exists_cell_of_rank t (id - 1) (by omega) (by omega)
      exact ⟨s + 1, k, by simpa using hs, by rw [rankOcc_cons]; simp; omega⟩

theorem occList_length (t : Table) : (t.filterMap (fun x => x)).length = occ t := by
  unfold occ
  induction t with
  | nil => rfl
  | cons x t ih => cases x <;> simp [List.filterMap_cons, ih]

/-! ### `locate` -/

/-- The function `locate` searches with, over probe numbers. -/
def lf (d : HDict) (q : Str) (i : Nat) : Option Nat :=
  match d.table.getD (pr d.tsize q i) none with
  | none => some 0
  | some k => if d.S.getD k [] = q then some (rankOcc d.table (pr d.tsize q i)) else none

theorem locate_eq (d : HDict) (q : Str) :
    locate d q = ((List.range d.tsize).findSome? (lf d q)).getD 0 := rfl

theorem findSome?_zero_or_none {α : Type} (l : List α) (f : α → Option Nat)
    (h : ∀ i ∈ l, f i = none ∨ f i = some 0) : (l.findSome? f).getD 0 = 0 := by
  induction l with
  | nil => rfl
  | cons a l ih =>
    simp only [List.findSome?_cons]
    rcases h a (by simp) with e | e
    · rw [e]; exact ih (fun i hi => h i (by simp [hi]))
    · rw [e]; rfl

/-- The dictionary view of a good table. -/
structure GoodDict (d : HDict) : Prop where
  probe : ProbeOK d.tsize
  nodup : d.S.Nodup
  good : Good d.tsize d.S d.table d.S.length

/-- **Members are found**, at the rank of the cell that holds them. -/
theorem locate_member {d : HDict} (g : GoodDict d) (k : Nat) (w : Str) (hk : d.S[k]? = some w) :
    ∃ s, d.table[s]? = some (some k) ∧ locate d w = rankOcc d.table s := by
  have hkn : k < d.S.length := by
    rcases Nat.lt_or_ge k d.S.length with h | h
    · exact h
    · rw [List.getElem?_eq_none h] at hk; cases hk
  obtain ⟨s, hs⟩ := g.good.all k hkn
  obtain ⟨_, w', hw', i, hi, hsi, hpath⟩ := g.good.stored s k hs
  have : w' = w := by rw [hk] at hw'; exact (Option.some.inj hw').symm
  subst this
  refine ⟨s, hs, ?_⟩
  rw [locate_eq]
  have hfirst : ∀ j, j < i → lf d w' j = none := by
    intro j hj
    obtain ⟨k', hk'⟩ := hpath j hj
    unfold lf
    rw [List.getD_eq_getElem?_getD, hk']
    simp only [Option.getD_some]
    split
    · rename_i heq
      exfalso
      obtain ⟨hk'n, _⟩ := g.good.stored _ k' hk'
      have h1 : d.S[k']? = d.S[k]? := by
        rw [hk, List.getElem?_eq_getElem hk'n]
        rw [List.getD_eq_getElem?_getD, List.getElem?_eq_getElem hk'n] at heq
        simpa using heq
      have hkk : k' = k := (List.getElem?_inj hk'n g.nodup).mp h1
      subst hkk
      have := g.good.uniq _ _ _ hk' hs
      rw [hsi] at this
      have := g.probe.2 w' j i (by omega) hi this
      omega
    · rfl
  have hat : lf d w' i = some (rankOcc d.table s) := by
    unfold lf
    rw [← hsi, List.getD_eq_getElem?_getD, hs]
    simp only [Option.getD_some]
    rw [List.getD_eq_getElem?_getD, hk]
    simp
  rw [findSome?_range_first (lf d w') d.tsize i _ hi hfirst hat]
  rfl

/-- **Absent strings are not found.** -/
theorem locate_absent {d : HDict} (g : GoodDict d) (q : Str) (hq : q ∉ d.S) : locate d q = 0 := by
  rw [locate_eq]
  apply findSome?_zero_or_none
  intro i _
  unfold lf
  cases hc : d.table.getD (pr d.tsize q i) none with
  | none => right; rfl
  | some k =>
    left
    simp only
    split
    · rename_i heq
      exfalso
      rw [List.getD_eq_getElem?_getD] at hc
      have hcell : d.table[pr d.tsize q i]? = some (some k) := by
        cases h : d.table[pr d.tsize q i]? with
        | none => rw [h] at hc; simp at hc
        | some v => rw [h] at hc; simp at hc; rw [hc]
      obtain ⟨hkn, _⟩ := g.good.stored _ k hcell
      rw [List.getD_eq_getElem?_getD, List.getElem?_eq_getElem hkn] at heq
      simp only [Option.getD_some] at heq
      exact hq (heq ▸ List.getElem_mem hkn)
    · rfl

/-- IDs of members are in `1 … n`. -/
theorem locate_range {d : HDict} (g : GoodDict d) (k : Nat) (w : Str) (hk : d.S[k]? = some w) :
    1 ≤ locate d w ∧ locate d w ≤ d.S.length := by
  obtain ⟨s, hs, hl⟩ := locate_member g k w hk
  rw [hl]
  exact ⟨(occList_rank _ s k hs).1, by have := rankOcc_le d.table s; rw [g.good.cnt] at this; exact this⟩

/-- **`extract (locate w) = w`** for members. -/
theorem extract_locate {d : HDict} (g : GoodDict d) (k : Nat) (w : Str) (hk : d.S[k]? = some w) :
    extract d (locate d w) = some w := by
  obtain ⟨h1, h2⟩ := locate_range g k w hk
  obtain ⟨s, hs, hl⟩ := locate_member g k w hk
  unfold extract
  have : ¬ (locate d w = 0 ∨ locate d w > d.S.length) := by omega
  rw [if_neg this]
  simp only
  rw [hl, (occList_rank _ s k hs).2]
  exact hk

/-- **`locate (extract id) = id`** for every valid ID; invalid IDs extract nothing. -/
theorem locate_extract {d : HDict} (g : GoodDict d) (id : Nat) (h1 : 1 ≤ id) (h2 : id ≤ d.S.length) :
    ∃ w, extract d id = some w ∧ w ∈ d.S ∧ locate d w = id := by
  obtain ⟨s, k, hs, hr⟩ := exists_cell_of_rank d.table id h1 (by rw [g.good.cnt]; exact h2)
  obtain ⟨hkn, _⟩ := g.good.stored s k hs
  have hk : d.S[k]? = some d.S[k] := List.getElem?_eq_getElem hkn
  obtain ⟨s', hs', hl⟩ := locate_member g k _ hk
  have : s' = s := g.good.uniq _ _ _ hs' hs
  subst this
  refine ⟨d.S[k], ?_, List.getElem_mem hkn, by rw [hl, hr]⟩
  have := extract_locate g k _ hk
  rw [hl, hr] at this
  exact this

theorem extract_invalid (d : HDict) (id : Nat) (h : id = 0 ∨ id > d.S.length) : extract d id = none := by
  unfold extract; rw [if_pos h]

/-- Distinct members have distinct IDs. -/
theorem locate_injective {d : HDict} (g : GoodDict d) (w w' : Str) (hw : w ∈ d.S) (hw' : w' ∈ d.S)
    (h : locate d w = locate d w') : w = w' := by
  obtain ⟨k, hk⟩ := List.mem_iff_getElem?.mp hw
  obtain ⟨k', hk'⟩ := List.mem_iff_getElem?.mp hw'
  have e1 := extract_locate g k w hk
  have e2 := extract_locate g k' w' hk'
  rw [h, e2] at e1
  exact (Option.some.inj e1).symm

end CSD.Hash
