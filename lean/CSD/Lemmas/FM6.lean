/-
  FM-index, part 6: `StringDictionaryFMINDEX::locate` refines `Spec.locate`.
-/
import CSD.Lemmas.FM5

namespace CSD.FM
open CSD.PFC

/-! ### Bytes and symbols -/

theorem symsOf_inj : ∀ {a b : Str}, symsOf a = symsOf b → a = b
  | [], [], _ => rfl
  | [], _ :: _, h => by simp [symsOf] at h
  | _ :: _, [], h => by simp [symsOf] at h
  | x :: a, y :: b, h => by
    simp only [symsOf, List.map_cons, List.cons.injEq] at h
    have := symsOf_inj (a := a) (b := b) h.2
    rw [UInt8.toNat_inj.mp h.1, this]

/-- The byte order of `strcmp` is the symbol order of the suffix array on NUL-free strings. -/
theorem symsOf_lt_iff : ∀ (a b : Str), nulFree a → nulFree b → (symsOf a < symsOf b ↔ scmp a b < 0)
  | [], [], _, _ => by simp [symsOf, scmp]
  | [], y :: b, _, hb => by
    have := toNat_pos_of_ne_zero (nulFree_cons.mp hb).1
    simp only [symsOf, List.map_nil, List.map_cons, List.nil_lt_cons, scmp, true_iff]
    omega
  | x :: a, [], _, _ => by
    simp only [symsOf, List.map_nil, List.map_cons, List.not_lt_nil, scmp, false_iff]
    omega
  | x :: a, y :: b, ha, hb => by
    have ih := symsOf_lt_iff a b (nulFree_cons.mp ha).2 (nulFree_cons.mp hb).2
    simp only [symsOf, List.map_cons, List.cons_lt_cons_iff] at ih ⊢
    unfold scmp
    by_cases hxy : x = y
    · subst hxy
      simp only [Nat.lt_irrefl, true_and, false_or, ↓reduceIte]
      exact ih
    · have hne : x.toNat ≠ y.toNat := fun h => hxy (UInt8.toNat_inj.mp h)
      simp only [hxy, ↓reduceIte]
      constructor
      · rintro (h | ⟨h, _⟩)
        · omega
        · exact absurd h hne
      · intro h; left; omega

theorem ge2_of_validStr {s : Str} (h : s.all validByte = true) : Ge2 (symsOf s) := by
  intro x hx
  simp only [symsOf, List.mem_map] at hx
  obtain ⟨c, hc, rfl⟩ := hx
  have := List.all_eq_true.mp h c hc
  simp only [validByte, Bool.and_eq_true, decide_eq_true_eq] at this
  exact this.1

theorem lt256_of_symsOf (s : Str) : ∀ x ∈ symsOf s, x < 256 := by
  intro x hx
  simp only [symsOf, List.mem_map] at hx
  obtain ⟨c, _, rfl⟩ := hx
  exact c.toNat_lt

theorem nulFree_of_all {s : Str} (h : s.all validByte = true) : nulFree s := by
  intro c hc e
  have := List.all_eq_true.mp h c hc
  subst e
  simp [validByte] at this

/-! ### Ranks in a sorted dictionary -/

theorem counts_sorted : ∀ (S : List Str), SortedLt S → (∀ s ∈ S, nulFree s) → ∀ (i : Nat) (hi : i < S.length),
    S.countP (fun s => decide (symsOf s < symsOf S[i])) = i ∧
    S.countP (fun s => decide (symsOf s = symsOf S[i])) = 1
  | [], _, _, i, hi => by simp at hi
  | a :: S, hs, hn, i, hi => by
    have ⟨ha, hS⟩ := List.pairwise_cons.mp hs
    have hna := hn a List.mem_cons_self
    have hnS : ∀ s ∈ S, nulFree s := fun s h => hn s (List.mem_cons_of_mem _ h)
    cases i with
    | zero =>
      simp only [List.getElem_cons_zero, List.countP_cons]
      have h1 : S.countP (fun s => decide (symsOf s < symsOf a)) = 0 := by
        rw [List.countP_eq_zero]
        intro b hb
        simp only [decide_eq_true_eq]
        rw [symsOf_lt_iff b a (hnS b hb) hna, scmp_antisymm a b]
        have := ha b hb
        omega
      have h2 : S.countP (fun s => decide (symsOf s = symsOf a)) = 0 := by
        rw [List.countP_eq_zero]
        intro b hb
        simp only [decide_eq_true_eq]
        intro e
        exact ne_of_scmp_lt (ha b hb) (symsOf_inj e).symm
      have h3 : ¬ symsOf a < symsOf a := List.lt_irrefl _
      simp [h1, h2, h3]
    | succ j =>
      have hj : j < S.length := by simpa using hi
      obtain ⟨ih1, ih2⟩ := counts_sorted S hS hnS j hj
      simp only [List.getElem_cons_succ, List.countP_cons, ih1, ih2]
      have hlt : scmp a S[j] < 0 := ha _ (List.getElem_mem hj)
      have h1 : symsOf a < symsOf S[j] := (symsOf_lt_iff a S[j] hna (hnS _ (List.getElem_mem hj))).mpr hlt
      have h2 : ¬ symsOf a = symsOf S[j] := fun e => ne_of_scmp_lt hlt (symsOf_inj e)
      simp [h1, h2]

theorem count_eq_zero_of_not_mem {S : List Str} {q : Str} (h : q ∉ S) :
    S.countP (fun s => decide (symsOf s = symsOf q)) = 0 := by
  rw [List.countP_eq_zero]
  intro b hb
  simp only [decide_eq_true_eq]
  intro e
  exact h (symsOf_inj e ▸ hb)

/-! ### locate -/

/-- The hypotheses on a dictionary object: its index was built from a suffix array of the text of `S`. -/
structure DictOK (S : List Str) (L : List Row) (d : Dict) : Prop where
  sa : IsSA (mkText S) L
  built : Built (mkText S) L d.ix
  elements : d.elements = S.length

theorem validS_of_validDict {S : List Str} (hv : validDict S = true) : ValidS S := by
  intro s hs
  simp only [validDict, Bool.and_eq_true, List.all_eq_true] at hv
  have := hv.1.2 s hs
  simp only [validStr, Bool.and_eq_true] at this
  exact ge2_of_validStr this.2

theorem nulFree_of_validDict {S : List Str} (hv : validDict S = true) : ∀ s ∈ S, nulFree s := by
  intro s hs
  simp only [validDict, Bool.and_eq_true, List.all_eq_true] at hv
  exact nulFree_of_validStr (hv.1.2 s hs)

theorem pat_ok (q : Str) (hq : q.all validByte = true) : ∀ c ∈ patOf q, c ≠ 0 ∧ c < 256 := by
  intro c hc
  simp only [patOf, List.mem_cons, List.mem_append, List.mem_singleton, List.not_mem_nil, or_false] at hc
  rcases hc with rfl | hc | rfl
  · omega
  · have h1 := ge2_of_validStr hq c hc
    have h2 := lt256_of_symsOf q c hc
    omega
  · omega

/-- `StringDictionaryFMINDEX::locate` on a dictionary built from a valid `S`: the rank of a member,
0 for any other string over `0x02 .. 0xFE`; no read outside the index structures. -/
theorem locate_spec {S : List Str} {L : List Row} {d : Dict} (hv : validDict S = true) (hd : DictOK S L d)
    (q : Str) (hq : q.all validByte = true) : d.locate q = some (Spec.locate S q) := by
  have hVS := validS_of_validDict hv
  have hsorted : SortedLt S := sortedLt_of_sortedStrict S (by
    simp only [validDict, Bool.and_eq_true] at hv; exact hv.2)
  have hnf := nulFree_of_validDict hv
  have hq2 := ge2_of_validStr hq
  have hpat : (1 :: symsOf q ++ [1] : List Sym) = patOf q := by simp [patOf]
  obtain ⟨res, hres, hspec⟩ := bsearch_spec hd.sa hd.built (patOf q) (by simp [patOf]) (pat_ok q hq)
  have hocc := occs_pat hd.sa hVS hq2
  have hlo := lo_pat hd.sa hVS hq2
  unfold Dict.locate locateId
  rw [hpat, hres]
  by_cases hmem : q ∈ S
  · -- a member: exactly one row, at position 3 + rank
    obtain ⟨i, hi, rfl⟩ := List.getElem_of_mem hmem
    obtain ⟨c1, c2⟩ := counts_sorted S hsorted hnf i hi
    rw [c2] at hocc
    rw [c1] at hlo
    rw [Spec.locate_getElem hsorted i hi]
    cases res with
    | notInAlphabet => simp only [BSpec] at hspec; omega
    | range sp ep =>
      simp only [BSpec] at hspec
      rcases hspec with ⟨h1, h2, _⟩ | ⟨_, h2⟩
      · have : sp = 3 + i := by omega
        subst this
        simp only [h1, ↓reduceIte]
        have e : 3 + i = (i + 2) + 1 := by omega
        rw [e]
        simp only [Nat.reduceLT, show ¬ (i + 2 + 1 < 2) by omega, ↓reduceIte]
        congr 1
      · omega
  · -- not a member: no row starts with the pattern
    rw [count_eq_zero_of_not_mem hmem] at hocc
    rw [Spec.locate_not_mem hmem]
    cases res with
    | notInAlphabet => rfl
    | range sp ep =>
      simp only [BSpec] at hspec
      rcases hspec with ⟨h1, _, h3⟩ | ⟨h1, _⟩
      · omega
      · have : ¬ sp ≤ ep := by omega
        simp [this]

end CSD.FM
