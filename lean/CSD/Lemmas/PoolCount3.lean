import CSD.Lemmas.PoolCount2

namespace CSD.Pool

theorem inv2_step_worker (tasks : List Nat) (s s' : State) (i : Nat) (hI : Inv s) (h2 : Inv2 tasks s)
    (h : stepWorker s i = some s') : Inv2 tasks s' := by
  unfold stepWorker at h
  by_cases hge : i ≥ s.n
  · simp [hge] at h
  · simp only [hge, ↓reduceIte] at h
    have hi : i < s.n := by omega
    cases hpc : s.wpc i with
    | loopStopped =>
      rw [hpc] at h; simp only [Option.some.injEq] at h; subst h
      have := inv2_worker tasks s h2 i hi (if s.stopped i = true then .loopEmpty else .lock) s.mutex
        (by intro x; rw [hpc]; split <;> rfl)
        (by intro hv; by_cases hs : s.stopped i = true
            · exact hs
            · simp [hs] at hv)
        (by intro hv; split at hv <;> (rcases hv with h | h <;> cases h))
      exact this
    | loopEmpty =>
      rw [hpc] at h; simp only [Option.some.injEq] at h; subst h
      have hst : s.stopped i = true := h2.sawStop i hi hpc
      have := inv2_worker tasks s h2 i hi (if s.queue.isEmpty = true then .exitNotify else .lock) s.mutex
        (by intro x; rw [hpc]; split <;> rfl)
        (by intro hv; split at hv <;> cases hv)
        (by intro hv
            by_cases he : s.queue.isEmpty = true
            · exact ⟨hI.flagsOnlyStop i hst, by simpa using he⟩
            · simp [he] at hv)
      exact this
    | lock =>
      rw [hpc] at h
      by_cases hm : s.mutex = none
      · simp only [hm, ↓reduceIte, Option.some.injEq] at h; subst h
        exact inv2_worker tasks s h2 i hi .pred _ (by intro x; rw [hpc]; rfl) (by simp) (by simp)
      · simp [hm] at h
    | wake =>
      rw [hpc] at h
      by_cases hm : s.mutex = none
      · simp only [hm, ↓reduceIte, Option.some.injEq] at h; subst h
        exact inv2_worker tasks s h2 i hi .pred _ (by intro x; rw [hpc]; rfl) (by simp) (by simp)
      · simp [hm] at h
    | pred =>
      rw [hpc] at h; simp only [Option.some.injEq] at h; subst h
      have := inv2_worker tasks s h2 i hi (if (s.stopped i || !s.queue.isEmpty) = true then .check else .sleep) s.mutex
        (by intro x; rw [hpc]; split <;> rfl)
        (by intro hv; split at hv <;> cases hv)
        (by intro hv; split at hv <;> (rcases hv with h | h <;> cases h))
      exact this
    | sleep =>
      rw [hpc] at h; simp only [Option.some.injEq] at h; subst h
      exact inv2_worker tasks s h2 i hi .waiting none (by intro x; rw [hpc]; rfl) (by simp) (by simp)
    | waiting => rw [hpc] at h; simp at h
    | check =>
      rw [hpc] at h
      by_cases hc : (s.stopped i && s.queue.isEmpty) = true
      · simp only [hc, ↓reduceIte, Option.some.injEq] at h; subst h
        simp only [Bool.and_eq_true] at hc
        exact inv2_worker tasks s h2 i hi .exitNotify none (by intro x; rw [hpc]; rfl) (by simp)
          (fun _ => ⟨hI.flagsOnlyStop i hc.1, by simpa using hc.2⟩)
      · simp only [hc] at h
        cases hq : s.queue with
        | nil =>
          rw [hq] at h; simp only [Bool.false_eq_true, ↓reduceIte, Option.some.injEq] at h; subst h
          have := inv2_worker tasks s h2 i hi .loopStopped none (by intro x; rw [hpc]; rfl) (by simp) (by simp)
          rw [hq] at this; exact this
        | cons t q =>
          rw [hq] at h; simp only [Bool.false_eq_true, ↓reduceIte, Option.some.injEq] at h; subst h
          exact inv2_pop tasks s h2 i hi t q hq hpc
    | unlocked t =>
      rw [hpc] at h; simp only [Option.some.injEq] at h; subst h
      have := inv2_worker tasks s h2 i hi (.run t) s.mutex (by intro x; rw [hpc]; rfl) (by simp) (by simp)
      exact inv2_notify tasks _ this
    | run t =>
      rw [hpc] at h; simp only [Option.some.injEq] at h; subst h
      exact inv2_run tasks s h2 i hi t hpc
    | exitNotify =>
      rw [hpc] at h; simp only [Option.some.injEq] at h; subst h
      have hex := h2.exited i hi (Or.inl hpc)
      have := inv2_worker tasks s h2 i hi .done s.mutex (by intro x; rw [hpc]; rfl) (by simp) (fun _ => hex)
      exact inv2_notify tasks _ this
    | done => rw [hpc] at h; simp at h

theorem inv2_step_prod (tasks : List Nat) (s s' : State) (h2 : Inv2 tasks s)
    (h : stepProd s = some s') : Inv2 tasks s' := by
  unfold stepProd at h
  cases hp : s.prod with
  | addLock t r =>
    rw [hp] at h
    by_cases hm : s.mutex = none
    · simp only [hm, ↓reduceIte, Option.some.injEq] at h; subst h
      have := inv2_prod tasks s h2 (.addPush t r) (some .prod) s.stopped (fun _ h => h)
        (by rw [hp]; rfl) (by rw [hp]; intro h; cases h)
      exact this
    · simp [hm] at h
  | addPush t r =>
    rw [hp] at h; simp only [Option.some.injEq] at h; subst h
    exact inv2_push tasks s h2 t r hp
  | addNotify r =>
    rw [hp] at h; simp only [Option.some.injEq] at h; subst h
    have := inv2_prod tasks s h2 (nextAdd r) s.mutex s.stopped (fun _ h => h)
      (by rw [hp, remaining_nextAdd]; rfl) (by rw [hp]; intro h; cases h)
    exact inv2_notify tasks _ this
  | stopLock =>
    rw [hp] at h
    by_cases hm : s.mutex = none
    · simp only [hm, ↓reduceIte, Option.some.injEq] at h; subst h
      exact inv2_prod tasks s h2 (.stopSet 0) (some .prod) s.stopped (fun _ h => h)
        (by rw [hp]; rfl) (fun _ => rfl)
    · simp [hm] at h
  | stopSet k =>
    rw [hp] at h
    by_cases hk : k < s.n
    · simp only [hk, ↓reduceIte, Option.some.injEq] at h; subst h
      have := inv2_prod tasks s h2 (.stopSet (k + 1)) s.mutex (upd s.stopped k true)
        (by intro i hi; by_cases hik : i = k
            · subst hik; simp
            · rw [upd_other _ _ _ _ hik]; exact hi)
        (by rw [hp]; rfl) (fun _ => rfl)
      exact this
    · simp only [hk, ↓reduceIte, Option.some.injEq] at h; subst h
      exact inv2_prod tasks s h2 .stopNotify none s.stopped (fun _ h => h) (by rw [hp]; rfl) (fun _ => rfl)
  | stopNotify =>
    rw [hp] at h; simp only [Option.some.injEq] at h; subst h
    have := inv2_prod tasks s h2 .join s.mutex s.stopped (fun _ h => h) (by rw [hp]; rfl) (fun _ => rfl)
    exact inv2_notify tasks _ this
  | join =>
    rw [hp] at h
    by_cases hall : ∀ i, i < s.n → s.wpc i = .done
    · rw [if_pos hall] at h; simp only [Option.some.injEq] at h; subst h
      exact inv2_prod tasks s h2 .done s.mutex s.stopped (fun _ h => h) (by rw [hp]; rfl) (fun _ => rfl)
    · simp [hall] at h
  | done => rw [hp] at h; simp at h

theorem inv2_step (tasks : List Nat) (s s' : State) (t : Tid) (hI : Inv s) (h2 : Inv2 tasks s)
    (h : step s t = some s') : Inv2 tasks s' := by
  cases t with
  | prod => exact inv2_step_prod tasks s s' h2 h
  | worker i => exact inv2_step_worker tasks s s' i hI h2 h
  | spurious i =>
    simp only [step] at h
    by_cases hc : i < s.n ∧ s.wpc i = .waiting
    · simp only [hc, and_self, ↓reduceIte, Option.some.injEq] at h; subst h
      exact inv2_worker tasks s h2 i hc.1 .wake s.mutex (by intro x; rw [hc.2]; rfl) (by simp) (by simp)
    · simp [hc] at h

theorem inv2_reachable {n : Nat} {tasks : List Nat} {s : State} (h : Reachable n tasks s) :
    Inv s ∧ Inv2 tasks s := by
  induction h with
  | init => exact ⟨inv_init n tasks, inv2_init n tasks⟩
  | step _ hs ih => exact ⟨inv_step _ _ _ ih.1 hs, inv2_step tasks _ _ _ ih.1 ih.2 hs⟩

end CSD.Pool
