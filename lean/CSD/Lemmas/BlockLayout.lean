import CSD.Lemmas.Blocks
import CSD.Lemmas.Sorted

/-! Layout facts about a list of consecutive non-empty blocks: `samples`, `starts`. -/
namespace CSD.Blocks
open CSD

/-- Number of strings in the blocks before block `p`. -/
def pre (bs : List (List Str)) (p : Nat) : Nat := ((bs.take p).map List.length).sum

theorem pre_zero (bs : List (List Str)) : pre bs 0 = 0 := by simp [pre]

theorem pre_succ (bs : List (List Str)) (p : Nat) (hp : p < bs.length) :
    pre bs (p + 1) = pre bs p + bs[p].length := by
  unfold pre
  rw [List.take_add_one, List.getElem?_eq_getElem hp]
  simp only [Option.toList_some, List.map_append, List.sum_append, List.map_cons, List.map_nil,
    List.sum_cons, List.sum_nil]
  omega

theorem pre_cons (b : List Str) (bs : List (List Str)) (p : Nat) :
    pre (b :: bs) (p + 1) = b.length + pre bs p := by
  simp [pre]

theorem pre_length (bs : List (List Str)) : pre bs bs.length = bs.flatten.length := by
  simp [pre, List.length_flatten]

theorem pre_mono (bs : List (List Str)) : ∀ (j p : Nat), j ≤ p → p ≤ bs.length → pre bs j ≤ pre bs p := by
  intro j p hjp hp
  induction p with
  | zero => have : j = 0 := by omega
            subst this; exact Nat.le_refl _
  | succ p ih =>
    by_cases e : j = p + 1
    · subst e; exact Nat.le_refl _
    · have := ih (by omega) (by omega)
      rw [pre_succ bs p (by omega)]; omega

/-- A block strictly before `p` ends at or before the start of `p`. -/
theorem pre_lt (bs : List (List Str)) (j p : Nat) (hjp : j < p) (hp : p ≤ bs.length) :
    pre bs j + (bs[j]'(by omega)).length ≤ pre bs p := by
  have := pre_mono bs (j + 1) p (by omega) hp
  rw [pre_succ bs j (by omega)] at this
  exact this

theorem starts_getElem? : ∀ (bs : List (List Str)) (off p : Nat), p < bs.length →
    (starts off bs)[p]? = some (off + pre bs p)
  | [], _, _, h => by simp at h
  | b :: bs, off, 0, _ => by simp [starts, pre_zero]
  | b :: bs, off, p + 1, h => by
    simp only [starts, List.getElem?_cons_succ]
    rw [starts_getElem? bs (off + b.length) p (by simpa using h), pre_cons]
    simp [Nat.add_assoc]

theorem starts_length : ∀ (bs : List (List Str)) (off : Nat), (starts off bs).length = bs.length
  | [], _ => rfl
  | b :: bs, off => by simp [starts, starts_length bs]

theorem samples_getElem? : ∀ (bs : List (List Str)) (p : Nat), (∀ b ∈ bs, b ≠ []) →
    (samples bs)[p]? = (bs[p]?).bind List.head?
  | [], p, _ => by simp [samples]
  | b :: bs, p, hne => by
    have hb : b ≠ [] := hne b (by simp)
    have hrest : ∀ b' ∈ bs, b' ≠ [] := fun b' h => hne b' (by simp [h])
    cases b with
    | nil => exact absurd rfl hb
    | cons s rest =>
      cases p with
      | zero => simp [samples]
      | succ p =>
        have := samples_getElem? bs p hrest
        simp only [samples] at this ⊢
        simpa using this

theorem samples_length (bs : List (List Str)) (hne : ∀ b ∈ bs, b ≠ []) : (samples bs).length = bs.length := by
  induction bs with
  | nil => rfl
  | cons b bs ih =>
    have hb : b ≠ [] := hne b (by simp)
    cases b with
    | nil => exact absurd rfl hb
    | cons s rest =>
      have := ih (fun b' h => hne b' (by simp [h]))
      simp only [samples] at this ⊢
      simp [this]

/-- The block holding position `pos` of the concatenation. -/
theorem exists_block_of_pos (bs : List (List Str)) : ∀ (k : Nat), k ≤ bs.length → ∀ pos, pos < pre bs k →
    ∃ p, ∃ (hp : p < bs.length), p < k ∧ pre bs p ≤ pos ∧ pos < pre bs p + bs[p].length := by
  intro k
  induction k with
  | zero => intro _ pos h; simp [pre_zero] at h
  | succ k ih =>
    intro hk pos hpos
    by_cases h : pos < pre bs k
    · obtain ⟨p, hp, hpk, h1, h2⟩ := ih (by omega) pos h
      exact ⟨p, hp, by omega, h1, h2⟩
    · refine ⟨k, by omega, by omega, by omega, ?_⟩
      rw [pre_succ bs k (by omega)] at hpos
      exact hpos

/-- Position of the `i`-th string of block `p` in the concatenation. -/
theorem flatten_getElem? : ∀ (bs : List (List Str)) (p i : Nat) (hp : p < bs.length), i < bs[p].length →
    bs.flatten[pre bs p + i]? = bs[p][i]?
  | [], _, _, hp, _ => by simp at hp
  | b :: bs, 0, i, _, hi => by
    simp only [List.getElem_cons_zero] at hi ⊢
    simp [pre_zero, List.getElem?_append_left hi]
  | b :: bs, p + 1, i, hp, hi => by
    simp only [List.getElem_cons_succ] at hi ⊢
    rw [pre_cons, List.flatten_cons, Nat.add_assoc, List.getElem?_append_right (by omega)]
    have : b.length + (pre bs p + i) - b.length = pre bs p + i := by omega
    rw [this]
    exact flatten_getElem? bs p i (by simpa using hp) hi

end CSD.Blocks
