import CSD.Lemmas.PoolStep

namespace CSD.Pool

theorem nextAdd_props (r : List Nat) :
    (nextAdd r).holding = false ∧ (nextAdd r).willNotify = false ∧ (nextAdd r).stopping = false ∧
    nextAdd r ≠ .stopNotify ∧ nextAdd r ≠ .join ∧ nextAdd r ≠ .done ∧ ∀ k, nextAdd r ≠ .stopSet k := by
  cases r <;> simp [nextAdd, PPc.holding, PPc.willNotify, PPc.stopping]

/-- No worker holds the mutex when it is free or owned by the producer. -/
theorem no_worker_holding (s : State) (hI : Inv s) (h : s.mutex = none ∨ s.mutex = some .prod) :
    ∀ j, ¬ (j < s.n ∧ (s.wpc j).holding = true) := by
  intro j hj
  have := (hI.mutexW j).mpr hj
  rcases h with h | h <;> rw [h] at this <;> cases this

/-- The producer acquires the free mutex (`addLock → addPush`, `stopLock → stopSet 0`). -/
theorem inv_prod_acquire (s : State) (hI : Inv s) (p : PPc) (hm : s.mutex = none)
    (hp : p.holding = true) (hw : p.willNotify = true)
    (hst : p.stopping = true → s.prod.stopping = true ∨ ∀ i, s.stopped i = false)
    (hstop : s.prod.stopping = false) (hk : ∀ k, p = .stopSet k → k = 0)
    (hn1 : p ≠ .stopNotify) (hn2 : p ≠ .join) (hn3 : p ≠ .done) :
    Inv { s with mutex := some .prod, prod := p } := by
  have hnoW := no_worker_holding s hI (Or.inl hm)
  have hnoflag : ∀ i, s.stopped i = false := by
    intro i
    cases h : s.stopped i
    · rfl
    · have := hI.flagsOnlyStop i h; rw [hstop] at this; cases this
  constructor
  · intro j; simp only
    constructor
    · intro h; cases h
    · intro h; exact absurd h (hnoW j)
  · simp [hp]
  · intro j; simp
  · intro j hj hs; exact hI.sleepFalse j hj hs
  · intro j hj hs hpred; exact hw
  · intro i h; rw [hnoflag i] at h; cases h
  · intro h; rcases h with h | h | h
    · exact absurd h hn1
    · exact absurd h hn2
    · exact absurd h hn3
  · intro k h i hi
    have := hk k h; omega
  · intro h; exact absurd h hn3

/-- `addPush`: push under the mutex and release it. -/
theorem inv_push (s : State) (hI : Inv s) (t : Nat) (r : List Nat) (hp : s.prod = .addPush t r) :
    Inv { s with queue := s.queue ++ [t], added := s.added ++ [t], mutex := none, prod := .addNotify r } := by
  have hown : s.mutex = some .prod := hI.mutexP.mpr (by rw [hp]; rfl)
  have hnoW := no_worker_holding s hI (Or.inr hown)
  constructor
  · intro j; simp only
    constructor
    · intro h; cases h
    · intro h; exact absurd h (hnoW j)
  · simp [PPc.holding]
  · intro j; simp
  · intro j hj hs
    exfalso; exact hnoW j ⟨hj, by rw [hs]; rfl⟩
  · intro j hj hs hpred; rfl
  · intro i h
    have := hI.flagsOnlyStop i h
    rw [hp] at this; cases this
  · intro h; simp at h
  · intro k h; simp at h
  · intro h; simp at h

/-- `addNotify r` / `stopNotify`: `notify_all`, then continue with a pc that holds nothing. -/
theorem inv_prod_notify (s : State) (hI : Inv s) (p : PPc) (hold : s.prod.holding = false)
    (hp : p.holding = false)
    (hflags : (p = .stopNotify ∨ p = .join ∨ p = .done) → ∀ i, i < s.n → s.stopped i = true)
    (hstopping : s.prod.stopping = true → p.stopping = true)
    (hk : ∀ k, p ≠ .stopSet k) (hd : p ≠ .done) :
    Inv (notifyAll { s with prod := p }) := by
  constructor
  · intro j; rw [holding_notify]; exact hI.mutexW j
  · show s.mutex = some .prod ↔ p.holding = true
    rw [hp]
    constructor
    · intro h; have := hI.mutexP.mp h; rw [hold] at this; cases this
    · intro h; cases h
  · exact hI.mutexS
  · intro j hj hs; exact hI.sleepFalse j hj ((notify_sleep _ j).mp hs)
  · intro j hj hs; exact absurd hs (notify_not_waiting _ j)
  · intro i h; exact hstopping (hI.flagsOnlyStop i h)
  · exact hflags
  · intro k h; exact absurd h (hk k)
  · intro h; exact absurd h hd

/-- `stopSet k` with `k < n`: set one flag, still holding the mutex. -/
theorem inv_stop_set (s : State) (hI : Inv s) (k : Nat) (hp : s.prod = .stopSet k) :
    Inv { s with stopped := upd s.stopped k true, prod := .stopSet (k + 1) } := by
  have hown : s.mutex = some .prod := hI.mutexP.mpr (by rw [hp]; rfl)
  have hnoW := no_worker_holding s hI (Or.inr hown)
  constructor
  · exact hI.mutexW
  · simp [hown, PPc.holding]
  · exact hI.mutexS
  · intro j hj hs
    exfalso; exact hnoW j ⟨hj, by rw [hs]; rfl⟩
  · intro j hj hs hpred; rfl
  · intro i h; rfl
  · intro h; simp at h
  · intro k' h i hi
    simp only [PPc.stopSet.injEq] at h
    simp only
    by_cases hik : i = k
    · subst hik; simp
    · rw [upd_other _ _ _ _ hik]
      exact hI.flagsPrefix k hp i (by omega)
  · intro h; simp at h

/-- `stopSet k` with `k ≥ n`: all flags are set; release the mutex. -/
theorem inv_stop_release (s : State) (hI : Inv s) (k : Nat) (hp : s.prod = .stopSet k) (hk : ¬ k < s.n) :
    Inv { s with mutex := none, prod := .stopNotify } := by
  have hown : s.mutex = some .prod := hI.mutexP.mpr (by rw [hp]; rfl)
  have hnoW := no_worker_holding s hI (Or.inr hown)
  constructor
  · intro j; simp only
    constructor
    · intro h; cases h
    · intro h; exact absurd h (hnoW j)
  · simp [PPc.holding]
  · intro j; simp
  · intro j hj hs
    exfalso; exact hnoW j ⟨hj, by rw [hs]; rfl⟩
  · intro j hj hs hpred; rfl
  · intro i h; rfl
  · intro _ i hi
    have hi' : i < s.n := hi
    exact hI.flagsPrefix k hp i (by omega)
  · intro k' h; simp at h
  · intro h; simp at h

/-- `join` returns: every worker has finished. -/
theorem inv_join (s : State) (hI : Inv s) (hp : s.prod = .join) (hall : ∀ i, i < s.n → s.wpc i = .done) :
    Inv { s with prod := .done } := by
  constructor
  · exact hI.mutexW
  · show s.mutex = some .prod ↔ PPc.done.holding = true
    constructor
    · intro h; have := hI.mutexP.mp h; rw [hp] at this; cases this
    · intro h; cases h
  · exact hI.mutexS
  · exact hI.sleepFalse
  · intro j hj hs; rw [hall j hj] at hs; cases hs
  · intro i h; rfl
  · intro _; exact hI.flagsAll (Or.inr (Or.inl hp))
  · intro k h; simp at h
  · intro _; exact hall

end CSD.Pool
