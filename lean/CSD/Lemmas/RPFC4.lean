/-
  RPFC, part 4: the check the driver runs on every exported RPFC object is sound — when
  `bucketStores` accepts a stream, the stream stores the bucket (`StoresTail`) and every string is
  decodable on its predecessor (`ChainOK`): the hypotheses of `extract_stores` are validated, not assumed.
-/
import CSD.Lemmas.RPFC3

namespace CSD.RPFC
open CSD.RePair CSD.PFC

theorem takeEntry_sound (g : Grammar) (want : List Nat) : ∀ (fuel : Nat) (st acc st' : List Nat),
    takeEntry g want fuel st acc = some st' →
    ∃ σ, st = σ ++ st' ∧ acc ++ g.expand σ = want ∧ ∀ r ∈ σ, g.expandSym r ≠ []
  | 0, _, _, _, h => by simp [takeEntry] at h
  | fuel + 1, st, acc, st', h => by
    unfold takeEntry at h
    by_cases he : acc = want
    · simp only [he, ↓reduceIte, Option.some.injEq] at h
      exact ⟨[], by simp [h], by simp [Grammar.expand, he], by simp⟩
    · simp only [he, ↓reduceIte] at h
      cases st with
      | nil => simp at h
      | cons r st1 =>
        simp only at h
        by_cases hr : g.expandSym r = []
        · simp [hr] at h
        · simp only [hr, ↓reduceIte] at h
          obtain ⟨σ, h1, h2, h3⟩ := takeEntry_sound g want fuel st1 (acc ++ g.expandSym r) st' h
          refine ⟨r :: σ, by simp [h1], ?_, ?_⟩
          · rw [expand_cons, ← List.append_assoc]; exact h2
          · intro x hx
            rcases List.mem_cons.mp hx with rfl | hx
            · exact hr
            · exact h3 x hx

theorem bucketStores_sound (g : Grammar) (maxchar : Nat) : ∀ (prev : Str) (rest : List Str) (st : List Nat),
    bucketStores g maxchar prev rest st = true →
    StoresTail g maxchar prev rest st ∧ ChainOK maxchar prev rest
  | prev, [], st, h => by
    simp only [bucketStores, List.isEmpty_iff] at h
    subst h
    exact ⟨StoresTail.nil prev, trivial⟩
  | prev, cur :: rest, st, h => by
    simp only [bucketStores, Bool.and_eq_true, decide_eq_true_eq, Bool.not_eq_true', List.isEmpty_eq_false_iff,
      List.all_eq_true, bne_iff_ne, ne_eq] at h
    obtain ⟨⟨⟨h1, h2⟩, h3⟩, h4⟩ := h
    cases ht : takeEntry g (entry maxchar prev cur) ((entry maxchar prev cur).length + 2) st [] with
    | none => rw [ht] at h4; simp at h4
    | some st' =>
      rw [ht] at h4
      simp only at h4
      obtain ⟨σ, hs, hexp, hne⟩ := takeEntry_sound g _ _ st [] st' ht
      obtain ⟨ih1, ih2⟩ := bucketStores_sound g maxchar cur rest st' h4
      subst hs
      refine ⟨StoresTail.cons prev cur rest σ st' (by simpa using hexp) hne ih1, ⟨h1, h2, h3⟩, ih2⟩

theorem stores_of_storesB {S : List Str} {d : D} (h : storesB S d = true) : Stores S d := by
  simp only [storesB, Bool.and_eq_true, decide_eq_true_eq, List.all_eq_true] at h
  obtain ⟨⟨⟨⟨⟨h1, h2⟩, hb⟩, h3⟩, h4⟩, h5⟩ := h
  refine ⟨h1, h2, hb, h3, h4, ?_⟩
  intro k c σ hc hσ
  have hmem : (c, σ) ∈ (chunks d.bucketsize S).zip d.streams := by
    rw [List.mem_iff_getElem?]
    exact ⟨k, by rw [List.getElem?_zip_eq_some]; exact ⟨hc, hσ⟩⟩
  exact bucketStores_sound d.g d.maxchar _ _ _ (h5 (c, σ) hmem)

/-- What the driver establishes on every exported object: if the check accepts it, `extract` of the
model on it is exact. -/
theorem extract_checked {S : List Str} {d : D} (h : storesB S d = true) (i : Nat) (h1 : 1 ≤ i) (h2 : i ≤ S.length) :
    extract d i = some (S[i - 1]?) := extract_stores (stores_of_storesB h) i h1 h2

end CSD.RPFC
