import CSD.Lemmas.PoolCount3
import CSD.Lemmas.PoolNeg

namespace CSD.Pool

theorem stepWorker_n {s s' : State} {i : Nat} (h : stepWorker s i = some s') : s'.n = s.n := by
  unfold stepWorker at h
  by_cases hge : i ≥ s.n
  · simp [hge] at h
  · simp only [hge, ↓reduceIte] at h
    cases hpc : s.wpc i with
    | loopStopped => rw [hpc] at h; simp only [Option.some.injEq] at h; subst h; rfl
    | loopEmpty => rw [hpc] at h; simp only [Option.some.injEq] at h; subst h; rfl
    | lock =>
      rw [hpc] at h
      by_cases hm : s.mutex = none
      · simp only [hm, ↓reduceIte, Option.some.injEq] at h; subst h; rfl
      · simp [hm] at h
    | wake =>
      rw [hpc] at h
      by_cases hm : s.mutex = none
      · simp only [hm, ↓reduceIte, Option.some.injEq] at h; subst h; rfl
      · simp [hm] at h
    | pred => rw [hpc] at h; simp only [Option.some.injEq] at h; subst h; rfl
    | sleep => rw [hpc] at h; simp only [Option.some.injEq] at h; subst h; rfl
    | waiting => rw [hpc] at h; simp at h
    | check =>
      rw [hpc] at h
      by_cases hc : (s.stopped i && s.queue.isEmpty) = true
      · simp only [hc, ↓reduceIte, Option.some.injEq] at h; subst h; rfl
      · simp only [hc] at h
        cases hq : s.queue with
        | nil => rw [hq] at h; simp only [Bool.false_eq_true, ↓reduceIte, Option.some.injEq] at h; subst h; rfl
        | cons t q => rw [hq] at h; simp only [Bool.false_eq_true, ↓reduceIte, Option.some.injEq] at h; subst h; rfl
    | unlocked t => rw [hpc] at h; simp only [Option.some.injEq] at h; subst h; rfl
    | run t => rw [hpc] at h; simp only [Option.some.injEq] at h; subst h; rfl
    | exitNotify => rw [hpc] at h; simp only [Option.some.injEq] at h; subst h; rfl
    | done => rw [hpc] at h; simp at h

theorem stepProd_n {s s' : State} (h : stepProd s = some s') : s'.n = s.n := by
  unfold stepProd at h
  cases hp : s.prod with
  | addLock t r =>
    rw [hp] at h
    by_cases hm : s.mutex = none
    · simp only [hm, ↓reduceIte, Option.some.injEq] at h; subst h; rfl
    · simp [hm] at h
  | addPush t r => rw [hp] at h; simp only [Option.some.injEq] at h; subst h; rfl
  | addNotify r => rw [hp] at h; simp only [Option.some.injEq] at h; subst h; rfl
  | stopLock =>
    rw [hp] at h
    by_cases hm : s.mutex = none
    · simp only [hm, ↓reduceIte, Option.some.injEq] at h; subst h; rfl
    · simp [hm] at h
  | stopSet k =>
    rw [hp] at h
    by_cases hk : k < s.n
    · simp only [hk, ↓reduceIte, Option.some.injEq] at h; subst h; rfl
    · simp only [hk, ↓reduceIte, Option.some.injEq] at h; subst h; rfl
  | stopNotify => rw [hp] at h; simp only [Option.some.injEq] at h; subst h; rfl
  | join =>
    rw [hp] at h
    by_cases hall : ∀ i, i < s.n → s.wpc i = .done
    · rw [if_pos hall] at h; simp only [Option.some.injEq] at h; subst h; rfl
    · simp [hall] at h
  | done => rw [hp] at h; simp at h

theorem reachable_n {n : Nat} {tasks : List Nat} {s : State} (h : Reachable n tasks s) : s.n = n := by
  induction h with
  | init => rfl
  | @step s s' t _ hs ih =>
    cases t with
    | prod => rw [stepProd_n hs]; exact ih
    | worker i => rw [stepWorker_n hs]; exact ih
    | spurious i =>
      simp only [step] at hs
      split at hs
      · simp only [Option.some.injEq] at hs; subst hs; exact ih
      · cases hs

theorem inHand_zero_of_done (n : Nat) (wpc : Nat → WPc) (h : ∀ i, i < n → wpc i = .done) (x : Nat) :
    inHand n wpc x = 0 := by
  unfold inHand
  rw [List.countP_eq_zero]
  intro i hi
  rw [List.mem_range] at hi
  rw [h i hi]; simp [WPc.has]

/-- **At most once**: in every reachable state — every schedule, every number of
workers, spurious wake-ups included — no task has been executed more often than
it was submitted. -/
theorem at_most_once {n : Nat} {tasks : List Nat} {s : State} (h : Reachable n tasks s) (x : Nat) :
    s.ran.count x ≤ tasks.count x := by
  obtain ⟨_, h2⟩ := inv2_reachable h
  have hc := h2.cons x
  have hp := congrArg (List.count x) h2.progress
  rw [List.count_append] at hp
  omega

/-- **Exactly once at termination**: when `wait_workers` has returned, every task
handed to the pool has been executed exactly as often as it was submitted (once,
for distinct tasks), whatever the schedule. -/
theorem exactly_once_at_termination {n : Nat} {tasks : List Nat} {s : State} (hn : 0 < n)
    (h : Reachable n tasks s) (hd : s.prod = .done) (x : Nat) :
    s.ran.count x = tasks.count x := by
  obtain ⟨hI, h2⟩ := inv2_reachable h
  have hsn := reachable_n h
  have hall := hI.doneAll hd
  have h0 : 0 < s.n := by omega
  have hq : s.queue = [] := (h2.exited 0 h0 (Or.inr (hall 0 h0))).2
  have hc := h2.cons x
  rw [hq, inHand_zero_of_done s.n s.wpc hall x] at hc
  have hp := h2.progress
  rw [hd] at hp
  simp only [PPc.remaining, List.append_nil] at hp
  rw [← hp]
  simp at hc; omega

/-- A worker at a pc where it owns the mutex always has a step. -/
theorem holder_can_step (s : State) (i : Nat) (hi : i < s.n) (h : (s.wpc i).holding = true) :
    stepWorker s i ≠ none := by
  unfold stepWorker
  have hge : ¬ i ≥ s.n := by omega
  simp only [hge, ↓reduceIte]
  cases hpc : s.wpc i <;> rw [hpc] at h <;> simp [WPc.holding] at h
  · simp
  · simp
  · by_cases hc : (s.stopped i && s.queue.isEmpty) = true
    · simp [hc]
    · simp only [hc]
      cases s.queue <;> simp

/-- With a free mutex a worker is blocked only inside the condition variable (or finished). -/
theorem free_mutex_worker (s : State) (i : Nat) (hi : i < s.n) (hm : s.mutex = none)
    (h : stepWorker s i = none) : s.wpc i = .waiting ∨ s.wpc i = .done := by
  unfold stepWorker at h
  have hge : ¬ i ≥ s.n := by omega
  simp only [hge, ↓reduceIte] at h
  cases hpc : s.wpc i with
  | waiting => exact Or.inl rfl
  | done => exact Or.inr rfl
  | check =>
    rw [hpc] at h
    by_cases hc : (s.stopped i && s.queue.isEmpty) = true
    · simp [hc] at h
    · simp only [hc] at h
      cases hq : s.queue <;> rw [hq] at h <;> simp at h
  | _ => rw [hpc] at h; simp [hm] at h

/-- **No lost wake-up, no deadlock**: in every reachable state in which
`wait_workers` has not returned yet, some thread of the program can take a step —
no worker sleeps forever on an empty queue after stop, and a task added while all
workers are about to sleep is still picked up. -/
theorem no_deadlock {n : Nat} {tasks : List Nat} {s : State} (h : Reachable n tasks s)
    (hnd : s.prod ≠ .done) : ¬ Stuck step s := by
  obtain ⟨hI, _⟩ := inv2_reachable h
  intro ⟨hP, hW⟩
  cases hm : s.mutex with
  | some t =>
    cases t with
    | prod =>
      have hh := hI.mutexP.mp hm
      simp only [step, stepProd] at hP
      cases hp : s.prod with
      | addPush t r => rw [hp] at hP; simp at hP
      | stopSet k => rw [hp] at hP; by_cases hk : k < s.n <;> simp [hk] at hP
      | _ => rw [hp] at hh; simp [PPc.holding] at hh
    | worker i =>
      have hh := (hI.mutexW i).mp hm
      exact holder_can_step s i hh.1 hh.2 (hW i)
    | spurious i => exact hI.mutexS i hm
  | none =>
    have hworkers : ∀ i, i < s.n → s.wpc i = .waiting ∨ s.wpc i = .done :=
      fun i hi => free_mutex_worker s i hi hm (hW i)
    simp only [step, stepProd] at hP
    cases hp : s.prod with
    | addLock t r => rw [hp] at hP; simp [hm] at hP
    | addPush t r => rw [hp] at hP; simp at hP
    | addNotify r => rw [hp] at hP; simp at hP
    | stopLock => rw [hp] at hP; simp [hm] at hP
    | stopSet k => rw [hp] at hP; by_cases hk : k < s.n <;> simp [hk] at hP
    | stopNotify => rw [hp] at hP; simp at hP
    | join =>
      rw [hp] at hP
      by_cases hall : ∀ i, i < s.n → s.wpc i = .done
      · rw [if_pos hall] at hP; cases hP
      · -- some worker is not done, hence blocked in the cv; but all flags are set and nobody will notify
        have : ∃ i, i < s.n ∧ s.wpc i ≠ .done := by
          apply Classical.byContradiction
          intro hne
          apply hall
          intro i hi
          apply Classical.byContradiction
          intro hd
          exact hne ⟨i, hi, hd⟩
        obtain ⟨i, hi, hne⟩ := this
        have hw : s.wpc i = .waiting := by
          rcases hworkers i hi with h | h
          · exact h
          · exact absurd h hne
        have hst := hI.flagsAll (Or.inr (Or.inl hp)) i hi
        have := hI.waitingOk i hi hw (Or.inl hst)
        rw [hp] at this; cases this
    | done => exact hnd hp

/-- Lock discipline (queue): the queue is changed only by the thread that owns `shared_mutex`. -/
theorem queue_changes_under_mutex {s s' : State} {t : Tid} (hI : Inv s) (h : step s t = some s')
    (hch : s'.queue ≠ s.queue) : s.mutex = some t := by
  cases t with
  | prod =>
    simp only [step] at h
    unfold stepProd at h
    cases hp : s.prod with
    | addLock t r =>
      rw [hp] at h
      by_cases hm : s.mutex = none
      · simp only [hm, ↓reduceIte, Option.some.injEq] at h; subst h; exact absurd rfl hch
      · simp [hm] at h
    | addPush t r => exact hI.mutexP.mpr (by rw [hp]; rfl)
    | addNotify r => rw [hp] at h; simp only [Option.some.injEq] at h; subst h; exact absurd rfl hch
    | stopLock =>
      rw [hp] at h
      by_cases hm : s.mutex = none
      · simp only [hm, ↓reduceIte, Option.some.injEq] at h; subst h; exact absurd rfl hch
      · simp [hm] at h
    | stopSet k => exact hI.mutexP.mpr (by rw [hp]; rfl)
    | stopNotify => rw [hp] at h; simp only [Option.some.injEq] at h; subst h; exact absurd rfl hch
    | join =>
      rw [hp] at h
      by_cases hall : ∀ i, i < s.n → s.wpc i = .done
      · rw [if_pos hall] at h; simp only [Option.some.injEq] at h; subst h; exact absurd rfl hch
      · simp [hall] at h
    | done => rw [hp] at h; simp at h
  | worker i =>
    simp only [step] at h
    unfold stepWorker at h
    by_cases hge : i ≥ s.n
    · simp [hge] at h
    · simp only [hge, ↓reduceIte] at h
      have hi : i < s.n := by omega
      cases hpc : s.wpc i with
      | loopStopped => rw [hpc] at h; simp only [Option.some.injEq] at h; subst h; exact absurd rfl hch
      | loopEmpty => rw [hpc] at h; simp only [Option.some.injEq] at h; subst h; exact absurd rfl hch
      | lock =>
        rw [hpc] at h
        by_cases hm : s.mutex = none
        · simp only [hm, ↓reduceIte, Option.some.injEq] at h; subst h; exact absurd rfl hch
        · simp [hm] at h
      | wake =>
        rw [hpc] at h
        by_cases hm : s.mutex = none
        · simp only [hm, ↓reduceIte, Option.some.injEq] at h; subst h; exact absurd rfl hch
        · simp [hm] at h
      | pred => rw [hpc] at h; simp only [Option.some.injEq] at h; subst h; exact absurd rfl hch
      | sleep => rw [hpc] at h; simp only [Option.some.injEq] at h; subst h; exact absurd rfl hch
      | waiting => rw [hpc] at h; simp at h
      | check => exact (hI.mutexW i).mpr ⟨hi, by rw [hpc]; rfl⟩
      | unlocked t => rw [hpc] at h; simp only [Option.some.injEq] at h; subst h; exact absurd rfl hch
      | run t => rw [hpc] at h; simp only [Option.some.injEq] at h; subst h; exact absurd rfl hch
      | exitNotify => rw [hpc] at h; simp only [Option.some.injEq] at h; subst h; exact absurd rfl hch
      | done => rw [hpc] at h; simp at h
  | spurious i =>
    simp only [step] at h
    split at h
    · simp only [Option.some.injEq] at h; subst h; exact absurd rfl hch
    · cases h

end CSD.Pool
