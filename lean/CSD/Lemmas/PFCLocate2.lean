import CSD.Lemmas.PFCLocate

namespace CSD.PFC
open CSD

/-- When the last decoded string is already above the query the loop finds nothing
(it stops at the next comparison). -/
theorem scanLoop_gt (q : Str) :
    ∀ (L : List Str) (decoded : Str) (i fuel scanneable : Nat) (rest : List UInt8) (cmp : Int),
      chain decoded L → (∀ s ∈ L, nulFree s) → scanneable = i + L.length →
      cmp > 0 → scmp decoded q > 0 →
      scanLoop q fuel i scanneable (encTail decoded L ++ rest) decoded (lcp decoded q) cmp = some 0 := by
  intro L decoded i fuel scanneable rest cmp hch hnf hsc hcmp hdq
  cases fuel with
  | zero => simp [scanLoop]
  | succ fuel =>
    cases L with
    | nil =>
      have : ¬ i < scanneable := by simp at hsc; omega
      simp [scanLoop, this]
    | cons c L =>
      have hi : i < scanneable := by simp at hsc; omega
      have hc : nulFree c := hnf c (by simp)
      simp only [scanLoop, hi, ↓reduceIte, encTail, encInternal, List.append_assoc,
        List.singleton_append, List.cons_append]
      rw [VByte.decode_encode]
      simp only
      by_cases hlt : lcp decoded c < lcp decoded q
      · simp [hlt]
      · simp only [hlt, ↓reduceIte]
        have hle := lcp_le_left decoded c
        have : ¬ lcp decoded c > decoded.length := by omega
        simp only [this, ↓reduceIte, List.drop_left]
        rw [readCStr_append (nulFree_drop hc _)]
        simp only [take_lcp_append_drop, List.nil_append]
        have hqc : scmp q c < 0 := scmp_trans_lt ((scmp_lt_iff_gt q decoded).mpr hdq) hch.1
        have hcq : scmp c q > 0 := (scmp_lt_iff_gt q c).mp hqc
        by_cases heq : lcp decoded c = lcp decoded q
        · simp only [heq, ↓reduceIte, cmpFrom]
          have hk : lcp decoded q ≤ lcp c q := by
            have := min_lcp_le decoded c q; rw [heq] at this; simpa using this
          rw [← scmp_drop_lcp c q _ hk]
          have h0 : ¬ scmp c q = 0 := by omega
          simp [h0, hcq]
        · simp only [heq, ↓reduceIte]
          have h0 : ¬ cmp = 0 := by omega
          simp [h0, hcmp]

theorem cmpFrom_zero (a q : Str) : cmpFrom a q 0 = (scmp a q, lcp a q) := by
  simp [cmpFrom]

/-- Length of bucket `k` (0-based) = the `scanneable` value `locate` computes. -/
theorem scanneable_eq (b n k : Nat) (hb : 2 ≤ b) (hk : k * b < n) :
    (if k + 1 = (n + b - 1) / b ∧ n % b ≠ 0 then n % b else b) = min b (n - k * b) := by
  have hbpos : 0 < b := by omega
  by_cases hlast : k + 1 = (n + b - 1) / b
  · -- last bucket: n ≤ (k+1)*b
    have hnot : ¬ (k + 1) * b < n := by
      intro h
      have := (lt_buckets_iff b n (k + 1) hbpos).mpr h
      omega
    have hsm : (k + 1) * b = k * b + b := Nat.succ_mul k b
    have hr : n - k * b ≤ b := by omega
    by_cases hr2 : n - k * b = b
    · have : n = b * (k + 1) := by rw [Nat.mul_comm]; omega
      have hmod : n % b = 0 := by rw [this]; exact Nat.mul_mod_right b (k + 1)
      simp [hlast, hmod, hr2]
    · have hn : n = b * k + (n - k * b) := by rw [Nat.mul_comm]; omega
      have hmod : n % b = n - k * b := by
        conv => lhs; rw [hn]
        rw [Nat.mul_add_mod]
        exact Nat.mod_eq_of_lt (by omega)
      have hne : n % b ≠ 0 := by rw [hmod]; omega
      have hcond : k + 1 = (n + b - 1) / b ∧ n % b ≠ 0 := ⟨hlast, hne⟩
      rw [if_pos hcond, hmod]
      omega
  · have hlt : k + 1 < (n + b - 1) / b := by
      have := (lt_buckets_iff b n k hbpos).mpr hk
      omega
    have := (lt_buckets_iff b n (k + 1) hbpos).mp hlt
    have hsm : (k + 1) * b = k * b + b := Nat.succ_mul k b
    simp only [hlast, false_and, ↓reduceIte]
    omega

end CSD.PFC
