import CSD.Lemmas.RPDAC2
import CSD.Lemmas.RPDACPrefix4
import CSD.Lemmas.PFCRange

/-! The RPDAC string iterator yields the members in ID order. -/
namespace CSD.RPDAC

theorem drain_represents (d : D) (S : List Str) (r : Represents d S) : ∀ (k i fuel : Nat), i + k ≤ S.length → k ≤ fuel →
    drain d fuel { processed := i, scanneable := i + k } = some (((S.drop i).take k).map bytesNat)
  | 0, i, fuel, _, _ => by cases fuel <;> simp [drain]
  | k + 1, i, 0, _, hf => by omega
  | k + 1, i, fuel + 1, hik, hf => by
    have hi : i < S.length := by omega
    have hi' : i < d.seqs.length := by rw [r.len]; exact hi
    unfold drain
    have hlt : i < i + (k + 1) := by omega
    simp only [hlt, ↓reduceIte, iterNext, List.getElem?_eq_getElem hi']
    have he := r.exp i hi' hi
    rw [he]
    have := drain_represents d S r k (i + 1) fuel (by omega) (by omega)
    have e : i + 1 + k = i + (k + 1) := by omega
    rw [e] at this
    rw [this]
    simp only [Option.some.injEq]
    rw [List.drop_eq_getElem_cons hi, List.take_succ_cons, List.map_cons]

/-- `extractTable` of RPDAC yields exactly the dictionary, in ID (= lexicographic) order, over any grammar
and sequences representing it. -/
theorem extractTable_represents (d : D) (S : List Str) (r : Represents d S) :
    extractTable d = some (S.map bytesNat) := by
  unfold extractTable
  have := drain_represents d S r S.length 0 d.seqs.length (by omega) (by rw [r.len]; omega)
  simp only [Nat.zero_add] at this
  rw [r.len] at this ⊢
  rw [this]
  simp

open CSD.PFC in
/-- **`extractPrefix` of RPDAC is exact** over any grammar and sequences representing the dictionary: the
iterator drains to exactly the members that start with the pattern, in order — and to nothing (its `processed`
wrapped around) when there is none. Dictionaries beyond `2^64 − 1` strings are outside the model. -/
theorem extractPrefix_represents (d : D) (S : List Str) (r : Represents d S) (hS : ∀ s ∈ S, nulFree s)
    (hsort : SortedLt S) (hlen : S.length < 2 ^ 64) (p : Str) (hp : nulFree p) (hne : p ≠ []) :
    extractPrefix d (bytesNat p) = some ((S.filter (isPrefix p)).map bytesNat) := by
  obtain ⟨lo, hi, hloc, hchar⟩ := locatePrefix_represents d S r hS hsort p hp hne
  unfold extractPrefix
  rw [hloc]
  simp only
  rcases hchar with ⟨rfl, rfl, hnone⟩ | ⟨h1, h2, h3, hiff⟩
  · have : S.filter (isPrefix p) = [] := by
      rw [List.filter_eq_nil_iff]
      intro a ha
      obtain ⟨i, hi', rfl⟩ := List.mem_iff_getElem.mp ha
      have := hnone (i + 1) (by omega) (by omega)
      simp only [Nat.add_sub_cancel] at this
      rw [this]; simp
    rw [this]
    simp [drain]
  · have hoff : (lo + 2 ^ 64 - 1) % 2 ^ 64 = lo - 1 := by
      have : lo + 2 ^ 64 - 1 = (lo - 1) + 2 ^ 64 := by omega
      rw [this, Nat.add_mod_right, Nat.mod_eq_of_lt (by omega)]
    rw [hoff]
    have hd := drain_represents d S r (hi - (lo - 1)) (lo - 1) hi (by omega) (by omega)
    have e : lo - 1 + (hi - (lo - 1)) = hi := by omega
    rw [e] at hd
    rw [hd]
    have hf := filter_range (isPrefix p) S lo hi h1 h2 h3 (by
      intro i hi'
      have := hiff (i + 1) (by omega) (by omega)
      simp only [Nat.add_sub_cancel] at this
      exact this)
    rw [hf]
    have e2 : hi - (lo - 1) = hi - lo + 1 := by omega
    rw [e2]

end CSD.RPDAC
