import CSD.Lemmas.RPDAC2

/-! The RPDAC string iterator yields the members in ID order. -/
namespace CSD.RPDAC

theorem drain_represents (d : D) (S : List Str) (r : Represents d S) : ∀ (k i fuel : Nat), i + k ≤ S.length → k ≤ fuel →
    drain d fuel { processed := i, scanneable := i + k } = some (((S.drop i).take k).map bytesNat)
  | 0, i, fuel, _, _ => by cases fuel <;> simp [drain]
  | k + 1, i, 0, _, hf => by omega
  | k + 1, i, fuel + 1, hik, hf => by
    have hi : i < S.length := by omega
    have hi' : i < d.seqs.length := by rw [r.len]; exact hi
    unfold drain
    have hlt : i < i + (k + 1) := by omega
    simp only [hlt, ↓reduceIte, iterNext, List.getElem?_eq_getElem hi']
    have he := r.exp i hi' hi
    rw [he]
    have := drain_represents d S r k (i + 1) fuel (by omega) (by omega)
    have e : i + 1 + k = i + (k + 1) := by omega
    rw [e] at this
    rw [this]
    simp only [Option.some.injEq]
    rw [List.drop_eq_getElem_cons hi, List.take_succ_cons, List.map_cons]

/-- `extractTable` of RPDAC yields exactly the dictionary, in ID (= lexicographic) order, over any grammar
and sequences representing it. -/
theorem extractTable_represents (d : D) (S : List Str) (r : Represents d S) :
    extractTable d = some (S.map bytesNat) := by
  unfold extractTable
  have := drain_represents d S r S.length 0 d.seqs.length (by omega) (by rw [r.len]; omega)
  simp only [Nat.zero_add] at this
  rw [r.len] at this ⊢
  rw [this]
  simp

end CSD.RPDAC
