import CSD.Model.PFCPrefix
import CSD.Lemmas.PFCLocate2
import CSD.Lemmas.RPDACPrefix3

/-! `locateBoundaryBuckets` on a built PFC dictionary. -/
namespace CSD.PFC
open CSD CSD.RPDAC

section
variable (b0 : Nat) (S : List Str) (q : Str)

/-- The bucket headers as a function of the bucket number (1-based). -/
def hd (k : Nat) : Str := S.getD ((k - 1) * clamp b0) []

/-- `strncmp(header k, q, |q|)`. -/
def fH (k : Nat) : Int := ncmp (hd b0 S k) q

theorem bucket_idx_lt (k : Nat) (h1 : 1 ≤ k) (h2 : k ≤ (build b0 S).buckets) : (k - 1) * clamp b0 < S.length := by
  have hb := clamp_ge_two b0
  rw [build_buckets] at h2
  exact (lt_buckets_iff (clamp b0) S.length (k - 1) (by omega)).mp (by omega)

theorem hd_get (k : Nat) (h1 : 1 ≤ k) (h2 : k ≤ (build b0 S).buckets) :
    hd b0 S k = S[(k - 1) * clamp b0]'(bucket_idx_lt b0 S k h1 h2) := by
  unfold hd
  rw [List.getD_eq_getElem?_getD, List.getElem?_eq_getElem (bucket_idx_lt b0 S k h1 h2)]; rfl

/-- Header and in-bucket pointer of bucket `k` of a built dictionary. -/
theorem hdrOf_build (hS : ∀ s ∈ S, nulFree s) (k : Nat) (h1 : 1 ≤ k) (h2 : k ≤ (build b0 S).buckets) :
    ∃ L rest, (S.drop ((k - 1) * clamp b0)).take (clamp b0) = hd b0 S k :: L ∧
      hdrOf (build b0 S) k = some (hd b0 S k, encTail (hd b0 S k) L ++ rest) := by
  have hk := bucket_idx_lt b0 S k h1 h2
  obtain ⟨L, rest, hL, hp⟩ := header_at b0 S (k - 1) hk
  refine ⟨L, rest, by rw [hd_get b0 S k h1 h2]; exact hL, ?_⟩
  unfold hdrOf
  have e : k - 1 + 1 = k := by omega
  rw [e] at hp
  rw [hp, hd_get b0 S k h1 h2]
  exact readCStr_append (hS _ (List.getElem_mem hk)) _

/-- The comparison the three loops perform. -/
def cmpH (k : Nat) : Option Int :=
  match hdrOf (build b0 S) k with
  | some (h, _) => some (ncmp h q)
  | none => none

theorem cmpH_eq (hS : ∀ s ∈ S, nulFree s) (k : Nat) (h1 : 1 ≤ k) (h2 : k ≤ (build b0 S).buckets) :
    cmpH b0 S q k = some (fH b0 S q k) := by
  obtain ⟨L, rest, _, h⟩ := hdrOf_build b0 S hS k h1 h2
  unfold cmpH fH
  rw [h]

theorem bbLeft_eq : ∀ (fuel ll lr : Nat), bbLeft (build b0 S) q fuel ll lr = leftLoop (cmpH b0 S q) fuel ll lr
  | 0, _, _ => rfl
  | fuel + 1, ll, lr => by
    unfold bbLeft leftLoop cmpH
    by_cases h : ll ≤ lr
    · simp only [h, ↓reduceIte]
      cases hdrOf (build b0 S) ((ll + lr) / 2) with
      | none => rfl
      | some hr =>
        obtain ⟨hh, _⟩ := hr
        simp only
        split <;> exact bbLeft_eq fuel _ _
    · simp [h]

theorem bbRight_eq : ∀ (fuel rl rr : Nat), bbRight (build b0 S) q fuel rl rr = rightLoop (cmpH b0 S q) fuel rl rr
  | 0, _, _ => rfl
  | fuel + 1, rl, rr => by
    unfold bbRight rightLoop cmpH
    by_cases h : rl < rr - 1
    · simp only [h, ↓reduceIte]
      cases hdrOf (build b0 S) ((rl + rr) / 2) with
      | none => rfl
      | some hr =>
        obtain ⟨hh, _⟩ := hr
        simp only
        split <;> exact bbRight_eq fuel _ _
    · simp [h]

theorem fH_mono (hS : ∀ s ∈ S, nulFree s) (hsort : SortedLt S) : Mono (build b0 S).buckets (fH b0 S q) where
  pos := by
    intro a b h1 hab hb hpos
    have hb2 := clamp_ge_two b0
    unfold fH at hpos ⊢
    rw [hd_get b0 S a h1 (by omega)] at hpos
    rw [hd_get b0 S b (by omega) hb]
    have hlt : (a - 1) * clamp b0 < (b - 1) * clamp b0 := Nat.mul_lt_mul_of_lt_of_le (by omega) (Nat.le_refl _) (by omega)
    have := hsort.getElem_lt hlt (bucket_idx_lt b0 S b (by omega) hb)
    exact (pcmp_mono (hS _ (List.getElem_mem _)) (hS _ (List.getElem_mem _)) this).2 hpos
  neg := by
    intro a b h1 hab hb hneg
    have hb2 := clamp_ge_two b0
    unfold fH at hneg ⊢
    rw [hd_get b0 S b (by omega) hb] at hneg
    rw [hd_get b0 S a h1 (by omega)]
    have hlt : (a - 1) * clamp b0 < (b - 1) * clamp b0 := Nat.mul_lt_mul_of_lt_of_le (by omega) (Nat.le_refl _) (by omega)
    have := hsort.getElem_lt hlt (bucket_idx_lt b0 S b (by omega) hb)
    exact (pcmp_mono (hS _ (List.getElem_mem _)) (hS _ (List.getElem_mem _)) this).1 hneg

/-- First loop: either a bucket whose header matches, or the last bucket whose header is below. -/
theorem bbFirst_spec (hS : ∀ s ∈ S, nulFree s) (hsort : SortedLt S) :
    ∀ (fuel left right center : Nat) (cmp : Int), 1 ≤ left → right ≤ (build b0 S).buckets → left ≤ right + 1 →
    right + 1 - left < fuel →
    (∀ k, 1 ≤ k → k < left → fH b0 S q k < 0) → (∀ k, right < k → k ≤ (build b0 S).buckets → fH b0 S q k > 0) →
    (right < left → cmp ≠ 0 ∧ (if cmp < 0 then center else center - 1) = right) →
    ∃ l r c cm, bbFirst (build b0 S) q fuel left right center cmp = some (l, r, c, cm) ∧
      ((cm = 0 ∧ fH b0 S q c = 0 ∧ 1 ≤ l ∧ l ≤ c ∧ c ≤ r ∧ r ≤ (build b0 S).buckets ∧
          (∀ k, 1 ≤ k → k < l → fH b0 S q k < 0) ∧ (∀ k, r < k → k ≤ (build b0 S).buckets → fH b0 S q k > 0)) ∨
       (cm ≠ 0 ∧ (if cm < 0 then c else c - 1) ≤ (build b0 S).buckets ∧
          (∀ k, 1 ≤ k → k ≤ (if cm < 0 then c else c - 1) → fH b0 S q k < 0) ∧
          (∀ k, (if cm < 0 then c else c - 1) < k → k ≤ (build b0 S).buckets → fH b0 S q k > 0))) := by
  have m := fH_mono b0 S q hS hsort
  intro fuel
  induction fuel with
  | zero => intro left right _ _ _ _ _ hf; omega
  | succ fuel ih =>
    intro left right center cmp hl hr hlr hf hlow hhigh hcons
    unfold bbFirst
    by_cases hle : left ≤ right
    · rw [if_pos hle]
      simp only
      have hc1 : 1 ≤ (left + right) / 2 := by omega
      have hc2 : (left + right) / 2 ≤ (build b0 S).buckets := by omega
      obtain ⟨L, rest, _, hh⟩ := hdrOf_build b0 S hS _ hc1 hc2
      rw [hh]
      simp only
      have hf' : ncmp (hd b0 S ((left + right) / 2)) q = fH b0 S q ((left + right) / 2) := rfl
      rw [hf']
      by_cases hpos : fH b0 S q ((left + right) / 2) > 0
      · rw [if_pos hpos]
        apply ih left ((left + right) / 2 - 1) _ _ hl (by omega) (by omega) (by omega) hlow
        · intro k h1 h2
          by_cases e : k = (left + right) / 2
          · subst e; exact hpos
          · exact m.pos _ k hc1 (by omega) h2 hpos
        · intro _
          refine ⟨by omega, ?_⟩
          have : ¬ fH b0 S q ((left + right) / 2) < 0 := by omega
          rw [if_neg this]
      · rw [if_neg hpos]
        by_cases hneg : fH b0 S q ((left + right) / 2) < 0
        · rw [if_pos hneg]
          apply ih ((left + right) / 2 + 1) right _ _ (by omega) hr (by omega) (by omega) _ hhigh
          · intro _
            refine ⟨by omega, ?_⟩
            rw [if_pos hneg]; omega
          · intro k h1 h2
            by_cases e : k = (left + right) / 2
            · subst e; exact hneg
            · exact m.neg k _ h1 (by omega) hc2 hneg
        · rw [if_neg hneg]
          exact ⟨left, right, _, 0, rfl, Or.inl ⟨rfl, by omega, hl, by omega, by omega, hr, hlow, hhigh⟩⟩
    · rw [if_neg hle]
      obtain ⟨hne, hR⟩ := hcons (by omega)
      refine ⟨left, right, center, cmp, rfl, Or.inr ⟨hne, by rw [hR]; exact hr, ?_, ?_⟩⟩
      · intro k h1 h2; rw [hR] at h2; exact hlow k h1 (by omega)
      · intro k h1 h2; rw [hR] at h1; exact hhigh k h1 h2

end

end CSD.PFC

namespace CSD.PFC
open CSD CSD.RPDAC

/-- **`locateBoundaryBuckets`**: either no header matches and both buckets are the last bucket `R` whose
header is below the pattern (possibly 0), or the headers of the buckets `F … Lz` are exactly those that
match, the left bucket is the one before `F` (or 1) and the right bucket is `Lz`. -/
theorem boundaryBuckets_spec (b0 : Nat) (S : List Str) (q : Str) (hne : S ≠ []) (hS : ∀ s ∈ S, nulFree s)
    (hsort : SortedLt S) :
    ∃ lb rb, boundaryBuckets (build b0 S) q = some (lb, rb) ∧
      ((lb = rb ∧ rb ≤ (build b0 S).buckets ∧ (∀ k, 1 ≤ k → k ≤ (build b0 S).buckets → fH b0 S q k ≠ 0) ∧
          (∀ k, 1 ≤ k → k ≤ rb → fH b0 S q k < 0) ∧ (∀ k, rb < k → k ≤ (build b0 S).buckets → fH b0 S q k > 0)) ∨
       (∃ F Lz, 1 ≤ F ∧ F ≤ Lz ∧ Lz ≤ (build b0 S).buckets ∧ lb = (if F > 1 then F - 1 else 1) ∧ rb = Lz ∧
          (∀ k, F ≤ k → k ≤ Lz → fH b0 S q k = 0) ∧ (∀ k, 1 ≤ k → k < F → fH b0 S q k < 0) ∧
          (∀ k, Lz < k → k ≤ (build b0 S).buckets → fH b0 S q k > 0))) := by
  have m := fH_mono b0 S q hS hsort
  have hcmp := fun k h1 h2 => cmpH_eq b0 S q hS k h1 h2
  have hnb : 1 ≤ (build b0 S).buckets := by
    rw [build_buckets]
    have hb := clamp_ge_two b0
    have : 0 < S.length := List.length_pos_iff.mpr hne
    exact (Nat.le_div_iff_mul_le (by omega)).mpr (by omega)
  unfold boundaryBuckets
  obtain ⟨l, r, c, cm, hfirst, hcase⟩ := bbFirst_spec b0 S q hS hsort ((build b0 S).buckets + 1) 1 (build b0 S).buckets 0 0
    (Nat.le_refl _) (Nat.le_refl _) (by omega) (by omega) (fun k h1 h2 => by omega) (fun k h1 h2 => by omega)
    (fun h => by omega)
  rw [hfirst]
  simp only
  rcases hcase with ⟨hcm, hz, hl1, hlc, hcr, hrn, hlow, hhigh⟩ | ⟨hcm, hRn, hlow, hhigh⟩
  · -- a header matches
    subst hcm
    simp only [ne_eq, not_true_eq_false, ↓reduceIte]
    have hL : ∃ L, (if c > 1 then
          match bbLeft (build b0 S) q ((build b0 S).buckets + 1) l (c - 1) with
          | none => none
          | some lr => some (if lr > 0 then lr else 1)
        else some l) = some L ∧ ∃ F, 1 ≤ F ∧ F ≤ c ∧ L = (if F > 1 then F - 1 else 1) ∧
        (∀ k, F ≤ k → k ≤ c → fH b0 S q k = 0) ∧ (∀ k, 1 ≤ k → k < F → fH b0 S q k < 0) := by
      by_cases hc : c > 1
      · rw [if_pos hc, bbLeft_eq]
        obtain ⟨res, hres, h1, h2, h3⟩ := leftLoop_spec m (cmpH b0 S q) hcmp c (by omega) (by omega) hz
          ((build b0 S).buckets + 1) l (c - 1) hl1 (by omega) (by omega) hlow (fun k h1 h2 => by
            have : k = c := by omega
            subst this; exact hz)
        rw [hres]
        refine ⟨_, rfl, res + 1, by omega, h1, ?_, fun k ha hb => h2 k (by omega) hb, fun k ha hb => h3 k ha (by omega)⟩
        by_cases h0 : res > 0
        · simp [h0]
        · have : res = 0 := by omega
          subst this; simp
      · rw [if_neg hc]
        have hc1 : c = 1 := by omega
        have hl : l = 1 := by omega
        refine ⟨_, rfl, 1, Nat.le_refl _, by omega, by simp [hl], fun k ha hb => by
          have : k = c := by omega
          subst this; exact hz, fun k ha hb => by omega⟩
    have hR : ∃ R, (if c < (build b0 S).buckets then bbRight (build b0 S) q ((build b0 S).buckets + 2) c (r + 1)
        else some r) = some R ∧ c ≤ R ∧ R ≤ (build b0 S).buckets ∧ (∀ k, c ≤ k → k ≤ R → fH b0 S q k = 0) ∧
        (∀ k, R < k → k ≤ (build b0 S).buckets → fH b0 S q k > 0) := by
      by_cases hc : c < (build b0 S).buckets
      · rw [if_pos hc, bbRight_eq]
        obtain ⟨res, hres, h1, h2, h3, h4⟩ := rightLoop_spec m (cmpH b0 S q) hcmp c (by omega) hz
          ((build b0 S).buckets + 2) c (r + 1) (Nat.le_refl _) (by omega) (by omega) (by omega) (fun k h1 h2 => by
            have : k = c := by omega
            subst this; exact hz) (fun k h1 h2 => hhigh k (by omega) h2)
        exact ⟨res, hres, h1, h2, h3, h4⟩
      · rw [if_neg hc]
        have hcn : c = (build b0 S).buckets := by omega
        have hr : r = (build b0 S).buckets := by omega
        refine ⟨r, rfl, by omega, by omega, fun k ha hb => by
          have : k = c := by omega
          subst this; exact hz, fun k ha hb => by omega⟩
    obtain ⟨L, hLe, F, hF1, hFc, hLF, hFz, hFn⟩ := hL
    obtain ⟨R, hRe, hRc, hRn, hRz, hRp⟩ := hR
    refine ⟨L, R, ?_, Or.inr ⟨F, R, hF1, by omega, hRn, hLF, rfl, ?_, hFn, hRp⟩⟩
    · show (match (if c > 1 then
            match bbLeft (build b0 S) q ((build b0 S).buckets + 1) l (c - 1) with
            | none => none
            | some lr => some (if lr > 0 then lr else 1)
          else some l), (if c < (build b0 S).buckets then bbRight (build b0 S) q ((build b0 S).buckets + 2) c (r + 1)
            else some r) with
        | some l, some r => some (l, r)
        | _, _ => none) = some (L, R)
      rw [hLe, hRe]
    · intro k ha hb
      rcases Nat.le_total k c with h | h
      · exact hFz k ha h
      · exact hRz k h hb
  · -- no header matches
    simp only [ne_eq, hcm, not_false_eq_true, ↓reduceIte]
    have hres : (if cm < 0 then some (c, c) else some (c - 1, c - 1)) =
        some ((if cm < 0 then c else c - 1), (if cm < 0 then c else c - 1)) := by split <;> rfl
    rw [hres]
    refine ⟨_, _, rfl, Or.inl ⟨rfl, hRn, ?_, hlow, hhigh⟩⟩
    intro k h1 h2
    rcases Nat.lt_or_ge (if cm < 0 then c else c - 1) k with h | h
    · have := hhigh k h h2; omega
    · have := hlow k h1 h; omega

end CSD.PFC
