import CSD.Lemmas.Order

/-! Strictly sorted lists of byte strings and positions in them. -/
namespace CSD
open CSD.PFC

/-- Strictly increasing in the byte order (pairwise form). -/
def SortedLt (S : List Str) : Prop := S.Pairwise (fun a b => scmp a b < 0)

theorem sortedLt_of_sortedStrict : ∀ S : List Str, sortedStrict S = true → SortedLt S
  | [], _ => List.Pairwise.nil
  | [_], _ => by simp [SortedLt]
  | a :: b :: t, h => by
    simp only [sortedStrict, Bool.and_eq_true] at h
    have ih := sortedLt_of_sortedStrict (b :: t) h.2
    have hab : scmp a b < 0 := by simpa [slt] using h.1
    unfold SortedLt at ih ⊢
    have ih' := ih
    rw [List.pairwise_cons] at ih
    rw [List.pairwise_cons]
    refine ⟨?_, ih'⟩
    intro c hc
    rcases List.mem_cons.mp hc with e | e
    · subst e; exact hab
    · exact scmp_trans_lt hab (ih.1 c e)

theorem SortedLt.getElem_lt {S : List Str} (h : SortedLt S) {i j : Nat} (hi : i < j) (hj : j < S.length) :
    scmp (S[i]'(by omega)) S[j] < 0 := by
  have := List.pairwise_iff_getElem.mp h i j (by omega) hj hi
  exact this

theorem ne_of_scmp_lt {a b : Str} (h : scmp a b < 0) : a ≠ b := by
  intro e; subst e; rw [scmp_self] at h; omega

/-- In a strictly sorted list an element occurs at one position only. -/
theorem SortedLt.idxOf?_getElem {S : List Str} (h : SortedLt S) (i : Nat) (hi : i < S.length) :
    S.idxOf? S[i] = some i := by
  rw [List.idxOf?_eq_some_iff]
  refine ⟨hi, rfl, ?_⟩
  intro j hj
  exact ne_of_scmp_lt (h.getElem_lt hj hi)

theorem Spec.locate_getElem {S : List Str} (h : SortedLt S) (i : Nat) (hi : i < S.length) :
    Spec.locate S S[i] = i + 1 := by
  simp [Spec.locate, h.idxOf?_getElem i hi]

theorem Spec.locate_not_mem {S : List Str} {q : Str} (h : q ∉ S) : Spec.locate S q = 0 := by
  simp [Spec.locate, List.idxOf?_eq_none_iff.mpr h]

end CSD
