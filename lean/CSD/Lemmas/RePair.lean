import CSD.Model.RePair

namespace CSD.RePair

theorem expandWith_append (t : Nat) (table extra : List (List Nat)) (s : Nat) (h : s < t + table.length) :
    expandWith t (table ++ extra) s = expandWith t table s := by
  unfold expandWith
  split
  · rfl
  · have : s - t < table.length := by omega
    simp [List.getD_eq_getElem?_getD, List.getElem?_append_left this]

theorem buildTable_prefix (t : Nat) : ∀ (rules : List (Nat × Nat)) (table : List (List Nat)),
    ∃ extra, buildTable t rules table = table ++ extra ∧ extra.length = rules.length
  | [], table => ⟨[], by simp [buildTable]⟩
  | (a, b) :: rest, table => by
    obtain ⟨extra, he, hl⟩ := buildTable_prefix t rest (table ++ [expandWith t table a ++ expandWith t table b])
    refine ⟨(expandWith t table a ++ expandWith t table b) :: extra, ?_, by simp [hl]⟩
    simp only [buildTable]; rw [he]; simp

theorem buildTable_append (t : Nat) : ∀ (r1 r2 : List (Nat × Nat)) (table : List (List Nat)),
    buildTable t (r1 ++ r2) table = buildTable t r2 (buildTable t r1 table)
  | [], _, _ => rfl
  | (a, b) :: r1, r2, table => by simp only [List.cons_append, buildTable]; exact buildTable_append t r1 r2 _

theorem table_length (g : Grammar) : g.table.length = g.rules.length := by
  obtain ⟨extra, he, hl⟩ := buildTable_prefix g.terminals g.rules []
  unfold Grammar.table; rw [he]; simpa using hl

/-- Adding a rule does not change what the old symbols stand for. -/
theorem expandSym_extend (g : Grammar) (a b s : Nat) (hs : s < g.terminals + g.rules.length) :
    ({ g with rules := g.rules ++ [(a, b)] } : Grammar).expandSym s = g.expandSym s := by
  unfold Grammar.expandSym Grammar.table
  simp only
  rw [buildTable_append]
  simp only [buildTable]
  apply expandWith_append
  have := table_length g
  unfold Grammar.table at this
  omega

/-- The new symbol stands for the concatenation of the two sides of its rule. -/
theorem expandSym_new (g : Grammar) (a b : Nat) :
    ({ g with rules := g.rules ++ [(a, b)] } : Grammar).expandSym (g.terminals + g.rules.length)
      = g.expandSym a ++ g.expandSym b := by
  unfold Grammar.expandSym Grammar.table
  simp only
  rw [buildTable_append]
  simp only [buildTable]
  have hl := table_length g
  unfold Grammar.table at hl
  unfold expandWith
  have h1 : ¬ (g.terminals + g.rules.length < g.terminals) := by omega
  simp only [h1, ↓reduceIte]
  have : g.terminals + g.rules.length - g.terminals = (buildTable g.terminals g.rules []).length := by omega
  rw [this]
  simp [List.getD_eq_getElem?_getD]

/-- **One replacement round is lossless**: replacing occurrences of `(a, b)` by the
fresh symbol, and recording the rule, leaves the expansion of the sequence unchanged. -/
theorem expand_step (g : Grammar) (a b : Nat) (seq seq' : List Nat)
    (hvalid : ∀ x ∈ seq, x < g.terminals + g.rules.length)
    (hr : Repl a b (g.terminals + g.rules.length) seq seq') :
    ({ g with rules := g.rules ++ [(a, b)] } : Grammar).expand seq' = g.expand seq := by
  induction hr with
  | nil => rfl
  | keep x _ ih =>
    simp only [Grammar.expand, List.flatMap_cons] at ih ⊢
    rw [expandSym_extend g a b x (hvalid x (by simp)), ih (fun y hy => hvalid y (by simp [hy]))]
  | replace _ ih =>
    simp only [Grammar.expand, List.flatMap_cons] at ih ⊢
    rw [expandSym_new, ih (fun y hy => hvalid y (by simp [hy]))]
    simp

/-- A replacement round never introduces symbols beyond the fresh one. -/
theorem repl_valid (a b n : Nat) (seq seq' : List Nat) (hr : Repl a b n seq seq') (bound : Nat)
    (hvalid : ∀ x ∈ seq, x < bound) (hn : n < bound + 1) : ∀ x ∈ seq', x < bound + 1 := by
  induction hr with
  | nil => intro x hx; cases hx
  | keep y _ ih =>
    intro x hx
    rcases List.mem_cons.mp hx with e | e
    · subst e; have := hvalid x (by simp); omega
    · exact ih (fun z hz => hvalid z (by simp [hz])) x e
  | replace _ ih =>
    intro x hx
    rcases List.mem_cons.mp hx with e | e
    · subst e; exact hn
    · exact ih (fun z hz => hvalid z (by simp [hz])) x e

/-- `bits(n)` bits are enough for every identifier up to `n`. -/
theorem lt_two_pow_bits (n : Nat) : n < 2 ^ bits n := by
  unfold bits
  split
  · subst_vars; simp
  · exact Nat.lt_log2_self

theorem id_fits (n x : Nat) (h : x ≤ n) : x < 2 ^ bits n :=
  Nat.lt_of_le_of_lt h (lt_two_pow_bits n)

end CSD.RePair

namespace CSD.RePair

/-- Any number of Re-Pair rounds (any choice of pairs with both sides ≠ 0 and of
occurrences). -/
inductive Run : Grammar → List Nat → Grammar → List Nat → Prop where
  | refl (g : Grammar) (seq : List Nat) : Run g seq g seq
  | step {g g' : Grammar} {seq seq1 seq' : List Nat} (a b : Nat)
      (ha : a ≠ 0) (hb : b ≠ 0)
      (hva : a < g.terminals + g.rules.length) (hvb : b < g.terminals + g.rules.length)
      (hr : Repl a b (g.terminals + g.rules.length) seq seq1)
      (rest : Run { g with rules := g.rules ++ [(a, b)] } seq1 g' seq') : Run g seq g' seq'

/-- **Re-Pair is lossless for every run**: whatever pairs and occurrences are
chosen, expanding the final grammar over the final sequence gives the original
sequence (so every string, delimited by its terminator, is still there). -/
theorem expand_run {g g' : Grammar} {seq seq' : List Nat} (h : Run g seq g' seq')
    (hvalid : ∀ x ∈ seq, x < g.terminals + g.rules.length) : g'.expand seq' = g.expand seq := by
  induction h with
  | refl => rfl
  | @step g g' seq seq1 seq' a b _ _ _ _ hr _ ih =>
    rw [ih (by
      intro x hx
      have := repl_valid a b _ seq seq1 hr (g.terminals + g.rules.length) hvalid (by omega) x hx
      simpa [Nat.add_assoc] using this)]
    exact expand_step g a b seq seq1 hvalid hr

/-- No rule ever contains the terminator: pairs with a 0 side are never chosen. -/
theorem zeroFree_run {g g' : Grammar} {seq seq' : List Nat} (h : Run g seq g' seq')
    (hz : g.zeroFree = true) : g'.zeroFree = true := by
  induction h with
  | refl => exact hz
  | @step g g' seq seq1 seq' a b ha hb _ _ _ _ ih =>
    apply ih
    simp only [Grammar.zeroFree, List.all_append, List.all_cons, List.all_nil, Bool.and_true,
      Bool.and_eq_true, bne_iff_ne, ne_eq]
    exact ⟨hz, ha, hb⟩

/-- Rules stay well-founded (each mentions only earlier symbols). -/
theorem wellFounded_append (t : Nat) : ∀ (rules : List (Nat × Nat)) (k a b : Nat),
    wellFounded t k rules = true → a < t + (k + rules.length) → b < t + (k + rules.length) →
    wellFounded t k (rules ++ [(a, b)]) = true
  | [], k, a, b, _, ha, hb => by simp [wellFounded] at *; omega
  | (x, y) :: rest, k, a, b, h, ha, hb => by
    simp only [wellFounded, Bool.and_eq_true, decide_eq_true_eq, List.cons_append] at h ⊢
    refine ⟨h.1, ?_⟩
    apply wellFounded_append t rest (k + 1) a b h.2 <;> (simp at ha hb ⊢; omega)

theorem wf_run {g g' : Grammar} {seq seq' : List Nat} (h : Run g seq g' seq')
    (hw : g.wf = true) : g'.wf = true := by
  induction h with
  | refl => exact hw
  | @step g g' seq seq1 seq' a b _ _ hva hvb _ _ ih =>
    apply ih
    unfold Grammar.wf at hw ⊢
    exact wellFounded_append g.terminals g.rules 0 a b hw (by omega) (by omega)

end CSD.RePair
