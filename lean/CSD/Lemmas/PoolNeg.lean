import CSD.Model.Pool

namespace CSD.Pool

theorem stepWorker_ge (s : State) (i : Nat) (h : i ≥ s.n) : stepWorker s i = none := by
  unfold stepWorker; simp [h]

theorem stepUnlocked_worker_ge (s : State) (i : Nat) (h : i ≥ s.n) :
    stepUnlocked s (.worker i) = none := stepWorker_ge s i h

/-- The schedule that loses the shutdown notification in the unrepaired pool: the
worker evaluates its wait predicate (false), the producer sets the stop flag and
notifies while the worker has not blocked yet, then the worker blocks. -/
def lostWakeupSchedule : List Tid :=
  [.worker 0, .worker 0, .worker 0,          -- loop condition, lock, predicate = false
   .prod, .prod, .prod, .prod,               -- stop: (no lock) set flag 0, end of loop, notify_all
   .worker 0]                                -- release the mutex and block

/-- **The unrepaired pool can hang**: one worker, no task; after this schedule the
worker sleeps in the condition variable although its stop flag is set, the
producer is in `wait_workers`, and no thread can ever move again. -/
theorem lost_wakeup_unlocked :
    ∃ s, runSched stepUnlocked (init 1 []) lostWakeupSchedule = some s ∧
      Stuck stepUnlocked s ∧ s.prod = .join ∧ s.wpc 0 = .waiting ∧ s.stopped 0 = true := by
  refine ⟨_, rfl, ⟨?_, ?_⟩, rfl, rfl, rfl⟩
  · decide
  · intro i
    cases i with
    | zero => rfl
    | succ j =>
      apply stepUnlocked_worker_ge
      show j + 1 ≥ 1
      omega

end CSD.Pool
