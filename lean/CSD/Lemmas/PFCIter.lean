import CSD.Lemmas.PFCMeta

/-! `extractTable()` of a built PFC dictionary yields the input, in order. -/
namespace CSD.PFC
open CSD

/-- Last string of `cur :: L`. -/
def lastOf (cur : Str) : List Str → Str
  | [] => cur
  | s :: L => lastOf s L

/-- Draining the rest of a bucket: `L` front-coded against the current string. -/
theorem drain_tail : ∀ (L : List Str) (rest : List UInt8) (pos bs : Nat) (cur : Str) (proc scan f : Nat),
    1 ≤ pos → pos + L.length ≤ bs → proc + L.length ≤ scan → (∀ s ∈ L, nulFree s) →
    Iter.drain (L.length + f) ⟨encTail cur L ++ rest, pos, bs, cur, proc, scan⟩ =
      (Iter.drain f ⟨rest, pos + L.length, bs, lastOf cur L, proc + L.length, scan⟩).map (L ++ ·)
  | [], rest, pos, bs, cur, proc, scan, f, _, _, _, _ => by
    simp only [encTail, List.nil_append, List.length_nil, Nat.zero_add, Nat.add_zero, lastOf]
    cases Iter.drain f _ <;> simp
  | s :: L, rest, pos, bs, cur, proc, scan, f, h1, h2, h3, hn => by
    have hs : nulFree s := hn s (by simp)
    have hL : ∀ t ∈ L, nulFree t := fun t ht => hn t (by simp [ht])
    simp only [List.length_cons] at h2 h3 ⊢
    have hfuel : L.length + 1 + f = (L.length + f) + 1 := by omega
    rw [hfuel, Iter.drain]
    have hhas : (⟨encTail cur (s :: L) ++ rest, pos, bs, cur, proc, scan⟩ : Iter).hasNext = true := by
      simp [Iter.hasNext]; omega
    simp only [hhas, ↓reduceIte]
    have hmod : ¬ pos % bs = 0 := by
      have : pos < bs := by omega
      rw [Nat.mod_eq_of_lt this]; omega
    simp only [Iter.next, hmod, ↓reduceIte, encTail, List.append_assoc]
    rw [decodeNext_encInternal cur s hs]
    simp only
    rw [drain_tail L rest (pos + 1) bs s (proc + 1) scan f (by omega) (by omega) (by omega) hL]
    simp only [lastOf]
    have e1 : pos + 1 + L.length = pos + (L.length + 1) := by omega
    have e2 : proc + 1 + L.length = proc + (L.length + 1) := by omega
    rw [e1, e2]
    cases Iter.drain f _ <;> simp

/-- Draining whole buckets. -/
theorem drain_buckets (b : Nat) (hb : 2 ≤ b) : ∀ (Cs : List (List Str)) (rest : List UInt8) (pos : Nat) (cur : Str)
    (proc scan f : Nat),
    pos % b = 0 → scan = proc + Cs.flatten.length → Cs.flatten.length ≤ f →
    (∀ c ∈ Cs, c ≠ [] ∧ c.length ≤ b ∧ ∀ s ∈ c, nulFree s) →
    (∀ i, i + 1 < Cs.length → ∀ c, Cs[i]? = some c → c.length = b) →
    Iter.drain f ⟨(Cs.map encBucket).flatten ++ rest, pos, b, cur, proc, scan⟩ = some Cs.flatten
  | [], rest, pos, cur, proc, scan, f, _, hsc, _, _, _ => by
    simp only [List.flatten_nil, List.length_nil, Nat.add_zero] at hsc
    cases f with
    | zero => simp [Iter.drain]
    | succ f => simp [Iter.drain, Iter.hasNext, hsc]
  | c :: Cs, rest, pos, cur, proc, scan, f, hpos, hsc, hf, hall, hfull => by
    obtain ⟨hcne, hclen, hcn⟩ := hall c (by simp)
    cases c with
    | nil => exact absurd rfl hcne
    | cons h L =>
      have hh : nulFree h := hcn h (by simp)
      have hL : ∀ s ∈ L, nulFree s := fun s hs => hcn s (by simp [hs])
      simp only [List.flatten_cons, List.length_append, List.length_cons] at hsc hf hclen
      obtain ⟨g, hg⟩ : ∃ g, f = (L.length + (Cs.flatten.length + g)) + 1 := ⟨f - (L.length + 1 + Cs.flatten.length), by omega⟩
      subst hg
      rw [Iter.drain]
      have hhas : (⟨((h :: L) :: Cs |>.map encBucket).flatten ++ rest, pos, b, cur, proc, scan⟩ : Iter).hasNext = true := by
        simp [Iter.hasNext]; omega
      simp only [hhas, ↓reduceIte]
      simp only [Iter.next, hpos, ↓reduceIte, List.map_cons, List.flatten_cons, encBucket, List.append_assoc,
        List.cons_append, List.nil_append]
      rw [readCStr_append hh]
      simp only
      rw [drain_tail L ((Cs.map encBucket).flatten ++ rest) 1 b h (proc + 1) scan _ (by omega) (by omega) (by omega) hL]
      have hrec : Iter.drain (Cs.flatten.length + g)
          ⟨(Cs.map encBucket).flatten ++ rest, 1 + L.length, b, lastOf h L, proc + 1 + L.length, scan⟩
          = some Cs.flatten := by
        cases Cs with
        | nil =>
          have : scan = proc + 1 + L.length := by simp at hsc; omega
          cases hfu : (([] : List (List Str)).flatten.length + g) with
          | zero => simp [Iter.drain]
          | succ g' => simp [Iter.drain, Iter.hasNext, this]
        | cons c2 Cs2 =>
          apply drain_buckets b hb (c2 :: Cs2) rest _ _ _ _ _
          · have := hfull 0 (by simp) (h :: L) (by simp)
            simp only [List.length_cons] at this
            rw [show 1 + L.length = b by omega]
            exact Nat.mod_self b
          · omega
          · omega
          · intro c hc; exact hall c (by simp [hc])
          · intro i hi c hc
            exact hfull (i + 1) (by simp at hi ⊢; omega) c (by simpa using hc)
      rw [hrec]
      simp

end CSD.PFC

namespace CSD.PFC
open CSD

theorem chunks_flatten (b : Nat) (hb : b ≠ 0) (S : List Str) : (chunks b S).flatten = S := by
  induction h : S.length using Nat.strongRecOn generalizing S with
  | _ n ih =>
    by_cases hS : S = []
    · subst hS; rw [chunks_nil]; rfl
    · rw [chunks_cons b S hb hS, List.flatten_cons,
        ih (S.drop b).length (by
          have : 0 < S.length := List.length_pos_iff.mpr hS
          simp only [List.length_drop]; omega) (S.drop b) rfl]
      exact List.take_append_drop b S

theorem chunk_of_mem (b : Nat) (hb : 0 < b) (S : List Str) (c : List Str) (hc : c ∈ chunks b S) :
    ∃ i, i * b < S.length ∧ c = (S.drop (i * b)).take b := by
  obtain ⟨i, hi, hie⟩ := List.mem_iff_getElem.mp hc
  have hlen := chunks_length b (by omega) S
  have hib : i * b < S.length := (lt_buckets_iff b S.length i hb).mp (by omega)
  have := chunks_getElem? b (by omega) S i hib
  rw [List.getElem?_eq_getElem hi, hie] at this
  exact ⟨i, hib, Option.some.inj this⟩

/-- **Table scan is exact**: the iterator returned by `extractTable()` yields
exactly `numElements` strings, the `k`-th being the `k`-th member (the sorted
input), and `hasNext` is false afterwards; every read stays inside the text. -/
theorem table_build (b0 : Nat) (S : List Str) (hne : S ≠ []) (hS : ∀ s ∈ S, nulFree s) :
    table (build b0 S) = some S := by
  have hb := clamp_ge_two b0
  have hbpos : 0 < clamp b0 := by omega
  have hbne : clamp b0 ≠ 0 := by omega
  have hn : 0 < S.length := List.length_pos_iff.mpr hne
  -- the pointer of bucket 1 is the start of the text
  have hptr : bucketPtr (build b0 S) 1 = some ((chunks (clamp b0) S).map encBucket).flatten := by
    unfold bucketPtr
    rw [build_bl, build_text]
    have hlen : 0 < ((chunks (clamp b0) S).map encBucket).length := by
      rw [List.length_map, chunks_length _ hbne]
      exact (lt_buckets_iff (clamp b0) S.length 0 hbpos).mpr (by simpa using hn)
    rw [List.cons_append, List.getElem?_cons_succ, List.getElem?_append_left (by rw [offsetsFrom_length]; exact hlen),
      offsetsFrom_getElem? _ 0 0 hlen]
    simp
  unfold table
  rw [hptr, build_elements, build_bucketsize]
  simp only
  have := drain_buckets (clamp b0) hb (chunks (clamp b0) S) [] 0 [] 0 S.length S.length (by simp)
    (by rw [chunks_flatten _ hbne]; simp) (by rw [chunks_flatten _ hbne]; exact Nat.le_refl _)
    (by
      intro c hc
      obtain ⟨i, hi, rfl⟩ := chunk_of_mem (clamp b0) hbpos S c hc
      refine ⟨?_, ?_, ?_⟩
      · intro h
        have := congrArg List.length h
        simp at this; omega
      · simp; omega
      · intro s hs; exact hS s (List.mem_of_mem_drop (List.mem_of_mem_take hs)))
    (by
      intro i hi c hc
      have hlen := chunks_length (clamp b0) hbne S
      have h1 : (i + 1) * clamp b0 < S.length := (lt_buckets_iff (clamp b0) S.length (i + 1) hbpos).mp (by omega)
      have h0 : i * clamp b0 < S.length := by rw [Nat.succ_mul] at h1; omega
      rw [chunks_getElem? _ hbne S i h0] at hc
      have := Option.some.inj hc
      rw [← this]
      rw [Nat.succ_mul] at h1
      simp; omega)
  rw [List.append_nil, chunks_flatten _ hbne] at this
  exact this

end CSD.PFC
