import CSD.Lemmas.RGSelect1

/-! `BitSequenceRG::select1`: super-block search, word scan, and the final statement. -/
namespace CSD.RG

theorem ones_mono (words : List Nat) {a b : Nat} (h : a ≤ b) : ones words a ≤ ones words b := by
  unfold ones
  have : (allBits words).take a = ((allBits words).take b).take a := by
    rw [List.take_take]; congr 1; omega
  rw [this]
  exact (List.take_sublist a _).count_le true

theorem bitsOf_take (w q : Nat) (hq : q ≤ 32) : ((bitsOf w).take q).count true = cb w q := by
  unfold bitsOf cb
  rw [← List.map_take]
  have : (List.range 32).take q = List.range q := by
    apply List.ext_getElem
    · simp; omega
    · intro i h1 h2; simp
  rw [this]

theorem allBits_split (words : List Nat) (k : Nat) (hk : k < words.length) :
    allBits words = allBits (words.take k) ++ (bitsOf words[k] ++ allBits (words.drop (k + 1))) := by
  have : words = words.take k ++ (words[k] :: words.drop (k + 1)) := by
    rw [← List.drop_eq_getElem_cons hk, List.take_append_drop]
  conv => lhs; rw [this]
  unfold allBits
  rw [List.flatMap_append, List.flatMap_cons]

/-- Ones up to a position inside word `k`. -/
theorem ones_word (words : List Nat) (k q : Nat) (hk : k < words.length) (hq : q ≤ 32) :
    ones words (32 * k + q) = ones words (32 * k) + cb words[k] q := by
  unfold ones
  have hlen : (allBits (words.take k)).length = 32 * k := by
    rw [allBits_length, List.length_take]; congr 1; omega
  rw [allBits_split words k hk]
  have h1 : (allBits (words.take k) ++ (bitsOf words[k] ++ allBits (words.drop (k + 1)))).take (32 * k + q) =
      allBits (words.take k) ++ (bitsOf words[k]).take q := by
    rw [List.take_append, hlen]
    have : (allBits (words.take k)).take (32 * k + q) = allBits (words.take k) := List.take_of_length_le (by omega)
    rw [this]
    congr 1
    have e : 32 * k + q - 32 * k = q := by omega
    rw [e, List.take_append_of_le_length (by rw [bitsOf_length]; exact hq)]
  have h2 : (allBits (words.take k) ++ (bitsOf words[k] ++ allBits (words.drop (k + 1)))).take (32 * k) =
      allBits (words.take k) := by
    rw [List.take_append_of_le_length (by omega)]
    exact List.take_of_length_le (by omega)
  rw [h1, h2, List.count_append, bitsOf_take _ _ hq]

/-- The bit at a position inside word `k`. -/
theorem allBits_get (words : List Nat) (k q : Nat) (hk : k < words.length) (hq : q < 32) :
    (allBits words)[32 * k + q]? = some (words[k].testBit q) := by
  have hlen : (allBits (words.take k)).length = 32 * k := by
    rw [allBits_length, List.length_take]; congr 1; omega
  rw [allBits_split words k hk, List.getElem?_append_right (by omega), hlen]
  have e : 32 * k + q - 32 * k = q := by omega
  rw [e, List.getElem?_append_left (by rw [bitsOf_length]; exact hq)]
  simp [bitsOf, hq]

theorem Rs_zero (words : List Nat) (factor : Nat) : Rs words factor 0 = 0 := by simp [Rs]

/-- The super-block search ends on a super-block whose counter is below `x`. -/
theorem selBin_spec (words : List Nat) (factor x : Nat) (hx : 1 ≤ x) :
    ∀ (fuel l r mid : Nat), mid = (l + r) / 2 → l ≤ r + 1 → r + 1 - l < fuel → (l = 0 ∨ Rs words factor (l - 1) < x) →
    ∃ m, selBin words factor x fuel l r mid = some m ∧ Rs words factor m < x := by
  intro fuel
  induction fuel with
  | zero => intro l r mid _ _ hf; omega
  | succ fuel ih =>
    intro l r mid hmid hlr hf hinv
    unfold selBin
    by_cases hle : l ≤ r
    · rw [if_pos hle]
      by_cases hlt : Rs words factor mid < x
      · rw [if_pos hlt]
        exact ih (mid + 1) r _ rfl (by omega) (by omega) (Or.inr (by simpa using hlt))
      · rw [if_neg hlt]
        have hm0 : mid ≠ 0 := by
          intro e; rw [e, Rs_zero] at hlt; omega
        rw [if_neg hm0]
        exact ih l (mid - 1) _ rfl (by omega) (by omega) hinv
    · rw [if_neg hle]
      have hl : l = r + 1 := by omega
      have hm : mid = l - 1 := by omega
      refine ⟨mid, rfl, ?_⟩
      rcases hinv with h | h
      · omega
      · rw [hm]; exact h

/-- The word scan stops at the word that holds the `x`-th one. -/
theorem selWords_spec (words : List Nat) (integers x : Nat) (hint : words.length ≤ integers)
    (hx2 : x ≤ ones words (32 * words.length)) :
    ∀ (fuel left : Nat), ones words (32 * left) < x → words.length + 1 - left ≤ fuel →
    ∃ left', selWords words integers fuel left (x - ones words (32 * left)) =
        some (some (left', x - ones words (32 * left'))) ∧
      ∃ (h : left' < words.length), ones words (32 * left') < x ∧ x - ones words (32 * left') ≤ cb words[left'] 32 := by
  intro fuel
  induction fuel with
  | zero =>
    intro left h1 hf
    -- left ≥ |words| + 1 is impossible: the ones are exhausted
    exfalso
    have := ones_mono words (show 32 * words.length ≤ 32 * left by omega)
    omega
  | succ fuel ih =>
    intro left h1 hf
    have hleft : left < words.length := by
      rcases Nat.lt_or_ge left words.length with h | h
      · exact h
      · exfalso
        have := ones_mono words (show 32 * words.length ≤ 32 * left by omega)
        omega
    unfold selWords
    rw [List.getElem?_eq_getElem hleft]
    simp only
    have hw := ones_word words left 32 hleft (Nat.le_refl _)
    have e : 32 * left + 32 = 32 * (left + 1) := by omega
    rw [e] at hw
    by_cases hlt : popcount words[left] < x - ones words (32 * left)
    · rw [if_pos hlt]
      have hnext : ones words (32 * (left + 1)) < x := by rw [hw, ← popcount_eq_cb]; omega
      have hl1 : left + 1 < words.length := by
        rcases Nat.lt_or_ge (left + 1) words.length with h | h
        · exact h
        · exfalso
          have := ones_mono words (show 32 * words.length ≤ 32 * (left + 1) by omega)
          omega
      rw [if_neg (by omega)]
      have hsub : x - ones words (32 * left) - popcount words[left] = x - ones words (32 * (left + 1)) := by
        rw [hw, ← popcount_eq_cb]; omega
      rw [hsub]
      exact ih (left + 1) hnext (by omega)
    · rw [if_neg hlt]
      exact ⟨left, rfl, hleft, h1, by rw [← popcount_eq_cb]; omega⟩

/-- **`select1` is exact**: for `1 ≤ x ≤ ones`, the answer `p` is the position of the `x`-th one — the bit
at `p` is set and exactly `x - 1` ones precede it — and every array read is in bounds. -/
theorem select1_spec (words : List Nat) (factor n total x : Nat) (hf : 0 < factor) (hx1 : 1 ≤ x) (hx2 : x ≤ total)
    (htot : total ≤ ones words (32 * words.length)) (hint : words.length ≤ n / 32 + 1) :
    ∃ p, select1 words factor n total x = some p ∧ (allBits words)[p]? = some true ∧ ones words p = x - 1 := by
  unfold select1
  rw [if_neg (by omega), if_neg (by omega)]
  simp only
  obtain ⟨mid, hmid, hRs⟩ : ∃ m, selBin words factor x (n / (W * factor) + 3) 0 (n / (W * factor))
      ((0 + n / (W * factor)) / 2) = some m ∧ Rs words factor m < x := by
    generalize n / (W * factor) = t
    exact selBin_spec words factor x hx1 (t + 3) 0 t ((0 + t) / 2) rfl (by omega) (by omega) (Or.inl rfl)
  rw [hmid]
  simp only
  rw [Rs_eq] at hRs
  obtain ⟨left, hsw, hleft, hlt, hle⟩ := selWords_spec words (n / W + 1) x (by unfold W; exact hint) (by omega)
    (words.length + 1) (mid * factor) hRs (by omega)
  rw [Rs_eq, hsw]
  simp only
  rw [List.getElem?_eq_getElem hleft]
  simp only
  obtain ⟨off, hsb, hoff, hofflt, hoffle⟩ := selBytes_spec words[left] (x - ones words (32 * left)) (by omega) hle
  rw [hsb]
  simp only
  have hfuel : x - ones words (32 * left) - cb words[left] off ≤ cb (words[left] >>> off) 39 :=
    Nat.le_trans hoffle (cb_mono _ (by omega))
  obtain ⟨q, hq1, hq2, hq3, hq4⟩ := selBits_spec 39 (words[left] >>> off) (x - ones words (32 * left) - cb words[left] off)
    (left * W + off) hfuel
  rw [hq1]
  simp only
  obtain ⟨hqpos, hbit, hcnt⟩ := hq4 (by omega)
  -- the position inside the word
  rw [Nat.testBit_shiftRight] at hbit
  rw [cb_shift] at hcnt
  have hmono := cb_mono words[left] (show off ≤ off + (q - 1) by omega)
  have hidx : off + (q - 1) < 32 := by
    rcases Nat.lt_or_ge (off + (q - 1)) 32 with h | h
    · exact h
    · exfalso
      have := cb_mono words[left] h
      omega
  refine ⟨left * W + off + q - 1, rfl, ?_, ?_⟩
  · have e : left * W + off + q - 1 = 32 * left + (off + (q - 1)) := by unfold W; omega
    rw [e, allBits_get words left _ hleft hidx, hbit]
  · have e : left * W + off + q - 1 = 32 * left + (off + (q - 1)) := by unfold W; omega
    rw [e, ones_word words left _ hleft (by omega)]
    omega

end CSD.RG
