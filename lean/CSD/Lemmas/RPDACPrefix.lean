import CSD.Lemmas.RPDAC2

/-! `extractPrefixAndCompareDAC` is `strncmp(stored, pattern, |pattern|)`. -/
namespace CSD.RPDAC
open CSD CSD.RePair CSD.PFC

/-- Sequencing with the exhaustion check in between. -/
def thenQ (buf : List Nat) (r : Option (Int × Nat)) (k : Nat → Option (Int × Nat)) : Option (Int × Nat) :=
  match r with
  | none => none
  | some (c, p) =>
    if c ≠ 0 then some (c, p) else
    match atEnd buf p with
    | none => none
    | some true => some (0, p)
    | some false => k p

/-- Flat comparison of a non-empty list of terminals with the exhaustion check between consecutive
terminals (not after the last one: that check belongs to the caller). -/
def cmpListQ (buf : List Nat) : List Nat → Nat → Option (Int × Nat)
  | [], pos => some (0, pos)
  | [s], pos => cmpTerm buf s pos
  | s :: t :: rest, pos => thenQ buf (cmpTerm buf s pos) (cmpListQ buf (t :: rest))

theorem thenQ_assoc (buf : List Nat) (r : Option (Int × Nat)) (k1 k2 : Nat → Option (Int × Nat)) :
    thenQ buf (thenQ buf r k1) k2 = thenQ buf r (fun p => thenQ buf (k1 p) k2) := by
  unfold thenQ
  cases r with
  | none => rfl
  | some cp =>
    obtain ⟨c, p⟩ := cp
    simp only
    by_cases hc : c ≠ 0
    · simp [hc]
    · have hc0 : c = 0 := by omega
      subst hc0
      simp only [ne_eq, not_true_eq_false, ↓reduceIte]
      cases h : atEnd buf p with
      | none => rfl
      | some b =>
        cases b with
        | true => simp [h]
        | false => rfl

theorem cmpListQ_append (buf : List Nat) : ∀ (a b : List Nat), a ≠ [] → b ≠ [] → ∀ pos,
    cmpListQ buf (a ++ b) pos = thenQ buf (cmpListQ buf a pos) (cmpListQ buf b)
  | [], _, ha, _, _ => absurd rfl ha
  | [s], b, _, hb, pos => by
    cases b with
    | nil => exact absurd rfl hb
    | cons t rest => rfl
  | s :: t :: a, b, _, hb, pos => by
    have ih := cmpListQ_append buf (t :: a) b (by simp) hb
    show thenQ buf (cmpTerm buf s pos) (cmpListQ buf ((t :: a) ++ b)) = _
    have : cmpListQ buf (s :: t :: a) pos = thenQ buf (cmpTerm buf s pos) (cmpListQ buf (t :: a)) := rfl
    rw [this, thenQ_assoc]
    congr 1
    funext p
    exact ih p

theorem expandSym_ne_nil (g : Grammar) (hwf : g.wf = true) : ∀ (s : Nat), s < g.terminals + g.rules.length →
    g.expandSym s ≠ [] := by
  intro s
  induction s using Nat.strongRecOn with
  | _ s ih =>
    intro hs
    by_cases ht : s < g.terminals
    · rw [expandSym_term g s ht]; simp
    · have hk : s - g.terminals < g.rules.length := by omega
      have hab := wellFounded_get g.terminals g.rules 0 hwf _ hk
      simp only [Nat.zero_add] at hab
      have e : s = g.terminals + (s - g.terminals) := by omega
      rw [e, expandSym_rule g hwf _ hk]
      have := ih g.rules[s - g.terminals].1 (by omega) (by omega)
      intro h
      exact this (List.append_eq_nil_iff.mp h).1

/-- The nested prefix comparison of a rule equals the flat one of its expansion. -/
theorem cmpRuleP_eq (g : Grammar) (hwf : g.wf = true) (buf : List Nat) :
    ∀ (k : Nat), k < g.rules.length → ∀ fuel, k + 1 ≤ fuel → ∀ pos,
      cmpRuleP g buf fuel k pos = cmpListQ buf (g.expandSym (g.terminals + k)) pos := by
  intro k
  induction k using Nat.strongRecOn with
  | _ k ih =>
    intro hk fuel hf pos
    cases fuel with
    | zero => omega
    | succ fuel =>
      have hab := wellFounded_get g.terminals g.rules 0 hwf k hk
      simp only [Nat.zero_add] at hab
      have hside : ∀ (s p : Nat), s < g.terminals + k →
          (if s ≥ g.terminals then cmpRuleP g buf fuel (s - g.terminals) p else cmpTerm buf s p) =
            cmpListQ buf (g.expandSym s) p := by
        intro s p hs
        by_cases hge : s ≥ g.terminals
        · rw [if_pos hge]
          have := ih (s - g.terminals) (by omega) (by omega) fuel (by omega) p
          rw [this]
          congr 2; omega
        · rw [if_neg hge, expandSym_term g s (by omega)]; rfl
      unfold cmpRuleP
      rw [List.getElem?_eq_getElem hk]
      simp only
      rw [expandSym_rule g hwf k hk,
        cmpListQ_append buf _ _ (expandSym_ne_nil g hwf _ (by omega)) (expandSym_ne_nil g hwf _ (by omega)),
        hside _ pos hab.1]
      unfold thenQ
      cases h : cmpListQ buf (g.expandSym g.rules[k].1) pos with
      | none => rfl
      | some cp =>
        obtain ⟨c, p⟩ := cp
        simp only
        by_cases hc : c ≠ 0
        · simp [hc]
        · simp only [hc, ↓reduceIte]
          cases h2 : atEnd buf p with
          | none => rfl
          | some b =>
            cases b with
            | true => rfl
            | false => exact hside _ p hab.2

/-- Flat comparison with the exhaustion check after every terminal, reporting whether it stopped there. -/
def cmpListP (buf : List Nat) : List Nat → Nat → Option (Int × Nat × Bool)
  | [], pos => some (0, pos, false)
  | s :: rest, pos =>
    match cmpTerm buf s pos with
    | none => none
    | some (c, p) =>
      if c ≠ 0 then some (c, p, false) else
      match atEnd buf p with
      | none => none
      | some true => some (0, p, true)
      | some false => cmpListP buf rest p

/-- What the symbol loop does with the result of one symbol. -/
def stepP (buf : List Nat) (r : Option (Int × Nat)) (k : Nat → Option (Int × Nat × Bool)) : Option (Int × Nat × Bool) :=
  match r with
  | none => none
  | some (c, p) =>
    if c ≠ 0 then some (c, p, false) else
    match atEnd buf p with
    | none => none
    | some true => some (0, p, true)
    | some false => k p

theorem cmpListP_append_Q (buf : List Nat) : ∀ (e rest : List Nat), e ≠ [] → ∀ pos,
    cmpListP buf (e ++ rest) pos = stepP buf (cmpListQ buf e pos) (cmpListP buf rest)
  | [], _, he, _ => absurd rfl he
  | [s], rest, _, pos => rfl
  | s :: t :: e, rest, _, pos => by
    have ih := cmpListP_append_Q buf (t :: e) rest (by simp)
    show (match cmpTerm buf s pos with
      | none => none
      | some (c, p) => if c ≠ 0 then some (c, p, false) else
        match atEnd buf p with
        | none => none
        | some true => some (0, p, true)
        | some false => cmpListP buf ((t :: e) ++ rest) p) = _
    have hq : cmpListQ buf (s :: t :: e) pos = thenQ buf (cmpTerm buf s pos) (cmpListQ buf (t :: e)) := rfl
    rw [hq]
    unfold thenQ stepP
    cases h : cmpTerm buf s pos with
    | none => rfl
    | some cp =>
      obtain ⟨c, p⟩ := cp
      simp only
      by_cases hc : c ≠ 0
      · simp [hc]
      · have hc0 : c = 0 := by omega
        subst hc0
        simp only [ne_eq, not_true_eq_false, ↓reduceIte]
        cases h2 : atEnd buf p with
        | none => rfl
        | some b =>
          cases b with
          | true => simp [h2]
          | false =>
            simp only
            rw [ih p]
            rfl

/-- The symbol loop equals the flat prefix comparison of the whole expansion. -/
theorem cmpSymsP_eq (g : Grammar) (hwf : g.wf = true) (buf : List Nat) :
    ∀ (syms : List Nat), (∀ s ∈ syms, s < g.terminals + g.rules.length) → ∀ pos,
      cmpSymsP g buf syms pos = cmpListP buf (g.expand syms) pos
  | [], _, pos => by simp [cmpSymsP, Grammar.expand, cmpListP]
  | s :: rest, hv, pos => by
    have hs := hv s (by simp)
    have hrest : ∀ x ∈ rest, x < g.terminals + g.rules.length := fun x hx => hv x (by simp [hx])
    have hstep : (if s ≥ g.terminals then cmpRuleP g buf (g.rules.length + 1) (s - g.terminals) pos
        else cmpTerm buf s pos) = cmpListQ buf (g.expandSym s) pos := by
      by_cases hge : s ≥ g.terminals
      · rw [if_pos hge, cmpRuleP_eq g hwf buf (s - g.terminals) (by omega) _ (by omega) pos]
        congr 2; omega
      · rw [if_neg hge, expandSym_term g s (by omega)]; rfl
    have hexp : g.expand (s :: rest) = g.expandSym s ++ g.expand rest := by simp [Grammar.expand]
    unfold cmpSymsP
    simp only
    rw [hstep, hexp, cmpListP_append_Q buf _ _ (expandSym_ne_nil g hwf s hs)]
    unfold stepP
    cases h : cmpListQ buf (g.expandSym s) pos with
    | none => rfl
    | some cp =>
      obtain ⟨c, p⟩ := cp
      simp only
      by_cases hc : c ≠ 0
      · simp [hc]
      · simp only [hc, ↓reduceIte]
        cases h2 : atEnd buf p with
        | none => rfl
        | some b =>
          cases b with
          | true => rfl
          | false => exact cmpSymsP_eq g hwf buf rest hrest p

end CSD.RPDAC
