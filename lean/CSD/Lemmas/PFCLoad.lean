import CSD.Lemmas.LogSeqIO
import CSD.Lemmas.PFCBasic

/-! `StringDictionaryPFC::load ∘ save = id` on bytes. -/
namespace CSD.PFC
open CSD.LogSeq (readLE readLE_leBytes Filled ofList_spec)

/-- The object fits the image format: the widths `save` writes its fields with. -/
structure WFImg (d : T) : Prop where
  el : d.elements < 2 ^ 64
  ml : d.maxlength < 2 ^ 32
  bk : d.buckets < 2 ^ 32
  bs : d.bucketsize < 2 ^ 32
  tl : d.text.length < 2 ^ 64
  tpos : 1 ≤ d.text.length
  bll : d.bl.length < 2 ^ 64
  blv : ∀ v ∈ d.bl, v ≤ d.text.length

theorem bits_range (n : Nat) (h1 : 1 ≤ n) (h2 : n < 2 ^ 64) : 1 ≤ bits n ∧ bits n ≤ 64 ∧ n ≤ LogSeq.maxVal (bits n) := by
  unfold bits LogSeq.maxVal
  have hn : n ≠ 0 := by omega
  rw [if_neg hn]
  have h3 : n.log2 < 64 := (Nat.log2_lt hn).mpr h2
  have h4 : n < 2 ^ (n.log2 + 1) := Nat.lt_log2_self
  omega

theorem fieldsOf_filled (vs : List Nat) (w : Nat) (s : LogSeq.T) (f : Filled vs w s vs.length)
    (hv : ∀ v ∈ vs, v < 2 ^ 64) : ∀ k, k ≤ vs.length → fieldsOf s k = some (vs.take k)
  | 0, _ => by simp [fieldsOf]
  | k + 1, hk => by
    have hk' : k < vs.length := by omega
    simp only [fieldsOf]
    rw [fieldsOf_filled vs w s f hv k (by omega), f.got k hk' hk']
    simp only
    have hlt : vs[k] < 2 ^ 64 := hv _ (List.getElem_mem hk')
    have : (BitVec.ofNat 64 vs[k]).toNat = vs[k] := by
      rw [BitVec.toNat_ofNat]; exact Nat.mod_eq_of_lt hlt
    rw [this, List.take_add_one, List.getElem?_eq_getElem hk']
    rfl

/-- **The image is self-delimiting and reloads to the same object**: `load` consumes exactly the
bytes `save` wrote — whatever follows them in the stream is left untouched — and returns the object
that was saved. -/
theorem load_save (d : T) (wf : WFImg d) :
    ∃ img, save d = some img ∧ ∀ rest, load (img ++ rest) = some (d, rest) := by
  obtain ⟨hw1, hw, hmax⟩ := bits_range d.text.length wf.tpos wf.tl
  have hvals : ∀ v ∈ d.bl, v ≤ LogSeq.maxVal (bits d.text.length) := fun v hv => Nat.le_trans (wf.blv v hv) hmax
  obtain ⟨ls, hls, f⟩ := ofList_spec d.bl (bits d.text.length) hw1 hw hvals
  refine ⟨_, by unfold save; rw [hls], ?_⟩
  intro rest
  unfold load u32le u64le
  simp only [List.append_assoc]
  rw [readLE_leBytes 4 211 (by decide)]
  simp only [ne_eq, not_true_eq_false, ↓reduceIte]
  rw [readLE_leBytes 8 d.elements (by have := wf.el; omega)]
  simp only
  rw [readLE_leBytes 4 d.maxlength (by have := wf.ml; omega)]
  simp only
  rw [readLE_leBytes 4 d.buckets (by have := wf.bk; omega)]
  simp only
  rw [readLE_leBytes 4 d.bucketsize (by have := wf.bs; omega)]
  simp only
  rw [readLE_leBytes 8 d.text.length (by have := wf.tl; omega)]
  simp only
  rw [if_neg (by simp)]
  have hdrop : (d.text ++ (ls.save ++ rest)).drop d.text.length = ls.save ++ rest := by simp
  have htake : (d.text ++ (ls.save ++ rest)).take d.text.length = d.text := by simp
  rw [hdrop, htake]
  rw [LogSeq.load_save ls (by rw [f.nb]; omega) (by rw [f.ne]; exact wf.bll) (by rw [f.nb, f.ne]; exact f.len) rest]
  simp only
  have hfo := fieldsOf_filled d.bl _ ls f (fun v hv => Nat.lt_of_le_of_lt (wf.blv v hv) wf.tl) d.bl.length (Nat.le_refl _)
  rw [f.ne, hfo, List.take_length]

/-- Saving what was loaded reproduces the image byte for byte. -/
theorem resave (d : T) (wf : WFImg d) (img : List UInt8) (h : save d = some img) (rest : List UInt8) :
    ∃ d', load (img ++ rest) = some (d', rest) ∧ save d' = some img := by
  obtain ⟨img', himg, hl⟩ := load_save d wf
  rw [h] at himg
  cases himg
  exact ⟨d, hl rest, h⟩

end CSD.PFC

namespace CSD.PFC
open CSD

theorem offsetsFrom_le : ∀ (encs : List (List UInt8)) (off : Nat), ∀ v ∈ offsetsFrom off encs, v ≤ off + encs.flatten.length
  | [], _, v, h => by simp [offsetsFrom] at h
  | e :: rest, off, v, h => by
    simp only [offsetsFrom, List.mem_cons] at h
    rcases h with h | h
    · subst h; omega
    · have := offsetsFrom_le rest (off + e.length) v h
      simp only [List.flatten_cons, List.length_append]; omega

/-- A dictionary built from a non-empty input fits the image format as soon as its sizes fit the
32/64-bit fields of the format (what the C++ types assume). -/
theorem build_wf (b : Nat) (S : List Str) (hne : S ≠ []) (hb : b < 2 ^ 32) (hn : S.length < 2 ^ 32)
    (hml : (build b S).maxlength < 2 ^ 32) (htl : (build b S).text.length < 2 ^ 64) : WFImg (build b S) := by
  have hb2 : (if b < 2 then 2 else b) ≠ 0 := by split <;> omega
  have hbk : (build b S).buckets ≤ S.length := by
    simp only [build, List.length_map]
    rw [chunks_length _ hb2]
    apply Nat.div_le_of_le_mul
    have h0 : 0 < S.length := List.length_pos_iff.mpr hne
    generalize (if b < 2 then 2 else b) = c at hb2 ⊢
    cases c with
    | zero => exact absurd rfl hb2
    | succ c =>
      rw [Nat.succ_mul]
      have : c * S.length ≥ c := Nat.le_mul_of_pos_right c h0
      omega
  refine ⟨by simp only [build]; omega, hml, by omega, by simp only [build]; split <;> omega, htl, ?_, ?_, ?_⟩
  · -- the text is not empty
    cases S with
    | nil => exact absurd rfl hne
    | cons s rest =>
      simp only [build]
      rw [chunks_cons _ _ hb2 (by simp)]
      have hpos : 0 < (if b < 2 then 2 else b) := Nat.pos_of_ne_zero hb2
      obtain ⟨c, hc⟩ : ∃ c, (if b < 2 then 2 else b) = c + 1 := ⟨_, (Nat.succ_pred_eq_of_pos hpos).symm⟩
      rw [hc]
      simp [encBucket]
      omega
  · have : (build b S).bl.length = (build b S).buckets + 2 := by simp [build, offsetsFrom_length]
    omega
  · intro v hv
    simp only [build, List.mem_cons, List.mem_append, List.mem_singleton] at hv
    show v ≤ ((chunks (if b < 2 then 2 else b) S).map encBucket).flatten.length
    rcases hv with (h | h) | h
    · omega
    · have := offsetsFrom_le _ 0 v h; omega
    · rcases h with h | h
      · exact Nat.le_of_eq h
      · cases h

end CSD.PFC
