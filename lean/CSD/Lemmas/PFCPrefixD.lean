import CSD.Lemmas.PFCPrefixC

/-! Assembly: `StringDictionaryPFC::locatePrefix` on a built dictionary is exact. -/
namespace CSD.PFC
open CSD CSD.RPDAC

/-- The answer of a prefix search `(lo, hi)` describes the members that start with `q`. -/
def PrefixChar (S : List Str) (q : Str) (lo hi : Nat) : Prop :=
  (lo = 0 ∧ hi = 0 ∧ ∀ i (h : i < S.length), isPrefix q S[i] = false) ∨
  (1 ≤ lo ∧ lo ≤ hi ∧ hi ≤ S.length ∧ ∀ i (h : i < S.length), (isPrefix q S[i] = true ↔ lo ≤ i + 1 ∧ i + 1 ≤ hi))

section
variable (b0 : Nat) (S : List Str) (q : Str)

/-- Everything the scans need to know about bucket `k` of a built dictionary. -/
theorem bucket_facts (hS : ∀ s ∈ S, nulFree s) (hsort : SortedLt S) (k : Nat) (h1 : 1 ≤ k)
    (h2 : k ≤ (build b0 S).buckets) :
    ∃ L rest, bucketOf (clamp b0) S k = hd b0 S k :: L ∧
      hdrOf (build b0 S) k = some (hd b0 S k, encTail (hd b0 S k) L ++ rest) ∧
      SortedLt (hd b0 S k :: L) ∧ nulFree (hd b0 S k) ∧ (∀ s ∈ L, nulFree s) ∧
      scanneableOf (build b0 S) k = 1 + L.length := by
  obtain ⟨L, rest, hL, hh⟩ := hdrOf_build b0 S hS k h1 h2
  have hb := clamp_ge_two b0
  have hk := bucket_idx_lt b0 S k h1 h2
  have hsorted : SortedLt (hd b0 S k :: L) := by rw [← hL]; exact sortedLt_chunk hsort _ _
  have hmem : ∀ s ∈ hd b0 S k :: L, s ∈ S := by
    intro s hs
    rw [← hL] at hs
    exact List.mem_of_mem_drop (List.mem_of_mem_take hs)
  refine ⟨L, rest, hL, hh, hsorted, hS _ (hmem _ (by simp)),
    fun s hs => hS _ (hmem _ (by simp [hs])), ?_⟩
  have hlen : (hd b0 S k :: L).length = min (clamp b0) (S.length - (k - 1) * clamp b0) := by
    rw [← hL]; simp
  have hsc := scanneable_eq (clamp b0) S.length (k - 1) hb hk
  unfold scanneableOf
  rw [build_elements, build_bucketsize, build_buckets]
  have e : k - 1 + 1 = k := by omega
  rw [e] at hsc
  rw [hsc]
  simp at hlen
  omega


/-- Position of element `j` of bucket `k` in `S`. -/
theorem bucket_elem (k j : Nat) (L : List Str) (hB : bucketOf (clamp b0) S k = hd b0 S k :: L)
    (hj : j < (hd b0 S k :: L).length) :
    ∃ (h : (k - 1) * clamp b0 + j < S.length), (hd b0 S k :: L)[j] = S[(k - 1) * clamp b0 + j] := by
  have hj' : j < (bucketOf (clamp b0) S k).length := by rw [hB]; exact hj
  obtain ⟨h, he⟩ := bucketOf_getElem (clamp b0) S k j hj'
  refine ⟨h, ?_⟩
  rw [← he]
  simp [hB]

/-- The single-bucket path of `locatePrefix` on bucket `k`, when no string outside the bucket matches. -/
theorem single_bucket (hS : ∀ s ∈ S, nulFree s) (hsort : SortedLt S) (hq : nulFree q) (k : Nat) (h1 : 1 ≤ k)
    (h2 : k ≤ (build b0 S).buckets)
    (hbefore : ∀ i (h : i < S.length), i < (k - 1) * clamp b0 → isPrefix q S[i] = false)
    (hafter : ∀ i (h : i < S.length), k * clamp b0 ≤ i → isPrefix q S[i] = false) :
    ∃ ptr, hdrOf (build b0 S) k = some (hd b0 S k, ptr) ∧
    ∃ leftID ptr' dec, searchPrefixLoop q (scanneableOf (build b0 S) k + 1) 1 (scanneableOf (build b0 S) k) ptr
        (hd b0 S k) 0 = some (leftID, ptr', dec) ∧
      (leftID = 0 → ∀ i (h : i < S.length), isPrefix q S[i] = false) ∧
      (leftID ≠ 0 → ∃ cnt, searchDistinctLoop q.length (scanneableOf (build b0 S) k + 1) 1
          (scanneableOf (build b0 S) k - leftID) ptr' dec = some cnt ∧
        PrefixChar S q (leftID + (k - 1) * clamp b0) (leftID + cnt - 1 + (k - 1) * clamp b0)) := by
  obtain ⟨L, rest, hB, hh, hsorted, hnf, hnfL, hsc⟩ := bucket_facts b0 S hS hsort k h1 h2
  have hb := clamp_ge_two b0
  have hlenB : (hd b0 S k :: L).length ≤ clamp b0 := by
    have := bucketOf_length (clamp b0) S k
    rw [hB] at this; omega
  refine ⟨_, hh, ?_⟩
  rw [hsc]
  have hsp := searchPrefixLoop_spec q hq L (hd b0 S k) 1 (1 + L.length + 1) (1 + L.length) 0 rest
    (chain_of_sorted _ _ hsorted) hnf hnfL rfl (by omega) (by omega)
  -- every index of S inside the bucket
  have hin : ∀ i (h : i < S.length), (k - 1) * clamp b0 ≤ i → i < k * clamp b0 →
      ∃ (hj : i - (k - 1) * clamp b0 < (hd b0 S k :: L).length), (hd b0 S k :: L)[i - (k - 1) * clamp b0] = S[i] := by
    intro i h ha hb'
    have hlen := bucketOf_length (clamp b0) S k
    rw [hB] at hlen
    have hkk : k * clamp b0 = (k - 1) * clamp b0 + clamp b0 := by
      have : k = (k - 1) + 1 := by omega
      rw [this, Nat.add_mul]; simp
    have hj : i - (k - 1) * clamp b0 < (hd b0 S k :: L).length := by rw [hlen]; omega
    obtain ⟨h', he⟩ := bucket_elem b0 S k _ L hB hj
    refine ⟨hj, ?_⟩
    rw [he]; congr 1; omega
  cases hfm : firstMatch q (hd b0 S k :: L) with
  | none =>
    rw [hfm] at hsp
    simp only at hsp
    cases hres : searchPrefixLoop q (1 + L.length + 1) 1 (1 + L.length) (encTail (hd b0 S k) L ++ rest) (hd b0 S k) 0 with
    | none => rw [hres] at hsp; simp at hsp
    | some r =>
      obtain ⟨lid, p', d'⟩ := r
      rw [hres] at hsp
      simp only [Option.map_some, Option.some.injEq] at hsp
      subst hsp
      refine ⟨0, p', d', rfl, ?_, fun h => absurd rfl h⟩
      intro _ i h
      rcases Nat.lt_or_ge i ((k - 1) * clamp b0) with hlt | hge
      · exact hbefore i h hlt
      · rcases Nat.lt_or_ge i (k * clamp b0) with hlt2 | hge2
        · obtain ⟨hj, he⟩ := hin i h hge hlt2
          rw [← he]
          exact firstMatch_none hfm _ (List.getElem_mem hj)
        · exact hafter i h hge2
  | some j =>
    rw [hfm] at hsp
    obtain ⟨m, L', hdrop, hres⟩ := hsp
    obtain ⟨hjlt, hmj, hmin⟩ := firstMatch_some hfm
    obtain ⟨_, hmeq, hL'⟩ := drop_eq_cons _ _ _ _ hdrop
    refine ⟨1 + j, _, m, hres, fun h => absurd h (by omega), fun _ => ?_⟩
    -- the run of followers
    have hsortedm : SortedLt (m :: L') := by
      rw [← hdrop]; exact List.Pairwise.sublist (List.drop_sublist _ _) hsorted
    have hmem : ∀ s ∈ m :: L', s ∈ hd b0 S k :: L := by
      intro s hs; rw [← hdrop] at hs; exact List.mem_of_mem_drop hs
    have hnfm : nulFree m := by
      have := hmem m (by simp)
      rcases List.mem_cons.mp this with e | e
      · rw [e]; exact hnf
      · exact hnfL _ e
    have hnfL' : ∀ s ∈ L', nulFree s := by
      intro s hs
      have := hmem s (by simp [hs])
      rcases List.mem_cons.mp this with e | e
      · rw [e]; exact hnf
      · exact hnfL _ e
    have hpm : isPrefix q m = true := by rw [← hmeq]; exact hmj
    have hlenL' : L'.length = L.length - j := by
      rw [hL']; simp
    have hsd := searchDistinctLoop_spec q L' m 1 (1 + L.length + 1) (1 + L.length - (1 + j)) rest
      (chain_of_sorted _ _ hsortedm) hnfm hnfL' hpm (by rw [hlenL']; simp at hjlt; omega) (by rw [hlenL']; omega)
    refine ⟨_, hsd, ?_⟩
    -- the characterisation
    obtain ⟨htw1, htw2, htw3⟩ := takeWhile_spec (isPrefix q) L'
    have hget : ∀ t, L'[t]? = (hd b0 S k :: L)[j + 1 + t]? := by
      intro t; rw [hL', List.getElem?_drop]
    have hi0 : (k - 1) * clamp b0 + j < S.length := (bucket_elem b0 S k j L hB hjlt).1
    have hjtw : j + (L'.takeWhile (isPrefix q)).length < (hd b0 S k :: L).length := by
      simp at hjlt ⊢; rw [hlenL'] at htw1; omega
    have hi1 : (k - 1) * clamp b0 + (j + (L'.takeWhile (isPrefix q)).length) < S.length :=
      (bucket_elem b0 S k _ L hB hjtw).1
    right
    refine ⟨by omega, by omega, by omega, ?_⟩
    have hchar := range_char hsort q ((k - 1) * clamp b0 + j) ((k - 1) * clamp b0 + (j + (L'.takeWhile (isPrefix q)).length))
      (by omega) hi1 ?_ ?_ ?_ ?_
    · intro i h
      rw [hchar i h]
      constructor <;> intro hh <;> omega
    · -- i0 matches
      obtain ⟨_, he⟩ := bucket_elem b0 S k j L hB hjlt
      rw [← he]; exact hmj
    · -- i1 matches
      obtain ⟨_, he⟩ := bucket_elem b0 S k _ L hB hjtw
      rw [← he]
      by_cases htw0 : (L'.takeWhile (isPrefix q)).length = 0
      · simp only [htw0, Nat.add_zero]; exact hmj
      · obtain ⟨s, hs1, hs2⟩ := htw2 ((L'.takeWhile (isPrefix q)).length - 1) (by omega)
        have : (hd b0 S k :: L)[j + (L'.takeWhile (isPrefix q)).length]? = some s := by
          rw [hget] at hs1
          rw [← hs1]; congr 1; omega
        rw [List.getElem?_eq_getElem hjtw] at this
        rw [Option.some.inj this]; exact hs2
    · -- the string before i0 does not match
      intro hpos
      by_cases hj0 : j = 0
      · subst hj0
        exact hbefore _ (by omega) (by omega)
      · have := hmin (j - 1) (by omega)
        obtain ⟨_, he⟩ := bucket_elem b0 S k (j - 1) L hB (by omega)
        rw [he] at this
        have e : (k - 1) * clamp b0 + j - 1 = (k - 1) * clamp b0 + (j - 1) := by omega
        simp only [e]; exact this
    · -- the string after i1 does not match
      intro hnext
      by_cases hinb : j + (L'.takeWhile (isPrefix q)).length + 1 < (hd b0 S k :: L).length
      · obtain ⟨s, hs1, hs2⟩ := htw3 (by rw [hlenL']; simp at hinb; omega)
        obtain ⟨_, he⟩ := bucket_elem b0 S k _ L hB hinb
        have : (hd b0 S k :: L)[j + (L'.takeWhile (isPrefix q)).length + 1]? = some s := by
          rw [hget] at hs1
          rw [← hs1]; congr 1; omega
        rw [List.getElem?_eq_getElem hinb] at this
        have e : (k - 1) * clamp b0 + (j + (L'.takeWhile (isPrefix q)).length) + 1 =
            (k - 1) * clamp b0 + (j + (L'.takeWhile (isPrefix q)).length + 1) := by omega
        simp only [e]
        rw [← he, Option.some.inj this]; exact hs2
      · -- the run reaches the end of the bucket: the next string is in a later bucket
        apply hafter _ hnext
        have hlen := bucketOf_length (clamp b0) S k
        rw [hB] at hlen
        have hkk : k * clamp b0 = (k - 1) * clamp b0 + clamp b0 := by
          have : k = (k - 1) + 1 := by omega
          rw [this, Nat.add_mul]; simp
        omega


theorem fH_get (k : Nat) (h1 : 1 ≤ k) (h2 : k ≤ (build b0 S).buckets) :
    fH b0 S q k = pcmp (S[(k - 1) * clamp b0]'(bucket_idx_lt b0 S k h1 h2)) q := by
  unfold fH; rw [hd_get b0 S k h1 h2]; rfl

/-- Strings up to a header that is below the pattern's range do not match. -/
theorem below_bucket (hS : ∀ s ∈ S, nulFree s) (hsort : SortedLt S) (hq : nulFree q) (k : Nat) (h1 : 1 ≤ k)
    (h2 : k ≤ (build b0 S).buckets) (hneg : fH b0 S q k < 0) :
    ∀ i (h : i < S.length), i ≤ (k - 1) * clamp b0 → isPrefix q S[i] = false := by
  intro i h hle
  rw [fH_get b0 S q k h1 h2] at hneg
  have hi : pcmp S[i] q < 0 := by
    rcases Nat.lt_or_ge i ((k - 1) * clamp b0) with hlt | hge
    · have := hsort.getElem_lt hlt (bucket_idx_lt b0 S k h1 h2)
      exact (pcmp_mono (hS _ (List.getElem_mem _)) (hS _ (List.getElem_mem _)) this).1 hneg
    · have : i = (k - 1) * clamp b0 := by omega
      subst this; exact hneg
  cases hp : isPrefix q S[i] with
  | false => rfl
  | true => have := (pcmp_zero_iff (hS _ (List.getElem_mem h)) hq).mpr hp; omega

/-- Strings from a header that is above the pattern's range on do not match. -/
theorem above_bucket (hS : ∀ s ∈ S, nulFree s) (hsort : SortedLt S) (hq : nulFree q) (k : Nat) (h1 : 1 ≤ k)
    (h2 : k ≤ (build b0 S).buckets) (hpos : fH b0 S q k > 0) :
    ∀ i (h : i < S.length), (k - 1) * clamp b0 ≤ i → isPrefix q S[i] = false := by
  intro i h hle
  rw [fH_get b0 S q k h1 h2] at hpos
  have hi : pcmp S[i] q > 0 := by
    rcases Nat.lt_or_ge ((k - 1) * clamp b0) i with hlt | hge
    · have := hsort.getElem_lt hlt h
      exact (pcmp_mono (hS _ (List.getElem_mem _)) (hS _ (List.getElem_mem _)) this).2 hpos
    · have : i = (k - 1) * clamp b0 := by omega
      subst this; exact hpos
  cases hp : isPrefix q S[i] with
  | false => rfl
  | true => have := (pcmp_zero_iff (hS _ (List.getElem_mem h)) hq).mpr hp; omega

theorem header_match (hS : ∀ s ∈ S, nulFree s) (hq : nulFree q) (k : Nat) (h1 : 1 ≤ k)
    (h2 : k ≤ (build b0 S).buckets) (hz : fH b0 S q k = 0) :
    isPrefix q (S[(k - 1) * clamp b0]'(bucket_idx_lt b0 S k h1 h2)) = true := by
  rw [fH_get b0 S q k h1 h2] at hz
  exact (pcmp_zero_iff (hS _ (List.getElem_mem _)) hq).mp hz

/-- The multi-bucket path of `locatePrefix`: left bucket `lb`, right bucket `rb`, the headers of the
buckets `lb+1 … rb` match, nothing before bucket `lb` and nothing after bucket `rb` does. -/
theorem multi_bucket (hS : ∀ s ∈ S, nulFree s) (hsort : SortedLt S) (hq : nulFree q) (lb rb : Nat)
    (h1 : 1 ≤ lb) (hlr : lb < rb) (h2 : rb ≤ (build b0 S).buckets)
    (hhdr : ∀ k, lb < k → k ≤ rb → fH b0 S q k = 0)
    (hbefore : ∀ i (h : i < S.length), i < (lb - 1) * clamp b0 → isPrefix q S[i] = false)
    (hafter : ∀ i (h : i < S.length), rb * clamp b0 ≤ i → isPrefix q S[i] = false) :
    ∃ ptr, hdrOf (build b0 S) lb = some (hd b0 S lb, ptr) ∧
    ∃ leftID ptr' dec, searchPrefixLoop q (scanneableOf (build b0 S) lb + 1) 1 (scanneableOf (build b0 S) lb) ptr
        (hd b0 S lb) 0 = some (leftID, ptr', dec) ∧
    ∃ ptr2, hdrOf (build b0 S) rb = some (hd b0 S rb, ptr2) ∧
    ∃ cnt, searchDistinctLoop q.length (scanneableOf (build b0 S) rb + 1) 1 (scanneableOf (build b0 S) rb - 1) ptr2
        (hd b0 S rb) = some cnt ∧
      PrefixChar S q (if leftID = 0 then lb * clamp b0 + 1 else leftID + (lb - 1) * clamp b0)
        (cnt + (rb - 1) * clamp b0) := by
  have hb := clamp_ge_two b0
  obtain ⟨L, rest, hB, hh, hsorted, hnf, hnfL, hsc⟩ := bucket_facts b0 S hS hsort lb h1 (by omega)
  obtain ⟨L2, rest2, hB2, hh2, hsorted2, hnf2, hnfL2, hsc2⟩ := bucket_facts b0 S hS hsort rb (by omega) h2
  refine ⟨_, hh, ?_⟩
  rw [hsc]
  have hsp := searchPrefixLoop_spec q hq L (hd b0 S lb) 1 (1 + L.length + 1) (1 + L.length) 0 rest
    (chain_of_sorted _ _ hsorted) hnf hnfL rfl (by omega) (by omega)
  -- bucket lb is full
  have hrbidx := bucket_idx_lt b0 S rb (by omega) h2
  have hmul : lb * clamp b0 ≤ (rb - 1) * clamp b0 := Nat.mul_le_mul_right _ (by omega)
  have hkk : lb * clamp b0 = (lb - 1) * clamp b0 + clamp b0 := by
    have : lb = (lb - 1) + 1 := by omega
    rw [this, Nat.add_mul]; simp
  have hfull : (hd b0 S lb :: L).length = clamp b0 := by
    have := bucketOf_length (clamp b0) S lb
    rw [hB] at this; omega
  -- the header of rb matches
  have hmrb : isPrefix q (hd b0 S rb) = true := by
    have := header_match b0 S q hS hq rb (by omega) h2 (hhdr rb hlr (Nat.le_refl _))
    rw [hd_get b0 S rb (by omega) h2]; exact this
  have hsd := searchDistinctLoop_spec q L2 (hd b0 S rb) 1 (1 + L2.length + 1) (1 + L2.length - 1) rest2
    (chain_of_sorted _ _ hsorted2) hnf2 hnfL2 hmrb (by omega) (by omega)
  obtain ⟨htw1, htw2, htw3⟩ := takeWhile_spec (isPrefix q) L2
  have hlen2 := bucketOf_length (clamp b0) S rb
  rw [hB2] at hlen2
  have htwlt : (L2.takeWhile (isPrefix q)).length < (hd b0 S rb :: L2).length := by simp; omega
  obtain ⟨hi1, he1⟩ := bucket_elem b0 S rb _ L2 hB2 htwlt
  -- i1 matches
  have hm1 : isPrefix q S[(rb - 1) * clamp b0 + (L2.takeWhile (isPrefix q)).length] = true := by
    rw [← he1]
    by_cases h0 : (L2.takeWhile (isPrefix q)).length = 0
    · simp only [h0, List.getElem_cons_zero]; exact hmrb
    · obtain ⟨s, hs1, hs2⟩ := htw2 ((L2.takeWhile (isPrefix q)).length - 1) (by omega)
      have : (hd b0 S rb :: L2)[(L2.takeWhile (isPrefix q)).length]? = some s := by
        have e : (L2.takeWhile (isPrefix q)).length = ((L2.takeWhile (isPrefix q)).length - 1) + 1 := by omega
        rw [e, List.getElem?_cons_succ]; exact hs1
      rw [List.getElem?_eq_getElem htwlt] at this
      rw [Option.some.inj this]; exact hs2
  -- the string after i1 does not match
  have hb1 : ∀ (h : (rb - 1) * clamp b0 + (L2.takeWhile (isPrefix q)).length + 1 < S.length),
      isPrefix q S[(rb - 1) * clamp b0 + (L2.takeWhile (isPrefix q)).length + 1] = false := by
    intro hnext
    by_cases hinb : (L2.takeWhile (isPrefix q)).length < L2.length
    · obtain ⟨s, hs1, hs2⟩ := htw3 hinb
      have hlt' : (L2.takeWhile (isPrefix q)).length + 1 < (hd b0 S rb :: L2).length := by simp; omega
      obtain ⟨_, he⟩ := bucket_elem b0 S rb _ L2 hB2 hlt'
      have : (hd b0 S rb :: L2)[(L2.takeWhile (isPrefix q)).length + 1]? = some s := by
        rw [List.getElem?_cons_succ]; exact hs1
      rw [List.getElem?_eq_getElem hlt'] at this
      have e : (rb - 1) * clamp b0 + (L2.takeWhile (isPrefix q)).length + 1 =
          (rb - 1) * clamp b0 + ((L2.takeWhile (isPrefix q)).length + 1) := by omega
      simp only [e]
      rw [← he, Option.some.inj this]; exact hs2
    · apply hafter _ hnext
      have hkk2 : rb * clamp b0 = (rb - 1) * clamp b0 + clamp b0 := by
        have : rb = (rb - 1) + 1 := by omega
        rw [this, Nat.add_mul]; simp
      simp at hlen2
      omega
  -- the two outcomes of the left scan
  cases hfm : firstMatch q (hd b0 S lb :: L) with
  | none =>
    rw [hfm] at hsp
    simp only at hsp
    cases hres : searchPrefixLoop q (1 + L.length + 1) 1 (1 + L.length) (encTail (hd b0 S lb) L ++ rest) (hd b0 S lb) 0 with
    | none => rw [hres] at hsp; simp at hsp
    | some r =>
      obtain ⟨lid, p', d'⟩ := r
      rw [hres] at hsp
      simp only [Option.map_some, Option.some.injEq] at hsp
      subst hsp
      refine ⟨0, p', d', rfl, _, hh2, _, by rw [hsc2]; exact hsd, ?_⟩
      simp only [↓reduceIte]
      right
      -- the first match is the header of bucket lb + 1
      have hm0 : isPrefix q (S[lb * clamp b0]'(by omega)) = true := by
        have := header_match b0 S q hS hq (lb + 1) (by omega) (by omega) (hhdr (lb + 1) (by omega) (by omega))
        simpa using this
      have hb0 : ∀ (h : 0 < lb * clamp b0), isPrefix q (S[lb * clamp b0 - 1]'(by omega)) = false := by
        intro _
        have hj : clamp b0 - 1 < (hd b0 S lb :: L).length := by omega
        obtain ⟨_, he⟩ := bucket_elem b0 S lb _ L hB hj
        have := firstMatch_none hfm _ (List.getElem_mem hj)
        rw [he] at this
        have e : lb * clamp b0 - 1 = (lb - 1) * clamp b0 + (clamp b0 - 1) := by omega
        simp only [e]; exact this
      have hchar := range_char hsort q (lb * clamp b0) ((rb - 1) * clamp b0 + (L2.takeWhile (isPrefix q)).length)
        (by omega) hi1 hm0 hm1 hb0 hb1
      refine ⟨by omega, by omega, by omega, ?_⟩
      intro i h
      rw [hchar i h]
      constructor <;> intro hh' <;> omega
  | some j =>
    rw [hfm] at hsp
    obtain ⟨m, L', hdrop, hres⟩ := hsp
    obtain ⟨hjlt, hmj, hmin⟩ := firstMatch_some hfm
    refine ⟨1 + j, _, m, hres, _, hh2, _, by rw [hsc2]; exact hsd, ?_⟩
    have hne0 : ¬ (1 + j = 0) := by omega
    simp only [hne0, ↓reduceIte]
    right
    obtain ⟨hi0, he0⟩ := bucket_elem b0 S lb j L hB hjlt
    have hm0 : isPrefix q S[(lb - 1) * clamp b0 + j] = true := by rw [← he0]; exact hmj
    have hb0 : ∀ (h : 0 < (lb - 1) * clamp b0 + j), isPrefix q (S[(lb - 1) * clamp b0 + j - 1]'(by omega)) = false := by
      intro _
      by_cases hj0 : j = 0
      · subst hj0
        exact hbefore _ (by omega) (by omega)
      · have := hmin (j - 1) (by omega)
        obtain ⟨_, he⟩ := bucket_elem b0 S lb (j - 1) L hB (by omega)
        rw [he] at this
        have e : (lb - 1) * clamp b0 + j - 1 = (lb - 1) * clamp b0 + (j - 1) := by omega
        simp only [e]; exact this
    have hchar := range_char hsort q ((lb - 1) * clamp b0 + j) ((rb - 1) * clamp b0 + (L2.takeWhile (isPrefix q)).length)
      (by omega) hi1 hm0 hm1 hb0 hb1
    refine ⟨by omega, by omega, by omega, ?_⟩
    intro i h
    rw [hchar i h]
    constructor <;> intro hh' <;> omega


theorem buckets_cover : S.length ≤ (build b0 S).buckets * clamp b0 := by
  have hb := clamp_ge_two b0
  rcases Nat.lt_or_ge ((build b0 S).buckets * clamp b0) S.length with hlt | hge
  · have := (lt_buckets_iff (clamp b0) S.length (build b0 S).buckets (by omega)).mpr hlt
    rw [← build_buckets] at this
    omega
  · exact hge

/-- No string lies after the last bucket; after bucket `k < buckets` the next header decides. -/
theorem after_bucket (hS : ∀ s ∈ S, nulFree s) (hsort : SortedLt S) (hq : nulFree q) (k : Nat) (h1 : 1 ≤ k)
    (h2 : k ≤ (build b0 S).buckets)
    (hnext : ∀ k', k < k' → k' ≤ (build b0 S).buckets → fH b0 S q k' > 0) :
    ∀ i (h : i < S.length), k * clamp b0 ≤ i → isPrefix q S[i] = false := by
  intro i h hle
  by_cases hk : k < (build b0 S).buckets
  · have := above_bucket b0 S q hS hsort hq (k + 1) (by omega) (by omega) (hnext (k + 1) (by omega) (by omega))
    exact this i h (by simpa using hle)
  · have hcov := buckets_cover b0 S
    have : k = (build b0 S).buckets := by omega
    subst this; omega

/-- **`StringDictionaryPFC::locatePrefix` is exact** on every built dictionary: it returns `(0,0)` when no
member starts with the pattern, and otherwise the ID range `[lo, hi]` such that member `i` (0-based)
starts with the pattern iff `lo ≤ i + 1 ≤ hi` — with every read inside the text. -/
theorem locatePrefix_build (hne : S ≠ []) (hS : ∀ s ∈ S, nulFree s) (hsort : SortedLt S) (hq : nulFree q) :
    ∃ lo hi, locatePrefix (build b0 S) q = some (lo, hi) ∧ PrefixChar S q lo hi := by
  have hb := clamp_ge_two b0
  obtain ⟨lb, rb, hbb, hcase⟩ := boundaryBuckets_spec b0 S q hne hS hsort
  have hbs : (build b0 S).bucketsize = clamp b0 := rfl
  unfold locatePrefix
  rw [hbb]
  simp only
  rcases hcase with ⟨hlr, hrn, hnz, hlow, hhigh⟩ | ⟨F, Lz, hF1, hFL, hLn, hlbF, hrbL, hz, hlow, hhigh⟩
  · -- no header matches
    subst hlr
    -- (both buckets are `lb` from here on)
    by_cases hR0 : lb = 0
    · subst hR0
      refine ⟨0, 0, by simp, Or.inl ⟨rfl, rfl, ?_⟩⟩
      have hnb : 1 ≤ (build b0 S).buckets := by
        have := buckets_cover b0 S
        have : 0 < S.length := List.length_pos_iff.mpr hne
        rcases Nat.eq_zero_or_pos (build b0 S).buckets with e | e
        · have h0 : (build b0 S).buckets * clamp b0 = 0 := by rw [e]; simp
          omega
        · exact e
      intro i h
      exact above_bucket b0 S q hS hsort hq 1 (Nat.le_refl _) hnb (hhigh 1 (by omega) hnb) i h (by simp)
    · rw [if_neg hR0]
      have hbefore := fun i (h : i < S.length) (hlt : i < (lb - 1) * clamp b0) =>
        below_bucket b0 S q hS hsort hq lb (by omega) hrn (hlow lb (by omega) (Nat.le_refl _)) i h (by omega)
      have hafter := after_bucket b0 S q hS hsort hq lb (by omega) hrn hhigh
      obtain ⟨ptr, hh, leftID, ptr', dec, hsp, hzero, hnzero⟩ := single_bucket b0 S q hS hsort hq lb (by omega) hrn hbefore hafter
      rw [hh]
      simp only
      rw [hsp]
      simp only [↓reduceIte]
      by_cases hl0 : leftID = 0
      · rw [if_pos hl0]
        exact ⟨0, 0, rfl, Or.inl ⟨rfl, rfl, hzero hl0⟩⟩
      · rw [if_neg hl0]
        obtain ⟨cnt, hcnt, hchar⟩ := hnzero hl0
        rw [hcnt]
        exact ⟨_, _, rfl, by rw [hbs]; exact hchar⟩
  · -- the headers of the buckets F … Lz match
    have hlb1 : 1 ≤ lb := by rw [hlbF]; split <;> omega
    have hlb0 : lb ≠ 0 := by omega
    rw [if_neg hlb0]
    subst hrbL
    have hafter := after_bucket b0 S q hS hsort hq rb (by omega) hLn hhigh
    by_cases hsame : lb = rb
    · -- F = Lz = 1
      have hF : F = 1 := by
        by_cases h : F > 1
        · rw [if_pos h] at hlbF; omega
        · omega
      have hrb1 : rb = 1 := by
        rw [hF] at hlbF; simp at hlbF; omega
      have hbefore : ∀ i (h : i < S.length), i < (rb - 1) * clamp b0 → isPrefix q S[i] = false := by
        intro i h hlt; rw [hrb1] at hlt; simp at hlt
      obtain ⟨ptr, hh, leftID, ptr', dec, hsp, hzero, hnzero⟩ := single_bucket b0 S q hS hsort hq rb (by omega) hLn hbefore hafter
      rw [hsame, hh]
      simp only
      rw [hsp]
      simp only [↓reduceIte]
      by_cases hl0 : leftID = 0
      · rw [if_pos hl0]
        exact ⟨0, 0, rfl, Or.inl ⟨rfl, rfl, hzero hl0⟩⟩
      · rw [if_neg hl0]
        obtain ⟨cnt, hcnt, hchar⟩ := hnzero hl0
        rw [hcnt]
        exact ⟨_, _, rfl, by rw [hbs]; exact hchar⟩
    · have hlt : lb < rb := by
        rw [hlbF] at hsame ⊢
        split at hsame <;> split <;> omega
      have hhdr : ∀ k, lb < k → k ≤ rb → fH b0 S q k = 0 := by
        intro k h1 h2
        apply hz k _ h2
        rw [hlbF] at h1
        split at h1 <;> omega
      have hbefore : ∀ i (h : i < S.length), i < (lb - 1) * clamp b0 → isPrefix q S[i] = false := by
        intro i h hlt'
        by_cases hF : F > 1
        · rw [if_pos hF] at hlbF
          exact below_bucket b0 S q hS hsort hq lb hlb1 (by omega) (hlow lb hlb1 (by omega)) i h (by omega)
        · rw [if_neg hF] at hlbF
          rw [hlbF] at hlt'; simp at hlt'
      obtain ⟨ptr, hh, leftID, ptr', dec, hsp, ptr2, hh2, cnt, hcnt, hchar⟩ :=
        multi_bucket b0 S q hS hsort hq lb rb hlb1 hlt hLn hhdr hbefore hafter
      rw [hh]
      simp only
      rw [hsp]
      simp only
      rw [if_neg hsame, hh2]
      simp only
      rw [hcnt]
      exact ⟨_, _, rfl, by rw [hbs]; exact hchar⟩

end

end CSD.PFC
