/-
  RPFC, part 1: `decodeString` reads exactly one stored string.  Over any grammar and any symbol
  stream that stores `VByte(lcp) ++ suffix ++ [maxchar]` for the next string (`StoresTail`), it returns
  the shared length, rebuilds the string on the previous one and leaves the stream at the next string —
  including the case `lcp = 127`, whose VByte byte `0xFF` equals the terminator mark.
-/
import CSD.Model.RPFCStore
import CSD.Lemmas.VByte
import CSD.Lemmas.PFCBasic

namespace CSD.RPFC
open CSD.RePair CSD.PFC

/-- The stream stores the strings `rest` (each coded against its predecessor, starting from `prev`),
string by string, with symbols whose expansions are non-empty. -/
inductive StoresTail (g : Grammar) (maxchar : Nat) : Str → List Str → List Nat → Prop where
  | nil (prev : Str) : StoresTail g maxchar prev [] []
  | cons (prev cur : Str) (rest : List Str) (σ τ : List Nat) :
      g.expand σ = entry maxchar prev cur → (∀ r ∈ σ, g.expandSym r ≠ []) →
      StoresTail g maxchar cur rest τ → StoresTail g maxchar prev (cur :: rest) (σ ++ τ)

theorem toBytes_natsOf (s : Str) : toBytes (natsOf s) = s := by
  unfold toBytes natsOf
  rw [List.map_map]
  conv => rhs; rw [← List.map_id s]
  apply List.map_congr_left
  intro b _
  simp [Function.comp]

theorem expand_append (g : Grammar) (a b : List Nat) : g.expand (a ++ b) = g.expand a ++ g.expand b := by
  simp [Grammar.expand, List.flatMap_append]

theorem expand_cons (g : Grammar) (r : Nat) (a : List Nat) : g.expand (r :: a) = g.expandSym r ++ g.expand a := by
  simp [Grammar.expand]

/-! ### The two reading loops -/

/-- `readVB` stops inside `σ` as soon as two bytes are there. -/
theorem readVB_spec (g : Grammar) : ∀ (fuel : Nat) (σ τ vb : List Nat),
    (∀ r ∈ σ, g.expandSym r ≠ []) → 2 ≤ vb.length + (g.expand σ).length → 3 ≤ fuel + min vb.length 2 →
    ∃ σ1 σ2, σ = σ1 ++ σ2 ∧ readVB g fuel (σ ++ τ) vb = some (vb ++ g.expand σ1, σ2 ++ τ) ∧
      2 ≤ (vb ++ g.expand σ1).length
  | 0, σ, τ, vb, _, _, hf => by omega
  | fuel + 1, σ, τ, vb, hne, hlen, hf => by
    unfold readVB
    by_cases h2 : vb.length < 2
    · simp only [h2, ↓reduceIte]
      cases σ with
      | nil => simp [Grammar.expand] at hlen; omega
      | cons r σ' =>
        have hr : g.expandSym r ≠ [] := hne r (by simp)
        have hrl : 1 ≤ (g.expandSym r).length := by
          cases h : g.expandSym r with
          | nil => exact absurd h hr
          | cons _ _ => simp
        simp only [List.cons_append]
        obtain ⟨σ1, σ2, hs, hread, hl⟩ := readVB_spec g fuel σ' τ (vb ++ g.expandSym r)
          (fun x hx => hne x (List.mem_cons_of_mem _ hx))
          (by rw [expand_cons] at hlen; simp only [List.length_append] at hlen ⊢; omega)
          (by simp only [List.length_append]; omega)
        refine ⟨r :: σ1, σ2, by simp [hs], ?_, ?_⟩
        · rw [hread, expand_cons]; simp [List.append_assoc]
        · rw [expand_cons]; simpa [List.append_assoc] using hl
    · simp only [h2, ↓reduceIte]
      exact ⟨[], σ, rfl, by simp [Grammar.expand], by simp [Grammar.expand]; omega⟩

end CSD.RPFC
