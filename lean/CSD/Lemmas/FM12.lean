/-
  FM-index, part 12: one occurrence of `SSA::locate`.  From the row of a suffix that starts inside
  a member, the walk goes backwards through the member until it meets a sampled row (whose sample was
  converted to a string ID by `build_ssa`) or the separator in front of the member (whose rank is the
  ID); both give the ID of the member the occurrence lies in.
-/
import CSD.Lemmas.FM11

namespace CSD.FM
open CSD.PFC

/-- What `build_bwt` / `build_ssa` guarantee about the sampling structures. -/
structure BuiltS (T : List Sym) (L : List Row) (ix : Index) : Prop where
  step_pos : 0 < ix.samplesuff
  sampled : ix.sampled = L.map (fun r => r.pos T.length % ix.samplesuff == 0)
  samples : ix.suffSample =
    (L.filter fun r => r.pos T.length % ix.samplesuff == 0).map fun r => sepRank T (r.pos T.length)

theorem builtS_buildIndex (T : List Sym) (L : List Row) (step : Nat) (h : 0 < step) :
    BuiltS T L (buildIndex T L step) := by
  have : ¬ step = 0 := by omega
  exact ⟨h, by simp [buildIndex, this], by simp [buildIndex, this]⟩

/-! ### Indexing the compacted sample array -/

theorem filter_map_index {α β : Type} (p : α → Bool) (f : α → β) : ∀ (L : List α) (j : Nat) (hj : j < L.length),
    p L[j] = true →
    ((L.filter p).map f)[((L.map p).take (j + 1)).count true - 1]? = some (f L[j])
  | [], j, hj, _ => by simp at hj
  | a :: L, 0, _, hp => by
    simp only [List.getElem_cons_zero] at hp
    simp [List.filter_cons, hp]
  | a :: L, j + 1, hj, hp => by
    simp only [List.getElem_cons_succ] at hp ⊢
    have hj' : j < L.length := by simpa using hj
    have ih := filter_map_index p f L j hj' hp
    have hpos : 0 < ((L.map p).take (j + 1)).count true := by
      apply List.count_pos_iff.mpr
      rw [List.mem_take_iff_getElem]
      refine ⟨j, by simp; omega, ?_⟩
      simp [hp]
    simp only [List.map_cons, List.take_succ_cons, List.count_cons]
    by_cases ha : p a = true
    · simp only [ha, beq_self_eq_true, ↓reduceIte, List.filter_cons, List.map_cons]
      have : ((L.map p).take (j + 1)).count true + 1 - 1 = (((L.map p).take (j + 1)).count true - 1) + 1 := by omega
      rw [this, List.getElem?_cons_succ]
      exact ih
    · have ha' : p a = false := by cases h : p a <;> simp_all
      simp only [ha', List.filter_cons, Bool.false_eq_true, ↓reduceIte]
      simpa using ih

/-! ### The walk -/

theorem count_one_ge2 {l : List Sym} (h : Ge2 l) : l.count 1 = 0 := by
  rw [List.count_eq_zero]
  intro hm
  have := h 1 hm
  omega

theorem walk_spec {T : List Sym} {L : List Row} {ix : Index} (hSA : IsSA T L) (hB : Built T L ix)
    (hS : BuiltS T L ix) (σ R0 P0 : List Sym) (ID : Nat) (hT : T = P0 ++ 1 :: (σ ++ R0)) (hσ : Ge2 σ)
    (hP0 : P0.count 1 + 1 = ID) (hID : lo L (1 :: (σ ++ R0)) = occOf T 1 + ID) :
    ∀ (ur v : List Sym) (fuel : Nat), σ = ur.reverse ++ v → v ≠ [] → ur.length < fuel →
      walk ix fuel (lo L (v ++ R0)) = some ID
  | ur, v, 0, _, _, hf => by omega
  | ur, v, fuel + 1, hσv, hv, hf => by
    -- the row we are at, and the symbol in front of it
    obtain ⟨c, hc, hrow⟩ : ∃ c, (c = 1 ∧ ur = [] ∨ ∃ ur', ur = c :: ur') ∧ (some c, v ++ R0) ∈ L := by
      cases ur with
      | nil =>
        refine ⟨1, Or.inl ⟨rfl, rfl⟩, hSA.1.mem_iff.mpr ?_⟩
        rw [rows, hT, hσv]; simp only [List.reverse_nil, List.nil_append]
        exact mem_rows_of_split 1 (v ++ R0) P0 none
      | cons c ur' =>
        refine ⟨c, Or.inr ⟨ur', rfl⟩, hSA.1.mem_iff.mpr ?_⟩
        have : T = (P0 ++ 1 :: ur'.reverse) ++ c :: (v ++ R0) := by
          rw [hT, hσv]; simp [List.append_assoc]
        rw [rows, this]
        exact mem_rows_of_split c (v ++ R0) _ none
    have hur : Ge2 ur := fun x hx => hσ x (by rw [hσv]; simp [hx])
    have hv2 : Ge2 v := fun x hx => hσ x (by rw [hσv]; simp [hx])
    have hgetL := getElem_lo hSA hrow
    have hlt := lo_lt_length hSA hrow
    -- position of the row in the text
    have hpos : Row.pos T.length (some c, v ++ R0) = (P0 ++ 1 :: ur.reverse).length := by
      unfold Row.pos
      rw [hT, hσv]; simp [List.length_append]; omega
    unfold walk
    have hsamp : ix.sampled[lo L (v ++ R0)]? = some ((P0 ++ 1 :: ur.reverse).length % ix.samplesuff == 0) := by
      rw [hS.sampled, List.getElem?_map, hgetL]
      simp only [Option.map_some, hpos]
    rw [hsamp]
    by_cases hsm : ((P0 ++ 1 :: ur.reverse).length % ix.samplesuff == 0) = true
    · -- a sampled row: the stored sample is the number of separators up to this position
      simp only [hsm]
      have hL : L[lo L (v ++ R0)] = (some c, v ++ R0) := by
        have := List.getElem?_eq_some_iff.mp hgetL
        exact this.2
      have hidx := filter_map_index (fun r : Row => r.pos T.length % ix.samplesuff == 0)
        (fun r => sepRank T (r.pos T.length)) L (lo L (v ++ R0)) hlt (by rw [hL, hpos]; exact hsm)
      rw [← hS.sampled, ← hS.samples, hL, hpos] at hidx
      have hcnt : 0 < (ix.sampled.take (lo L (v ++ R0) + 1)).count true := by
        apply List.count_pos_iff.mpr
        rw [List.mem_take_iff_getElem]
        refine ⟨lo L (v ++ R0), ?_, ?_⟩
        · rw [hS.sampled, List.length_map]; omega
        · have := List.getElem?_eq_some_iff.mp hsamp
          rw [this.2]; exact hsm
      have hne : ¬ (ix.sampled.take (lo L (v ++ R0) + 1)).count true = 0 := by omega
      simp only [hne, ↓reduceIte]
      rw [hidx]
      -- separators in T[0 .. pos]
      congr 1
      unfold sepRank
      obtain ⟨y, w, hvy⟩ : ∃ y w, v = y :: w := by
        cases v with
        | nil => exact absurd rfl hv
        | cons y w => exact ⟨y, w, rfl⟩
      have hy : 2 ≤ y := hv2 y (by rw [hvy]; simp)
      have : T.take ((P0 ++ 1 :: ur.reverse).length + 1) = P0 ++ 1 :: ur.reverse ++ [y] := by
        rw [hT, hσv, hvy]
        have e : P0 ++ 1 :: (ur.reverse ++ y :: w ++ R0) = (P0 ++ 1 :: ur.reverse ++ [y]) ++ (w ++ R0) := by
          simp [List.append_assoc]
        rw [e, List.take_left' (by simp [List.length_append]; omega)]
      rw [this]
      simp only [List.count_append, List.count_cons, List.count_nil, beq_self_eq_true, ↓reduceIte]
      have h1 : ur.reverse.count 1 = 0 := count_one_ge2 (ge2_reverse hur)
      have h2 : ¬ (y == 1) = true := by simp; omega
      simp only [h1, h2, Bool.false_eq_true, ↓reduceIte]
      omega
    · have hsm' : ((P0 ++ 1 :: ur.reverse).length % ix.samplesuff == 0) = false := by
        cases h : ((P0 ++ 1 :: ur.reverse).length % ix.samplesuff == 0) <;> simp_all
      simp only [hsm']
      have hc0 : c ≠ 0 := by
        rcases hc with ⟨rfl, _⟩ | ⟨ur', rfl⟩
        · decide
        · have := hur.head; omega
      obtain ⟨hacc, hlo, _⟩ := lf_step hSA hB hc0 hrow
      rw [hacc]
      simp only [Nat.add_one_ne_zero, ↓reduceIte, Nat.add_sub_cancel]
      rcases hc with ⟨rfl, rfl⟩ | ⟨ur', rfl⟩
      · -- the separator in front of the member: its rank is the ID
        simp only [↓reduceIte]
        simp only [List.reverse_nil, List.nil_append] at hσv
        rw [← hσv, hID] at hlo
        rw [← hσv]
        congr 1; omega
      · have hc1 : ¬ c = 1 := by have := hur.head; omega
        have hocc := (hB.occ c hc0 (mem_bwt_of_row hB hrow)).1
        simp only [hc1, ↓reduceIte, hocc]
        have hidx : occOf T c + cnt ix.bwt c (lo L (v ++ R0)) = lo L ((c :: v) ++ R0) := by
          rw [List.cons_append, hlo]
        rw [hidx]
        exact walk_spec hSA hB hS σ R0 P0 ID hT hσ hP0 hID ur' (c :: v) fuel
          (by rw [hσv]; simp [List.append_assoc]) (by simp) (by simp at hf; omega)

end CSD.FM
