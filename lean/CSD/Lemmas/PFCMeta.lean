import CSD.Lemmas.PFCLocate4

namespace CSD.PFC
open CSD

/-- What a valid input gives the proofs. -/
theorem validDict_facts {S : List Str} (h : validDict S = true) :
    S ≠ [] ∧ (∀ s ∈ S, nulFree s) ∧ SortedLt S ∧ (∀ s ∈ S, s ≠ []) := by
  simp only [validDict, Bool.and_eq_true, Bool.not_eq_true', List.isEmpty_eq_false_iff,
    List.all_eq_true] at h
  refine ⟨h.1.1, fun s hs => nulFree_of_validStr (h.1.2 s hs), sortedLt_of_sortedStrict S h.2, ?_⟩
  intro s hs
  have := h.1.2 s hs
  simp only [validStr, Bool.and_eq_true, Bool.not_eq_true', List.isEmpty_eq_false_iff] at this
  exact this.1

theorem step_eq_max (m l : Nat) : (if l ≥ m then l + 1 else m) = max m (l + 1) := by
  split <;> omega

theorem foldl_maxlength (S : List Str) (init : Nat) :
    S.foldl (fun m s => if s.length ≥ m then s.length + 1 else m) init
      = S.foldl (fun m s => max m (s.length + 1)) init := by
  induction S generalizing init with
  | nil => rfl
  | cons s S ih => simp only [List.foldl_cons, step_eq_max]

theorem foldl_max_ge (S : List Str) (init : Nat) :
    init ≤ S.foldl (fun m s => max m (s.length + 1)) init ∧
    ∀ s ∈ S, s.length + 1 ≤ S.foldl (fun m s => max m (s.length + 1)) init := by
  induction S generalizing init with
  | nil => simp
  | cons a S ih =>
    simp only [List.foldl_cons]
    have := ih (max init (a.length + 1))
    refine ⟨by omega, ?_⟩
    intro s hs
    rcases List.mem_cons.mp hs with e | e
    · subst e; omega
    · exact this.2 s e

theorem foldl_max_le (S : List Str) (init bound : Nat) (hi : init ≤ bound)
    (hb : ∀ s ∈ S, s.length + 1 ≤ bound) :
    S.foldl (fun m s => max m (s.length + 1)) init ≤ bound := by
  induction S generalizing init with
  | nil => simpa
  | cons a S ih =>
    simp only [List.foldl_cons]
    apply ih
    · have := hb a (by simp); omega
    · intro s hs; exact hb s (by simp [hs])

theorem maxLen_ge (S : List Str) (init : Nat) :
    init ≤ S.foldl (fun m s => max m s.length) init ∧
    ∀ s ∈ S, s.length ≤ S.foldl (fun m s => max m s.length) init := by
  induction S generalizing init with
  | nil => simp
  | cons a S ih =>
    simp only [List.foldl_cons]
    have := ih (max init a.length)
    refine ⟨by omega, ?_⟩
    intro s hs
    rcases List.mem_cons.mp hs with e | e
    · subst e; omega
    · exact this.2 s e

/-- `maxLength()` of a built dictionary bounds every member: `len + 1 ≤ maxlength`. -/
theorem maxlength_bounds (b0 : Nat) (S : List Str) :
    ∀ s ∈ S, s.length + 1 ≤ (build b0 S).maxlength := by
  intro s hs
  show s.length + 1 ≤ S.foldl (fun m s => if s.length ≥ m then s.length + 1 else m) 0
  rw [foldl_maxlength]
  exact (foldl_max_ge S 0).2 s hs

/-- …and is not more than the longest length plus one. -/
theorem maxlength_le (b0 : Nat) (S : List Str) :
    (build b0 S).maxlength ≤ Spec.maxLen S + 1 := by
  show S.foldl (fun m s => if s.length ≥ m then s.length + 1 else m) 0 ≤ _
  rw [foldl_maxlength]
  apply foldl_max_le
  · omega
  · intro s hs
    have := (maxLen_ge S 0).2 s hs
    unfold Spec.maxLen; omega

end CSD.PFC
