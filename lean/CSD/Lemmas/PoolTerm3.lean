import CSD.Lemmas.PoolTerm2
import CSD.Lemmas.PoolThms

/-! Every execution of the pool is finite: a bound on the number of program steps. -/
namespace CSD.Pool

/-- Steps of the program (producer and workers) / of the environment (spurious wake-ups) in a schedule. -/
def progSteps : List Tid → Nat
  | [] => 0
  | .spurious _ :: ts => progSteps ts
  | _ :: ts => progSteps ts + 1

def spurSteps : List Tid → Nat
  | [] => 0
  | .spurious _ :: ts => spurSteps ts + 1
  | _ :: ts => spurSteps ts

theorem step_n {s s' : State} {t : Tid} (h : step s t = some s') : s'.n = s.n := by
  cases t with
  | prod => exact stepProd_n h
  | worker i => exact stepWorker_n h
  | spurious i =>
    simp only [step] at h
    by_cases hc : i < s.n ∧ s.wpc i = .waiting
    · simp only [hc, and_self, ↓reduceIte, Option.some.injEq] at h; subst h; rfl
    · simp [hc] at h

/-- Along any schedule from a reachable state, each program step pays one unit of potential and each
spurious wake-up adds four. -/
theorem run_potential {n : Nat} {tasks : List Nat} : ∀ (sched : List Tid) (s0 s : State), Reachable n tasks s0 →
    runSched step s0 sched = some s → progSteps sched + Phi s ≤ Phi s0 + 4 * spurSteps sched
  | [], s0, s, _, h => by
    simp only [runSched, Option.some.injEq] at h; subst h; simp [progSteps, spurSteps]
  | t :: ts, s0, s, hr, h => by
    simp only [runSched] at h
    cases hs : step s0 t with
    | none => rw [hs] at h; cases h
    | some s1 =>
      rw [hs] at h
      have ih := run_potential ts s1 s (Reachable.step hr hs) h
      cases t with
      | prod =>
        have := phi_step_prod s0 s1 hs
        simp only [progSteps, spurSteps]; omega
      | worker i =>
        have := phi_step_worker s0 s1 i (invC_reachable hr) hs
        simp only [progSteps, spurSteps]; omega
      | spurious i =>
        have := phi_step_spurious s0 s1 i hs
        simp only [progSteps, spurSteps]; omega

theorem sumLoc_const (n : Nat) (v : WPc) : ∀ m, sumLoc n (fun _ => v) m = m * loc n v
  | 0 => by simp [sumLoc]
  | m + 1 => by simp [sumLoc, sumLoc_const n v m, Nat.succ_mul]

/-- The potential of the initial state, in closed form. -/
theorem phi_init (n : Nat) (tasks : List Nat) :
    Phi (init n tasks) = K n * (3 * tasks.length + n + 4) + (K n + 6) * tasks.length + n * (K n + 7) := by
  unfold Phi
  simp only [init, List.length_nil, Nat.zero_add, prodSteps_nextAdd, remTasks_nextAdd, sumLoc_const]
  rfl

/-- **Every execution is finite**: from the initial state, whatever the schedule, the program performs at
most `Phi (init n tasks) + 4 · (number of spurious wake-ups)` steps — in particular at most
`(4n+1)(3T+n+4) + (4n+7)T + n(4n+8)` steps when the environment injects no spurious wake-up. -/
theorem bounded_run (n : Nat) (tasks : List Nat) (sched : List Tid) (s : State)
    (h : runSched step (init n tasks) sched = some s) :
    progSteps sched ≤ K n * (3 * tasks.length + n + 4) + (K n + 6) * tasks.length + n * (K n + 7) + 4 * spurSteps sched := by
  have := run_potential sched (init n tasks) s Reachable.init h
  rw [phi_init] at this
  omega

theorem reachable_of_run {n : Nat} {tasks : List Nat} : ∀ (sched : List Tid) (s0 s : State), Reachable n tasks s0 →
    runSched step s0 sched = some s → Reachable n tasks s
  | [], s0, s, hr, h => by simp only [runSched, Option.some.injEq] at h; subst h; exact hr
  | t :: ts, s0, s, hr, h => by
    simp only [runSched] at h
    cases hs : step s0 t with
    | none => rw [hs] at h; cases h
    | some s1 => rw [hs] at h; exact reachable_of_run ts s1 s (Reachable.step hr hs) h

/-- **A run that cannot be extended has finished the job**: if after a schedule no thread of the program
can move, the producer has returned from `wait_workers` and every task has run exactly once. -/
theorem maximal_run_is_complete (n : Nat) (hn : 0 < n) (tasks : List Nat) (sched : List Tid) (s : State)
    (h : runSched step (init n tasks) sched = some s) (hstuck : Stuck step s) :
    s.prod = .done ∧ ∀ x, s.ran.count x = tasks.count x := by
  have hr := reachable_of_run sched (init n tasks) s Reachable.init h
  have hd : s.prod = .done := by
    cases hp : s.prod with
    | done => rfl
    | _ => exact absurd hstuck (no_deadlock hr (by rw [hp]; simp))
  exact ⟨hd, fun x => exactly_once_at_termination hn hr hd x⟩

end CSD.Pool
