/-
  FM-index, part 17: the string iterator of `extractTable` / `extractPrefix` yields the members of its ID
  range in order (each `next` is `extract` of the next ID).
-/
import CSD.Lemmas.FM16

namespace CSD.FM
open CSD.PFC

theorem iterNext_spec {S : List Str} {L : List Row} {d : Dict} (hv : validDict S = true) (hd : DictOK S L d)
    (hml : ∀ s ∈ S, s.length < d.maxlength) (i : Nat) (hi : i < S.length) (sc : Nat) :
    d.iterNext { processed := i + 1, scanneable := sc, last := d.elements }
      = some (symsOf S[i], { processed := i + 2, scanneable := sc, last := d.elements }) := by
  have h := extract_spec hv hd hml i hi
  unfold Dict.extract at h
  have hid : i + 1 > 0 ∧ i + 1 ≤ d.elements := by rw [hd.elements]; omega
  simp only [hid, and_self, ↓reduceIte] at h
  unfold Dict.iterNext
  simp only
  cases he : extractId d.ix (if i + 1 = d.elements then 2 else i + 1 + 3) d.maxlength with
  | none => rw [he] at h; simp at h
  | some s =>
    rw [he] at h
    simp only [Option.map_some, Option.some.injEq] at h
    simp [h]

/-- Draining a scan over the IDs `i + 1 … i + k` yields `S[i], …, S[i + k - 1]`. -/
theorem drain_spec {S : List Str} {L : List Row} {d : Dict} (hv : validDict S = true) (hd : DictOK S L d)
    (hml : ∀ s ∈ S, s.length < d.maxlength) : ∀ (k i fuel : Nat), i + k ≤ S.length → k ≤ fuel →
    d.drain fuel { processed := i + 1, scanneable := i + k + 1, last := d.elements }
      = some (((S.drop i).take k).map symsOf)
  | 0, i, fuel, _, _ => by
    cases fuel <;> simp [Dict.drain, SIter.hasNext]
  | k + 1, i, 0, _, hf => by omega
  | k + 1, i, fuel + 1, hik, hf => by
    have hi : i < S.length := by omega
    unfold Dict.drain
    have hn : (SIter.hasNext { processed := i + 1, scanneable := i + (k + 1) + 1, last := d.elements }) = true := by
      simp [SIter.hasNext]
    simp only [hn, ↓reduceIte]
    rw [iterNext_spec hv hd hml i hi]
    simp only
    have := drain_spec hv hd hml k (i + 1) fuel (by omega) (by omega)
    have e : i + 1 + k + 1 = i + (k + 1) + 1 := by omega
    rw [e] at this
    rw [this]
    simp only [Option.some.injEq]
    rw [List.drop_eq_getElem_cons hi, List.take_succ_cons, List.map_cons]

/-- `extractTable` yields the whole dictionary in order. -/
theorem extractTable_spec {S : List Str} {L : List Row} {d : Dict} (hv : validDict S = true) (hd : DictOK S L d)
    (hml : ∀ s ∈ S, s.length < d.maxlength) : d.extractTable = some (S.map symsOf) := by
  unfold Dict.extractTable
  have := drain_spec hv hd hml S.length 0 d.elements (by omega) (by rw [hd.elements]; omega)
  rw [hd.elements]
  simp only [Nat.zero_add] at this
  rw [hd.elements] at this
  rw [this]
  simp

end CSD.FM
