import CSD.Model.ChunkDec
import CSD.Lemmas.Codes

/-! The chunk table decodes exactly what the code tree decodes. -/
namespace CSD.ChunkDec
open CSD.Codes

/-- The bit stream as `processChunk` sees it: padded with zeros up to one chunk. -/
def padTo (k : Nat) (l : List Bool) : List Bool := l ++ List.replicate (k - l.length) false

theorem padTo_of_le (k : Nat) (l : List Bool) (h : k ≤ l.length) : padTo k l = l := by
  unfold padTo
  have : k - l.length = 0 := by omega
  rw [this]; simp

theorem byteBits_length (b : Nat) : (byteBits b).length = 8 := by simp [byteBits]

theorem stream_cons (pend : List Bool) (b : Nat) (rest : List Nat) :
    stream pend (b :: rest) = stream (pend ++ byteBits b) rest := by
  simp [stream, List.flatMap_cons]

theorem stream_length_ge (pend : List Bool) (bytes : List Nat) : pend.length ≤ (stream pend bytes).length := by
  simp [stream]

/-! ### refill -/

theorem refill_spec (k : Nat) : ∀ (fuel : Nat) (pend : List Bool) (bytes : List Nat),
    k ≤ fuel + pend.length →
    ∃ pend' bytes', refill k (fuel + 1) pend bytes = some (pend', bytes') ∧ k ≤ pend'.length ∧
      stream pend' bytes' = padTo k (stream pend bytes) := by
  intro fuel
  induction fuel with
  | zero =>
    intro pend bytes h
    refine ⟨pend, bytes, ?_, by omega, ?_⟩
    · unfold refill; rw [if_neg (by omega)]
    · rw [padTo_of_le]; have := stream_length_ge pend bytes; omega
  | succ fuel ih =>
    intro pend bytes h
    unfold refill
    by_cases hlt : pend.length < k
    · rw [if_pos hlt]
      cases bytes with
      | nil =>
        refine ⟨_, [], rfl, by simp; omega, ?_⟩
        simp [stream, padTo]
      | cons b rest =>
        simp only
        obtain ⟨p', b', h1, h2, h3⟩ := ih (pend ++ byteBits b) rest (by simp [byteBits_length]; omega)
        exact ⟨p', b', h1, h2, by rw [h3, stream_cons]⟩
    · rw [if_neg hlt]
      refine ⟨pend, bytes, rfl, by omega, ?_⟩
      rw [padTo_of_le]; have := stream_length_ge pend bytes; omega

/-! ### the index -/

theorem bitsVal_append (l : List Bool) (b : Bool) : bitsVal (l ++ [b]) = 2 * bitsVal l + (if b then 1 else 0) := by
  simp [bitsVal, List.foldl_append]

theorem testBit_two_mul_add (a : Nat) (b : Bool) (i : Nat) :
    (2 * a + (if b then 1 else 0)).testBit (i + 1) = a.testBit i := by
  rw [Nat.testBit_succ]
  congr 1
  cases b <;> simp <;> omega

theorem testBit_two_mul_add_zero (a : Nat) (b : Bool) : (2 * a + (if b then 1 else 0)).testBit 0 = b := by
  rw [Nat.testBit_zero]
  cases b <;> simp <;> omega

theorem idxBits_append_singleton (l : List Bool) (b : Bool) (ih : idxBits l.length (bitsVal l) = l) :
    idxBits (l ++ [b]).length (bitsVal (l ++ [b])) = l ++ [b] := by
  rw [bitsVal_append]
  unfold idxBits at *
  simp only [List.length_append, List.length_cons, List.length_nil, Nat.zero_add]
  rw [List.range_succ, List.map_append]
  congr 1
  · conv => rhs; rw [← ih]
    apply List.map_congr_left
    intro i hi
    have hi' : i < l.length := List.mem_range.mp hi
    have e : l.length + 1 - 1 - i = (l.length - 1 - i) + 1 := by omega
    rw [e, testBit_two_mul_add]
  · simp only [List.map_cons, List.map_nil]
    have e : l.length + 1 - 1 - l.length = 0 := by omega
    rw [e, testBit_two_mul_add_zero]

/-- The index computed from `k` bits has exactly those bits. -/
theorem idxBits_bitsVal_aux : ∀ (n : Nat) (l : List Bool), l.length = n → idxBits l.length (bitsVal l) = l
  | 0, l, h => by
    have : l = [] := List.eq_nil_of_length_eq_zero h
    subst this; rfl
  | n + 1, l, h => by
    have hne : l ≠ [] := by intro e; rw [e] at h; simp at h
    have hsplit := List.dropLast_concat_getLast hne
    have ih := idxBits_bitsVal_aux n l.dropLast (by simp [h])
    have := idxBits_append_singleton l.dropLast (l.getLast hne) ih
    rw [hsplit] at this
    exact this

theorem idxBits_bitsVal (l : List Bool) : idxBits l.length (bitsVal l) = l := idxBits_bitsVal_aux l.length l rfl

/-! ### the subtree walk -/

theorem decodeSym_subtreeAt : ∀ (t : Tree) (p : List Bool) (st : Tree) (rest : List Bool),
    subtreeAt t p = some st → decodeSym t (p ++ rest) = decodeSym st rest
  | t, [], st, rest, h => by simp [subtreeAt] at h; subst h; rfl
  | .leaf _, _ :: _, st, rest, h => by simp [subtreeAt] at h
  | .node l r, b :: p, st, rest, h => by
    simp only [subtreeAt] at h
    simp only [List.cons_append, decodeSym]
    cases b
    · simpa using decodeSym_subtreeAt l p st rest (by simpa using h)
    · simpa using decodeSym_subtreeAt r p st rest (by simpa using h)

/-- What the walk returns is what the tree decodes from the stream. -/
theorem walk_sound : ∀ (fuel : Nat) (st : Tree) (pend : List Bool) (bytes : List Nat) (s : Nat)
    (pend' : List Bool) (bytes' : List Nat),
    walk fuel st pend bytes = some (s, pend', bytes') →
    decodeSym st (stream pend bytes) = some (s, stream pend' bytes') := by
  intro fuel
  induction fuel with
  | zero =>
    intro st pend bytes s pend' bytes' h
    cases st with
    | leaf x => simp [walk] at h; obtain ⟨rfl, rfl, rfl⟩ := h; simp [decodeSym]
    | node l r => simp [walk] at h
  | succ fuel ih =>
    intro st pend bytes s pend' bytes' h
    cases st with
    | leaf x => simp [walk] at h; obtain ⟨rfl, rfl, rfl⟩ := h; simp [decodeSym]
    | node l r =>
      cases pend with
      | cons b pend0 =>
        simp only [walk] at h
        have := ih _ pend0 bytes s pend' bytes' h
        simp only [stream, List.cons_append, decodeSym]
        cases b <;> simpa [stream] using this
      | nil =>
        cases bytes with
        | nil => simp [walk] at h
        | cons byte rest =>
          simp only [walk] at h
          cases hb : byteBits byte with
          | nil => have := byteBits_length byte; rw [hb] at this; simp at this
          | cons b pend0 =>
            rw [hb] at h
            simp only at h
            have := ih _ pend0 rest s pend' bytes' h
            have e : stream [] (byte :: rest) = b :: stream pend0 rest := by
              simp [stream, List.flatMap_cons, hb]
            rw [e]
            simp only [decodeSym]
            cases b <;> simpa using this

/-- The walk succeeds whenever the stream holds a whole codeword of the subtree. -/
theorem walk_total : ∀ (fuel : Nat) (st : Tree) (pend : List Bool) (bytes : List Nat),
    depth st ≤ fuel → (decodeSym st (stream pend bytes)).isSome →
    (walk fuel st pend bytes).isSome := by
  intro fuel
  induction fuel with
  | zero =>
    intro st pend bytes hd _
    cases st with
    | leaf x => simp [walk]
    | node l r => simp [depth] at hd
  | succ fuel ih =>
    intro st pend bytes hd hs
    cases st with
    | leaf x => simp [walk]
    | node l r =>
      simp only [depth] at hd
      have hl : depth l ≤ fuel := by omega
      have hr : depth r ≤ fuel := by omega
      cases pend with
      | cons b pend0 =>
        simp only [walk]
        simp only [stream, List.cons_append, decodeSym] at hs
        cases b
        · exact ih l pend0 bytes hl (by simpa [stream] using hs)
        · exact ih r pend0 bytes hr (by simpa [stream] using hs)
      | nil =>
        cases bytes with
        | nil => simp [stream, decodeSym] at hs
        | cons byte rest =>
          simp only [walk]
          cases hb : byteBits byte with
          | nil => have := byteBits_length byte; rw [hb] at this; simp at this
          | cons b pend0 =>
            simp only
            have e : stream [] (byte :: rest) = b :: stream pend0 rest := by
              simp [stream, List.flatMap_cons, hb]
            rw [e] at hs
            simp only [decodeSym] at hs
            cases b
            · exact ih l pend0 rest hl (by simpa using hs)
            · exact ih r pend0 rest hr (by simpa using hs)

/-! ### one step -/

/-- Every entry of the table is sound with respect to the code tree. -/
def TableOK (t : Tree) (k : Nat) (table : Nat → Option Entry) : Prop :=
  ∀ i e, table i = some e → entryOK t k i e = true

theorem findEnd_spec (syms : List Nat) (jump e : Nat) (h : findEnd syms jump = some e) :
    jump + 1 ≤ e ∧ e ≤ syms.length ∧ syms[e - 1]? = some 0 ∧ ∀ i, jump ≤ i → i < e - 1 → syms[i]? ≠ some 0 := by
  unfold findEnd at h
  cases hf : (syms.drop jump).findIdx? (· == 0) with
  | none => rw [hf] at h; cases h
  | some i =>
    rw [hf] at h
    simp only [Option.some.injEq] at h
    subst h
    rw [List.findIdx?_eq_some_iff_getElem] at hf
    obtain ⟨hi, hz, hbefore⟩ := hf
    simp only [List.length_drop] at hi
    refine ⟨by omega, by omega, ?_, ?_⟩
    · have e1 : jump + i + 1 - 1 = jump + i := by omega
      rw [e1]
      have : (syms.drop jump)[i] = 0 := by simpa using hz
      rw [List.getElem_drop] at this
      rw [List.getElem?_eq_getElem (by omega), this]
    · intro j hj1 hj2
      have hj : j - jump < i := by omega
      have := hbefore (j - jump) hj
      have e2 : jump + (j - jump) = j := by omega
      rw [List.getElem_drop] at this
      simp only [e2] at this
      rw [List.getElem?_eq_getElem (by omega)]
      intro hc
      simp only [Option.some.injEq] at hc
      rw [hc] at this
      simp at this

theorem findEnd_none (syms : List Nat) (jump : Nat) (h : findEnd syms jump = none) :
    ∀ i, jump ≤ i → syms[i]? ≠ some 0 := by
  unfold findEnd at h
  cases hf : (syms.drop jump).findIdx? (· == 0) with
  | some i => rw [hf] at h; cases h
  | none =>
    rw [List.findIdx?_eq_none_iff] at hf
    intro i hi hc
    have hlt : i < syms.length := by
      rcases Nat.lt_or_ge i syms.length with h | h
      · exact h
      · rw [List.getElem?_eq_none h] at hc; cases hc
    have hm : syms[i] ∈ syms.drop jump := by
      rw [List.mem_drop_iff_getElem]
      exact ⟨i - jump, by omega, by congr 1; omega⟩
    have := hf _ hm
    rw [List.getElem?_eq_getElem hlt] at hc
    simp only [Option.some.injEq] at hc
    rw [hc] at this
    simp at this

/-- **One `processChunk` step decodes what the code tree decodes**: the symbols it writes are the next
`out.length ≥ 1` symbols the tree decodes from the (padded) bit stream, and it leaves the stream exactly
behind their codewords — or, when the last symbol written is the string terminator, possibly a few
(padding) bits further. -/
theorem processChunk_sound (t : Tree) (k : Nat) (table : Nat → Option Entry) (hT : TableOK t k table)
    (c : Scan) (out : List Nat) (flag : Bool) (c' : Scan)
    (h : processChunk table k c = some (out, flag, c')) :
    out ≠ [] ∧ ∃ r, decode t out.length (padTo k (stream c.pend c.bytes)) = some (out, r) ∧
      (r = stream c'.pend c'.bytes ∨ (out.getLast? = some 0 ∧ ∃ d, stream c'.pend c'.bytes = r.drop d)) := by
  unfold processChunk at h
  obtain ⟨pend, bytes, hr, hlen, hstream⟩ := refill_spec k (k + 1) c.pend c.bytes (by omega)
  rw [hr] at h
  simp only at h
  rw [← hstream]
  have hk : (pend.take k).length = k := by simp; omega
  cases he : table (bitsVal (pend.take k)) with
  | none => rw [he] at h; cases h
  | some e =>
    rw [he] at h
    have hok := hT _ _ he
    have hidx : idxBits k (bitsVal (pend.take k)) = pend.take k := by
      have := idxBits_bitsVal (pend.take k)
      rw [hk] at this; exact this
    cases e with
    | str syms bits ending =>
      simp only [entryOK, Bool.and_eq_true, decide_eq_true_eq, beq_iff_eq] at hok
      obtain ⟨⟨⟨⟨⟨h1, h2⟩, h3⟩, h4⟩, henc0⟩, hend⟩ := hok
      cases henc : encode t syms with
      | none => rw [henc] at henc0; cases henc0
      | some enc =>
        rw [henc] at henc0
        simp only [Bool.and_eq_true, decide_eq_true_eq, beq_iff_eq, Bool.or_eq_true] at henc0
        obtain ⟨⟨hle, hpre⟩, hex⟩ := henc0
        rw [hidx] at hpre
        simp only at h
        rw [if_neg (by omega)] at h
        have hsplit : stream pend bytes = enc ++ stream (pend.drop enc.length) bytes := by
          have e1 : enc = pend.take enc.length := by
            rw [List.take_take, Nat.min_eq_left (by omega)] at hpre; exact hpre
          have e2 : pend = enc ++ pend.drop enc.length := by
            conv => lhs; rw [← List.take_append_drop enc.length pend, ← e1]
          simp only [stream]
          conv => lhs; rw [e2]
          rw [List.append_assoc]
        have hdec := decode_encode t syms _ (stream (pend.drop enc.length) bytes) henc
        rw [← hsplit] at hdec
        have hne : syms ≠ [] := by intro e; rw [e] at h1; simp at h1
        have hrest : stream (pend.drop enc.length) bytes = stream (pend.drop bits) bytes ∨
            (syms.getLast? = some 0 ∧ ∃ d, stream (pend.drop bits) bytes = (stream (pend.drop enc.length) bytes).drop d) := by
          rcases hex with hx | hx
          · left; rw [hx]
          · right
            refine ⟨hx, bits - enc.length, ?_⟩
            simp only [stream]
            rw [List.drop_append_of_le_length (by simp; omega), List.drop_drop]
            congr 2; omega
        have key : syms ≠ [] ∧ ∃ r, decode t syms.length (stream pend bytes) = some (syms, r) ∧
            (r = stream (pend.drop bits) bytes ∨ (syms.getLast? = some 0 ∧ ∃ d, stream (pend.drop bits) bytes = r.drop d)) :=
          ⟨hne, _, hdec, hrest⟩
        split at h
        · simp only [Option.some.injEq, Prod.mk.injEq] at h
          obtain ⟨rfl, _, rfl⟩ := h
          exact key
        · split at h
          · simp only [Option.some.injEq, Prod.mk.injEq] at h
            obtain ⟨rfl, _, rfl⟩ := h
            exact key
          · simp only [Option.some.injEq, Prod.mk.injEq] at h
            obtain ⟨rfl, _, rfl⟩ := h
            exact key
    | sub st =>
      simp only at h
      cases hw : walk 64 st (pend.drop k) bytes with
      | none => rw [hw] at h; cases h
      | some r =>
        obtain ⟨s, pend', bytes'⟩ := r
        rw [hw] at h
        simp only [Option.some.injEq, Prod.mk.injEq] at h
        obtain ⟨rfl, _, rfl⟩ := h
        refine ⟨by simp, stream pend' bytes', ?_, Or.inl rfl⟩
        simp only [entryOK, hidx] at hok
        cases hs : subtreeAt t (pend.take k) with
        | none => rw [hs] at hok; cases hok
        | some sub =>
          rw [hs] at hok
          cases sub with
          | leaf x => cases hok
          | node l r =>
            simp only [beq_iff_eq] at hok
            subst hok
            have hsplit : stream pend bytes = pend.take k ++ stream (pend.drop k) bytes := by
              simp [stream, ← List.append_assoc]
            have := walk_sound 64 _ _ _ _ _ _ hw
            simp only [List.length_cons, List.length_nil, Nat.zero_add, decode]
            rw [hsplit, decodeSym_subtreeAt t _ _ _ hs, this]

/-- The flag and the counters: `true` marks a string end inside the written symbols — `strLen` stops
right behind the first 0 at or after the two protected leading bytes, the symbols behind it are counted
as extracted in advance. -/
theorem processChunk_flag_true (t : Tree) (k : Nat) (table : Nat → Option Entry) (hT : TableOK t k table)
    (c : Scan) (out : List Nat) (c' : Scan)
    (h : processChunk table k c = some (out, true, c')) :
    ∃ e, c'.strLen = c.strLen + e ∧ 1 ≤ e ∧ e ≤ out.length ∧ out[e - 1]? = some 0 ∧
      (c'.advanced = out.length - e ∨ (out.length = 1 ∧ c'.advanced = c.advanced)) := by
  unfold processChunk at h
  obtain ⟨pend, bytes, hr, hlen, hstream⟩ := refill_spec k (k + 1) c.pend c.bytes (by omega)
  rw [hr] at h
  simp only at h
  cases he : table (bitsVal (pend.take k)) with
  | none => rw [he] at h; cases h
  | some e =>
    rw [he] at h
    cases e with
    | str syms bits ending =>
      simp only at h
      split at h
      · cases h
      · split at h
        · simp at h
        · split at h
          · rename_i e0 hfe
            simp only [Option.some.injEq, Prod.mk.injEq] at h
            obtain ⟨rfl, _, rfl⟩ := h
            have hfe' : findEnd syms (if c.extracted < 2 then 2 - c.extracted else 0) = some e0 := by
              cases ending <;> simp_all
            obtain ⟨a, b, c0, _⟩ := findEnd_spec _ _ _ hfe'
            exact ⟨e0, rfl, by omega, b, c0, Or.inl rfl⟩
          · simp at h
    | sub st =>
      simp only at h
      cases hw : walk 64 st (pend.drop k) bytes with
      | none => rw [hw] at h; cases h
      | some r =>
        obtain ⟨s, pend', bytes'⟩ := r
        rw [hw] at h
        simp only [Option.some.injEq, Prod.mk.injEq, beq_iff_eq] at h
        obtain ⟨rfl, hs, rfl⟩ := h
        exact ⟨1, rfl, by omega, by simp, by simp [hs], Or.inr ⟨rfl, rfl⟩⟩

/-! ### on an encoded text -/

theorem encode_append (t : Tree) : ∀ (a b : List Nat) (ea eb : List Bool),
    encode t a = some ea → encode t b = some eb → encode t (a ++ b) = some (ea ++ eb)
  | [], b, ea, eb, ha, hb => by simp [encode] at ha; subst ha; simpa using hb
  | s :: a, b, ea, eb, ha, hb => by
    simp only [encode] at ha
    cases hc : encodeSym t s with
    | none => simp [hc] at ha
    | some c =>
      cases hr : encode t a with
      | none => simp [hc, hr] at ha
      | some r =>
        simp only [hc, hr, Option.some.injEq] at ha
        subst ha
        simp only [List.cons_append, encode, hc, encode_append t a b r eb hr hb, List.append_assoc]

theorem encode_split (t : Tree) : ∀ (m : Nat) (w : List Nat) (enc : List Bool), encode t w = some enc →
    ∃ e1 e2, encode t (w.take m) = some e1 ∧ encode t (w.drop m) = some e2 ∧ enc = e1 ++ e2
  | 0, w, enc, h => ⟨[], enc, by simp [encode], by simpa using h, rfl⟩
  | m + 1, [], enc, h => ⟨[], enc, by simp [encode], by simpa using h, rfl⟩
  | m + 1, s :: w, enc, h => by
    simp only [encode] at h
    cases hc : encodeSym t s with
    | none => simp [hc] at h
    | some c =>
      cases hr : encode t w with
      | none => simp [hc, hr] at h
      | some r =>
        simp only [hc, hr, Option.some.injEq] at h
        subst h
        obtain ⟨e1, e2, h1, h2, h3⟩ := encode_split t m w r hr
        refine ⟨c ++ e1, e2, ?_, by simpa using h2, by rw [h3, List.append_assoc]⟩
        simp only [List.take_succ_cons, encode, hc, h1]

/-- **On an encoded text** the step writes the next symbols of the text and stops at a codeword boundary:
if the (padded) stream is the encoding of `w` followed by anything, the `out.length ≤ |w|` symbols written
are the next symbols of `w`, and unless the last of them is the terminator the stream is left at the
encoding of the rest of `w`. -/
theorem processChunk_on_encoded (t : Tree) (k : Nat) (table : Nat → Option Entry) (hT : TableOK t k table)
    (c : Scan) (out : List Nat) (flag : Bool) (c' : Scan)
    (h : processChunk table k c = some (out, flag, c'))
    (w : List Nat) (enc rest : List Bool) (henc : encode t w = some enc)
    (hs : padTo k (stream c.pend c.bytes) = enc ++ rest) (hm : out.length ≤ w.length) :
    out = w.take out.length ∧
      (out.getLast? ≠ some 0 →
        ∃ e2, encode t (w.drop out.length) = some e2 ∧ stream c'.pend c'.bytes = e2 ++ rest) := by
  obtain ⟨_, r, hdec, hr⟩ := processChunk_sound t k table hT c out flag c' h
  obtain ⟨e1, e2, h1, h2, h3⟩ := encode_split t out.length w enc henc
  have := decode_encode t (w.take out.length) e1 (e2 ++ rest) h1
  rw [List.length_take, Nat.min_eq_left hm, ← List.append_assoc, ← h3, ← hs, hdec] at this
  simp only [Option.some.injEq, Prod.mk.injEq] at this
  refine ⟨this.1, fun hz => ⟨e2, h2, ?_⟩⟩
  rcases hr with hr | ⟨hr, _⟩
  · rw [← hr]; exact this.2
  · exact absurd hr hz

/-! ### the step never fails on a well-formed stream -/

theorem bitsVal_lt : ∀ (l : List Bool), bitsVal l < 2 ^ l.length := by
  intro l
  suffices h : ∀ (n : Nat) (l : List Bool), l.length = n → bitsVal l < 2 ^ n from h _ l rfl
  intro n
  induction n with
  | zero => intro l h; have : l = [] := List.eq_nil_of_length_eq_zero h; subst this; simp [bitsVal]
  | succ n ih =>
    intro l h
    have hne : l ≠ [] := by intro e; rw [e] at h; simp at h
    have hsplit := List.dropLast_concat_getLast hne
    rw [← hsplit, bitsVal_append]
    have := ih l.dropLast (by simp [h])
    rw [Nat.pow_succ]
    split <;> omega

theorem depth_subtreeAt : ∀ (t : Tree) (p : List Bool) (st : Tree), subtreeAt t p = some st → depth st ≤ depth t
  | t, [], st, h => by simp [subtreeAt] at h; subst h; exact Nat.le_refl _
  | .leaf _, _ :: _, st, h => by simp [subtreeAt] at h
  | .node l r, b :: p, st, h => by
    simp only [subtreeAt] at h
    simp only [depth]
    cases b
    · have := depth_subtreeAt l p st (by simpa using h); omega
    · have := depth_subtreeAt r p st (by simpa using h); omega

/-- **The step succeeds** — every table and bucket read is in bounds — whenever the table covers all
`2^k` indices and the (padded) stream starts with a whole codeword. -/
theorem processChunk_total (t : Tree) (k : Nat) (table : Nat → Option Entry) (hT : TableOK t k table)
    (hcov : ∀ i, i < 2 ^ k → (table i).isSome) (hd : depth t ≤ 64) (c : Scan)
    (hcw : (decodeSym t (padTo k (stream c.pend c.bytes))).isSome) :
    (processChunk table k c).isSome := by
  unfold processChunk
  obtain ⟨pend, bytes, hr, hlen, hstream⟩ := refill_spec k (k + 1) c.pend c.bytes (by omega)
  rw [hr]
  simp only
  rw [← hstream] at hcw
  have hk : (pend.take k).length = k := by simp; omega
  have hlt : bitsVal (pend.take k) < 2 ^ k := by have := bitsVal_lt (pend.take k); rw [hk] at this; exact this
  cases he : table (bitsVal (pend.take k)) with
  | none => have := hcov _ hlt; rw [he] at this; cases this
  | some e =>
    have hok := hT _ _ he
    have hidx : idxBits k (bitsVal (pend.take k)) = pend.take k := by
      have := idxBits_bitsVal (pend.take k)
      rw [hk] at this; exact this
    cases e with
    | str syms bits ending =>
      simp only [entryOK, Bool.and_eq_true, decide_eq_true_eq, beq_iff_eq] at hok
      obtain ⟨⟨⟨⟨⟨h1, h2⟩, h3⟩, h4⟩, _⟩, hend⟩ := hok
      simp only
      rw [if_neg (by omega)]
      split
      · rfl
      · split <;> rfl
    | sub st =>
      simp only
      simp only [entryOK, hidx] at hok
      cases hs : subtreeAt t (pend.take k) with
      | none => rw [hs] at hok; cases hok
      | some sub =>
        rw [hs] at hok
        cases sub with
        | leaf x => cases hok
        | node l r =>
          simp only [beq_iff_eq] at hok
          subst hok
          have hsplit : stream pend bytes = pend.take k ++ stream (pend.drop k) bytes := by
            simp [stream, ← List.append_assoc]
          rw [hsplit, decodeSym_subtreeAt t _ _ _ hs] at hcw
          have hdep := depth_subtreeAt t _ _ hs
          have := walk_total 64 _ (pend.drop k) bytes (by omega) hcw
          cases hw : walk 64 (Tree.node l r) (pend.drop k) bytes with
          | none => rw [hw] at this; cases this
          | some r => obtain ⟨s, p', b'⟩ := r; rfl

end CSD.ChunkDec
