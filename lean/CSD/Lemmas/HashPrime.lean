import CSD.Lemmas.HashNum

/-! `nearest_prime` returns a prime (or 1): the trial division it runs is sound. -/
namespace CSD.Hash

theorem oddTrial_sound (p : Nat) : ∀ (fuel i : Nat), oddTrial p fuel i = true →
    Nat.sqrt p + 1 ≤ i + 2 * fuel → ∀ j, i + 2 * j < Nat.sqrt p + 1 → p % (i + 2 * j) ≠ 0
  | 0, i, _, hf, j, hj => by omega
  | fuel + 1, i, h, hf, j, hj => by
    unfold oddTrial at h
    have hi : i < Nat.sqrt p + 1 := by omega
    rw [if_pos hi] at h
    split at h
    · cases h
    · rename_i hne
      cases j with
      | zero => simpa using hne
      | succ j =>
        have := oddTrial_sound p fuel (i + 2) h (by omega) j (by omega)
        have e : i + 2 * (j + 1) = i + 2 + 2 * j := by omega
        rw [e]; exact this

theorem le_sqrt_of_sq_le {a p : Nat} (h : a * a ≤ p) : a ≤ Nat.sqrt p := by
  apply Classical.byContradiction
  intro hc
  have h1 : Nat.sqrt p + 1 ≤ a := by omega
  have h2 := Nat.lt_succ_sqrt p
  have := Nat.mul_le_mul h1 h1
  simp only [Nat.succ_eq_add_one] at h2
  omega

theorem no_small_factor {p : Nat} (h3 : 3 ≤ p) (hodd : p % 2 = 1)
    (ht : oddTrial p (Nat.sqrt p + 2) 3 = true) (a b : Nat) (hab : p = a * b) (hle : a ≤ b) : a = 1 := by
  apply Classical.byContradiction
  intro hne
  have ha0 : a ≠ 0 := by rintro rfl; simp at hab; omega
  have haodd : a % 2 = 1 := by
    have : p % 2 = ((a % 2) * (b % 2)) % 2 := by rw [hab, Nat.mul_mod]
    rcases Nat.mod_two_eq_zero_or_one a with e | e
    · rw [e] at this; simp at this; omega
    · exact e
  have ha3 : 3 ≤ a := by omega
  have hsq : a * a ≤ p := by rw [hab]; exact Nat.mul_le_mul_left a hle
  have hle' := le_sqrt_of_sq_le hsq
  have hdiv : p % a = 0 := by rw [hab]; exact Nat.mul_mod_right a b
  have := oddTrial_sound p (Nat.sqrt p + 2) 3 ht (by omega) ((a - 3) / 2) (by omega)
  have e : 3 + 2 * ((a - 3) / 2) = a := by omega
  rw [e] at this
  exact this hdiv

theorem prime_of_oddTrial {p : Nat} (h3 : 3 ≤ p) (hodd : p % 2 = 1)
    (ht : oddTrial p (Nat.sqrt p + 2) 3 = true) : IsPrime p := by
  refine ⟨by omega, ?_⟩
  intro d hd
  obtain ⟨e, he⟩ := hd
  rcases Nat.le_total d e with h | h
  · left; exact no_small_factor h3 hodd ht d e he h
  · right
    have : e = 1 := no_small_factor h3 hodd ht e d (by rw [he, Nat.mul_comm]) h
    rw [this] at he; simpa using he.symm

/-- The test `nearest_prime` applies to each candidate. -/
def accepted (q : Nat) : Bool := q % 2 ≠ 0 && oddTrial q (Nat.sqrt q + 2) 3

theorem accepted_prime_or_one {q : Nat} (h : accepted q = true) : q = 1 ∨ IsPrime q := by
  unfold accepted at h
  simp only [Bool.and_eq_true, decide_eq_true_eq] at h
  by_cases h1 : q = 1
  · left; exact h1
  · right; exact prime_of_oddTrial (by omega) (by omega) h.2

/-- `nearest_prime` returns a candidate that passed the test (or ran out of the model's fuel). -/
theorem nearestPrime_spec : ∀ (fuel p : Nat),
    accepted (nearestPrime fuel p) = true ∨ nearestPrime fuel p = p + fuel
  | 0, p => by right; simp [nearestPrime]
  | fuel + 1, p => by
    unfold nearestPrime
    split
    · rename_i h; left; exact h
    · rcases nearestPrime_spec fuel (p + 1) with h | h
      · left; exact h
      · right; rw [h]; omega

theorem nearestPrime_ge : ∀ (fuel p : Nat), p ≤ nearestPrime fuel p
  | 0, p => by simp [nearestPrime]
  | fuel + 1, p => by
    unfold nearestPrime
    split
    · exact Nat.le_refl p
    · have := nearestPrime_ge fuel (p + 1); omega

end CSD.Hash
