import CSD.Lemmas.PFCLocate2

namespace CSD.PFC
open CSD

theorem scmp_irrefl_lt (a : Str) : ¬ scmp a a < 0 := by rw [scmp_self]; omega
theorem scmp_irrefl_gt (a : Str) : ¬ scmp a a > 0 := by rw [scmp_self]; omega

/-- Where the query can be once its candidate bucket is known. -/
theorem bucket_locate (b : Nat) (hb : 2 ≤ b) (S : List Str) (q : Str) (hsort : SortedLt S)
    (k : Nat) (hk : k * b < S.length) (h : Str) (L : List Str)
    (hchunk : (S.drop (k * b)).take b = h :: L) (hhq : scmp h q < 0)
    (hhi : ∀ j, k + 1 < j → ∀ x, S[(j - 1) * b]? = some x → scmp x q > 0) :
    (∀ p, (h :: L)[p]? = some q → Spec.locate S q = k * b + p + 1) ∧
    (q ∉ h :: L → Spec.locate S q = 0) := by
  have hget : ∀ p, (h :: L)[p]? = if p < b then S[k * b + p]? else none := by
    intro p; rw [← hchunk, List.getElem?_take]; split <;> simp [List.getElem?_drop]
  have hh : S[k * b]? = some h := by
    have := hget 0; simp only [List.getElem?_cons_zero, Nat.add_zero] at this
    rw [if_pos (by omega)] at this; exact this.symm
  have hhe : S[k * b] = h := by
    rw [List.getElem?_eq_getElem hk] at hh; exact Option.some.inj hh
  constructor
  · intro p hp
    rw [hget p] at hp
    by_cases hpb : p < b
    · rw [if_pos hpb] at hp
      have hlt : k * b + p < S.length := by
        rcases Nat.lt_or_ge (k * b + p) S.length with h' | h'
        · exact h'
        · rw [List.getElem?_eq_none h'] at hp; cases hp
      rw [List.getElem?_eq_getElem hlt] at hp
      have := Spec.locate_getElem hsort (k * b + p) hlt
      rw [Option.some.inj hp] at this; exact this
    · rw [if_neg hpb] at hp; cases hp
  · intro hnm
    apply Spec.locate_not_mem
    intro hmem
    obtain ⟨t, ht, hte⟩ := List.mem_iff_getElem.mp hmem
    rcases Nat.lt_or_ge t (k * b) with h1 | h1
    · -- before the bucket: below its header, which is below q
      have := hsort.getElem_lt h1 hk
      rw [hte, hhe] at this
      exact scmp_irrefl_lt q (scmp_trans_lt this hhq)
    · rcases Nat.lt_or_ge t (k * b + b) with h2 | h2
      · -- inside the bucket
        apply hnm
        have : (h :: L)[t - k * b]? = some q := by
          rw [hget, if_pos (by omega)]
          have : k * b + (t - k * b) = t := by omega
          rw [this, List.getElem?_eq_getElem ht, hte]
        exact List.mem_of_getElem? this
      · -- after the bucket: at or above the next header, which is above q
        have hnb : (k + 1) * b < S.length := by rw [Nat.succ_mul]; omega
        have hx := hhi (k + 2) (by omega) S[(k + 1) * b]
          (by show S[(k + 2 - 1) * b]? = _; rw [show k + 2 - 1 = k + 1 by omega, List.getElem?_eq_getElem hnb])
        rcases Nat.lt_or_ge ((k + 1) * b) t with h3 | h3
        · have := hsort.getElem_lt h3 ht
          rw [hte] at this
          have hq' : scmp q S[(k + 1) * b] < 0 := (scmp_lt_iff_gt _ _).mpr hx
          exact scmp_irrefl_lt q (scmp_trans_lt hq' this)
        · have : t = (k + 1) * b := by rw [Nat.succ_mul] at h3 ⊢; omega
          subst this
          rw [hte] at hx
          exact scmp_irrefl_gt q hx

end CSD.PFC
