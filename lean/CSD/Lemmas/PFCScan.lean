import CSD.Lemmas.Order

/-! The in-bucket scan of `StringDictionaryPFC::locate` with its lcp shortcuts is
equivalent to comparing the query with every decoded string. -/
namespace CSD.PFC
open CSD

/-- If the next string shares *less* with the previous one than the query does,
it is already beyond the query. -/
theorem gt_of_lcp_lt (p c q : Str) : lcp p c < lcp p q → scmp p c < 0 → scmp q c < 0 := by
  induction p generalizing c q with
  | nil => intro h; simp [lcp] at h
  | cons x ps ih =>
    intro h h2
    cases q with
    | nil => simp [lcp] at h
    | cons z qs =>
      cases c with
      | nil => simp [scmp] at h2; omega
      | cons y cs =>
        by_cases hxz : x = z
        · subst hxz
          by_cases hxy : x = y
          · subst hxy
            simp only [lcp, ↓reduceIte, scmp] at h h2 ⊢
            exact ih cs qs (by omega) h2
          · simp only [scmp, hxy, ↓reduceIte] at h2 ⊢; exact h2
        · simp [lcp, hxz] at h

/-- If the next string shares *more* with the previous one than the query does,
it relates to the query exactly like the previous one. -/
theorem lcp_of_lcp_gt : ∀ (p c q : Str), lcp p q < lcp p c →
    lcp c q = lcp p q ∧ (scmp p q < 0 → scmp c q < 0)
  | [], _, _, h => by simp [lcp] at h
  | _ :: _, [], _, h => by simp [lcp] at h
  | x :: ps, y :: cs, [], _ => by simp [lcp, scmp]; omega
  | x :: ps, y :: cs, z :: qs, h => by
    by_cases hxy : x = y
    · subst hxy
      by_cases hxz : x = z
      · subst hxz
        simp only [lcp, ↓reduceIte, scmp] at h ⊢
        have := lcp_of_lcp_gt ps cs qs (by omega)
        exact ⟨by omega, this.2⟩
      · simp [lcp, scmp, hxz]
    · simp [lcp, hxy] at h

theorem lcp_add_drop : ∀ (a b : Str) (k : Nat), k ≤ lcp a b →
    lcp a b = k + lcp (a.drop k) (b.drop k)
  | _, _, 0, _ => by simp
  | [], _, k + 1, h => by simp [lcp] at h
  | _ :: _, [], k + 1, h => by simp [lcp] at h
  | x :: as, y :: bs, k + 1, h => by
    by_cases hxy : x = y
    · subst hxy
      simp only [lcp, ↓reduceIte, List.drop_succ_cons] at h ⊢
      have := lcp_add_drop as bs k (by omega)
      omega
    · simp [lcp, hxy] at h

/-- Two strings share at least what both share with a third. -/
theorem min_lcp_le : ∀ (p c q : Str), min (lcp p c) (lcp p q) ≤ lcp c q
  | [], _, _ => by simp [lcp]
  | _ :: _, [], _ => by simp [lcp]
  | _ :: _, _ :: _, [] => by simp [lcp]
  | x :: ps, y :: cs, z :: qs => by
    by_cases hxy : x = y
    · subst hxy
      by_cases hxz : x = z
      · subst hxz
        have := min_lcp_le ps cs qs
        simp only [lcp, ↓reduceIte]; omega
      · simp [lcp, hxz]
    · simp [lcp, hxy]

/-- Index (1-based, relative to `i`) of `q` in the remaining strings, or 0. -/
def foundAt (q : Str) (i : Nat) (L : List Str) : Nat :=
  match L.idxOf? q with
  | some j => i + j + 1
  | none => 0

/-- Strictly increasing chain (adjacent comparison, as produced by a sorted input). -/
def chain : Str → List Str → Prop
  | _, [] => True
  | p, c :: L => scmp p c < 0 ∧ chain c L

theorem chain_all_gt {p : Str} {L : List Str} (h : chain p L) : ∀ s ∈ L, scmp p s < 0 := by
  induction L generalizing p with
  | nil => intro s hs; cases hs
  | cons c L ih =>
    intro s hs
    rcases List.mem_cons.mp hs with e | e
    · subst e; exact h.1
    · exact scmp_trans_lt h.1 (ih h.2 s e)

theorem not_mem_of_all_gt {q : Str} {L : List Str} (h : ∀ s ∈ L, scmp q s < 0) : q ∉ L := by
  intro hm
  have := h q hm
  rw [scmp_self] at this; omega

theorem idxOf?_of_not_mem {q : Str} {L : List Str} (h : q ∉ L) : L.idxOf? q = none := by
  simp [List.idxOf?_eq_none_iff, h]

theorem idxOf?_cons_ne {q c : Str} {L : List Str} (h : c ≠ q) :
    (c :: L).idxOf? q = (L.idxOf? q).map (· + 1) := by
  simp [List.idxOf?_cons, h]

theorem idxOf?_cons_self (q : Str) (L : List Str) : (q :: L).idxOf? q = some 0 := by
  simp [List.idxOf?_cons]

/-- **The scan loop is exact.** With `decoded` the last decoded string (below the
query), `sharedCurr` its lcp with the query and the remaining strings of the
bucket front-coded at the pointer, the loop returns the in-bucket index of the
query if it is among them and 0 otherwise, reading only inside the text. -/
theorem scanLoop_spec (q : Str) (hq : nulFree q) :
    ∀ (L : List Str) (decoded : Str) (i fuel scanneable : Nat) (rest : List UInt8) (cmp : Int),
      chain decoded L → (∀ s ∈ L, nulFree s) → nulFree decoded →
      scanneable = i + L.length → L.length ≤ fuel →
      cmp < 0 → scmp decoded q < 0 →
      scanLoop q fuel i scanneable (encTail decoded L ++ rest) decoded (lcp decoded q) cmp
        = some (foundAt q i L) := by
  intro L
  induction L with
  | nil =>
    intro decoded i fuel scanneable rest cmp _ _ _ hsc _ _ _
    have : ¬ i < scanneable := by simp at hsc; omega
    cases fuel <;> simp [scanLoop, this, foundAt]
  | cons c L ih =>
    intro decoded i fuel scanneable rest cmp hch hnf hdn hsc hfuel hcmp hdq
    have hc : nulFree c := hnf c (by simp)
    have hL : ∀ s ∈ L, nulFree s := fun s hs => hnf s (by simp [hs])
    obtain ⟨fuel', rfl⟩ : ∃ f, fuel = f + 1 := ⟨fuel - 1, by simp at hfuel; omega⟩
    have hi : i < scanneable := by simp at hsc; omega
    have hgt : ∀ s ∈ L, scmp c s < 0 := chain_all_gt hch.2
    simp only [scanLoop, hi, ↓reduceIte, encTail, encInternal, List.append_assoc, List.singleton_append, List.cons_append]
    rw [VByte.decode_encode]
    simp only
    by_cases hlt : lcp decoded c < lcp decoded q
    · -- the next string is beyond the query: not found
      simp only [hlt, ↓reduceIte]
      have hqc : scmp q c < 0 := gt_of_lcp_lt decoded c q hlt hch.1
      have : q ∉ c :: L := by
        apply not_mem_of_all_gt
        intro s hs
        rcases List.mem_cons.mp hs with e | e
        · subst e; exact hqc
        · exact scmp_trans_lt hqc (hgt s e)
      simp [foundAt, idxOf?_of_not_mem this]
    · simp only [hlt, ↓reduceIte]
      have hle := lcp_le_left decoded c
      have : ¬ lcp decoded c > decoded.length := by omega
      simp only [this, ↓reduceIte, List.drop_left]
      rw [readCStr_append (nulFree_drop hc _)]
      simp only [take_lcp_append_drop, List.nil_append]
      by_cases heq : lcp decoded c = lcp decoded q
      · -- compare from the shared length on
        simp only [heq, ↓reduceIte, cmpFrom]
        have hk : lcp decoded q ≤ lcp c q := by
          have := min_lcp_le decoded c q; rw [heq] at this; simpa using this
        have hs1 : scmp (c.drop (lcp decoded q)) (q.drop (lcp decoded q)) = scmp c q :=
          (scmp_drop_lcp c q _ hk).symm
        have hs2 : lcp decoded q + lcp (c.drop (lcp decoded q)) (q.drop (lcp decoded q)) = lcp c q :=
          (lcp_add_drop c q _ hk).symm
        rw [hs1, hs2]
        by_cases h0 : scmp c q = 0
        · have : c = q := (scmp_eq_zero hc hq).mp h0
          subst this
          simp [h0, foundAt, idxOf?_cons_self]
        · simp only [h0, ↓reduceIte]
          by_cases hpos : scmp c q > 0
          · simp only [hpos, ↓reduceIte]
            have hqc : scmp q c < 0 := (scmp_lt_iff_gt q c).mpr hpos
            have : q ∉ c :: L := by
              apply not_mem_of_all_gt
              intro s hs
              rcases List.mem_cons.mp hs with e | e
              · subst e; exact hqc
              · exact scmp_trans_lt hqc (hgt s e)
            simp [foundAt, idxOf?_of_not_mem this]
          · simp only [hpos, ↓reduceIte]
            have hneg : scmp c q < 0 := by omega
            have hne : c ≠ q := fun e => h0 (by rw [e, scmp_self])
            rw [ih c (i + 1) fuel' scanneable rest (scmp c q) hch.2 hL hc
              (by simp at hsc; omega) (by simp at hfuel; omega) hneg hneg]
            simp only [foundAt, idxOf?_cons_ne hne]
            cases L.idxOf? q <;> simp <;> omega
      · -- shares more with the previous string: same relation to the query
        have hgt' : lcp decoded q < lcp decoded c := by omega
        simp only [heq, ↓reduceIte]
        have hB := lcp_of_lcp_gt decoded c q hgt'
        have hneg : scmp c q < 0 := hB.2 hdq
        have h0 : ¬ cmp = 0 := by omega
        have hpos : ¬ cmp > 0 := by omega
        simp only [h0, hpos, ↓reduceIte]
        have hne : c ≠ q := fun e => by rw [e, scmp_self] at hneg; omega
        rw [← hB.1, ih c (i + 1) fuel' scanneable rest cmp hch.2 hL hc
          (by simp at hsc; omega) (by simp at hfuel; omega) hcmp hneg]
        simp only [foundAt, idxOf?_cons_ne hne]
        cases L.idxOf? q <;> simp <;> omega

end CSD.PFC
