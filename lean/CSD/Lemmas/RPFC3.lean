/-
  RPFC, part 3: `StringDictionaryRPFC::extract` over any grammar and symbol streams that store the
  front-coded dictionary returns the member with the given ID.
-/
import CSD.Lemmas.RPFC2
import CSD.Lemmas.PFCExtract
import CSD.Lemmas.Sorted

namespace CSD.RPFC
open CSD.RePair CSD.PFC

/-- What a member must satisfy so that `decodeString` can rebuild it on its predecessor: a two-byte
VByte (the known limit of RPFC, K11), a non-empty suffix and no byte equal to the terminator mark. -/
def Decodable (maxchar : Nat) (prev cur : Str) : Prop :=
  lcp prev cur < 16384 ∧ cur.drop (lcp prev cur) ≠ [] ∧ ∀ b ∈ cur, b.toNat ≠ maxchar

/-- Every string of a bucket is decodable on its predecessor. -/
def ChainOK (maxchar : Nat) : Str → List Str → Prop
  | _, [] => True
  | prev, cur :: rest => Decodable maxchar prev cur ∧ ChainOK maxchar cur rest

/-- `k` applications of `decodeString` from the header reach the `k`-th string of the bucket. -/
theorem decodeSteps_stores (d : D) : ∀ (L : List Str) (h : Str) (σ : List Nat) (k : Nat),
    StoresTail d.g d.maxchar h L σ → ChainOK d.maxchar h L → k ≤ L.length →
    ∃ r, decodeSteps d k h σ = some ((h :: L)[k]!, r)
  | L, h, σ, 0, _, _, _ => ⟨σ, by simp [decodeSteps]⟩
  | [], h, σ, k + 1, _, _, hk => by simp at hk
  | s :: L, h, _, k + 1, hst, hch, hk => by
    cases hst with
    | cons _ _ _ σ τ hexp hne htail =>
      obtain ⟨⟨h1, h2, h3⟩, hch'⟩ := hch
      obtain ⟨r, hr⟩ := decodeSteps_stores d L s τ k htail hch' (by simpa using hk)
      refine ⟨r, ?_⟩
      simp only [decodeSteps]
      rw [decodeString_spec d h s σ τ hexp hne h1 h2 h3]
      simp only
      rw [hr]
      simp

/-- The object stores the dictionary `S`: plain headers, one stream per bucket that stores the bucket's
other strings, the counters of the constructor. -/
structure Stores (S : List Str) (d : D) : Prop where
  b2 : 2 ≤ d.bucketsize
  elements : d.elements = S.length
  buckets : d.buckets = (chunks d.bucketsize S).length
  headers : d.headers = (chunks d.bucketsize S).map (·.headD [])
  nstreams : d.streams.length = (chunks d.bucketsize S).length
  streams : ∀ (k : Nat) (c : List Str) (σ : List Nat), (chunks d.bucketsize S)[k]? = some c → d.streams[k]? = some σ →
    StoresTail d.g d.maxchar (c.headD []) (c.drop 1) σ ∧ ChainOK d.maxchar (c.headD []) (c.drop 1)

/-- **Extraction is exact** for RPFC over any grammar that stores the dictionary: for every ID in
`[1, n]` the model of `StringDictionaryRPFC::extract` returns the string with that rank; no symbol is read
past the bucket's stream. -/
theorem extract_stores {S : List Str} {d : D} (hst : Stores S d) (i : Nat) (h1 : 1 ≤ i) (h2 : i ≤ S.length) :
    extract d i = some (S[i - 1]?) := by
  have hbpos : 0 < d.bucketsize := by have := hst.b2; omega
  have hb0 : d.bucketsize ≠ 0 := by omega
  unfold extract
  rw [hst.elements]
  have hcond : i > 0 ∧ i ≤ S.length := ⟨by omega, h2⟩
  simp only [hcond, and_self, ↓reduceIte]
  generalize hkdef : (i - 1) / d.bucketsize = k
  generalize hpdef : (i - 1) % d.bucketsize = pos
  have hdecomp : i - 1 = d.bucketsize * k + pos := by
    rw [← hkdef, ← hpdef]; exact (Nat.div_add_mod (i - 1) d.bucketsize).symm
  have hpos_lt : pos < d.bucketsize := by rw [← hpdef]; exact Nat.mod_lt _ hbpos
  have hk : k * d.bucketsize < S.length := by rw [Nat.mul_comm]; omega
  have hchunk := chunks_getElem? d.bucketsize hb0 S k hk
  have hklen : k < (chunks d.bucketsize S).length := (List.getElem?_eq_some_iff.mp hchunk).1
  obtain ⟨σ, hσ⟩ : ∃ σ, d.streams[k]? = some σ := by
    have : k < d.streams.length := by rw [hst.nstreams]; exact hklen
    exact ⟨d.streams[k], List.getElem?_eq_getElem this⟩
  have hhdr : header d (1 + k) = some (((S.drop (k * d.bucketsize)).take d.bucketsize).headD []) := by
    unfold header
    have : ¬ 1 + k = 0 := by omega
    simp only [this, ↓reduceIte, Nat.add_sub_cancel_left]
    rw [hst.headers, List.getElem?_map, hchunk]; rfl
  have hstr : stream d (1 + k) = some σ := by
    unfold stream
    have : ¬ 1 + k = 0 := by omega
    simp only [this, ↓reduceIte, Nat.add_sub_cancel_left, hσ]
  rw [hhdr, hstr]
  simp only
  obtain ⟨hstores, hchain⟩ := hst.streams k _ σ hchunk hσ
  -- the chunk is non-empty: h :: L
  have hchunk_len : ((S.drop (k * d.bucketsize)).take d.bucketsize).length = min d.bucketsize (S.length - k * d.bucketsize) := by
    simp
  cases hc : (S.drop (k * d.bucketsize)).take d.bucketsize with
  | nil => rw [hc] at hchunk_len; simp at hchunk_len; omega
  | cons h L =>
    rw [hc] at hstores hchain
    simp only [List.headD_cons, List.drop_succ_cons, List.drop_zero] at hstores hchain ⊢
    have hposL : pos ≤ L.length := by
      rw [hc] at hchunk_len
      simp only [List.length_cons] at hchunk_len
      have : k * d.bucketsize = d.bucketsize * k := Nat.mul_comm _ _
      omega
    obtain ⟨r, hr⟩ := decodeSteps_stores d L h σ pos hstores hchain hposL
    rw [hr]
    simp only
    have hlt : pos < (h :: L).length := by simp; omega
    have e1 : (h :: L)[pos]! = (h :: L)[pos] := by rw [getElem!_pos (h :: L) pos hlt]
    rw [e1]
    have e2 : (h :: L)[pos]? = S[i - 1]? := by
      rw [← hc, List.getElem?_take]
      simp only [hpos_lt, ↓reduceIte, List.getElem?_drop]
      congr 1
      rw [hdecomp, Nat.mul_comm]
    rw [← e2, List.getElem?_eq_getElem hlt]

/-- IDs outside `[1, n]` give NULL without touching the streams. -/
theorem extract_bad_id {S : List Str} {d : D} (hst : Stores S d) (i : Nat) (h : i = 0 ∨ i > S.length) :
    extract d i = some none := by
  unfold extract
  rw [hst.elements]
  have : ¬ (i > 0 ∧ i ≤ S.length) := by omega
  simp [this]

end CSD.RPFC
