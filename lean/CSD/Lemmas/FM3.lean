/-
  FM-index, part 3: `bsearch` (the backward search shared by `SSA::locate_id`,
  `locateP` and `locate`) is total on an index built from a suffix array and
  returns exactly the block of rows whose suffix starts with the pattern.
-/
import CSD.Lemmas.FM2

namespace CSD.FM

/-- Rows below the pattern. -/
def lo (L : List Row) (P : List Sym) : Nat := cntq L (ltP P)

/-- Rows whose suffix starts with the pattern (= occurrences of the pattern in the text). -/
def occs (L : List Row) (P : List Sym) : Nat := cntq L (preP P)

/-- What `build_index` guarantees about the query-time object. -/
structure Built (T : List Sym) (L : List Row) (ix : Index) : Prop where
  bwt : ix.bwt = L.map Row.bwt
  alpha : ∀ c, c < 256 → ix.alphabet[c]? = some (decide (c ∈ ix.bwt))
  occ : ∀ c, c ≠ 0 → c ∈ ix.bwt → ix.occ[c]? = some (occOf T c) ∧ ix.occ[c + 1]? = some (occOf T (c + 1))

/-- The specification of a backward-search result for the whole pattern. -/
def BSpec (L : List Row) (full : List Sym) : BS → Prop
  | .notInAlphabet => occs L full = 0
  | .range sp ep =>
    (sp ≤ ep ∧ sp = lo L full ∧ ep + 1 = lo L full + occs L full) ∨ (ep < sp ∧ occs L full = 0)

theorem nil_row_mem : ∀ (T : List Sym) (p : Option Sym), ∃ p', (p', []) ∈ rowsFrom p T
  | [], p => ⟨p, by simp [rowsFrom]⟩
  | x :: T, p => by
    obtain ⟨p', h⟩ := nil_row_mem T (some x)
    exact ⟨p', List.mem_cons_of_mem _ h⟩

theorem lo_pos {T : List Sym} {L : List Row} (hSA : IsSA T L) {P : List Sym} (hP : P ≠ []) : 1 ≤ lo L P := by
  obtain ⟨p', h⟩ := nil_row_mem T none
  have hm : (p', []) ∈ L := hSA.1.mem_iff.mpr h
  unfold lo cntq
  apply List.countP_pos_iff.mpr
  refine ⟨(p', []), hm, ?_⟩
  cases P with
  | nil => exact absurd rfl hP
  | cons x t => simp [ltP]

theorem hi_le_length (L : List Row) (P : List Sym) : lo L P + occs L P ≤ L.length := by
  unfold lo occs
  rw [← cntq_hiP]
  exact List.countP_le_length

theorem occOf_pos (T : List Sym) (c : Sym) : 1 ≤ occOf T c := by unfold occOf; omega

theorem bsLoop_spec {T : List Sym} {L : List Row} {ix : Index} (hSA : IsSA T L) (hB : Built T L ix) :
    ∀ (rest P : List Sym) (sp ep : Nat), (∀ c ∈ rest, c ≠ 0 ∧ c < 256) → P ≠ [] →
      sp = lo L P → ep + 1 = lo L P + occs L P →
      ∃ res, bsLoop ix rest sp ep = some res ∧ BSpec L (rest.reverse ++ P) res
  | [], P, sp, ep, _, _, hsp, hep => by
    refine ⟨.range sp ep, rfl, ?_⟩
    simp only [List.reverse_nil, List.nil_append, BSpec]
    by_cases h : sp ≤ ep
    · exact Or.inl ⟨h, hsp, hep⟩
    · exact Or.inr ⟨by omega, by omega⟩
  | c :: rest, P, sp, ep, hall, hP, hsp, hep => by
    have hfull : (c :: rest).reverse ++ P = rest.reverse ++ (c :: P) := by simp
    rw [hfull]
    have hc := hall c (List.mem_cons_self)
    unfold bsLoop
    by_cases h : sp ≤ ep
    · simp only [h, ↓reduceIte]
      rw [hB.alpha c hc.2]
      by_cases hmem : c ∈ ix.bwt
      · simp only [hmem, decide_true]
        obtain ⟨ho1, _⟩ := hB.occ c hc.1 hmem
        rw [ho1]
        have hlo := lo_pos hSA hP
        have hlen := hi_le_length L P
        have hbl : ix.bwt.length = L.length := by rw [hB.bwt, List.length_map]
        have h0 : ¬ sp = 0 := by omega
        have h1 : ¬ ix.bwt.length ≤ ep := by omega
        have h2 : ¬ occOf T c + cnt ix.bwt c (ep + 1) = 0 := by have := occOf_pos T c; omega
        simp only [h0, h1, h2, ↓reduceIte]
        apply bsLoop_spec hSA hB rest (c :: P) _ _ (fun x hx => hall x (List.mem_cons_of_mem _ hx)) (by simp)
        · unfold lo
          rw [step_lo hSA hc.1 P, cntq_ltP_single hSA, hB.bwt, hsp]
          rfl
        · have e1 : cntq L (hiP (c :: P)) = lo L (c :: P) + occs L (c :: P) := cntq_hiP L (c :: P)
          have e2 : cntq L (hiP P) = lo L P + occs L P := cntq_hiP L P
          rw [← e1, step_hi hSA hc.1 P, cntq_ltP_single hSA, hB.bwt, e2, ← hep]
          have := occOf_pos T c
          omega
      · simp only [hmem, decide_false]
        refine ⟨.notInAlphabet, rfl, ?_⟩
        simp only [BSpec, occs]
        apply no_occ_of_suffix hSA
        rw [hB.bwt] at hmem
        exact no_occ_of_not_mem_bwt hSA hmem hc.1 P
    · simp only [h, ↓reduceIte]
      refine ⟨.range sp ep, rfl, ?_⟩
      simp only [BSpec]
      refine Or.inr ⟨by omega, ?_⟩
      have : occs L P = 0 := by omega
      exact no_occ_of_suffix hSA rest.reverse (c :: P) (by
        have := no_occ_of_suffix hSA [c] P this
        simpa using this)

/-- The backward search is total and exact: for every non-empty pattern over `1 .. 255` the result is
the block `[lo, lo + occs)` of rows starting with the pattern, or reports that there is none. -/
theorem bsearch_spec {T : List Sym} {L : List Row} {ix : Index} (hSA : IsSA T L) (hB : Built T L ix)
    (pat : List Sym) (hne : pat ≠ []) (hall : ∀ c ∈ pat, c ≠ 0 ∧ c < 256) :
    ∃ res, bsearch ix pat = some res ∧ BSpec L pat res := by
  unfold bsearch
  rcases hrev : pat.reverse with _ | ⟨c, rest⟩
  · exact absurd (List.reverse_eq_nil_iff.mp hrev) hne
  · have hpat : pat = rest.reverse ++ [c] := by
      have := congrArg List.reverse hrev
      simpa using this
    have hc : c ≠ 0 ∧ c < 256 := hall c (by rw [hpat]; simp)
    have hrest : ∀ x ∈ rest, x ≠ 0 ∧ x < 256 := fun x hx => hall x (by rw [hpat]; simp [hx])
    simp only
    rw [hB.alpha c hc.2]
    by_cases hmem : c ∈ ix.bwt
    · simp only [hmem, decide_true]
      obtain ⟨ho1, ho2⟩ := hB.occ c hc.1 hmem
      rw [ho1, ho2]
      have hpos := occOf_pos T (c + 1)
      have h0 : ¬ occOf T (c + 1) = 0 := by omega
      simp only [h0, ↓reduceIte]
      rw [hpat]
      apply bsLoop_spec hSA hB rest [c] _ _ hrest (by simp)
      · unfold lo; rw [cntq_ltP_single hSA]
      · have e1 : cntq L (hiP [c]) = lo L [c] + occs L [c] := cntq_hiP L [c]
        rw [← e1, cntq_congr (hiP_single c), cntq_ltP_single hSA]
        omega
    · simp only [hmem, decide_false]
      refine ⟨.notInAlphabet, rfl, ?_⟩
      rw [hpat]
      simp only [BSpec, occs]
      apply no_occ_of_suffix hSA
      rw [hB.bwt] at hmem
      exact no_occ_of_not_mem_bwt hSA hmem hc.1 []

end CSD.FM
