import CSD.Lemmas.PFCScan
import CSD.Lemmas.Sorted

/-! Members with a given prefix are contiguous in a sorted dictionary. -/
namespace CSD
open CSD.PFC

theorem isPrefix_iff_lcp : ∀ (p s : Str), isPrefix p s = true ↔ lcp p s = p.length
  | [], s => by simp [isPrefix, lcp]
  | _ :: _, [] => by simp [isPrefix, lcp]
  | a :: p, b :: s => by
    by_cases h : a = b
    · subst h; simp [isPrefix, lcp, isPrefix_iff_lcp p s]
    · simp [isPrefix, lcp, h]

/-- Between two strings the middle one shares at least as much with the first. -/
theorem lcp_mono : ∀ (a b c : Str), scmp a b < 0 → scmp b c < 0 → lcp a c ≤ lcp a b
  | [], _, _, _, _ => by simp [lcp]
  | x :: as, b, [], _, h2 => by
    cases b with
    | nil => simp [scmp] at h2
    | cons y bs => simp [scmp] at h2; omega
  | x :: as, [], z :: cs, h1, _ => by simp [scmp] at h1; omega
  | x :: as, y :: bs, z :: cs, h1, h2 => by
    by_cases hxz : x = z
    · subst hxz
      by_cases hxy : x = y
      · subst hxy
        simp only [scmp, ↓reduceIte] at h1 h2
        have := lcp_mono as bs cs h1 h2
        simp only [lcp, ↓reduceIte]; omega
      · have hyx : ¬ y = x := fun h => hxy h.symm
        simp only [scmp, hxy, hyx, ↓reduceIte] at h1 h2
        omega
    · simp [lcp, hxz]

theorem lcp_ge_of_prefixes (p a c : Str) (ha : isPrefix p a = true) (hc : isPrefix p c = true) :
    p.length ≤ lcp a c := by
  have h1 := (isPrefix_iff_lcp p a).mp ha
  have h2 := (isPrefix_iff_lcp p c).mp hc
  have := min_lcp_le p a c
  rw [h1, h2] at this; simpa using this

theorem lcp_trans_ge (a b c : Str) : min (lcp a b) (lcp a c) ≤ lcp b c := min_lcp_le a b c

/-- **Contiguity**: in a strictly sorted dictionary the members that start with `p`
occupy consecutive positions — if `S[i]` and `S[k]` start with `p`, so does every
`S[j]` in between. Hence the IDs of a prefix search form one ascending range. -/
theorem prefix_contiguous {S : List Str} (hs : SortedLt S) (p : Str) (i j k : Nat)
    (hij : i < j) (hjk : j < k) (hk : k < S.length)
    (hi' : isPrefix p (S[i]'(by omega)) = true) (hk' : isPrefix p S[k] = true) :
    isPrefix p (S[j]'(by omega)) = true := by
  have hab := hs.getElem_lt hij (by omega : j < S.length)
  have hbc := hs.getElem_lt hjk hk
  have h1 : p.length ≤ lcp (S[i]'(by omega)) S[k] := lcp_ge_of_prefixes p _ _ hi' hk'
  have h2 := lcp_mono _ _ _ hab hbc
  -- S[j] shares |p| bytes with S[i], which shares |p| bytes with p
  have h3 : p.length ≤ lcp (S[i]'(by omega)) (S[j]'(by omega)) := by omega
  have h4 := (isPrefix_iff_lcp p _).mp hi'
  have h5 := min_lcp_le (S[i]'(by omega)) p (S[j]'(by omega))
  rw [lcp_comm (S[i]'(by omega)) p, h4] at h5
  rw [isPrefix_iff_lcp]
  have := lcp_le_left p (S[j]'(by omega))
  have hmin : p.length ≤ lcp p (S[j]'(by omega)) := by
    have : min p.length (lcp (S[i]'(by omega)) (S[j]'(by omega))) = p.length := by omega
    rw [this] at h5; exact h5
  omega

end CSD
