/-
  FM-index, part 19: `StringDictionaryFMINDEX::extractSubstr` yields exactly the members that contain the
  pattern, each once, in ID order (NULL when there is none), and its duplicate-skipping loop stops at the
  sentinel.
-/
import CSD.Lemmas.FM18

namespace CSD.FM
open CSD.PFC

/-- The IDs the iterator emits: repetitions of the ID just returned are skipped. -/
def dd : Option Nat → List Nat → List Nat
  | _, [] => []
  | prev, x :: l => if prev = some x then dd prev l else x :: dd (some x) l

theorem dedupAdj_cons_dd : ∀ (l : List Nat) (x : Nat), dedupAdj (x :: l) = x :: dd (some x) l
  | [], x => by simp [dedupAdj, dd]
  | y :: l, x => by
    by_cases h : x = y
    · subst h
      simp only [dedupAdj, ↓reduceIte, dd]
      exact dedupAdj_cons_dd l x
    · have h' : ¬ (some x = some y) := by simpa using h
      simp only [dedupAdj, h, ↓reduceIte, dd, h']
      rw [dedupAdj_cons_dd l y]

theorem dd_none : ∀ l : List Nat, dd none l = dedupAdj l
  | [] => by simp [dd, dedupAdj]
  | x :: l => by
    have : ¬ ((none : Option Nat) = some x) := by simp
    simp only [dd, this, ↓reduceIte]
    exact (dedupAdj_cons_dd l x).symm

theorem walkAll_length (ix : Index) : ∀ (js ids : List Nat), walkAll ix js = some ids → ids.length = js.length
  | [], ids, h => by simp [walkAll] at h; subst h; rfl
  | j :: js, ids, h => by
    simp only [walkAll] at h
    cases hw : walk ix (ix.bwt.length + 1) j with
    | none => rw [hw] at h; simp at h
    | some a =>
      cases hr : walkAll ix js with
      | none => rw [hw, hr] at h; simp at h
      | some l =>
        rw [hw, hr] at h
        simp only [Option.some.injEq] at h
        subst h
        simp [walkAll_length ix js l hr]

/-- An occurrence array is never empty (`num_occ > 0` exactly when there is one). -/
theorem locateOccs_ne (ix : Index) (pat : List Sym) (occs : List Nat) (h : locateOccs ix pat = some (some occs)) :
    occs ≠ [] := by
  unfold locateOccs at h
  split at h
  · cases h
  · cases hb : bsearch ix pat with
    | none => rw [hb] at h; cases h
    | some res =>
      rw [hb] at h
      cases res with
      | notInAlphabet => cases h
      | range sp ep =>
        simp only at h
        split at h
        · cases hw : walkAll ix ((List.range (ep - sp + 1)).map (sp + ·)) with
          | none => rw [hw] at h; cases h
          | some l =>
            rw [hw] at h
            simp only [Option.map_some, Option.some.injEq] at h
            subst h
            have := walkAll_length ix _ _ hw
            intro e
            rw [e] at this
            simp at this
        · cases h

theorem sortNat_ne (l : List Nat) (h : l ≠ []) : sortNat l ≠ [] := by
  cases l with
  | nil => exact absurd rfl h
  | cons x l =>
    intro e
    have : x ∈ sortNat (x :: l) := (mem_sortNat _ _).mpr (by simp)
    rw [e] at this
    cases this

theorem dedupAdj_ne : ∀ (l : List Nat), l ≠ [] → dedupAdj l ≠ []
  | [], h => absurd rfl h
  | x :: l, _ => by rw [dedupAdj_cons_dd]; simp

/-- `extract_id` of the row of a valid ID. -/
theorem extractId_member {S : List Str} {L : List Row} {d : Dict} (hv : validDict S = true) (hd : DictOK S L d)
    (hml : ∀ s ∈ S, s.length < d.maxlength) (i : Nat) (hi : i < S.length) :
    extractId d.ix (if i + 1 = d.elements then 2 else i + 1 + 3) d.maxlength = some (symsOf S[i]) := by
  have h := extract_spec hv hd hml i hi
  unfold Dict.extract at h
  have hid : i + 1 > 0 ∧ i + 1 ≤ d.elements := by rw [hd.elements]; omega
  simp only [hid, and_self, ↓reduceIte] at h
  cases he : extractId d.ix (if i + 1 = d.elements then 2 else i + 1 + 3) d.maxlength with
  | none => rw [he] at h; simp at h
  | some s =>
    rw [he] at h
    simp only [Option.map_some, Option.some.injEq] at h
    rw [h]

/-- The iterator drains to the strings of the distinct IDs of its array. -/
theorem drainIds_spec {S : List Str} {L : List Row} {d : Dict} (hv : validDict S = true) (hd : DictOK S L d)
    (hml : ∀ s ∈ S, s.length < d.maxlength) : ∀ (l : List Nat) (prev : Option Nat),
    (∀ x ∈ l, 1 ≤ x ∧ x ≤ S.length) →
    d.drainIds prev l = some ((dd prev l).map fun id => symsOf (S[id - 1]?.getD []))
  | [], prev, _ => by simp [Dict.drainIds, dd]
  | x :: l, prev, h => by
    obtain ⟨h1, h2⟩ := h x (by simp)
    have hl : ∀ y ∈ l, 1 ≤ y ∧ y ≤ S.length := fun y hy => h y (by simp [hy])
    have hx0 : ¬ x = 0 := by omega
    by_cases hp : prev = some x
    · simp only [Dict.drainIds, hx0, ↓reduceIte, hp, dd]
      have := drainIds_spec hv hd hml l (some x) hl
      exact this
    · simp only [Dict.drainIds, hx0, ↓reduceIte, hp, dd]
      have hi : x - 1 < S.length := by omega
      have he := extractId_member hv hd hml (x - 1) hi
      have e1 : x - 1 + 1 = x := by omega
      rw [e1] at he
      rw [he]
      simp only
      rw [drainIds_spec hv hd hml l (some x) hl]
      simp only [List.map_cons, Option.some.injEq, List.cons.injEq, and_true]
      rw [List.getElem?_eq_getElem hi]
      rfl

/-- **`extractSubstr` is exact**: NULL when no member contains the pattern; otherwise the strings of
`Spec.substrIds S p` — every member containing `p`, once, in ID order. -/
theorem extractSubstr_spec {S : List Str} {L : List Row} {d : Dict} (hv : validDict S = true) (hd : DictOK S L d)
    (hS : BuiltS (mkText S) L d.ix) (hml : ∀ s ∈ S, s.length < d.maxlength)
    (p : Str) (hp : p.all validByte = true) (hne : p ≠ []) :
    d.extractSubstr p =
      some (if Spec.substrIds S p = [] then none
            else some ((Spec.substrIds S p).map fun id => symsOf (S[id - 1]?.getD []))) := by
  have hloc := locateSubstr_spec hv hd hS p hp hne
  unfold Dict.locateSubstr at hloc
  unfold Dict.extractSubstr
  cases ho : locateOccs d.ix (symsOf p) with
  | none => rw [ho] at hloc; cases hloc
  | some r =>
    rw [ho] at hloc
    cases r with
    | none =>
      simp only [Option.some.injEq] at hloc
      simp [← hloc]
    | some occs =>
      simp only [Option.some.injEq] at hloc
      have hne' : Spec.substrIds S p ≠ [] := by
        rw [← hloc]
        exact dedupAdj_ne _ (sortNat_ne _ (locateOccs_ne _ _ _ ho))
      simp only [hne', ↓reduceIte]
      have hmem : ∀ x ∈ sortNat occs, 1 ≤ x ∧ x ≤ S.length := by
        intro x hx
        have h1 : x ∈ dedupAdj (sortNat occs) := by
          obtain ⟨_, h2, _⟩ := dedupAdj_spec (sortNat occs) (sorted_sortNat occs)
          exact (h2 x).mpr hx
        rw [hloc] at h1
        obtain ⟨i, hi, rfl, _⟩ := (mem_substrIds S p x).mp h1
        omega
      rw [drainIds_spec hv hd hml (sortNat occs) none hmem, dd_none, hloc]
      rfl

end CSD.FM
