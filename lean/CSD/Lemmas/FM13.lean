/-
  FM-index, part 13: the walk from any row whose suffix starts inside the `i`-th member returns `i + 1`.
-/
import CSD.Lemmas.FM12

namespace CSD.FM
open CSD.PFC

theorem mem_rows_of_suffix (X : List Sym) : ∀ (PRE : List Sym) (p : Option Sym),
    ∃ p', (p', X) ∈ rowsFrom p (PRE ++ X)
  | [], p => ⟨p, head_rowsFrom p X⟩
  | y :: PRE, p => by
    obtain ⟨p', h⟩ := mem_rows_of_suffix X PRE (some y)
    exact ⟨p', by simp only [List.cons_append, rowsFrom]; exact List.mem_cons_of_mem _ h⟩

theorem split_at_getElem (S : List Str) (j : Nat) (hj : j < S.length) :
    S = S.take j ++ S[j] :: S.drop (j + 1) := by
  rw [← List.drop_eq_getElem_cons hj, List.take_append_drop]

/-- The text in front of and from the separator that precedes member `j`. -/
theorem mkText_at (S : List Str) (j : Nat) (hj : j < S.length) :
    mkText S = textBefore (S.take j) ++ 1 :: body (S.drop j) := by
  conv => lhs; rw [split_at_getElem S j hj]
  rw [mkText_split, List.drop_eq_getElem_cons hj]
  simp [body]

/-- The separator in front of member `j` is at row `j + 3`. -/
theorem lo_sep {S : List Str} {L : List Row} (hv : validDict S = true) (hSA : IsSA (mkText S) L)
    (j : Nat) (hj : j < S.length) : lo L (1 :: body (S.drop j)) = j + 3 := by
  have hVS := validS_of_validDict hv
  have hsorted : SortedLt S := sortedLt_of_sortedStrict S (by
    simp only [validDict, Bool.and_eq_true] at hv; exact hv.2)
  have hnf := nulFree_of_validDict hv
  have hdrop : S.drop j = S[j] :: S.drop (j + 1) := List.drop_eq_getElem_cons hj
  have hb2 : Ge2 (symsOf S[j]) := hVS _ (List.getElem_mem hj)
  obtain ⟨c1, c2⟩ := counts_sorted S hsorted hnf j hj
  have hocc : occs L (patOf S[j]) = 1 := by rw [occs_pat hSA hVS hb2, c2]
  have hlo : lo L (patOf S[j]) = 3 + j := by rw [lo_pat hSA hVS hb2, c1]
  have hR0 : (1 :: body (S.drop j) : List Sym) = patOf S[j] ++ body (S.drop (j + 1)) := by
    rw [hdrop]; simp [body, patOf, List.append_assoc]
  obtain ⟨p', hp'⟩ := mem_rows_of_suffix (1 :: body (S.drop j)) (textBefore (S.take j)) none
  rw [← mkText_at S j hj] at hp'
  have hrow : (p', patOf S[j] ++ body (S.drop (j + 1))) ∈ L := by
    rw [← hR0]; exact hSA.1.mem_iff.mpr hp'
  rw [hR0, lo_append hSA hrow hocc, hlo]
  omega

theorem count_one_textBefore : ∀ (A : List Str), ValidS A → (textBefore A).count 1 = A.length
  | [], _ => rfl
  | a :: A, hv => by
    have ih := count_one_textBefore A (fun t ht => hv t (List.mem_cons_of_mem _ ht))
    have ha := count_one_ge2 (hv a List.mem_cons_self)
    simp only [textBefore, List.count_cons, List.count_append, ha, ih, beq_self_eq_true, ↓reduceIte,
      List.length_cons]
    omega

theorem countP_lt_one_body : ∀ (S : List Str), ValidS S → (body S).countP (· < 1) = 1
  | [], _ => by simp [body]
  | s :: rest, hv => by
    have ih := countP_lt_one_body rest (fun t ht => hv t (List.mem_cons_of_mem _ ht))
    have hs : (symsOf s).countP (· < 1) = 0 := by
      rw [List.countP_eq_zero]
      intro x hx
      have := hv s List.mem_cons_self x hx
      simp only [decide_eq_true_eq]; omega
    simp only [body]
    rw [List.countP_append, List.countP_cons, hs, ih]
    simp

theorem occOf_one {S : List Str} (hv : ValidS S) : occOf (mkText S) 1 = 2 := by
  unfold occOf mkText
  rw [List.countP_cons, countP_lt_one_body S hv]
  simp

/-- The walk from the row of `v ++ \1 …`, where `v` is a non-empty suffix of member `i`, returns `i + 1`. -/
theorem walk_member {S : List Str} {L : List Row} {d : Dict} (hv : validDict S = true) (hd : DictOK S L d)
    (hS : BuiltS (mkText S) L d.ix) (i : Nat) (hi : i < S.length) (u v : List Sym)
    (huv : symsOf S[i] = u ++ v) (hvne : v ≠ []) :
    walk d.ix (d.ix.bwt.length + 1) (lo L (v ++ 1 :: body (S.drop (i + 1)))) = some (i + 1) := by
  have hVS := validS_of_validDict hv
  have hs2 : Ge2 (symsOf S[i]) := hVS _ (List.getElem_mem hi)
  have hT : mkText S = textBefore (S.take i) ++ 1 :: (symsOf S[i] ++ 1 :: body (S.drop (i + 1))) := by
    rw [mkText_at S i hi, List.drop_eq_getElem_cons hi]; simp [body]
  have hcount : (textBefore (S.take i)).count 1 + 1 = i + 1 := by
    rw [count_one_textBefore _ (fun t ht => hVS t (List.mem_of_mem_take ht)), List.length_take]
    omega
  have hID : lo L (1 :: (symsOf S[i] ++ 1 :: body (S.drop (i + 1)))) = occOf (mkText S) 1 + (i + 1) := by
    have := lo_sep hv hd.sa i hi
    rw [List.drop_eq_getElem_cons hi] at this
    simp only [body] at this
    rw [this, occOf_one hVS]; omega
  have hbl := bwt_length hd.sa hd.built
  have hlen : u.length < d.ix.bwt.length + 1 := by
    have h1 : u.length ≤ (symsOf S[i]).length := by rw [huv]; simp
    have h2 : (symsOf S[i]).length ≤ (mkText S).length := by rw [hT]; simp; omega
    omega
  exact walk_spec hd.sa hd.built hS (symsOf S[i]) (1 :: body (S.drop (i + 1))) (textBefore (S.take i)) (i + 1)
    hT hs2 hcount hID u.reverse v (d.ix.bwt.length + 1) (by simp [huv]) hvne (by simpa using hlen)

end CSD.FM
