/-
  Range scans of a built PFC dictionary (`IteratorDictStringPFC` opened at any in-bucket offset, as
  `extractPrefix` does): the iterator over the ID range `[left, right]` drains to exactly the members
  with those IDs, in order; `extractPrefix` therefore yields exactly the members with the prefix.
-/
import CSD.Lemmas.PFCIter
import CSD.Lemmas.PFCPrefixD

namespace CSD.PFC
open CSD

/-! ### the `scanneable` field only decides where the scan stops -/

theorem next_scan (it : Iter) (m : Nat) :
    ({ it with scanneable := m } : Iter).next =
      it.next.map (fun p => (p.1, { p.2 with scanneable := m })) := by
  unfold Iter.next
  simp only
  split
  · cases readCStr it.ptr with
    | none => rfl
    | some p => rfl
  · cases decodeNext it.ptr it.cur with
    | none => rfl
    | some p => rfl

theorem next_fields (it it' : Iter) (s : Str) (h : it.next = some (s, it')) :
    it'.processed = it.processed + 1 ∧ it'.scanneable = it.scanneable := by
  unfold Iter.next at h
  split at h
  · cases hr : readCStr it.ptr with
    | none => rw [hr] at h; cases h
    | some p => rw [hr] at h; simp only [Option.some.injEq, Prod.mk.injEq] at h; rw [← h.2]; exact ⟨rfl, rfl⟩
  · cases hr : decodeNext it.ptr it.cur with
    | none => rw [hr] at h; cases h
    | some p => rw [hr] at h; simp only [Option.some.injEq, Prod.mk.injEq] at h; rw [← h.2]; exact ⟨rfl, rfl⟩

/-- Stopping earlier yields a prefix of the full scan. -/
theorem drain_scan : ∀ (f : Nat) (it : Iter) (l : List Str), Iter.drain f it = some l →
    ∀ m, it.processed ≤ m → m ≤ it.scanneable →
      Iter.drain f { it with scanneable := m } = some (l.take (m - it.processed))
  | 0, it, l, h, m, _, _ => by
    simp only [Iter.drain, Option.some.injEq] at h ⊢
    subst h; simp
  | f + 1, it, l, h, m, h1, h2 => by
    rw [Iter.drain] at h ⊢
    by_cases hm : it.processed < m
    · have hhas : it.hasNext = true := by simp [Iter.hasNext]; omega
      have hhas' : ({ it with scanneable := m } : Iter).hasNext = true := by simp [Iter.hasNext]; exact hm
      rw [hhas] at h
      rw [hhas', next_scan]
      simp only [↓reduceIte] at h ⊢
      cases hn : it.next with
      | none => rw [hn] at h; cases h
      | some p =>
        obtain ⟨s, it'⟩ := p
        rw [hn] at h
        simp only [Option.map_some] at h ⊢
        obtain ⟨hp, hs⟩ := next_fields it it' s hn
        cases hd : Iter.drain f it' with
        | none => rw [hd] at h; cases h
        | some l' =>
          rw [hd] at h
          simp only [Option.some.injEq] at h
          subst h
          rw [drain_scan f it' l' hd m (by omega) (by omega)]
          simp only [Option.some.injEq]
          rw [hp]
          have : m - it.processed = (m - (it.processed + 1)) + 1 := by omega
          rw [this, List.take_succ_cons]
    · have hhas' : ({ it with scanneable := m } : Iter).hasNext = false := by simp [Iter.hasNext]; omega
      rw [hhas']
      have : m - it.processed = 0 := by omega
      simp [this]

/-! ### the constructor's positioning -/

theorem encTail_append : ∀ (L1 L2 : List Str) (cur : Str),
    encTail cur (L1 ++ L2) = encTail cur L1 ++ encTail (lastOf cur L1) L2
  | [], L2, cur => by simp [encTail, lastOf]
  | s :: L1, L2, cur => by
    simp only [List.cons_append, encTail, lastOf, List.append_assoc]
    rw [encTail_append L1 L2 s]

theorem decodeSteps_all : ∀ (L : List Str) (h : Str) (rest : List UInt8), (∀ s ∈ L, nulFree s) →
    decodeSteps L.length (encTail h L ++ rest) h = some (lastOf h L, rest)
  | [], h, rest, _ => by simp [decodeSteps, encTail, lastOf]
  | s :: L, h, rest, hn => by
    have hs : nulFree s := hn s (by simp)
    simp only [List.length_cons, decodeSteps, encTail, List.append_assoc, lastOf]
    rw [decodeNext_encInternal h s hs]
    simp only
    exact decodeSteps_all L s rest (fun t ht => hn t (by simp [ht]))

/-! ### whole buckets, from the dictionary's own chunks -/

theorem chunks_drop (b : Nat) (hb : b ≠ 0) : ∀ (k : Nat) (S : List Str),
    (chunks b S).drop k = chunks b (S.drop (k * b))
  | 0, S => by simp
  | k + 1, S => by
    by_cases hS : S = []
    · subst hS; simp [chunks_nil]
    · rw [chunks_cons b S hb hS, List.drop_succ_cons, chunks_drop b hb k (S.drop b), List.drop_drop]
      congr 2
      rw [Nat.succ_mul]; omega

/-- Draining from a bucket boundary over the chunks of `S'` yields `S'`. -/
theorem drain_chunks (b : Nat) (hb : 2 ≤ b) (S' : List Str) (hS : ∀ s ∈ S', nulFree s) (pos : Nat) (cur : Str)
    (proc f : Nat) (hpos : S' = [] ∨ pos % b = 0) (hf : S'.length ≤ f) :
    Iter.drain f ⟨((chunks b S').map encBucket).flatten, pos, b, cur, proc, proc + S'.length⟩ = some S' := by
  have hbpos : 0 < b := by omega
  have hbne : b ≠ 0 := by omega
  rcases hpos with he | hpos
  · subst he
    cases f <;> simp [Iter.drain, Iter.hasNext]
  · have := drain_buckets b hb (chunks b S') [] pos cur proc (proc + S'.length) f hpos
      (by rw [chunks_flatten _ hbne]) (by rw [chunks_flatten _ hbne]; exact hf)
      (by
        intro c hc
        obtain ⟨i, hi, rfl⟩ := chunk_of_mem b hbpos S' c hc
        refine ⟨?_, ?_, ?_⟩
        · intro h
          have := congrArg List.length h
          simp at this; omega
        · simp; omega
        · intro s hs; exact hS s (List.mem_of_mem_drop (List.mem_of_mem_take hs)))
      (by
        intro i hi c hc
        have hlen := chunks_length b hbne S'
        have h1 : (i + 1) * b < S'.length := (lt_buckets_iff b S'.length (i + 1) hbpos).mp (by omega)
        have h0 : i * b < S'.length := by rw [Nat.succ_mul] at h1; omega
        rw [chunks_getElem? _ hbne S' i h0] at hc
        have := Option.some.inj hc
        rw [← this]
        rw [Nat.succ_mul] at h1
        simp; omega)
    rw [List.append_nil, chunks_flatten _ hbne] at this
    exact this

/-- The pointer of bucket `k + 1` points at the encodings of the chunks from `k` on. -/
theorem bucketPtr_build_all (b0 : Nat) (S : List Str) (k : Nat) (hk : k * clamp b0 < S.length) :
    bucketPtr (build b0 S) (k + 1) = some ((chunks (clamp b0) (S.drop (k * clamp b0))).map encBucket).flatten := by
  have hb : clamp b0 ≠ 0 := by have := clamp_ge_two b0; omega
  have hch := chunks_getElem? (clamp b0) hb S k hk
  have hklen : k < (chunks (clamp b0) S).length := by
    rcases Nat.lt_or_ge k (chunks (clamp b0) S).length with h | h
    · exact h
    · rw [List.getElem?_eq_none h] at hch; cases hch
  let encs := (chunks (clamp b0) S).map encBucket
  have hklen' : k < encs.length := by simpa [encs] using hklen
  unfold bucketPtr
  rw [build_bl, build_text]
  have hoff : (0 :: offsetsFrom 0 encs ++ [encs.flatten.length])[k + 1]?
      = some ((encs.take k).flatten.length) := by
    rw [List.cons_append, List.getElem?_cons_succ, List.getElem?_append_left
      (by rw [offsetsFrom_length]; exact hklen'), offsetsFrom_getElem? encs 0 k hklen']
    simp
  show (match (0 :: offsetsFrom 0 encs ++ [encs.flatten.length])[k + 1]? with
    | some off => if off ≤ encs.flatten.length then some (encs.flatten.drop off) else none
    | none => none) = _
  rw [hoff]
  have hle : (encs.take k).flatten.length ≤ encs.flatten.length := by
    have h := congrArg (fun l => (List.flatten l).length) (List.take_append_drop k encs)
    simp only [List.flatten_append, List.length_append] at h
    omega
  simp only [hle, ↓reduceIte]
  rw [drop_flatten_take]
  show some ((List.drop k ((chunks (clamp b0) S).map encBucket)).flatten) = _
  rw [← List.map_drop, chunks_drop _ hb]

/-- **Opening the iterator at any in-bucket offset and scanning to the end** yields the members from that
position on. -/
theorem open_drain (b : Nat) (hb : 2 ≤ b) (S' : List Str) (hS : ∀ s ∈ S', nulFree s) (offset : Nat)
    (ho : offset < min b S'.length) (f : Nat) (hf : S'.length ≤ f) :
    ∃ it, Iter.open ((chunks b S').map encBucket).flatten offset b (S'.length - offset) = some it ∧
      it.processed = 0 ∧ it.scanneable = S'.length - offset ∧ Iter.drain f it = some (S'.drop offset) := by
  have hbne : b ≠ 0 := by omega
  by_cases h0 : offset = 0
  · subst h0
    refine ⟨⟨((chunks b S').map encBucket).flatten, 0, b, [], 0, S'.length - 0⟩, by simp [Iter.open], rfl, rfl, ?_⟩
    have := drain_chunks b hb S' hS 0 [] 0 f (Or.inr (by simp)) hf
    simpa using this
  · have hne : S' ≠ [] := by intro e; subst e; simp at ho
    have hopos : offset > 0 := by omega
    rw [chunks_cons b S' hbne hne]
    cases hc : S'.take b with
    | nil =>
      have h' : (S'.take b).length = min b S'.length := by simp
      rw [hc] at h'
      simp only [List.length_nil] at h'
      omega
    | cons h L =>
      have hclen : (h :: L).length = min b S'.length := by rw [← hc]; simp
      simp only [List.length_cons] at hclen
      have hmem : ∀ s ∈ h :: L, nulFree s := by
        intro s hs; rw [← hc] at hs; exact hS s (List.mem_of_mem_take hs)
      have hh : nulFree h := hmem h (by simp)
      have hL : ∀ s ∈ L, nulFree s := fun s hs => hmem s (by simp [hs])
      -- split the bucket's tail at the offset
      have hsplit : L = L.take (offset - 1) ++ L.drop (offset - 1) := (List.take_append_drop _ _).symm
      generalize hL1 : L.take (offset - 1) = L1 at hsplit
      generalize hL2 : L.drop (offset - 1) = L2 at hsplit
      have hL1len : L1.length = offset - 1 := by rw [← hL1]; simp; omega
      have hL2len : L2.length = L.length - (offset - 1) := by rw [← hL2]; simp
      have hn1 : ∀ s ∈ L1, nulFree s := fun s hs => hL s (by rw [hsplit]; simp [hs])
      have hn2 : ∀ s ∈ L2, nulFree s := fun s hs => hL s (by rw [hsplit]; simp [hs])
      simp only [List.map_cons, List.flatten_cons, encBucket, List.append_assoc]
      have hopen : Iter.open (h ++ ([0] ++ (encTail h L ++ ((chunks b (S'.drop b)).map encBucket).flatten))) offset b
          (S'.length - offset) = some ⟨encTail (lastOf h L1) L2 ++ ((chunks b (S'.drop b)).map encBucket).flatten,
            offset, b, lastOf h L1, 0, S'.length - offset⟩ := by
        unfold Iter.open
        simp only [hopos, ↓reduceIte]
        simp only [List.singleton_append]
        rw [readCStr_append hh (encTail h L ++ ((chunks b (S'.drop b)).map encBucket).flatten)]
        simp only
        rw [hsplit, encTail_append, List.append_assoc, ← hL1len,
          decodeSteps_all L1 h _ hn1]
      refine ⟨_, hopen, rfl, rfl, ?_⟩
      -- the rest of the bucket, then the later buckets
      have hSlen : S'.length = (h :: L).length + (S'.drop b).length := by
        rw [← hc]; simp; omega
      simp only [List.length_cons] at hSlen
      obtain ⟨g, hg⟩ : ∃ g, f = L2.length + g := ⟨f - L2.length, by omega⟩
      rw [hg, drain_tail L2 _ offset b (lastOf h L1) 0 (S'.length - offset) g (by omega) (by omega) (by omega) hn2]
      have hscan : S'.length - offset = (0 + L2.length) + (S'.drop b).length := by
        simp only [List.length_drop] at hSlen ⊢; omega
      rw [hscan]
      rw [drain_chunks b hb (S'.drop b) (fun s hs => hS s (List.mem_of_mem_drop hs)) _ _ _ g
        (by
          by_cases hd : S'.drop b = []
          · exact Or.inl hd
          · right
            have : b < S'.length := by
              have := List.length_pos_iff.mpr hd
              simp only [List.length_drop] at this; omega
            have : offset + L2.length = b := by omega
            rw [this]; exact Nat.mod_self b)
        (by simp only [List.length_drop] at hSlen ⊢; omega)]
      simp only [Option.map_some, Option.some.injEq]
      -- S' = h :: L1 ++ L2 ++ drop b
      have hS' : S' = (h :: L1) ++ (L2 ++ S'.drop b) := by
        conv => lhs; rw [← List.take_append_drop b S', hc, hsplit]
        simp
      conv => rhs; rw [hS']
      have : offset = (h :: L1).length := by simp; omega
      rw [this, List.drop_left]

/-- **A range scan is exact**: the string iterator opened on the ID range `[left, right]` of a built
dictionary drains to exactly the members with those IDs, in order, with every read inside the text. -/
theorem scanRange_build (b0 : Nat) (S : List Str) (hS : ∀ s ∈ S, nulFree s) (left right : Nat)
    (h1 : 1 ≤ left) (h2 : left ≤ right) (h3 : right ≤ S.length) :
    scanRange (build b0 S) left right = some ((S.drop (left - 1)).take (right - left + 1)) := by
  have hb := clamp_ge_two b0
  have hbpos : 0 < clamp b0 := by omega
  unfold scanRange
  rw [build_bucketsize, build_elements]
  simp only
  generalize hk : (left - 1) / clamp b0 = k
  generalize ho : (left - 1) % clamp b0 = offset
  have hdecomp : left - 1 = clamp b0 * k + offset := by
    rw [← hk, ← ho]; exact (Nat.div_add_mod (left - 1) (clamp b0)).symm
  have holt : offset < clamp b0 := by rw [← ho]; exact Nat.mod_lt _ hbpos
  have hkb : k * clamp b0 < S.length := by rw [Nat.mul_comm]; omega
  rw [Nat.add_comm 1 k, bucketPtr_build_all b0 S k hkb]
  simp only
  have hS' : ∀ s ∈ S.drop (k * clamp b0), nulFree s := fun s hs => hS s (List.mem_of_mem_drop hs)
  have hlen' : (S.drop (k * clamp b0)).length = S.length - k * clamp b0 := by simp
  have hmul : k * clamp b0 = clamp b0 * k := Nat.mul_comm _ _
  obtain ⟨it, hopen, hp, hsc, hdrain⟩ := open_drain (clamp b0) hb (S.drop (k * clamp b0)) hS' offset
    (by rw [hlen']; omega) S.length (by rw [hlen']; omega)
  -- the iterator of the range differs from the one of the full scan in `scanneable` only
  have hopen' : Iter.open ((chunks (clamp b0) (S.drop (k * clamp b0))).map encBucket).flatten offset (clamp b0)
      (right - left + 1) = some { it with scanneable := right - left + 1 } := by
    unfold Iter.open at hopen ⊢
    split
    · rename_i hpos
      simp only [hpos, ↓reduceIte] at hopen
      cases hr : readCStr ((chunks (clamp b0) (S.drop (k * clamp b0))).map encBucket).flatten with
      | none => rw [hr] at hopen; cases hopen
      | some p =>
        rw [hr] at hopen
        simp only at hopen ⊢
        cases hd : decodeSteps (offset - 1) p.2 p.1 with
        | none => rw [hd] at hopen; cases hopen
        | some q =>
          rw [hd] at hopen
          simp only [Option.some.injEq] at hopen ⊢
          rw [← hopen]
    · rename_i hpos
      simp only [hpos, ↓reduceIte, Option.some.injEq] at hopen
      rw [← hopen]
  rw [hopen']
  simp only
  rw [drain_scan S.length it _ hdrain (right - left + 1) (by omega) (by rw [hsc, hlen']; omega), hp,
    List.drop_drop]
  simp only [Nat.sub_zero, Option.some.injEq]
  congr 2
  omega

/-! ### `extractPrefix` -/

theorem filter_range {α : Type} (p : α → Bool) : ∀ (S : List α) (lo hi : Nat), 1 ≤ lo → lo ≤ hi → hi ≤ S.length →
    (∀ i (h : i < S.length), (p S[i] = true ↔ lo ≤ i + 1 ∧ i + 1 ≤ hi)) →
    S.filter p = (S.drop (lo - 1)).take (hi - lo + 1)
  | [], lo, hi, h1, h2, h3, _ => by simp at h3; omega
  | x :: S, lo, hi, h1, h2, h3, h => by
    by_cases hlo : lo = 1
    · subst hlo
      have hx : p x = true := (h 0 (by simp)).mpr (by simp; omega)
      obtain ⟨hi', rfl⟩ : ∃ hi', hi = hi' + 1 := ⟨hi - 1, by omega⟩
      rw [List.filter_cons, if_pos hx]
      show _ = List.take (hi' + 1 - 1 + 1) (x :: S)
      rw [Nat.add_sub_cancel, List.take_succ_cons]
      congr 1
      by_cases hhi : hi' = 0
      · subst hhi
        rw [List.take_zero, List.filter_eq_nil_iff]
        intro a ha
        obtain ⟨i, hi2, rfl⟩ := List.mem_iff_getElem.mp ha
        have := h (i + 1) (by simp; omega)
        simp only [List.getElem_cons_succ] at this
        intro hp; have := this.mp hp; omega
      · have := filter_range p S 1 hi' (Nat.le_refl _) (by omega) (by simp at h3; omega)
          (by
            intro i hi2
            have := h (i + 1) (by simp; omega)
            simp only [List.getElem_cons_succ] at this
            rw [this]; omega)
        rw [this]
        show List.take (hi' - 1 + 1) (List.drop 0 S) = _
        rw [List.drop_zero]
        congr 1; omega
    · have hx : ¬ p x = true := by
        intro hp; have := (h 0 (by simp)).mp hp; omega
      simp only [List.filter_cons, hx, ↓reduceIte]
      have := filter_range p S (lo - 1) (hi - 1) (by omega) (by omega) (by simp at h3; omega)
        (by
          intro i hi'
          have := h (i + 1) (by simp; omega)
          simp only [List.getElem_cons_succ] at this
          rw [this]; omega)
      rw [this]
      have e1 : lo - 1 = (lo - 1 - 1) + 1 := by omega
      have e2 : hi - 1 - (lo - 1) + 1 = hi - lo + 1 := by omega
      conv => rhs; rw [e1, List.drop_succ_cons]
      rw [e2]
      simp

/-- **`extractPrefix` is exact** on every built dictionary: NULL when no member starts with the pattern,
otherwise exactly the members that start with it, in order. -/
theorem extractPrefix_build (b0 : Nat) (S : List Str) (q : Str) (hne : S ≠ []) (hS : ∀ s ∈ S, nulFree s)
    (hsort : SortedLt S) (hq : nulFree q) :
    extractPrefix (build b0 S) q =
      some (if S.filter (isPrefix q) = [] then none else some (S.filter (isPrefix q))) := by
  obtain ⟨lo, hi, hloc, hchar⟩ := locatePrefix_build b0 S q hne hS hsort hq
  unfold extractPrefix
  rw [hloc]
  simp only
  rcases hchar with ⟨rfl, rfl, hnone⟩ | ⟨h1, h2, h3, hiff⟩
  · have : S.filter (isPrefix q) = [] := by
      rw [List.filter_eq_nil_iff]
      intro a ha
      obtain ⟨i, hi', rfl⟩ := List.mem_iff_getElem.mp ha
      rw [hnone i hi']; simp
    simp [this]
  · have hl0 : ¬ lo = 0 := by omega
    simp only [hl0, ↓reduceIte]
    rw [scanRange_build b0 S hS lo hi h1 h2 h3]
    simp only
    have hf := filter_range (isPrefix q) S lo hi h1 h2 h3 hiff
    rw [← hf]
    have : S.filter (isPrefix q) ≠ [] := by
      intro e
      rw [List.filter_eq_nil_iff] at e
      have hlt : lo - 1 < S.length := by omega
      have := e S[lo - 1] (List.getElem_mem hlt)
      exact this ((hiff (lo - 1) hlt).mpr (by omega))
    simp [this]

end CSD.PFC
