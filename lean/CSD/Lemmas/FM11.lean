/-
  FM-index, part 11: `StringDictionaryFMINDEX::extract` returns the member with the given ID, and
  NULL for an ID outside `[1, n]`; with part 6 this gives both round trips.
-/
import CSD.Lemmas.FM10

namespace CSD.FM
open CSD.PFC

theorem length_rowsFrom : ∀ (T : List Sym) (p : Option Sym), (rowsFrom p T).length = T.length + 1
  | [], _ => rfl
  | _ :: T, _ => by simp [rowsFrom, length_rowsFrom T]

theorem bwt_length {T : List Sym} {L : List Row} {ix : Index} (hSA : IsSA T L) (hB : Built T L ix) :
    ix.bwt.length = T.length + 1 := by
  rw [hB.bwt, List.length_map, hSA.1.length_eq, rows, length_rowsFrom]

theorem ge2_reverse {l : List Sym} (h : Ge2 l) : Ge2 l.reverse := fun x hx => h x (List.mem_reverse.mp hx)

/-- The row of the separator that follows the member with index `i`. -/
theorem lo_after {S : List Str} {L : List Row} (hv : validDict S = true) (hSA : IsSA (mkText S) L)
    (i : Nat) (hi : i < S.length) :
    lo L (1 :: body (S.drop (i + 1))) = if i + 1 = S.length then 2 else i + 4 := by
  have hVS := validS_of_validDict hv
  have hsorted : SortedLt S := sortedLt_of_sortedStrict S (by
    simp only [validDict, Bool.and_eq_true] at hv; exact hv.2)
  have hnf := nulFree_of_validDict hv
  by_cases hlast : i + 1 = S.length
  · have : S.drop (i + 1) = [] := List.drop_eq_nil_of_le (by omega)
    rw [this]
    simp only [body, hlast, ↓reduceIte]
    exact lo_nil0 hSA hVS
  · have hj : i + 1 < S.length := by omega
    simp only [hlast, ↓reduceIte]
    have hdrop : S.drop (i + 1) = S[i + 1] :: S.drop (i + 2) := (List.drop_eq_getElem_cons hj)
    have hb2 : Ge2 (symsOf S[i + 1]) := hVS _ (List.getElem_mem hj)
    obtain ⟨c1, c2⟩ := counts_sorted S hsorted hnf (i + 1) hj
    have hocc : occs L (patOf S[i + 1]) = 1 := by rw [occs_pat hSA hVS hb2, c2]
    have hlo : lo L (patOf S[i + 1]) = 3 + (i + 1) := by rw [lo_pat hSA hVS hb2, c1]
    have hR0 : (1 :: body (S.drop (i + 1)) : List Sym) = patOf S[i + 1] ++ body (S.drop (i + 2)) := by
      rw [hdrop]; simp [body, patOf, List.append_assoc]
    -- the row of that suffix exists: the text splits in front of it
    have hsplit : mkText S = (textBefore (S.take i) ++ 1 :: symsOf S[i]) ++ 1 :: body (S.drop (i + 1)) := by
      have : S = S.take i ++ S[i] :: S.drop (i + 1) := by
        rw [← List.drop_eq_getElem_cons hi, List.take_append_drop]
      conv => lhs; rw [this]
      rw [mkText_split]
    have hmem : (some 1, body (S.drop (i + 1))) ∈ rows (mkText S) := by
      rw [rows, hsplit]; exact mem_rows_of_split 1 _ _ none
    obtain ⟨p', hp'⟩ := pred_row_rows hmem
    have hrow : (p', patOf S[i + 1] ++ body (S.drop (i + 2))) ∈ L := by
      rw [← hR0]; exact hSA.1.mem_iff.mpr hp'
    rw [hR0, lo_append hSA hrow hocc, hlo]
    omega

/-- `StringDictionaryFMINDEX::extract(i + 1)` is the `i`-th member (0-based `i`), every read in bounds,
the result buffer never overrun. -/
theorem extract_spec {S : List Str} {L : List Row} {d : Dict} (hv : validDict S = true) (hd : DictOK S L d)
    (hml : ∀ s ∈ S, s.length < d.maxlength) (i : Nat) (hi : i < S.length) :
    d.extract (i + 1) = some (some (symsOf S[i])) := by
  have hVS := validS_of_validDict hv
  have hs2 : Ge2 (symsOf S[i]) := hVS _ (List.getElem_mem hi)
  have hsplit : mkText S = textBefore (S.take i) ++ 1 :: (((symsOf S[i]).reverse).reverse ++ [] ++ (1 :: body (S.drop (i + 1)))) := by
    have : S = S.take i ++ S[i] :: S.drop (i + 1) := by
      rw [← List.drop_eq_getElem_cons hi, List.take_append_drop]
    conv => lhs; rw [this]
    rw [mkText_split]; simp
  have hlen : (mkText S).length ≥ (symsOf S[i]).length := by
    rw [hsplit]; simp; omega
  have hbl := bwt_length hd.sa hd.built
  have hmax : (symsOf S[i]).length < d.maxlength := by
    have := hml S[i] (List.getElem_mem hi)
    simpa [symsOf] using this
  have hloop := extractLoop_spec hd.sa hd.built d.maxlength (1 :: body (S.drop (i + 1)))
    (symsOf S[i]).reverse [] (textBefore (S.take i)) (d.ix.bwt.length + 1) hsplit (ge2_reverse hs2)
    (by simp only [List.length_reverse]; omega) (by simp only [List.length_reverse, List.length_nil]; omega)
  have hstart := lo_after hv hd.sa i hi
  unfold Dict.extract
  have hid : i + 1 > 0 ∧ i + 1 ≤ d.elements := by rw [hd.elements]; omega
  simp only [hid, and_self, ↓reduceIte]
  unfold extractId
  have hidx : (if i + 1 = d.elements then 2 else i + 1 + 3) = lo L ([] ++ (1 :: body (S.drop (i + 1)))) := by
    rw [List.nil_append, hstart, hd.elements]
  rw [hidx, hloop]
  simp

/-- IDs outside `[1, n]` give NULL without touching the index. -/
theorem extract_bad_id {S : List Str} {L : List Row} {d : Dict} (hd : DictOK S L d) (id : Nat)
    (h : id = 0 ∨ id > S.length) : d.extract id = some none := by
  unfold Dict.extract
  have : ¬ (id > 0 ∧ id ≤ d.elements) := by rw [hd.elements]; omega
  simp [this]

/-- The model's own `maxlength` bounds every member. -/
theorem maxlength_buildDict (S : List Str) (step : Nat) : ∀ s ∈ S, s.length < (buildDict S step).maxlength := by
  have key : ∀ (S : List Str) (m : Nat),
      (∀ s ∈ S, s.length < S.foldl (fun m s => if s.length ≥ m then s.length + 1 else m) m) ∧
      m ≤ S.foldl (fun m s => if s.length ≥ m then s.length + 1 else m) m := by
    intro S
    induction S with
    | nil => intro m; simp
    | cons a S ih =>
      intro m
      simp only [List.foldl_cons, List.mem_cons, forall_eq_or_imp]
      obtain ⟨h1, h2⟩ := ih (if a.length ≥ m then a.length + 1 else m)
      refine ⟨⟨?_, h1⟩, ?_⟩
      · by_cases h : a.length ≥ m <;> simp only [h, ↓reduceIte] at h2 ⊢ <;> omega
      · by_cases h : a.length ≥ m <;> simp only [h, ↓reduceIte] at h2 ⊢ <;> omega
  exact (key S 0).1

end CSD.FM
