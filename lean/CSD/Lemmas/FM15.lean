/-
  FM-index, part 15: `StringDictionaryFMINDEX::locateSubstr` yields exactly `Spec.substrIds`.
-/
import CSD.Lemmas.FM14
import CSD.Model.IdIter2

namespace CSD.FM
open CSD.PFC

/-! ### Sorting and removing adjacent repetitions -/

theorem mem_insertSorted (x y : Nat) : ∀ l : List Nat, y ∈ insertSorted x l ↔ y = x ∨ y ∈ l
  | [] => by simp [insertSorted]
  | z :: l => by
    unfold insertSorted
    by_cases h : x ≤ z
    · simp [h]
    · simp only [h, ↓reduceIte, List.mem_cons, mem_insertSorted x y l]
      constructor
      · rintro (h1 | h1 | h1) <;> simp [h1]
      · rintro (h1 | h1 | h1) <;> simp [h1]

theorem sorted_insertSorted (x : Nat) : ∀ l : List Nat, l.Pairwise (· ≤ ·) → (insertSorted x l).Pairwise (· ≤ ·)
  | [], _ => by simp [insertSorted]
  | z :: l, h => by
    have ⟨hz, hl⟩ := List.pairwise_cons.mp h
    unfold insertSorted
    by_cases hx : x ≤ z
    · simp only [hx, ↓reduceIte]
      rw [List.pairwise_cons]
      refine ⟨?_, h⟩
      intro a ha
      rcases List.mem_cons.mp ha with rfl | ha
      · exact hx
      · exact Nat.le_trans hx (hz a ha)
    · simp only [hx, ↓reduceIte, List.pairwise_cons]
      refine ⟨?_, sorted_insertSorted x l hl⟩
      intro a ha
      rcases (mem_insertSorted x a l).mp ha with rfl | ha
      · omega
      · exact hz a ha

theorem mem_sortNat (y : Nat) : ∀ l : List Nat, y ∈ sortNat l ↔ y ∈ l
  | [] => by simp [sortNat]
  | x :: l => by
    have ih := mem_sortNat y l
    simp only [sortNat, List.foldr_cons] at ih ⊢
    rw [mem_insertSorted, ih, List.mem_cons]

theorem sorted_sortNat : ∀ l : List Nat, (sortNat l).Pairwise (· ≤ ·)
  | [] => by simp [sortNat]
  | x :: l => by
    have ih := sorted_sortNat l
    simp only [sortNat, List.foldr_cons] at ih ⊢
    exact sorted_insertSorted x _ ih

theorem dedupAdj_spec : ∀ l : List Nat, l.Pairwise (· ≤ ·) →
    (dedupAdj l).Pairwise (· < ·) ∧ (∀ y, y ∈ dedupAdj l ↔ y ∈ l) ∧ (∀ x t, l = x :: t → ∃ t', dedupAdj l = x :: t')
  | [], _ => by simp [dedupAdj]
  | [x], _ => by simp [dedupAdj]
  | x :: y :: t, h => by
    have ⟨hx, hyt⟩ := List.pairwise_cons.mp h
    obtain ⟨ih1, ih2, ih3⟩ := dedupAdj_spec (y :: t) hyt
    obtain ⟨t', ht'⟩ := ih3 y t rfl
    unfold dedupAdj
    by_cases e : x = y
    · subst e
      simp only [↓reduceIte]
      refine ⟨ih1, ?_, ?_⟩
      · intro z; rw [ih2]; simp
      · intro a b hab
        simp only [List.cons.injEq] at hab
        exact ⟨t', by rw [← hab.1]; exact ht'⟩
    · simp only [e, ↓reduceIte]
      refine ⟨?_, ?_, ?_⟩
      · rw [List.pairwise_cons]
        refine ⟨?_, ih1⟩
        intro a ha
        have ha' := (ih2 a).mp ha
        have hle := hx a ha'
        rcases List.mem_cons.mp ha' with rfl | hat
        · omega
        · have hya : y ≤ a := (List.pairwise_cons.mp hyt).1 a hat
          have hxy : x ≤ y := hx y (by simp)
          omega
      · intro z
        simp only [List.mem_cons, ih2]
      · intro a b hab
        simp only [List.cons.injEq] at hab
        exact ⟨_, by rw [hab.1]⟩

theorem eq_of_sorted_same_mem : ∀ (a b : List Nat), a.Pairwise (· < ·) → b.Pairwise (· < ·) →
    (∀ x, x ∈ a ↔ x ∈ b) → a = b
  | [], [], _, _, _ => rfl
  | [], y :: b, _, _, h => by have := (h y).mpr (by simp); simp at this
  | x :: a, [], _, _, h => by have := (h x).mp (by simp); simp at this
  | x :: a, y :: b, ha, hb, h => by
    have ⟨hxa, ha'⟩ := List.pairwise_cons.mp ha
    have ⟨hyb, hb'⟩ := List.pairwise_cons.mp hb
    have hxy : x = y := by
      have h1 := (h x).mp (by simp)
      have h2 := (h y).mpr (by simp)
      rcases List.mem_cons.mp h1 with e | e
      · exact e
      · rcases List.mem_cons.mp h2 with e' | e'
        · exact e'.symm
        · have := hyb x e; have := hxa y e'; omega
    subst hxy
    congr 1
    apply eq_of_sorted_same_mem a b ha' hb'
    intro z
    constructor
    · intro hz
      have := (h z).mp (List.mem_cons_of_mem _ hz)
      rcases List.mem_cons.mp this with e | e
      · subst e; have := hxa z hz; omega
      · exact e
    · intro hz
      have := (h z).mpr (List.mem_cons_of_mem _ hz)
      rcases List.mem_cons.mp this with e | e
      · subst e; have := hyb z hz; omega
      · exact e

theorem dedup_sort_eq (ids l' : List Nat) (hl' : l'.Pairwise (· < ·)) (hmem : ∀ x, x ∈ ids ↔ x ∈ l') :
    dedupAdj (sortNat ids) = l' := by
  obtain ⟨h1, h2, _⟩ := dedupAdj_spec (sortNat ids) (sorted_sortNat ids)
  apply eq_of_sorted_same_mem _ _ h1 hl'
  intro x
  rw [h2, mem_sortNat, hmem]

theorem dedupAdj_eq_dups : ∀ l : List Nat, dedupAdj l = CSD.Dups.dedupAdj l
  | [] => rfl
  | [_] => rfl
  | x :: y :: t => by
    unfold dedupAdj CSD.Dups.dedupAdj
    rw [dedupAdj_eq_dups (y :: t)]

/-! ### The specification side -/

theorem isPrefix_iff_append : ∀ (p s : Str), isPrefix p s = true ↔ ∃ w, s = p ++ w
  | [], s => by simp [isPrefix]
  | _ :: _, [] => by simp [isPrefix]
  | x :: p, y :: s => by
    simp only [isPrefix, Bool.and_eq_true, beq_iff_eq, isPrefix_iff_append p s, List.cons_append, List.cons.injEq]
    constructor
    · rintro ⟨rfl, w, rfl⟩; exact ⟨w, rfl, rfl⟩
    · rintro ⟨w, rfl, rfl⟩; exact ⟨rfl, w, rfl⟩

theorem isSubstr_iff : ∀ (p s : Str), p ≠ [] → (isSubstr p s = true ↔ ∃ u w, s = u ++ p ++ w)
  | p, [], hp => by
    simp only [isSubstr, List.isEmpty_iff]
    constructor
    · intro h; exact absurd h hp
    · rintro ⟨u, w, h⟩
      have := congrArg List.length h
      simp at this
      have hl : p.length = 0 := by omega
      exact absurd (List.eq_nil_of_length_eq_zero hl) hp
  | p, c :: t, hp => by
    simp only [isSubstr, Bool.or_eq_true, isPrefix_iff_append, isSubstr_iff p t hp]
    constructor
    · rintro (⟨w, h⟩ | ⟨u, w, h⟩)
      · exact ⟨[], w, by simpa using h⟩
      · exact ⟨c :: u, w, by simp [h]⟩
    · rintro ⟨u, w, h⟩
      cases u with
      | nil => exact Or.inl ⟨w, by simpa using h⟩
      | cons c' u' =>
        simp only [List.cons_append, List.cons.injEq] at h
        exact Or.inr ⟨u', w, h.2⟩

theorem mem_substrIds_aux (p : Str) : ∀ (S : List Str) (k id : Nat),
    id ∈ (S.zipIdx k).filterMap (fun (x : Str × Nat) => if isSubstr p x.1 then some x.2 else none) ↔
      ∃ (i : Nat) (hi : i < S.length), id = k + i ∧ isSubstr p S[i] = true
  | [], k, id => by simp
  | a :: S, k, id => by
    simp only [List.zipIdx_cons, List.filterMap_cons]
    have ih := mem_substrIds_aux p S (k + 1) id
    by_cases ha : isSubstr p a = true
    · simp only [ha, ↓reduceIte, List.mem_cons, ih]
      constructor
      · rintro (rfl | ⟨i, hi, rfl, h⟩)
        · exact ⟨0, by simp, rfl, ha⟩
        · exact ⟨i + 1, by simpa using hi, by omega, by simpa using h⟩
      · rintro ⟨i, hi, rfl, h⟩
        cases i with
        | zero => exact Or.inl rfl
        | succ i => exact Or.inr ⟨i, by simpa using hi, by omega, by simpa using h⟩
    · have ha' : isSubstr p a = false := by cases h : isSubstr p a <;> simp_all
      simp only [ha', Bool.false_eq_true, ↓reduceIte, ih]
      constructor
      · rintro ⟨i, hi, rfl, h⟩
        exact ⟨i + 1, by simpa using hi, by omega, by simpa using h⟩
      · rintro ⟨i, hi, rfl, h⟩
        cases i with
        | zero => simp [ha'] at h
        | succ i => exact ⟨i, by simpa using hi, by omega, by simpa using h⟩

theorem mem_substrIds (S : List Str) (p : Str) (id : Nat) :
    id ∈ Spec.substrIds S p ↔ ∃ (i : Nat) (hi : i < S.length), id = i + 1 ∧ isSubstr p S[i] = true := by
  unfold Spec.substrIds
  rw [mem_substrIds_aux p S 1 id]
  constructor
  · rintro ⟨i, hi, rfl, h⟩; exact ⟨i, hi, by omega, h⟩
  · rintro ⟨i, hi, rfl, h⟩; exact ⟨i, hi, by omega, h⟩

theorem sorted_substrIds_aux (p : Str) : ∀ (S : List Str) (k : Nat),
    ((S.zipIdx k).filterMap (fun (x : Str × Nat) => if isSubstr p x.1 then some x.2 else none)).Pairwise (· < ·) ∧
    ∀ id ∈ (S.zipIdx k).filterMap (fun (x : Str × Nat) => if isSubstr p x.1 then some x.2 else none), k ≤ id
  | [], k => by simp
  | a :: S, k => by
    obtain ⟨ih1, ih2⟩ := sorted_substrIds_aux p S (k + 1)
    simp only [List.zipIdx_cons, List.filterMap_cons]
    by_cases ha : isSubstr p a = true
    · simp only [ha, ↓reduceIte, List.pairwise_cons, List.mem_cons]
      refine ⟨⟨fun id hid => by have := ih2 id hid; omega, ih1⟩, ?_⟩
      rintro id (rfl | hid)
      · omega
      · have := ih2 id hid; omega
    · have ha' : isSubstr p a = false := by cases h : isSubstr p a <;> simp_all
      simp only [ha', Bool.false_eq_true, ↓reduceIte]
      exact ⟨ih1, fun id hid => by have := ih2 id hid; omega⟩

theorem sorted_substrIds (S : List Str) (p : Str) : (Spec.substrIds S p).Pairwise (· < ·) :=
  (sorted_substrIds_aux p S 1).1

end CSD.FM
