/-
  RPFC, part 10: the string iterator (`IteratorDictStringRPFC`) over any grammar and streams that store
  the dictionary — table scan, range scans opened at any in-bucket offset, `extractPrefix`.
-/
import CSD.Lemmas.RPFC9
import CSD.Lemmas.PFCRange

namespace CSD.RPFC
open CSD.RePair CSD.PFC

/-! ### the `scanneable` field only decides where the scan stops -/

theorem iterNext_scan (d : D) (it : SIter) (m : Nat) :
    iterNext d { it with scanneable := m } =
      (iterNext d it).map (fun p => (p.1, { p.2 with scanneable := m })) := by
  unfold iterNext
  simp only
  split
  · split
    · rfl
    · cases header d it.nextBucket with
      | none => rfl
      | some h =>
        cases stream d it.nextBucket with
        | none => rfl
        | some σ => rfl
  · cases decodeString d it.cur it.st with
    | none => rfl
    | some p => rfl

theorem iterNext_fields (d : D) (it it' : SIter) (s : Str) (h : iterNext d it = some (s, it')) :
    it'.processed = it.processed + 1 ∧ it'.scanneable = it.scanneable := by
  unfold iterNext at h
  split at h
  · split at h
    · cases h
    · cases hh : header d it.nextBucket with
      | none => rw [hh] at h; cases h
      | some hd =>
        cases hs : stream d it.nextBucket with
        | none => rw [hh, hs] at h; cases h
        | some σ =>
          rw [hh, hs] at h
          simp only [Option.some.injEq, Prod.mk.injEq] at h
          rw [← h.2]; exact ⟨rfl, rfl⟩
  · cases hr : decodeString d it.cur it.st with
    | none => rw [hr] at h; cases h
    | some p =>
      rw [hr] at h
      simp only [Option.some.injEq, Prod.mk.injEq] at h
      rw [← h.2]; exact ⟨rfl, rfl⟩

theorem drain_scan (d : D) : ∀ (f : Nat) (it : SIter) (l : List Str), drain d f it = some l →
    ∀ m, it.processed ≤ m → m ≤ it.scanneable →
      drain d f { it with scanneable := m } = some (l.take (m - it.processed))
  | 0, it, l, h, m, _, _ => by
    simp only [drain, Option.some.injEq] at h ⊢
    subst h; simp
  | f + 1, it, l, h, m, h1, h2 => by
    rw [drain] at h ⊢
    by_cases hm : it.processed < m
    · have hhas : it.hasNext = true := by simp [SIter.hasNext]; omega
      have hhas' : ({ it with scanneable := m } : SIter).hasNext = true := by simp [SIter.hasNext]; exact hm
      rw [hhas] at h
      rw [hhas', iterNext_scan]
      simp only [↓reduceIte] at h ⊢
      cases hn : iterNext d it with
      | none => rw [hn] at h; cases h
      | some p =>
        obtain ⟨s, it'⟩ := p
        rw [hn] at h
        simp only [Option.map_some] at h ⊢
        obtain ⟨hp, hs⟩ := iterNext_fields d it it' s hn
        cases hd : drain d f it' with
        | none => rw [hd] at h; cases h
        | some l' =>
          rw [hd] at h
          simp only [Option.some.injEq] at h
          subst h
          rw [drain_scan d f it' l' hd m (by omega) (by omega)]
          simp only [Option.some.injEq]
          rw [hp]
          have : m - it.processed = (m - (it.processed + 1)) + 1 := by omega
          rw [this, List.take_succ_cons]
    · have hhas' : ({ it with scanneable := m } : SIter).hasNext = false := by simp [SIter.hasNext]; omega
      rw [hhas']
      have : m - it.processed = 0 := by omega
      simp [this]

/-! ### inside a bucket -/

/-- Draining the rest of a bucket. -/
theorem drain_tail (d : D) : ∀ (L : List Str) (cur : Str) (σ : List Nat) (nb pos proc scan f : Nat),
    StoresTail d.g d.maxchar cur L σ → ChainOK d.maxchar cur L →
    1 ≤ pos → pos + L.length ≤ d.bucketsize → proc + L.length ≤ scan →
    drain d (L.length + f) ⟨nb, pos, σ, cur, proc, scan⟩ =
      (drain d f ⟨nb, pos + L.length, [], lastOf cur L, proc + L.length, scan⟩).map (L ++ ·)
  | [], cur, σ, nb, pos, proc, scan, f, hst, _, _, _, _ => by
    cases hst
    simp only [List.length_nil, Nat.zero_add, Nat.add_zero, lastOf, List.nil_append]
    cases drain d f _ <;> simp
  | s :: L, cur, _, nb, pos, proc, scan, f, hst, hch, h1, h2, h3 => by
    cases hst with
    | cons _ _ _ σ τ hexp hne htail =>
      obtain ⟨⟨hd1, hd2, hd3⟩, hch'⟩ := hch
      simp only [List.length_cons] at h2 h3 ⊢
      have hfuel : L.length + 1 + f = (L.length + f) + 1 := by omega
      rw [hfuel, drain]
      have hhas : (⟨nb, pos, σ ++ τ, cur, proc, scan⟩ : SIter).hasNext = true := by
        simp [SIter.hasNext]; omega
      simp only [hhas, ↓reduceIte]
      have hmod : ¬ pos % d.bucketsize = 0 := by
        have : pos < d.bucketsize := by omega
        rw [Nat.mod_eq_of_lt this]; omega
      simp only [iterNext, hmod, ↓reduceIte]
      rw [decodeString_spec d cur s σ τ hexp hne hd1 hd2 hd3]
      simp only
      rw [drain_tail d L s τ nb (pos + 1) (proc + 1) scan f htail hch' (by omega) (by omega) (by omega)]
      simp only [lastOf]
      have e1 : pos + 1 + L.length = pos + (L.length + 1) := by omega
      have e2 : proc + 1 + L.length = proc + (L.length + 1) := by omega
      rw [e1, e2]
      cases drain d f _ <;> simp

/-- The constructor's positioning inside a bucket: after `L1.length` steps the stream stores the rest. -/
theorem decodeSteps_split (d : D) : ∀ (L1 L2 : List Str) (h : Str) (σ : List Nat),
    StoresTail d.g d.maxchar h (L1 ++ L2) σ → ChainOK d.maxchar h (L1 ++ L2) →
    ∃ σ2, decodeSteps d L1.length h σ = some (lastOf h L1, σ2) ∧
      StoresTail d.g d.maxchar (lastOf h L1) L2 σ2 ∧ ChainOK d.maxchar (lastOf h L1) L2
  | [], L2, h, σ, hst, hch => ⟨σ, by simp [decodeSteps, lastOf], hst, hch⟩
  | s :: L1, L2, h, _, hst, hch => by
    cases hst with
    | cons _ _ _ σ τ hexp hne htail =>
      obtain ⟨⟨hd1, hd2, hd3⟩, hch'⟩ := hch
      obtain ⟨σ2, h1, h2, h3⟩ := decodeSteps_split d L1 L2 s τ htail hch'
      refine ⟨σ2, ?_, h2, h3⟩
      simp only [List.length_cons, decodeSteps, lastOf]
      rw [decodeString_spec d h s σ τ hexp hne hd1 hd2 hd3]
      simp only
      exact h1

/-! ### across buckets -/

/-- The facts about bucket `k` (0-based) of a storing object. -/
theorem bucket_stores {S : List Str} {d : D} (hst : Stores S d) (k : Nat) (hk : k * d.bucketsize < S.length) :
    ∃ h L σ, (S.drop (k * d.bucketsize)).take d.bucketsize = h :: L ∧ header d (k + 1) = some h ∧
      stream d (k + 1) = some σ ∧ StoresTail d.g d.maxchar h L σ ∧ ChainOK d.maxchar h L := by
  have hb0 : d.bucketsize ≠ 0 := by have := hst.b2; omega
  have hchunk := chunks_getElem? d.bucketsize hb0 S k hk
  have hklen : k < (chunks d.bucketsize S).length := (List.getElem?_eq_some_iff.mp hchunk).1
  obtain ⟨σ, hσ⟩ : ∃ σ, d.streams[k]? = some σ := by
    have : k < d.streams.length := by rw [hst.nstreams]; exact hklen
    exact ⟨d.streams[k], List.getElem?_eq_getElem this⟩
  obtain ⟨hstores, hchain⟩ := hst.streams k _ σ hchunk hσ
  cases hc : (S.drop (k * d.bucketsize)).take d.bucketsize with
  | nil =>
    have h' : ((S.drop (k * d.bucketsize)).take d.bucketsize).length = min d.bucketsize (S.length - k * d.bucketsize) := by simp
    rw [hc] at h'
    simp only [List.length_nil] at h'
    have := hst.b2
    omega
  | cons h L =>
    rw [hc] at hstores hchain
    simp only [List.headD_cons, List.drop_succ_cons, List.drop_zero] at hstores hchain
    refine ⟨h, L, σ, rfl, ?_, ?_, hstores, hchain⟩
    · unfold header
      simp only [Nat.add_one_ne_zero, ↓reduceIte, Nat.add_sub_cancel]
      rw [hst.headers, List.getElem?_map, hchunk, hc]; rfl
    · unfold stream
      simp only [Nat.add_one_ne_zero, ↓reduceIte, Nat.add_sub_cancel, hσ]

/-- Draining from a bucket boundary: everything from bucket `k` on. -/
theorem drain_buckets {S : List Str} {d : D} (hst : Stores S d) : ∀ (n k pos : Nat) (cur : Str) (proc f : Nat),
    S.length - k * d.bucketsize = n → (S.length ≤ k * d.bucketsize ∨ pos % d.bucketsize = 0) →
    (S.drop (k * d.bucketsize)).length ≤ f →
    drain d f ⟨k + 1, pos, [], cur, proc, proc + (S.drop (k * d.bucketsize)).length⟩ = some (S.drop (k * d.bucketsize)) := by
  intro n
  induction n using Nat.strongRecOn with
  | _ n ih =>
    intro k pos cur proc f hn hpos hf
    have hb := hst.b2
    by_cases hend : S.length ≤ k * d.bucketsize
    · have : S.drop (k * d.bucketsize) = [] := List.drop_eq_nil_of_le hend
      rw [this]
      cases f <;> simp [drain, SIter.hasNext]
    · have hk : k * d.bucketsize < S.length := by omega
      have hpos' : pos % d.bucketsize = 0 := by
        rcases hpos with h | h
        · omega
        · exact h
      obtain ⟨h, L, σ, hc, hhdr, hstr, hstores, hchain⟩ := bucket_stores hst k hk
      have hclen : (h :: L).length = min d.bucketsize (S.length - k * d.bucketsize) := by rw [← hc]; simp
      simp only [List.length_cons] at hclen
      have hdrop : S.drop (k * d.bucketsize) = (h :: L) ++ S.drop ((k + 1) * d.bucketsize) := by
        conv => lhs; rw [← List.take_append_drop d.bucketsize (S.drop (k * d.bucketsize)), hc]
        rw [List.drop_drop, Nat.succ_mul]
      have hlen1 : (S.drop (k * d.bucketsize)).length = S.length - k * d.bucketsize := by simp
      have hlen2 : (S.drop ((k + 1) * d.bucketsize)).length = S.length - (k + 1) * d.bucketsize := by simp
      have hsm : (k + 1) * d.bucketsize = k * d.bucketsize + d.bucketsize := Nat.succ_mul _ _
      obtain ⟨g, hg⟩ : ∃ g, f = (L.length + g) + 1 := ⟨f - (L.length + 1), by omega⟩
      subst hg
      rw [drain]
      have hhas : (⟨k + 1, pos, [], cur, proc, proc + (S.drop (k * d.bucketsize)).length⟩ : SIter).hasNext = true := by
        simp only [SIter.hasNext, decide_eq_true_eq]; omega
      simp only [hhas, ↓reduceIte]
      simp only [iterNext, hpos', ↓reduceIte, ne_eq, not_true_eq_false, hhdr, hstr]
      rw [drain_tail d L h σ (k + 1 + 1) 1 (proc + 1) _ g hstores hchain (Nat.le_refl _) (by omega) (by omega)]
      have hscan : proc + (S.drop (k * d.bucketsize)).length
          = (proc + 1 + L.length) + (S.drop ((k + 1) * d.bucketsize)).length := by omega
      rw [hscan]
      rw [ih (S.length - (k + 1) * d.bucketsize) (by omega) (k + 1) (1 + L.length) (lastOf h L) (proc + 1 + L.length) g rfl
        (by
          by_cases hd : S.length ≤ (k + 1) * d.bucketsize
          · exact Or.inl hd
          · right
            have : 1 + L.length = d.bucketsize := by omega
            rw [this]; exact Nat.mod_self _)
        (by omega)]
      simp only [Option.map_some, Option.some.injEq]
      rw [hdrop]
      simp

/-- **Opening the iterator at any in-bucket offset and scanning to the end.** -/
theorem open_drain {S : List Str} {d : D} (hst : Stores S d) (k offset : Nat) (hk : k * d.bucketsize < S.length)
    (ho : offset < min d.bucketsize (S.length - k * d.bucketsize)) (f : Nat) (hf : S.length ≤ f) :
    ∃ it, iterOpen d (k + 1) offset (S.length - (k * d.bucketsize + offset)) = some it ∧
      it.processed = 0 ∧ it.scanneable = S.length - (k * d.bucketsize + offset) ∧
      drain d f it = some (S.drop (k * d.bucketsize + offset)) := by
  have hb := hst.b2
  have hlen1 : (S.drop (k * d.bucketsize)).length = S.length - k * d.bucketsize := by simp
  by_cases h0 : offset = 0
  · subst h0
    refine ⟨⟨k + 1, 0, [], [], 0, S.length - (k * d.bucketsize + 0)⟩, by simp [iterOpen], rfl, rfl, ?_⟩
    have := drain_buckets hst _ k 0 [] 0 f rfl (Or.inr (by simp)) (by omega)
    simpa using this
  · have hopos : offset > 0 := by omega
    obtain ⟨h, L, σ, hc, hhdr, hstr, hstores, hchain⟩ := bucket_stores hst k hk
    have hclen : (h :: L).length = min d.bucketsize (S.length - k * d.bucketsize) := by rw [← hc]; simp
    simp only [List.length_cons] at hclen
    have hsplit : L = L.take (offset - 1) ++ L.drop (offset - 1) := (List.take_append_drop _ _).symm
    generalize hL1 : L.take (offset - 1) = L1 at hsplit
    generalize hL2 : L.drop (offset - 1) = L2 at hsplit
    have hL1len : L1.length = offset - 1 := by rw [← hL1]; simp; omega
    have hL2len : L2.length = L.length - (offset - 1) := by rw [← hL2]; simp
    rw [hsplit] at hstores hchain
    obtain ⟨σ2, hdec, hst2, hch2⟩ := decodeSteps_split d L1 L2 h σ hstores hchain
    have hopen : iterOpen d (k + 1) offset (S.length - (k * d.bucketsize + offset)) =
        some ⟨k + 1 + 1, offset, σ2, lastOf h L1, 0, S.length - (k * d.bucketsize + offset)⟩ := by
      unfold iterOpen
      simp only [hopos, ↓reduceIte, hhdr, hstr]
      rw [← hL1len, hdec]
    refine ⟨_, hopen, rfl, rfl, ?_⟩
    have hdrop : S.drop (k * d.bucketsize) = (h :: L) ++ S.drop ((k + 1) * d.bucketsize) := by
      conv => lhs; rw [← List.take_append_drop d.bucketsize (S.drop (k * d.bucketsize)), hc]
      rw [List.drop_drop, Nat.succ_mul]
    have hlen2 : (S.drop ((k + 1) * d.bucketsize)).length = S.length - (k + 1) * d.bucketsize := by simp
    have hsm : (k + 1) * d.bucketsize = k * d.bucketsize + d.bucketsize := Nat.succ_mul _ _
    have hLlen : L.length = L1.length + L2.length := by rw [hsplit]; simp
    obtain ⟨g, hg⟩ : ∃ g, f = L2.length + g := ⟨f - L2.length, by omega⟩
    rw [hg, drain_tail d L2 (lastOf h L1) σ2 (k + 1 + 1) offset 0 _ g hst2 hch2 (by omega) (by omega) (by omega)]
    have hscan : S.length - (k * d.bucketsize + offset)
        = (0 + L2.length) + (S.drop ((k + 1) * d.bucketsize)).length := by omega
    rw [hscan]
    rw [drain_buckets hst _ (k + 1) (offset + L2.length) _ (0 + L2.length) g rfl
      (by
        by_cases hd : S.length ≤ (k + 1) * d.bucketsize
        · exact Or.inl hd
        · right
          have : offset + L2.length = d.bucketsize := by omega
          rw [this]; exact Nat.mod_self _)
      (by omega)]
    simp only [Option.map_some, Option.some.injEq]
    rw [← List.drop_drop, hdrop]
    have hS' : (h :: L) ++ S.drop ((k + 1) * d.bucketsize) = (h :: L1) ++ (L2 ++ S.drop ((k + 1) * d.bucketsize)) := by
      rw [hsplit]; simp
    rw [hS']
    have : offset = (h :: L1).length := by simp; omega
    rw [this, List.drop_left]

/-- **A range scan is exact** over any grammar and streams that store the dictionary. -/
theorem scanRange_stores {S : List Str} {d : D} (hst : Stores S d) (left right : Nat)
    (h1 : 1 ≤ left) (h2 : left ≤ right) (h3 : right ≤ S.length) :
    scanRange d left right = some ((S.drop (left - 1)).take (right - left + 1)) := by
  have hb := hst.b2
  have hbpos : 0 < d.bucketsize := by omega
  unfold scanRange
  rw [hst.elements]
  generalize hk : (left - 1) / d.bucketsize = k
  generalize ho : (left - 1) % d.bucketsize = offset
  have hdecomp : left - 1 = d.bucketsize * k + offset := by
    rw [← hk, ← ho]; exact (Nat.div_add_mod (left - 1) d.bucketsize).symm
  have holt : offset < d.bucketsize := by rw [← ho]; exact Nat.mod_lt _ hbpos
  have hmul : k * d.bucketsize = d.bucketsize * k := Nat.mul_comm _ _
  have hkb : k * d.bucketsize < S.length := by omega
  obtain ⟨it, hopen, hp, hsc, hdrain⟩ := open_drain hst k offset hkb (by omega) S.length (Nat.le_refl _)
  have hopen' : iterOpen d (1 + k) offset (right - left + 1) = some { it with scanneable := right - left + 1 } := by
    rw [Nat.add_comm 1 k]
    unfold iterOpen at hopen ⊢
    split
    · rename_i hpos
      simp only [hpos, ↓reduceIte] at hopen
      cases hh : header d (k + 1) with
      | none => rw [hh] at hopen; cases hopen
      | some hd =>
        cases hs : stream d (k + 1) with
        | none => rw [hh, hs] at hopen; cases hopen
        | some σ =>
          rw [hh, hs] at hopen
          simp only at hopen ⊢
          cases hd2 : decodeSteps d (offset - 1) hd σ with
          | none => rw [hd2] at hopen; cases hopen
          | some q =>
            rw [hd2] at hopen
            simp only [Option.some.injEq] at hopen ⊢
            rw [← hopen]
    · rename_i hpos
      simp only [hpos, ↓reduceIte, Option.some.injEq] at hopen
      rw [← hopen]
  rw [hopen']
  simp only
  rw [drain_scan d S.length it _ hdrain (right - left + 1) (by omega) (by rw [hsc]; omega), hp]
  simp only [Nat.sub_zero, Option.some.injEq]
  congr 2
  omega

/-- **The table scan is exact.** -/
theorem extractTable_stores {S : List Str} {d : D} (hst : Stores S d) (hne : S ≠ []) :
    extractTable d = some S := by
  have hn : 0 < S.length := List.length_pos_iff.mpr hne
  have := scanRange_stores hst 1 S.length (Nat.le_refl _) hn (Nat.le_refl _)
  unfold scanRange at this
  unfold extractTable
  have hb := hst.b2
  have e1 : (1 - 1) / d.bucketsize = 0 := by simp
  have e2 : (1 - 1) % d.bucketsize = 0 := by simp
  rw [e1, e2, hst.elements] at this
  rw [hst.elements]
  have e3 : S.length - 1 + 1 = S.length := by omega
  rw [e3] at this
  rw [this]
  simp

/-- **`extractPrefix` is exact** over any grammar and streams that store the dictionary. -/
theorem extractPrefix_stores {S : List Str} {d : D} (hst : Stores S d) (hne : S ≠ []) (hS : ∀ s ∈ S, nulFree s)
    (hsort : SortedLt S) (q : Str) (hq : nulFree q) :
    extractPrefix d q = some (if S.filter (isPrefix q) = [] then none else some (S.filter (isPrefix q))) := by
  obtain ⟨lo, hi, hloc, hchar⟩ := locatePrefix_stores hst hne hS hsort q hq
  unfold extractPrefix
  rw [hloc]
  simp only
  rcases hchar with ⟨rfl, rfl, hnone⟩ | ⟨h1, h2, h3, hiff⟩
  · have : S.filter (isPrefix q) = [] := by
      rw [List.filter_eq_nil_iff]
      intro a ha
      obtain ⟨i, hi', rfl⟩ := List.mem_iff_getElem.mp ha
      rw [hnone i hi']; simp
    simp [this]
  · have hl0 : ¬ lo = 0 := by omega
    simp only [hl0, ↓reduceIte]
    rw [scanRange_stores hst lo hi h1 h2 h3]
    simp only
    have hf := filter_range (isPrefix q) S lo hi h1 h2 h3 hiff
    rw [← hf]
    have : S.filter (isPrefix q) ≠ [] := by
      intro e
      rw [List.filter_eq_nil_iff] at e
      have hlt : lo - 1 < S.length := by omega
      have := e S[lo - 1] (List.getElem_mem hlt)
      exact this ((hiff (lo - 1) hlt).mpr (by omega))
    simp [this]

end CSD.RPFC
