/-
  FM-index, part 10: `SSA::extract_id` / `StringDictionaryFMINDEX::extract`.  Starting at the
  row of the separator that follows the string, the LF walk collects the string backwards and
  stops at the separator in front of it.
-/
import CSD.Lemmas.FM9

namespace CSD.FM
open CSD.PFC

/-! ### The text around one member -/

/-- Everything in front of the separator that precedes the member after `A`. -/
def textBefore : List Str → List Sym
  | [] => []
  | a :: A => 1 :: symsOf a ++ textBefore A

theorem mkText_split : ∀ (A : List Str) (s : Str) (B : List Str),
    mkText (A ++ s :: B) = textBefore A ++ 1 :: symsOf s ++ 1 :: body B
  | [], s, B => by simp [mkText, body, textBefore]
  | a :: A, s, B => by
    have ih := mkText_split A s B
    simp only [mkText, List.cons_append, body, textBefore] at ih ⊢
    rw [ih]
    simp [List.append_assoc]

theorem head_rowsFrom (p : Option Sym) (X : List Sym) : (p, X) ∈ rowsFrom p X := by
  cases X <;> simp [rowsFrom]

theorem mem_rows_of_split (c : Sym) (sfx : List Sym) : ∀ (PRE : List Sym) (p : Option Sym),
    (some c, sfx) ∈ rowsFrom p (PRE ++ c :: sfx)
  | [], p => by
    simp only [List.nil_append, rowsFrom, List.mem_cons]
    exact Or.inr (head_rowsFrom (some c) sfx)
  | y :: PRE, p => by
    simp only [List.cons_append, rowsFrom, List.mem_cons]
    exact Or.inr (mem_rows_of_split c sfx PRE (some y))

/-! ### Rows of suffixes that extend a pattern occurring once -/

theorem lt_append_of_lt : ∀ (t P y : List Sym), t < P → t < P ++ y
  | _, [], _, h => absurd h (List.not_lt_nil _)
  | [], p :: P, y, _ => by simp
  | x :: t, p :: P, y, h => by
    simp only [List.cons_append, List.cons_lt_cons_iff] at h ⊢
    rcases h with h | ⟨h1, h2⟩
    · exact Or.inl h
    · exact Or.inr ⟨h1, lt_append_of_lt t P y h2⟩

theorem lo_append {T : List Sym} {L : List Row} (_hSA : IsSA T L) {p' : Option Sym} {P y : List Sym}
    (hrow : (p', P ++ y) ∈ L) (hocc : occs L P = 1) : lo L (P ++ y) = lo L P := by
  unfold lo cntq
  have hsplit : L.countP (fun r => ltP (P ++ y) r.2)
      = L.countP (fun r => ltP P r.2) + L.countP (fun r => preP P r.2 && ltP (P ++ y) r.2) := by
    rw [← countP_or_disjoint (fun r : Row => ltP P r.2) (fun r : Row => preP P r.2 && ltP (P ++ y) r.2)]
    · apply List.countP_congr
      intro r _
      have e1 : ltP (P ++ y) r.2 = true ↔ r.2 < P ++ y := by simp [ltP]
      have e2 : ltP P r.2 = true ↔ r.2 < P := by simp [ltP]
      simp only [Bool.or_eq_true, Bool.and_eq_true, e1, e2, preP]
      constructor
      · intro h
        rcases lt_append_cases P r.2 y h with h' | h'
        · exact Or.inl h'
        · exact Or.inr ⟨h', h⟩
      · rintro (h | ⟨_, h⟩)
        · exact lt_append_of_lt _ _ _ h
        · exact h
    · rintro r ⟨h1, h2⟩
      simp only [ltP, preP, decide_eq_true_eq, Bool.and_eq_true] at h1 h2
      obtain ⟨z, hz⟩ := isPrefixOf_iff.mp h2.1
      rw [hz] at h1
      exact not_lt_of_prefix P z h1
  rw [hsplit]
  -- the only row starting with P is the row of P ++ y itself, which is not below itself
  have hsum : L.countP (fun r => preP P r.2) =
      L.countP (fun r => preP P r.2 && ltP (P ++ y) r.2) + L.countP (fun r => preP P r.2 && !ltP (P ++ y) r.2) := by
    rw [← countP_or_disjoint]
    · apply List.countP_congr
      intro r _
      cases preP P r.2 <;> cases ltP (P ++ y) r.2 <;> rfl
    · rintro r ⟨h1, h2⟩
      simp only [Bool.and_eq_true, Bool.not_eq_true'] at h1 h2
      rw [h1.2] at h2
      exact absurd h2.2 (by simp)
  have hpos : 0 < L.countP (fun r => preP P r.2 && !ltP (P ++ y) r.2) := by
    apply List.countP_pos_iff.mpr
    refine ⟨(p', P ++ y), hrow, ?_⟩
    simp only [preP, ltP, Bool.and_eq_true, Bool.not_eq_true', decide_eq_false_iff_not]
    exact ⟨isPrefixOf_iff.mpr ⟨y, rfl⟩, List.lt_irrefl _⟩
  unfold occs cntq at hocc
  omega

/-! ### The loop of `extract_id` -/

theorem mem_bwt_of_row {T : List Sym} {L : List Row} {ix : Index} (hB : Built T L ix) {c : Sym} {s : List Sym}
    (h : (some c, s) ∈ L) : c ∈ ix.bwt := by
  rw [hB.bwt]
  exact List.mem_map.mpr ⟨(some c, s), h, rfl⟩

/-- From the row of `v ++ R0`, where the text reads `… \1 u v R0` with `u` free of separators, the loop
returns `u ++ v` (it stops at the `\1` in front of `u`). `ur` is `u` reversed. -/
theorem extractLoop_spec {T : List Sym} {L : List Row} {ix : Index} (hSA : IsSA T L) (hB : Built T L ix)
    (maxLen : Nat) (R0 : List Sym) : ∀ (ur v : List Sym) (P0 : List Sym) (fuel : Nat),
    T = P0 ++ 1 :: (ur.reverse ++ v ++ R0) → Ge2 ur → ur.length < fuel → ur.length + v.length ≤ maxLen + 1 →
    extractLoop ix maxLen fuel (lo L (v ++ R0)) v = some (ur.reverse ++ v)
  | [], v, P0, fuel, hT, _, hf, _ => by
    obtain ⟨f, rfl⟩ : ∃ f, fuel = f + 1 := ⟨fuel - 1, by omega⟩
    simp only [List.reverse_nil, List.nil_append] at hT ⊢
    have hrow : (some 1, v ++ R0) ∈ L :=
      hSA.1.mem_iff.mpr (by rw [rows, hT]; exact mem_rows_of_split 1 (v ++ R0) P0 none)
    obtain ⟨hacc, _, _⟩ := lf_step hSA hB (by decide) hrow
    unfold extractLoop
    rw [hacc]
    simp
  | c :: ur, v, P0, fuel, hT, hge, hf, hlen => by
    obtain ⟨f, rfl⟩ : ∃ f, fuel = f + 1 := ⟨fuel - 1, by simp at hf; omega⟩
    have hc2 : 2 ≤ c := hge.head
    have hT' : T = (P0 ++ 1 :: ur.reverse) ++ c :: (v ++ R0) := by
      rw [hT]; simp [List.append_assoc]
    have hrow : (some c, v ++ R0) ∈ L :=
      hSA.1.mem_iff.mpr (by rw [rows, hT']; exact mem_rows_of_split c (v ++ R0) _ none)
    obtain ⟨hacc, hlo, _⟩ := lf_step hSA hB (by omega) hrow
    have hocc := (hB.occ c (by omega) (mem_bwt_of_row hB hrow)).1
    unfold extractLoop
    rw [hacc]
    simp only [List.length_cons] at hlen hf
    have h1 : ¬ c = 1 := by omega
    have h2 : ¬ maxLen < v.length := by omega
    simp only [h1, h2, ↓reduceIte, hocc, Nat.add_one_ne_zero, Nat.add_sub_cancel]
    have hidx : cnt ix.bwt c (lo L (v ++ R0)) + occOf T c = lo L ((c :: v) ++ R0) := by
      rw [List.cons_append, hlo]; omega
    rw [hidx]
    have := extractLoop_spec hSA hB maxLen R0 ur (c :: v) P0 f
      (by rw [hT]; simp [List.append_assoc]) hge.tail (by omega) (by simp only [List.length_cons]; omega)
    rw [this]
    simp [List.append_assoc]

/-! ### The start row -/

theorem head_pos_of_sep (a R : List Sym) (ha : Ge2 a) : ∃ y t, a ++ 1 :: R = y :: t ∧ 1 ≤ y := by
  cases a with
  | nil => exact ⟨1, R, rfl, Nat.le_refl _⟩
  | cons z w => exact ⟨z, w ++ 1 :: R, rfl, by have := ha.head; omega⟩

theorem sepSum_nil0 : ∀ (S : List Str), ValidS S → sepSum (ltP [1, 0]) S = 0
  | [], _ => by simp [sepSum, ltP, b2n, List.lt_irrefl]
  | s :: rest, hv => by
    have ih := sepSum_nil0 rest (fun t ht => hv t (List.mem_cons_of_mem _ ht))
    obtain ⟨y, t, he, hy⟩ := head_pos_of_sep (symsOf s) (body rest) (hv s List.mem_cons_self)
    have : ltP [1, 0] (1 :: (symsOf s ++ 1 :: body rest)) = false := by
      simp only [ltP, List.cons_append, List.cons_lt_cons_iff, Nat.lt_irrefl, true_and, false_or, he,
        List.not_lt_nil, and_false, or_false, decide_eq_false_iff_not]
      omega
    simp only [sepSum, ih, List.cons_append, this, b2n]
    simp

theorem lo_nil0 {L : List Row} {S : List Str} (hSA : IsSA (mkText S) L) (hv : ValidS S) : lo L [1, 0] = 2 := by
  unfold lo
  have hk : Kills (ltP [1, 0]) := by
    intro x t hx
    simp only [ltP, List.cons_lt_cons_iff, decide_eq_false_iff_not]
    omega
  rw [cntq_mkText hSA hv hk, sepSum_nil0 S hv]
  simp [ltP, b2n, List.cons_lt_cons_iff]

end CSD.FM
