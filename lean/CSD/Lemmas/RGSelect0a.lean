import CSD.Lemmas.RGSelect2

/-! `BitSequenceRG::select0`, the part inside one word: byte skips and the bit loop
(the mirror image of `RGSelect1` with zeros for ones). -/
namespace CSD.RG

/-- Zeros among the low `q` bits of `j`. -/
def cz (j q : Nat) : Nat := ((List.range q).map j.testBit).count false

theorem cz_zero (j : Nat) : cz j 0 = 0 := rfl

theorem cz_succ (j q : Nat) : cz j (q + 1) = cz j q + (if j.testBit q then 0 else 1) := by
  unfold cz
  rw [List.range_succ, List.map_append, List.count_append]
  cases h : j.testBit q <;> simp [h]

theorem cz_add_cb (j q : Nat) : cz j q + cb j q = q := by
  induction q with
  | zero => rfl
  | succ q ih => rw [cz_succ, cb_succ]; split <;> omega

theorem cz_mono (j : Nat) : ∀ {a b : Nat}, a ≤ b → cz j a ≤ cz j b := by
  intro a b h
  induction b with
  | zero => have : a = 0 := by omega
            subst this; exact Nat.le_refl _
  | succ b ih =>
    by_cases e : a = b + 1
    · subst e; exact Nat.le_refl _
    · have := ih (by omega)
      rw [cz_succ]; omega

theorem popcount_eq_cz (j : Nat) : W - popcount j = cz j 32 := by
  have := cz_add_cb j 32
  rw [popcount_eq_cb]; unfold W; omega

theorem popcount8_eq_cz (j : Nat) : 8 - popcount8 j = cz j 8 := by
  have := cz_add_cb j 8
  rw [popcount8_eq_cb]; omega

theorem cz_shift (j t : Nat) : ∀ q, cz (j >>> t) q = cz j (t + q) - cz j t := by
  intro q
  induction q with
  | zero => simp [cz_zero]
  | succ q ih =>
    have e : t + (q + 1) = (t + q) + 1 := by omega
    rw [cz_succ, e, cz_succ, ih, Nat.testBit_shiftRight]
    have := cz_mono j (show t ≤ t + q by omega)
    omega

theorem mod_two_eq_zero_iff_testBit (j : Nat) : j % 2 = 0 ↔ j.testBit 0 = false := by
  rw [Nat.testBit_zero]; simp

/-- **The bit loop** finds the `x`-th zero of `j`: if the low `fuel` bits of `j` hold at least `x` zeros,
it stops right behind that zero. -/
theorem selBits0_spec : ∀ (fuel j x left : Nat), x ≤ cz j fuel →
    ∃ q, selBits0 (fuel + 1) j x left = some (left + q) ∧ q ≤ fuel ∧ cz j q = x ∧
      (x > 0 → q > 0 ∧ j.testBit (q - 1) = false ∧ cz j (q - 1) = x - 1) := by
  intro fuel
  induction fuel with
  | zero =>
    intro j x left h
    have : x = 0 := by simpa [cz_zero] using h
    subst this
    exact ⟨0, by simp [selBits0], Nat.le_refl _, rfl, fun h => by omega⟩
  | succ fuel ih =>
    intro j x left h
    by_cases hx : x > 0
    · have h1 : cz j 1 = (if j.testBit 0 then 0 else 1) := by rw [cz_succ, cz_zero]; simp
      have hb : x - (if j.testBit 0 then 0 else 1) ≤ cz (j >>> 1) fuel := by
        rw [cz_shift j 1 fuel]
        have e : 1 + fuel = fuel + 1 := by omega
        rw [h1, e]; omega
      have hx' : (if j % 2 = 0 then x - 1 else x) = x - (if j.testBit 0 then 0 else 1) := by
        by_cases hb0 : j.testBit 0 = false
        · have := (mod_two_eq_zero_iff_testBit j).mpr hb0
          simp [this, hb0]
        · have h2 : ¬ j % 2 = 0 := fun h => hb0 ((mod_two_eq_zero_iff_testBit j).mp h)
          have hb1 : j.testBit 0 = true := by simpa using hb0
          simp [h2, hb1]
      obtain ⟨q, hq1, hq2, hq3, hq4⟩ := ih (j >>> 1) (x - (if j.testBit 0 then 0 else 1)) (left + 1) hb
      refine ⟨q + 1, ?_, by omega, ?_, fun _ => ⟨by omega, ?_, ?_⟩⟩
      · rw [selBits0, if_pos hx, hx', hq1]; congr 1; omega
      · rw [cz_shift j 1 q] at hq3
        have e : 1 + q = q + 1 := by omega
        rw [e] at hq3
        have := cz_mono j (show 1 ≤ q + 1 by omega)
        have hle : (if j.testBit 0 then 0 else 1) ≤ x := by split <;> omega
        generalize (if j.testBit 0 then 0 else 1) = b0 at *
        omega
      · by_cases hq0 : q = 0
        · subst hq0
          simp only [Nat.zero_add, Nat.sub_self]
          have : cz (j >>> 1) 0 = 0 := cz_zero _
          rw [this] at hq3
          by_cases hb0 : j.testBit 0 = false
          · exact hb0
          · have hb1 : j.testBit 0 = true := by simpa using hb0
            simp [hb1] at hq3; omega
        · have hpos : x - (if j.testBit 0 then 0 else 1) > 0 := by
            rcases Nat.eq_zero_or_pos (x - (if j.testBit 0 then 0 else 1)) with e | e
            · exfalso
              rw [e] at hq1
              have : selBits0 (fuel + 1) (j >>> 1) 0 (left + 1) = some (left + 1) := by simp [selBits0]
              rw [this] at hq1
              have := Option.some.inj hq1
              omega
            · exact e
          obtain ⟨_, hb, _⟩ := hq4 hpos
          rw [Nat.testBit_shiftRight] at hb
          have e : q + 1 - 1 = 1 + (q - 1) := by omega
          rw [e]; exact hb
      · by_cases hq0 : q = 0
        · subst hq0
          simp only [Nat.zero_add, Nat.sub_self, cz_zero]
          have : cz (j >>> 1) 0 = 0 := cz_zero _
          rw [this] at hq3
          have h1' : (if j.testBit 0 then 0 else 1) ≤ 1 := by split <;> omega
          omega
        · have hpos : x - (if j.testBit 0 then 0 else 1) > 0 := by
            rcases Nat.eq_zero_or_pos (x - (if j.testBit 0 then 0 else 1)) with e | e
            · exfalso
              rw [e] at hq1
              have : selBits0 (fuel + 1) (j >>> 1) 0 (left + 1) = some (left + 1) := by simp [selBits0]
              rw [this] at hq1
              have := Option.some.inj hq1
              omega
            · exact e
          obtain ⟨_, _, hc⟩ := hq4 hpos
          rw [cz_shift j 1 (q - 1)] at hc
          have e : q + 1 - 1 = 1 + (q - 1) := by omega
          rw [e]
          have := cz_mono j (show 1 ≤ 1 + (q - 1) by omega)
          omega
    · have : x = 0 := by omega
      subst this
      exact ⟨0, by simp [selBits0], by omega, cz_zero j, fun h => by omega⟩

/-- **The byte skips** keep the invariant. -/
theorem selBytes0_spec (j x : Nat) (h1 : 1 ≤ x) (h2 : x ≤ cz j 32) :
    ∃ off, selBytes0 j x = (j >>> off, x - cz j off, off) ∧ off ≤ 24 ∧ cz j off < x ∧ x - cz j off ≤ cz (j >>> off) (32 - off) := by
  have hfin : ∀ off, off ≤ 24 → cz j off < x → x - cz j off ≤ cz (j >>> off) (32 - off) := by
    intro off ho hlt
    rw [cz_shift]
    have e : off + (32 - off) = 32 := by omega
    rw [e]; omega
  have h8 : ∀ t, 8 - popcount8 (j >>> t) = cz j (t + 8) - cz j t := by
    intro t; rw [popcount8_eq_cz, cz_shift]
  unfold selBytes0
  have m1 := cz_mono j (show 0 ≤ 8 by omega)
  have m2 := cz_mono j (show 8 ≤ 16 by omega)
  have m3 := cz_mono j (show 16 ≤ 24 by omega)
  have hp0 : 8 - popcount8 j = cz j 8 := popcount8_eq_cz j
  by_cases c1 : 8 - popcount8 j < x
  · rw [if_pos c1]
    simp only
    have hs1 : 8 - popcount8 (j >>> 8) = cz j 16 - cz j 8 := h8 8
    by_cases c2 : 8 - popcount8 (j >>> 8) < x - (8 - popcount8 j)
    · rw [if_pos c2]
      have hs2 : 8 - popcount8 (j >>> 8 >>> 8) = cz j 24 - cz j 16 := by
        rw [← Nat.shiftRight_add]; exact h8 16
      by_cases c3 : 8 - popcount8 (j >>> 8 >>> 8) < x - (8 - popcount8 j) - (8 - popcount8 (j >>> 8))
      · rw [if_pos c3]
        refine ⟨24, ?_, by omega, by omega, hfin 24 (by omega) (by omega)⟩
        rw [← Nat.shiftRight_add, ← Nat.shiftRight_add]
        congr 2; omega
      · rw [if_neg c3]
        refine ⟨16, ?_, by omega, by omega, hfin 16 (by omega) (by omega)⟩
        rw [← Nat.shiftRight_add]
        congr 2; omega
    · rw [if_neg c2]
      refine ⟨8, ?_, by omega, by omega, hfin 8 (by omega) (by omega)⟩
      congr 2; omega
  · rw [if_neg c1]
    exact ⟨0, by simp [cz_zero], by omega, by rw [cz_zero]; omega, by simpa [cz_zero] using h2⟩

end CSD.RG
