/-
  FM-index, part 5: the dictionary layer.  In the text `\1 s₁ \1 … sₙ \1 \0` built from
  a valid dictionary the rows below `\1 q \1` are `[]`, `[0]`, `[1,0]` and the
  separator suffixes of the members below `q`; the rows starting with `\1 q \1` are the
  separator suffixes of the members equal to `q`.  Hence `StringDictionaryFMINDEX::locate`
  returns the rank of a member and 0 for every other string.
-/
import CSD.Lemmas.FM4
import CSD.Lemmas.Sorted

namespace CSD.FM

/-- All symbols are ordinary bytes (not the terminator 0, not the separator 1). -/
def Ge2 (l : List Sym) : Prop := ∀ x ∈ l, 2 ≤ x

theorem Ge2.tail {x : Sym} {l : List Sym} (h : Ge2 (x :: l)) : Ge2 l := fun y hy => h y (List.mem_cons_of_mem _ hy)
theorem Ge2.head {x : Sym} {l : List Sym} (h : Ge2 (x :: l)) : 2 ≤ x := h x List.mem_cons_self

/-! ### Comparisons against a separator-terminated pattern -/

theorem sep_lt_iff : ∀ (a q R : List Sym), Ge2 a → Ge2 q → (a ++ 1 :: R < q ++ [1] ↔ a < q)
  | [], [], R, _, _ => by simp [List.cons_lt_cons_iff]
  | [], y :: q, R, _, hq => by
    have := hq.head
    simp only [List.nil_append, List.cons_append, List.cons_lt_cons_iff, List.nil_lt_cons, iff_true]
    left; omega
  | x :: a, [], R, ha, _ => by
    have := ha.head
    simp only [List.cons_append, List.nil_append, List.cons_lt_cons_iff, List.not_lt_nil, and_false, or_false, iff_false]
    omega
  | x :: a, y :: q, R, ha, hq => by
    simp only [List.cons_append, List.cons_lt_cons_iff, sep_lt_iff a q R ha.tail hq.tail]

theorem sep_prefix_iff : ∀ (q a R : List Sym), Ge2 a → Ge2 q → ((q ++ [1]).isPrefixOf (a ++ 1 :: R) = true ↔ a = q)
  | [], [], R, _, _ => by simp [List.isPrefixOf]
  | [], x :: a, R, ha, _ => by
    have := ha.head
    simp only [List.nil_append, List.cons_append, List.isPrefixOf, Bool.and_eq_true, beq_iff_eq]
    constructor
    · rintro ⟨h, _⟩; omega
    · intro h; cases h
  | y :: q, [], R, _, hq => by
    have := hq.head
    simp only [List.nil_append, List.cons_append, List.isPrefixOf, Bool.and_eq_true, beq_iff_eq]
    constructor
    · rintro ⟨h, _⟩; omega
    · intro h; cases h
  | y :: q, x :: a, R, ha, hq => by
    simp only [List.cons_append, List.isPrefixOf, Bool.and_eq_true, beq_iff_eq, sep_prefix_iff q a R ha.tail hq.tail,
      List.cons.injEq]
    constructor
    · rintro ⟨h1, h2⟩; exact ⟨h1.symm, h2⟩
    · rintro ⟨h1, h2⟩; exact ⟨h1.symm, h2⟩

/-! ### Counting over the suffixes of the text -/

def b2n (b : Bool) : Nat := if b then 1 else 0

/-- Number of suffixes satisfying `f`. -/
def sufCount (f : List Sym → Bool) : List Sym → Nat
  | [] => b2n (f [])
  | x :: t => b2n (f (x :: t)) + sufCount f t

theorem countP_rowsFrom (f : List Sym → Bool) : ∀ (X : List Sym) (p : Option Sym),
    (rowsFrom p X).countP (fun r => f r.2) = sufCount f X
  | [], p => by simp only [rowsFrom, List.countP_cons, List.countP_nil, sufCount, b2n]; omega
  | x :: t, p => by
    simp only [rowsFrom, List.countP_cons, countP_rowsFrom f t (some x), sufCount, b2n]; omega

/-- `f` is false on every suffix that starts with an ordinary byte. -/
def Kills (f : List Sym → Bool) : Prop := ∀ x t, 2 ≤ x → f (x :: t) = false

theorem sufCount_append {f : List Sym → Bool} (hk : Kills f) : ∀ (a R : List Sym), Ge2 a →
    sufCount f (a ++ 1 :: R) = sufCount f (1 :: R)
  | [], R, _ => rfl
  | x :: a, R, ha => by
    simp only [List.cons_append, sufCount, hk x _ ha.head, b2n, sufCount_append hk a R ha.tail]
    simp

/-- The contribution of the separator suffixes. -/
def sepSum (f : List Sym → Bool) : List Str → Nat
  | [] => b2n (f [1, 0])
  | s :: rest => b2n (f (1 :: symsOf s ++ 1 :: body rest)) + sepSum f rest

def ValidS (S : List Str) : Prop := ∀ s ∈ S, Ge2 (symsOf s)

theorem sufCount_mkText {f : List Sym → Bool} (hk : Kills f) : ∀ (S : List Str), ValidS S →
    sufCount f (mkText S) = sepSum f S + b2n (f [0]) + b2n (f [])
  | [], _ => by simp [mkText, body, sufCount, sepSum]; omega
  | s :: rest, hv => by
    have ih := sufCount_mkText hk rest (fun t ht => hv t (List.mem_cons_of_mem _ ht))
    have hs : Ge2 (symsOf s) := hv s List.mem_cons_self
    simp only [mkText, body, sufCount, sepSum, List.cons_append] at ih ⊢
    rw [sufCount_append hk _ _ hs]
    simp only [sufCount]
    omega

theorem cntq_mkText {L : List Row} {S : List Str} (hSA : IsSA (mkText S) L) (hv : ValidS S)
    {f : List Sym → Bool} (hk : Kills f) : cntq L f = sepSum f S + b2n (f [0]) + b2n (f []) := by
  unfold cntq
  rw [hSA.1.countP_eq, rows, countP_rowsFrom, sufCount_mkText hk S hv]

/-! ### The pattern `\1 q \1` -/

def patOf (q : Str) : List Sym := 1 :: (symsOf q ++ [1])

theorem kills_ltP_pat (q : Str) : Kills (ltP (patOf q)) := by
  intro x t hx
  simp only [ltP, patOf, List.cons_lt_cons_iff, decide_eq_false_iff_not]
  omega

theorem kills_preP_pat (q : Str) : Kills (preP (patOf q)) := by
  intro x t hx
  simp only [preP, patOf, List.isPrefixOf, Bool.and_eq_false_imp, beq_iff_eq]
  omega

theorem nil0_lt_pat (q : Str) (hq : Ge2 (symsOf q)) : ([1, 0] : List Sym) < patOf q := by
  unfold patOf
  rw [List.cons_lt_cons_iff]; right; refine ⟨rfl, ?_⟩
  cases h : symsOf q with
  | nil => simp [List.cons_lt_cons_iff]
  | cons y t =>
    have := Ge2.head (by rw [← h]; exact hq)
    simp only [List.cons_append, List.cons_lt_cons_iff]
    left; omega

theorem sepSum_ltP {q : Str} (hq : Ge2 (symsOf q)) : ∀ (S : List Str), ValidS S →
    sepSum (ltP (patOf q)) S = 1 + S.countP (fun s => decide (symsOf s < symsOf q))
  | [], _ => by
    simp [sepSum, ltP, nil0_lt_pat q hq, b2n]
  | s :: rest, hv => by
    have ih := sepSum_ltP hq rest (fun t ht => hv t (List.mem_cons_of_mem _ ht))
    have hs : Ge2 (symsOf s) := hv s List.mem_cons_self
    have key : ltP (patOf q) (1 :: symsOf s ++ 1 :: body rest) = decide (symsOf s < symsOf q) := by
      simp only [ltP, patOf, List.cons_append, List.cons_lt_cons_iff, Nat.lt_irrefl, true_and, false_or,
        sep_lt_iff _ _ _ hs hq]
    rw [sepSum, ih, key, List.countP_cons]
    by_cases h : symsOf s < symsOf q <;> simp [h, b2n] <;> omega

theorem not_pre_nil0 (q : Str) (hq : Ge2 (symsOf q)) : preP (patOf q) [1, 0] = false := by
  unfold patOf preP
  cases h : symsOf q with
  | nil => simp [List.isPrefixOf]
  | cons y t =>
    have := Ge2.head (by rw [← h]; exact hq)
    simp only [List.cons_append, List.isPrefixOf, beq_self_eq_true, Bool.true_and, Bool.and_eq_false_imp, beq_iff_eq]
    intro e; omega

theorem sepSum_preP {q : Str} (hq : Ge2 (symsOf q)) : ∀ (S : List Str), ValidS S →
    sepSum (preP (patOf q)) S = S.countP (fun s => decide (symsOf s = symsOf q))
  | [], _ => by
    simp [sepSum, not_pre_nil0 q hq, b2n]
  | s :: rest, hv => by
    have ih := sepSum_preP hq rest (fun t ht => hv t (List.mem_cons_of_mem _ ht))
    have hs : Ge2 (symsOf s) := hv s List.mem_cons_self
    have key : preP (patOf q) (1 :: symsOf s ++ 1 :: body rest) = decide (symsOf s = symsOf q) := by
      have := sep_prefix_iff (symsOf q) (symsOf s) (body rest) hs hq
      simp only [preP, patOf, List.cons_append, List.isPrefixOf, beq_self_eq_true, Bool.true_and]
      by_cases h : symsOf s = symsOf q
      · simp [this.mpr h, h]
      · have h2 : (symsOf q ++ [1]).isPrefixOf (symsOf s ++ 1 :: body rest) = false := by
          cases hh : (symsOf q ++ [1]).isPrefixOf (symsOf s ++ 1 :: body rest) with
          | false => rfl
          | true => exact absurd (this.mp hh) h
        simp [h2, h]
    rw [sepSum, ih, key, List.countP_cons]
    by_cases h : symsOf s = symsOf q <;> simp [h, b2n] <;> omega

theorem lo_pat {L : List Row} {S : List Str} (hSA : IsSA (mkText S) L) (hv : ValidS S) {q : Str} (hq : Ge2 (symsOf q)) :
    lo L (patOf q) = 3 + S.countP (fun s => decide (symsOf s < symsOf q)) := by
  unfold lo
  rw [cntq_mkText hSA hv (kills_ltP_pat q), sepSum_ltP hq S hv]
  have h1 : ltP (patOf q) [0] = true := by simp [ltP, patOf, List.cons_lt_cons_iff]
  have h2 : ltP (patOf q) [] = true := by simp [ltP, patOf]
  simp [h1, h2, b2n]; omega

theorem occs_pat {L : List Row} {S : List Str} (hSA : IsSA (mkText S) L) (hv : ValidS S) {q : Str} (hq : Ge2 (symsOf q)) :
    occs L (patOf q) = S.countP (fun s => decide (symsOf s = symsOf q)) := by
  unfold occs
  rw [cntq_mkText hSA hv (kills_preP_pat q), sepSum_preP hq S hv]
  have h1 : preP (patOf q) [0] = false := by simp [preP, patOf, List.isPrefixOf]
  have h2 : preP (patOf q) [] = false := by simp [preP, patOf, List.isPrefixOf]
  simp [h1, h2, b2n]

end CSD.FM
