import CSD.Model.RPDACImage
import CSD.Lemmas.DACImage
import CSD.Lemmas.LogSeqIO

/-! `StringDictionaryRPDAC::load ∘ save = id` on bytes (with `RePair::load ∘ save`). -/
namespace CSD.RPDACImg
open CSD.LogSeq (leBytes fromLE readLE leBytes_length fromLE_leBytes readLE_leBytes)

structure WFRP (r : RP) : Prop where
  mc : r.maxchar < 256
  t : r.terminals < 2 ^ 64
  ru : r.rules < 2 ^ 64
  gb : r.G.numbits < 256
  gn : r.G.numentries < 2 ^ 64
  gd : r.G.data.length = LogSeq.numWords r.G.numbits r.G.numentries
  enc : r.encoding < 2 ^ 32
  dac : DACImg.WF r.cdac

theorem loadRP_saveRP (tag tagH : Nat) (r : RP) (wf : WFRP r) (henc : r.encoding = tag ∨ r.encoding = tagH)
    (rest : List UInt8) : loadRP tag tagH (saveRP r ++ rest) = some (r, rest) := by
  unfold loadRP saveRP
  simp only [List.append_assoc]
  rw [readLE_leBytes 1 r.maxchar (by have := wf.mc; omega)]
  simp only
  rw [readLE_leBytes 8 r.terminals (by have := wf.t; omega)]
  simp only
  rw [readLE_leBytes 8 r.rules (by have := wf.ru; omega)]
  simp only
  rw [LogSeq.load_save r.G wf.gb wf.gn wf.gd]
  simp only
  rw [readLE_leBytes 4 r.encoding (by have := wf.enc; omega)]
  simp only [henc, ↓reduceIte]
  rw [DACImg.loadImg_saveImg r.cdac wf.dac]

structure WF (d : Img) : Prop where
  el : d.elements < 2 ^ 64
  ml : d.maxlength < 2 ^ 32
  rp : WFRP d.rp

/-- **`load (save d ++ rest) = (d, rest)`** for a StringDictionaryRPDAC image: the image is
self-delimiting and every field — counters, grammar, rule table, sequences, bitmap — comes back. -/
theorem load_save (tag tagH : Nat) (htag : tag < 2 ^ 32) (d : Img) (wf : WF d) (henc : d.rp.encoding = tag ∨ d.rp.encoding = tagH)
    (rest : List UInt8) : load tag tagH (save tag d ++ rest) = some (d, rest) := by
  unfold load save
  simp only [List.append_assoc]
  rw [readLE_leBytes 4 tag (by omega)]
  simp only [ne_eq, not_true_eq_false, ↓reduceIte]
  rw [readLE_leBytes 8 d.elements (by have := wf.el; omega)]
  simp only
  rw [readLE_leBytes 4 d.maxlength (by have := wf.ml; omega)]
  simp only
  rw [loadRP_saveRP tag tagH d.rp wf.rp henc]

/-- A foreign tag is refused. -/
theorem load_foreign (tag tagH t : Nat) (ht : t < 2 ^ 32) (hne : t ≠ tag) (rest : List UInt8) :
    load tag tagH (leBytes t 4 ++ rest) = none := by
  unfold load
  rw [readLE_leBytes 4 t (by omega)]
  simp [hne]

end CSD.RPDACImg
